(* C18: inductive invariant of the thread-level model (Conc/Standalone.v) and its consequences:
   mutual exclusion of serving threads (second serve_forever refused), lock discipline, and -- for the guarded
   shutdown (one event per run captured under the bootstrap lock) -- deadlock freedom for any number of threads and any
   interleaving. *)
From Coq Require Import List Bool Arith Lia.
From EN Require Import Gen.ParamsC18 Conc.Standalone.
Import ListNotations.

(* the regenerated parameter stays folded: the proofs below must hold whatever it says *)
Local Opaque standalone_shutdown_guarded.

Definition isV1 pc := match pc with V1 => true | _ => false end.
Definition isV2 pc := match pc with V2 => true | _ => false end.
Definition isV4 pc := match pc with V4 => true | _ => false end.
Definition isV5 pc := match pc with V5 => true | _ => false end.
Definition isH1 pc := match pc with H1 => true | _ => false end.
Definition isC1 pc := match pc with C1 => true | _ => false end.
Definition isC2 pc := match pc with C2 => true | _ => false end.

Definition cnt (p : tpc -> bool) (l : list (nat * tpc)) : nat := length (filter (fun e => p (snd e)) l).

Lemma cnt_app p a b : cnt p (a ++ b) = cnt p a + cnt p b.
Proof. unfold cnt. now rewrite filter_app, app_length. Qed.
Lemma cnt_one p i pc : cnt p [(i, pc)] = if p pc then 1 else 0.
Proof. unfold cnt. simpl. destruct (p pc); reflexivity. Qed.
Lemma cnt_nil p : cnt p [] = 0. Proof. reflexivity. Qed.

Lemma ttake_cnt p id : forall l pc r, ttake id l = Some (pc, r) -> cnt p l = (if p pc then 1 else 0) + cnt p r.
Proof.
  induction l as [|[i x] l IH]; simpl; intros pc r H; [discriminate|].
  destruct (Nat.eqb i id).
  - inversion H; subst. unfold cnt. simpl. destruct (p pc); simpl; lia.
  - destruct (ttake id l) as [[y r']|] eqn:T; [|discriminate]. inversion H; subst.
    specialize (IH _ _ eq_refl). unfold cnt in *. simpl. destruct (p x); simpl; lia.
Qed.

Lemma ttake_props id : forall l pc r, ttake id l = Some (pc, r) ->
  In (id, pc) l /\ (forall e, In e r -> In e l) /\
  (NoDup (map fst l) -> NoDup (map fst r) /\ ~ In id (map fst r)).
Proof.
  induction l as [|[i x] l IH]; simpl; intros pc r H; [discriminate|].
  destruct (Nat.eqb i id) eqn:E.
  - inversion H; subst. apply Nat.eqb_eq in E. subst. split; [now left|]. split; [intros; now right|].
    intros ND. inversion ND; subst. auto.
  - destruct (ttake id l) as [[y r']|] eqn:T; [|discriminate]. inversion H; subst.
    destruct (IH _ _ eq_refl) as (A&B&C). split; [now right|]. split.
    + intros e [He|He]; [now left | right; auto].
    + intros ND. simpl in ND. inversion ND; subst. destruct (C H3) as [C1 C2]. simpl. split.
      * constructor; auto. intros Hin. apply H2. apply in_map_iff in Hin. destruct Hin as [[a b] [Ha Hb]].
        simpl in Ha. subst. apply in_map_iff. exists (i, b). split; auto.
      * intros [Hx|Hx]; [apply Nat.eqb_neq in E; congruence | auto].
Qed.

Lemma ttake_found : forall l i pc, NoDup (map fst l) -> In (i, pc) l -> exists r, ttake i l = Some (pc, r).
Proof.
  induction l as [|[j x] l IH]; simpl; intros i pc ND Hin; [tauto|].
  inversion ND; subst. destruct Hin as [Hin|Hin].
  - inversion Hin; subst. rewrite Nat.eqb_refl. eauto.
  - destruct (Nat.eqb j i) eqn:E.
    + apply Nat.eqb_eq in E. subst. exfalso. apply H1. apply in_map_iff. exists (i, pc). auto.
    + destruct (IH _ _ H2 Hin) as [r Hr]. rewrite Hr. eauto.
Qed.

Lemma cnt_pos p : forall l, 0 < cnt p l -> exists i pc, In (i, pc) l /\ p pc = true.
Proof.
  induction l as [|[i x] l IH]; unfold cnt; simpl; intros H; [lia|].
  destruct (p x) eqn:E.
  - exists i, x. split; auto.
  - destruct (IH H) as (j&pc&A&B). exists j, pc. split; auto.
Qed.

Lemma cnt_in p l i pc : In (i, pc) l -> p pc = true -> 0 < cnt p l.
Proof.
  induction l as [|[j x] l IH]; simpl; intros Hin Hp; [tauto|]. unfold cnt in *. simpl.
  destruct Hin as [Hin|Hin].
  - inversion Hin; subst. rewrite Hp. simpl. lia.
  - destruct (p x); simpl; specialize (IH Hin Hp); lia.
Qed.

Definition b2n (b : bool) : nat := if b then 1 else 0.
Definition held (o : option nat) : nat := match o with Some _ => 1 | None => 0 end.

Record TInv (s : tst) : Prop := {
  ti_nodup : NoDup (map fst (thr s));
  ti_fresh : forall i pc, In (i, pc) (thr s) -> i < next_t s;
  ti_boot : cnt isV2 (thr s) + cnt isH1 (thr s) + cnt isC2 (thr s) = held (boot_l s);
  ti_close : cnt isV1 (thr s) + cnt isV2 (thr s) + cnt isC1 (thr s) + cnt isC2 (thr s) = held (close_l s);
  ti_run : cnt isV2 (thr s) + cnt isV4 (thr s) + cnt isV5 (thr s) = b2n (negb (t_shut s));
  ti_gen : tgen s = tfin s + b2n (negb (t_shut s));
  ti_infl : inflight s = cnt isH1 (thr s) + cnt isC2 (thr s);
  ti_portal : b2n (portal s) = cnt isV4 (thr s) + cnt isV5 (thr s);
  ti_alive : b2n (alive s) = cnt isV4 (thr s);
  ti_arun : b2n (arun s) <= cnt isV4 (thr s);
  ti_stop : cnt isH1 (thr s) <= b2n (astop s);
  ti_open : cnt isV1 (thr s) + cnt isV2 (thr s) <= b2n (negb (t_closed s));
  ti_wait : forall i g, In (i, H2 g) (thr s) ->
              g <= tgen s /\
              (tfin s < g -> 1 <= cnt isV5 (thr s) \/ (1 <= cnt isV4 (thr s) /\ (1 <= b2n (astop s) \/ b2n (arun s) = 0)))
}.

Lemma tinv_init : TInv tinit.
Proof.
  constructor; simpl; try reflexivity; try tauto; try lia; try discriminate; try (unfold cnt; simpl; lia).
  constructor.
Qed.

(* all count equations for the threads after removing thread id at pc *)
Ltac counts Tk :=
  pose proof (ttake_cnt isV1 _ _ _ _ Tk) as K1; pose proof (ttake_cnt isV2 _ _ _ _ Tk) as K2;
  pose proof (ttake_cnt isV4 _ _ _ _ Tk) as K4; pose proof (ttake_cnt isV5 _ _ _ _ Tk) as K5;
  pose proof (ttake_cnt isH1 _ _ _ _ Tk) as KH; pose proof (ttake_cnt isC1 _ _ _ _ Tk) as KC1;
  pose proof (ttake_cnt isC2 _ _ _ _ Tk) as KC2; simpl in K1, K2, K4, K5, KH, KC1, KC2.

Ltac cnts := rewrite ?cnt_app, ?cnt_one; simpl.

Lemma in_rest_app {X} (e : X) rest x : In e (rest ++ [x]) -> In e rest \/ e = x.
Proof. intros H. apply in_app_or in H. destruct H as [H|[H|[]]]; auto. Qed.

Lemma NoDup_snoc {X} (l : list X) x : NoDup l -> ~ In x l -> NoDup (l ++ [x]).
Proof.
  induction l as [|a l IH]; simpl; intros ND NI.
  - constructor; [tauto | constructor].
  - inversion ND; subst. constructor.
    + intros H. apply in_app_or in H. destruct H as [H|[H|[]]]; [tauto | subst; tauto].
    + apply IH; auto.
Qed.

Lemma nodup_app_one (rest : list (nat * tpc)) id pc :
  NoDup (map fst rest) -> ~ In id (map fst rest) -> NoDup (map fst (rest ++ [(id, pc)])).
Proof.
  intros ND NI. rewrite map_app. simpl. apply NoDup_snoc; auto.
Qed.

Lemma free_true o : free o = true -> o = None.
Proof. destruct o; simpl; congruence. Qed.

(* turn the recorded conditions into usable facts *)
Ltac norm_conds :=
  repeat match goal with
  | H : free _ = true |- _ => apply free_true in H
  | H : _ && _ = true |- _ => apply andb_true_iff in H; destruct H
  | H : negb _ = true |- _ => apply negb_true_iff in H
  | H : Nat.eqb _ _ = true |- _ => apply Nat.eqb_eq in H
  end.

Lemma b2n_le1 b : b2n b <= 1. Proof. destruct b; simpl; lia. Qed.

Ltac use_eqs :=
  repeat match goal with
  | H : boot_l _ = _ |- _ => rewrite H in *; clear H
  | H : close_l _ = _ |- _ => rewrite H in *; clear H
  | H : t_shut _ = _ |- _ => rewrite H in *; clear H
  | H : t_closed _ = _ |- _ => rewrite H in *; clear H
  | H : portal _ = _ |- _ => rewrite H in *; clear H
  | H : alive _ = _ |- _ => rewrite H in *; clear H
  | H : arun _ = _ |- _ => rewrite H in *; clear H
  | H : astop _ = _ |- _ => rewrite H in *; clear H
  | H : inflight _ = 0 |- _ => rewrite H in *; clear H
  end.

Ltac split_conds St :=
  repeat match type of St with
  | context [if ?c then _ else _] => let E := fresh "E" in destruct c eqn:E
  end.

Lemma tinv_step s l s' o : TInv s -> tstep s l = Some (s', o) -> TInv s'.
Proof.
  intros I St. destruct I as [ND FR BO CL RU GE IN PO AL AR SP OP WT].
  destruct l as [k|id|]; simpl in St.
  - (* spawn *)
    inversion St; subst; clear St.
    assert (F : forall p, cnt p (thr s ++ [(next_t s, first_pc k)]) = cnt p (thr s) + (if p (first_pc k) then 1 else 0)).
    { intros p. now rewrite cnt_app, cnt_one. }
    constructor; simpl; rewrite ?F; try (destruct k; simpl; lia).
    + apply nodup_app_one; auto. intros Hin. apply in_map_iff in Hin. destruct Hin as [[a b] [Ha Hb]].
      simpl in Ha. subst. apply (FR _ b) in Hb. lia.
    + intros i pc Hin. apply in_rest_app in Hin. destruct Hin as [Hin|Hin]; [apply (FR i pc) in Hin; lia | inversion Hin; lia].
    + intros i g Hin. apply in_rest_app in Hin. destruct Hin as [Hin|Hin]; [| destruct k; discriminate].
      specialize (WT i g Hin). destruct k; simpl; lia.
  - (* a thread runs one segment *)
    destruct (ttake id (thr s)) as [[pc rest]|] eqn:Tk; [|discriminate].
    destruct (ttake_props _ _ _ _ Tk) as (Hin&Hsub&Hnd). destruct (Hnd ND) as [NDr NIr].
    counts Tk.
    assert (FRr : forall i p, In (i, p) rest -> i < next_t s) by (intros; eapply FR; eauto).
    assert (FRi : id < next_t s) by (eapply FR; eauto).
    assert (WTr : forall i g, In (i, H2 g) rest ->
              g <= tgen s /\ (tfin s < g -> 1 <= cnt isV5 (thr s) \/ (1 <= cnt isV4 (thr s) /\ (1 <= b2n (astop s) \/ b2n (arun s) = 0))))
      by (intros i0 g0 H0; apply (WT i0 g0); auto).
    assert (NDa : forall pc', NoDup (map fst (rest ++ [(id, pc')]))) by (intros; apply nodup_app_one; auto).
    assert (FRa : forall pc' i p, In (i, p) (rest ++ [(id, pc')]) -> i < next_t s).
    { intros pc' i p H. apply in_rest_app in H. destruct H as [H|H]; [eauto | inversion H; subst; auto]. }
    rewrite K1, K2, K4, K5, KH, KC1, KC2 in *.
    assert (B5 : held (boot_l s) <= 1) by (destruct (boot_l s); simpl; lia).
    assert (B6 : held (close_l s) <= 1) by (destruct (close_l s); simpl; lia).
    pose proof (b2n_le1 (astop s)) as B1. pose proof (b2n_le1 (arun s)) as B2.
    pose proof (b2n_le1 (portal s)) as B3. pose proof (b2n_le1 (alive s)) as B4.
    destruct pc; simpl in *; split_conds St; try discriminate; inversion St; subst; clear St; norm_conds;
      (constructor; simpl; cnts;
       try apply NDa; try exact NDr; try apply FRa; try exact FRr;
       try (use_eqs; simpl in *; try (destruct (t_shut s) eqn:TS; simpl in * ); lia);
       try (intros i0 g0 Hw; try (apply in_rest_app in Hw; destruct Hw as [Hw|Hw]; [|inversion Hw; subst; clear Hw]);
            try (specialize (WTr i0 g0 Hw)); use_eqs; simpl in *; try (destruct (t_shut s) eqn:TS; simpl in * ); lia)).
  - (* the asynchronous run ends *)
    split_conds St; try discriminate. inversion St; subst; clear St. norm_conds.
    constructor; simpl; auto; try lia.
    intros i g Hin. specialize (WT i g Hin). lia.
Qed.

Theorem tinv_reachable : forall s, treachable s -> TInv s.
Proof. induction 1; [apply tinv_init | eapply tinv_step; eauto]. Qed.

(* ---------- consequences ---------- *)
Lemma is_pc_V2 pc : isV2 pc = true -> pc = V2. Proof. destruct pc; simpl; congruence. Qed.
Lemma is_pc_V4 pc : isV4 pc = true -> pc = V4. Proof. destruct pc; simpl; congruence. Qed.
Lemma is_pc_V5 pc : isV5 pc = true -> pc = V5. Proof. destruct pc; simpl; congruence. Qed.
Lemma is_pc_V1 pc : isV1 pc = true -> pc = V1. Proof. destruct pc; simpl; congruence. Qed.
Lemma is_pc_H1 pc : isH1 pc = true -> pc = H1. Proof. destruct pc; simpl; congruence. Qed.
Lemma is_pc_C1 pc : isC1 pc = true -> pc = C1. Proof. destruct pc; simpl; congruence. Qed.
Lemma is_pc_C2 pc : isC2 pc = true -> pc = C2. Proof. destruct pc; simpl; congruence. Qed.

(* at most one thread is past the entry checks of serve_forever, and exactly when the event is cleared *)
Lemma serving_threads_le_one s :
  treachable s ->
  cnt isV2 (thr s) + cnt isV4 (thr s) + cnt isV5 (thr s) = (if t_shut s then 0 else 1).
Proof. intros R. apply tinv_reachable in R. rewrite (ti_run s R). destruct (t_shut s); reflexivity. Qed.

(* a serve_forever thread that gets the locks while another one is serving is refused with ServerAlreadyRunning *)
Lemma second_serve_thread_refused s i j pc rest :
  treachable s -> In (j, pc) (thr s) -> (pc = V2 \/ pc = V4 \/ pc = V5) ->
  ttake i (thr s) = Some (V1, rest) -> boot_l s = None ->
  exists s', tstep s (TStep i) = Some (s', [(i, TAlreadyRunning)]) /\ close_l s' = None /\ t_shut s' = false.
Proof.
  intros R Hin Hpc Tk Bf. pose proof (serving_threads_le_one s R) as X. apply tinv_reachable in R.
  assert (t_shut s = false) as TS.
  { destruct (t_shut s); auto. exfalso.
    destruct Hpc as [Hp|[Hp|Hp]]; subst pc;
      [pose proof (cnt_in isV2 _ _ _ Hin eq_refl) | pose proof (cnt_in isV4 _ _ _ Hin eq_refl) | pose proof (cnt_in isV5 _ _ _ Hin eq_refl)]; lia. }
  simpl. rewrite Tk. simpl. rewrite Bf, TS. simpl. eexists. split; [reflexivity|]. simpl. auto.
Qed.

(* each lock has at most one holder, and the holder is where the code says *)
Lemma lock_holders s :
  treachable s ->
  cnt isV2 (thr s) + cnt isH1 (thr s) + cnt isC2 (thr s) = held (boot_l s) /\
  cnt isV1 (thr s) + cnt isV2 (thr s) + cnt isC1 (thr s) + cnt isC2 (thr s) = held (close_l s).
Proof. intros R. apply tinv_reachable in R. split; [apply (ti_boot s R) | apply (ti_close s R)]. Qed.

(* no portal and the bootstrap lock free  =>  the event is set (this is what makes the guarded shutdown correct) *)
Lemma no_portal_means_stopped s :
  treachable s -> boot_l s = None -> portal s = false -> t_shut s = true /\ tgen s = tfin s.
Proof.
  intros R B P. apply tinv_reachable in R.
  pose proof (ti_boot s R) as BO. pose proof (ti_run s R) as RU. pose proof (ti_portal s R) as PO. pose proof (ti_gen s R) as GE.
  rewrite B in BO. rewrite P in PO. simpl in *. destruct (t_shut s); simpl in *; [split; auto; lia | lia].
Qed.

(* a closed server never gets past the tests of serve_forever again: no thread sits between the __is_closed test and
   the start of a run, and a serve_forever thread that takes its first lock is refused with ServerClosedError *)
Lemma closed_refuses_threads s :
  treachable s -> t_closed s = true ->
  cnt isV1 (thr s) + cnt isV2 (thr s) = 0 /\
  (forall i rest, ttake i (thr s) = Some (V0, rest) -> close_l s = None ->
     exists s', tstep s (TStep i) = Some (s', [(i, TClosed)])).
Proof.
  intros R C. apply tinv_reachable in R. pose proof (ti_open s R) as OP. rewrite C in OP. simpl in OP. split; [lia|].
  intros i rest Tk F. simpl. rewrite Tk. simpl. rewrite F. simpl. rewrite C. simpl. eexists. reflexivity.
Qed.

(* ---------- deadlock freedom (guarded shutdown) ---------- *)
Definition tenabled (s : tst) : Prop := (exists id, tstep s (TStep id) <> None) \/ tstep s TAsyncEnd <> None.

Lemma step_of s i pc :
  TInv s -> In (i, pc) (thr s) -> (forall rest, seg s i pc rest <> None) -> tstep s (TStep i) <> None.
Proof.
  intros I Hin Hs. destruct (ttake_found _ _ _ (ti_nodup s I) Hin) as [r Hr]. simpl. rewrite Hr. apply Hs.
Qed.

Lemma v4_progress s j :
  TInv s -> boot_l s = None -> In (j, V4) (thr s) -> (arun s = false \/ astop s = true) -> tenabled s.
Proof.
  intros I B Hin Hc.
  pose proof (ti_boot s I) as BO. pose proof (ti_infl s I) as IN. rewrite B in BO. simpl in BO.
  destruct (arun s) eqn:A.
  - destruct Hc as [Hc|Hc]; [discriminate|]. right. simpl. rewrite A, Hc. simpl. discriminate.
  - left. exists j. apply (step_of s j V4 I Hin). intros rest. simpl. rewrite A.
    assert (inflight s = 0) as -> by lia. simpl. discriminate.
Qed.

Lemma boot_holder_progress s h : TInv s -> boot_l s = Some h -> tenabled s.
Proof.
  intros I B. pose proof (ti_boot s I) as BO. rewrite B in BO. simpl in BO.
  destruct (Nat.eq_dec (cnt isV2 (thr s)) 0) as [Z2|Z2].
  - destruct (Nat.eq_dec (cnt isH1 (thr s)) 0) as [ZH|ZH].
    + assert (0 < cnt isC2 (thr s)) as P by lia. apply cnt_pos in P. destruct P as (i&pc&Hin&Hp).
      apply is_pc_C2 in Hp. subst. left. exists i. apply (step_of s i C2 I Hin). intros; simpl; discriminate.
    + assert (0 < cnt isH1 (thr s)) as P by lia. pose proof (ti_stop s I) as SP.
      apply cnt_pos in P. destruct P as (i&pc&Hin&Hp). apply is_pc_H1 in Hp. subst.
      destruct (arun s) eqn:A.
      * right. simpl. rewrite A. assert (astop s = true) as -> by (destruct (astop s); simpl in *; auto; lia).
        simpl. discriminate.
      * left. exists i. apply (step_of s i H1 I Hin). intros; simpl. rewrite A. simpl. discriminate.
  - assert (0 < cnt isV2 (thr s)) as P by lia. apply cnt_pos in P. destruct P as (i&pc&Hin&Hp).
    apply is_pc_V2 in Hp. subst. left. exists i. apply (step_of s i V2 I Hin). intros; simpl; discriminate.
Qed.

Lemma close_holder_progress s h : TInv s -> boot_l s = None -> close_l s = Some h -> tenabled s.
Proof.
  intros I B C. pose proof (ti_boot s I) as BO. pose proof (ti_close s I) as CL. rewrite B in BO. rewrite C in CL. simpl in *.
  destruct (Nat.eq_dec (cnt isV1 (thr s)) 0) as [Z1|Z1].
  - assert (0 < cnt isC1 (thr s)) as P by lia. apply cnt_pos in P. destruct P as (i&pc&Hin&Hp).
    apply is_pc_C1 in Hp. subst. left. exists i. apply (step_of s i C1 I Hin). intros; simpl. rewrite B. simpl.
    destruct (portal s && alive s); discriminate.
  - assert (0 < cnt isV1 (thr s)) as P by lia. apply cnt_pos in P. destruct P as (i&pc&Hin&Hp).
    apply is_pc_V1 in Hp. subst. left. exists i. apply (step_of s i V1 I Hin). intros; simpl. rewrite B. simpl.
    destruct (t_shut s); discriminate.
Qed.

Theorem no_deadlock_threads :
  standalone_shutdown_guarded = true ->
  forall s, treachable s ->
    (exists i pc, In (i, pc) (thr s) /\ ~ (pc = V4 /\ arun s = true /\ astop s = false)) ->
    tenabled s.
Proof.
  intros G s R (i&pc&Hin&Hidle). apply tinv_reachable in R. rename R into I.
  destruct (boot_l s) as [h|] eqn:B; [eapply boot_holder_progress; eauto|].
  pose proof (ti_boot s I) as BO. rewrite B in BO. simpl in BO.
  destruct pc.
  - (* Vc *) left. exists i. apply (step_of s i Vc I Hin). intros; simpl.
    destruct (negb serve_closed_check_under_lock && t_closed s); discriminate.
  - (* V0 *) destruct (close_l s) as [h|] eqn:C; [eapply close_holder_progress; eauto|].
    left. exists i. apply (step_of s i V0 I Hin). intros; simpl. rewrite C. simpl. destruct (t_closed s); discriminate.
  - (* V1 *) left. exists i. apply (step_of s i V1 I Hin). intros; simpl. rewrite B. simpl. destruct (t_shut s); discriminate.
  - (* V2 *) pose proof (cnt_in isV2 _ _ _ Hin eq_refl). lia.
  - (* V4 *) apply (v4_progress s i I B Hin).
    destruct (arun s) eqn:A; [|now left]. destruct (astop s) eqn:T; [now right|]. exfalso. apply Hidle. auto.
  - (* V5 *) left. exists i. apply (step_of s i V5 I Hin). intros; simpl. rewrite B. simpl. discriminate.
  - (* H0 *) left. exists i. apply (step_of s i H0 I Hin). intros; simpl. rewrite B. simpl.
    destruct (portal s); [destruct (alive s)|]; discriminate.
  - (* H1 *) pose proof (cnt_in isH1 _ _ _ Hin eq_refl). lia.
  - (* H2 g *)
    destruct (Nat.leb g (tfin s)) eqn:L.
    + left. exists i. apply (step_of s i (H2 g) I Hin). intros; simpl. rewrite G, L. discriminate.
    + apply Nat.leb_gt in L. destruct (ti_wait s I i g Hin) as [_ W]. specialize (W L). destruct W as [W|[W1 W2]].
      * assert (0 < cnt isV5 (thr s)) as P by lia. apply cnt_pos in P. destruct P as (j&pc&Hj&Hp).
        apply is_pc_V5 in Hp. subst. left. exists j. apply (step_of s j V5 I Hj). intros; simpl. rewrite B. simpl. discriminate.
      * assert (0 < cnt isV4 (thr s)) as P by lia. apply cnt_pos in P. destruct P as (j&pc&Hj&Hp).
        apply is_pc_V4 in Hp. subst. apply (v4_progress s j I B Hj).
        destruct (arun s); [right | now left]. destruct (astop s); simpl in W2; auto; lia.
  - (* C0 *) destruct (close_l s) as [h|] eqn:C; [eapply close_holder_progress; eauto|].
    left. exists i. apply (step_of s i C0 I Hin). intros; simpl. rewrite C. simpl. discriminate.
  - (* C1 *) left. exists i. apply (step_of s i C1 I Hin). intros; simpl. rewrite B. simpl.
    destruct (portal s && alive s); discriminate.
  - (* C2 *) pose proof (cnt_in isC2 _ _ _ Hin eq_refl). lia.
  - (* Q0 *) left. exists i. apply (step_of s i Q0 I Hin). intros; simpl. rewrite B. simpl. discriminate.
Qed.
