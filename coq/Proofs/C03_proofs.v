(* Proofs for C03 (receive endpoints) *)
From Coq Require Import List Arith Bool Lia.
From EN Require Import Lib.Bytes Frame.Framer Stream.Consumer Stream.Endpoint.
Import ListNotations.

Section Generic.
  Context {P C : Type}.
  Variable M : machine P C.
  Variable mode : emode.

  Lemma of_nres_not_timeout : forall r : nres P, of_nres r <> RecvTimeout.
  Proof. destruct r; discriminate. Qed.

  (* a call without timeout never reports a timeout *)
  Lemma rloop_none_no_timeout : forall fuel c o el c' e o' r el',
      rloop M mode fuel None c o el = (c', e, o', r, el') -> r <> RecvTimeout.
  Proof.
    induction fuel; simpl; intros c o el c' e o' r el' H.
    - inversion H; discriminate.
    - destruct o as [|it o1].
      + inversion H; discriminate.
      + destruct it as [ch dt| | |k].
        * destruct ch as [|b ch].
          { inversion H; discriminate. }
          destruct (mtake M c (b :: ch)) as [[[[c1 r1] n] room]|].
          2:{ inversion H; discriminate. }
          destruct r1; try (inversion H; subst; discriminate).
          destruct mode; eapply IHfuel; eauto.
        * inversion H; discriminate.
        * eapply IHfuel; eauto.
        * inversion H; discriminate.
  Qed.

  Lemma receive_none_no_timeout : forall st o st' o' r el,
      receive M mode None st o = (st', o', r, el) -> r <> RecvTimeout.
  Proof.
    unfold receive; intros st o st' o' r el H.
    destruct (mdrain M (lc st)) as [c1 r1].
    destruct r1; try (inversion H; subst; discriminate).
    destruct (leof st).
    - inversion H; discriminate.
    - destruct (rloop M mode (S (oracle_size o)) None c1 o 0) as [[[[c2 e2] o2] r2] el2] eqn:E.
      inversion H; subst. eapply rloop_none_no_timeout; eauto.
  Qed.
End Generic.
