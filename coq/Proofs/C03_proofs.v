(* Proofs for C03 (receive endpoints) *)
From Coq Require Import List Arith Bool Lia.
From EN Require Import Lib.Bytes Frame.Framer Stream.Consumer Stream.Endpoint Stream.EndpointSpec.
Import ListNotations.

Section Generic.
  Context {P C : Type}.
  Variable M : machine P C.
  Variable mode : emode.

  Lemma of_nres_not_timeout : forall r : nres P, of_nres r <> RecvTimeout.
  Proof. destruct r; discriminate. Qed.

  (* a call without timeout never reports a timeout *)
  Lemma rloop_none_no_timeout : forall fuel c o el c' e o' r el',
      rloop M mode fuel None c o el = (c', e, o', r, el') -> r <> RecvTimeout.
  Proof.
    induction fuel; simpl; intros c o el c' e o' r el' H.
    - inversion H; discriminate.
    - destruct o as [|it o1].
      + inversion H; discriminate.
      + destruct it as [ch dt| | |k].
        * destruct ch as [|b ch].
          { inversion H; discriminate. }
          destruct (mtake M c (b :: ch)) as [[[[c1 r1] n] room]|].
          2:{ inversion H; discriminate. }
          destruct r1; try (inversion H; subst; discriminate).
          destruct mode; eapply IHfuel; eauto.
        * inversion H; discriminate.
        * eapply IHfuel; eauto.
        * inversion H; discriminate.
  Qed.

  Lemma receive_none_no_timeout : forall st o st' o' r el,
      receive M mode None st o = (st', o', r, el) -> r <> RecvTimeout.
  Proof.
    unfold receive; intros st o st' o' r el H.
    destruct (mdrain M (lc st)) as [c1 r1].
    destruct r1; try (inversion H; subst; discriminate).
    destruct (leof st).
    - inversion H; discriminate.
    - destruct (rloop M mode (S (oracle_size o)) None c1 o 0) as [[[[c2 e2] o2] r2] el2] eqn:E.
      inversion H; subst. eapply rloop_none_no_timeout; eauto.
  Qed.
End Generic.

Section Sequence.
  Context {P C : Type}.
  Variable M : machine P C.
  Variable mode : emode.
  Variable spec : bytes -> list (nres P).
  Variable G : bytes -> Prop.
  Variable R : C -> bytes -> nat -> Prop.
  Variable D : C -> bytes -> Prop.
  Hypothesis OK : consumer_ok_rel M spec G R D.

  Lemma spec_prefix_nth : forall d x k e, nth_error (spec d) k = Some e -> nth_error (spec (d ++ x)) k = Some e.
  Proof.
    intros d x k e H. destruct (okr_mono _ _ _ _ _ OK d x) as [tl E]. rewrite E.
    rewrite nth_error_app1; auto. apply nth_error_Some. congruence.
  Qed.

  Lemma spec_prefix_len : forall d x, length (spec d) <= length (spec (d ++ x)).
  Proof. intros d x. destruct (okr_mono _ _ _ _ _ OK d x) as [tl E]. rewrite E, app_length. lia. Qed.

  Lemma stream_of_data : forall ch dt o, ch <> [] -> stream_of (TData ch dt :: o) = ch ++ stream_of o.
  Proof. intros [|b ch] dt o H; [congruence|reflexivity]. Qed.

  Lemma take_rest : forall (avail : bytes) n dt o',
      1 <= n <= length avail ->
      let o'' := if Nat.ltb n (length avail) then TData (skipn n avail) dt :: o' else o' in
      firstn n avail ++ stream_of o'' = avail ++ stream_of o' /\ oracle_size o'' < S (length avail) + oracle_size o'.
  Proof.
    intros avail n dt o' Hn. simpl. destruct (Nat.ltb n (length avail)) eqn:E.
    - apply Nat.ltb_lt in E. rewrite stream_of_data.
      + rewrite app_assoc, firstn_skipn. split; [reflexivity|]. simpl. rewrite skipn_length. lia.
      + intro H0. apply (f_equal (@length _)) in H0. rewrite skipn_length in H0. simpl in H0. lia.
    - apply Nat.ltb_ge in E. rewrite firstn_all2 by lia. split; [reflexivity|lia].
  Qed.

  Definition rloop_post (d0 : bytes) (k : nat) (c' : C) (e' : bool) (rest : bytes) (r : rres P) : Prop :=
    exists d', d' ++ (if e' then [] else rest) = d0 /\
      match r with
      | RecvAborted => e' = true /\ D c' d' /\ k = length (spec d')
      | RecvTimeout | RecvRaised _ => e' = false /\ D c' d' /\ k = length (spec d')
      | _ => e' = false /\ exists ev, ev <> RStop /\ r = of_nres ev /\ nth_error (spec d') k = Some ev /\ R c' d' (S k)
      end.

  Lemma rloop_inv : forall fuel t c o el d k c' e' o' r el',
      oracle_size o < fuel ->
      D c d -> k = length (spec d) -> G (d ++ stream_of o) ->
      rloop M mode fuel t c o el = (c', e', o', r, el') ->
      rloop_post (d ++ stream_of o) k c' e' (stream_of o') r.
  Proof.
    induction fuel; intros t c o el d k c' e' o' r el' Hf HR Hk HG H; [lia|].
    simpl in H. destruct o as [|it o1].
    - inversion H; subst. exists d. simpl. split; [reflexivity|]. auto.
    - destruct it as [ch dt| | |kk].
      + destruct ch as [|b ch].
        { inversion H; subst. exists d. simpl. split; [reflexivity|]. auto. }
        assert (HG1 : G (d ++ b :: ch)).
        { apply (okr_prefix _ _ _ _ _ OK _ (stream_of o1)). rewrite <- app_assoc. exact HG. }
        destruct (okr_take _ _ _ _ _ OK c d (b :: ch) HR ltac:(discriminate) HG1) as (c1 & r1 & n & room & Et & Hn & Hpost).
        rewrite <- Hk in Hpost. rewrite Et in H.
        pose proof (take_rest (b :: ch) n 0 o1 Hn) as [Hs Hsz]. cbv zeta in Hs, Hsz.
        set (o2 := if Nat.ltb n (length (b :: ch)) then TData (skipn n (b :: ch)) 0 :: o1 else o1) in *.
        assert (Hd : (d ++ firstn n (b :: ch)) ++ stream_of o2 = d ++ stream_of (TData (b :: ch) dt :: o1)).
        { rewrite <- app_assoc, Hs. reflexivity. }
        assert (Hf2 : oracle_size o2 < fuel).
        { simpl in Hf. simpl in Hsz. lia. }
        destruct r1 as [p|e| |].
        * inversion H; subst. exists (d ++ firstn n (b :: ch)). split; [exact Hd|].
          split; [reflexivity|]. exists (RPkt p). destruct Hpost. repeat split; auto. discriminate.
        * inversion H; subst. exists (d ++ firstn n (b :: ch)). split; [exact Hd|].
          split; [reflexivity|]. exists (RErr e). destruct Hpost. repeat split; auto. discriminate.
        * destruct Hpost as [Hl HR1]. rewrite <- Hd.
          assert (IH : forall t0, rloop M mode fuel t0 c1 o2 (el + dt) = (c', e', o', r, el') ->
                              rloop_post ((d ++ firstn n (b :: ch)) ++ stream_of o2) k c' e' (stream_of o') r).
          { intros t0 H0. eapply IHfuel; eauto. rewrite Hd. exact HG. }
          destruct mode.
          -- destruct t as [tmo|]; [|eapply IH; eauto].
             destruct (Nat.ltb 0 tmo); [eapply IH; eauto|].
             destruct (Nat.ltb n room); [|eapply IH; eauto].
             inversion H; subst. exists (d ++ firstn n (b :: ch)). split; [reflexivity|]. auto.
          -- eapply IH; eauto.
        * inversion H; subst. exists (d ++ firstn n (b :: ch)). split; [exact Hd|].
          split; [reflexivity|]. exists RCrash. destruct Hpost. repeat split; auto. discriminate.
      + inversion H; subst. exists d. simpl. rewrite app_nil_r. split; [reflexivity|]. auto.
      + simpl in Hf. destruct t as [tmo|].
        * inversion H; subst. exists d. simpl. split; [reflexivity|]. auto.
        * simpl. eapply IHfuel; eauto. lia.
      + inversion H; subst. exists d. simpl. split; [reflexivity|]. auto.
  Qed.

  (* state invariant between calls: [i] results delivered so far, the peer's whole stream is [s] *)
  Definition Inv (s : bytes) (st : lstate) (o : oracle) (i : nat) : Prop :=
    exists d k, R (lc st) d k /\ k <= length (spec d) /\ k = Nat.min i (length (spec s)) /\
      (length (spec s) < i -> leof st = true) /\
      if leof st then d = s /\ k = length (spec s) else d ++ stream_of o = s.

  Lemma receive_inv : forall s t st o i st' o' r el,
      G s -> Inv s st o i -> receive M mode t st o = (st', o', r, el) ->
      if is_delivered r then r = expected (spec s) i /\ Inv s st' o' (S i)
      else Inv s st' o' i.
  Proof.
    intros s t st o i st' o' r el HGs (d & k & HR & Hle & Hmin & Heof & Hs) H.
    unfold receive in H. destruct (mdrain M (lc st)) as [c1 r1] eqn:Ed.
    assert (HGd : G d).
    { destruct (leof st); [destruct Hs; subst; exact HGs|].
      apply (okr_prefix _ _ _ _ _ OK _ (stream_of o)). rewrite Hs. exact HGs. }
    pose proof (okr_drain _ _ _ _ _ OK _ _ _ _ _ HGd HR Ed) as Hdr.
    assert (Hev : forall ev, ev <> RStop -> nth_error (spec d) k = Some ev -> R c1 d (S k) ->
                  (st', o', r) = ({| lc := c1; leof := leof st |}, o, of_nres ev) ->
                  is_delivered r = true /\ r = expected (spec s) i /\ Inv s st' o' (S i)).
    { intros ev Hne Hn HR1 E. inversion E; subst st' o' r; clear E.
      assert (Hk : k < length (spec d)) by (apply nth_error_Some; congruence).
      assert (Hd : leof st = false /\ d ++ stream_of o = s).
      { destruct (leof st); [destruct Hs; subst; lia|auto]. }
      destruct Hd as [He Hd]. subst s.
      pose proof (spec_prefix_len d (stream_of o)).
      assert (k = i) by lia. subst i.
      split; [destruct ev; try reflexivity; congruence|].
      split.
      - unfold expected. rewrite (spec_prefix_nth _ _ _ _ Hn). reflexivity.
      - exists d, (S k). cbn [lc leof]. rewrite He. repeat split; auto; try lia. }
    destruct r1 as [p|e| |].
    - destruct Hdr. edestruct (Hev (RPkt p)) as (A & B & DD); eauto; [discriminate|inversion H; reflexivity|].
      rewrite A. auto.
    - destruct Hdr. edestruct (Hev (RErr e)) as (A & B & DD); eauto; [discriminate|inversion H; reflexivity|].
      rewrite A. auto.
    - destruct Hdr as [Hk HR1]. destruct (leof st) eqn:He.
      + inversion H; subst st' o' r el. simpl. destruct Hs as [Hd Hk2]. split.
        * unfold expected. replace (nth_error (spec s) i) with (@None (nres P)); [reflexivity|].
          symmetry. apply nth_error_None. lia.
        * exists s, k. cbn [lc leof]. subst d. repeat split; auto; try lia.
          rewrite Hk. apply (okr_D_R _ _ _ _ _ OK). exact HR1.
      + destruct (rloop M mode (S (oracle_size o)) t c1 o 0) as [[[[c2 e2] o2] r2] el2] eqn:El.
        inversion H; subst st' o' r el. clear H.
        assert (HGo : G (d ++ stream_of o)) by (rewrite Hs; exact HGs).
        pose proof (rloop_inv _ _ _ _ _ _ _ _ _ _ _ _ (Nat.lt_succ_diag_r _) HR1 Hk HGo El) as (d' & Hd' & Hpost).
        assert (Hi : Nat.min i (length (spec (d ++ stream_of o))) = i).
        { destruct (Nat.lt_ge_cases (length (spec (d ++ stream_of o))) i) as [Hlt|]; [|lia].
          rewrite Hs in Hlt. apply Heof in Hlt. discriminate. }
        rewrite Hs in Hi.
        assert (Hki : k = i) by lia. subst i. clear Hi.
        assert (Hevent : forall ev, e2 = false -> nth_error (spec d') k = Some ev -> R c2 d' (S k) ->
                  of_nres ev = expected (spec s) k /\ Inv s {| lc := c2; leof := e2 |} o2 (S k)).
        { intros ev -> Hn HR2. split.
          - unfold expected. rewrite <- Hs, <- Hd'. rewrite (spec_prefix_nth _ _ _ _ Hn). reflexivity.
          - assert (k < length (spec d')) by (apply nth_error_Some; congruence).
            pose proof (spec_prefix_len d' (stream_of o2)). rewrite Hd', Hs in *.
            exists d', (S k). cbn [lc leof]. repeat split; auto; try lia. }
        assert (Hquiet : e2 = false -> D c2 d' -> k = length (spec d') -> Inv s {| lc := c2; leof := e2 |} o2 k).
        { intros -> HR2 Hk2. exists d', k. cbn [lc leof]. rewrite Hd'. repeat split; auto; try lia.
          rewrite Hk2. apply (okr_D_R _ _ _ _ _ OK). exact HR2. }
        destruct r2; cbn [is_delivered].
        * destruct Hpost as (He2 & ev & Hne & Er & Hn & HR2). rewrite Er. eapply Hevent; eauto.
        * destruct Hpost as (He2 & ev & Hne & Er & Hn & HR2). rewrite Er. eapply Hevent; eauto.
        * destruct Hpost as (-> & HR2 & Hk2). rewrite app_nil_r in Hd'. subst d'. split.
          -- unfold expected. replace (nth_error (spec s) k) with (@None (nres P)); [reflexivity|].
             symmetry. apply nth_error_None. rewrite <- Hs. lia.
          -- exists (d ++ stream_of o), k. cbn [lc leof]. rewrite Hs in *. repeat split; auto; try lia.
             rewrite Hk2. apply (okr_D_R _ _ _ _ _ OK). exact HR2.
        * destruct Hpost as (He2 & HR2 & Hk2). auto.
        * destruct Hpost as (He2 & HR2 & Hk2). auto.
        * destruct Hpost as (He2 & ev & Hne & Er & Hn & HR2). destruct ev; discriminate.
        * destruct Hpost as (He2 & ev & Hne & Er & Hn & HR2). rewrite Er. eapply Hevent; eauto.
    - destruct Hdr. edestruct (Hev RCrash) as (A & B & DD); eauto; [discriminate|inversion H; reflexivity|].
      rewrite A. auto.
  Qed.


  Lemma Inv_init : forall c0 o, R c0 [] 0 -> Inv (stream_of o) (linit c0) o 0.
  Proof.
    intros c0 o H. exists [], 0. cbn [linit lc leof]. repeat split; auto; try lia.
  Qed.

  Lemma run_calls_cons : forall st o t ts,
      run_calls M mode st o (t :: ts) =
      let '(st', o', r, _) := receive M mode t st o in
      let '(rs, st'', o'') := run_calls M mode st' o' ts in ((r, o') :: rs, st'', o'').
  Proof. reflexivity. Qed.

  Lemma run_calls_seq : forall s, G s -> forall ts st o i, Inv s st o i ->
      forall j r, nth_error (delivered (results (run_calls M mode st o ts))) j = Some r ->
                  r = expected (spec s) (i + j).
  Proof.
    intros s HGs. induction ts as [|t ts IH]; intros st o i HI j r Hj.
    - destruct j; discriminate.
    - rewrite run_calls_cons in Hj.
      destruct (receive M mode t st o) as [[[st1 o1] r1] el1] eqn:Er.
      pose proof (receive_inv _ _ _ _ _ _ _ _ _ HGs HI Er) as Hinv.
      specialize (IH st1 o1).
      destruct (run_calls M mode st1 o1 ts) as [[rs st2] o2] eqn:Ec.
      unfold results, delivered in Hj, IH. cbn [fst map filter] in Hj, IH.
      destruct (is_delivered r1).
      + destruct Hinv as [Hr HI1]. destruct j.
        * cbn in Hj. inversion Hj. subst. rewrite Nat.add_0_r. reflexivity.
        * cbn in Hj. rewrite Nat.add_succ_r. apply (IH (S i) HI1 j r Hj).
      + apply (IH i Hinv j r Hj).
  Qed.

  Lemma run_calls_inv : forall s, G s -> forall ts st o i rs st' o',
      Inv s st o i -> run_calls M mode st o ts = (rs, st', o') -> exists i', Inv s st' o' i'.
  Proof.
    intros s HGs. induction ts as [|t ts IH]; intros st o i rs st' o' HI H.
    - inversion H; subst. eauto.
    - rewrite run_calls_cons in H.
      destruct (receive M mode t st o) as [[[st1 o1] r1] el1] eqn:Er.
      pose proof (receive_inv _ _ _ _ _ _ _ _ _ HGs HI Er) as Hinv.
      destruct (run_calls M mode st1 o1 ts) as [[rs2 st2] o2] eqn:Ec.
      inversion H; subst.
      destruct (is_delivered r1); [destruct Hinv|]; eapply IH; eauto.
  Qed.

  (* ---- the latch *)
  Lemma rloop_aborted_latches : forall fuel t c o el c' e' o' el',
      rloop M mode fuel t c o el = (c', e', o', RecvAborted, el') -> e' = true.
  Proof.
    induction fuel; simpl; intros t c o el c' e' o' el' H; [inversion H|].
    destruct o as [|it o1]; [inversion H; reflexivity|].
    destruct it as [ch dt| | |kk].
    - destruct ch as [|b ch]; [inversion H; reflexivity|].
      destruct (mtake M c (b :: ch)) as [[[[c1 r1] n] room]|]; [|inversion H].
      destruct r1; try (inversion H; fail).
      destruct mode.
      + destruct t as [tmo|]; [|eapply IHfuel; eauto].
        destruct (Nat.ltb 0 tmo); [eapply IHfuel; eauto|].
        destruct (Nat.ltb n room); [inversion H|eapply IHfuel; eauto].
      + eapply IHfuel; eauto.
    - inversion H; reflexivity.
    - destruct t; [inversion H|eapply IHfuel; eauto].
    - inversion H.
  Qed.

  Lemma receive_aborted_latches : forall t st o st' o' el,
      receive M mode t st o = (st', o', RecvAborted, el) -> leof st' = true.
  Proof.
    unfold receive. intros t st o st' o' el H.
    destruct (mdrain M (lc st)) as [c1 r1]. destruct r1; try (inversion H; fail).
    destruct (leof st); [inversion H; reflexivity|].
    destruct (rloop M mode (S (oracle_size o)) t c1 o 0) as [[[[c2 e2] o2] r2] el2] eqn:E.
    inversion H; subst. cbn. eapply rloop_aborted_latches; eauto.
  Qed.

  Lemma sticky_step : forall s st o i, G s -> Inv s st o i -> leof st = true ->
      forall t o2, exists c', receive M mode t st o2 = ({| lc := c'; leof := true |}, o2, RecvAborted, 0) /\
                              Inv s {| lc := c'; leof := true |} o2 (S i).
  Proof.
    intros s st o i HGs (d & k & HR & Hle & Hmin & Heof & Hs) He t o2. rewrite He in Hs. destruct Hs as [Hd Hk].
    unfold receive. destruct (mdrain M (lc st)) as [c1 r1] eqn:Ed. subst d.
    pose proof (okr_drain _ _ _ _ _ OK _ _ _ _ _ HGs HR Ed) as Hdr.
    assert (Hnone : nth_error (spec s) k = None) by (apply nth_error_None; lia).
    destruct r1; try (destruct Hdr; congruence).
    rewrite He. exists c1. split; [reflexivity|].
    destruct Hdr as [_ HD1]. exists s, k. cbn [lc leof]. repeat split; auto; try lia.
    rewrite Hk. apply (okr_D_R _ _ _ _ _ OK). exact HD1.
  Qed.

  Lemma sticky_calls : forall s, G s -> forall ts st o i, Inv s st o i -> leof st = true ->
      forall o2, exists st', run_calls M mode st o2 ts = (map (fun _ => (RecvAborted, o2)) ts, st', o2).
  Proof.
    intros s HGs. induction ts as [|t ts IH]; intros st o i HI He o2.
    - eexists; reflexivity.
    - destruct (sticky_step _ _ _ _ HGs HI He t o2) as (c' & Er & HI2).
      destruct (IH _ _ _ HI2 eq_refl o2) as (st' & Ec).
      exists st'. rewrite run_calls_cons, Er, Ec. reflexivity.
  Qed.
End Sequence.

Section Counting.
  Context {P C : Type}.
  Variable M : machine P C.
  Variable mode : emode.

  Lemma rloop_raises : forall fuel t c o el c' e' o' r el',
      rloop M mode fuel t c o el = (c', e', o', r, el') -> raises o' + is_raised r <= raises o.
  Proof.
    induction fuel; simpl; intros t c o el c' e' o' r el' H; [inversion H; subst; simpl; lia|].
    destruct o as [|it o1]; [inversion H; subst; simpl; lia|].
    destruct it as [ch dt| | |kk].
    - destruct ch as [|b ch]; [inversion H; subst; simpl; lia|].
      destruct (mtake M c (b :: ch)) as [[[[c1 r1] n] room]|]; [|inversion H; subst; simpl; lia].
      set (o2 := if Nat.ltb n (length (b :: ch)) then TData (skipn n (b :: ch)) 0 :: o1 else o1) in *.
      assert (Ho2 : raises o2 = raises o1) by (unfold o2; destruct (Nat.ltb n (length (b :: ch))); reflexivity).
      cbn [raises fold_right]. fold (raises o1). rewrite <- Ho2.
      destruct r1; try (inversion H; subst; simpl; lia).
      destruct mode.
      + destruct t as [tmo|]; [|eapply IHfuel; eauto].
        destruct (Nat.ltb 0 tmo); [eapply IHfuel; eauto|].
        destruct (Nat.ltb n room); [inversion H; subst; simpl; lia|eapply IHfuel; eauto].
      + eapply IHfuel; eauto.
    - inversion H; subst; simpl; lia.
    - cbn [raises fold_right]. fold (raises o1). destruct t; [inversion H; subst; simpl; lia|eapply IHfuel; eauto].
    - inversion H; subst; unfold raises; simpl; lia.
  Qed.

  Lemma receive_raises : forall t st o st' o' r el,
      receive M mode t st o = (st', o', r, el) -> raises o' + is_raised r <= raises o.
  Proof.
    unfold receive. intros t st o st' o' r el H.
    destruct (mdrain M (lc st)) as [c1 r1].
    destruct r1; try (inversion H; subst; simpl; lia).
    destruct (leof st); [inversion H; subst; simpl; lia|].
    destruct (rloop M mode (S (oracle_size o)) t c1 o 0) as [[[[c2 e2] o2] r2] el2] eqn:E.
    inversion H; subst. eapply rloop_raises; eauto.
  Qed.

  Lemma run_calls_raises : forall ts st o rs st' o',
      run_calls M mode st o ts = (rs, st', o') -> raises o' <= raises o.
  Proof.
    induction ts as [|t ts IH]; intros st o rs st' o' H.
    - inversion H; subst; lia.
    - cbn [run_calls] in H.
      destruct (receive M mode t st o) as [[[st1 o1] r1] el1] eqn:Er.
      destruct (run_calls M mode st1 o1 ts) as [[rs2 st2] o2] eqn:Ec.
      inversion H; subst. apply receive_raises in Er. apply IH in Ec. lia.
  Qed.

  Lemma run_calls_app : forall ts1 ts2 st o,
      run_calls M mode st o (ts1 ++ ts2) =
      let '(rs1, st1, o1) := run_calls M mode st o ts1 in
      let '(rs2, st2, o2) := run_calls M mode st1 o1 ts2 in (rs1 ++ rs2, st2, o2).
  Proof.
    induction ts1 as [|t ts1 IH]; intros ts2 st o.
    - cbn. destruct (run_calls M mode st o ts2) as [[? ?] ?]. reflexivity.
    - cbn [app run_calls]. destruct (receive M mode t st o) as [[[st1 o1] r1] el1].
      rewrite IH. destruct (run_calls M mode st1 o1 ts1) as [[rs1 st2] o2].
      destruct (run_calls M mode st2 o2 ts2) as [[rs2 st3] o3]. reflexivity.
  Qed.

  (* n calls without timeout deliver at least n - (transport errors still to come) results *)
  Lemma none_calls_deliver : forall n m st o, raises o + m <= n ->
      m <= length (delivered (map fst (fst (fst (run_calls M mode st o (repeat None n)))))).
  Proof.
    induction n; intros m st o H.
    - cbn. lia.
    - cbn [repeat run_calls].
      destruct (receive M mode None st o) as [[[st1 o1] r1] el1] eqn:Er.
      pose proof (receive_raises _ _ _ _ _ _ _ Er) as Hr.
      pose proof (receive_none_no_timeout _ _ _ _ _ _ _ _ Er) as Hnt.
      specialize (IHn (if is_delivered r1 then pred m else m) st1 o1).
      destruct (run_calls M mode st1 o1 (repeat None n)) as [[rs st2] o2].
      cbn [fst map delivered filter]. unfold delivered in IHn. cbn [fst] in IHn.
      destruct r1; cbn [is_delivered is_raised] in *; cbn [length];
        try (destruct m; [lia|]; cbn [pred] in IHn; assert (m <= length (filter is_delivered (map fst rs))) by (apply IHn; lia); lia).
      + congruence.
      + apply IHn. lia.
  Qed.
End Counting.

Lemma firstn_pointwise : forall {A} (f : nat -> A) (l : list A) n,
    n <= length l -> (forall j r, nth_error l j = Some r -> r = f j) -> firstn n l = map f (seq 0 n).
Proof.
  intros A f l n. revert f l. induction n; intros f l Hn Hp; [reflexivity|].
  destruct l as [|a l]; [simpl in Hn; lia|].
  cbn [firstn seq map]. f_equal.
  - apply (Hp 0 a eq_refl).
  - rewrite <- seq_shift, map_map. apply IHn; [simpl in Hn; lia|].
    intros j r Hj. apply (Hp (S j) r Hj).
Qed.

Lemma map_expected_seq : forall {P} (evs : list (nres P)),
    map (expected evs) (seq 0 (S (length evs))) = map of_nres evs ++ [RecvAborted].
Proof.
  intros P evs. rewrite seq_S, map_app. cbn [map Nat.add]. f_equal.
  - clear. unfold expected.
    assert (G : forall pre, map (fun i => match nth_error (pre ++ evs) i with Some e => of_nres e | None => RecvAborted end)
                         (seq (length pre) (length evs)) = map of_nres evs).
    { induction evs as [|e evs IH]; intros pre; [reflexivity|].
      cbn [length seq map]. rewrite nth_error_app2 by lia. rewrite Nat.sub_diag. cbn [nth_error]. f_equal.
      specialize (IH (pre ++ [e])). rewrite <- app_assoc in IH. cbn [app] in IH.
      rewrite app_length in IH. cbn [length] in IH. rewrite Nat.add_1_r in IH. exact IH. }
    apply (G []).
  - unfold expected. replace (nth_error evs (length evs)) with (@None (nres P)); [reflexivity|].
    symmetry. apply nth_error_None. lia.
Qed.

Section TheoremsRel.
  Context {P C : Type}.
  Variable M : machine P C.
  Variable mode : emode.
  Variable spec : bytes -> list (nres P).
  Variable G : bytes -> Prop.
  Variable R : C -> bytes -> nat -> Prop.
  Variable D : C -> bytes -> Prop.
  Hypothesis OK : consumer_ok_rel M spec G R D.
  Variable c0 : C.
  Hypothesis R0 : R c0 [] 0.

  Lemma recv_sequence_rel : forall o ts j r,
      G (stream_of o) ->
      nth_error (delivered (results (run_calls M mode (linit c0) o ts))) j = Some r ->
      r = expected (spec (stream_of o)) j.
  Proof.
    intros o ts j r HG H.
    apply (run_calls_seq M mode spec G R D OK (stream_of o) HG ts (linit c0) o 0 (Inv_init spec R c0 o R0) j r H).
  Qed.

  Lemma no_partial_delivery_rel : forall o ts s1 tail,
      G (stream_of o) ->
      stream_of o = s1 ++ tail -> spec (s1 ++ tail) = spec s1 ->
      forall j r, nth_error (delivered (results (run_calls M mode (linit c0) o ts))) j = Some r ->
                  length (spec s1) <= j -> r = RecvAborted.
  Proof.
    intros o ts s1 tail HG Hs Hspec j r H Hj.
    apply recv_sequence_rel in H; [|exact HG]. rewrite Hs, Hspec in H. subst r. unfold expected.
    replace (nth_error (spec s1) j) with (@None (nres P)); [reflexivity|]. symmetry. apply nth_error_None. exact Hj.
  Qed.

  Lemma eof_sticky_rel : forall o ts1 rs1 st1 o1,
      G (stream_of o) ->
      run_calls M mode (linit c0) o ts1 = (rs1, st1, o1) ->
      forall t st2 o2 el, receive M mode t st1 o1 = (st2, o2, RecvAborted, el) ->
      forall ts' o', exists st3, run_calls M mode st2 o' ts' = (map (fun _ => (RecvAborted, o')) ts', st3, o').
  Proof.
    intros o ts1 rs1 st1 o1 HG H1 t st2 o2 el H2 ts' o'.
    destruct (run_calls_inv M mode spec G R D OK _ HG _ _ _ _ _ _ _ (Inv_init spec R c0 o R0) H1) as [i HI].
    pose proof (receive_inv M mode spec G R D OK _ _ _ _ _ _ _ _ _ HG HI H2) as Hinv. cbn [is_delivered] in Hinv.
    destruct Hinv as [_ HI2].
    apply (sticky_calls M mode spec G R D OK _ HG ts' _ _ _ HI2 (receive_aborted_latches M mode _ _ _ _ _ _ H2) o').
  Qed.

  Lemma timeout_loses_nothing_rel : forall o ts,
      G (stream_of o) ->
      let evs := spec (stream_of o) in
      firstn (S (length evs))
             (delivered (results (run_calls M mode (linit c0) o (ts ++ repeat None (S (length evs) + raises o)))))
      = map of_nres evs ++ [RecvAborted].
  Proof.
    intros o ts HG evs.
    rewrite <- map_expected_seq. apply firstn_pointwise.
    - rewrite run_calls_app.
      destruct (run_calls M mode (linit c0) o ts) as [[rs1 st1] o1] eqn:E1.
      pose proof (run_calls_raises M mode _ _ _ _ _ _ E1) as Hr.
      pose proof (none_calls_deliver M mode (S (length evs) + raises o) (S (length evs)) st1 o1 ltac:(lia)) as Hn.
      destruct (run_calls M mode st1 o1 (repeat None (S (length evs) + raises o))) as [[rs2 st2] o2].
      unfold results, delivered in *. cbn [fst] in *. rewrite map_app, filter_app, app_length. lia.
    - intros j r H. apply recv_sequence_rel in H; [exact H|exact HG].
  Qed.
End TheoremsRel.

(* the unrelativised interface is the instance G = everything, D = "R at the full event count" *)
Lemma consumer_ok_is_rel : forall {P C : Type} (M : machine P C) (spec : bytes -> list (nres P)) (R : C -> bytes -> nat -> Prop),
    consumer_ok M spec R ->
    consumer_ok_rel M spec (fun _ => True) R (fun c d => R c d (length (spec d))).
Proof.
  intros P C M spec R OK. constructor.
  - auto.
  - apply (ok_mono _ _ _ OK).
  - auto.
  - intros c d k c' r _ HR Ed. pose proof (ok_drain _ _ _ OK _ _ _ _ _ HR Ed) as H.
    destruct r; auto. destruct H as [-> H]. auto.
  - intros c d avail HD Hne _.
    destruct (ok_take _ _ _ OK c d _ avail HD eq_refl Hne) as (c' & r & n & room & E & Hn & Hp).
    exists c', r, n, room. split; [exact E|]. split; [exact Hn|].
    destruct r; auto. destruct Hp as [Hl HR]. split; [exact Hl|]. rewrite Hl. exact HR.
Qed.

Section Theorems.
  Context {P C : Type}.
  Variable M : machine P C.
  Variable mode : emode.
  Variable spec : bytes -> list (nres P).
  Variable R : C -> bytes -> nat -> Prop.
  Hypothesis OK : consumer_ok M spec R.
  Variable c0 : C.
  Hypothesis R0 : R c0 [] 0.

  Let OKr := consumer_ok_is_rel M spec R OK.

  Lemma recv_sequence_proof : forall o ts j r,
      nth_error (delivered (results (run_calls M mode (linit c0) o ts))) j = Some r ->
      r = expected (spec (stream_of o)) j.
  Proof. intros o ts j r. apply (recv_sequence_rel M mode spec _ R _ OKr c0 R0 o ts j r I). Qed.

  Lemma no_partial_delivery_proof : forall o ts s1 tail,
      stream_of o = s1 ++ tail -> spec (s1 ++ tail) = spec s1 ->
      forall j r, nth_error (delivered (results (run_calls M mode (linit c0) o ts))) j = Some r ->
                  length (spec s1) <= j -> r = RecvAborted.
  Proof. intros o ts s1 tail. apply (no_partial_delivery_rel M mode spec _ R _ OKr c0 R0 o ts s1 tail I). Qed.

  Lemma eof_sticky_proof : forall o ts1 rs1 st1 o1,
      run_calls M mode (linit c0) o ts1 = (rs1, st1, o1) ->
      forall t st2 o2 el, receive M mode t st1 o1 = (st2, o2, RecvAborted, el) ->
      forall ts' o', exists st3, run_calls M mode st2 o' ts' = (map (fun _ => (RecvAborted, o')) ts', st3, o').
  Proof. intros o ts1 rs1 st1 o1. apply (eof_sticky_rel M mode spec _ R _ OKr c0 R0 o ts1 rs1 st1 o1 I). Qed.

  Lemma timeout_loses_nothing_proof : forall o ts,
      let evs := spec (stream_of o) in
      firstn (S (length evs))
             (delivered (results (run_calls M mode (linit c0) o (ts ++ repeat None (S (length evs) + raises o)))))
      = map of_nres evs ++ [RecvAborted].
  Proof. intros o ts. apply (timeout_loses_nothing_rel M mode spec _ R _ OKr c0 R0 o ts I). Qed.
End Theorems.
