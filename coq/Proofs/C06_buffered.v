(* C06 (iii) for the buffer-filling framers: an event leaves strictly fewer bytes than the buffer held *)
From Coq Require Import ZArith List Bool Lia Arith.
From EN Require Import Lib.Bytes Frame.Framer Frame.BufReadUntil Frame.Generic Proofs.Bytes_proofs Proofs.C06_progress.
Import ListNotations.

Section BRU.
  Context {P : Type}.
  Variables (sep : bytes) (keep_end : bool) (dec : decoder P).
  Hypothesis sep_ne : 1 <= length sep.

  (* buflen = number of received bytes in the buffer when the scan runs *)
  Lemma bru_scan_progress mem buflen offset :
    match bru_scan sep keep_end dec mem buflen offset with
    | BNeed (buflen', _) start => buflen' = buflen /\ start = buflen
    | BDone _ rest | BFail _ rest => length rest < buflen
    | BCrash => False
    end.
  Proof.
    unfold bru_scan, bseplen. destruct (Nat.leb (length sep) (buflen - offset)) eqn:E; [|auto].
    apply Nat.leb_le in E.
    destruct (find_in sep mem offset buflen) as [sepidx|] eqn:Ef.
    - assert (length (firstn (buflen - (sepidx + length sep)) (skipn (sepidx + length sep) mem)) < buflen)
        by (rewrite firstn_length; lia).
      destruct (dec _); assumption.
    - destruct (Z.ltb _ _); [|auto].
      pose proof (overrun_remainder_len sep (firstn buflen mem) (buflen + 1 - length sep)) as H.
      rewrite firstn_length in H. lia.
  Qed.

  Lemma bru_feed_progress st mem n :
    match bru_feed sep keep_end dec st mem n with
    | BNeed (buflen', _) start => buflen' = fst st + n /\ start = fst st + n
    | BDone _ rest | BFail _ rest => length rest < fst st + n
    | BCrash => False
    end.
  Proof. unfold bru_feed. destruct st as [buflen off]. apply bru_scan_progress. Qed.
End BRU.

Section BFX.
  Context {P : Type}.
  Variables (size : nat) (dec : decoder P).
  Hypothesis size_pos : 1 <= size.

  Lemma bfx_feed_progress nread mem n :
    match bfx_feed size dec nread mem n with
    | BNeed nread' start => nread' = nread + n /\ start = nread + n
    | BDone _ rest | BFail _ rest => length rest < nread + n
    | BCrash => False
    end.
  Proof.
    unfold bfx_feed. destruct (Nat.ltb (nread + n) size) eqn:E; [auto|]. apply Nat.ltb_ge in E.
    assert (length (firstn (nread + n - size) (skipn size mem)) < nread + n) by (rewrite firstn_length; lia).
    destruct (dec _); assumption.
  Qed.
End BFX.

(* _wrap_generic_buffered_incremental_deserialize over a progressive copying framer: the generator is sent
   buffer[:nbytes], so an event leaves fewer bytes than it kept plus the nbytes of this round *)
Lemma bwrap_progress {P} (F : framer P) held alloc : progressive F held ->
  forall s mem n, 1 <= n -> n <= length mem ->
  match bfeed (bwrap_generic F alloc) s mem n with
  | BNeed s' start => held s' <= held s + n /\ start = 0
  | BDone _ rest | BFail _ rest => length rest < held s + n
  | BCrash => True
  end.
Proof.
  intros [Hi Hn Hd Hf] s mem n H1 H2. simpl. unfold bwrap_feed.
  assert (Hl : length (firstn n mem) = n) by (rewrite firstn_length; lia).
  assert (Hne : firstn n mem <> []) by (apply len_nonempty; lia).
  destruct (ffeed F s (firstn n mem)) eqn:E.
  - specialize (Hn _ _ _ E). split; [lia|reflexivity].
  - specialize (Hd _ _ _ _ Hne E). lia.
  - specialize (Hf _ _ _ _ Hne E). lia.
  - exact I.
Qed.

(* ---- BufferedStreamDataConsumer.__save_remainder_in_buffer copies the remainder into the (whole) receive buffer; the
   slice assignment raises ValueError when the remainder is longer than the buffer.  Through the generic wrapper the
   inner generator is sent buffer[:nbytes]; the remainder fits as soon as it is no longer than that slice, which holds
   for a loader that only moves forward (it failed with EOF on the previous content, so it reads into the new slice
   before it can return or fail) and for a decompressor (unused_data is a part of the last slice). ---- *)
Lemma bio_write_at_end (w ch : bytes) : bio_write w (length w) ch = w ++ ch.
Proof.
  unfold bio_write. rewrite firstn_all, Nat.sub_diag. cbn [repeat app].
  rewrite skipn_all2 by lia. rewrite app_nil_r. reflexivity.
Qed.

Lemma fb_remainder_fits {P} limit (load : bytes -> lres P) expected (content ch : bytes) :
  (forall p pos, load (content ++ ch) = LDone p pos -> length content <= pos) ->
  (forall k pos, load (content ++ ch) = LRaise k pos -> length content <= pos) ->
  match fb_round limit load expected (content ++ ch) with
  | Done _ rest | Fail _ rest => length rest <= length ch
  | _ => True
  end.
Proof.
  intros Hd Hr. unfold fb_round. destruct (Nat.ltb _ _).
  - pose proof (overrun_remainder_len [] (content ++ ch) (length (content ++ ch))). lia.
  - destruct (load (content ++ ch)) as [pos|p pos|k pos] eqn:E; [exact I| |].
    + specialize (Hd _ _ eq_refl). rewrite skipn_length, app_length. lia.
    + destruct (expected k); [|exact I]. specialize (Hr _ _ eq_refl). rewrite skipn_length, app_length. lia.
Qed.

Lemma fb_feed_remainder_fits {P} limit (load : bytes -> lres P) expected st (content ch : bytes) :
  st = None /\ content = [] \/ st = Some (content, length content) ->
  (forall p pos, load (content ++ ch) = LDone p pos -> length content <= pos) ->
  (forall k pos, load (content ++ ch) = LRaise k pos -> length content <= pos) ->
  match fb_feed limit load expected st ch with
  | Done _ rest | Fail _ rest => length rest <= length ch
  | _ => True
  end.
Proof.
  intros [[H1 H2]|H1] Hd Hr; subst; cbn [fb_feed].
  - apply (fb_remainder_fits limit load expected [] ch Hd Hr).
  - rewrite bio_write_at_end. apply fb_remainder_fits; assumption.
Qed.

Lemma cz_remainder_fits {P} D (dd : D -> bytes -> (D * bytes) + Z) deof dunused expected (inner : bytes -> ErrSites.ores P)
      inner_declared st (ch : bytes) :
  (forall d c d' out, dd d c = inl (d', out) -> deof d' = true -> length (dunused d') < length c) ->
  match cz_feed D dd deof dunused expected inner inner_declared st ch with
  | Done _ rest | Fail _ rest => length rest <= length ch
  | _ => True
  end.
Proof.
  intros Hu. unfold cz_feed, cz_finish. destruct st as [results d].
  destruct (dd d ch) as [[d' out]|k] eqn:E.
  - destruct (deof d') eqn:Ee; [|exact I]. specialize (Hu _ _ _ _ E Ee).
    destruct (inner _); [lia|]. destruct (inner_declared k); [lia|exact I].
  - destruct (expected k); [cbn; lia|exact I].
Qed.
