(* C06 (iii) for the buffer-filling framers: an event leaves strictly fewer bytes than the buffer held *)
From Coq Require Import ZArith List Bool Lia Arith.
From EN Require Import Lib.Bytes Frame.Framer Frame.BufReadUntil Frame.Generic Proofs.Bytes_proofs Proofs.C06_progress.
Import ListNotations.

Section BRU.
  Context {P : Type}.
  Variables (sep : bytes) (keep_end : bool) (dec : decoder P).
  Hypothesis sep_ne : 1 <= length sep.

  (* buflen = number of received bytes in the buffer when the scan runs *)
  Lemma bru_scan_progress mem buflen offset :
    match bru_scan sep keep_end dec mem buflen offset with
    | BNeed (buflen', _) start => buflen' = buflen /\ start = buflen
    | BDone _ rest | BFail _ rest => length rest < buflen
    | BCrash => False
    end.
  Proof.
    unfold bru_scan, bseplen. destruct (Nat.leb (length sep) (buflen - offset)) eqn:E; [|auto].
    apply Nat.leb_le in E.
    destruct (find_in sep mem offset buflen) as [sepidx|] eqn:Ef.
    - assert (length (firstn (buflen - (sepidx + length sep)) (skipn (sepidx + length sep) mem)) < buflen)
        by (rewrite firstn_length; lia).
      destruct (dec _); assumption.
    - destruct (Z.ltb _ _); [|auto].
      pose proof (overrun_remainder_len sep (firstn buflen mem) (buflen + 1 - length sep)) as H.
      rewrite firstn_length in H. lia.
  Qed.

  Lemma bru_feed_progress st mem n :
    match bru_feed sep keep_end dec st mem n with
    | BNeed (buflen', _) start => buflen' = fst st + n /\ start = fst st + n
    | BDone _ rest | BFail _ rest => length rest < fst st + n
    | BCrash => False
    end.
  Proof. unfold bru_feed. destruct st as [buflen off]. apply bru_scan_progress. Qed.
End BRU.

Section BFX.
  Context {P : Type}.
  Variables (size : nat) (dec : decoder P).
  Hypothesis size_pos : 1 <= size.

  Lemma bfx_feed_progress nread mem n :
    match bfx_feed size dec nread mem n with
    | BNeed nread' start => nread' = nread + n /\ start = nread + n
    | BDone _ rest | BFail _ rest => length rest < nread + n
    | BCrash => False
    end.
  Proof.
    unfold bfx_feed. destruct (Nat.ltb (nread + n) size) eqn:E; [auto|]. apply Nat.ltb_ge in E.
    assert (length (firstn (nread + n - size) (skipn size mem)) < nread + n) by (rewrite firstn_length; lia).
    destruct (dec _); assumption.
  Qed.
End BFX.

(* _wrap_generic_buffered_incremental_deserialize over a progressive copying framer: the generator is sent
   buffer[:nbytes], so an event leaves fewer bytes than it kept plus the nbytes of this round *)
Lemma bwrap_progress {P} (F : framer P) held alloc : progressive F held ->
  forall s mem n, 1 <= n -> n <= length mem ->
  match bfeed (bwrap_generic F alloc) s mem n with
  | BNeed s' start => held s' <= held s + n /\ start = 0
  | BDone _ rest | BFail _ rest => length rest < held s + n
  | BCrash => True
  end.
Proof.
  intros [Hi Hn Hd Hf] s mem n H1 H2. simpl. unfold bwrap_feed.
  assert (Hl : length (firstn n mem) = n) by (rewrite firstn_length; lia).
  assert (Hne : firstn n mem <> []) by (apply len_nonempty; lia).
  destruct (ffeed F s (firstn n mem)) eqn:E.
  - specialize (Hn _ _ _ E). split; [lia|reflexivity].
  - specialize (Hd _ _ _ _ Hne E). lia.
  - specialize (Hf _ _ _ _ Hne E). lia.
  - exact I.
Qed.
