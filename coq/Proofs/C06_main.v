(* C06: the theorems of Props/C06.v assembled from the lemma files (statements repeated verbatim in Props/C06.v) *)
From Coq Require Import ZArith List Bool Lia Arith.
From EN Require Import Lib.Bytes Frame.Framer Frame.ReadUntil Frame.BufReadUntil Frame.JsonRaw Frame.ErrSites Frame.Generic
  Stream.Consumer Gen.ParamsC06 Run.C06 Proofs.C06_nocrash Proofs.C06_progress Proofs.C06_buffered Proofs.C06_bufloop Proofs.C06_suffix.
Import ListNotations.

(* ------------------------------------------------------------------------------------------------------------------
   (i) parse_total.  Every framer / consumer is a total Coq function into Need | Done | Fail | Crash (resp. RPkt | RErr |
   RStop | RCrash): that part is the typing of Frame/*.v and Stream/Consumer.v.  What is proved here is where Crash can
   come from: never from the hand-written scanners, only from an inner library call that answers with a class that
   the except clause guarding it does not name.
   ------------------------------------------------------------------------------------------------------------------ *)
Lemma parse_total_scanners_pf :
  (forall P sep limit ke (dec : decoder P) st chunk, ffeed (ru_framer sep limit ke dec) st chunk <> Crash) /\
  (forall P size (dec : decoder P) st chunk, ffeed (rx_framer size dec) st chunk <> Crash) /\
  (forall limit st chunk, ffeed (jraw_framer limit) st chunk <> Crash) /\
  (forall P limit (dec : decoder P) st chunk, ffeed (json_framer limit dec) st chunk <> Crash) /\
  (forall P sep limit ke (dec : decoder P) st mem n, bfeed (bru_framer sep limit ke dec) st mem n <> BCrash) /\
  (forall P size (dec : decoder P) st mem n, bfeed (bfx_framer size dec) st mem n <> BCrash).
Proof.
  repeat split; intros.
  - apply ru_feed_no_crash. - apply rx_feed_no_crash. - apply jraw_feed_no_crash. - apply json_feed_no_crash.
  - apply bru_feed_no_crash. - apply bfx_feed_no_crash.
Qed.

(* a Crash of the separator / fixed-size / raw-JSON deserializers (copying and buffer-filling) exhibits a payload on
   which the one-shot codec g raised a class k outside [declared] *)
Lemma parse_total_crash_origin_pf :
  forall P (declared : list Z) (g : bytes -> ores P),
  (forall sep limit ke st chunk,
      ffeed (lift_framer (ru_framer sep limit ke (dec_of_ores declared g))) st chunk = Crash ->
      exists x k, g x = ORaise k /\ memZ k declared = false) /\
  (forall size st chunk,
      ffeed (lift_framer (rx_framer size (dec_of_ores declared g))) st chunk = Crash ->
      exists x k, g x = ORaise k /\ memZ k declared = false) /\
  (forall limit st chunk,
      ffeed (lift_framer (json_framer limit (dec_of_ores declared g))) st chunk = Crash ->
      exists x k, g x = ORaise k /\ memZ k declared = false) /\
  (forall sep limit ke st mem n,
      bfeed (lift_bframer (bru_framer sep limit ke (dec_of_ores declared g))) st mem n = BCrash ->
      exists x k, g x = ORaise k /\ memZ k declared = false) /\
  (forall size st mem n,
      bfeed (lift_bframer (bfx_framer size (dec_of_ores declared g))) st mem n = BCrash ->
      exists x k, g x = ORaise k /\ memZ k declared = false).
Proof.
  intros P declared g. repeat split; intros.
  - eapply ru_crash_origin; eauto. - eapply rx_crash_origin; eauto. - eapply json_crash_origin; eauto.
  - eapply bru_crash_origin; eauto. - eapply bfx_crash_origin; eauto.
Qed.

(* the generic deserializers: a Crash exhibits a loader / decompressor / inner serializer answer outside the expected set *)
Lemma parse_total_generic_pf :
  (forall P limit (load : bytes -> lres P) expected st chunk,
      ffeed (fb_framer limit load expected) st chunk = Crash ->
      exists content k pos, load content = LRaise k pos /\ expected k = false) /\
  (forall P D dnew (dd : D -> bytes -> (D * bytes) + Z) deof dunused expected (inner : bytes -> ores P) inner_declared st chunk,
      ffeed (cz_framer D dnew dd deof dunused expected inner inner_declared) st chunk = Crash ->
      (exists d c k, dd d c = inr k /\ expected k = false) \/
      (exists x k, inner x = ORaise k /\ inner_declared k = false)) /\
  (forall P (F : framer P) s c, ffeed (wrap_generic F) s c = Crash <-> ffeed F s c = Crash) /\
  (forall P (F : framer P) alloc s m n, bfeed (bwrap_generic F alloc) s m n = BCrash <-> ffeed F s (firstn n m) = Crash).
Proof.
  split; [|split; [|split]].
  - intros P limit load expected st chunk H. eapply fb_crash_inv. simpl in H. exact H.
  - intros P D dnew dd deof dunused expected inner inner_declared st chunk H. eapply cz_crash_inv. simpl in H. exact H.
  - intros. apply wrap_crash_iff.
  - intros. apply bwrap_crash_iff.
Qed.

(* ------------------------------------------------------------------------------------------------------------------
   (ii) no_crash_if_declared.
   ------------------------------------------------------------------------------------------------------------------ *)
(* framer level: if the one-shot codec only raises classes of [declared], no Crash is reachable from any state *)
Lemma no_crash_if_declared_pf :
  forall P (declared : list Z) (g : bytes -> ores P), all_declared declared g ->
  (forall sep limit ke st chunk, ffeed (lift_framer (ru_framer sep limit ke (dec_of_ores declared g))) st chunk <> Crash) /\
  (forall size st chunk, ffeed (lift_framer (rx_framer size (dec_of_ores declared g))) st chunk <> Crash) /\
  (forall limit st chunk, ffeed (lift_framer (json_framer limit (dec_of_ores declared g))) st chunk <> Crash) /\
  (forall sep limit ke st mem n, bfeed (lift_bframer (bru_framer sep limit ke (dec_of_ores declared g))) st mem n <> BCrash) /\
  (forall size st mem n, bfeed (lift_bframer (bfx_framer size (dec_of_ores declared g))) st mem n <> BCrash).
Proof.
  intros P declared g Hd.
  assert (Hno : ~ exists x k, g x = ORaise k /\ memZ k declared = false)
    by (intros [x [k [H1 H2]]]; specialize (Hd _ _ H1); congruence).
  repeat split; intros; intros Hc; apply Hno.
  - eapply ru_crash_origin; eauto. - eapply rx_crash_origin; eauto. - eapply json_crash_origin; eauto.
  - eapply bru_crash_origin; eauto. - eapply bfx_crash_origin; eauto.
Qed.

Lemma no_crash_if_declared_generic_pf :
  (forall P limit (load : bytes -> lres P) expected,
      (forall content k pos, load content = LRaise k pos -> expected k = true) ->
      forall st chunk, ffeed (wrap_generic (fb_framer limit load expected)) st chunk <> Crash) /\
  (forall P D dnew (dd : D -> bytes -> (D * bytes) + Z) deof dunused expected (inner : bytes -> ores P) inner_declared,
      (forall d c k, dd d c = inr k -> expected k = true) ->
      (forall x k, inner x = ORaise k -> inner_declared k = true) ->
      forall st chunk, ffeed (wrap_generic (cz_framer D dnew dd deof dunused expected inner inner_declared)) st chunk <> Crash).
Proof.
  split.
  - intros P limit load expected Hd st chunk Hc. apply (proj1 (wrap_crash_iff _ _ _)) in Hc. revert Hc. simpl. apply fb_no_crash. exact Hd.
  - intros P D dnew dd deof dunused expected inner inner_declared H1 H2 st chunk Hc. apply (proj1 (wrap_crash_iff _ _ _)) in Hc. revert Hc.
    simpl. apply cz_no_crash; assumption.
Qed.

(* from library answers to [all_declared]: H_declared says that every exception a library raises at call site s is
   caught by one of the handlers of the try statement guarding that site; then what leaves the method is a declared
   class, provided every handler of the table raises a declared class *)
Lemma declared_answers_give_declared_codec_pf :
  forall P (declared : list Z) own (sites : list trysite) (tab : bytes -> ans P),
  sites_ok declared sites = true -> memZ own declared = true ->
  (forall x s k, tab x = ARaise s k -> caught_at sites s k = true) ->
  all_declared declared (fun x => handle own sites (tab x)).
Proof. intros; apply handle_all_declared; assumption. Qed.

(* the tables regenerated from /repo's except clauses: every handler of every deserializer raises a class that its caller
   turns into a parse error (one-shot: DeserializeError family; stream protocols: what build_packet_from_chunks /
   build_packet_from_buffer convert to StreamProtocolParseError; datagram: DatagramProtocolParseError).
   Finite table, checked completely by vm_compute. *)
Lemma declared_sites_sound_pf :
  sites_ok deserialize_codes (json_oneshot ++ line_oneshot ++ struct_oneshot ++ namedtuple_from_tuple ++ base64_oneshot ++ pickle_oneshot) = true /\
  forallb (fun k => memZ k deserialize_codes) [c_DeserializeError; fb_oneshot_eof_raised; fb_oneshot_raised; cz_oneshot_raised] = true /\
  sites_ok stream_declared (json_incr ++ line_incr ++ [fixed_incr; autosep_incr; cz_incr_inner]) = true /\
  sites_ok bstream_declared (line_buf ++ [fixed_buf; autosep_buf; cz_incr_inner]) = true /\
  forallb (fun k => memZ k stream_declared && memZ k bstream_declared) [fb_incr_raised; cz_incr_raised] = true /\
  (* the handler around self.deserialize(data) of the base classes turns the whole DeserializeError family into a class
     the stream protocol converts (stated on the effect of the try statement, so that it reads the same on a table
     obtained from the AST and on one obtained by probing the real method) *)
  forallb (fun k => forallb (fun t => memZ (through_try t k) stream_declared) [fixed_incr; autosep_incr; cz_incr_inner]) deserialize_codes = true /\
  forallb (fun k => forallb (fun t => memZ (through_try t k) bstream_declared) [fixed_buf; autosep_buf; cz_incr_inner]) deserialize_codes = true /\
  forallb (fun k => Z.eqb (through_try dgram_protocol k) c_DatagramProtocolParseError) deserialize_codes = true.
Proof. vm_compute. repeat split. Qed.

(* the flagship instance, closed: JSONSerializer (raw mode) through StreamProtocol and StreamDataConsumer, with the
   regenerated tables: if str() and JSONDecoder.decode only raise classes their except clauses name, no chunking of no
   input makes the consumer raise RuntimeError *)
Lemma json_consumer_no_crash_if_declared_pf :
  forall limit (tab : bytes -> ans pk),
  (forall x, tab x <> ABad) ->
  (forall x s k, tab x = ARaise s k -> caught_at json_incr s k = true) ->
  let F := lift_framer (json_framer limit (dec_of_ores stream_declared (fun x => handle c_DeserializeError json_incr (tab x)))) in
  forall fuel chunks, Forall (fun r => r <> RCrash) (snd (cdeliver F fuel (cinit F) chunks)).
Proof.
  intros limit tab Hb Ha F fuel chunks. apply cdeliver_no_crash. intros s c.
  apply (no_crash_if_all_declared stream_declared _ (fun d => json_framer limit d)).
  - intros; apply json_feed_no_crash.
  - intros dec s0 c0 p rest H. simpl in H. eapply json_done_from_dec; eassumption.
  - apply handle_all_declared_nobad; [vm_compute; reflexivity|assumption|assumption].
Qed.

(* consumer level, any framer: no RCrash event for any chunk list *)
Lemma consumer_no_crash_pf :
  forall P (F : framer P), (forall s c, ffeed F s c <> Crash) ->
  forall fuel chunks c, Forall (fun r => r <> RCrash) (snd (cdeliver F fuel c chunks)).
Proof. intros; apply cdeliver_no_crash; assumption. Qed.

(* ------------------------------------------------------------------------------------------------------------------
   (iii) error_makes_progress: with [held s] = the bytes a suspended generator keeps, every Done and every Fail leaves
   strictly fewer bytes than it was given since its previous event (held s + length chunk); Need keeps at most that.
   ------------------------------------------------------------------------------------------------------------------ *)
Lemma error_makes_progress_pf :
  (forall P sep limit ke (dec : decoder P), 1 <= length sep -> progressive (ru_framer sep limit ke dec) ru_held) /\
  (forall P size (dec : decoder P), 1 <= size -> progressive (rx_framer size dec) rx_held) /\
  (forall P limit (dec : decoder P), progressive (json_framer limit dec) j_held) /\
  (forall P limit (load : bytes -> lres P) expected,
      (forall content pos, load content = LEof pos -> pos <= length content) ->
      (forall content p pos, load content = LDone p pos -> 1 <= pos) ->
      (forall content k pos, load content = LRaise k pos -> 1 <= pos) ->
      progressive (fb_framer limit load expected) fb_held) /\
  (forall P D dnew (dd : D -> bytes -> (D * bytes) + Z) deof dunused expected (inner : bytes -> ores P) inner_declared,
      (forall d c d' out, dd d c = inl (d', out) -> deof d' = true -> length (dunused d') < length c) ->
      progressive (cz_framer D dnew dd deof dunused expected inner inner_declared) (fun _ => 0)) /\
  (forall P (F : framer P) held, progressive F held -> progressive (wrap_generic F) held) /\
  (forall P (F : framer (epkt P)) held, progressive F held -> progressive (lift_framer F) held).
Proof.
  split; [intros; apply ru_progressive; assumption|].
  split; [intros; apply rx_progressive; assumption|].
  split; [intros; apply json_progressive|].
  split; [intros; apply fb_progressive; assumption|].
  split; [intros; apply cz_progressive; assumption|].
  split; [intros; apply wrap_progressive; assumption|].
  intros; apply lift_progressive; assumption.
Qed.

Lemma error_makes_progress_buffered_pf :
  (forall P sep limit ke (dec : decoder P) st mem n, 1 <= length sep ->
      match bfeed (bru_framer sep limit ke dec) st mem n with
      | BNeed (buflen', _) start => buflen' = fst st + n /\ start = fst st + n
      | BDone _ rest | BFail _ rest => length rest < fst st + n
      | BCrash => False
      end) /\
  (forall P size (dec : decoder P) nread mem n, 1 <= size ->
      match bfeed (bfx_framer size dec) nread mem n with
      | BNeed nread' start => nread' = nread + n /\ start = nread + n
      | BDone _ rest | BFail _ rest => length rest < nread + n
      | BCrash => False
      end) /\
  (forall P (F : framer P) held alloc, progressive F held ->
      forall s mem n, 1 <= n -> n <= length mem ->
      match bfeed (bwrap_generic F alloc) s mem n with
      | BNeed s' start => held s' <= held s + n /\ start = 0
      | BDone _ rest | BFail _ rest => length rest < held s + n
      | BCrash => True
      end).
Proof.
  split; [intros; apply bru_feed_progress; assumption|].
  split; [intros; apply bfx_feed_progress; assumption|].
  intros; apply bwrap_progress; assumption.
Qed.

(* ------------------------------------------------------------------------------------------------------------------
   skip_errors_terminates (copying consumer): a receive loop that keeps calling next() whatever it returns produces,
   over the whole chunk list, at most as many events (packets + errors + crashes) as it received bytes; what is still
   buffered at the end is bounded by the rest; and after each chunk the drain loop has stopped by itself
   (next(None) raises StopIteration) as soon as its fuel covers the backlog -- it never spins.
   ------------------------------------------------------------------------------------------------------------------ *)
Lemma skip_errors_terminates_pf :
  forall P (F : framer P) held, progressive F held ->
  (forall fuel chunks,
      let '(c', evs) := cdeliver F fuel (cinit F) chunks in
      length evs + phi F held c' <= Proofs.C06_progress.total_len chunks) /\
  (forall fuel c (chunk : bytes), phi F held c + length chunk <= fuel ->
      let '(c', _) := cstep F fuel c chunk in snd (cnext F c' None) = RStop).
Proof.
  intros P F held HF. split.
  - intros fuel chunks. pose proof (cdeliver_phi F held HF fuel chunks (cinit F)) as H.
    destruct (cdeliver F fuel (cinit F) chunks) as [c' evs].
    assert (H0 : phi F held (cinit F) = 0) by (unfold phi; simpl; reflexivity). lia.
  - intros fuel c chunk Hf. apply (cstep_stops F held HF); assumption.
Qed.


(* ------------------------------------------------------------------------------------------------------------------
   skip_errors_terminates for BufferedStreamDataConsumer: over any buffer-filling framer whose events make progress
   (bprogressive: _buffered_readuntil, buffered fixed-size, the generic wrapper over any progressive copying framer, and
   their lifted versions), with a non-empty receive buffer: the number of packets + parse errors plus the bytes still
   owed (re-injected remainder + what the suspended generator counts as received) never exceeds the bytes delivered,
   for every chunk list; and the drain loop of a receive round ends with StopIteration (or the round ended in a
   RuntimeError) as soon as the fuel covers the backlog.
   ------------------------------------------------------------------------------------------------------------------ *)
Lemma skip_errors_terminates_buffered_pf :
  (forall P sep limit ke (dec : decoder P), 1 <= length sep -> bprogressive (bru_framer sep limit ke dec) fst) /\
  (forall P size (dec : decoder P), 1 <= size -> bprogressive (bfx_framer size dec) (fun n => n)) /\
  (forall P (F : framer P) held alloc, progressive F held -> bprogressive (bwrap_generic F alloc) held) /\
  (forall P (B : bframer (epkt P)) bh, bprogressive B bh -> bprogressive (lift_bframer B) bh) /\
  (forall P (B : bframer P) (sizehint : nat) (bh : bst_ B -> nat),
      bprogressive B bh -> 1 <= balloc B sizehint ->
      (forall fuel chunks,
          let '(c', evs) := bcdeliver B sizehint fuel (bcinit B) chunks in
          nevents evs + psi B bh c' <= Proofs.C06_progress.total_len chunks) /\
      (forall fuel c (data : bytes), rested_b B c -> psi B bh c + length data < fuel ->
          let '(c', evs, _) := bcstep B sizehint fuel c data in
          In RCrash evs \/ snd (bcnext B sizehint c' None) = RStop)).
Proof.
  split; [intros; apply bru_bprogressive; assumption|].
  split; [intros; apply bfx_bprogressive; assumption|].
  split; [intros; apply bwrap_bprogressive; assumption|].
  split; [intros; apply lift_bprogressive; assumption|].
  intros P B sizehint bh HB Ha. split.
  - intros fuel chunks.
    pose proof (bcdeliver_psi B sizehint bh HB Ha fuel chunks (bcinit B) (rested_b_init B)) as H.
    destruct (bcdeliver B sizehint fuel (bcinit B) chunks) as [c' evs]. destruct H as [_ H].
    rewrite (psi_init B bh) in H. lia.
  - intros fuel c data Hr Hf. apply (bcstep_stops B sizehint bh HB Ha); assumption.
Qed.

(* ------------------------------------------------------------------------------------------------------------------
   the unread remainder: what every packet / parse error carries is exactly a suffix of the bytes the parser had been
   given since its previous event (copying: accumulated buffer ++ chunk; buffer-filling: the received prefix of the
   receive buffer; raw JSON: everything received for this document)
   ------------------------------------------------------------------------------------------------------------------ *)
Lemma error_remainder_is_suffix_pf :
  (forall P sep limit ke (dec : decoder P) st chunk,
      event_suffix (ru_acc st ++ chunk) (ffeed (ru_framer sep limit ke dec) st chunk)) /\
  (forall P size (dec : decoder P) st chunk,
      event_suffix (rx_acc st ++ chunk) (ffeed (rx_framer size dec) st chunk)) /\
  (forall P sep limit ke (dec : decoder P) st mem n,
      bevent_suffix (firstn (fst st + n) mem) (bfeed (bru_framer sep limit ke dec) st mem n)) /\
  (forall P size (dec : decoder P) nread mem n,
      bevent_suffix (firstn (nread + n) mem) (bfeed (bfx_framer size dec) nread mem n)) /\
  (forall P limit (dec : decoder P) st chunk,
      event_suffix (j_acc st ++ chunk) (ffeed (json_framer limit dec) st chunk)).
Proof.
  split; [intros; apply ru_feed_suffix|].
  split; [intros; apply rx_feed_suffix|].
  split; [intros; apply bru_feed_suffix|].
  split; [intros; apply bfx_feed_suffix|].
  intros; apply json_feed_suffix.
Qed.

(* ------------------------------------------------------------------------------------------------------------------
   BufferedStreamDataConsumer.__save_remainder_in_buffer raises ValueError when the remainder is longer than the receive
   buffer (modelled in Run/C06.v as the event [9, 2]).  Through the generic buffered wrapper the generator is sent
   buffer[:nbytes]; the remainder is no longer than that slice -- hence fits -- for a loader that only moves forward
   (after EOF on the previous content it reads into the new slice before it can return or fail) and for a decompressor
   whose unused_data is part of the last slice.
   ------------------------------------------------------------------------------------------------------------------ *)
Lemma remainder_fits_receive_buffer_pf :
  (forall P limit (load : bytes -> lres P) expected st (content ch : bytes),
      st = None /\ content = [] \/ st = Some (content, length content) ->
      (forall p pos, load (content ++ ch) = LDone p pos -> length content <= pos) ->
      (forall k pos, load (content ++ ch) = LRaise k pos -> length content <= pos) ->
      match ffeed (fb_framer limit load expected) st ch with
      | Done _ rest | Fail _ rest => length rest <= length ch
      | _ => True
      end) /\
  (forall P D dnew (dd : D -> bytes -> (D * bytes) + Z) deof dunused expected (inner : bytes -> ores P) inner_declared st (ch : bytes),
      (forall d c d' out, dd d c = inl (d', out) -> deof d' = true -> length (dunused d') < length c) ->
      match ffeed (cz_framer D dnew dd deof dunused expected inner inner_declared) st ch with
      | Done _ rest | Fail _ rest => length rest <= length ch
      | _ => True
      end).
Proof.
  split.
  - intros. cbn. apply fb_feed_remainder_fits with (content := content); assumption.
  - intros. cbn. apply cz_remainder_fits; assumption.
Qed.

(* the same for the file-based framer while its loader leaves the file position at the end after each EOFError (an
   invariant kept by such a loader), and for the compressors when unused_data is the tail of the completing chunk *)
Lemma error_remainder_is_suffix_generic_pf :
  (forall P limit (load : bytes -> lres P) expected st chunk, fb_at_end st ->
      event_suffix (fb_acc st ++ chunk) (ffeed (fb_framer limit load expected) st chunk)) /\
  (forall P limit (load : bytes -> lres P) expected st chunk st',
      (forall content pos, load content = LEof pos -> pos = length content) ->
      ffeed (fb_framer limit load expected) st chunk = Need st' -> fb_at_end st') /\
  (forall P D dnew (dd : D -> bytes -> (D * bytes) + Z) deof dunused expected (inner : bytes -> ores P) inner_declared st chunk,
      (forall d c d' out, dd d c = inl (d', out) -> deof d' = true -> suffix_of (dunused d') c) ->
      event_suffix chunk (ffeed (cz_framer D dnew dd deof dunused expected inner inner_declared) st chunk)).
Proof.
  split; [intros; apply fb_feed_suffix; assumption|].
  split; [intros; eapply fb_feed_keeps_at_end; eauto|].
  intros; apply cz_feed_suffix; assumption.
Qed.
