(* Closed instances of the C03 theorems for the separator framers: copying consumer x read_until, buffer-filling
   consumer x _buffered_readuntil.  The only hypothesis left is on the peer's stream: every frame inside the safe band. *)
From Coq Require Import List Arith Bool Lia.
From EN Require Import Lib.Bytes Frame.Framer Frame.ReadUntil Frame.BufReadUntil Stream.Consumer Stream.SpecDecode
  Stream.Endpoint Stream.EndpointSpec Proofs.Bytes_proofs Proofs.ReadUntil_proofs Proofs.C03_proofs
  Proofs.C03_readuntil Proofs.C03_bufreaduntil.
Import ListNotations.

Lemma spec_incomplete_tail : forall {P} (sep : bytes) (keep_end : bool) (dec : decoder P), sep <> [] ->
    forall s1 tail, snd (spec_events sep keep_end dec s1) = [] -> find0 sep tail = None ->
      fst (spec_events sep keep_end dec (s1 ++ tail)) = fst (spec_events sep keep_end dec s1).
Proof.
  intros P sep keep_end dec Hne s1 tail H1 H2.
  rewrite (spec_whole_app sep 0 keep_end dec Hne s1 tail H1). cbn [fst].
  rewrite (spec_events_none sep keep_end dec tail H2). cbn [fst]. apply app_nil_r.
Qed.

Section RU.
  Context {P : Type}.
  Variable sep : bytes.
  Variable limit : nat.
  Variable keep_end : bool.
  Variable dec : decoder P.
  Variable bufsize : nat.
  Hypothesis sep_ne : sep <> [].
  Hypothesis bufsize_pos : 0 < bufsize.
  Variable mode : emode.

  Let M := copy_machine (ru_framer sep limit keep_end dec) bufsize.
  Let c0 := cinit (ru_framer sep limit keep_end dec).
  Let OK := ru_consumer_ok_rel sep limit keep_end dec bufsize sep_ne bufsize_pos.
  Let R0 := ru_R_init sep limit keep_end dec sep_ne.
  Let spec := fun d => fst (spec_events sep keep_end dec d).

  Lemma ru_recv_sequence : forall o ts j r,
      safe sep limit (stream_of o) ->
      nth_error (delivered (results (run_calls M mode (linit c0) o ts))) j = Some r ->
      r = expected (fst (spec_events sep keep_end dec (stream_of o))) j.
  Proof. intros o ts j r HG. exact (recv_sequence_rel M mode _ _ _ _ OK c0 R0 o ts j r HG). Qed.

  Lemma ru_no_partial : forall o ts s1 tail,
      safe sep limit (stream_of o) ->
      stream_of o = s1 ++ tail -> snd (spec_events sep keep_end dec s1) = [] -> find0 sep tail = None ->
      forall j r, nth_error (delivered (results (run_calls M mode (linit c0) o ts))) j = Some r ->
                  length (fst (spec_events sep keep_end dec s1)) <= j -> r = RecvAborted.
  Proof.
    intros o ts s1 tail HG Hs H1 H2.
    exact (no_partial_delivery_rel M mode _ _ _ _ OK c0 R0 o ts s1 tail HG Hs
             (spec_incomplete_tail sep keep_end dec sep_ne s1 tail H1 H2)).
  Qed.

  Lemma ru_eof_sticky : forall o ts1 rs1 st1 o1,
      safe sep limit (stream_of o) ->
      run_calls M mode (linit c0) o ts1 = (rs1, st1, o1) ->
      forall t st2 o2 el, receive M mode t st1 o1 = (st2, o2, RecvAborted, el) ->
      forall ts' o', exists st3, run_calls M mode st2 o' ts' = (map (fun _ => (RecvAborted, o')) ts', st3, o').
  Proof. intros o ts1 rs1 st1 o1 HG. exact (eof_sticky_rel M mode _ _ _ _ OK c0 R0 o ts1 rs1 st1 o1 HG). Qed.

  Lemma ru_timeout_loses_nothing : forall o ts,
      safe sep limit (stream_of o) ->
      let evs := fst (spec_events sep keep_end dec (stream_of o)) in
      firstn (S (length evs))
             (delivered (results (run_calls M mode (linit c0) o (ts ++ repeat None (S (length evs) + raises o)))))
      = map of_nres evs ++ [RecvAborted].
  Proof. intros o ts HG. exact (timeout_loses_nothing_rel M mode _ _ _ _ OK c0 R0 o ts HG). Qed.
End RU.

Section BRU.
  Context {P : Type}.
  Variable sep : bytes.
  Variable limit : nat.
  Variable keep_end : bool.
  Variable dec : decoder P.
  Variable sizehint : nat.
  Hypothesis sep_ne : sep <> [].
  Hypothesis limit_ok : length sep + 1 <= limit.
  Variable mode : emode.

  Let M := buf_machine (bru_framer sep limit keep_end dec) sizehint.
  Let c0 := bcinit (bru_framer sep limit keep_end dec).
  Let OK := bru_consumer_ok_rel sep limit keep_end dec sizehint sep_ne limit_ok.
  Let R0 := bru_R_init sep limit keep_end dec sep_ne.

  Lemma bru_recv_sequence : forall o ts j r,
      safe sep (limit - 1 - length sep) (stream_of o) ->
      nth_error (delivered (results (run_calls M mode (linit c0) o ts))) j = Some r ->
      r = expected (fst (spec_events sep keep_end dec (stream_of o))) j.
  Proof. intros o ts j r HG. exact (recv_sequence_rel M mode _ _ _ _ OK c0 R0 o ts j r HG). Qed.

  Lemma bru_no_partial : forall o ts s1 tail,
      safe sep (limit - 1 - length sep) (stream_of o) ->
      stream_of o = s1 ++ tail -> snd (spec_events sep keep_end dec s1) = [] -> find0 sep tail = None ->
      forall j r, nth_error (delivered (results (run_calls M mode (linit c0) o ts))) j = Some r ->
                  length (fst (spec_events sep keep_end dec s1)) <= j -> r = RecvAborted.
  Proof.
    intros o ts s1 tail HG Hs H1 H2.
    exact (no_partial_delivery_rel M mode _ _ _ _ OK c0 R0 o ts s1 tail HG Hs
             (spec_incomplete_tail sep keep_end dec sep_ne s1 tail H1 H2)).
  Qed.

  Lemma bru_eof_sticky : forall o ts1 rs1 st1 o1,
      safe sep (limit - 1 - length sep) (stream_of o) ->
      run_calls M mode (linit c0) o ts1 = (rs1, st1, o1) ->
      forall t st2 o2 el, receive M mode t st1 o1 = (st2, o2, RecvAborted, el) ->
      forall ts' o', exists st3, run_calls M mode st2 o' ts' = (map (fun _ => (RecvAborted, o')) ts', st3, o').
  Proof. intros o ts1 rs1 st1 o1 HG. exact (eof_sticky_rel M mode _ _ _ _ OK c0 R0 o ts1 rs1 st1 o1 HG). Qed.

  Lemma bru_timeout_loses_nothing : forall o ts,
      safe sep (limit - 1 - length sep) (stream_of o) ->
      let evs := fst (spec_events sep keep_end dec (stream_of o)) in
      firstn (S (length evs))
             (delivered (results (run_calls M mode (linit c0) o (ts ++ repeat None (S (length evs) + raises o)))))
      = map of_nres evs ++ [RecvAborted].
  Proof. intros o ts HG. exact (timeout_loses_nothing_rel M mode _ _ _ _ OK c0 R0 o ts HG). Qed.
End BRU.

(* ---- two threads on one blocking client: closed instances for the copying receiver *)
From EN Require Import Conc.RecvLock Proofs.C03_lock Proofs.C03_fixed.

Lemma ru_threads_recv_sequence :
  forall (P : Type) (sep : bytes) (limit : nat) (keep_end : bool) (dec : decoder P) (bufsize : nat),
    sep <> [] -> 0 < bufsize ->
  forall (o : oracle) (na nb : nat) (sch : list bool) (j : nat) (r : rres P),
    safe sep limit (stream_of o) ->
    nth_error (delivered (map snd (rev (t_log (trun (copy_machine (ru_framer sep limit keep_end dec) bufsize)
                                               (tinit (cinit (ru_framer sep limit keep_end dec)) o na nb) sch))))) j = Some r ->
    r = expected (fst (spec_events sep keep_end dec (stream_of o))) j.
Proof.
  intros P sep limit keep_end dec bufsize Hs Hb o na nb sch j r HG H.
  exact (threads_recv_sequence_rel _ _ _ _ _
           (ru_consumer_ok_rel sep limit keep_end dec bufsize Hs Hb) _ (ru_R_init sep limit keep_end dec Hs)
           o na nb sch j r HG H).
Qed.

Lemma bru_threads_recv_sequence :
  forall (P : Type) (sep : bytes) (limit : nat) (keep_end : bool) (dec : decoder P) (sizehint : nat),
    sep <> [] -> length sep + 1 <= limit ->
  forall (o : oracle) (na nb : nat) (sch : list bool) (j : nat) (r : rres P),
    safe sep (limit - 1 - length sep) (stream_of o) ->
    nth_error (delivered (map snd (rev (t_log (trun (buf_machine (bru_framer sep limit keep_end dec) sizehint)
                                               (tinit (bcinit (bru_framer sep limit keep_end dec)) o na nb) sch))))) j = Some r ->
    r = expected (fst (spec_events sep keep_end dec (stream_of o))) j.
Proof.
  intros P sep limit keep_end dec sizehint Hs Hl o na nb sch j r HG H.
  exact (threads_recv_sequence_rel _ _ _ _ _
           (bru_consumer_ok_rel sep limit keep_end dec sizehint Hs Hl) _ (bru_R_init sep limit keep_end dec Hs)
           o na nb sch j r HG H).
Qed.

Lemma bru_lock_serialises :
  forall (P : Type) (sep : bytes) (limit : nat) (keep_end : bool) (dec : decoder P) (sizehint : nat),
    sep <> [] -> length sep + 1 <= limit ->
  forall (o : oracle) (na nb : nat) (sch : list bool),
    safe sep (limit - 1 - length sep) (stream_of o) ->
    let M := buf_machine (bru_framer sep limit keep_end dec) sizehint in
    let s := trun M (tinit (bcinit (bru_framer sep limit keep_end dec)) o na nb) sch in
    map snd (rev (t_log s)) =
    firstn (length (t_log s)) (results (run_calls M Blocking (linit (bcinit (bru_framer sep limit keep_end dec))) o
                                                  (repeat None (na + nb)))).
Proof.
  intros P sep limit keep_end dec sizehint Hs Hl o na nb sch HG.
  exact (lock_serialises_rel _ _ _ _ _ (bru_consumer_ok_rel sep limit keep_end dec sizehint Hs Hl) _
           (bru_R_init sep limit keep_end dec Hs) o na nb sch HG).
Qed.

Lemma fx_threads_recv_sequence :
  forall (P : Type) (size : nat) (dec : decoder P) (bufsize : nat), 0 < size -> 0 < bufsize ->
  forall (o : oracle) (na nb : nat) (sch : list bool) (j : nat) (r : rres P),
    nth_error (delivered (map snd (rev (t_log (trun (copy_machine (rx_framer size dec) bufsize)
                                               (tinit (cinit (rx_framer size dec)) o na nb) sch))))) j = Some r ->
    r = expected (fx_spec size dec (stream_of o)) j.
Proof.
  intros P size dec bufsize Hs Hb o na nb sch j r H.
  exact (threads_recv_sequence _ (copy_machine_progress _ bufsize Hb) _ _
           (fx_consumer_ok size dec bufsize Hs Hb) _ (fx_R_init size dec bufsize Hs Hb) o na nb sch j r H).
Qed.

(* ---- buffer-filling receiver x fixed-size framing: no hypothesis on the stream *)
From EN Require Import Proofs.C03_buffixed.

Section BFX.
  Context {P : Type}.
  Variable size : nat.
  Variable dec : decoder P.
  Variable sizehint : nat.
  Hypothesis size_pos : 1 <= size.
  Variable mode : emode.

  Let M := buf_machine (bfx_framer size dec) sizehint.
  Let c0 := bcinit (bfx_framer size dec).
  Let OK := bfx_consumer_ok_rel size dec sizehint size_pos.
  Let R0 := bfx_R_init size dec sizehint size_pos.

  Lemma bfx_recv_sequence : forall o ts j r,
      nth_error (delivered (results (run_calls M mode (linit c0) o ts))) j = Some r ->
      r = expected (fst (fx_events size dec (stream_of o))) j.
  Proof. intros o ts j r. exact (recv_sequence_rel M mode _ _ _ _ OK c0 R0 o ts j r I). Qed.

  Lemma bfx_no_partial : forall o ts s1 tail,
      stream_of o = s1 ++ tail -> snd (fx_events size dec s1) = [] -> length tail < size ->
      forall j r, nth_error (delivered (results (run_calls M mode (linit c0) o ts))) j = Some r ->
                  length (fst (fx_events size dec s1)) <= j -> r = RecvAborted.
  Proof.
    intros o ts s1 tail Hs H1 H2.
    refine (no_partial_delivery_rel M mode _ _ _ _ OK c0 R0 o ts s1 tail I Hs _).
    unfold bfx_spec. rewrite (fx_whole_app size dec size_pos s1 tail H1). cbn [fst].
    rewrite (Fixed_proofs.fx_short size dec size_pos tail H2). cbn [fst]. apply app_nil_r.
  Qed.

  Lemma bfx_eof_sticky : forall o ts1 rs1 st1 o1,
      run_calls M mode (linit c0) o ts1 = (rs1, st1, o1) ->
      forall t st2 o2 el, receive M mode t st1 o1 = (st2, o2, RecvAborted, el) ->
      forall ts' o', exists st3, run_calls M mode st2 o' ts' = (map (fun _ => (RecvAborted, o')) ts', st3, o').
  Proof. intros o ts1 rs1 st1 o1. exact (eof_sticky_rel M mode _ _ _ _ OK c0 R0 o ts1 rs1 st1 o1 I). Qed.

  Lemma bfx_timeout_loses_nothing : forall o ts,
      let evs := fst (fx_events size dec (stream_of o)) in
      firstn (S (length evs))
             (delivered (results (run_calls M mode (linit c0) o (ts ++ repeat None (S (length evs) + raises o)))))
      = map of_nres evs ++ [RecvAborted].
  Proof. intros o ts. exact (timeout_loses_nothing_rel M mode _ _ _ _ OK c0 R0 o ts I). Qed.
End BFX.

Lemma bfx_threads_recv_sequence :
  forall (P : Type) (size : nat) (dec : decoder P) (sizehint : nat), 1 <= size ->
  forall (o : oracle) (na nb : nat) (sch : list bool) (j : nat) (r : rres P),
    nth_error (delivered (map snd (rev (t_log (trun (buf_machine (bfx_framer size dec) sizehint)
                                               (tinit (bcinit (bfx_framer size dec)) o na nb) sch))))) j = Some r ->
    r = expected (fst (fx_events size dec (stream_of o))) j.
Proof.
  intros P size dec sizehint Hs o na nb sch j r H.
  exact (threads_recv_sequence_rel _ _ _ _ _ (bfx_consumer_ok_rel size dec sizehint Hs) _
           (bfx_R_init size dec sizehint Hs) o na nb sch j r I H).
Qed.
