(* C03/C15 bridge, buffer-filling path x fixed-size framing: [consumer_ok_rel] for the buffered consumer model over
   FixedSizePacketSerializer.buffered_incremental_deserialize, for ANY stream (G = True), spec = [fx_events].
   Built on the lead's Proofs/BufFixed_proofs.v (frep, fpend, fscan, fcres, fsave_remainder, fnext_none_pend). *)
From Coq Require Import List Arith Bool Lia.
From EN Require Import Lib.Bytes Frame.Framer Frame.BufReadUntil Stream.Consumer Stream.SpecDecode Stream.Endpoint
  Stream.EndpointSpec Proofs.Bytes_proofs Proofs.BufReadUntil_proofs Proofs.Fixed_proofs Proofs.BufFixed_proofs
  Proofs.C03_bufreaduntil.
Import ListNotations.

Section BFXBridge.
  Context {P : Type}.
  Variable size : nat.
  Variable dec : decoder P.
  Variable sizehint : nat.
  Hypothesis size_pos : 1 <= size.

  Notation F := (bfx_framer size dec).
  Let A := Nat.max size sizehint.
  Definition XM := buf_machine (bfx_framer size dec) sizehint.

  Notation fx_ev := (fx_events size dec).
  Definition bfx_spec (d : bytes) : list (nres P) := fst (fx_events size dec d).

  Notation mkf' := (mkf size dec).
  Notation frep' := (frep size dec sizehint).
  Notation fpend' := (fpend size dec sizehint).
  Notation fcres' := (fcres size dec sizehint).
  Notation fscan' := (fscan size dec).

  Let x_app := @fx_app P size dec size_pos.
  Let x_short := @fx_short P size dec size_pos.
  Let x_step := @fx_step P size dec size_pos.

  Definition bfx_R (c : bcstate F) (d : bytes) (k : nat) : Prop :=
    exists d1 w, d = d1 ++ w /\ snd (fx_ev d1) = [] /\ length (fst (fx_ev d1)) = k /\ (fpend' c w \/ frep' c w).
  Definition bfx_D (c : bcstate F) (d : bytes) : Prop :=
    exists d1 w, d = d1 ++ w /\ snd (fx_ev d1) = [] /\ frep' c w.

  Lemma A_ge' : size <= A. Proof. unfold A. lia. Qed.

  Lemma fx_whole_app : forall d1 w, snd (fx_ev d1) = [] -> fx_ev (d1 ++ w) = (fst (fx_ev d1) ++ fst (fx_ev w), snd (fx_ev w)).
  Proof. intros d1 w H. rewrite x_app, H. reflexivity. Qed.

  Lemma fx_nil : fx_ev [] = ([], []).
  Proof. apply x_short. simpl. lia. Qed.

  Lemma fx_one_record : forall w, size <= length w -> fx_ev (firstn size w) = ([record_event dec (firstn size w)], []).
  Proof.
    intros w H. assert (Hl : length (firstn size w) = size) by (rewrite firstn_length; lia).
    rewrite x_step by lia. rewrite skipn_all2 by lia. rewrite fx_nil. cbn [fst snd].
    rewrite firstn_all2 by lia. reflexivity.
  Qed.

  (* the generator step on the received bytes [b] held in memory [m], after the whole records [d1] *)
  Lemma fscan_step : forall d1 (m : bytes) st0 b,
      snd (fx_ev d1) = [] -> b <> [] -> length m = A -> length b <= A -> firstn (length b) m = b ->
      let k := length (fst (fx_ev d1)) in
      match fcres' m st0 (fscan' b) with
      | (c', RStop) => length (bfx_spec (d1 ++ b)) = k /\ bfx_D c' (d1 ++ b)
      | (c', r) => nth_error (bfx_spec (d1 ++ b)) k = Some r /\ bfx_R c' (d1 ++ b) (S k)
      end.
  Proof.
    intros d1 m st0 b Hd1 Hne Hm Hbl Hfm k. unfold bfx_spec. rewrite (fx_whole_app _ b Hd1). cbn [fst].
    unfold fscan. destruct (Nat.ltb_spec (length b) size) as [Hlt|Hge].
    - cbn [fcres]. rewrite (x_short b Hlt). cbn [fst]. rewrite app_nil_r. split; [reflexivity|].
      exists d1, b. split; [reflexivity|]. split; [exact Hd1|]. constructor; assumption.
    - assert (Hnth : nth_error (fst (fx_ev d1) ++ fst (fx_ev b)) k = Some (record_event dec (firstn size b))).
      { rewrite nth_error_app2 by (unfold k; lia). unfold k. rewrite Nat.sub_diag. rewrite (x_step b Hge). reflexivity. }
      assert (HR : bfx_R (bc_save_remainder F sizehint (mkf' (Some m) st0 0 None None) (skipn size b)) (d1 ++ b) (S k)).
      { exists (d1 ++ firstn size b), (skipn size b).
        split; [rewrite <- app_assoc, firstn_skipn; reflexivity|].
        rewrite (fx_whole_app _ _ Hd1), (fx_one_record b Hge). cbn [fst snd].
        split; [reflexivity|]. split; [rewrite app_length; simpl; unfold k; lia|]. left.
        apply (fsave_remainder size dec sizehint size_pos); [exact Hm|]. rewrite skipn_length. fold A. lia. }
      unfold record_event in Hnth.
      destruct (dec (firstn size b)); cbn [fcres]; split; auto.
  Qed.

  (* one recv_into round on a drained consumer *)
  Lemma fround : forall c w (avail : bytes), frep' c w -> avail <> [] ->
      let d := firstn (A - length w) avail in
      exists (m : bytes), length m = A /\ firstn (length (w ++ d)) m = w ++ d /\ d <> [] /\ length w + length d <= A /\
        mtake XM c avail =
          (let '(c3, r) := fcres' m (length w) (fscan' (w ++ d)) in Some (c3, r, length d, A - length w)).
  Proof.
    intros c w avail Hc Hne d. pose proof A_ge' as HA.
    pose proof (frep_tail_short size dec sizehint size_pos _ _ Hc) as Hws.
    assert (Hdl : length d = Nat.min (A - length w) (length avail)) by (unfold d; apply firstn_length).
    assert (Hdne : d <> []).
    { unfold d. destruct avail; [congruence|]. destruct (A - length w) eqn:E; [lia|simpl; discriminate]. }
    assert (Hdpos : 0 < length d) by (destruct d; [congruence|simpl; lia]).
    cbn [XM buf_machine mtake]. revert d Hdl Hdne Hdpos.
    destruct Hc as [m0 st Hm0 | m0 w Hm0 Hwne Hwl Hwf]; intros d Hdl Hdne Hdpos.
    - set (m1 := match m0 with Some x => x | None => repeat 0%N A end).
      assert (Hm1 : length m1 = A) by (unfold m1; destruct m0; [exact Hm0 | apply repeat_length]).
      exists (write_at m1 0 d). cbn [app length] in *. rewrite Nat.sub_0_r in *.
      split; [rewrite write_at_length; simpl; lia|].
      split; [exact (write_at_firstn m1 0 d ltac:(simpl; lia))|].
      split; [exact Hdne|]. split; [lia|].
      unfold bc_get_write_buffer. cbn [bexported mkf bmem bcons binit bfx_framer balloc balready bstart].
      fold A. fold m1. cbn [Nat.add]. rewrite Hm1. rewrite Nat.sub_0_r.
      assert (Hz : Nat.eqb A 0 = false) by (apply Nat.eqb_neq; lia). rewrite Hz.
      replace (firstn A avail) with d by (unfold d; rewrite Nat.sub_0_r; reflexivity).
      unfold bc_fill, bcnext. cbn [bmem bexported bcons balready bstart].
      assert (Hbad : Nat.ltb A (length d) = false) by (apply Nat.ltb_ge; lia). rewrite Hbad.
      assert (Hz2 : Nat.eqb (length d + 0) 0 = false) by (apply Nat.eqb_neq; lia). rewrite Hz2.
      cbn [bfeed bfx_framer]. rewrite (bfx_feed_data size dec sizehint size_pos) by (rewrite write_at_length; simpl; lia).
      replace (0 + (length d + 0)) with (0 + length d) by lia.
      rewrite (write_at_firstn m1 0 d ltac:(simpl; lia)). cbn [firstn app].
      destruct (fscan' d) as [s start|x rest|e rest|]; cbn [fcres]; reflexivity.
    - exists (write_at m0 (length w) d).
      split; [rewrite write_at_length; lia|].
      split; [rewrite app_length, write_at_firstn by lia; rewrite Hwf; reflexivity|].
      split; [exact Hdne|]. split; [lia|].
      unfold bc_get_write_buffer. cbn [bexported mkf bmem bcons balready bstart].
      rewrite Nat.add_0_r. rewrite Hm0. fold A.
      assert (Hz : Nat.eqb (A - length w) 0 = false) by (apply Nat.eqb_neq; lia). rewrite Hz.
      change (firstn (A - length w) avail) with d.
      unfold bc_fill, bcnext. cbn [bmem bexported bcons balready bstart].
      assert (Hbad : Nat.ltb (A - length w) (length d) = false) by (apply Nat.ltb_ge; lia). rewrite Hbad.
      assert (Hz2 : Nat.eqb (length d + 0) 0 = false) by (apply Nat.eqb_neq; lia). rewrite Hz2.
      cbn [bfeed bfx_framer]. rewrite (bfx_feed_data size dec sizehint size_pos) by (rewrite write_at_length; lia).
      replace (length w + (length d + 0)) with (length w + length d) by lia.
      rewrite write_at_firstn by lia. rewrite Hwf.
      destruct (fscan' (w ++ d)) as [s start|x rest|e rest|]; cbn [fcres]; reflexivity.
  Qed.

  Lemma bfx_len_short : forall d1 w, snd (fx_ev d1) = [] -> length w < size ->
      length (bfx_spec (d1 ++ w)) = length (fst (fx_ev d1)).
  Proof.
    intros d1 w Hd1 Hw. unfold bfx_spec. rewrite (fx_whole_app _ w Hd1). cbn [fst].
    rewrite (x_short w Hw). cbn [fst]. rewrite app_nil_r. reflexivity.
  Qed.

  Lemma bfx_ok_drain : forall c d k c' r, bfx_R c d k -> mdrain XM c = (c', r) ->
      match r with
      | RStop => k = length (bfx_spec d) /\ bfx_D c' d
      | _ => nth_error (bfx_spec d) k = Some r /\ bfx_R c' d (S k)
      end.
  Proof.
    intros c d k c' r (d1 & w & -> & Hd1 & <- & Hc) E. cbn [XM buf_machine mdrain] in E.
    assert (Hrep : forall c0, c = c0 -> frep' c0 w ->
                   match r with
                   | RStop => length (fst (fx_ev d1)) = length (bfx_spec (d1 ++ w)) /\ bfx_D c' (d1 ++ w)
                   | _ => nth_error (bfx_spec (d1 ++ w)) (length (fst (fx_ev d1))) = Some r /\
                          bfx_R c' (d1 ++ w) (S (length (fst (fx_ev d1))))
                   end).
    { intros c0 -> Hc0.
      assert (E0 : (c', r) = (c0, RStop)).
      { inversion Hc0 as [m st Hm | m w0 Hm Hwne Hwl Hwf]; subst.
        - rewrite fnext_none_idle in E. symmetry. exact E.
        - rewrite <- E. reflexivity. }
      inversion E0; subst c' r. split.
      - rewrite (bfx_len_short _ _ Hd1 (frep_tail_short size dec sizehint size_pos _ _ Hc0)). reflexivity.
      - exists d1, w. auto. }
    destruct Hc as [Hc | Hc]; [|apply (Hrep c eq_refl Hc)].
    pose proof (fpend_len size dec sizehint size_pos _ _ Hc) as Hrl.
    inversion Hc as [c0 Hc0 | m r0 Hm Hne Hfm]; subst.
    - apply (Hrep c eq_refl Hc0).
    - rewrite (fnext_none_pend size dec sizehint size_pos _ _ Hm Hne Hfm Hrl) in E.
      pose proof (fscan_step d1 m 0 w Hd1 Hne Hm Hrl Hfm) as Hst. cbv zeta in Hst.
      rewrite E in Hst.
      destruct r; auto. destruct Hst as [Hl HD]. split; [symmetry; exact Hl|exact HD].
  Qed.

  Lemma bfx_ok_take : forall c d avail, bfx_D c d -> avail <> [] ->
      exists c' r n room, mtake XM c avail = Some (c', r, n, room) /\
        1 <= n <= length avail /\
        match r with
        | RStop => length (bfx_spec (d ++ firstn n avail)) = length (bfx_spec d) /\ bfx_D c' (d ++ firstn n avail)
        | _ => nth_error (bfx_spec (d ++ firstn n avail)) (length (bfx_spec d)) = Some r /\
               bfx_R c' (d ++ firstn n avail) (S (length (bfx_spec d)))
        end.
  Proof.
    intros c d avail (d1 & w & -> & Hd1 & Hc) Hav.
    destruct (fround c w avail Hc Hav) as (m & Hm & Hfm & Hdne & Hdl & Htake). cbv zeta in Htake.
    set (piece := firstn (A - length w) avail) in *.
    destruct (fcres' m (length w) (fscan' (w ++ piece))) as [c3 r] eqn:En.
    exists c3, r, (length piece), (A - length w).
    split; [exact Htake|].
    assert (Hpl : 1 <= length piece <= length avail).
    { split; [destruct piece; [congruence|simpl; lia]|]. unfold piece. rewrite firstn_length. lia. }
    split; [exact Hpl|].
    assert (Hfp : firstn (length piece) avail = piece) by (unfold piece; apply firstn_length_firstn).
    rewrite Hfp.
    assert (Hbne : w ++ piece <> []) by (destruct w; [exact Hdne|discriminate]).
    pose proof (fscan_step d1 m (length w) (w ++ piece) Hd1 Hbne Hm ltac:(rewrite app_length; lia) Hfm) as Hst.
    cbv zeta in Hst. rewrite En in Hst.
    rewrite (bfx_len_short _ _ Hd1 (frep_tail_short size dec sizehint size_pos _ _ Hc)). rewrite <- app_assoc. exact Hst.
  Qed.

  Theorem bfx_consumer_ok_rel : consumer_ok_rel XM bfx_spec (fun _ => True) bfx_R bfx_D.
  Proof.
    constructor.
    - auto.
    - intros d x. unfold bfx_spec. rewrite x_app. cbn [fst]. eexists; reflexivity.
    - intros c d (d1 & w & -> & Hd1 & Hc). exists d1, w. split; [reflexivity|]. split; [exact Hd1|].
      split; [|right; exact Hc]. symmetry.
      apply (bfx_len_short _ _ Hd1 (frep_tail_short size dec sizehint size_pos _ _ Hc)).
    - intros c d k c' r _. apply bfx_ok_drain.
    - intros c d avail HD Hne _. apply bfx_ok_take; assumption.
  Qed.

  Lemma bfx_R_init : bfx_R (bcinit F) [] 0.
  Proof.
    exists [], []. split; [reflexivity|]. rewrite fx_nil. split; [reflexivity|]. split; [reflexivity|].
    right. apply (frep_idle size dec sizehint None 0). exact I.
  Qed.
End BFXBridge.
