(* C08 — proofs about the composed system of Conc/TlsDuplex.v: two pumps over the ideal record layer joined by a
   fragmenting, delaying network.  pump_transparent (both directions, all interleavings), lock mutual exclusion. *)
From Coq Require Import ZArith List Bool Lia ZifyBool.
From EN Require Import Lib.Bytes Conc.TlsBase Conc.TlsPump Conc.IdealTls Conc.TlsDuplex Proofs.Tls_tactics Proofs.C08_proofs Proofs.Ideal_proofs.

Section StepFacts.
Variable fl : flags.
Notation flush_pc := (flush_pc fl).
Notation pcall := (pcall fl).
Notation after_flush := (after_flush fl).
Notation go := (go fl).
Notation step := (step fl).
Notation settle_n := (settle_n fl).
Notation settle := (settle fl).
Notation sys_step := (sys_step fl).
Notation sys_exec := (sys_exec fl).
Notation step_send_is_wbio := (step_send_is_wbio fl).
Notation recv_only_from_recvwait := (recv_only_from_recvwait fl).
Notation step_flow := (step_flow fl).

(* ------------------------------------------------------------------ facts about one pump step *)

Lemma step_desync_only_on_mismatch : forall m b s p l s' p' a,
  step m b s p l = Some (s', p', a) -> In ADesync a ->
  exists x, l = LSsl x /\ p = PCall /\ (meth_eqb (a_meth x) m && Nat.eqb (a_arg x) (expected_arg m b s)) = false.
Proof.
  intros m b s p l s' p' a H Hin.
  destruct p as [ | k | k | sn | | r]; destruct l as [x | | t]; cbv beta iota delta [step] in H; try discriminate.
  - destruct (meth_eqb (a_meth x) m && Nat.eqb (a_arg x) (expected_arg m b s)) eqn:Ck; cbn [negb] in H.
    + exfalso. cbv zeta in H. destruct (a_out x).
      * destruct m; try (inversion H; subst; cbn in Hin; intuition discriminate; fail).
        match type of H with context [match ?d with [] => Some _ | _ :: _ => Some _ end] => destruct d end;
          inversion H; subst; cbn in Hin; intuition discriminate.
      * inversion H; subst; cbn in Hin; intuition discriminate.
      * inversion H; subst; cbn in Hin; intuition discriminate.
      * inversion H; subst; cbn in Hin; intuition discriminate.
      * inversion H; subst; cbn in Hin; intuition discriminate.
      * inversion H; subst; cbn in Hin; intuition discriminate.
    + eauto.
  - exfalso. unfold go in H. destruct (send_lock s); try discriminate.
    destruct (wbio s); [destruct k |]; inversion H; subst; cbn in Hin; intuition discriminate.
  - exfalso. destruct t; inversion H; subst; cbn in Hin; intuition discriminate.
  - exfalso. destruct t as [d | | | | bt]; try discriminate; cbv zeta in H.
    + inversion H; subst; cbn in Hin; intuition discriminate.
    + destruct k; inversion H; subst; cbn in Hin; intuition discriminate.
    + inversion H; subst; cbn in Hin; intuition discriminate.
  - exfalso. go_recv H sn; inversion H; subst; cbn in Hin; intuition discriminate.
  - exfalso. destruct t; inversion H; subst; cbn in Hin; intuition discriminate.
  - exfalso. destruct t as [d | | | | bt]; try discriminate; cbv zeta in H.
    + destruct d; inversion H; subst; cbn in Hin; intuition discriminate.
    + inversion H; subst; cbn in Hin; intuition discriminate.
    + inversion H; subst; cbn in Hin; intuition discriminate.
Qed.

(* the write backlog after a step *)
Definition deque_after (m : meth) (b : nat) (s : shared) (p : pc) (l : lab) : list bytes :=
  match p, l with
  | PCall, LSsl x =>
      if meth_eqb (a_meth x) m && Nat.eqb (a_arg x) (expected_arg m b s) then
        match m, a_out x with
        | MWrite, SOk v =>
            match deque s with
            | d :: rest => if Nat.ltb v (length d) then skipn v d :: rest else rest
            | [] => []
            end
        | _, _ => deque s
        end
      else deque s
  | _, _ => deque s
  end.

Lemma step_deque : forall m b s p l s' p' a,
  step m b s p l = Some (s', p', a) -> deque s' = deque_after m b s p l.
Proof.
  intros m b s p l s' p' a H. unfold deque_after.
  destruct p as [ | k | k | sn | | r]; destruct l as [x | | t]; cbv beta iota delta [step] in H; try discriminate.
  - destruct (meth_eqb (a_meth x) m && Nat.eqb (a_arg x) (expected_arg m b s)); cbn [negb] in H.
    + cbv zeta in H. destruct (a_out x).
      * destruct m; try (inversion H; subst; reflexivity).
        cbn [deque set_wbio] in H.
        destruct (deque s) as [| d rest].
        -- inversion H; subst; reflexivity.
        -- destruct (Nat.ltb v (length d)); [inversion H; subst; reflexivity |].
           destruct rest; inversion H; subst; reflexivity.
      * destruct m; inversion H; subst; reflexivity.
      * destruct m; inversion H; subst; reflexivity.
      * destruct m; inversion H; subst; reflexivity.
      * destruct m; inversion H; subst; reflexivity.
      * destruct m; inversion H; subst; reflexivity.
    + inversion H; subst; reflexivity.
  - unfold go in H. destruct (send_lock s); try discriminate.
    destruct (wbio s); [destruct k |]; inversion H; subst; reflexivity.
  - destruct t; inversion H; subst; reflexivity.
  - destruct t as [d | | | | bt]; try discriminate; cbv zeta in H.
    + inversion H; subst; reflexivity.
    + destruct k; inversion H; subst; reflexivity.
    + inversion H; subst; reflexivity.
  - go_recv H sn; inversion H; subst; reflexivity.
  - destruct t; inversion H; subst; reflexivity.
  - destruct t as [d | | | | bt]; try discriminate; cbv zeta in H.
    + destruct d; inversion H; subst; reflexivity.
    + inversion H; subst; reflexivity.
    + inversion H; subst; reflexivity.
Qed.

Lemma sys_step_SStep_inv : forall y t lb y' a,
  sys_step y (SStep t lb) = Some (y', a) ->
  exists tk s1 p1 a1,
    nth_error (y_tasks y) t = Some tk /\
    step (t_meth tk) (t_buf tk) (y_sh y) (t_pc tk) lb = Some (s1, p1, a1) /\
    y_sh y' = s1 /\ a = map (fun x => (t, x)) a1 /\
    y_tasks y' = set_nth t {| t_meth := t_meth tk; t_buf := t_buf tk; t_pc := p1 |} (y_tasks y).
Proof.
  intros y t lb y' a H. cbn in H.
  destruct (nth_error (y_tasks y) t) as [tk |]; try discriminate.
  destruct (step (t_meth tk) (t_buf tk) (y_sh y) (t_pc tk) lb) as [[[s1 p1] a1] |] eqn:St; try discriminate.
  inversion H; subst. exists tk, s1, p1, a1. cbn. auto 10.
Qed.

End StepFacts.

(* ------------------------------------------------------------------ records *)

Section DuplexFacts.
Variable fl : flags.
Variable E D : byte -> byte.
Variable M : nat.
Hypothesis DE : forall x, D (E x) = x.
Notation flush_pc := (flush_pc fl).
Notation pcall := (pcall fl).
Notation after_flush := (after_flush fl).
Notation go := (go fl).
Notation step := (step fl).
Notation settle_n := (settle_n fl).
Notation settle := (settle fl).
Notation sys_step := (sys_step fl).
Notation sys_exec := (sys_exec fl).
Notation step_send_is_wbio := (step_send_is_wbio fl).
Notation recv_only_from_recvwait := (recv_only_from_recvwait fl).
Notation step_flow := (step_flow fl).
Notation step_desync_only_on_mismatch := (step_desync_only_on_mismatch fl).
Notation step_deque := (step_deque fl).
Notation sys_step_SStep_inv := (sys_step_SStep_inv fl).
Notation pump := (pump fl).
Notation ep_step := (ep_step fl E D M).
Notation dstep := (dstep fl E D M).
Notation dexec := (dexec fl E D M).


Definition rcd := (byte * bytes)%type.
Definition encs (recs : list rcd) : bytes := concat (map (fun r => enc E (fst r) (snd r)) recs).
Definition data_of (recs : list rcd) : bytes :=
  concat (map (fun r => if N.eqb (fst r) T_DATA then snd r else []) recs).

Lemma encs_app : forall a b, encs (a ++ b) = encs a ++ encs b.
Proof. intros. unfold encs. rewrite map_app, concat_app. reflexivity. Qed.
Lemma data_of_app : forall a b, data_of (a ++ b) = data_of a ++ data_of b.
Proof. intros. unfold data_of. rewrite map_app, concat_app. reflexivity. Qed.
Lemma encs_cons : forall t p recs, encs ((t, p) :: recs) = enc E t p ++ encs recs.
Proof. reflexivity. Qed.

(* write: the plaintext becomes data records whose payloads concatenate to it *)
Lemma enc_data_records : forall fuel p, length p <= fuel ->
  exists chunks, enc_data E M fuel p = encs (map (fun c => (T_DATA, c)) chunks) /\ concat chunks = p.
Proof.
  induction fuel as [| f IH]; intros p Hl.
  - destruct p; [| cbn in Hl; lia]. exists []. auto.
  - destruct p as [| x p'].
    + exists []. auto.
    + cbn [enc_data]. set (K := Nat.max 1 M).
      destruct (IH (skipn K (x :: p'))) as [chunks [Hc Hp]].
      { rewrite skipn_length. cbn [length] in *. lia. }
      exists (firstn K (x :: p') :: chunks). split.
      * cbn [map]. rewrite encs_cons. rewrite Hc. reflexivity.
      * cbn [concat]. rewrite Hp. apply firstn_skipn.
Qed.

Lemma data_of_data_records : forall chunks, data_of (map (fun c => (T_DATA, c)) chunks) = concat chunks.
Proof.
  induction chunks as [| c cs IH]; [reflexivity |].
  unfold data_of in *. cbn [map concat fst snd]. rewrite IH. reflexivity.
Qed.

(* the head record of a buffer that is a prefix of a record stream *)
Lemma parse_head : forall buf tail recs t p rest,
  buf ++ tail = encs recs -> parse1 D buf = Some (t, p, rest) ->
  exists recs', recs = (t, p) :: recs' /\ rest ++ tail = encs recs'.
Proof.
  intros buf tail recs t p rest Hs Hp.
  destruct recs as [| [t0 p0] recs'].
  - cbn in Hs. apply app_eq_nil in Hs. destruct Hs as [-> _]. discriminate.
  - rewrite encs_cons in Hs.
    assert (Hb : buf = firstn (length buf) (enc E t0 p0 ++ encs recs')).
    { rewrite <- Hs. rewrite firstn_app, Nat.sub_diag, firstn_all. cbn. rewrite app_nil_r. reflexivity. }
    rewrite Hb in Hp. rewrite (parse1_prefix E D DE) in Hp.
    destruct (Nat.leb (2 + length p0) (length buf)) eqn:L; [| discriminate].
    apply Nat.leb_le in L. inversion Hp; subst t p rest. exists recs'. split; [reflexivity |].
    remember (2 + length p0) as h eqn:Eh.
    assert (Hh : length (enc E t0 p0) = h) by (rewrite Eh; apply (enc_length E)).
    assert (Hf : firstn h buf = enc E t0 p0).
    { assert (X : firstn h (buf ++ tail) = firstn h (enc E t0 p0 ++ encs recs')) by (rewrite Hs; reflexivity).
      rewrite firstn_app in X. replace (h - length buf) with 0 in X by lia. rewrite firstn_O, app_nil_r in X.
      rewrite X. rewrite firstn_app, Hh, Nat.sub_diag, firstn_O, app_nil_r. rewrite <- Hh. apply firstn_all. }
    assert (Hbuf : buf = enc E t0 p0 ++ skipn h buf) by (rewrite <- Hf; symmetry; apply firstn_skipn).
    assert (Hm : skipn h buf ++ tail = encs recs').
    { rewrite Hbuf in Hs at 1. rewrite <- app_assoc in Hs. apply app_inv_head in Hs. exact Hs. }
    change (S (S (length p0))) with (2 + length p0). rewrite <- Eh.
    rewrite <- Hm. rewrite firstn_app.
    assert (Hl2 : length (skipn h buf) = length buf - h) by apply skipn_length.
    rewrite Hl2, Nat.sub_diag, firstn_O, app_nil_r. rewrite <- Hl2. rewrite firstn_all. reflexivity.
Qed.

(* effects of the pump's actions on the SSL object and on the network *)
Lemma apply_acts_spec : forall acts i o i' o',
  apply_acts i o acts = (i', o') ->
  o' = o ++ sent (map snd acts) /\
  i_rbio i' = i_rbio i ++ fed (map snd acts) /\
  i_plain i' = i_plain i /\ i_stage i' = i_stage i /\ i_got_cn i' = i_got_cn i /\
  i_sent_cn i' = i_sent_cn i /\ i_client i' = i_client i.
Proof.
  induction acts as [| [t a] acts IH]; intros i o i' o' H; cbn in H.
  - inversion H; subst. cbn. rewrite !app_nil_r. auto 10.
  - destruct a; apply IH in H; cbn [map snd sent fed sent1 fed1 concat] in *;
      unfold sent, fed in *; cbn [map concat sent1 fed1] in *;
      destruct H as [H1 [H2 [H3 [H4 [H5 [H6 H7]]]]]]; cbn in *;
      repeat split; try assumption; try (rewrite H1, <- app_assoc; reflexivity);
      try (rewrite H2, <- app_assoc; reflexivity).
Qed.

(* ------------------------------------------------------------------ what one call on the ideal SSL object does *)

Lemma encs_single : forall t p, encs [(t, p)] = enc E t p.
Proof. intros. unfold encs. cbn [map concat fst snd]. apply app_nil_r. Qed.

Lemma data_of_cons : forall t p recs,
  data_of ((t, p) :: recs) = (if N.eqb t T_DATA then p else []) ++ data_of recs.
Proof. reflexivity. Qed.

(* sender side: whatever a call appends to the outgoing BIO is a sequence of whole records; only a successful write
   produces data records, and their payloads are exactly the plaintext written *)
Lemma call_wd : forall i m n data i' o wd,
  call E D M i m n data = (i', o, wd) ->
  exists recs, wd = encs recs /\
    ((m = MWrite /\ o = SOk (length data) /\ data_of recs = data) \/
     ((m = MWrite -> forall v, o <> SOk v) /\ data_of recs = [])).
Proof.
  intros i m n data i' o wd H. destruct m; cbn [call] in H.
  - (* do_handshake *)
    unfold do_handshake in H.
    assert (Hneed : forall st out flt X,
              match parse_hs D (i_rbio i) with
              | None => (i, starved i, [])
              | Some None => (i, SErr ESslOther, [])
              | Some (Some rest) => (upd i st rest (i_plain i) (i_got_cn i) (i_sent_cn i), out, enc E T_HS flt)
              end = (i', o, wd) -> flt = X \/ True ->
              exists recs, wd = encs recs /\ data_of recs = []).
    { intros st out flt X Hn _. destruct (parse_hs D (i_rbio i)) as [[rest |] |]; inversion Hn; subst.
      - exists [(T_HS, flt)]. split; [rewrite encs_single; reflexivity | reflexivity].
      - exists []. auto.
      - exists []. auto. }
    destruct (i_stage i) as [| [| st]]; destruct (i_client i).
    + inversion H; subst. exists [(T_HS, CH)]. split; [rewrite encs_single; reflexivity |].
      right. split; [intros X; discriminate | reflexivity].
    + destruct (Hneed 1 SWantRead SH SH H (or_intror I)) as [recs [A B]]. exists recs. split; [exact A |].
      right. split; [intros X; discriminate | exact B].
    + destruct (Hneed 2 (SOk 0) FIN FIN H (or_intror I)) as [recs [A B]]. exists recs. split; [exact A |].
      right. split; [intros X; discriminate | exact B].
    + exists []. destruct (parse_hs D (i_rbio i)) as [[rest |] |]; inversion H; subst;
        (split; [reflexivity | right; split; [intros X; discriminate | reflexivity]]).
    + inversion H; subst. exists []. split; [reflexivity | right; split; [intros X; discriminate | reflexivity]].
    + inversion H; subst. exists []. split; [reflexivity | right; split; [intros X; discriminate | reflexivity]].
  - (* read: nothing is produced *)
    exists []. split; [| right; split; [intros X; discriminate | reflexivity]].
    unfold read in H. destruct (negb (Nat.eqb (i_stage i) 2)); [inversion H; reflexivity |].
    destruct (i_plain i); [| inversion H; reflexivity].
    destruct (i_got_cn i); [inversion H; reflexivity |].
    destruct (parse1 D (i_rbio i)) as [[[t p] rest] |]; [| inversion H; reflexivity].
    destruct (N.eqb t T_DATA); [destruct p; inversion H; reflexivity |].
    destruct (N.eqb t T_ALERT); inversion H; reflexivity.
  - (* write *)
    unfold write in H. destruct (negb (Nat.eqb (i_stage i) 2)).
    { inversion H; subst. exists []. split; [reflexivity | right; split; [intros _ v X; discriminate | reflexivity]]. }
    destruct (i_sent_cn i).
    { inversion H; subst. exists []. split; [reflexivity | right; split; [intros _ v X; discriminate | reflexivity]]. }
    inversion H; subst.
    destruct (enc_data_records (length data) data (le_n _)) as [chunks [Hc Hp]].
    exists (map (fun c => (T_DATA, c)) chunks). split; [exact Hc |].
    left. split; [reflexivity | split; [reflexivity |]]. rewrite data_of_data_records. exact Hp.
  - (* unwrap *)
    unfold unwrap in H. destruct (negb (Nat.eqb (i_stage i) 2)).
    { inversion H; subst. exists []. split; [reflexivity | right; split; [intros X; discriminate | reflexivity]]. }
    assert (Hout : exists recs, (if i_sent_cn i then [] else close_notify E) = encs recs /\ data_of recs = []).
    { destruct (i_sent_cn i); [exists []; auto |]. exists [(T_ALERT, [])]. split; [rewrite encs_single; reflexivity | reflexivity]. }
    destruct Hout as [recs [A B]]. exists recs.
    destruct (i_got_cn i).
    { inversion H; subst. split; [exact A | right; split; [intros X; discriminate | exact B]]. }
    destruct (parse1 D (i_rbio i)) as [[[t p] rest] |].
    + destruct (N.eqb t T_ALERT); inversion H; subst; (split; [exact A | right; split; [intros X; discriminate | exact B]]).
    + inversion H; subst. split; [exact A | right; split; [intros X; discriminate | exact B]].
Qed.

(* receiver side: a call consumes whole records from the head of the incoming stream; what it returns plus what it
   keeps decrypted plus the payloads still in the stream is unchanged *)
Lemma call_recv : forall i m n data i' o wd tail recs,
  m <> MUnwrap ->
  call E D M i m n data = (i', o, wd) -> i_rbio i ++ tail = encs recs ->
  exists recs', i_rbio i' ++ tail = encs recs' /\
    (match m with MRead => read_data D i n | _ => [] end) ++ i_plain i' ++ data_of recs' = i_plain i ++ data_of recs.
Proof.
  intros i m n data i' o wd tail recs Hm H Hs. destruct m; cbn [call] in H; [| | | congruence].
  - (* do_handshake *)
    unfold do_handshake in H.
    assert (Hneed : forall st out flt,
              match parse_hs D (i_rbio i) with
              | None => (i, starved i, [])
              | Some None => (i, SErr ESslOther, [])
              | Some (Some rest) => (upd i st rest (i_plain i) (i_got_cn i) (i_sent_cn i), out, flt)
              end = (i', o, wd) ->
              exists recs', i_rbio i' ++ tail = encs recs' /\ [] ++ i_plain i' ++ data_of recs' = i_plain i ++ data_of recs).
    { intros st out flt Hn. unfold parse_hs in Hn.
      destruct (parse1 D (i_rbio i)) as [[[t p] rest] |] eqn:P.
      - destruct (N.eqb t T_HS) eqn:Et.
        + inversion Hn; subst. destruct (parse_head _ _ _ _ _ _ Hs P) as [recs' [-> Hr]].
          exists recs'. split; [exact Hr |]. cbn [upd i_plain]. rewrite data_of_cons.
          apply N.eqb_eq in Et. subst t. reflexivity.
        + inversion Hn; subst. exists recs. auto.
      - inversion Hn; subst. exists recs. auto. }
    destruct (i_stage i) as [| [| st]]; destruct (i_client i); eauto;
      inversion H; subst; exists recs; auto.
  - (* read *)
    unfold read in H. unfold read_data.
    destruct (negb (Nat.eqb (i_stage i) 2)); [inversion H; subst; exists recs; auto |].
    destruct (i_plain i) as [| x pl] eqn:Epl.
    + destruct (i_got_cn i); [inversion H; subst; exists recs; rewrite Epl; auto |].
      destruct (parse1 D (i_rbio i)) as [[[t p] rest] |] eqn:P; [| inversion H; subst; exists recs; rewrite Epl; auto].
      destruct (parse_head _ _ _ _ _ _ Hs P) as [recs' [Er Hr]].
      destruct (N.eqb t T_DATA) eqn:Et.
      * destruct p as [| p0 p'].
        -- inversion H; subst. exists ((t, []) :: recs'). split; [exact Hs |]. rewrite ?Epl, ?firstn_nil. reflexivity.
        -- inversion H; subst. exists recs'. rewrite data_of_cons, Et. cbn [upd i_rbio i_plain]. split; [exact Hr |].
           cbn [app]. rewrite app_assoc, firstn_skipn. reflexivity.
      * destruct (N.eqb t T_ALERT).
        -- inversion H; subst. exists recs'. rewrite data_of_cons, Et. cbn [upd i_rbio i_plain]. split; [exact Hr | reflexivity].
        -- inversion H; subst. exists ((t, p) :: recs'). split; [exact Hs |]. rewrite ?Epl. reflexivity.
    + inversion H; subst. exists recs. cbn [upd i_rbio i_plain]. split; [exact Hs |].
      rewrite app_assoc, firstn_skipn. reflexivity.
  - (* write: the SSL object's receive side is untouched *)
    unfold write in H. destruct (negb (Nat.eqb (i_stage i) 2)); [inversion H; subst; exists recs; auto |].
    destruct (i_sent_cn i); inversion H; subst; exists recs; auto.
Qed.

(* ------------------------------------------------------------------ one transition of one endpoint *)

Definition ep_wbio (e : endpoint) : bytes := wbio (y_sh (e_sys e)).
Definition ep_deque (e : endpoint) : list bytes := deque (y_sh (e_sys e)).
Definition ep_meths (e : endpoint) : list meth := map t_meth (y_tasks (e_sys e)).

Lemma map_set_nth_same : forall {X Y} (f : X -> Y) l t x x',
  nth_error l t = Some x -> f x' = f x -> map f (set_nth t x' l) = map f l.
Proof.
  intros X Y f l. induction l as [| y l IH]; intros t x x' Hn Hf; destruct t; cbn in *; try discriminate.
  - inversion Hn; subst. rewrite Hf. reflexivity.
  - rewrite (IH _ _ _ Hn Hf). reflexivity.
Qed.

Lemma meth_eqb_refl : forall m, meth_eqb m m = true.
Proof. destruct m; reflexivity. Qed.

Lemma pump_step_spec : forall e i w g nin nout t lb e' nin' nout',
  pump e i w g nin nout (SStep t lb) = Some (e', nin', nout') ->
  exists tk, nth_error (y_tasks (e_sys e)) t = Some tk /\
  ((forall x, lb = LSsl x -> a_meth x = t_meth tk /\ a_arg x = expected_arg (t_meth tk) (t_buf tk) (y_sh (e_sys e))) ->
   nin' = nin /\ e_written e' = w /\ e_got e' = g /\
   ep_deque e' = deque_after (t_meth tk) (t_buf tk) (y_sh (e_sys e)) (t_pc tk) lb /\
   nout' ++ ep_wbio e' = nout ++ ep_wbio e ++ delta lb /\
   i_rbio (e_ideal e') = i_rbio i ++ rcvd lb /\ i_plain (e_ideal e') = i_plain i /\
   ep_meths e' = ep_meths e /\ (forall x, lb = LSsl x -> t_pc tk = PCall)).
Proof.
  intros e i w g nin nout t lb e' nin' nout' H. unfold pump in H.
  destruct (sys_step (e_sys e) (SStep t lb)) as [[y acts] |] eqn:S; try discriminate.
  destruct (apply_acts i nout acts) as [i2 o2] eqn:A. inversion H; subst. clear H.
  destruct (sys_step_SStep_inv _ _ _ _ _ S) as [tk [s1 [p1 [a1 [Hn [St [Hsh [Ha Ht]]]]]]]].
  exists tk. split; [exact Hn |]. intros Hmatch.
  assert (Hnd : ~ In ADesync a1).
  { intros Hin. destruct (step_desync_only_on_mismatch _ _ _ _ _ _ _ _ St Hin) as [x [Hl [_ Hck]]].
    destruct (Hmatch x Hl) as [Hm Harg]. rewrite Hm, Harg, meth_eqb_refl, Nat.eqb_refl in Hck. discriminate. }
  destruct (step_flow _ _ _ _ _ _ _ _ St Hnd) as [F G].
  destruct (apply_acts_spec _ _ _ _ _ A) as [O [R [P _]]].
  rewrite Ha, map_snd_tag in O, R.
  unfold ep_deque, ep_wbio, ep_meths. cbn [e_sys e_ideal e_written e_got]. rewrite Hsh.
  repeat split.
  - apply (step_deque _ _ _ _ _ _ _ _ St).
  - rewrite O, <- app_assoc, F. reflexivity.
  - rewrite R, G. reflexivity.
  - exact P.
  - rewrite Ht. apply (map_set_nth_same t_meth _ _ tk); [exact Hn | reflexivity].
  - intros x Hx. subst lb. destruct (t_pc tk); try reflexivity; discriminate.
Qed.

Lemma deque_after_not_ssl : forall m b s p lb, (forall x, lb <> LSsl x) -> deque_after m b s p lb = deque s.
Proof. intros m b s p lb H. destruct p; destruct lb; try reflexivity; exfalso; eapply H; reflexivity. Qed.

(* SENDER role of a transition: new whole records enter the outgoing stream; data records only for plaintext that
   leaves the backlog *)
Lemma sender_step : forall e nin nout l e' nin' nout',
  ep_step e nin nout l = Some (e', nin', nout') ->
  exists newrecs spawned,
    e_written e' = e_written e ++ spawned /\
    data_of newrecs ++ concat (ep_deque e') = concat (ep_deque e) ++ spawned /\
    nout' ++ ep_wbio e' = nout ++ ep_wbio e ++ encs newrecs.
Proof.
  intros e nin nout l e' nin' nout' H.
  destruct l as [m n data | t | t | t | t k]; cbn [ep_step] in H.
  - (* spawn *)
    destruct m; try discriminate; unfold pump in H; cbn [sys_step] in H; cbn [apply_acts] in H;
      inversion H; subst; unfold ep_deque, ep_wbio; cbn.
    + exists [], []. rewrite !app_nil_r. auto.
    + exists [], []. rewrite !app_nil_r. auto.
    + exists [], data. rewrite concat_app. cbn. rewrite !app_nil_r. auto.
  - (* the task calls the SSL object *)
    destruct (nth_error (y_tasks (e_sys e)) t) as [tk |] eqn:Hn; try discriminate.
    destruct (call E D M (e_ideal e) (t_meth tk) (t_buf tk) (hd [] (deque (y_sh (e_sys e))))) as [[i' o] wd] eqn:C.
    destruct (pump_step_spec _ _ _ _ _ _ _ _ _ _ _ H) as [tk' [Hn' Hspec]].
    rewrite Hn in Hn'. inversion Hn'; subst tk'. clear Hn'.
    destruct Hspec as [_ [Hw [_ [Hd [Hf [_ [_ [_ Hpc]]]]]]]].
    { intros x Hx. inversion Hx; subst. cbn. auto. }
    destruct (call_wd _ _ _ _ _ _ _ C) as [recs [Hwd Hcase]].
    exists recs, []. rewrite app_nil_r. split; [exact Hw |]. split.
    + rewrite Hd. unfold deque_after. rewrite (Hpc _ eq_refl). cbn [a_meth a_arg a_out]. rewrite meth_eqb_refl, Nat.eqb_refl. cbn [andb].
      unfold ep_deque.
      destruct Hcase as [[Hm [Ho Hdata]] | [Hno Hdata]].
      * rewrite Hm, Ho, Hdata. destruct (deque (y_sh (e_sys e))) as [| d rest]; cbn [hd].
        -- reflexivity.
        -- rewrite Nat.ltb_irrefl. cbn [concat]. rewrite app_nil_r. reflexivity.
      * rewrite Hdata, app_nil_r. cbn [app]. destruct (t_meth tk) eqn:Em; try reflexivity.
        destruct o; try reflexivity. exfalso. exact (Hno eq_refl v eq_refl).
    + cbn [delta a_wdelta] in Hf. rewrite Hf, Hwd. reflexivity.
  - destruct (pump_step_spec _ _ _ _ _ _ _ _ _ _ _ H) as [tk [Hn Hspec]].
    destruct Hspec as [_ [Hw [_ [Hd [Hf _]]]]]; [intros x Hx; discriminate |].
    exists [], []. rewrite Hd, deque_after_not_ssl by (intros x Hx; discriminate).
    cbn [delta] in Hf. rewrite Hf, Hw, !app_nil_r. auto.
  - destruct (pump_step_spec _ _ _ _ _ _ _ _ _ _ _ H) as [tk [Hn Hspec]].
    destruct Hspec as [_ [Hw [_ [Hd [Hf _]]]]]; [intros x Hx; discriminate |].
    exists [], []. rewrite Hd, deque_after_not_ssl by (intros x Hx; discriminate).
    cbn [delta] in Hf. rewrite Hf, Hw, !app_nil_r. auto.
  - destruct (Nat.leb 1 k && Nat.leb k (length nin)); try discriminate.
    destruct (pump_step_spec _ _ _ _ _ _ _ _ _ _ _ H) as [tk [Hn Hspec]].
    destruct Hspec as [_ [Hw [_ [Hd [Hf _]]]]]; [intros x Hx; discriminate |].
    exists [], []. rewrite Hd, deque_after_not_ssl by (intros x Hx; discriminate).
    cbn [delta] in Hf. rewrite Hf, Hw, !app_nil_r. auto.
Qed.

Definition no_unwrap (e : endpoint) : Prop := Forall (fun m => m <> MUnwrap) (ep_meths e).

Lemma no_unwrap_step : forall e nin nout l e' nin' nout',
  ep_step e nin nout l = Some (e', nin', nout') -> no_unwrap e -> no_unwrap e'.
Proof.
  intros e nin nout l e' nin' nout' H Hu. unfold no_unwrap in *.
  destruct l as [m n data | t | t | t | t k]; cbn [ep_step] in H.
  - destruct m; try discriminate; unfold pump in H; cbn [sys_step apply_acts] in H; inversion H; subst;
      unfold ep_meths in *; cbn [e_sys y_tasks]; rewrite map_app; apply Forall_app; (split; [exact Hu |]);
      constructor; try constructor; cbn; discriminate.
  - destruct (nth_error (y_tasks (e_sys e)) t) as [tk |] eqn:Hn; try discriminate.
    destruct (call E D M _ _ _ _) as [[i' o] wd].
    destruct (pump_step_spec _ _ _ _ _ _ _ _ _ _ _ H) as [tk' [Hn' Hspec]].
    destruct Hspec as [_ [_ [_ [_ [_ [_ [_ [Hm _]]]]]]]].
    { intros x Hx. rewrite Hn in Hn'. inversion Hn'; subst. inversion Hx; subst. cbn. auto. }
    rewrite Hm. exact Hu.
  - destruct (pump_step_spec _ _ _ _ _ _ _ _ _ _ _ H) as [tk [Hn Hspec]].
    destruct Hspec as [_ [_ [_ [_ [_ [_ [_ [Hm _]]]]]]]]; [intros x Hx; discriminate |]. rewrite Hm. exact Hu.
  - destruct (pump_step_spec _ _ _ _ _ _ _ _ _ _ _ H) as [tk [Hn Hspec]].
    destruct Hspec as [_ [_ [_ [_ [_ [_ [_ [Hm _]]]]]]]]; [intros x Hx; discriminate |]. rewrite Hm. exact Hu.
  - destruct (Nat.leb 1 k && Nat.leb k (length nin)); try discriminate.
    destruct (pump_step_spec _ _ _ _ _ _ _ _ _ _ _ H) as [tk [Hn Hspec]].
    destruct Hspec as [_ [_ [_ [_ [_ [_ [_ [Hm _]]]]]]]]; [intros x Hx; discriminate |]. rewrite Hm. exact Hu.
Qed.

(* RECEIVER role of a transition: bytes move from the network into the incoming BIO, or whole records are consumed
   from the head of the incoming stream and their plaintext is returned / kept decrypted *)
Lemma receiver_step : forall e nin nout l e' nin' nout' tail recs,
  no_unwrap e ->
  ep_step e nin nout l = Some (e', nin', nout') ->
  i_rbio (e_ideal e) ++ nin ++ tail = encs recs ->
  exists recs', i_rbio (e_ideal e') ++ nin' ++ tail = encs recs' /\
    e_got e' ++ i_plain (e_ideal e') ++ data_of recs' = e_got e ++ i_plain (e_ideal e) ++ data_of recs.
Proof.
  intros e nin nout l e' nin' nout' tail recs Hu H Hs.
  destruct l as [m n data | t | t | t | t k]; cbn [ep_step] in H.
  - destruct m; try discriminate; unfold pump in H; cbn [sys_step apply_acts] in H; inversion H; subst;
      exists recs; cbn [e_ideal e_got]; auto.
  - destruct (nth_error (y_tasks (e_sys e)) t) as [tk |] eqn:Hn; try discriminate.
    destruct (call E D M (e_ideal e) (t_meth tk) (t_buf tk) (hd [] (deque (y_sh (e_sys e))))) as [[i' o] wd] eqn:C.
    assert (Hm : t_meth tk <> MUnwrap).
    { unfold no_unwrap, ep_meths in Hu. rewrite Forall_forall in Hu. apply Hu.
      apply in_map. eapply nth_error_In; eauto. }
    destruct (call_recv _ _ _ _ _ _ _ (nin ++ tail) recs Hm C Hs) as [recs' [Hr Hp]].
    destruct (pump_step_spec _ _ _ _ _ _ _ _ _ _ _ H) as [tk' [Hn' Hspec]].
    rewrite Hn in Hn'. inversion Hn'; subst tk'. clear Hn'.
    destruct Hspec as [Hnin [_ [Hg [_ [_ [Hrb [Hpl _]]]]]]].
    { intros x Hx. inversion Hx; subst. cbn. auto. }
    exists recs'. subst nin'. cbn [rcvd] in Hrb. rewrite Hrb, app_nil_r, Hpl, Hg. split; [exact Hr |].
    rewrite <- app_assoc. rewrite Hp. reflexivity.
  - destruct (pump_step_spec _ _ _ _ _ _ _ _ _ _ _ H) as [tk [Hn Hspec]].
    destruct Hspec as [Hnin [_ [Hg [_ [_ [Hrb [Hpl _]]]]]]]; [intros x Hx; discriminate |].
    exists recs. subst nin'. cbn [rcvd] in Hrb. rewrite Hrb, app_nil_r, Hpl, Hg. auto.
  - destruct (pump_step_spec _ _ _ _ _ _ _ _ _ _ _ H) as [tk [Hn Hspec]].
    destruct Hspec as [Hnin [_ [Hg [_ [_ [Hrb [Hpl _]]]]]]]; [intros x Hx; discriminate |].
    exists recs. subst nin'. cbn [rcvd] in Hrb. rewrite Hrb, app_nil_r, Hpl, Hg. auto.
  - destruct (Nat.leb 1 k && Nat.leb k (length nin)); try discriminate.
    destruct (pump_step_spec _ _ _ _ _ _ _ _ _ _ _ H) as [tk [Hn Hspec]].
    destruct Hspec as [Hnin [_ [Hg [_ [_ [Hrb [Hpl _]]]]]]]; [intros x Hx; discriminate |].
    exists recs. subst nin'. cbn [rcvd] in Hrb. rewrite Hrb, Hpl, Hg. split; [| reflexivity].
    rewrite <- Hs. rewrite <- !app_assoc. f_equal. rewrite app_assoc, firstn_skipn. reflexivity.
Qed.

(* ------------------------------------------------------------------ the invariant of one direction *)

(* S sends, R receives, net = bytes in flight from S to R:  the incoming BIO of R, the bytes in flight and the outgoing
   BIO of S, in this order, are a sequence of WHOLE records; what R has returned, what R keeps decrypted, the payloads of
   the data records of that stream and the backlog of S, in this order, are exactly what was written at S. *)
Definition TInv (S R : endpoint) (net : bytes) : Prop :=
  exists recs,
    i_rbio (e_ideal R) ++ net ++ ep_wbio S = encs recs /\
    e_got R ++ i_plain (e_ideal R) ++ data_of recs ++ concat (ep_deque S) = e_written S.

Lemma TInv_sender : forall S R net nin l S' nin' net',
  ep_step S nin net l = Some (S', nin', net') -> TInv S R net -> TInv S' R net'.
Proof.
  intros S R net nin l S' nin' net' H [recs [Hs Hp]].
  destruct (sender_step _ _ _ _ _ _ _ H) as [newrecs [spawned [Hw [Hd Hf]]]].
  exists (recs ++ newrecs). split.
  - rewrite Hf, encs_app, <- Hs. rewrite <- !app_assoc. reflexivity.
  - rewrite data_of_app, Hw, <- Hp. rewrite <- !app_assoc. rewrite Hd. reflexivity.
Qed.

Lemma TInv_receiver : forall S R net nout l R' net' nout',
  no_unwrap R ->
  ep_step R net nout l = Some (R', net', nout') -> TInv S R net -> TInv S R' net'.
Proof.
  intros S R net nout l R' net' nout' Hu H [recs [Hs Hp]].
  destruct (receiver_step _ _ _ _ _ _ _ (ep_wbio S) recs Hu H Hs) as [recs' [Hs' Hp']].
  exists recs'. split; [exact Hs' |].
  rewrite <- Hp. rewrite !app_assoc. f_equal. rewrite <- !app_assoc. exact Hp'.
Qed.

(* ------------------------------------------------------------------ the composed system *)

Definition DInv (c : duplex) : Prop :=
  TInv (dA c) (dB c) (nAB c) /\ TInv (dB c) (dA c) (nBA c) /\ no_unwrap (dA c) /\ no_unwrap (dB c).

Lemma DInv_init : DInv duplex0.
Proof.
  unfold DInv, duplex0, TInv, no_unwrap. cbn. repeat split; try (exists []; auto); constructor.
Qed.

Lemma DInv_step : forall c l c', dstep c l = Some c' -> DInv c -> DInv c'.
Proof.
  intros c [side cl] c' H [IAB [IBA [UA UB]]]. unfold dstep in H. destruct side.
  - destruct (ep_step (dA c) (nBA c) (nAB c) cl) as [[[a' nin'] nout'] |] eqn:S; inversion H; subst. cbn.
    repeat split.
    + exact (TInv_sender _ _ _ _ _ _ _ _ S IAB).
    + exact (TInv_receiver _ _ _ _ _ _ _ _ UA S IBA).
    + exact (no_unwrap_step _ _ _ _ _ _ _ S UA).
    + exact UB.
  - destruct (ep_step (dB c) (nAB c) (nBA c) cl) as [[[b' nin'] nout'] |] eqn:S; inversion H; subst. cbn.
    repeat split.
    + exact (TInv_receiver _ _ _ _ _ _ _ _ UB S IAB).
    + exact (TInv_sender _ _ _ _ _ _ _ _ S IBA).
    + exact UA.
    + exact (no_unwrap_step _ _ _ _ _ _ _ S UB).
Qed.

Lemma DInv_exec : forall ls c c', dexec c ls = Some c' -> DInv c -> DInv c'.
Proof.
  induction ls as [| l ls IH]; intros c c' H I; cbn in H.
  - inversion H; subst; exact I.
  - destruct (dstep c l) as [c1 |] eqn:S; try discriminate. eapply IH; eauto. eapply DInv_step; eauto.
Qed.

Definition is_prefix (p s : bytes) : Prop := exists rest, p ++ rest = s.

Lemma duplex_transparent : forall ls c,
  dexec duplex0 ls = Some c ->
  is_prefix (e_got (dB c)) (e_written (dA c)) /\ is_prefix (e_got (dA c)) (e_written (dB c)).
Proof.
  intros ls c H. destruct (DInv_exec _ _ _ H DInv_init) as [[r1 [_ P1]] [[r2 [_ P2]] _]].
  split; eexists; eassumption.
Qed.

End DuplexFacts.
