(* A cancelled TLS receive loses no plaintext: every ciphertext byte the protocol returned has been written into the read
   BIO, every plaintext byte taken out of the SSL object has been returned to a caller, for every label sequence. *)
From Coq Require Import List Bool Arith Lia.
From EN Require Import Lib.Bytes Stream.EndpointSpec Conc.SockReader Conc.SockReaderSpec Conc.SockTls
                       Proofs.C10_inv Proofs.C10_obs Proofs.C10_endpoint.
Import ListNotations.

Section TlsProofs.
  Context {S : Type}.
  Variable ssl_read : S -> nat -> S * sslans.
  Variable bio_write : S -> bytes -> S.
  Variable bio_eof : S -> S.
  Variable rbuf : nat.

  Notation tretry' := (tretry ssl_read bio_eof rbuf).
  Notation tstep' := (tstep ssl_read bio_write bio_eof rbuf).
  Notation trun' := (trun ssl_read bio_write bio_eof rbuf).

  Record TInv (ts : @tstate S) : Prop := {
    ti_inv : Inv true (tk ts);
    ti_fed : tfed ts = returned (tk ts);
    ti_taken : plain_out ts = ttaken ts;
    ti_idle : tin ts = None -> tpc (tk ts) = PIdle;
    ti_busy : forall n, tin ts = Some n -> tpc (tk ts) <> PIdle
  }.

  Lemma plain_out_snoc : forall s ssl i f t (res : list tresult) x,
    plain_out (@tmk S s ssl i f t (res ++ [x])) =
    plain_out (@tmk S s ssl i f t res) ++ match x with TPlain p => p | _ => [] end.
  Proof. intros. unfold plain_out. simpl. rewrite flat_map_app. simpl. rewrite app_nil_r. reflexivity. Qed.

  Lemma tretry_inv : forall s ssl n fed taken res,
    Inv true s -> tpc s = PIdle -> fed = returned s ->
    plain_out (@tmk S s ssl None fed taken res) = taken ->
    TInv (tretry' s ssl n fed taken res).
  Proof.
    intros s ssl n fed taken res HI Hp Hf Ht. unfold tretry.
    destruct (ssl_read ssl n) as [ssl' [p| | |]].
    - constructor; simpl; auto; try discriminate.
      rewrite plain_out_snoc. unfold plain_out in *. simpl in *. rewrite Ht. reflexivity.
    - destruct (call s (OInto rbuf)) as [s' ob] eqn:Hc.
      pose proof (call_cases _ _ _ _ Hc Hp) as Hcc.
      assert (HI' : Inv true s').
      { replace s' with (fst (call s (OInto rbuf))) by (rewrite Hc; reflexivity). apply call_inv. exact HI. }
      destruct ob as [| |r|].
      + destruct Hcc as (Htp & Hr). constructor; simpl; auto; try discriminate.
        * rewrite Hr. exact Hf.
        * intros n0 _. destruct Htp as [E|E]; rewrite E; discriminate.
      + subst s'. constructor; simpl; auto; try discriminate.
        rewrite plain_out_snoc. simpl. rewrite app_nil_r. exact Ht.
      + subst s'. destruct r as [b| |e|]; constructor; simpl; auto; try discriminate;
          rewrite plain_out_snoc; simpl; rewrite app_nil_r; exact Ht.
      + subst s'. constructor; simpl; auto; try discriminate.
        rewrite plain_out_snoc. simpl. rewrite app_nil_r. exact Ht.
    - constructor; simpl; auto; try discriminate. rewrite plain_out_snoc. simpl. rewrite app_nil_r. exact Ht.
    - constructor; simpl; auto; try discriminate. rewrite plain_out_snoc. simpl. rewrite app_nil_r. exact Ht.
  Qed.

  Lemma tstep_inv : forall ts l, TInv ts -> TInv (tstep' ts l).
  Proof.
    intros ts l H. destruct l as [n|l].
    - simpl. unfold trecv. destruct (tin ts) eqn:Hin; [exact H|].
      apply tretry_inv.
      + exact (ti_inv _ H).
      + exact (ti_idle _ H Hin).
      + exact (ti_fed _ H).
      + exact (ti_taken _ H).
    - assert (Henv : forall l0, match l0 with LRecv _ | LRecvInto _ | LWake => True | _ =>
                 TInv (tmk (fst (step true (tk ts) l0)) (tssl ts) (tin ts) (tfed ts) (ttaken ts) (tres ts)) end).
      { intro l0. pose proof (env_step_tpc (tk ts) l0) as Ht.
        pose proof (step_inv true (tk ts) l0 (ti_inv _ H)) as HI'.
        destruct l0; try exact I; destruct Ht as (Htp & Hr);
          (constructor; cbn [tk tssl tin tfed ttaken tres];
           [ apply HI'; discriminate | rewrite Hr; exact (ti_fed _ H) | exact (ti_taken _ H)
           | intro Hin; rewrite Htp; exact (ti_idle _ H Hin)
           | intros n Hin; rewrite Htp; exact (ti_busy _ H n Hin) ]). }
      destruct l as [k|k|b| |exc| | |];
        [ exact H | exact H | exact (Henv (LData b)) | exact (Henv LEof) | exact (Henv (LLost exc))
        | exact (Henv LCancel) | | exact (Henv LTurn) ].
      (* wake *)
      simpl. unfold twake.
      destruct (wake true (tk ts)) as [s' ob] eqn:Hw.
      assert (HI' : Inv true s').
      { replace s' with (fst (wake true (tk ts))) by (rewrite Hw; reflexivity). apply wake_inv. exact (ti_inv _ H). }
      assert (Hret : returned s' = returned (tk ts) ++ obs_bytes ob).
      { pose proof (step_returned true (tk ts) LWake) as Hr. simpl in Hr. rewrite Hw in Hr. exact Hr. }
      assert (Hnores : (forall r, ob <> ORes r) ->
                TInv (tmk s' (tssl ts) (tin ts) (tfed ts) (ttaken ts) (tres ts))).
      { intro Hn. destruct (wake_nores _ _ _ Hw Hn) as (Htp & Hr).
        constructor; simpl; auto.
        - rewrite Hr. exact (ti_fed _ H).
        - exact (ti_taken _ H).
        - intro Hin. rewrite Htp. exact (ti_idle _ H Hin).
        - intros n Hin. rewrite Htp. exact (ti_busy _ H n Hin). }
      destruct ob as [| |r|]; try (apply Hnores; congruence).
      destruct (wake_res _ _ _ Hw) as (Hnidle & Hidle').
      destruct (tin ts) as [n|] eqn:Hin.
      2:{ exfalso. apply Hnidle. exact (ti_idle _ H Hin). }
      assert (Hexit : forall x ssl', obs_bytes (ORes r) = [] -> (forall p, x <> TPlain p) ->
                TInv (tmk s' ssl' None (tfed ts) (ttaken ts) (tres ts ++ [x]))).
      { intros x ssl' Hb Hx. rewrite Hb, app_nil_r in Hret.
        constructor; simpl; auto; try discriminate.
        - rewrite Hret. exact (ti_fed _ H).
        - rewrite plain_out_snoc. destruct x; try (rewrite app_nil_r; exact (ti_taken _ H)).
          exfalso. eapply Hx. reflexivity. }
      destruct r as [b| |e|]; try (apply Hexit; [reflexivity | congruence]).
      destruct b as [|x0 b0].
      + apply tretry_inv; auto.
        * rewrite Hret. simpl. rewrite app_nil_r. exact (ti_fed _ H).
        * exact (ti_taken _ H).
      + apply tretry_inv; auto.
        * rewrite Hret. simpl. rewrite (ti_fed _ H). reflexivity.
        * exact (ti_taken _ H).
  Qed.

  Lemma trun_inv : forall ls ts, TInv ts -> TInv (trun' ts ls).
  Proof. induction ls as [|l ls IH]; intros ts H; [exact H|]. simpl. apply IH. apply tstep_inv. exact H. Qed.

  Lemma tinv_init : forall ssl, TInv (tinit ssl).
  Proof.
    intro ssl. constructor; simpl; auto; try discriminate. apply inv_init.
  Qed.

  Lemma tls_recv_no_loss_proof : forall ssl ls,
    let ts := trun' (tinit ssl) ls in
    tfed ts = returned (tk ts) /\
    plain_out ts = ttaken ts /\
    (exists tail, returned (tk ts) ++ parked (tk ts) ++ tail = delivered (tk ts) /\
                  (tail <> [] -> lost_exc (tk ts) <> None)).
  Proof.
    intros ssl ls ts. pose proof (trun_inv ls (tinit ssl) (tinv_init ssl)) as H. fold ts in H.
    split; [exact (ti_fed _ H)|]. split; [exact (ti_taken _ H)|]. exact (inv_no_loss _ _ (ti_inv _ H)).
  Qed.
End TlsProofs.

(* ---- with a record decoder: what the callers got is a prefix of the decryption of everything delivered *)
Section TlsDecoder.
  Context {S : Type}.
  Variable ssl_read : S -> nat -> S * sslans.
  Variable bio_write : S -> bytes -> S.
  Variable bio_eof : S -> S.
  Variable rbuf : nat.
  Variable plain_of : bytes -> bytes.           (* the plaintext decodable from a ciphertext prefix *)
  Variable I : S -> bytes -> bytes -> Prop.     (* I ssl fed taken *)
  Hypothesis plain_mono : forall f x, exists y, plain_of (f ++ x) = plain_of f ++ y.
  Hypothesis I_write : forall s f t d, I s f t -> I (bio_write s d) (f ++ d) t.
  Hypothesis I_eof : forall s f t, I s f t -> I (bio_eof s) f t.
  Hypothesis I_read : forall s f t n s' a, I s f t -> ssl_read s n = (s', a) ->
      match a with SOk p => I s' f (t ++ p) | _ => I s' f t end.
  Hypothesis I_sound : forall s f t, I s f t -> exists rest, plain_of f = t ++ rest.

  Notation trun' := (trun ssl_read bio_write bio_eof rbuf).
  Notation tstep' := (tstep ssl_read bio_write bio_eof rbuf).

  Lemma tretry_I : forall s ssl n fed taken res, I ssl fed taken ->
    let ts := tretry ssl_read bio_eof rbuf s ssl n fed taken res in I (tssl ts) (tfed ts) (ttaken ts).
  Proof.
    intros s ssl n fed taken res HI. unfold tretry.
    destruct (ssl_read ssl n) as [ssl' a] eqn:Hr. pose proof (I_read _ _ _ _ _ _ HI Hr) as Ha.
    destruct a as [p| | |]; simpl; auto.
    destruct (call s (OInto rbuf)) as [s' ob]. destruct ob as [| |r|]; simpl; auto.
    destruct r; simpl; auto.
  Qed.

  Lemma tstep_I : forall ts l, I (tssl ts) (tfed ts) (ttaken ts) ->
    I (tssl (tstep' ts l)) (tfed (tstep' ts l)) (ttaken (tstep' ts l)).
  Proof.
    intros ts l H. destruct l as [n|l].
    - simpl. unfold trecv. destruct (tin ts); [exact H | apply tretry_I; exact H].
    - destruct l; simpl; try exact H.
      unfold twake. destruct (wake true (tk ts)) as [s' ob]. destruct ob as [| |r|]; simpl; try exact H.
      destruct (tin ts); simpl; [|exact H].
      destruct r as [b| |e|]; simpl; auto.
      destruct b; apply tretry_I; auto.
  Qed.

  Lemma trun_I : forall ls ts, I (tssl ts) (tfed ts) (ttaken ts) ->
    I (tssl (trun' ts ls)) (tfed (trun' ts ls)) (ttaken (trun' ts ls)).
  Proof. induction ls as [|l ls IH]; intros ts H; [exact H|]. simpl. apply IH. apply tstep_I. exact H. Qed.

  Lemma tls_plaintext_prefix_proof : forall ssl ls, I ssl [] [] ->
    let ts := trun' (tinit ssl) ls in
    exists rest, plain_of (delivered (tk ts)) = plain_out ts ++ rest.
  Proof.
    intros ssl ls H0 ts.
    destruct (tls_recv_no_loss_proof ssl_read bio_write bio_eof rbuf ssl ls) as (Hf & Ht & tail & Hn & _).
    fold ts in Hf, Ht, Hn.
    pose proof (trun_I ls (tinit ssl) H0) as HI. fold ts in HI.
    destruct (I_sound _ _ _ HI) as (rest & Hrest).
    rewrite <- Hn, <- Hf. destruct (plain_mono (tfed ts) (parked (tk ts) ++ tail)) as (y & Hy).
    rewrite Hy, Hrest, Ht. exists (rest ++ y). rewrite app_assoc. reflexivity.
  Qed.
End TlsDecoder.

(* non-vacuity of the decoder interface: the identity record layer (ciphertext = plaintext) *)
Definition id_read (s : bytes * bool) (n : nat) : (bytes * bool) * sslans :=
  match fst s with
  | [] => (s, if snd s then SEnd else SWantRead)
  | _ => ((skipn n (fst s), snd s), SOk (firstn n (fst s)))
  end.
Definition id_write (s : bytes * bool) (d : bytes) : bytes * bool := (fst s ++ d, snd s).
Definition id_eof (s : bytes * bool) : bytes * bool := (fst s, true).

Lemma identity_layer_prefix : forall rbuf ls,
  let ts := trun id_read id_write id_eof rbuf (tinit ([], false)) ls in
  exists rest, delivered (tk ts) = plain_out ts ++ rest.
Proof.
  intros rbuf ls.
  apply (tls_plaintext_prefix_proof id_read id_write id_eof rbuf (fun x => x)
           (fun s f t => f = t ++ fst s)).
  - intros f x. exists x. reflexivity.
  - intros s f t d H. simpl. rewrite H, app_assoc. reflexivity.
  - intros s f t H. exact H.
  - intros s f t n s' a H Hr. unfold id_read in Hr. destruct (fst s) as [|b0 bs] eqn:E.
    + assert (Hs : s' = s /\ a = (if snd s then SEnd else SWantRead)) by (inversion Hr; auto).
      destruct Hs as (-> & ->). destruct (snd s); rewrite E; exact H.
    + assert (Hs : s' = (skipn n (b0 :: bs), snd s) /\ a = SOk (firstn n (b0 :: bs))) by (inversion Hr; auto).
      destruct Hs as (-> & ->). simpl fst. rewrite H. rewrite <- app_assoc. f_equal. symmetry. apply firstn_skipn.
  - intros s f t H. exists (fst s). exact H.
  - reflexivity.
Qed.
