(* C19: progress and termination of the race.
   LCancelCaller is the only label that may be repeated without effect; every other label strictly decreases the
   measure [mu]; and as long as the race has no result some other label is enabled (a task step, or the outcome of
   a pending connect -- "every started attempt eventually completes, fails or is cancelled" is exactly the
   assumption that such enabled labels are eventually taken). *)
From Coq Require Import ZArith List Bool Arith Lia.
Import ListNotations.
From EN Require Import Gen.ParamsC19 Conc.ConnRace Proofs.C19_proofs.

Definition att_w (t : tstate) : nat := match t with TNone => 3 | TNew _ => 2 | TConn _ => 1 | TFin => 0 end.
Definition atts_w (l : list tstate) : nat := fold_right (fun t n => att_w t + n) 0 l.
Definition host_w (c : rcfg) (h : hstate) : nat :=
  match h with
  | HInit => length (c_addrs c) + 3
  | HWait k => (length (c_addrs c) - k) + 2
  | HJoin => 2
  | HAbort => 1
  | HDone => 0
  end.
Definition mu (c : rcfg) (s : rstate) : nat := host_w c (r_host s) + atts_w (r_att s).

Lemma atts_upd : forall l i t old, nth_error l i = Some old -> atts_w (upd l i t) + att_w old = atts_w l + att_w t.
Proof.
  induction l as [|x l IH]; intros [|i] t old H; simpl in *; try discriminate.
  - inversion H; subst. lia.
  - specialize (IH i t old H). lia.
Qed.

Lemma atts_cancel l : atts_w (map cancel_child l) = atts_w l.
Proof. induction l as [|x l IH]; simpl; auto. rewrite IH. destruct x; reflexivity. Qed.

Definition is_cancel (l : label) : bool := match l with LCancelCaller => true | _ => false end.

Section Progress.
Variable c : rcfg.
Hypothesis ids_distinct : NoDup (map a_id (c_addrs c)).
Hypothesis nonempty : c_addrs c <> [].

Lemma child_finish_mu s i o open created old :
  nth_error (r_att s) i = Some old -> 1 <= att_w old -> mu c (child_finish s i o open created) < mu c s.
Proof.
  intros H Hw. unfold mu.
  assert (E : r_host (child_finish s i o open created) = r_host s /\
              r_att (child_finish s i o open created) = upd (r_att s) i TFin).
  { unfold child_finish. destruct o; [destruct (r_winner s)| | |]; simpl; auto. }
  destruct E as [-> ->]. pose proof (atts_upd (r_att s) i TFin old H). simpl in *. lia.
Qed.

Lemma spawn_mu s k : Inv c s ->
  (r_host s = HInit /\ k = 0) \/ (exists k0, r_host s = HWait k0 /\ k = S k0) -> mu c (spawn_next c s k) < mu c s.
Proof.
  intros I Hh. unfold spawn_next, mu. destruct (k <? length (c_addrs c)) eqn:Ek.
  - apply Nat.ltb_lt in Ek. simpl.
    assert (Hk : nth_error (r_att s) k = Some TNone).
    { destruct (nth_error (r_att s) k) as [t|] eqn:E.
      - f_equal. pose proof (i_none c s I) as Hn.
        destruct Hh as [[K ->] | [k0 [K ->]]]; rewrite K in Hn.
        + eapply Hn; eauto.
        + destruct Hn as [_ [Hn _]]. eapply Hn; eauto.
      - apply nth_error_None in E. rewrite (i_len c s I) in E. lia. }
    pose proof (atts_upd (r_att s) k (TNew false) TNone Hk). simpl in *.
    destruct Hh as [[K ->] | [k0 [K ->]]]; rewrite K; simpl; lia.
  - apply Nat.ltb_ge in Ek. simpl.
    destruct Hh as [[K ->] | [k0 [K ->]]]; rewrite K; simpl.
    + lia.
    + pose proof (i_none c s I) as Hn. rewrite K in Hn. destruct Hn as [Hn _]. lia.
Qed.

(* every label but LCancelCaller strictly decreases the measure *)
Lemma step_mu s l s' : Inv c s -> step c s l = Some s' -> is_cancel l = false -> mu c s' < mu c s.
Proof.
  intros I H Hl. destruct l as [ | timer | | swallow | i | i | i | i | i | i | ]; try discriminate; unfold step in H.
  - destruct (r_host s) eqn:Eh; try discriminate. destruct (r_caller s); [discriminate|].
    injection H as <-. apply spawn_mu; auto.
  - destruct (r_host s) eqn:Eh; try discriminate.
    match type of H with (if ?b then _ else _) = _ => destruct b end; [|discriminate].
    injection H as <-. apply spawn_mu; auto. right; eauto.
  - destruct (pending_cancel s); [|discriminate]. destruct (r_host s) eqn:Eh; try discriminate; injection H as <-;
      unfold mu; simpl; rewrite ?Eh, ?atts_cancel; simpl; try lia.
  - destruct (all_children_done s); [|discriminate].
    destruct (r_host s) eqn:Eh; try discriminate.
    + destruct (r_crashed s); [|destruct (r_winner s)]; injection H as <-; unfold mu; simpl; rewrite Eh; simpl; lia.
    + destruct (r_crashed s).
      * injection H as <-; unfold mu; simpl; rewrite Eh; simpl; lia.
      * destruct swallow.
        -- destruct (r_scope s); [|discriminate]. destruct (r_winner s); injection H as <-; unfold mu; simpl; rewrite Eh; simpl; lia.
        -- destruct (r_caller s); [|discriminate]. injection H as <-; unfold mu; simpl; rewrite Eh; simpl; lia.
  - destruct (nth_error (r_att s) i) as [[|[]| |]|] eqn:Et; try discriminate.
    destruct (nth_error (c_addrs c) i) as [a|] eqn:Ha; [|discriminate].
    destruct (cc_advance (c_locals c) [a] 0 (r_open s)) as [[cur rest errs | o] op].
    + injection H as <-. unfold mu; simpl. pose proof (atts_upd (r_att s) i (TConn false) _ Et). simpl in *. lia.
    + injection H as <-. eapply child_finish_mu; eauto; simpl; lia.
  - destruct (nth_error (r_att s) i) as [[|[]| |]|] eqn:Et; try discriminate. injection H as <-.
    unfold mu; simpl. pose proof (atts_upd (r_att s) i TFin _ Et). simpl in *. lia.
  - destruct (nth_error (r_att s) i) as [[| |[]|]|] eqn:Et; try discriminate.
    unfold child_resume in H. destruct (nth_error (c_addrs c) i); [|discriminate].
    destruct (cc_resume (c_locals c) a [] 0 ROk (r_open s)) as [[cur rest errs | o] op]; [discriminate|].
    injection H as <-. eapply child_finish_mu; eauto; simpl; lia.
  - destruct (nth_error (r_att s) i) as [[| |[]|]|] eqn:Et; try discriminate.
    unfold child_resume in H. destruct (nth_error (c_addrs c) i); [|discriminate].
    destruct (cc_resume (c_locals c) a [] 0 RFail (r_open s)) as [[cur rest errs | o] op]; [discriminate|].
    injection H as <-. eapply child_finish_mu; eauto; simpl; lia.
  - destruct (nth_error (r_att s) i) as [[| |[]|]|] eqn:Et; try discriminate.
    unfold child_resume in H. destruct (nth_error (c_addrs c) i); [|discriminate].
    destruct (cc_resume (c_locals c) a [] 0 RCrash (r_open s)) as [[cur rest errs | o] op]; [discriminate|].
    injection H as <-. eapply child_finish_mu; eauto; simpl; lia.
  - destruct (nth_error (r_att s) i) as [[| |[]|]|] eqn:Et; try discriminate.
    unfold child_resume in H. destruct (nth_error (c_addrs c) i); [|discriminate].
    destruct (cc_resume (c_locals c) a [] 0 RCancel (r_open s)) as [[cur rest errs | o] op]; [discriminate|].
    injection H as <-. eapply child_finish_mu; eauto; simpl; lia.
Qed.

(* LCancelCaller leaves the measure alone *)
Lemma cancel_mu s s' : step c s LCancelCaller = Some s' -> mu c s' = mu c s.
Proof. simpl. destruct (r_host s) eqn:E; intro H; inversion H; unfold mu; simpl; rewrite E; reflexivity. Qed.

(* second invariant: the host is only ever in HAbort with a cancellation pending *)
Definition Inv2 (s : rstate) : Prop := r_host s = HAbort -> pending_cancel s = true.

Lemma child_finish_flags s i o op cr :
  r_host (child_finish s i o op cr) = r_host s /\
  (pending_cancel s = true -> pending_cancel (child_finish s i o op cr) = true).
Proof.
  unfold child_finish, pending_cancel. destruct o; [destruct (r_winner s)| | |]; simpl; split; auto;
    intro H; rewrite ?orb_true_r; auto.
Qed.

Lemma step_inv2 s l s' : Inv2 s -> step c s l = Some s' -> Inv2 s'.
Proof.
  intros I2 H. unfold Inv2 in *.
  destruct l as [ | timer | | swallow | i | i | i | i | i | i | ]; unfold step in H.
  - destruct (r_host s) eqn:Eh; try discriminate. destruct (r_caller s); [discriminate|]. injection H as <-.
    unfold spawn_next. destruct (_ <? _); simpl; discriminate.
  - destruct (r_host s) eqn:Eh; try discriminate.
    match type of H with (if ?b then _ else _) = _ => destruct b end; [|discriminate]. injection H as <-.
    unfold spawn_next. destruct (_ <? _); simpl; discriminate.
  - destruct (pending_cancel s) eqn:Ep; [|discriminate]. destruct (r_host s) eqn:Eh; try discriminate; injection H as <-;
      simpl; try discriminate; intros _; exact Ep.
  - destruct (all_children_done s); [|discriminate].
    destruct (r_host s) eqn:Eh; try discriminate;
      repeat match type of H with
             | (if ?b then _ else _) = _ => destruct b
             | match ?b with _ => _ end = _ => destruct b
             end; try discriminate; injection H as <-; simpl; discriminate.
  - destruct (nth_error (r_att s) i) as [[|[]| |]|] eqn:Et; try discriminate.
    destruct (nth_error (c_addrs c) i) as [a|] eqn:Ha; [|discriminate].
    destruct (cc_advance (c_locals c) [a] 0 (r_open s)) as [[cur rest errs | o] op]; injection H as <-.
    + simpl. exact I2.
    + destruct (child_finish_flags s i o op (if a_create a then r_created s ++ [a_id a] else r_created s)) as [-> Hp]. auto.
  - destruct (nth_error (r_att s) i) as [[|[]| |]|] eqn:Et; try discriminate. injection H as <-. simpl. exact I2.
  - destruct (nth_error (r_att s) i) as [[| |[]|]|] eqn:Et; try discriminate.
    unfold child_resume in H. destruct (nth_error (c_addrs c) i); [|discriminate].
    destruct (cc_resume _ _ _ _ _ _) as [[cur rest errs | o] op]; [discriminate|]. injection H as <-.
    destruct (child_finish_flags s i o op (r_created s)) as [-> Hp]. auto.
  - destruct (nth_error (r_att s) i) as [[| |[]|]|] eqn:Et; try discriminate.
    unfold child_resume in H. destruct (nth_error (c_addrs c) i); [|discriminate].
    destruct (cc_resume _ _ _ _ _ _) as [[cur rest errs | o] op]; [discriminate|]. injection H as <-.
    destruct (child_finish_flags s i o op (r_created s)) as [-> Hp]. auto.
  - destruct (nth_error (r_att s) i) as [[| |[]|]|] eqn:Et; try discriminate.
    unfold child_resume in H. destruct (nth_error (c_addrs c) i); [|discriminate].
    destruct (cc_resume _ _ _ _ _ _) as [[cur rest errs | o] op]; [discriminate|]. injection H as <-.
    destruct (child_finish_flags s i o op (r_created s)) as [-> Hp]. auto.
  - destruct (nth_error (r_att s) i) as [[| |[]|]|] eqn:Et; try discriminate.
    unfold child_resume in H. destruct (nth_error (c_addrs c) i); [|discriminate].
    destruct (cc_resume _ _ _ _ _ _) as [[cur rest errs | o] op]; [discriminate|]. injection H as <-.
    destruct (child_finish_flags s i o op (r_created s)) as [-> Hp]. auto.
  - destruct (r_host s) eqn:Eh; try discriminate; injection H as <-; simpl; try discriminate.
    intros _. unfold pending_cancel. simpl. rewrite orb_true_r. reflexivity.
Qed.

(* an attempt that is not finished can always take a step (its own, or the outcome of its pending connect) *)
Lemma active_enabled s i t : Inv c s -> nth_error (r_att s) i = Some t -> child_done t = false ->
  exists l, is_cancel l = false /\ step c s l <> None.
Proof.
  intros I Ht Hd.
  assert (Hi : i < length (c_addrs c)) by (rewrite <- (i_len c s I); apply nth_error_Some; rewrite Ht; discriminate).
  destruct (nth_error (c_addrs c) i) as [a|] eqn:Ha; [| apply nth_error_None in Ha; lia].
  destruct t as [|[]|[]|]; try discriminate.
  - exists (LChildSkip i). split; [reflexivity|]. simpl. rewrite Ht. discriminate.
  - exists (LChildStart i). split; [reflexivity|]. unfold step. rewrite Ht, Ha.
    destruct (cc_advance (c_locals c) [a] 0 (r_open s)) as [[? ? ?|?] ?]; discriminate.
  - exists (LConnCancel i). split; [reflexivity|]. simpl. rewrite Ht. unfold child_resume. rewrite Ha. simpl. discriminate.
  - exists (LConnOk i). split; [reflexivity|]. simpl. rewrite Ht. unfold child_resume. rewrite Ha. simpl. discriminate.
Qed.

Lemma find_active (l : list tstate) : forallb child_done l = false -> exists i t, nth_error l i = Some t /\ child_done t = false.
Proof.
  induction l as [|x l IH]; simpl; [discriminate|].
  destruct (child_done x) eqn:E; simpl.
  - intro H. destruct (IH H) as (i & t & A & B). exists (S i), t. auto.
  - intros _. exists 0, x. auto.
Qed.

(* no deadlock: while the race has no result, some label other than LCancelCaller is enabled *)
Lemma progress s : Inv c s -> Inv2 s -> r_result s = None -> exists l, is_cancel l = false /\ step c s l <> None.
Proof.
  intros I I2 Hr.
  destruct (all_children_done s) eqn:Hall.
  2:{ destruct (find_active _ Hall) as (i & t & A & B). eapply active_enabled; eauto. }
  destruct (r_host s) eqn:Eh.
  - destruct (r_caller s) eqn:Ec.
    + exists LHostCancel. split; [reflexivity|]. simpl. unfold pending_cancel. rewrite Ec, Eh, orb_true_r. simpl. discriminate.
    + exists LHostStart. split; [reflexivity|]. simpl. rewrite Eh, Ec. discriminate.
  - exists (LHostNext false). split; [reflexivity|]. simpl. rewrite Eh.
    pose proof (i_none c s I) as Hn. rewrite Eh in Hn. destruct Hn as [Hk [_ Hn]].
    destruct (nth_error (r_att s) k) as [t|] eqn:Et.
    + assert (t = TFin).
      { unfold all_children_done in Hall. rewrite forallb_forall in Hall.
        pose proof (Hall t (nth_error_In _ _ Et)) as Hd. pose proof (Hn k t (le_n k) Et) as Hne.
        destruct t; simpl in Hd; try discriminate; auto. exfalso; apply Hne; reflexivity. }
      subst t. discriminate.
    + apply nth_error_None in Et. rewrite (i_len c s I) in Et. lia.
  - exists (LHostFinish false). split; [reflexivity|]. simpl. rewrite Hall, Eh.
    destruct (r_crashed s); [discriminate|]. destruct (r_winner s); discriminate.
  - pose proof (I2 Eh) as Hp. unfold pending_cancel in Hp.
    destruct (r_crashed s) eqn:Ec.
    + exists (LHostFinish false). split; [reflexivity|]. simpl. rewrite Hall, Eh, Ec. discriminate.
    + destruct (r_scope s) eqn:Es.
      * exists (LHostFinish true). split; [reflexivity|]. simpl. rewrite Hall, Eh, Ec, Es. destruct (r_winner s); discriminate.
      * destruct (r_caller s) eqn:Eca; [|discriminate].
        exists (LHostFinish false). split; [reflexivity|]. simpl. rewrite Hall, Eh, Ec, Eca. discriminate.
  - exfalso. assert (r_result s <> None) by (apply (i_done c s I); exact Eh). congruence.
Qed.

(* every execution contains at most mu non-cancel labels *)
Lemma bounded_steps : forall tr s s', Inv c s -> exec c s tr = Some s' ->
  length (filter (fun l => negb (is_cancel l)) tr) + mu c s' <= mu c s.
Proof.
  induction tr as [|l tr IH]; intros s s' I H; simpl in H.
  - inversion H; subst. simpl. lia.
  - destruct (step c s l) as [s1|] eqn:E; [|discriminate].
    assert (I1 : Inv c s1) by (eapply step_inv; eauto).
    specialize (IH s1 s' I1 H). simpl. destruct (is_cancel l) eqn:El; simpl.
    + destruct l; try discriminate. rewrite <- (cancel_mu s s1 E). exact IH.
    + pose proof (step_mu s l s1 I E El). lia.
Qed.

(* and a result is reached by any schedule that keeps taking enabled non-cancel labels: at most mu of them *)
Lemma reaches_result : forall n s, Inv c s -> Inv2 s -> mu c s <= n ->
  exists tr s', exec c s tr = Some s' /\ r_result s' <> None /\ length tr <= mu c s /\
                forallb (fun l => negb (is_cancel l)) tr = true.
Proof.
  induction n as [|n IH]; intros s I I2 Hn.
  - destruct (r_result s) eqn:Er.
    + exists [], s. simpl. repeat split; auto; try lia. congruence.
    + destruct (progress s I I2 Er) as (l & Hl & Hs). destruct (step c s l) as [s1|] eqn:E; [|exfalso; auto].
      pose proof (step_mu s l s1 I E Hl). lia.
  - destruct (r_result s) eqn:Er.
    + exists [], s. simpl. repeat split; auto; try lia. congruence.
    + destruct (progress s I I2 Er) as (l & Hl & Hs). destruct (step c s l) as [s1|] eqn:E; [|exfalso; auto].
      pose proof (step_mu s l s1 I E Hl) as Hmu.
      assert (I1 : Inv c s1) by (eapply step_inv; eauto).
      assert (I21 : Inv2 s1) by (eapply step_inv2; eauto).
      destruct (IH s1 I1 I21) as (tr & s' & A & B & C & D); [lia|].
      exists (l :: tr), s'. simpl. rewrite E, Hl. simpl. repeat split; auto. lia.
Qed.

Lemma exec_inv2 : forall tr s s', Inv2 s -> exec c s tr = Some s' -> Inv2 s'.
Proof.
  induction tr as [|l tr IH]; intros s s' I H; simpl in H.
  - inversion H; subst; exact I.
  - destruct (step c s l) as [s1|] eqn:E; [|discriminate]. eapply IH; [eapply step_inv2; eauto | exact H].
Qed.

Lemma init_inv2 : Inv2 (init c).
Proof. unfold Inv2. simpl. discriminate. Qed.

End Progress.

(* ------------------------------------------------------------------ conservation of sockets and attempted addresses *)
Section Conservation.
Variable c : rcfg.
Hypothesis ids_distinct : NoDup (map a_id (c_addrs c)).
Hypothesis nonempty : c_addrs c <> [].

(* every open socket has been created by an attempt of this race *)
Definition Inv3 (s : rstate) : Prop := forall id, In id (r_open s) -> In id (r_created s).

Lemma remove_incl x l id : In id (remove_id x l) -> In id l.
Proof. intro H. apply in_remove_id in H. tauto. Qed.

Lemma child_finish_inv3 s i o op cr :
  (forall id, In id op -> In id cr) -> Inv3 (child_finish s i o op cr).
Proof.
  intros H. unfold Inv3, child_finish. destruct o; [destruct (r_winner s)| | |]; simpl; auto.
  intros x Hin. apply H. eapply remove_incl; eauto.
Qed.

Lemma step_inv3 s l s' : Inv3 s -> step c s l = Some s' -> Inv3 s'.
Proof.
  intros I3 H. unfold Inv3 in I3.
  destruct l as [ | timer | | swallow | i | i | i | i | i | i | ]; unfold step in H.
  - destruct (r_host s); try discriminate. destruct (r_caller s); [discriminate|]. injection H as <-.
    unfold spawn_next. destruct (_ <? _); unfold Inv3; simpl; exact I3.
  - destruct (r_host s); try discriminate.
    match type of H with (if ?b then _ else _) = _ => destruct b end; [|discriminate]. injection H as <-.
    unfold spawn_next. destruct (_ <? _); unfold Inv3; simpl; exact I3.
  - destruct (pending_cancel s); [|discriminate]. destruct (r_host s); try discriminate; injection H as <-; unfold Inv3; simpl; exact I3.
  - destruct (all_children_done s); [|discriminate].
    assert (Hcw : forall id, In id (close_winner s) -> In id (r_created s)).
    { intros id Hin. apply I3. unfold close_winner in Hin. destruct (r_winner s); [eapply remove_incl; eauto | exact Hin]. }
    destruct (r_host s); try discriminate;
      repeat match type of H with
             | (if ?b then _ else _) = _ => destruct b
             | match ?b with _ => _ end = _ => destruct b
             end; try discriminate; injection H as <-; unfold Inv3; simpl; auto.
  - destruct (nth_error (r_att s) i) as [[|[]| |]|] eqn:Et; try discriminate.
    destruct (nth_error (c_addrs c) i) as [a|] eqn:Ha; [|discriminate].
    (* a socket is only added when socket() succeeded, and then its id is recorded *)
    assert (Hop : forall st op, cc_advance (c_locals c) [a] 0 (r_open s) = (st, op) ->
              forall id, In id op -> In id (if a_create a then r_created s ++ [a_id a] else r_created s)).
    { intros st op E id Hin. simpl in E. destruct (a_create a); simpl in E.
      - destruct (bind_all (c_locals c) a); [destruct (a_conn a)| |]; inversion E; subst;
          try (apply in_or_app; left; apply I3; exact Hin);
          (destruct Hin as [<- | Hin]; apply in_or_app; [right; left; reflexivity | left; apply I3; exact Hin]).
      - inversion E; subst. apply I3. exact Hin. }
    destruct (cc_advance (c_locals c) [a] 0 (r_open s)) as [[cur rest errs | o] op] eqn:E; injection H as <-.
    + unfold Inv3. intros x Hx. simpl in *. exact (Hop _ _ eq_refl x Hx).
    + apply child_finish_inv3. intros x Hx. exact (Hop _ _ eq_refl x Hx).
  - destruct (nth_error (r_att s) i) as [[|[]| |]|] eqn:Et; try discriminate. injection H as <-. unfold Inv3; simpl; exact I3.
  - destruct (nth_error (r_att s) i) as [[| |[]|]|]; try discriminate.
    unfold child_resume in H. destruct (nth_error (c_addrs c) i) as [a|]; [|discriminate]. cbn [cc_resume cc_advance] in H. injection H as <-.
    apply (child_finish_inv3 s i (OutSock (a_id a)) (r_open s) (r_created s)). exact I3.
  - destruct (nth_error (r_att s) i) as [[| |[]|]|]; try discriminate.
    unfold child_resume in H. destruct (nth_error (c_addrs c) i) as [a|]; [|discriminate]. cbn [cc_resume cc_advance] in H. injection H as <-.
    apply (child_finish_inv3 s i (OutErrs 1) (remove_id (a_id a) (r_open s)) (r_created s)). intros id Hin. apply I3. eapply remove_incl; eauto.
  - destruct (nth_error (r_att s) i) as [[| |[]|]|]; try discriminate.
    unfold child_resume in H. destruct (nth_error (c_addrs c) i) as [a|]; [|discriminate]. cbn [cc_resume cc_advance] in H. injection H as <-.
    apply (child_finish_inv3 s i OutCrash (remove_id (a_id a) (r_open s)) (r_created s)). intros id Hin. apply I3. eapply remove_incl; eauto.
  - destruct (nth_error (r_att s) i) as [[| |[]|]|]; try discriminate.
    unfold child_resume in H. destruct (nth_error (c_addrs c) i) as [a|]; [|discriminate]. cbn [cc_resume cc_advance] in H. injection H as <-.
    apply (child_finish_inv3 s i OutCancel (remove_id (a_id a) (r_open s)) (r_created s)). intros id Hin. apply I3. eapply remove_incl; eauto.
  - destruct (r_host s); try discriminate; injection H as <-; unfold Inv3; simpl; exact I3.
Qed.

Lemma exec_inv3 : forall tr s s', Inv3 s -> exec c s tr = Some s' -> Inv3 s'.
Proof.
  induction tr as [|l tr IH]; intros s s' I H; simpl in H.
  - inversion H; subst; exact I.
  - destruct (step c s l) as [s1|] eqn:E; [|discriminate]. eapply IH; [eapply step_inv3; eauto | exact H].
Qed.

(* when all attempts failed every address of the (reordered) list was attempted, and each contributed an error *)
Definition Inv4 (s : rstate) : Prop :=
  forall n, r_result s = Some (ResErrs n) -> (forall t, In t (r_att s) -> t = TFin) /\ length (c_addrs c) <= n.

Lemma step_inv4 s l s' : Inv c s -> Inv4 s -> step c s l = Some s' -> Inv4 s'.
Proof.
  intros I I4 H. destruct (r_result s) eqn:Er.
  - (* nothing happens after a result *)
    exfalso. assert (Hh : r_host s = HDone) by (apply (i_done c s I); rewrite Er; discriminate).
    pose proof (i_alldone c s I Hh) as Hall. unfold all_children_done in Hall. rewrite forallb_forall in Hall.
    assert (Hc : forall i t, nth_error (r_att s) i = Some t -> child_done t = true)
      by (intros i t Hn; apply Hall; eapply nth_error_In; eauto).
    destruct l; simpl in H; rewrite ?Hh in H; try discriminate;
      try (destruct (all_children_done s); discriminate);
      try (destruct (pending_cancel s); discriminate);
      (destruct (nth_error (r_att s) i) as [t|] eqn:E; [| discriminate]; specialize (Hc _ _ E);
       destruct t as [|[]|[]|]; simpl in Hc; discriminate).
  - intros n Hn.
    (* the result has just been produced: only LHostFinish can do that *)
    destruct l as [ | timer | | swallow | i | i | i | i | i | i | ]; unfold step in H.
    + destruct (r_host s); try discriminate. destruct (r_caller s); [discriminate|]. injection H as <-.
      unfold spawn_next in Hn. destruct (_ <? _); simpl in Hn; congruence.
    + destruct (r_host s); try discriminate.
      match type of H with (if ?b then _ else _) = _ => destruct b end; [|discriminate]. injection H as <-.
      unfold spawn_next in Hn. destruct (_ <? _); simpl in Hn; congruence.
    + destruct (pending_cancel s); [|discriminate]. destruct (r_host s); try discriminate; injection H as <-; simpl in Hn; congruence.
    + destruct (all_children_done s) eqn:Hall; [|discriminate].
      destruct (r_host s) eqn:Eh; try discriminate.
      * destruct (r_crashed s) eqn:Ec; [injection H as <-; simpl in Hn; discriminate|].
        destruct (r_winner s) eqn:Hw; injection H as <-; simpl in Hn; [discriminate|]. inversion Hn; subst n. simpl.
        pose proof (i_none c s I) as Hnone. rewrite Eh in Hnone.
        assert (Hfin : forall t, In t (r_att s) -> t = TFin).
        { intros t Ht. unfold all_children_done in Hall. rewrite forallb_forall in Hall. pose proof (Hall t Ht) as Hd.
          apply In_nth_error in Ht. destruct Ht as [j Hj]. pose proof (Hnone _ _ Hj).
          destruct t; simpl in Hd; try discriminate; auto. exfalso; auto. }
        split; [exact Hfin|].
        assert (He : early (r_host s)) by (rewrite Eh; exact Logic.I).
        pose proof (i_err c s I He Hw Ec) as Hle. rewrite count_all in Hle.
        -- rewrite (i_len c s I) in Hle. exact Hle.
        -- intros t Ht. rewrite (Hfin t Ht). discriminate.
        -- exact Hall.
      * destruct (r_crashed s); [injection H as <-; simpl in Hn; discriminate|].
        destruct swallow.
        -- destruct (r_scope s) eqn:Es; [|discriminate]. destruct (r_winner s) eqn:Hw; injection H as <-; simpl in Hn; [discriminate|].
           exfalso. apply (i_scope c s I Es). exact Hw.
        -- destruct (r_caller s); [|discriminate]. injection H as <-. simpl in Hn. discriminate.
    + destruct (nth_error (r_att s) i) as [[|[]| |]|]; try discriminate.
      destruct (nth_error (c_addrs c) i); [|discriminate].
      destruct (cc_advance _ _ _ _) as [[? ? ?|o] op]; injection H as <-; [simpl in Hn; congruence|].
      unfold child_finish in Hn. destruct o; [destruct (r_winner s)| | |]; simpl in Hn; congruence.
    + destruct (nth_error (r_att s) i) as [[|[]| |]|]; try discriminate. injection H as <-. simpl in Hn. congruence.
    + destruct (nth_error (r_att s) i) as [[| |[]|]|]; try discriminate.
      unfold child_resume in H. destruct (nth_error (c_addrs c) i); [|discriminate]. simpl in H. injection H as <-.
      unfold child_finish in Hn. destruct (r_winner s); simpl in Hn; congruence.
    + destruct (nth_error (r_att s) i) as [[| |[]|]|]; try discriminate.
      unfold child_resume in H. destruct (nth_error (c_addrs c) i); [|discriminate]. simpl in H. injection H as <-.
      simpl in Hn. congruence.
    + destruct (nth_error (r_att s) i) as [[| |[]|]|]; try discriminate.
      unfold child_resume in H. destruct (nth_error (c_addrs c) i); [|discriminate]. simpl in H. injection H as <-.
      simpl in Hn. congruence.
    + destruct (nth_error (r_att s) i) as [[| |[]|]|]; try discriminate.
      unfold child_resume in H. destruct (nth_error (c_addrs c) i); [|discriminate]. simpl in H. injection H as <-.
      simpl in Hn. congruence.
    + destruct (r_host s); try discriminate; injection H as <-; simpl in Hn; congruence.
Qed.

Lemma exec_inv4 : forall tr s s', Inv c s -> Inv4 s -> exec c s tr = Some s' -> Inv4 s'.
Proof.
  induction tr as [|l tr IH]; intros s s' I I4 H; simpl in H.
  - inversion H; subst; exact I4.
  - destruct (step c s l) as [s1|] eqn:E; [|discriminate].
    eapply IH; [eapply step_inv; eauto | eapply step_inv4; eauto | exact H].
Qed.

End Conservation.

(* ------------------------------------------------------------------ prompt return once a winner exists *)
Section Prompt.
Variable c : rcfg.
Hypothesis ids_distinct : NoDup (map a_id (c_addrs c)).
Hypothesis nonempty : c_addrs c <> [].

(* task steps that need nothing from the environment: no connect outcome, no timer, no caller cancellation *)
Definition internal (l : label) : bool :=
  match l with
  | LHostCancel | LHostFinish _ | LChildSkip _ | LConnCancel _ => true
  | _ => false
  end.

(* after the task group has cancelled its children none of them is left un-cancelled *)
Definition Inv5 (s : rstate) : Prop :=
  r_host s = HAbort -> forall j t, nth_error (r_att s) j = Some t -> t <> TNew false /\ t <> TConn false.

Lemma upd_fin_inv5 (att : list tstate) i :
  (forall j t, nth_error att j = Some t -> t <> TNew false /\ t <> TConn false) ->
  forall j t, nth_error (upd att i TFin) j = Some t -> t <> TNew false /\ t <> TConn false.
Proof.
  intros H j t Hn. destruct (Nat.eq_dec i j) as [->|N].
  - destruct (nth_error att j) eqn:E.
    + rewrite upd_same in Hn by (apply nth_error_Some; rewrite E; discriminate). inversion Hn. split; discriminate.
    + assert (length att <= j) by (apply nth_error_None; exact E).
      assert (nth_error (upd att j TFin) j = None) by (apply nth_error_None; rewrite upd_length; lia). congruence.
  - rewrite upd_other in Hn by exact N. eapply H; eauto.
Qed.

Lemma child_finish_host_att s i o op cr :
  r_host (child_finish s i o op cr) = r_host s /\ r_att (child_finish s i o op cr) = upd (r_att s) i TFin.
Proof. unfold child_finish. destruct o; [destruct (r_winner s)| | |]; simpl; auto. Qed.

Lemma step_inv5 s l s' : Inv5 s -> step c s l = Some s' -> Inv5 s'.
Proof.
  intros I5 H. unfold Inv5 in *.
  destruct l as [ | timer | | swallow | i | i | i | i | i | i | ]; unfold step in H.
  - destruct (r_host s); try discriminate. destruct (r_caller s); [discriminate|]. injection H as <-.
    unfold spawn_next. destruct (_ <? _); simpl; discriminate.
  - destruct (r_host s); try discriminate.
    match type of H with (if ?b then _ else _) = _ => destruct b end; [|discriminate]. injection H as <-.
    unfold spawn_next. destruct (_ <? _); simpl; discriminate.
  - destruct (pending_cancel s); [|discriminate]. destruct (r_host s); try discriminate; injection H as <-; simpl; try discriminate;
      (intros _ j t Hn; rewrite nth_error_map in Hn; destruct (nth_error (r_att s) j) as [t0|]; [|discriminate];
       inversion Hn; destruct t0; simpl; split; discriminate).
  - destruct (all_children_done s); [|discriminate].
    destruct (r_host s); try discriminate;
      repeat match type of H with
             | (if ?b then _ else _) = _ => destruct b
             | match ?b with _ => _ end = _ => destruct b
             end; try discriminate; injection H as <-; simpl; discriminate.
  - destruct (nth_error (r_att s) i) as [[|[]| |]|] eqn:Et; try discriminate.
    destruct (nth_error (c_addrs c) i) as [a|]; [|discriminate].
    destruct (cc_advance (c_locals c) [a] 0 (r_open s)) as [[cur rest errs | o] op]; injection H as <-.
    + simpl. intro Hh. exfalso. destruct (I5 Hh _ _ Et) as [K _]. apply K; reflexivity.
    + destruct (child_finish_host_att s i o op (if a_create a then r_created s ++ [a_id a] else r_created s)) as [-> ->].
      intro Hh. apply upd_fin_inv5. apply I5; exact Hh.
  - destruct (nth_error (r_att s) i) as [[|[]| |]|] eqn:Et; try discriminate. injection H as <-. simpl.
    intro Hh. apply upd_fin_inv5. apply I5; exact Hh.
  - destruct (nth_error (r_att s) i) as [[| |[]|]|]; try discriminate.
    unfold child_resume in H. destruct (nth_error (c_addrs c) i) as [a|]; [|discriminate].
    destruct (cc_resume _ _ _ _ _ _) as [[cur rest errs | o] op]; [discriminate|]. injection H as <-.
    destruct (child_finish_host_att s i o op (r_created s)) as [-> ->]. intro Hh. apply upd_fin_inv5. apply I5; exact Hh.
  - destruct (nth_error (r_att s) i) as [[| |[]|]|]; try discriminate.
    unfold child_resume in H. destruct (nth_error (c_addrs c) i) as [a|]; [|discriminate].
    destruct (cc_resume _ _ _ _ _ _) as [[cur rest errs | o] op]; [discriminate|]. injection H as <-.
    destruct (child_finish_host_att s i o op (r_created s)) as [-> ->]. intro Hh. apply upd_fin_inv5. apply I5; exact Hh.
  - destruct (nth_error (r_att s) i) as [[| |[]|]|]; try discriminate.
    unfold child_resume in H. destruct (nth_error (c_addrs c) i) as [a|]; [|discriminate].
    destruct (cc_resume _ _ _ _ _ _) as [[cur rest errs | o] op]; [discriminate|]. injection H as <-.
    destruct (child_finish_host_att s i o op (r_created s)) as [-> ->]. intro Hh. apply upd_fin_inv5. apply I5; exact Hh.
  - destruct (nth_error (r_att s) i) as [[| |[]|]|]; try discriminate.
    unfold child_resume in H. destruct (nth_error (c_addrs c) i) as [a|]; [|discriminate].
    destruct (cc_resume _ _ _ _ _ _) as [[cur rest errs | o] op]; [discriminate|]. injection H as <-.
    destruct (child_finish_host_att s i o op (r_created s)) as [-> ->]. intro Hh. apply upd_fin_inv5. apply I5; exact Hh.
  - destruct (r_host s) eqn:Eh; try discriminate; injection H as <-; simpl; try discriminate. intros _. apply I5. reflexivity.
Qed.

Lemma exec_inv5 : forall tr s s', Inv5 s -> exec c s tr = Some s' -> Inv5 s'.
Proof.
  induction tr as [|l tr IH]; intros s s' I H; simpl in H.
  - inversion H; subst; exact I.
  - destruct (step c s l) as [s1|] eqn:E; [|discriminate]. eapply IH; [eapply step_inv5; eauto | exact H].
Qed.

(* the scope has been cancelled (a winner exists) or the task group is aborting: an internal step is enabled *)
Lemma progress_internal s : Inv c s -> Inv2 s -> Inv5 s -> r_result s = None ->
  (r_scope s = true \/ r_host s = HAbort) -> exists l, internal l = true /\ step c s l <> None.
Proof.
  intros I I2 I5 Hr Hsc.
  assert (Hp : r_host s <> HAbort -> pending_cancel s = true).
  { intros Hne. destruct Hsc as [Hs | Hh]; [unfold pending_cancel; rewrite Hs; reflexivity | exfalso; apply Hne; exact Hh]. }
  destruct (r_host s) eqn:Eh.
  - exists LHostCancel. split; [reflexivity|]. simpl. rewrite Hp, Eh by discriminate. discriminate.
  - exists LHostCancel. split; [reflexivity|]. simpl. rewrite Hp, Eh by discriminate. discriminate.
  - exists LHostCancel. split; [reflexivity|]. simpl. rewrite Hp, Eh by discriminate. discriminate.
  - destruct (all_children_done s) eqn:Hall.
    + pose proof (I2 Eh) as Hpc. unfold pending_cancel in Hpc.
      destruct (r_crashed s) eqn:Ec.
      * exists (LHostFinish false). split; [reflexivity|]. simpl. rewrite Hall, Eh, Ec. discriminate.
      * destruct (r_scope s) eqn:Es.
        -- exists (LHostFinish true). split; [reflexivity|]. simpl. rewrite Hall, Eh, Ec, Es. destruct (r_winner s); discriminate.
        -- destruct (r_caller s) eqn:Eca; [|discriminate].
           exists (LHostFinish false). split; [reflexivity|]. simpl. rewrite Hall, Eh, Ec, Eca. discriminate.
    + destruct (find_active _ Hall) as (i & t & A & B).
      assert (Hi : i < length (c_addrs c)) by (rewrite <- (i_len c s I); apply nth_error_Some; rewrite A; discriminate).
      destruct (nth_error (c_addrs c) i) as [a|] eqn:Ha; [| apply nth_error_None in Ha; lia].
      destruct (I5 Eh _ _ A) as [N1 N2].
      destruct t as [|[]|[]|]; try discriminate; try (exfalso; auto; fail).
      * exists (LChildSkip i). split; [reflexivity|]. simpl. rewrite A. discriminate.
      * exists (LConnCancel i). split; [reflexivity|]. simpl. rewrite A. unfold child_resume. rewrite Ha. simpl. discriminate.
  - exfalso. assert (r_result s <> None) by (apply (i_done c s I); exact Eh). congruence.
Qed.

Lemma internal_not_cancel l : internal l = true -> is_cancel l = false.
Proof. destruct l; simpl; auto; discriminate. Qed.

Lemma scope_or_abort_step s l s' : step c s l = Some s' -> internal l = true ->
  (r_scope s = true \/ r_host s = HAbort) -> r_result s' = None -> (r_scope s' = true \/ r_host s' = HAbort).
Proof.
  intros H Hl Hs Hr. destruct l; try discriminate; unfold step in H.
  - destruct (pending_cancel s); [|discriminate]. destruct (r_host s); try discriminate; injection H as <-; simpl in *; auto; discriminate.
  - destruct (all_children_done s); [|discriminate].
    destruct (r_host s); try discriminate;
      repeat match type of H with
             | (if ?b then _ else _) = _ => destruct b
             | match ?b with _ => _ end = _ => destruct b
             end; try discriminate; injection H as <-; simpl in Hr; discriminate.
  - destruct (nth_error (r_att s) i) as [[|[]| |]|]; try discriminate. injection H as <-. simpl. exact Hs.
  - destruct (nth_error (r_att s) i) as [[| |[]|]|]; try discriminate.
    unfold child_resume in H. destruct (nth_error (c_addrs c) i); [|discriminate]. simpl in H. injection H as <-. simpl. exact Hs.
Qed.

(* prompt return: from any reachable state in which a winner has been elected (or the group is aborting) a result is
   reached by internal steps alone, at most mu of them *)
Lemma returns_promptly : forall n s, Inv c s -> Inv2 s -> Inv5 s -> mu c s <= n ->
  (r_scope s = true \/ r_host s = HAbort) ->
  exists tr s', exec c s tr = Some s' /\ r_result s' <> None /\ length tr <= mu c s /\ forallb internal tr = true.
Proof.
  induction n as [|n IH]; intros s I I2 I5 Hn Hs.
  - destruct (r_result s) eqn:Er.
    + exists [], s. simpl. repeat split; auto; try lia. congruence.
    + destruct (progress_internal s I I2 I5 Er Hs) as (l & Hl & Hst). destruct (step c s l) as [s1|] eqn:E; [|exfalso; auto].
      pose proof (step_mu c s l s1 I E (internal_not_cancel l Hl)). lia.
  - destruct (r_result s) eqn:Er.
    + exists [], s. simpl. repeat split; auto; try lia. congruence.
    + destruct (progress_internal s I I2 I5 Er Hs) as (l & Hl & Hst). destruct (step c s l) as [s1|] eqn:E; [|exfalso; auto].
      pose proof (step_mu c s l s1 I E (internal_not_cancel l Hl)) as Hmu.
      assert (I1 : Inv c s1) by (eapply step_inv; eauto).
      assert (I21 : Inv2 s1) by (eapply step_inv2; eauto).
      assert (I51 : Inv5 s1) by (eapply step_inv5; eauto).
      destruct (r_result s1) eqn:Er1.
      * exists [l], s1. simpl. rewrite E, Hl. repeat split; auto; try lia. congruence.
      * destruct (IH s1 I1 I21 I51) as (tr & s' & A & B & C & D); [lia | eapply scope_or_abort_step; eauto |].
        exists (l :: tr), s'. simpl. rewrite E, Hl. simpl. repeat split; auto. lia.
Qed.

Lemma init_inv5 : Inv5 (init c).
Proof. unfold Inv5. simpl. discriminate. Qed.

End Prompt.
