(* C13: with the repair of F1 present (fixF), no scope ever leaves a cancel request behind: g_leak = 0 in every reachable
   state, for all programs and controller schedules.  Needs the queue invariant "a __deliver_cancellation handle is only
   ever queued for a scope whose cancel() was called" (so that a scope without cancel_called has issued no request). *)
From Coq Require Import ZArith List Bool Arith Lia.
From EN Require Import Conc.CancelScope Proofs.C13_core Proofs.C13_inv.
Import ListNotations.

Definition called (st : state) (k : nat) : Prop := s_called (get_scope st k) = true.
Definition hk_ok (st : state) (h : handle) : Prop := forall k, h_kind h = HDeliver k -> called st k.
Definition tm_ok (t : timer) : Prop := forall k, h_kind (tm_h t) <> HDeliver k.

Section Fx.
(* fx: is the repair of F1 present (the value of fixF, which no step ever writes) *)
Variable fx : bool.

Record qinv (st : state) : Prop := mkQ {
  q_ready : Forall (hk_ok st) (ready st);
  q_heap : Forall tm_ok (heap st);
  q_calls : forall k, s_called (get_scope st k) = false -> s_calls (get_scope st k) = 0;
  q_leak : fx = true -> g_leak st = 0;
  q_fix : fixF st = fx }.

(* ---------------- heap operations only move timers around *)
Lemma Forall_upd : forall (A : Type) (P : A -> Prop) l i x, Forall P l -> P x -> Forall P (upd l i x).
Proof.
  induction l as [|a l IH]; intros i x Hl Hx; simpl; [constructor|].
  inversion Hl; subst. destruct i; constructor; auto.
Qed.
Lemma Forall_nth_d : forall (A : Type) (P : A -> Prop) l i d, Forall P l -> P d -> P (nth i l d).
Proof.
  induction l as [|a l IH]; intros i d Hl Hd; destruct i; simpl; auto; inversion Hl; subst; auto.
Qed.
Lemma tm_ok_dummy : tm_ok dummy_t. Proof. intros k H. discriminate. Qed.

Lemma siftdown_ok : forall fuel hp s p x, Forall tm_ok hp -> tm_ok x -> Forall tm_ok (siftdown fuel hp s p x).
Proof.
  induction fuel as [|fu IH]; intros hp s p x Hh Hx; cbn [siftdown]; [apply Forall_upd; auto|].
  destruct (s <? p); [|apply Forall_upd; auto].
  match goal with |- context [if ?c then _ else _] => destruct c end; [|apply Forall_upd; auto].
  apply IH; [|exact Hx]. apply Forall_upd; [exact Hh|]. apply Forall_nth_d; [exact Hh|apply tm_ok_dummy].
Qed.
Lemma heappush_ok : forall hp x, Forall tm_ok hp -> tm_ok x -> Forall tm_ok (heappush hp x).
Proof.
  intros. unfold heappush. apply siftdown_ok; [|assumption]. apply Forall_app; split; [assumption|constructor; auto].
Qed.
Lemma siftup_loop_ok : forall fuel hp p e, Forall tm_ok hp -> Forall tm_ok (fst (siftup_loop fuel hp p e)).
Proof.
  induction fuel as [|fu IH]; intros hp p e Hh; cbn [siftup_loop]; [exact Hh|].
  match goal with |- context [if ?c then _ else _] => destruct c end; [|exact Hh].
  apply IH. apply Forall_upd; [exact Hh|]. apply Forall_nth_d; [exact Hh|apply tm_ok_dummy].
Qed.
Lemma siftup_ok : forall hp p, Forall tm_ok hp -> Forall tm_ok (siftup hp p).
Proof.
  intros hp p Hh. unfold siftup.
  pose proof (siftup_loop_ok (length hp) hp p (length hp) Hh) as H1.
  destruct (siftup_loop (length hp) hp p (length hp)) as [hp' p']. simpl in H1.
  apply siftdown_ok; [exact H1|]. apply Forall_nth_d; [exact Hh|apply tm_ok_dummy].
Qed.
Lemma heappop_ok : forall hp t hp', Forall tm_ok hp -> heappop hp = Some (t, hp') -> tm_ok t /\ Forall tm_ok hp'.
Proof.
  intros hp t hp' Hh H. unfold heappop in H.
  assert (Hr : Forall tm_ok (rev hp)) by (apply Forall_rev; exact Hh).
  destruct (rev hp) as [|lastelt r]; [discriminate|]. inversion Hr as [|? ? Hl Hr']; subst.
  assert (Hrr : Forall tm_ok (rev r)) by (apply Forall_rev; exact Hr').
  destruct (rev r) as [|top rest].
  - inversion H; subst. split; [exact Hl|constructor].
  - inversion Hrr as [|? ? Ht Hrest]; subst. inversion H; subst. split; [exact Ht|].
    apply siftup_ok. constructor; assumption.
Qed.
Lemma drop_cancelled_heads_ok : forall fuel hp, Forall tm_ok hp -> Forall tm_ok (drop_cancelled_heads fuel hp).
Proof.
  induction fuel as [|fu IH]; intros hp Hh; simpl; [exact Hh|].
  destruct hp as [|t hp0]; [exact Hh|]. destruct (h_canc (tm_h t)); [|exact Hh].
  destruct (heappop (t :: hp0)) as [[t' hp']|] eqn:E; [|exact Hh].
  apply IH. eapply heappop_ok; eauto.
Qed.
Lemma move_due_ok : forall fuel now hp rd (P : handle -> Prop),
  Forall tm_ok hp -> Forall P rd -> (forall t, tm_ok t -> P (tm_h t)) ->
  Forall tm_ok (fst (move_due fuel now hp rd)) /\ Forall P (snd (move_due fuel now hp rd)).
Proof.
  induction fuel as [|fu IH]; intros now hp rd P Hh Hr HP; simpl; [split; assumption|].
  destruct hp as [|t hp0]; [split; assumption|]. destruct (tm_when t <=? now); [|split; assumption].
  destruct (heappop (t :: hp0)) as [[t' hp']|] eqn:E; [|split; assumption].
  destruct (heappop_ok _ _ _ Hh E) as [Ht Hh'].
  apply IH; [exact Hh'| |exact HP]. apply Forall_app; split; [exact Hr|constructor; auto].
Qed.

(* ---------------- how a piece of the machine may change what the invariant reads *)
Record qrel (st st' : state) : Prop := mkQR {
  qr_mono : forall k, called st k -> called st' k;
  qr_ready : forall h, In h (ready st') -> (exists h0, In h0 (ready st) /\ h_kind h0 = h_kind h) \/ hk_ok st' h;
  qr_heap : Forall tm_ok (heap st) -> Forall tm_ok (heap st');
  qr_calls : (forall k, s_called (get_scope st k) = false -> s_calls (get_scope st k) = 0) ->
             (forall k, s_called (get_scope st' k) = false -> s_calls (get_scope st' k) = 0);
  qr_leak : fixF st = true -> (forall k, s_called (get_scope st k) = false -> s_calls (get_scope st k) = 0) ->
            g_leak st = 0 -> g_leak st' = 0;
  qr_fix : fixF st' = fixF st }.

Lemma qrel_refl : forall st, qrel st st.
Proof. intros; constructor; auto. intros h Hh. left. exists h. auto. Qed.

Lemma qrel_trans : forall a b c, qrel a b -> qrel b c -> qrel a c.
Proof.
  intros a b c [m1 r1 h1 c1 l1 f1] [m2 r2 h2 c2 l2 f2]. constructor; auto.
  - intros h Hh. destruct (r2 h Hh) as [[h0 [Hin Hk]]|Hok]; [|right; exact Hok].
    destruct (r1 h0 Hin) as [[h00 [Hin0 Hk0]]|Hok0].
    + left. exists h00. split; [exact Hin0|congruence].
    + right. intros k Hk'. apply m2. apply Hok0. congruence.
  - intros F Q L. apply l2; [congruence|apply c1; exact Q|]. apply l1; assumption.
  - congruence.
Qed.

Lemma qrel_inv : forall st st', qrel st st' -> qinv st -> qinv st'.
Proof.
  intros st st' [m r h c l f] [Qr Qh Qc Ql Qf]. constructor.
  - apply Forall_forall. intros x Hx. destruct (r x Hx) as [[h0 [Hin Hk]]|Hok]; [|exact Hok].
    rewrite Forall_forall in Qr. intros k Hk'. apply m. apply (Qr h0 Hin). congruence.
  - auto.
  - auto.
  - intros F. apply l; [congruence|exact Qc|]. apply Ql. exact F.
  - congruence.
Qed.

(* the fields the invariant reads are untouched *)
Record same2 (st st' : state) : Prop := mkS2 {
  s2_ready : ready st' = ready st; s2_heap : heap st' = heap st; s2_scopes : scopes st' = scopes st;
  s2_leak : g_leak st' = g_leak st; s2_fix : fixF st' = fixF st }.
Ltac sm2 := constructor; reflexivity.
Lemma same2_qrel : forall st st', same2 st st' -> qrel st st'.
Proof.
  intros st st' [r h s l f]. constructor.
  - intros k. unfold called, get_scope. rewrite s. auto.
  - intros x Hx. left. exists x. rewrite r in Hx. auto.
  - rewrite h. auto.
  - intros H k. unfold get_scope in *. rewrite s. apply H.
  - intros _ _ L. congruence.
  - exact f.
Qed.

Lemma hk_ok_mark : forall st hid h, hk_ok st h -> hk_ok st (mark_h hid h).
Proof. intros st hid h H. unfold mark_h. destruct (h_id h =? hid); exact H. Qed.

Lemma qrel_cancel_handle : forall st hid, qrel st (cancel_handle st hid).
Proof.
  intros. constructor; auto.
  - intros h Hh. simpl in Hh. apply in_map_iff in Hh. destruct Hh as [h0 [E Hin]]. left. exists h0. split; [exact Hin|].
    subst h. unfold mark_h. destruct (h_id h0 =? hid); reflexivity.
  - intros H. simpl. apply Forall_forall. intros t Ht. apply in_map_iff in Ht. destruct Ht as [t0 [E Hin]].
    rewrite Forall_forall in H. specialize (H t0 Hin). subst t. intros k Hk. apply (H k).
    unfold mark_t, mark_h in Hk. simpl in Hk. destruct (h_id (tm_h t0) =? hid); exact Hk.
Qed.
Lemma qrel_cancel_ohandle : forall st h, qrel st (cancel_ohandle st h).
Proof. intros st [h|]; [apply qrel_cancel_handle|apply qrel_refl]. Qed.

Lemma qrel_call_soon : forall st k, (forall j, k = HDeliver j -> called st j) -> qrel st (fst (call_soon st k)).
Proof.
  intros st k Hk. constructor; auto.
  intros h Hh. change (In h (ready st ++ [mkH (nexth st) k false])) in Hh.
  apply in_app_or in Hh. destruct Hh as [Hh|Hh].
  - left. exists h. auto.
  - destruct Hh as [E|[]]. subst h. right. intros j Hj. cbn [h_kind] in Hj. apply Hk in Hj. exact Hj.
Qed.
Lemma qrel_call_at : forall st w k, (forall j, k <> HDeliver j) -> qrel st (fst (call_at st w k)).
Proof.
  intros st w k Hk. constructor; auto.
  - intros h Hh. left. exists h. auto.
  - intros H. simpl. apply heappush_ok; [exact H|]. intros j Hj. simpl in Hj. exact (Hk j Hj).
Qed.

Lemma qrel_schedule_cbs : forall cbs st f, qrel st (schedule_cbs st f cbs).
Proof.
  induction cbs as [|c cbs IH]; intros; cbn [schedule_cbs]; [apply qrel_refl|].
  eapply qrel_trans; [apply (qrel_call_soon st (HFutCb f c)); intros j Hj; discriminate|apply IH].
Qed.
Lemma qrel_fut_finish : forall st f s, qrel st (fst (fut_finish st f s)).
Proof.
  intros. unfold fut_finish. destruct (f_st (get_fut st f)); cbn [fst]; try apply qrel_refl.
  eapply qrel_trans; [|apply qrel_schedule_cbs]. apply same2_qrel; sm2.
Qed.
Lemma qrel_task_cancel : forall st m, qrel st (task_cancel st m).
Proof.
  intros. unfold task_cancel. destruct (task_done st); [apply qrel_refl|].
  set (st1 := set_t_cnt st (S (t_cnt st))).
  assert (Q1 : qrel st st1) by (apply same2_qrel; sm2).
  destruct (t_waiter st1) as [f|].
  - unfold fut_cancel. pose proof (qrel_fut_finish st1 f (FCanc m)) as Q2.
    destruct (fut_finish st1 f (FCanc m)) as [st2 ok]. cbn [fst] in Q2.
    destruct ok; [exact (qrel_trans _ _ _ Q1 Q2)|].
    eapply qrel_trans; [exact (qrel_trans _ _ _ Q1 Q2)|apply same2_qrel; sm2].
  - eapply qrel_trans; [exact Q1|apply same2_qrel; sm2].
Qed.
Lemma qrel_task_uncancel : forall st, qrel st (task_uncancel st).
Proof. intros. unfold task_uncancel. destruct (t_cnt st); apply same2_qrel; sm2. Qed.
Lemma qrel_mk_shield : forall st f, qrel st (fst (mk_shield st f)).
Proof. intros. apply same2_qrel. unfold mk_shield. cbn. sm2. Qed.
Lemma qrel_reschedule_delayed : forall st m, qrel st (fst (reschedule_delayed st m)).
Proof.
  intros. unfold reschedule_delayed. destruct (delayed st); cbn [fst]; [apply qrel_refl|].
  eapply qrel_trans; [apply (qrel_call_soon st (HDelayedCancel m)); intros j Hj; discriminate|].
  eapply qrel_trans; [|apply (qrel_call_soon _ HDelayedPop); intros j Hj; discriminate]. apply same2_qrel; sm2.
Qed.

(* ---------------- scope updates *)
Lemma nth_upd_gen : forall (A : Type) (l : list A) k x j d,
  nth j (upd l k x) d = if (j =? k) && (k <? length l) then x else nth j l d.
Proof.
  induction l as [|a l IH]; intros k x j d.
  - simpl. rewrite andb_false_r. reflexivity.
  - destruct k; destruct j; simpl; try reflexivity.
    rewrite IH. reflexivity.
Qed.
Lemma gs_put : forall st k x j,
  get_scope (put_scope st k x) j = if (j =? k) && (k <? length (scopes st)) then x else get_scope st j.
Proof. intros. unfold get_scope, put_scope. cbn [scopes set_scopes]. apply nth_upd_gen. Qed.

Lemma qrel_put_scope : forall st k x,
  (s_called (get_scope st k) = true -> s_called x = true) ->
  ((s_called (get_scope st k) = false -> s_calls (get_scope st k) = 0) -> s_called x = false -> s_calls x = 0) ->
  qrel st (put_scope st k x).
Proof.
  intros st k x Hm Hc. constructor; auto.
  - intros j Hj. unfold called in *. rewrite gs_put.
    destruct ((j =? k) && (k <? length (scopes st))) eqn:E; [|exact Hj].
    apply andb_prop in E. destruct E as [E _]. apply Nat.eqb_eq in E. subst j. auto.
  - intros h Hh. left. exists h. auto.
  - intros H j. rewrite gs_put.
    destruct ((j =? k) && (k <? length (scopes st))) eqn:E; [|apply H].
    apply Hc. apply H.
Qed.
Lemma qrel_upd_scope : forall st k f,
  (forall s, s_called s = true -> s_called (f s) = true) ->
  (forall s, s_calls (f s) = s_calls s) ->
  qrel st (upd_scope st k f).
Proof.
  intros st k f Hm Hc. unfold upd_scope. apply qrel_put_scope; [apply Hm|].
  intros H0 Hf. rewrite Hc. apply H0.
  destruct (s_called (get_scope st k)) eqn:E; [|reflexivity]. rewrite (Hm _ E) in Hf. discriminate.
Qed.

Lemma qrel_deliver_arm : forall st k retry, called st k -> qrel st (deliver_arm st k retry).
Proof.
  intros st k retry Hk. unfold deliver_arm. destruct retry.
  - eapply qrel_trans; [apply (qrel_call_soon st (HDeliver k)); intros j Hj; inversion Hj; subst; exact Hk|].
    apply qrel_upd_scope; intros s; auto.
  - apply qrel_upd_scope; intros s; auto.
Qed.

Lemma called_task_cancel : forall st m k, called st k -> called (task_cancel st m) k.
Proof. intros st m k H. exact (qr_mono _ _ (qrel_task_cancel st m) k H). Qed.

Lemma qrel_deliver_issue : forall st k, called st k -> qrel st (deliver_issue st k).
Proof.
  intros st k Hk. unfold deliver_issue. eapply qrel_trans; [apply qrel_task_cancel|].
  unfold upd_scope. apply qrel_put_scope.
  - intros H. exact H.
  - intros _ Hf. cbn [sc_inc_calls s_called] in Hf.
    pose proof (called_task_cancel st (Some k) k Hk) as Hc. unfold called in Hc. congruence.
Qed.

Lemma qrel_deliver : forall st k, called st k -> qrel st (deliver st k).
Proof.
  intros st k Hk. unfold deliver. destruct (negb (s_host (get_scope st k))); [apply qrel_refl|].
  destruct (delayed st) as [[h m]|]; [apply qrel_deliver_arm; exact Hk|].
  destruct (negb (t_must st) && negb (task_is_current st)); [|apply qrel_deliver_arm; exact Hk].
  pose proof (qrel_deliver_issue st k Hk) as Q1.
  eapply qrel_trans; [exact Q1|]. apply qrel_deliver_arm. exact (qr_mono _ _ Q1 k Hk).
Qed.

Lemma qrel_scope_cancel : forall st k, qrel st (scope_cancel st k).
Proof.
  intros st k. unfold scope_cancel. destruct (s_called (get_scope st k)) eqn:Ec; [apply qrel_refl|].
  set (st1 := cancel_ohandle st (s_th (get_scope st k))).
  assert (Q1 : qrel st st1) by apply qrel_cancel_ohandle.
  assert (Es : scopes st1 = scopes st) by (unfold st1; destruct (s_th (get_scope st k)); reflexivity).
  destruct (lt_dec k (length (scopes st))) as [L|L].
  - assert (Q2 : qrel st1 (upd_scope st1 k sc_set_called)).
    { unfold upd_scope. apply qrel_put_scope; [reflexivity|]. intros _ Hf. cbn in Hf. discriminate. }
    assert (Hc : called (upd_scope st1 k sc_set_called) k).
    { unfold called, upd_scope. rewrite gs_put. rewrite Nat.eqb_refl.
      assert (E : k <? length (scopes st1) = true) by (apply Nat.ltb_lt; rewrite Es; exact L).
      rewrite E. reflexivity. }
    eapply qrel_trans; [exact Q1|]. eapply qrel_trans; [exact Q2|]. apply qrel_deliver. exact Hc.
  - (* k is not a scope: nothing is active there, deliver returns at once *)
    eapply qrel_trans; [exact Q1|].
    assert (Hg : forall st0, length (scopes st0) <= k -> get_scope st0 k = dummy_s)
      by (intros st0 H0; unfold get_scope; apply nth_overflow; exact H0).
    assert (Q2 : qrel st1 (upd_scope st1 k sc_set_called)).
    { unfold upd_scope. apply qrel_put_scope.
      - intros H. rewrite Hg in H by (rewrite Es; lia). discriminate.
      - intros _ Hf. cbn in Hf. discriminate. }
    eapply qrel_trans; [exact Q2|].
    unfold deliver.
    assert (E : get_scope (upd_scope st1 k sc_set_called) k = dummy_s).
    { apply Hg. unfold upd_scope, put_scope. cbn [scopes set_scopes].
      rewrite length_upd. rewrite Es. lia. }
    rewrite E. cbn. apply qrel_refl.
Qed.

Lemma qrel_setup_timeout : forall st k, qrel st (setup_timeout st k).
Proof.
  intros. unfold setup_timeout. destruct (s_deadline (get_scope st k)) as [dl|]; [|apply qrel_refl].
  destruct (dl <=? time st); [apply qrel_scope_cancel|].
  eapply qrel_trans; [apply (qrel_call_at st dl (HScopeCancel k)); intros j Hj; discriminate|].
  apply qrel_upd_scope; intros s; auto.
Qed.

Lemma qrel_scope_reschedule : forall st k w, qrel st (scope_reschedule st k w).
Proof.
  intros. unfold scope_reschedule.
  assert (Q1 : qrel st (upd_scope (cancel_ohandle st (s_th (get_scope st k))) k (sc_set_deadline w))).
  { eapply qrel_trans; [apply qrel_cancel_ohandle|]. apply qrel_upd_scope; intros s; auto. }
  destruct (s_state (get_scope st k)); try exact Q1.
  destruct (s_called (get_scope st k)); [exact Q1|].
  eapply qrel_trans; [exact Q1|apply qrel_setup_timeout].
Qed.

Lemma first_called_called : forall st stack k, first_called st stack = Some k -> called st k.
Proof.
  induction stack as [|j rest IH]; intros k H; simpl in H; [discriminate|].
  destruct (s_called (get_scope st j)) eqn:E; [inversion H; subst; exact E|apply IH; exact H].
Qed.
Lemma qrel_check_pending : forall st, qrel st (check_pending st).
Proof.
  intros. unfold check_pending. destruct (first_called st (sstack st)) as [k|] eqn:E; [|apply qrel_refl].
  destruct (s_ch (get_scope st k)); [apply qrel_refl|]. apply qrel_deliver. eapply first_called_called; eauto.
Qed.

(* __enter__: the new scope has issued nothing *)
Lemma qrel_scope_enter : forall st pre dl, qrel st (fst (scope_enter st pre dl)).
Proof.
  intros. unfold scope_enter.
  set (k := length (scopes st)).
  set (new := mkScope true (t_cnt st) 0 SEntered pre false dl None None).
  set (st1 := set_sstack (set_scopes st (scopes st ++ [new])) (k :: sstack (set_scopes st (scopes st ++ [new])))).
  assert (G : forall j, get_scope st1 j = if j <? k then get_scope st j else if j =? k then new else dummy_s).
  { intros j. unfold get_scope, st1. cbn [scopes set_sstack set_scopes].
    destruct (j <? k) eqn:E1.
    - apply Nat.ltb_lt in E1. apply app_nth1. exact E1.
    - apply Nat.ltb_ge in E1. rewrite app_nth2 by exact E1. fold k.
      destruct (j =? k) eqn:E2.
      + apply Nat.eqb_eq in E2. subst j. rewrite Nat.sub_diag. reflexivity.
      + apply Nat.eqb_neq in E2. destruct (j - k) as [|n] eqn:E3; [lia|]. simpl. destruct n; reflexivity. }
  assert (Q1 : qrel st st1).
  { constructor; auto.
    - intros j Hj. unfold called in *. rewrite G. destruct (j <? k) eqn:E1; [exact Hj|].
      apply Nat.ltb_ge in E1. unfold get_scope in Hj. rewrite nth_overflow in Hj by exact E1. discriminate.
    - intros h Hh. left. exists h. auto.
    - intros H j. rewrite G. destruct (j <? k); [apply H|]. destruct (j =? k); reflexivity. }
  cbn [fst]. destruct pre.
  - eapply qrel_trans; [exact Q1|]. apply qrel_deliver. unfold called. rewrite G.
    rewrite Nat.ltb_irrefl, Nat.eqb_refl. reflexivity.
  - eapply qrel_trans; [exact Q1|apply qrel_setup_timeout].
Qed.

Lemma scopes_cancel_ohandle : forall st h, scopes (cancel_ohandle st h) = scopes st.
Proof. intros st [h|]; reflexivity. Qed.

(* __exit__ *)
Lemma same2_exit_called : forall st k s exc, same2 st (fst (fst (exit_called st k s exc))).
Proof.
  intros. unfold exit_called. destruct exc as [[m| |]|]; try (cbn [fst]; constructor; reflexivity).
  destruct (uncancel_loop (s_calls s) (t_cnt st) (s_hostc s) (g_floor st)) as [[[c cnt] fl] hit]. cbn [fst]. sm2.
Qed.
Lemma qrel_exit_drop_delayed : forall st k, qrel st (exit_drop_delayed st k).
Proof.
  intros. unfold exit_drop_delayed. destruct (delayed st) as [[h m]|]; [|apply qrel_refl].
  destruct (msg_eqb m (Some k)); [|apply qrel_refl].
  eapply qrel_trans; [|apply qrel_cancel_handle]. apply same2_qrel; sm2.
Qed.
Lemma exit_called_calls_le : forall st k s exc, snd (fst (exit_called st k s exc)) <= s_calls s.
Proof.
  intros. unfold exit_called. destruct exc as [[m| |]|]; try (cbn; lia).
  destruct (uncancel_loop (s_calls s) (t_cnt st) (s_hostc s) (g_floor st)) as [[[c cnt] fl] hit] eqn:E.
  apply uncancel_loop_spec in E. cbn. lia.
Qed.

Lemma qrel_scope_exit : forall st k exc, qrel st (fst (scope_exit st k exc)).
Proof.
  intros st k exc. unfold scope_exit.
  destruct (negb (s_host (get_scope st k))); [cbn [fst]; apply same2_qrel; sm2|].
  set (s := get_scope st k).
  set (st2 := set_sstack _ _).
  assert (Q2 : qrel st st2).
  { unfold st2. eapply qrel_trans; [apply qrel_cancel_ohandle|]. eapply qrel_trans; [apply qrel_cancel_ohandle|].
    apply same2_qrel; sm2. }
  set (r := if s_called s then exit_called st2 k s exc else (st2, s_calls s, s_caught s)).
  set (st4 := if s_called s then exit_drop_delayed (fst (fst r)) k else fst (fst r)).
  assert (Q4 : qrel st2 st4).
  { unfold st4, r. destruct (s_called s).
    - eapply qrel_trans; [apply same2_qrel; apply same2_exit_called|apply qrel_exit_drop_delayed].
    - apply qrel_refl. }
  assert (Hle : snd (fst r) <= s_calls s).
  { unfold r. destruct (s_called s); [apply exit_called_calls_le|cbn; lia]. }
  destruct (exit_takeback st4 (s_called s) (snd (fst r))) as [st4b calls'] eqn:ET.
  assert (T : same2 st4 st4b /\ calls' <= snd (fst r) /\ (fixF st4 = true -> s_called s = true -> calls' = 0)).
  { unfold exit_takeback in ET. destruct (fixF st4 && s_called s) eqn:E; inversion ET; subst.
    - split; [sm2|]. split; [lia|auto].
    - split; [sm2|]. split; [lia|]. intros F C. rewrite F, C in E. discriminate. }
  destruct T as (S4b & Hle' & Hfix).
  set (new := mkScope false (s_hostc s) calls' SExited (s_called s) (snd r) (s_deadline s) None None).
  set (st5 := set_g_leak (put_scope st4b k new) (g_leak (put_scope st4b k new) + calls')).
  assert (Q04 : qrel st st4b).
  { eapply qrel_trans; [exact Q2|]. eapply qrel_trans; [exact Q4|apply same2_qrel; exact S4b]. }
  (* the scope record of k is still the one of st *)
  assert (Gs : get_scope st4b k = s).
  { assert (E : scopes st4b = scopes st).
    { destruct S4b as [_ _ E4 _ _]. rewrite E4. unfold st4, r.
      assert (E2 : scopes st2 = scopes st).
      { unfold st2. change (scopes (set_sstack ?a ?b)) with (scopes a).
        rewrite !scopes_cancel_ohandle. reflexivity. }
      destruct (s_called s).
      - assert (E3 : scopes (exit_drop_delayed (fst (fst (exit_called st2 k s exc))) k) = scopes st2).
        { unfold exit_drop_delayed.
          pose proof (same2_exit_called st2 k s exc) as [_ _ Ex _ _].
          destruct (delayed _) as [[h m]|]; [destruct (msg_eqb m (Some k))|]; cbn [scopes cancel_handle set_heap set_ready set_delayed];
            exact Ex. }
        rewrite E3. exact E2.
      - cbn [fst]. exact E2. }
    unfold get_scope. rewrite E. reflexivity. }
  assert (Q5 : qrel st4b st5).
  { assert (Qp : qrel st4b (put_scope st4b k new)).
    { apply qrel_put_scope.
      - rewrite Gs. intros H. exact H.
      - rewrite Gs. intros H0 Hf. cbn [new s_called s_calls] in *.
        assert (s_calls s = 0) by (apply H0; exact Hf). lia. }
    destruct Qp as [m1 r1 h1 c1 l1 f1]. constructor; auto.
    - intros F Q L. unfold st5. cbn [g_leak set_g_leak].
      rewrite (l1 F Q L). cbn [Nat.add].
      destruct (s_called s) eqn:Ec.
      + apply Hfix; [|reflexivity].
        destruct Q4 as [_ _ _ _ _ f4]. destruct Q2 as [_ _ _ _ _ f2]. destruct S4b as [_ _ _ _ f4b].
        congruence.
      + assert (s_calls s = 0) by (rewrite <- Gs; apply Q; rewrite Gs; exact Ec). lia. }
  cbn [fst]. eapply qrel_trans; [exact Q04|]. eapply qrel_trans; [exact Q5|apply qrel_check_pending].
Qed.

(* ---------------- the coroutine / task layer *)
Ltac q2 := apply same2_qrel; sm2.

Lemma qrel_yield_out : forall k y st, qrel st (fst (fst (yield_out k y st))).
Proof.
  induction k as [|fr k IH]; intros y st; cbn [yield_out fst]; [apply qrel_refl|].
  destruct fr; try (specialize (IH y st); destruct (yield_out k y st) as [[st1 k1] y1]; exact IH).
  destruct y as [|f].
  - specialize (IH YNone st). destruct (yield_out k YNone st) as [[st1 k1] y1]. exact IH.
  - pose proof (qrel_mk_shield st f) as Q1. destruct (mk_shield st f) as [st1 o]. cbn [fst] in Q1.
    specialize (IH (YFut o) st1). destruct (yield_out k (YFut o) st1) as [[st2 k2] y2]. cbn [fst] in IH |- *.
    exact (qrel_trans _ _ _ Q1 IH).
Qed.

Lemma qrel_shield_proceed : forall st id last outer thr, qrel st (fst (fst (shield_proceed st id last outer thr))).
Proof.
  intros. unfold shield_proceed. destruct last as [m|]; [|apply qrel_refl].
  pose proof (qrel_reschedule_delayed st m) as Q1.
  destruct (reschedule_delayed st m) as [st1 ok]. cbn [fst] in Q1.
  destruct ok; cbn [fst]; [exact Q1|]. eapply qrel_trans; [exact Q1|q2].
Qed.

Lemma qrel_shield_resume : forall st id wt last v outer, qrel st (fst (fst (shield_resume st id wt last v outer))).
Proof.
  intros. unfold shield_resume.
  destruct wt as [| |f o]; try apply qrel_shield_proceed.
  assert (Q : qrel st (fst (fst (if fut_done st f
      then shield_proceed st id (cancel_msg_of v last) outer (fut_exc st f)
      else let '(st0, o0) := mk_shield st f in
           let '(st1, outer', y') := yield_out outer (YFut o0) st0 in
           (st1, FShield id (ShFut f o0) (cancel_msg_of v last) true :: outer', RYield y'))))).
  { destruct (fut_done st f); [apply qrel_shield_proceed|].
    pose proof (qrel_mk_shield st f) as Q1. destruct (mk_shield st f) as [st1 o1]. cbn [fst] in Q1.
    pose proof (qrel_yield_out outer (YFut o1) st1) as Q2.
    destruct (yield_out outer (YFut o1) st1) as [[st2 k2] y2]. cbn [fst] in Q2 |- *.
    exact (qrel_trans _ _ _ Q1 Q2). }
  destruct v as [[m| |]|]; first [exact Q|apply qrel_shield_proceed].
Qed.

Lemma qrel_resume_in : forall k v st, qrel st (fst (fst (resume_in k v st))).
Proof.
  induction k as [|fr k IH]; intros v st; cbn [resume_in fst]; [apply qrel_refl|].
  specialize (IH v st). destruct (resume_in k v st) as [[st1 k1] r1]. cbn [fst] in IH.
  destruct r1 as [v'|y|]; try exact IH.
  destruct fr; try exact IH.
  eapply qrel_trans; [exact IH|apply qrel_shield_resume].
Qed.

Lemma qrel_task_yield : forall st y, qrel st (task_yield st y).
Proof.
  intros st [|f]; unfold task_yield; [apply (qrel_call_soon st HStep); intros j Hj; discriminate|].
  set (st1 := set_t_waiter (add_cb st f CbWake) (Some f)).
  assert (Q1 : qrel st st1) by (unfold st1; q2).
  destruct (t_must st1); [|exact Q1].
  pose proof (qrel_fut_finish st1 f (FCanc (t_msg st1))) as Q2. unfold fut_cancel.
  destruct (fut_finish st1 f (FCanc (t_msg st1))) as [st2 ok]. cbn [fst] in Q2.
  destruct ok; [|exact (qrel_trans _ _ _ Q1 Q2)].
  eapply qrel_trans; [exact (qrel_trans _ _ _ Q1 Q2)|q2].
Qed.

Lemma qinv_same2 : forall st st', same2 st st' -> qinv st -> qinv st'.
Proof. intros. eapply qrel_inv; [apply same2_qrel; eassumption|assumption]. Qed.

Lemma qinv_do_yield : forall st wt y, qinv st -> qinv (do_yield st wt y).
Proof.
  intros st wt y H. unfold do_yield.
  pose proof (qrel_yield_out (FWait wt :: frames st) y st) as Q1.
  destruct (yield_out (FWait wt :: frames st) y st) as [[st1 k1] y1]. cbn [fst] in Q1.
  pose proof (qrel_task_yield (set_frames st1 k1) y1) as Q2.
  assert (I1 : qinv (set_frames st1 k1)) by (eapply qinv_same2; [|eapply qrel_inv; [exact Q1|exact H]]; sm2).
  eapply qinv_same2; [|eapply qrel_inv; [exact Q2|exact I1]]. sm2.
Qed.

Lemma qinv_exec : forall st p, qinv st -> qinv (exec st p).
Proof.
  intros st p H. destruct p; unfold exec.
  - eapply qinv_same2; [|exact H]; sm2.
  - eapply qinv_same2; [|exact H]; sm2.
  - destruct d.
    + apply qinv_do_yield. eapply qinv_same2; [|exact H]; sm2.
    + destruct (new_fut (emit st (EvStart id (time st)))) as [st1 f] eqn:E1.
      assert (I1 : qinv st1).
      { eapply qinv_same2; [|exact H]. unfold new_fut in E1. inversion E1. sm2. }
      pose proof (qrel_call_at st1 (time st1 + S d) (HSetRes f) ltac:(intros j Hj; discriminate)) as Q2.
      destruct (call_at st1 (time st1 + S d) (HSetRes f)) as [st2 h]. cbn [fst] in Q2.
      apply qinv_do_yield. eapply qrel_inv; eauto.
  - destruct (new_fut (emit st (EvStart id (time st)))) as [st1 f] eqn:E1.
    assert (I1 : qinv st1).
    { eapply qinv_same2; [|exact H]. unfold new_fut in E1. inversion E1. sm2. }
    pose proof (qrel_call_at st1 (time st1 + d) (HSetExc f) ltac:(intros j Hj; discriminate)) as Q2.
    destruct (call_at st1 (time st1 + d) (HSetExc f)) as [st2 h]. cbn [fst] in Q2.
    apply qinv_do_yield. eapply qrel_inv; eauto.
  - apply qinv_do_yield. eapply qinv_same2; [|exact H]; sm2.
  - apply qinv_do_yield. eapply qinv_same2; [|exact H]; sm2.
  - eapply qinv_same2; [|exact H]; sm2.
  - pose proof (qrel_scope_enter st pre (match delay with Some d => Some (time st + d) | None => None end)) as Q.
    destruct (scope_enter st pre _) as [st1 sid]. cbn [fst] in Q.
    eapply qinv_same2; [|eapply qrel_inv; [exact Q|exact H]]. sm2.
  - eapply qinv_same2; [|exact H]; sm2.
  - destruct (nth_scope st k) as [sid|].
    + eapply qinv_same2; [|eapply qrel_inv; [apply (qrel_scope_cancel st sid)|exact H]]. sm2.
    + eapply qinv_same2; [|exact H]; sm2.
  - destruct (nth_scope st k) as [sid|].
    + eapply qinv_same2; [|eapply qrel_inv; [apply (qrel_scope_reschedule st sid)|exact H]]. sm2.
    + eapply qinv_same2; [|exact H]; sm2.
  - eapply qinv_same2; [|exact H]; sm2.
Qed.

Ltac keep H := eapply qinv_same2; [|exact H]; sm2.

Lemma qinv_finish : forall st r, qinv st -> qinv (finish st r).
Proof. intros st [e|] H; unfold finish; [keep H|]. destruct (t_must st); keep H. Qed.

Lemma qinv_ret : forall st, qinv st -> qinv (ret st).
Proof.
  intros st H. unfold ret. destruct (frames st) as [|fr k]; [apply qinv_finish; exact H|].
  assert (H0 : qinv (set_frames st k)) by keep H.
  destruct fr; try keep H.
  - pose proof (qrel_scope_exit (set_frames st k) sid None) as Q.
    destruct (scope_exit (set_frames st k) sid None) as [st1 sw]. cbn [fst] in Q.
    assert (I1 : qinv st1) by (eapply qrel_inv; eauto).
    destruct kind; [keep I1|]. destruct (s_caught (get_scope st1 sid)); keep I1.
  - destruct y; [|keep H].
    assert (I1 : qinv (check_pending (set_frames st k))) by (eapply qrel_inv; [apply qrel_check_pending|exact H0]).
    keep I1.
Qed.

Lemma qinv_raise : forall st e, qinv st -> qinv (raise_ st e).
Proof.
  intros st e H. unfold raise_. destruct (frames st) as [|fr k]; [apply qinv_finish; exact H|].
  assert (H0 : qinv (set_frames st k)) by keep H.
  destruct fr; try keep H.
  - pose proof (qrel_scope_exit (set_frames st k) sid (Some e)) as Q.
    destruct (scope_exit (set_frames st k) sid (Some e)) as [st1 sw]. cbn [fst] in Q.
    assert (I1 : qinv st1) by (eapply qrel_inv; eauto).
    destruct kind; [destruct sw; keep I1|]. destruct (s_caught (get_scope st1 sid)); keep I1.
  - destruct y; [|keep H].
    assert (I1 : qinv (check_pending (set_frames st k))) by (eapply qrel_inv; [apply qrel_check_pending|exact H0]).
    keep I1.
  - destruct (catches c e); keep H.
Qed.

Lemma qinv_wake : forall st wt v, qinv st -> qinv (wake st wt v).
Proof.
  intros st wt v H. unfold wake. destruct wt as [id|id|id f h]; destruct v as [e|]; try keep H.
  - destruct e as [m| |]; try keep H.
    pose proof (qrel_reschedule_delayed st m) as Q.
    destruct (reschedule_delayed st m) as [st1 ok]. cbn [fst] in Q.
    assert (I1 : qinv st1) by (eapply qrel_inv; eauto). destruct ok; keep I1.
  - assert (I1 : qinv (cancel_handle st h)) by (eapply qrel_inv; [apply qrel_cancel_handle|exact H]). keep I1.
  - assert (I1 : qinv (cancel_handle st h)) by (eapply qrel_inv; [apply qrel_cancel_handle|exact H]). keep I1.
Qed.

Lemma same2_observe_resumption : forall st k v, same2 st (observe_resumption st k v).
Proof.
  intros. unfold observe_resumption.
  destruct (existsb is_shield k); [destruct v; sm2|].
  destruct k as [|[| | | | |[]] k']; try sm2;
    (destruct v as [[[j|]| |]|]; try sm2; destruct (first_called st (sstack st));
     [destruct (g_owed (set_g_late st true)); sm2|destruct (g_owed st); sm2]).
Qed.

Lemma qinv_task_step : forall st v, qinv st -> qinv (task_step st v).
Proof.
  intros st v H. unfold task_step.
  set (p := if t_must st then _ else _).
  assert (P : same2 st (fst p)) by (unfold p; destruct (t_must st); sm2).
  destruct p as [st0 v0]. cbn [fst] in P.
  set (st1 := set_md (set_t_waiter st0 None) (MRun CRet)).
  assert (I1 : qinv st1) by (eapply qinv_same2; [|eapply qinv_same2; [exact P|exact H]]; sm2).
  pose proof (qrel_resume_in (frames st1) v0 st1) as Q2.
  destruct (resume_in (frames st1) v0 st1) as [[st2 k2] r2]. cbn [fst] in Q2.
  assert (I2 : qinv st2) by (eapply qrel_inv; eauto).
  destruct r2 as [v'|y|].
  - assert (I3 : qinv (observe_resumption (set_frames st2 k2) k2 v')).
    { eapply qinv_same2; [apply same2_observe_resumption|]. keep I2. }
    destruct k2 as [|fr k']; [keep I3|]. destruct fr; try keep I3.
    + destruct v'; keep I3.
    + apply qinv_wake. keep I3.
  - assert (I3 : qinv (task_yield (set_frames st2 k2) y)).
    { eapply qrel_inv; [apply qrel_task_yield|]. keep I2. }
    keep I3.
  - keep I2.
Qed.

Lemma qinv_run_cb : forall st f c, qinv st -> qinv (run_cb st f c).
Proof.
  intros st f c H. unfold run_cb. destruct c as [|outer|inner].
  - apply qinv_task_step. exact H.
  - destruct (f_st (get_fut st outer)); try exact H;
      (destruct (f_st (get_fut st f));
       [exact (qrel_inv _ _ (qrel_fut_finish st outer FRes) H)
       |exact (qrel_inv _ _ (qrel_fut_finish st outer FRes) H)
       |exact (qrel_inv _ _ (qrel_fut_finish st outer (FCanc None)) H)
       |exact (qrel_inv _ _ (qrel_fut_finish st outer FExc) H)]).
  - destruct (fut_done st inner); [exact H|]. keep H.
Qed.

Lemma qinv_run_handle : forall st h rd, qinv st -> ready st = h :: rd -> h_canc h = false ->
  qinv (run_handle (set_ready st rd) (h_kind h)).
Proof.
  intros st h rd H Hr Hc.
  assert (Hh : hk_ok st h) by (destruct H as [Qr _ _ _ _]; rewrite Hr in Qr; inversion Qr; assumption).
  assert (H0 : qinv (set_ready st rd)).
  { destruct H as [Qr Qh Qc Ql Qf]. constructor; auto. cbn [ready set_ready]. rewrite Hr in Qr. inversion Qr; assumption. }
  destruct (h_kind h) eqn:Ek; cbn [run_handle].
  - apply qinv_task_step; exact H0.
  - apply qinv_run_cb; exact H0.
  - destruct (f_st (get_fut (set_ready st rd) f)); try exact H0;
      exact (qrel_inv _ _ (qrel_fut_finish _ f FRes) H0).
  - exact (qrel_inv _ _ (qrel_fut_finish _ f FExc) H0).
  - exact (qrel_inv _ _ (qrel_scope_cancel _ s) H0).
  - apply (qrel_inv _ _ (qrel_deliver (set_ready st rd) s (Hh s Ek)) H0).
  - destruct (task_done (set_ready st rd)); [exact H0|].
    eapply qrel_inv; [apply qrel_task_cancel|]. eapply qrel_inv; [apply qrel_task_uncancel|exact H0].
  - keep H0.
  - destruct (task_done (set_ready st rd)); [exact H0|].
    eapply qrel_inv; [apply qrel_task_cancel|]. unfold note_ext.
    destruct (in_shield _); keep H0.
  - destruct (nth_scope (set_ready st rd) k) as [sid|]; [|exact H0].
    eapply qinv_same2; [|exact (qrel_inv _ _ (qrel_scope_cancel _ sid) H0)]. sm2.
Qed.

(* ---------------- _run_once *)
Lemma inject_ok : forall (P : handle -> Prop) it c rd nh,
  Forall P rd -> (forall h, (forall j, h_kind h <> HDeliver j) -> P h) -> Forall P (fst (inject it c rd nh)).
Proof.
  induction c as [|[[n front] act] c IH]; intros rd nh Hr HP; cbn [inject]; [exact Hr|].
  destruct (n =? it); [|apply IH; assumption].
  assert (Hn : P (mkH nh (match act with 0 => HExt | S k => HActor k end) false))
    by (apply HP; intros j; destruct act; discriminate).
  apply IH; [|exact HP]. destruct front.
  - constructor; [exact Hn|exact Hr].
  - apply Forall_app; split; [exact Hr|constructor; [exact Hn|constructor]].
Qed.

Lemma qinv_begin_iter : forall st, qinv st -> qinv (begin_iter st).
Proof.
  intros st [Qr Qh Qc Ql Qf]. unfold begin_iter.
  set (st0 := set_iter st (S (iter st))).
  pose proof (inject_ok (hk_ok st) (S (iter st)) (ctrl st0) (ready st0) (nexth st0) Qr
                ltac:(intros h Hk k Hk'; exfalso; exact (Hk k Hk'))) as Hinj.
  destruct (inject (S (iter st)) (ctrl st0) (ready st0) (nexth st0)) as [rd nh]. cbn [fst] in Hinj.
  pose proof (drop_cancelled_heads_ok (length (heap (set_nexth (set_ready st0 rd) nh)))
                (heap (set_nexth (set_ready st0 rd) nh)) Qh) as Hdrop.
  set (hp := drop_cancelled_heads _ _) in *.
  set (st1 := set_heap (set_nexth (set_ready st0 rd) nh) hp).
  assert (I1 : qinv st1) by (constructor; assumption).
  assert (Fin : forall st2, same2 st1 st2 -> qinv
     (let '(hp', rd') := move_due (length hp) (time st2) hp (ready st2) in
      set_todo (set_ready (set_heap st2 hp') rd') (length rd'))).
  { intros st2 [r2 h2 s2 l2 f2].
    pose proof (move_due_ok (length hp) (time st2) hp (ready st2) (hk_ok st) Hdrop
                  ltac:(rewrite r2; exact Hinj) ltac:(intros t Ht k Hk; exfalso; exact (Ht k Hk))) as [Mh Mr].
    destruct (move_due (length hp) (time st2) hp (ready st2)) as [hp' rd']. cbn [fst snd] in Mh, Mr.
    constructor.
    - cbn [ready set_todo set_ready]. eapply Forall_impl; [|exact Mr].
      intros h Hh k Hk. unfold called, get_scope. cbn [scopes set_todo set_ready set_heap]. rewrite s2. exact (Hh k Hk).
    - exact Mh.
    - intros k. unfold get_scope. cbn [scopes set_todo set_ready set_heap]. rewrite s2. apply Qc.
    - cbn [g_leak set_todo set_ready set_heap]. rewrite l2. exact Ql.
    - cbn [fixF set_todo set_ready set_heap]. rewrite f2. exact Qf. }
  destruct (ready st1) as [|h0 rd0] eqn:Er; destruct hp as [|t0 hp0] eqn:Eh.
  - keep I1.
  - apply Fin. sm2.
  - apply Fin. sm2.
  - destruct (negb (spinK st1 =? 0) && (spinK st1 <=? S (spin st1))); apply Fin; sm2.
Qed.

Theorem qinv_step : forall st, qinv st -> qinv (step st).
Proof.
  intros st H. unfold step. destruct (md st) as [c| |r|] eqn:Hm; try exact H.
  - destruct c as [p| |e]; [apply qinv_exec|apply qinv_ret|apply qinv_raise]; exact H.
  - destruct (todo st) as [|n]; [apply qinv_begin_iter; exact H|].
    unfold run_next. assert (H1 : qinv (set_todo st n)) by keep H.
    destruct (ready (set_todo st n)) as [|h rd] eqn:Er; [exact H1|].
    destruct (h_canc h) eqn:Ec.
    + destruct H1 as [Qr Qh Qc Ql Qf]. constructor; auto. cbn [ready set_ready]. rewrite Er in Qr. inversion Qr; assumption.
    + apply (qinv_run_handle (set_todo st n) h rd H1 Er Ec).
Qed.

Lemma qinv_run_steps : forall fuel st, qinv st -> qinv (run_steps fuel st).
Proof.
  induction fuel as [|fu IH]; intros st H; simpl; [exact H|].
  destruct (md st); try exact H; apply IH; apply qinv_step; exact H.
Qed.

Lemma qinv_push_timers : forall ts st, qinv st -> qinv (push_timers ts st).
Proof.
  induction ts as [|t ts IH]; intros st H; simpl; [exact H|].
  apply IH. eapply qrel_inv; [apply (qrel_call_at st t HExt); intros j Hj; discriminate|exact H].
Qed.

Lemma qinv_init : forall fb p timers turns k, qinv (init fx fb p timers turns k).
Proof.
  intros. unfold init. apply qinv_push_timers. constructor.
  - constructor; [|constructor]. intros j Hj. discriminate.
  - constructor.
  - intros j _. unfold get_scope. cbn. destruct j; reflexivity.
  - reflexivity.
  - reflexivity.
Qed.

Lemma qinv_reachable : forall fb p timers turns k fuel, qinv (run_steps fuel (init fx fb p timers turns k)).
Proof. intros. apply qinv_run_steps. apply qinv_init. Qed.
End Fx.

(* with the repair of F1, for every program, controller schedule and number of steps: no scope has left a request
   behind (and, in both states of the code, a scope on which cancel() was never called has issued none) *)
Theorem leak_zero_reachable : forall fb p timers turns k fuel,
  g_leak (run_steps fuel (init true fb p timers turns k)) = 0.
Proof. intros. exact (q_leak _ _ (qinv_reachable true fb p timers turns k fuel) eq_refl). Qed.

Theorem uncalled_scope_issued_nothing : forall fx fb p timers turns k fuel j,
  let st := run_steps fuel (init fx fb p timers turns k) in
  s_called (get_scope st j) = false -> s_calls (get_scope st j) = 0.
Proof. intros fx fb p timers turns k fuel j. exact (q_calls _ _ (qinv_reachable fx fb p timers turns k fuel) j). Qed.

(* hence, repaired: once no scope is active, cancelling() = accepted controller cancels + uncancel() floor hits *)
Theorem no_leftover_repaired : forall fb p timers turns k fuel,
  let st := run_steps fuel (init true fb p timers turns k) in
  (forall s, In s (scopes st) -> s_host s = false) ->
  t_cnt st = g_ext st + g_floor st.
Proof.
  intros fb p timers turns k fuel st H.
  pose proof (no_leftover_when_balanced true fb p timers turns k fuel H) as A. fold st in A.
  unfold st in *. rewrite leak_zero_reachable in A. rewrite A. rewrite Nat.add_0_r. reflexivity.
Qed.
