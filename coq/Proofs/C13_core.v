(* C13 core lemmas about CancelScope.__exit__ taken in isolation (valid for EVERY state, reachable or not). *)
From Coq Require Import ZArith List Bool Arith Lia.
From EN Require Import Conc.CancelScope.
Import ListNotations.

(* the while loop of __uncancel_task: every turn either decrements cancelling() or hits the floor *)
Lemma uncancel_loop_spec : forall calls cnt hostc fl c' cnt' fl' hit,
  uncancel_loop calls cnt hostc fl = (c', cnt', fl', hit) ->
  c' <= calls /\ fl <= fl' /\ cnt' + (calls - c') = cnt + (fl' - fl) /\ (hit = false -> c' = 0).
Proof.
  induction calls as [|c IH]; intros cnt hostc fl c' cnt' fl' hit H; simpl in H.
  - inversion H; subst. repeat split; lia.
  - destruct cnt as [|n].
    + destruct (0 <=? hostc) eqn:E.
      * inversion H; subst. repeat split; try lia; try discriminate.
      * apply IH in H. destruct H as (A & B & C & D). repeat split; try lia; try exact D.
    + destruct (n <=? hostc) eqn:E.
      * inversion H; subst. repeat split; try lia; try discriminate.
      * apply IH in H. destruct H as (A & B & C & D). repeat split; try lia; try exact D.
Qed.

Lemma exit_called_caught : forall st k s exc, s_caught s = false ->
  snd (exit_called st k s exc) = true -> exists m, exc = Some (ECancel m).
Proof.
  intros st k s exc Hc H. unfold exit_called in H.
  destruct exc as [[m| |]|]; simpl in H; try congruence. eauto.
Qed.

(* __exit__ returns True only if cancel() had been called on that very scope, and -- when the scope has never
   "caught" before (true of every scope that is still entered, see C13_inv) -- only for a CancelledError *)
Lemma scope_exit_true_cancelled : forall st k exc st' sw,
  scope_exit st k exc = (st', sw) -> sw = true -> s_caught (get_scope st k) = false ->
  s_called (get_scope st k) = true /\ exists m, exc = Some (ECancel m).
Proof.
  intros st k exc st' sw H Hsw Hc. unfold scope_exit in H.
  destruct (negb (s_host (get_scope st k))); [inversion H; congruence|].
  destruct (s_called (get_scope st k)) eqn:Ec.
  - split; [reflexivity|].
    match type of H with context [exit_takeback ?a ?b ?c] => destruct (exit_takeback a b c) as [stx cx] end.
    inversion H as [[H1 H2]]. subst sw. eapply exit_called_caught; eauto.
  - match type of H with context [exit_takeback ?a ?b ?c] => destruct (exit_takeback a b c) as [stx cx] end.
    inversion H as [[H1 H2]]. simpl in H2. congruence.
Qed.
