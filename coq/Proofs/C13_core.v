(* C13 core lemmas about CancelScope.__exit__ taken in isolation (valid for EVERY state, reachable or not). *)
From Coq Require Import ZArith List Bool Arith Lia.
From EN Require Import Conc.CancelScope.
Import ListNotations.

(* the while loop of __uncancel_task never leaves calls behind when it returns False *)
Lemma uncancel_loop_false : forall calls cnt hostc fl c' cnt' fl',
  uncancel_loop calls cnt hostc fl = (c', cnt', fl', false) -> c' = 0.
Proof.
  induction calls as [|c IH]; intros cnt hostc fl c' cnt' fl' H; simpl in H.
  - inversion H; reflexivity.
  - destruct cnt as [|n].
    + destruct (0 <=? hostc) eqn:E; [inversion H|]. eapply IH; eauto.
    + destruct (n <=? hostc) eqn:E; [inversion H|]. eapply IH; eauto.
Qed.

(* __exit__ returns True only if cancel() had been called on that very scope *)
Lemma scope_exit_true_called : forall st k exc st' sw,
  scope_exit st k exc = (st', sw) -> sw = true ->
  s_called (get_scope st k) = true \/ s_caught (get_scope st k) = true.
Proof.
  intros st k exc st' sw H Hsw. unfold scope_exit in H.
  destruct (s_called (get_scope st k)) eqn:Ec; [left; reflexivity|].
  right. inversion H; subst. assumption.
Qed.

(* ... and, when the scope has never "caught" before (true of every scope that is still entered, see C13_inv),
   only when it was given a CancelledError *)
Lemma scope_exit_true_cancelled : forall st k exc st' sw,
  scope_exit st k exc = (st', sw) -> sw = true -> s_caught (get_scope st k) = false ->
  s_called (get_scope st k) = true /\ exists m, exc = Some (ECancel m).
Proof.
  intros st k exc st' sw H Hsw Hc. unfold scope_exit in H.
  destruct (s_called (get_scope st k)) eqn:Ec.
  - split; [reflexivity|].
    destruct exc as [[m| |]|].
    + eauto.
    + destruct (delayed _) as [[h m']|]; [destruct (msg_eqb m' (Some k))|]; inversion H; subst; discriminate.
    + destruct (delayed _) as [[h m']|]; [destruct (msg_eqb m' (Some k))|]; inversion H; subst; discriminate.
    + destruct (delayed _) as [[h m']|]; [destruct (msg_eqb m' (Some k))|]; inversion H; subst; congruence.
  - inversion H; subst. congruence.
Qed.
