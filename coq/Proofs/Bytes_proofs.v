(* Lemmas about prefixb / find0 / find / overrun_remainder *)
From Coq Require Import ZArith List Bool Lia Arith.
From EN Require Import Lib.Bytes.
Import ListNotations.

Lemma bytes_eqb_eq a b : bytes_eqb a b = true <-> a = b.
Proof.
  revert b; induction a as [|x a IH]; intros [|y b]; simpl; try (split; congruence).
  rewrite andb_true_iff, N.eqb_eq, IH. split; [intros [-> ->]; reflexivity | intros H; inversion H; auto].
Qed.

Lemma bytes_eqb_refl a : bytes_eqb a a = true.
Proof. apply bytes_eqb_eq; reflexivity. Qed.

Lemma prefixb_spec p s : prefixb p s = true <-> exists t, s = p ++ t.
Proof.
  revert s; induction p as [|x p IH]; intros s; simpl.
  - split; [intros _; exists s; reflexivity | reflexivity].
  - destruct s as [|y s].
    + split; [discriminate | intros [t H]; discriminate].
    + rewrite andb_true_iff, N.eqb_eq, IH. split.
      * intros [-> [t ->]]. exists t; reflexivity.
      * intros [t H]. inversion H; subst. split; [reflexivity | exists t; reflexivity].
Qed.

Lemma prefixb_app p t : prefixb p (p ++ t) = true.
Proof. apply prefixb_spec; exists t; reflexivity. Qed.

Lemma prefixb_length p s : prefixb p s = true -> length p <= length s.
Proof. intros H; apply prefixb_spec in H as [t ->]; rewrite app_length; lia. Qed.

Lemma prefixb_app_l p s t : prefixb p s = true -> prefixb p (s ++ t) = true.
Proof. intros H; apply prefixb_spec in H as [u ->]. rewrite <- app_assoc. apply prefixb_app. Qed.

Lemma prefixb_app_inv p s t : length p <= length s -> prefixb p (s ++ t) = prefixb p s.
Proof.
  revert s; induction p as [|x p IH]; intros s Hl; simpl; [reflexivity|].
  destruct s as [|y s]; simpl in *; [lia|]. rewrite IH by lia. reflexivity.
Qed.

(* occurrence of sep at index j of s *)
Definition occ (sep s : bytes) (j : nat) : bool := prefixb sep (skipn j s).

Lemma occ_bound sep s j : sep <> [] -> occ sep s j = true -> j + length sep <= length s.
Proof.
  unfold occ; intros Hs H. apply prefixb_length in H. rewrite skipn_length in H.
  destruct sep; [congruence|]. simpl in *. lia.
Qed.

Lemma occ_app_l sep s t j : occ sep s j = true -> occ sep (s ++ t) j = true.
Proof.
  unfold occ; intros H.
  destruct (le_lt_dec j (length s)) as [Hj|Hj].
  - rewrite skipn_app. replace (j - length s) with 0 by lia. simpl. apply prefixb_app_l; exact H.
  - rewrite skipn_all2 in H by lia. destruct sep; [|discriminate]. reflexivity.
Qed.

Lemma occ_app_inv sep s t j : j + length sep <= length s -> occ sep (s ++ t) j = occ sep s j.
Proof.
  unfold occ; intros H. rewrite skipn_app. replace (j - length s) with 0 by lia. simpl.
  apply prefixb_app_inv. rewrite skipn_length. lia.
Qed.

Lemma find0_Some sep s i : find0 sep s = Some i -> occ sep s i = true /\ forall j, j < i -> occ sep s j = false.
Proof.
  revert i; induction s as [|x s IH]; intros i; simpl.
  - destruct (prefixb sep []) eqn:E; [|discriminate]. intros H; inversion H; subst. split; [exact E | intros; lia].
  - destruct (prefixb sep (x :: s)) eqn:E.
    + intros H; inversion H; subst. split; [exact E | intros; lia].
    + destruct (find0 sep s) as [k|] eqn:F; simpl; [|discriminate].
      intros H; inversion H; subst. destruct (IH k eq_refl) as [H1 H2]. split; [exact H1|].
      intros [|j] Hj; [exact E | apply H2; lia].
Qed.

Lemma find0_None sep s : find0 sep s = None -> forall j, occ sep s j = false.
Proof.
  induction s as [|x s IH]; simpl.
  - destruct (prefixb sep []) eqn:E; [discriminate|]. intros _ j. unfold occ. rewrite skipn_nil. exact E.
  - destruct (prefixb sep (x :: s)) eqn:E; [discriminate|].
    destruct (find0 sep s) eqn:F; simpl; [discriminate|]. intros _ [|j]; [exact E | apply IH; reflexivity].
Qed.

Lemma find0_first sep s i : occ sep s i = true -> (forall j, j < i -> occ sep s j = false) -> find0 sep s = Some i.
Proof.
  intros H1 H2. destruct (find0 sep s) as [k|] eqn:F.
  - apply find0_Some in F as [F1 F2].
    destruct (lt_eq_lt_dec k i) as [[Hlt| ->]|Hgt]; [|reflexivity|].
    + rewrite H2 in F1 by exact Hlt; discriminate.
    + rewrite F2 in H1 by exact Hgt; discriminate.
  - rewrite (find0_None _ _ F) in H1; discriminate.
Qed.

Lemma find0_app_l sep s t i : find0 sep s = Some i -> find0 sep (s ++ t) = Some i.
Proof.
  intros F. apply find0_Some in F as [F1 F2]. apply find0_first; [apply occ_app_l; exact F1|].
  intros j Hj.
  destruct sep as [|b sep']; [specialize (F2 j Hj); unfold occ in F2; simpl in F2; discriminate|].
  assert (Hb : i + length (b :: sep') <= length s) by (apply occ_bound; [discriminate | exact F1]).
  rewrite occ_app_inv by lia. apply F2; exact Hj.
Qed.

Lemma skipn_skipn {X} (a b : nat) (l : list X) : skipn a (skipn b l) = skipn (b + a) l.
Proof. revert l; induction b as [|b IH]; intros l; simpl; [reflexivity|]. destruct l; [rewrite skipn_nil; reflexivity | apply IH]. Qed.

(* find with a start offset *)
Lemma find_Some sep s off i :
  find sep s off = Some i -> off <= i /\ occ sep s i = true /\ forall j, off <= j < i -> occ sep s j = false.
Proof.
  unfold find. destruct (Nat.ltb_spec (length s) off) as [|Hle]; [discriminate|].
  destruct (find0 sep (skipn off s)) as [k|] eqn:F; simpl; [|discriminate].
  intros H; inversion H; subst. apply find0_Some in F as [F1 F2]. unfold occ in *.
  rewrite skipn_skipn in F1. split; [lia|]. split; [exact F1|].
  intros j [Hj1 Hj2]. specialize (F2 (j - off)). rewrite skipn_skipn in F2.
  replace (off + (j - off)) with j in F2 by lia. apply F2. lia.
Qed.

Lemma find_None sep s off : off <= length s -> find sep s off = None -> forall j, off <= j -> occ sep s j = false.
Proof.
  unfold find. intros Hle. destruct (Nat.ltb_spec (length s) off) as [|_]; [lia|].
  destruct (find0 sep (skipn off s)) eqn:F; simpl; [discriminate|]. intros _ j Hj.
  pose proof (find0_None _ _ F (j - off)) as H. unfold occ in *. rewrite skipn_skipn in H.
  replace (off + (j - off)) with j in H by lia. exact H.
Qed.

(* when nothing occurs before off, searching from off is searching from 0 *)
Lemma find_eq_find0 sep s off :
  off <= length s -> (forall j, j < off -> occ sep s j = false) -> find sep s off = find0 sep s.
Proof.
  intros Hle Hno. destruct (find sep s off) as [i|] eqn:F.
  - apply find_Some in F as (F0 & F1 & F2). symmetry. apply find0_first; [exact F1|].
    intros j Hj. destruct (le_lt_dec off j); [apply F2; lia | apply Hno; lia].
  - pose proof (find_None _ _ _ Hle F) as H. destruct (find0 sep s) as [k|] eqn:G; [|reflexivity].
    apply find0_Some in G as [G1 _]. destruct (le_lt_dec off k); [rewrite H in G1 by lia | rewrite Hno in G1 by lia]; discriminate.
Qed.

Lemma find0_occ_none sep s : (forall j, occ sep s j = false) -> find0 sep s = None.
Proof.
  intros H. destruct (find0 sep s) as [k|] eqn:F; [|reflexivity].
  apply find0_Some in F as [F1 _]. rewrite H in F1; discriminate.
Qed.

Lemma firstn_app_le {X} n (a b : list X) : n <= length a -> firstn n (a ++ b) = firstn n a.
Proof. intros H. rewrite firstn_app. replace (n - length a) with 0 by lia. simpl. apply app_nil_r. Qed.

Lemma skipn_app_le {X} n (a b : list X) : n <= length a -> skipn n (a ++ b) = skipn n a ++ b.
Proof. intros H. rewrite skipn_app. replace (n - length a) with 0 by lia. reflexivity. Qed.

Lemma strip_to_sep_prefix_len sep r : length (strip_to_sep_prefix sep r) <= length r.
Proof.
  induction r as [|x r IH]; simpl; [lia|].
  destruct (bytes_eqb _ _); simpl; lia.
Qed.

Lemma overrun_remainder_len sep buf c : length (overrun_remainder sep buf c) <= length buf - c.
Proof.
  unfold overrun_remainder. destruct sep as [|b sep']; [rewrite skipn_length; lia|].
  destruct (bytes_eqb _ _).
  - rewrite !skipn_length. lia.
  - pose proof (strip_to_sep_prefix_len (b :: sep') (skipn c buf)) as H. rewrite skipn_length in H. exact H.
Qed.

Lemma occ_firstn sep s j : occ sep s j = true -> firstn (length sep) (skipn j s) = sep.
Proof.
  unfold occ. intros H. apply prefixb_spec in H as [t ->]. rewrite firstn_app_le by lia.
  apply firstn_all.
Qed.

Lemma overrun_remainder_occ sep buf c :
  sep <> [] -> occ sep buf c = true -> overrun_remainder sep buf c = skipn (c + length sep) buf.
Proof.
  intros Hne H. unfold overrun_remainder. destruct sep as [|b sep'] eqn:Es; [congruence|]. rewrite <- Es in *.
  rewrite (occ_firstn _ _ _ H). rewrite bytes_eqb_refl. apply skipn_skipn.
Qed.

(* ---- the remainder kept after a "separator not found" overrun ---- *)
Definition sep_pfx (sep x : bytes) : bool := bytes_eqb (firstn (length sep) x) (firstn (length x) sep).

Lemma strip_spec sep r :
  exists k, k <= length r /\ strip_to_sep_prefix sep r = skipn k r /\
            forall j, j < k -> sep_pfx sep (skipn j r) = false.
Proof.
  induction r as [|x r IH].
  - exists 0. repeat split; [simpl; lia | intros; lia].
  - cbn [strip_to_sep_prefix]. fold (sep_pfx sep (x :: r)). destruct (sep_pfx sep (x :: r)) eqn:E.
    + exists 0. repeat split; [simpl; lia | intros; lia].
    + destruct IH as (k & Hk & Hs & Hj). exists (S k). repeat split; [simpl; lia | exact Hs |].
      intros [|j] Hlt; [exact E | apply Hj; lia].
Qed.

(* a proper prefix of an occurrence is a separator prefix *)
Lemma sep_pfx_of_occ sep (s : bytes) q m :
  occ sep s q = true -> m < length sep -> sep_pfx sep (firstn m (skipn q s)) = true.
Proof.
  intros Ho Hm. unfold occ in Ho. apply prefixb_spec in Ho as [t Ht]. rewrite Ht.
  rewrite firstn_app_le by lia. unfold sep_pfx. rewrite firstn_length, Nat.min_l by lia.
  rewrite firstn_firstn. rewrite Nat.min_r by lia. apply bytes_eqb_refl.
Qed.

Lemma overrun_remainder_ne sep buf c :
  sep <> [] ->
  overrun_remainder sep buf c =
    if bytes_eqb (firstn (length sep) (skipn c buf)) sep then skipn (length sep) (skipn c buf)
    else strip_to_sep_prefix sep (skipn c buf).
Proof. intros H. unfold overrun_remainder. destruct sep; [congruence | reflexivity]. Qed.
