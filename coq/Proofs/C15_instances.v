(* Closed instances of requests_exactly_once_in_order (and the timeout theorem) for the separator framers. *)
From Coq Require Import List Arith Bool Lia.
From EN Require Import Lib.Bytes Frame.Framer Frame.ReadUntil Frame.BufReadUntil Stream.Consumer Stream.SpecDecode
  Stream.Endpoint Stream.EndpointSpec Conc.StreamServer Conc.StreamServerSpec Proofs.C15_proofs
  Proofs.C03_readuntil Proofs.C03_bufreaduntil.
Import ListNotations.

Lemma ru_requests_in_order :
  forall (P : Type) (sep : bytes) (limit : nat) (keep_end : bool) (dec : decoder P) (bufsize : nat),
    sep <> [] -> 0 < bufsize ->
  forall (oc : nat) (acts0 : list hact) (o : speer),
    safe sep limit (sstream_of o) ->
    let f := client_coroutine (copy_machine (ru_framer sep limit keep_end dec) bufsize) oc acts0
                              (cinit (ru_framer sep limit keep_end dec)) o in
    (exists n, got_log (ulog (f_user f)) = firstn n (fst (spec_events sep keep_end dec (sstream_of o))))
    /\ (f_eof f = true -> got_log (ulog (f_user f)) = fst (spec_events sep keep_end dec (sstream_of o))).
Proof.
  intros P sep limit keep_end dec bufsize Hs Hb oc acts0 o HG.
  exact (client_coroutine_req_rel _ _ _ _ _ (ru_consumer_ok_rel sep limit keep_end dec bufsize Hs Hb) _
           (ru_R_init sep limit keep_end dec Hs) oc acts0 o HG).
Qed.

Lemma bru_requests_in_order :
  forall (P : Type) (sep : bytes) (limit : nat) (keep_end : bool) (dec : decoder P) (sizehint : nat),
    sep <> [] -> length sep + 1 <= limit ->
  forall (oc : nat) (acts0 : list hact) (o : speer),
    safe sep (limit - 1 - length sep) (sstream_of o) ->
    let f := client_coroutine (buf_machine (bru_framer sep limit keep_end dec) sizehint) oc acts0
                              (bcinit (bru_framer sep limit keep_end dec)) o in
    (exists n, got_log (ulog (f_user f)) = firstn n (fst (spec_events sep keep_end dec (sstream_of o))))
    /\ (f_eof f = true -> got_log (ulog (f_user f)) = fst (spec_events sep keep_end dec (sstream_of o))).
Proof.
  intros P sep limit keep_end dec sizehint Hs Hl oc acts0 o HG.
  exact (client_coroutine_req_rel _ _ _ _ _ (bru_consumer_ok_rel sep limit keep_end dec sizehint Hs Hl) _
           (bru_R_init sep limit keep_end dec Hs) oc acts0 o HG).
Qed.

From EN Require Import Proofs.C03_buffixed.

Lemma bfx_requests_in_order :
  forall (P : Type) (size : nat) (dec : decoder P) (sizehint : nat), 1 <= size ->
  forall (oc : nat) (acts0 : list hact) (o : speer),
    let f := client_coroutine (buf_machine (bfx_framer size dec) sizehint) oc acts0 (bcinit (bfx_framer size dec)) o in
    (exists n, got_log (ulog (f_user f)) = firstn n (fst (fx_events size dec (sstream_of o))))
    /\ (f_eof f = true -> got_log (ulog (f_user f)) = fst (fx_events size dec (sstream_of o))).
Proof.
  intros P size dec sizehint Hs oc acts0 o.
  exact (client_coroutine_req_rel _ _ _ _ _ (bfx_consumer_ok_rel size dec sizehint Hs) _
           (bfx_R_init size dec sizehint Hs) oc acts0 o I).
Qed.
