(* C11: the budget is carried through the loops above _retry: endpoint receive loop (k partial reads),
   lock_with_timeout + receive (client), the client iterator (several packets), send_all_from_iterable. *)
From Coq Require Import ZArith List Bool Lia.
From EN Require Import Lib.Bytes IO.Retry IO.SendAll IO.SendMsg IO.Budget Proofs.C11_retry.
Import ListNotations.
Open Scope Z_scope.

(* ---- time spent in a _retry call is at least the time its waits took, when call costs are not negative *)
Section RetryDt.
  Variables St R : Type.
  Variable cb : St -> cbres R * St * Z.
  Variable Inv : St -> Prop.
  Hypothesis cb_inv : forall st, Inv st -> 0 <= snd (cb st) /\ Inv (snd (fst (cb st))).

  Lemma retry_loop_dt_ge : forall fuel ri T st sels,
    Inv st ->
    sum_wait_el (rr_waits (retry_loop cb fuel ri T st sels)) <= rr_dt (retry_loop cb fuel ri T st sels)
    /\ Inv (rr_st (retry_loop cb fuel ri T st sels)).
  Proof.
    induction fuel as [|f IH]; intros ri T st sels HI; simpl.
    - split; [lia|assumption].
    - pose proof (cb_inv st HI) as [Hc Hi].
      destruct (cb st) as [[r st1] cost]. simpl in Hc, Hi.
      destruct r as [v|w|c]; simpl; try (split; [lia|assumption]).
      destruct (tmo_le0 T); simpl; [split; [lia|assumption]|].
      destruct (next_sel sels) as [a sels1].
      destruct (if negb (tmo_leb T ri) then ri else T) as [wz|].
      + destruct (negb (sa_ready a) && negb (negb (tmo_leb T ri))); simpl.
        * split; [lia|assumption].
        * destruct (IH ri (recompute T (sa_el a)) st1 sels1 Hi) as [A B]. split; [lia|assumption].
      + destruct (sa_ready a); simpl.
        * destruct (IH ri T st1 sels1 Hi) as [A B]. split; [lia|assumption].
        * split; [lia|assumption].
  Qed.

  Lemma retry_dt_ge : forall fuel ri T st sels,
    Inv st ->
    sum_wait_el (rr_waits (retry cb fuel ri T st sels)) <= rr_dt (retry cb fuel ri T st sels)
    /\ Inv (rr_st (retry cb fuel ri T st sels)).
  Proof.
    intros. unfold retry. destruct (tmo_neg T); simpl; [split; [lia|assumption]|].
    apply retry_loop_dt_ge; assumption.
  Qed.
End RetryDt.

(* ---- receiving socket: call costs are not negative *)
Definition recv_cost (a : recvans) : Z := match a with RData _ c => c | RBlock _ c => c | RErr c => c end.
Definition recv_costs_ok (s : list recvans) : Prop := Forall (fun a => 0 <= recv_cost a) s.

Lemma sock_recv_inv : forall bufsize s,
  recv_costs_ok s -> 0 <= snd (sock_recv bufsize s) /\ recv_costs_ok (snd (fst (sock_recv bufsize s))).
Proof.
  intros bufsize s H. destruct s as [|a rest]; simpl.
  - split; [lia|constructor].
  - inversion H as [|? ? Ha Hr]; subst.
    destruct a as [b c|w c|c]; simpl in *.
    + destruct (Nat.ltb bufsize (length b)); simpl.
      * split; [assumption|]. constructor; [simpl; lia|assumption].
      * split; assumption.
    + split; assumption.
    + split; assumption.
Qed.

Lemma receive_loop_step : forall F ri N bufsize f T buf s sels,
  receive_loop F ri N bufsize (S f) T buf false s sels =
  let r := retry (sock_recv bufsize) F ri T s sels in
  match rr_out r with
  | ROk chunk _ =>
      match chunk with
      | [] => rv_add (rr_dt r) (rr_waits r) (receive_loop F ri N bufsize f T buf true (rr_st r) (rr_sels r))
      | _ :: _ =>
          match cons_next N buf (Some chunk) with
          | (Some p, buf') => mk_rvres (RvPkt p) buf' false (rr_st r) (rr_sels r) (rr_dt r) (rr_waits r)
          | (None, buf') =>
              if tmo_pos T
              then rv_add (rr_dt r) (rr_waits r)
                          (receive_loop F ri N bufsize f (recompute T (rr_dt r)) buf' false (rr_st r) (rr_sels r))
              else if Nat.ltb (length chunk) bufsize
              then mk_rvres (RvExc E_TIMEOUT) buf' false (rr_st r) (rr_sels r) (rr_dt r) (rr_waits r)
              else rv_add (rr_dt r) (rr_waits r) (receive_loop F ri N bufsize f T buf' false (rr_st r) (rr_sels r))
          end
      end
  | o => mk_rvres (rout_exc o) buf false (rr_st r) (rr_sels r) (rr_dt r) (rr_waits r)
  end.
Proof. reflexivity. Qed.

Lemma receive_loop_eof : forall F ri N bufsize f T buf s sels,
  receive_loop F ri N bufsize f T buf true s sels = mk_rvres (RvExc E_EOF) buf true s sels 0 [].
Proof. intros. destruct f; reflexivity. Qed.

(* op_budget for recv_packet: over k partial reads the waits stay inside T *)
Lemma receive_loop_budget : forall F ri N bufsize fuel t buf eof s sels,
  ri_ok ri -> recv_costs_ok s ->
  budget_ok t (rv_waits (receive_loop F ri N bufsize fuel (Some t) buf eof s sels)).
Proof.
  intros F ri N bufsize fuel. induction fuel as [|f IH]; intros t buf eof s sels Hri Hc.
  - destruct eof; simpl; exact I.
  - destruct eof; [rewrite receive_loop_eof; exact I|].
    rewrite receive_loop_step. cbv zeta.
    set (r := retry (sock_recv bufsize) F ri (Some t) s sels).
    pose proof (retry_budget_proof _ _ (sock_recv bufsize) F ri t s sels Hri) as HB. fold r in HB.
    pose proof (retry_dt_ge _ _ (sock_recv bufsize) recv_costs_ok (sock_recv_inv bufsize) F ri (Some t) s sels Hc) as [HD HI].
    fold r in HD, HI.
    destruct (rr_out r) as [chunk T1| |c|]; try exact HB.
    destruct chunk as [|b ch].
    + rewrite receive_loop_eof. simpl. rewrite app_nil_r. exact HB.
    + destruct (cons_next _ _ (Some _)) as [[p|] buf']; [exact HB|].
      destruct (tmo_pos (Some t)) eqn:Ep.
      * simpl. apply budget_ok_app; [exact HB|].
        apply budget_ok_mono with (t := t - rr_dt r); [lia|].
        apply budget_ok_max. apply IH; assumption.
      * destruct (Nat.ltb (length (b :: ch)) bufsize); [exact HB|].
        simpl. apply budget_ok_app; [exact HB|].
        unfold tmo_pos, tmo_le0 in Ep. apply negb_false_iff in Ep. apply Z.leb_le in Ep.
        rewrite (budget_ok_nonpos t _ Ep HB). simpl.
        replace (t - 0) with t by lia. apply IH; assumption.
Qed.

Lemma receive_budget : forall F ri N bufsize fuel t buf eof s sels,
  ri_ok ri -> recv_costs_ok s ->
  budget_ok t (rv_waits (receive F ri N bufsize fuel (Some t) buf eof s sels)).
Proof.
  intros. unfold receive. destruct (cons_next N buf None) as [[p|] buf']; [exact I|].
  apply receive_loop_budget; assumption.
Qed.

(* a zero timeout never waits, however many reads the packet needs *)
Lemma receive_loop_zero : forall F ri N bufsize fuel buf eof s sels,
  rv_waits (receive_loop F ri N bufsize fuel (Some 0) buf eof s sels) = [].
Proof.
  intros F ri N bufsize fuel. induction fuel as [|f IH]; intros buf eof s sels.
  - destruct eof; reflexivity.
  - destruct eof; [rewrite receive_loop_eof; reflexivity|].
    rewrite receive_loop_step. cbv zeta.
    pose proof (retry_zero_no_wait _ _ (sock_recv bufsize) F ri s sels) as HZ.
    set (r := retry (sock_recv bufsize) F ri (Some 0) s sels) in *.
    destruct (rr_out r) as [chunk T1| |c|]; try exact HZ.
    destruct chunk as [|b ch].
    + rewrite receive_loop_eof. simpl. rewrite HZ. reflexivity.
    + destruct (cons_next _ _ (Some _)) as [[p|] buf']; [exact HZ|].
      simpl tmo_pos. cbv iota.
      destruct (Nat.ltb (length (b :: ch)) bufsize); [exact HZ|].
      simpl. rewrite HZ. simpl. apply IH.
Qed.

Lemma receive_zero : forall F ri N bufsize fuel buf eof s sels,
  rv_waits (receive F ri N bufsize fuel (Some 0) buf eof s sels) = [].
Proof.
  intros. unfold receive. destruct (cons_next N buf None) as [[p|] buf']; [reflexivity|].
  apply receive_loop_zero.
Qed.

(* ---- lock_with_timeout: the (at most one) blocking acquire as a wait *)
Definition lock_waits (k : lkres) : list wait :=
  map (fun req => {| w_write := false; w_req := req; w_ready := true; w_el := lk_dt k |}) (lk_waits k).

Lemma lock_zero : forall l, lk_waits (lock_with_timeout (Some 0) l) = [].
Proof. intros [|acq el]; reflexivity. Qed.

Lemma lock_budget : forall t l,
  let k := lock_with_timeout (Some t) l in
  budget_ok t (lock_waits k)
  /\ sum_wait_el (lock_waits k) <= lk_dt k
  /\ match lk_T k with
     | Some (Some t1) => t1 = Z.max 0 (t - lk_dt k) \/ (t1 = t /\ lk_dt k = 0)
     | Some None => False
     | None => True
     end.
Proof.
  intros t l. unfold lock_with_timeout, lock_waits.
  destruct (t <? 0) eqn:En; simpl.
  { split; [exact I|]. split; [lia|exact I]. }
  apply Z.ltb_ge in En.
  destruct l as [|acq el]; simpl.
  - split; [exact I|]. split; [lia|]. right; split; reflexivity.
  - destruct (t =? 0) eqn:E0; simpl.
    + split; [exact I|]. split; [lia|exact I].
    + apply Z.eqb_neq in E0. destruct acq; simpl.
      * split. { split; [lia|]. split; [exists t; split; [reflexivity|lia]|exact I]. }
        split; [lia|]. left; reflexivity.
      * split. { split; [lia|]. split; [exists t; split; [reflexivity|lia]|exact I]. }
        split; [lia|exact I].
Qed.

(* ---- TCPNetworkClient.recv_packet: lock wait + receive waits stay inside T *)
Definition client_recv_waits (c : clres) (k : lkres) : list wait := lock_waits k ++ rv_waits (cl_rv c).

Lemma client_recv_budget : forall F ri N bufsize fuel t l buf eof s sels,
  ri_ok ri -> recv_costs_ok s ->
  budget_ok t (lock_waits (lock_with_timeout (Some t) l)
               ++ rv_waits (cl_rv (client_recv F ri N bufsize fuel (Some t) l buf eof s sels))).
Proof.
  intros F ri N bufsize fuel t l buf eof s sels Hri Hc.
  pose proof (lock_budget t l) as (HB & HS & HT). cbv zeta in HB, HS, HT.
  unfold client_recv.
  set (k := lock_with_timeout (Some t) l) in *.
  destruct (lk_T k) as [[t1|]|] eqn:Ek.
  - simpl. apply budget_ok_app; [exact HB|].
    assert (HR : budget_ok t1 (rv_waits (receive F ri N bufsize fuel (Some t1) buf eof s sels)))
      by (apply receive_budget; assumption).
    assert (HW : rv_waits (convert_rv (receive F ri N bufsize fuel (Some t1) buf eof s sels))
                 = rv_waits (receive F ri N bufsize fuel (Some t1) buf eof s sels)).
    { unfold convert_rv. destruct (rv_out (receive F ri N bufsize fuel (Some t1) buf eof s sels)); reflexivity. }
    rewrite HW.
    destruct HT as [HT|[HT HT0]].
    + subst t1. apply budget_ok_mono with (t := t - lk_dt k); [lia|]. apply budget_ok_max. exact HR.
    + subst t1. apply budget_ok_mono with (t := t); [lia|]. exact HR.
  - contradiction.
  - simpl. rewrite app_nil_r. exact HB.
Qed.

Lemma client_recv_zero : forall F ri N bufsize fuel l buf eof s sels,
  cl_lockwaits (client_recv F ri N bufsize fuel (Some 0) l buf eof s sels) = []
  /\ rv_waits (cl_rv (client_recv F ri N bufsize fuel (Some 0) l buf eof s sels)) = [].
Proof.
  intros. unfold client_recv. destruct l as [|acq el]; simpl.
  - split; [reflexivity|].
    unfold convert_rv. destruct (rv_out (receive F ri N bufsize fuel (Some 0) buf eof s sels)); simpl; apply receive_zero.
  - split; reflexivity.
Qed.

(* ---- sendmsg loop with timeout 0 never waits *)
Lemma sendmsg_loop_zero : forall F ri iov fuel bufs s sels,
  sr_waits (sendmsg_loop F ri iov fuel bufs (Some 0) s sels) = [].
Proof.
  intros F ri iov fuel. induction fuel as [|f IH]; intros bufs s sels.
  - destruct bufs; reflexivity.
  - destruct bufs as [|b0 bufs']; [reflexivity|].
    change (sendmsg_loop F ri iov (S f) (b0 :: bufs') (Some 0) s sels) with
      (let r := retry (sock_sendmsg iov (b0 :: bufs')) F ri (Some 0) s sels in
       match rr_out r with
       | ROk sent T1 => sr_add (rr_dt r) (rr_waits r) (rr_calls r)
                               (sendmsg_loop F ri iov f (adjust_leftover (b0 :: bufs') sent) T1 (rr_st r) (rr_sels r))
       | o => sres_of_fail r (rout_fail o)
       end).
    cbv zeta.
    pose proof (retry_zero_no_wait _ _ (sock_sendmsg iov (b0 :: bufs')) F ri s sels) as HZ.
    pose proof (retry_zero_out _ _ (sock_sendmsg iov (b0 :: bufs')) F ri s sels) as HO.
    set (r := retry (sock_sendmsg iov (b0 :: bufs')) F ri (Some 0) s sels) in *.
    destruct (rr_out r) as [sent T1| |c|]; try exact HZ.
    rewrite (HO sent T1 eq_refl). simpl. rewrite HZ. simpl. apply IH.
Qed.
