(* C11: the budget is carried through the loops above _retry: endpoint receive loop (k partial reads),
   lock_with_timeout + receive (client), the client iterator (several packets), send_all_from_iterable. *)
From Coq Require Import ZArith List Bool Lia.
From EN Require Import Lib.Bytes IO.Retry IO.SendAll IO.SendMsg IO.Budget Proofs.C11_retry.
Import ListNotations.
Open Scope Z_scope.

(* ---- time spent in a _retry call is at least the time its waits took, when call costs are not negative *)
Section RetryDt.
  Variables St R : Type.
  Variable cb : St -> cbres R * St * Z.
  Variable Inv : St -> Prop.
  Hypothesis cb_inv : forall st, Inv st -> 0 <= snd (cb st) /\ Inv (snd (fst (cb st))).

  Lemma retry_loop_dt_ge : forall fuel ri T st sels,
    Inv st ->
    sum_wait_el (rr_waits (retry_loop cb fuel ri T st sels)) <= rr_dt (retry_loop cb fuel ri T st sels)
    /\ Inv (rr_st (retry_loop cb fuel ri T st sels)).
  Proof.
    induction fuel as [|f IH]; intros ri T st sels HI; simpl.
    - split; [lia|assumption].
    - pose proof (cb_inv st HI) as [Hc Hi].
      destruct (cb st) as [[r st1] cost]. simpl in Hc, Hi.
      destruct r as [v|w|c]; simpl; try (split; [lia|assumption]).
      destruct (tmo_le0 T); simpl; [split; [lia|assumption]|].
      destruct (next_sel sels) as [a sels1].
      destruct (if negb (tmo_leb T ri) then ri else T) as [wz|].
      + destruct (negb (sa_ready a) && negb (negb (tmo_leb T ri))); simpl.
        * split; [lia|assumption].
        * destruct (IH ri (recompute T (sa_el a)) st1 sels1 Hi) as [A B]. split; [lia|assumption].
      + destruct (sa_ready a); simpl.
        * destruct (IH ri T st1 sels1 Hi) as [A B]. split; [lia|assumption].
        * split; [lia|assumption].
  Qed.

  Lemma retry_dt_ge : forall fuel ri T st sels,
    Inv st ->
    sum_wait_el (rr_waits (retry cb fuel ri T st sels)) <= rr_dt (retry cb fuel ri T st sels)
    /\ Inv (rr_st (retry cb fuel ri T st sels)).
  Proof.
    intros. unfold retry. destruct (tmo_neg T); simpl; [split; [lia|assumption]|].
    apply retry_loop_dt_ge; assumption.
  Qed.
End RetryDt.

(* ---- receiving socket: call costs are not negative *)
Definition recv_cost (a : recvans) : Z := match a with RData _ c => c | RBlock _ c => c | RErr c => c end.
Definition recv_costs_ok (s : list recvans) : Prop := Forall (fun a => 0 <= recv_cost a) s.

Lemma sock_recv_inv : forall bufsize s,
  recv_costs_ok s -> 0 <= snd (sock_recv bufsize s) /\ recv_costs_ok (snd (fst (sock_recv bufsize s))).
Proof.
  intros bufsize s H. destruct s as [|a rest]; simpl.
  - split; [lia|constructor].
  - inversion H as [|? ? Ha Hr]; subst.
    destruct a as [b c|w c|c]; simpl in *.
    + destruct (Nat.ltb bufsize (length b)); simpl.
      * split; [assumption|]. constructor; [simpl; lia|assumption].
      * split; assumption.
    + split; assumption.
    + split; assumption.
Qed.

Lemma receive_loop_step : forall F ri N bufsize f T buf s sels,
  receive_loop F ri N bufsize (S f) T buf false s sels =
  let r := retry (sock_recv bufsize) F ri T s sels in
  match rr_out r with
  | ROk chunk _ =>
      match chunk with
      | [] => rv_add (rr_dt r) (rr_waits r) (receive_loop F ri N bufsize f T buf true (rr_st r) (rr_sels r))
      | _ :: _ =>
          match cons_next N buf (Some chunk) with
          | (Some p, buf') => mk_rvres (RvPkt p) buf' false (rr_st r) (rr_sels r) (rr_dt r) (rr_waits r)
          | (None, buf') =>
              if tmo_pos T
              then rv_add (rr_dt r) (rr_waits r)
                          (receive_loop F ri N bufsize f (recompute T (rr_dt r)) buf' false (rr_st r) (rr_sels r))
              else if Nat.ltb (length chunk) bufsize
              then mk_rvres (RvExc E_TIMEOUT) buf' false (rr_st r) (rr_sels r) (rr_dt r) (rr_waits r)
              else rv_add (rr_dt r) (rr_waits r) (receive_loop F ri N bufsize f T buf' false (rr_st r) (rr_sels r))
          end
      end
  | o => mk_rvres (rout_exc o) buf false (rr_st r) (rr_sels r) (rr_dt r) (rr_waits r)
  end.
Proof. reflexivity. Qed.

Lemma receive_loop_eof : forall F ri N bufsize f T buf s sels,
  receive_loop F ri N bufsize f T buf true s sels = mk_rvres (RvExc E_EOF) buf true s sels 0 [].
Proof. intros. destruct f; reflexivity. Qed.

(* op_budget for recv_packet: over k partial reads the waits stay inside T *)
Lemma receive_loop_budget : forall F ri N bufsize fuel t buf eof s sels,
  ri_ok ri -> recv_costs_ok s ->
  budget_ok t (rv_waits (receive_loop F ri N bufsize fuel (Some t) buf eof s sels)).
Proof.
  intros F ri N bufsize fuel. induction fuel as [|f IH]; intros t buf eof s sels Hri Hc.
  - destruct eof; simpl; exact I.
  - destruct eof; [rewrite receive_loop_eof; exact I|].
    rewrite receive_loop_step. cbv zeta.
    set (r := retry (sock_recv bufsize) F ri (Some t) s sels).
    pose proof (retry_budget_proof _ _ (sock_recv bufsize) F ri t s sels Hri) as HB. fold r in HB.
    pose proof (retry_dt_ge _ _ (sock_recv bufsize) recv_costs_ok (sock_recv_inv bufsize) F ri (Some t) s sels Hc) as [HD HI].
    fold r in HD, HI.
    destruct (rr_out r) as [chunk T1| |c|]; try exact HB.
    destruct chunk as [|b ch].
    + rewrite receive_loop_eof. simpl. rewrite app_nil_r. exact HB.
    + destruct (cons_next _ _ (Some _)) as [[p|] buf']; [exact HB|].
      destruct (tmo_pos (Some t)) eqn:Ep.
      * simpl. apply budget_ok_app; [exact HB|].
        apply budget_ok_mono with (t := t - rr_dt r); [lia|].
        apply budget_ok_max. apply IH; assumption.
      * destruct (Nat.ltb (length (b :: ch)) bufsize); [exact HB|].
        simpl. apply budget_ok_app; [exact HB|].
        unfold tmo_pos, tmo_le0 in Ep. apply negb_false_iff in Ep. apply Z.leb_le in Ep.
        rewrite (budget_ok_nonpos t _ Ep HB). simpl.
        replace (t - 0) with t by lia. apply IH; assumption.
Qed.

Lemma receive_budget : forall F ri N bufsize fuel t buf eof s sels,
  ri_ok ri -> recv_costs_ok s ->
  budget_ok t (rv_waits (receive F ri N bufsize fuel (Some t) buf eof s sels)).
Proof.
  intros. unfold receive. destruct (cons_next N buf None) as [[p|] buf']; [exact I|].
  apply receive_loop_budget; assumption.
Qed.

(* a zero timeout never waits, however many reads the packet needs *)
Lemma receive_loop_zero : forall F ri N bufsize fuel buf eof s sels,
  rv_waits (receive_loop F ri N bufsize fuel (Some 0) buf eof s sels) = [].
Proof.
  intros F ri N bufsize fuel. induction fuel as [|f IH]; intros buf eof s sels.
  - destruct eof; reflexivity.
  - destruct eof; [rewrite receive_loop_eof; reflexivity|].
    rewrite receive_loop_step. cbv zeta.
    pose proof (retry_zero_no_wait _ _ (sock_recv bufsize) F ri s sels) as HZ.
    set (r := retry (sock_recv bufsize) F ri (Some 0) s sels) in *.
    destruct (rr_out r) as [chunk T1| |c|]; try exact HZ.
    destruct chunk as [|b ch].
    + rewrite receive_loop_eof. simpl. rewrite HZ. reflexivity.
    + destruct (cons_next _ _ (Some _)) as [[p|] buf']; [exact HZ|].
      simpl tmo_pos. cbv iota.
      destruct (Nat.ltb (length (b :: ch)) bufsize); [exact HZ|].
      simpl. rewrite HZ. simpl. apply IH.
Qed.

Lemma receive_zero : forall F ri N bufsize fuel buf eof s sels,
  rv_waits (receive F ri N bufsize fuel (Some 0) buf eof s sels) = [].
Proof.
  intros. unfold receive. destruct (cons_next N buf None) as [[p|] buf']; [reflexivity|].
  apply receive_loop_zero.
Qed.

(* ---- lock_with_timeout: the (at most one) blocking acquire as a wait *)
Definition lock_waits (k : lkres) : list wait :=
  map (fun req => {| w_write := false; w_req := req; w_ready := true; w_el := lk_dt k |}) (lk_waits k).

Lemma lock_zero : forall l, lk_waits (lock_with_timeout (Some 0) l) = [].
Proof. intros [|acq el]; reflexivity. Qed.

Lemma lock_budget : forall t l,
  let k := lock_with_timeout (Some t) l in
  budget_ok t (lock_waits k)
  /\ sum_wait_el (lock_waits k) <= lk_dt k
  /\ match lk_T k with
     | Some (Some t1) => t1 = Z.max 0 (t - lk_dt k) \/ (t1 = t /\ lk_dt k = 0)
     | Some None => False
     | None => True
     end.
Proof.
  intros t l. unfold lock_with_timeout, lock_waits.
  destruct (t <? 0) eqn:En; simpl.
  { split; [exact I|]. split; [lia|exact I]. }
  apply Z.ltb_ge in En.
  destruct l as [|acq el]; simpl.
  - split; [exact I|]. split; [lia|]. right; split; reflexivity.
  - destruct (t =? 0) eqn:E0; simpl.
    + split; [exact I|]. split; [lia|exact I].
    + apply Z.eqb_neq in E0. destruct acq; simpl.
      * split. { split; [lia|]. split; [exists t; split; [reflexivity|lia]|exact I]. }
        split; [lia|]. left; reflexivity.
      * split. { split; [lia|]. split; [exists t; split; [reflexivity|lia]|exact I]. }
        split; [lia|exact I].
Qed.

(* ---- TCPNetworkClient.recv_packet: lock wait + receive waits stay inside T *)
Definition client_recv_waits (c : clres) (k : lkres) : list wait := lock_waits k ++ rv_waits (cl_rv c).

Lemma client_recv_budget : forall F ri N bufsize fuel t l buf eof s sels,
  ri_ok ri -> recv_costs_ok s ->
  budget_ok t (lock_waits (lock_with_timeout (Some t) l)
               ++ rv_waits (cl_rv (client_recv F ri N bufsize fuel (Some t) l buf eof s sels))).
Proof.
  intros F ri N bufsize fuel t l buf eof s sels Hri Hc.
  pose proof (lock_budget t l) as (HB & HS & HT). cbv zeta in HB, HS, HT.
  unfold client_recv.
  set (k := lock_with_timeout (Some t) l) in *.
  destruct (lk_T k) as [[t1|]|] eqn:Ek.
  - simpl. apply budget_ok_app; [exact HB|].
    assert (HR : budget_ok t1 (rv_waits (receive F ri N bufsize fuel (Some t1) buf eof s sels)))
      by (apply receive_budget; assumption).
    assert (HW : rv_waits (convert_rv (receive F ri N bufsize fuel (Some t1) buf eof s sels))
                 = rv_waits (receive F ri N bufsize fuel (Some t1) buf eof s sels)).
    { unfold convert_rv. destruct (rv_out (receive F ri N bufsize fuel (Some t1) buf eof s sels)); reflexivity. }
    rewrite HW.
    destruct HT as [HT|[HT HT0]].
    + subst t1. apply budget_ok_mono with (t := t - lk_dt k); [lia|]. apply budget_ok_max. exact HR.
    + subst t1. apply budget_ok_mono with (t := t); [lia|]. exact HR.
  - contradiction.
  - simpl. rewrite app_nil_r. exact HB.
Qed.

Lemma client_recv_zero : forall F ri N bufsize fuel l buf eof s sels,
  cl_lockwaits (client_recv F ri N bufsize fuel (Some 0) l buf eof s sels) = []
  /\ rv_waits (cl_rv (client_recv F ri N bufsize fuel (Some 0) l buf eof s sels)) = [].
Proof.
  intros. unfold client_recv. destruct l as [|acq el]; simpl.
  - split; [reflexivity|].
    unfold convert_rv. destruct (rv_out (receive F ri N bufsize fuel (Some 0) buf eof s sels)); simpl; apply receive_zero.
  - split; reflexivity.
Qed.

(* ---- sendmsg loop with timeout 0 never waits *)
Lemma sendmsg_loop_zero : forall F ri iov fuel bufs s sels,
  sr_waits (sendmsg_loop F ri iov fuel bufs (Some 0) s sels) = [].
Proof.
  intros F ri iov fuel. induction fuel as [|f IH]; intros bufs s sels.
  - destruct bufs; reflexivity.
  - destruct bufs as [|b0 bufs']; [reflexivity|].
    change (sendmsg_loop F ri iov (S f) (b0 :: bufs') (Some 0) s sels) with
      (let r := retry (sock_sendmsg iov (b0 :: bufs')) F ri (Some 0) s sels in
       match rr_out r with
       | ROk sent T1 => sr_add (rr_dt r) (rr_waits r) (rr_calls r)
                               (sendmsg_loop F ri iov f (adjust_leftover (b0 :: bufs') sent) T1 (rr_st r) (rr_sels r))
       | o => sres_of_fail r (rout_fail o)
       end).
    cbv zeta.
    pose proof (retry_zero_no_wait _ _ (sock_sendmsg iov (b0 :: bufs')) F ri s sels) as HZ.
    pose proof (retry_zero_out _ _ (sock_sendmsg iov (b0 :: bufs')) F ri s sels) as HO.
    set (r := retry (sock_sendmsg iov (b0 :: bufs')) F ri (Some 0) s sels) in *.
    destruct (rr_out r) as [sent T1| |c|]; try exact HZ.
    rewrite (HO sent T1 eq_refl). simpl. rewrite HZ. simpl. apply IH.
Qed.

(* ---- send side: the budget through the sendmsg loop and through send_all *)
Section RetryCont.
  Variables St R : Type.
  Variable cb : St -> cbres R * St * Z.

  (* the timeout _retry hands back continues the same budget *)
  Lemma retry_loop_budget_cont : forall fuel ri t st sels v T',
    ri_ok ri ->
    rr_out (retry_loop cb fuel ri (Some t) st sels) = ROk v T' ->
    exists t', T' = Some t' /\
      forall ws2, budget_ok t' ws2 -> budget_ok t (rr_waits (retry_loop cb fuel ri (Some t) st sels) ++ ws2).
  Proof.
    induction fuel as [|f IH]; intros ri t st sels v T' Hri; simpl; [discriminate|].
    destruct (cb st) as [[r st1] cost]. destruct r as [v0|w|c]; simpl; try discriminate.
    - intro H; inversion H; subst. exists t. split; [reflexivity|]. intros ws2 H2; exact H2.
    - destruct (t <=? 0) eqn:Et; simpl; [discriminate|]. apply Z.leb_gt in Et.
      destruct (next_sel sels) as [a sels1].
      assert (Hgen : forall req (isri : bool), 0 < req <= t ->
        rr_out (if negb (sa_ready a) && negb isri
                then mk_rres RTimeout st1 sels1 (cost + sa_el a)
                       [{| w_write := w; w_req := Some req; w_ready := sa_ready a; w_el := sa_el a |}] 1
                else rr_add (cost + sa_el a)
                       [{| w_write := w; w_req := Some req; w_ready := sa_ready a; w_el := sa_el a |}]
                       (retry_loop cb f ri (recompute (Some t) (sa_el a)) st1 sels1)) = ROk v T' ->
        exists t', T' = Some t' /\
          forall ws2, budget_ok t' ws2 ->
            budget_ok t (rr_waits (if negb (sa_ready a) && negb isri
                then mk_rres RTimeout st1 sels1 (cost + sa_el a)
                       [{| w_write := w; w_req := Some req; w_ready := sa_ready a; w_el := sa_el a |}] 1
                else rr_add (cost + sa_el a)
                       [{| w_write := w; w_req := Some req; w_ready := sa_ready a; w_el := sa_el a |}]
                       (retry_loop cb f ri (recompute (Some t) (sa_el a)) st1 sels1)) ++ ws2)).
      { intros req isri Hreq. destruct (negb (sa_ready a) && negb isri); simpl; [discriminate|].
        intro Hout. destruct (IH ri (Z.max 0 (t - sa_el a)) st1 sels1 v T' Hri Hout) as (t' & Ht' & Hc).
        exists t'. split; [assumption|]. intros ws2 H2.
        split; [lia|]. split; [exists req; split; [reflexivity|lia]|].
        apply budget_ok_max. apply Hc. exact H2. }
      destruct ri as [x|]; simpl in *.
      + destruct (t <=? x) eqn:Ex; simpl.
        * apply (Hgen t false). lia.
        * apply Z.leb_gt in Ex. apply (Hgen x true). lia.
      + apply (Hgen t false). lia.
  Qed.

  Lemma retry_budget_cont : forall fuel ri t st sels v T',
    ri_ok ri ->
    rr_out (retry cb fuel ri (Some t) st sels) = ROk v T' ->
    exists t', T' = Some t' /\
      forall ws2, budget_ok t' ws2 -> budget_ok t (rr_waits (retry cb fuel ri (Some t) st sels) ++ ws2).
  Proof.
    intros fuel ri t st sels v T' Hri. unfold retry. destruct (tmo_neg (Some t)); [simpl; discriminate|].
    apply retry_loop_budget_cont; assumption.
  Qed.
End RetryCont.

Lemma sendmsg_loop_budget : forall F ri iov fuel bufs t s sels,
  ri_ok ri -> budget_ok t (sr_waits (sendmsg_loop F ri iov fuel bufs (Some t) s sels)).
Proof.
  intros F ri iov fuel. induction fuel as [|f IH]; intros bufs t s sels Hri.
  - destruct bufs; exact I.
  - destruct bufs as [|b0 bufs']; [exact I|].
    change (sendmsg_loop F ri iov (S f) (b0 :: bufs') (Some t) s sels) with
      (let r := retry (sock_sendmsg iov (b0 :: bufs')) F ri (Some t) s sels in
       match rr_out r with
       | ROk sent T1 => sr_add (rr_dt r) (rr_waits r) (rr_calls r)
                               (sendmsg_loop F ri iov f (adjust_leftover (b0 :: bufs') sent) T1 (rr_st r) (rr_sels r))
       | o => sres_of_fail r (rout_fail o)
       end).
    cbv zeta.
    pose proof (retry_budget_proof _ _ (sock_sendmsg iov (b0 :: bufs')) F ri t s sels Hri) as HB.
    pose proof (retry_budget_cont _ _ (sock_sendmsg iov (b0 :: bufs')) F ri t s sels) as HC.
    set (r := retry (sock_sendmsg iov (b0 :: bufs')) F ri (Some t) s sels) in *.
    destruct (rr_out r) as [sent T1| |c|]; try exact HB.
    destruct (HC sent T1 Hri eq_refl) as (t' & Ht' & Hc). subst T1.
    simpl. apply Hc. apply IH. exact Hri.
Qed.

(* sending socket: call costs are not negative *)
Definition send_cost (a : sockans) : Z := match a with SSent _ c => c | SBlock _ c => c | SErr c => c end.
Definition send_costs_ok (s : sock) : Prop := Forall (fun a => 0 <= send_cost a) (sk_script s).

Lemma sock_send_inv : forall data s,
  send_costs_ok s -> 0 <= snd (sock_send data s) /\ send_costs_ok (snd (fst (sock_send data s))).
Proof.
  intros data [script wire] H. unfold send_costs_ok, sock_send in *. simpl in *.
  destruct script as [|a rest]; simpl.
  - split; [lia|constructor].
  - inversion H as [|? ? Ha Hr]; subst. destruct a; simpl in *; split; assumption.
Qed.

Lemma send_all_loop_budget : forall F ri fuel rest t s sels,
  ri_ok ri -> send_costs_ok s ->
  budget_ok t (sr_waits (send_all_loop F ri fuel rest (Some t) s sels)).
Proof.
  intros F ri fuel. induction fuel as [|f IH]; intros rest t s sels Hri Hc.
  - destruct rest; exact I.
  - destruct rest as [|b rest']; [exact I|].
    change (send_all_loop F ri (S f) (b :: rest') (Some t) s sels) with
      (let r := send F ri (b :: rest') (Some t) s sels in
       match rr_out r with
       | ROk sent _ => sr_add (rr_dt r) (rr_waits r) (rr_calls r)
                              (send_all_loop F ri f (skipn sent (b :: rest')) (recompute (Some t) (rr_dt r)) (rr_st r) (rr_sels r))
       | o => sres_of_fail r (rout_fail o)
       end).
    cbv zeta. unfold send.
    pose proof (retry_budget_proof _ _ (sock_send (b :: rest')) F ri t s sels Hri) as HB.
    pose proof (retry_dt_ge _ _ (sock_send (b :: rest')) send_costs_ok (sock_send_inv (b :: rest')) F ri (Some t) s sels Hc)
      as [HD HI].
    set (r := retry (sock_send (b :: rest')) F ri (Some t) s sels) in *.
    destruct (rr_out r) as [sent T1| |c|]; try exact HB.
    simpl. apply budget_ok_app; [exact HB|].
    apply budget_ok_mono with (t := t - rr_dt r); [lia|].
    apply budget_ok_max. apply IH; assumption.
Qed.

Lemma send_all_budget : forall F ri fuel data t s sels,
  ri_ok ri -> send_costs_ok s ->
  budget_ok t (sr_waits (send_all F ri fuel data (Some t) s sels)).
Proof.
  intros. destruct data as [|b d].
  - simpl. unfold send.
    pose proof (retry_budget_proof _ _ (sock_send []) F ri t s sels H) as HB.
    destruct (rr_out (retry (sock_send []) F ri (Some t) s sels)); exact HB.
  - apply send_all_loop_budget; assumption.
Qed.

(* op_budget for send_all_from_iterable on every path *)
Lemma send_iter_budget : forall drop_empty has_sendmsg iov F fuel ri chunks t s sels,
  ri_ok ri -> send_costs_ok s ->
  budget_ok t (sr_waits (send_iter drop_empty has_sendmsg iov F fuel ri chunks (Some t) s sels)).
Proof.
  intros. unfold send_iter. destruct ((iov <=? 0) || negb has_sendmsg).
  - apply send_all_budget; assumption.
  - apply sendmsg_loop_budget; assumption.
Qed.

(* op_budget for TCPNetworkClient.send_packet: lock wait + selector waits *)
Lemma client_send_budget : forall drop_empty has_sendmsg iov F fuel ri chunks t l s sels,
  ri_ok ri -> send_costs_ok s ->
  budget_ok t (lock_waits (lock_with_timeout (Some t) l)
               ++ sr_waits (cs_sr (client_send drop_empty has_sendmsg iov F fuel ri chunks (Some t) l s sels))).
Proof.
  intros drop_empty has_sendmsg iov F fuel ri chunks t l s sels Hri Hc.
  pose proof (lock_budget t l) as (HB & HS & HT). cbv zeta in HB, HS, HT.
  unfold client_send.
  set (k := lock_with_timeout (Some t) l) in *.
  destruct (lk_T k) as [[t1|]|] eqn:Ek.
  - simpl. apply budget_ok_app; [exact HB|].
    assert (HR : budget_ok t1 (sr_waits (send_iter drop_empty has_sendmsg iov F fuel ri chunks (Some t1) s sels)))
      by (apply send_iter_budget; assumption).
    assert (HW : sr_waits (convert_sr (send_iter drop_empty has_sendmsg iov F fuel ri chunks (Some t1) s sels))
                 = sr_waits (send_iter drop_empty has_sendmsg iov F fuel ri chunks (Some t1) s sels)).
    { unfold convert_sr. destruct (sr_out (send_iter drop_empty has_sendmsg iov F fuel ri chunks (Some t1) s sels)); reflexivity. }
    rewrite HW.
    destruct HT as [HT|[HT HT0]].
    + subst t1. apply budget_ok_mono with (t := t - lk_dt k); [lia|]. apply budget_ok_max. exact HR.
    + subst t1. apply budget_ok_mono with (t := t); [lia|]. exact HR.
  - contradiction.
  - simpl. rewrite app_nil_r. exact HB.
Qed.

(* ---- the client iterator: the budget is carried across packets *)
Lemma sum_wait_el_app : forall a b, sum_wait_el (a ++ b) = sum_wait_el a + sum_wait_el b.
Proof. induction a as [|w a IH]; intros b; simpl; [reflexivity|]. rewrite IH. lia. Qed.

(* the time a receive takes is at least the time its waits took *)
Lemma receive_loop_dt_ge : forall F ri N bufsize fuel T buf eof s sels,
  recv_costs_ok s ->
  sum_wait_el (rv_waits (receive_loop F ri N bufsize fuel T buf eof s sels))
    <= rv_dt (receive_loop F ri N bufsize fuel T buf eof s sels)
  /\ recv_costs_ok (rv_sock (receive_loop F ri N bufsize fuel T buf eof s sels)).
Proof.
  intros F ri N bufsize fuel. induction fuel as [|f IH]; intros T buf eof s sels Hc.
  - destruct eof; simpl; (split; [lia|assumption]).
  - destruct eof; [rewrite receive_loop_eof; simpl; split; [lia|assumption]|].
    rewrite receive_loop_step. cbv zeta.
    pose proof (retry_dt_ge _ _ (sock_recv bufsize) recv_costs_ok (sock_recv_inv bufsize) F ri T s sels Hc) as [HD HI].
    set (r := retry (sock_recv bufsize) F ri T s sels) in *.
    destruct (rr_out r) as [chunk T1| |c|]; try (simpl; split; assumption).
    destruct chunk as [|b ch].
    + rewrite receive_loop_eof. simpl. rewrite app_nil_r. split; [lia|assumption].
    + destruct (cons_next _ _ (Some _)) as [[p|] buf']; [simpl; split; assumption|].
      destruct (tmo_pos T).
      * destruct (IH (recompute T (rr_dt r)) buf' false (rr_st r) (rr_sels r) HI) as [A B].
        simpl. rewrite sum_wait_el_app. split; [lia|assumption].
      * destruct (Nat.ltb (length (b :: ch)) bufsize); [simpl; split; assumption|].
        destruct (IH T buf' false (rr_st r) (rr_sels r) HI) as [A B].
        simpl. rewrite sum_wait_el_app. split; [lia|assumption].
Qed.

Lemma receive_dt_ge : forall F ri N bufsize fuel T buf eof s sels,
  recv_costs_ok s ->
  sum_wait_el (rv_waits (receive F ri N bufsize fuel T buf eof s sels))
    <= rv_dt (receive F ri N bufsize fuel T buf eof s sels)
  /\ recv_costs_ok (rv_sock (receive F ri N bufsize fuel T buf eof s sels)).
Proof.
  intros. unfold receive. destruct (cons_next N buf None) as [[p|] buf'].
  - simpl. split; [lia|assumption].
  - apply receive_loop_dt_ge; assumption.
Qed.

Lemma client_recv_lockwaits : forall F ri N bufsize fuel T l buf eof s sels,
  cl_lockwaits (client_recv F ri N bufsize fuel T l buf eof s sels) = lk_waits (lock_with_timeout T l).
Proof. intros. unfold client_recv. destruct (lk_T (lock_with_timeout T l)); reflexivity. Qed.

Lemma client_recv_dt_ge : forall F ri N bufsize fuel t l buf eof s sels,
  recv_costs_ok s ->
  let c := client_recv F ri N bufsize fuel (Some t) l buf eof s sels in
  sum_wait_el (lock_waits (lock_with_timeout (Some t) l) ++ rv_waits (cl_rv c)) <= rv_dt (cl_rv c)
  /\ recv_costs_ok (rv_sock (cl_rv c)).
Proof.
  intros F ri N bufsize fuel t l buf eof s sels Hc. cbv zeta.
  pose proof (lock_budget t l) as (_ & HS & _). cbv zeta in HS.
  unfold client_recv. set (k := lock_with_timeout (Some t) l) in *.
  rewrite sum_wait_el_app.
  destruct (lk_T k) as [T1|].
  - destruct (receive_dt_ge F ri N bufsize fuel T1 buf eof s sels Hc) as [A B].
    unfold convert_rv. destruct (rv_out (receive F ri N bufsize fuel T1 buf eof s sels)); simpl; (split; [lia|assumption]).
  - simpl. split; [lia|assumption].
Qed.

(* the waits of one __next__: the blocking lock acquire (if any), then the selector waits *)
Definition step_waits (st : itstep) : list wait :=
  map (fun req => {| w_write := false; w_req := req; w_ready := true; w_el := it_lockdt st |}) (it_lockwaits st)
  ++ it_waits st.

(* the waits of an iteration: up to and including the first __next__ that does not return a packet
   (StopIteration / an exception ends a `for` loop) *)
Fixpoint iter_log (steps : list itstep) : list wait :=
  match steps with
  | [] => []
  | st :: rest => step_waits st ++ match it_out st with RvPkt _ => iter_log rest | _ => [] end
  end.

Lemma iter_budget : forall F ri N bufsize fuel locks t buf eof s sels,
  ri_ok ri -> recv_costs_ok s ->
  budget_ok t (iter_log (iter_run F ri N bufsize fuel (Some t) locks buf eof s sels)).
Proof.
  intros F ri N bufsize fuel locks. induction locks as [|l locks IH]; intros t buf eof s sels Hri Hc; [exact I|].
  cbn [iter_run iter_log]. cbv zeta.
  pose proof (client_recv_budget F ri N bufsize fuel t l buf eof s sels Hri Hc) as HB.
  pose proof (client_recv_dt_ge F ri N bufsize fuel t l buf eof s sels Hc) as [HD HI]. 
  unfold step_waits. cbn [it_lockwaits it_lockdt it_waits it_out].
  rewrite client_recv_lockwaits.
  change (map (fun req => {| w_write := false; w_req := req; w_ready := true;
                             w_el := lk_dt (lock_with_timeout (Some t) l) |})
              (lk_waits (lock_with_timeout (Some t) l)))
    with (lock_waits (lock_with_timeout (Some t) l)).
  set (c := client_recv F ri N bufsize fuel (Some t) l buf eof s sels) in *.
  destruct (rv_out (cl_rv c)) as [p|code|].
  - apply budget_ok_app; [exact HB|].
    apply budget_ok_mono with (t := t - rv_dt (cl_rv c)); [lia|].
    apply budget_ok_max. apply IH; assumption.
  - rewrite app_nil_r. exact HB.
  - rewrite app_nil_r. exact HB.
Qed.

(* ---- a zero timeout never waits on the join / send_all path either (call costs are not negative) *)
Lemma send_all_loop_zero : forall F ri fuel rest s sels,
  send_costs_ok s -> sr_waits (send_all_loop F ri fuel rest (Some 0) s sels) = [].
Proof.
  intros F ri fuel. induction fuel as [|f IH]; intros rest s sels Hc.
  - destruct rest; reflexivity.
  - destruct rest as [|b rest']; [reflexivity|].
    change (send_all_loop F ri (S f) (b :: rest') (Some 0) s sels) with
      (let r := send F ri (b :: rest') (Some 0) s sels in
       match rr_out r with
       | ROk sent _ => sr_add (rr_dt r) (rr_waits r) (rr_calls r)
                              (send_all_loop F ri f (skipn sent (b :: rest')) (recompute (Some 0) (rr_dt r)) (rr_st r) (rr_sels r))
       | o => sres_of_fail r (rout_fail o)
       end).
    cbv zeta. unfold send.
    pose proof (retry_zero_no_wait _ _ (sock_send (b :: rest')) F ri s sels) as HZ.
    pose proof (retry_dt_ge _ _ (sock_send (b :: rest')) send_costs_ok (sock_send_inv (b :: rest')) F ri (Some 0) s sels Hc)
      as [HD HI].
    set (r := retry (sock_send (b :: rest')) F ri (Some 0) s sels) in *.
    rewrite HZ in HD. simpl in HD.
    destruct (rr_out r) as [sent T1| |c|]; try exact HZ.
    assert (E : recompute (Some 0) (rr_dt r) = Some 0) by (simpl; f_equal; lia).
    rewrite E. simpl. rewrite HZ. simpl. apply IH. exact HI.
Qed.

Lemma send_iter_zero : forall drop_empty has_sendmsg iov F fuel ri chunks s sels,
  send_costs_ok s ->
  sr_waits (send_iter drop_empty has_sendmsg iov F fuel ri chunks (Some 0) s sels) = [].
Proof.
  intros. unfold send_iter. destruct ((iov <=? 0) || negb has_sendmsg).
  - unfold send_all_join, send_all. destruct (concat chunks) as [|b d].
    + unfold send.
      pose proof (retry_zero_no_wait _ _ (sock_send []) F ri s sels) as HZ.
      destruct (rr_out (retry (sock_send []) F ri (Some 0) s sels)); exact HZ.
    + apply send_all_loop_zero; assumption.
  - apply sendmsg_loop_zero.
Qed.

Lemma client_send_zero : forall drop_empty has_sendmsg iov F fuel ri chunks l s sels,
  send_costs_ok s ->
  cs_lockwaits (client_send drop_empty has_sendmsg iov F fuel ri chunks (Some 0) l s sels) = []
  /\ sr_waits (cs_sr (client_send drop_empty has_sendmsg iov F fuel ri chunks (Some 0) l s sels)) = [].
Proof.
  intros. unfold client_send. destruct l as [|acq el]; simpl.
  - split; [reflexivity|].
    unfold convert_sr.
    destruct (sr_out (send_iter drop_empty has_sendmsg iov F fuel ri chunks (Some 0) s sels)); simpl;
      apply send_iter_zero; assumption.
  - split; reflexivity.
Qed.

(* ---- the asynchronous iterator: time spent up to and including the first StopAsyncIteration is at most T *)
Fixpoint aiter_time (steps : list astep) : Z :=
  match steps with
  | [] => 0
  | st :: rest => as_dt st + (if as_out st =? 0 then aiter_time rest else 0)
  end.

Lemma aiter_budget : forall arr t,
  0 <= t -> Forall (fun a => match a with ArrAfter d => 0 <= d | ArrErr => True end) arr ->
  aiter_time (aiter_run (Some t) arr) <= t.
Proof.
  induction arr as [|a arr IH]; intros t Ht HF; simpl; [lia|].
  inversion HF as [|? ? Ha HF']; subst.
  destruct a as [d|]; simpl.
  - destruct ((d =? 0) || (d <? t)) eqn:E; simpl.
    + assert (Hd : d <= t).
      { apply orb_true_iff in E. destruct E as [E|E]; [apply Z.eqb_eq in E; lia | apply Z.ltb_lt in E; lia]. }
      specialize (IH (Z.max 0 (t - d))). assert (0 <= Z.max 0 (t - d)) by lia.
      specialize (IH H HF'). lia.
    + unfold E_TIMEOUT. simpl. lia.
  - unfold E_CONN. simpl. lia.
Qed.

(* with a zero timeout no __anext__ takes any time *)
Lemma aiter_zero : forall arr,
  Forall (fun a => match a with ArrAfter d => 0 <= d | ArrErr => True end) arr ->
  Forall (fun st => as_dt st = 0) (aiter_run (Some 0) arr).
Proof.
  induction arr as [|a arr IH]; intros HF; simpl; [constructor|].
  inversion HF as [|? ? Ha HF']; subst.
  destruct a as [d|]; simpl.
  - destruct ((d =? 0) || (d <? 0)) eqn:E; simpl.
    + apply orb_true_iff in E.
      assert (d = 0) by (destruct E as [E|E]; [apply Z.eqb_eq in E; lia | apply Z.ltb_lt in E; lia]).
      subst d. constructor; [reflexivity|]. simpl. apply IH. exact HF'.
    + constructor; [reflexivity|]. apply IH. exact HF'.
  - constructor; [reflexivity|]. apply IH. exact HF'.
Qed.

(* ------------------------------------------------------------------------------------------------------------ *)
(* The LOWER half of the property through the send loops: TimeoutError only if the time really spent is >= T
   (no early timeout), provided the selector reports "not ready" only after the full requested wait. *)
Section RetryRemaining.
  Variables St R : Type.
  Variable cb : St -> cbres R * St * Z.

  (* the timeout _retry hands back is at least T minus the time its waits took *)
  Lemma retry_loop_ok_remaining : forall fuel ri t st sels v T',
    rr_out (retry_loop cb fuel ri (Some t) st sels) = ROk v T' ->
    exists t', T' = Some t' /\ t - sum_wait_el (rr_waits (retry_loop cb fuel ri (Some t) st sels)) <= t'.
  Proof.
    induction fuel as [|f IH]; intros ri t st sels v T'; simpl; [discriminate|].
    destruct (cb st) as [[r st1] cost]. destruct r as [v0|w|c]; simpl; try discriminate.
    - intro H; inversion H; subst. exists t. split; [reflexivity|lia].
    - destruct (t <=? 0); simpl; [discriminate|].
      destruct (next_sel sels) as [a sels1].
      assert (Hgen : forall req (isri : bool),
        rr_out (if negb (sa_ready a) && negb isri
                then mk_rres RTimeout st1 sels1 (cost + sa_el a)
                       [{| w_write := w; w_req := Some req; w_ready := sa_ready a; w_el := sa_el a |}] 1
                else rr_add (cost + sa_el a)
                       [{| w_write := w; w_req := Some req; w_ready := sa_ready a; w_el := sa_el a |}]
                       (retry_loop cb f ri (recompute (Some t) (sa_el a)) st1 sels1)) = ROk v T' ->
        exists t', T' = Some t' /\
        t - sum_wait_el (rr_waits (if negb (sa_ready a) && negb isri
                then mk_rres RTimeout st1 sels1 (cost + sa_el a)
                       [{| w_write := w; w_req := Some req; w_ready := sa_ready a; w_el := sa_el a |}] 1
                else rr_add (cost + sa_el a)
                       [{| w_write := w; w_req := Some req; w_ready := sa_ready a; w_el := sa_el a |}]
                       (retry_loop cb f ri (recompute (Some t) (sa_el a)) st1 sels1))) <= t').
      { intros req isri. destruct (negb (sa_ready a) && negb isri); simpl; [discriminate|].
        intro H. destruct (IH ri (Z.max 0 (t - sa_el a)) st1 sels1 v T' H) as (t' & E & L).
        exists t'. split; [assumption|lia]. }
      destruct ri as [x|]; simpl.
      + destruct (t <=? x); simpl; [apply (Hgen t false) | apply (Hgen x true)].
      + apply (Hgen t false).
  Qed.

  (* a _retry that raises never raises the TimeoutError code by another route than its timeout *)
End RetryRemaining.

Lemma retry_send_raise_code : forall data fuel ri T s sels c,
  rr_out (retry (sock_send data) fuel ri T s sels) = RRaise c -> c <> E_TIMEOUT.
Proof.
  intros data fuel ri T s sels c. unfold retry. destruct (tmo_neg T); [simpl; intro H; inversion H; discriminate|].
  revert ri T s sels. induction fuel as [|f IH]; intros ri T s sels; simpl; [discriminate|].
  unfold sock_send at 1. destruct s as [script wire]; simpl.
  destruct script as [|a rest]; simpl; [discriminate|].
  destruct a as [n k|w k|k]; simpl; try discriminate.
  - destruct (tmo_le0 T); simpl; [discriminate|].
    destruct (next_sel sels) as [a sels1].
    destruct (if negb (tmo_leb T ri) then ri else T) as [wz|].
    + destruct (negb (sa_ready a) && negb (negb (tmo_leb T ri))); simpl; [discriminate|]. apply IH.
    + destruct (sa_ready a); simpl; [apply IH|]. intro H; inversion H; discriminate.
  - intro H; inversion H; discriminate.
Qed.

(* sendmsg loop: TimeoutError => the waits really took at least T *)
Lemma sendmsg_loop_timeout_exhausted : forall F ri iov fuel bufs t s sels,
  sr_out (sendmsg_loop F ri iov fuel bufs (Some t) s sels) = SExc E_TIMEOUT ->
  Forall full_wait (sr_waits (sendmsg_loop F ri iov fuel bufs (Some t) s sels)) ->
  t <= sum_wait_el (sr_waits (sendmsg_loop F ri iov fuel bufs (Some t) s sels)).
Proof.
  intros F ri iov fuel. induction fuel as [|f IH]; intros bufs t s sels.
  - destruct bufs; simpl; discriminate.
  - destruct bufs as [|b0 bufs']; [simpl; discriminate|].
    change (sendmsg_loop F ri iov (S f) (b0 :: bufs') (Some t) s sels) with
      (let r := retry (sock_sendmsg iov (b0 :: bufs')) F ri (Some t) s sels in
       match rr_out r with
       | ROk sent T1 => sr_add (rr_dt r) (rr_waits r) (rr_calls r)
                               (sendmsg_loop F ri iov f (adjust_leftover (b0 :: bufs') sent) T1 (rr_st r) (rr_sels r))
       | o => sres_of_fail r (rout_fail o)
       end).
    cbv zeta.
    pose proof (retry_timeout_exhausted_proof _ _ (sock_sendmsg iov (b0 :: bufs')) F ri t s sels) as HT.
    pose proof (retry_send_raise_code (concat (firstn iov (b0 :: bufs'))) F ri (Some t) s sels) as HR.
    assert (HK : forall v T', rr_out (retry (sock_sendmsg iov (b0 :: bufs')) F ri (Some t) s sels) = ROk v T' ->
                 exists t', T' = Some t' /\
                 t - sum_wait_el (rr_waits (retry (sock_sendmsg iov (b0 :: bufs')) F ri (Some t) s sels)) <= t').
    { intros v T'. unfold retry. destruct (tmo_neg (Some t)); [simpl; discriminate|]. apply retry_loop_ok_remaining. }
    unfold sock_sendmsg in HR.
    set (r := retry (sock_sendmsg iov (b0 :: bufs')) F ri (Some t) s sels) in *.
    destruct (rr_out r) as [sent T1| |c|] eqn:E.
    + simpl. intros Hout HF. apply Forall_app in HF. destruct HF as [HF1 HF2].
      destruct (HK sent T1 eq_refl) as (t1 & E1 & L1). subst T1.
      specialize (IH _ t1 _ _ Hout HF2). rewrite sum_wait_el_app. lia.
    + simpl. intros _ HF. apply HT; [reflexivity|exact HF].
    + simpl. intro H. inversion H. exfalso. apply (HR c); [first [exact E | reflexivity]|assumption].
    + simpl. discriminate.
Qed.

Lemma sendmsg_loop_dt_ge : forall F ri iov fuel bufs T s sels,
  send_costs_ok s ->
  sum_wait_el (sr_waits (sendmsg_loop F ri iov fuel bufs T s sels)) <= sr_dt (sendmsg_loop F ri iov fuel bufs T s sels).
Proof.
  intros F ri iov fuel. induction fuel as [|f IH]; intros bufs T s sels Hc.
  - destruct bufs; simpl; lia.
  - destruct bufs as [|b0 bufs']; [simpl; lia|].
    change (sendmsg_loop F ri iov (S f) (b0 :: bufs') T s sels) with
      (let r := retry (sock_sendmsg iov (b0 :: bufs')) F ri T s sels in
       match rr_out r with
       | ROk sent T1 => sr_add (rr_dt r) (rr_waits r) (rr_calls r)
                               (sendmsg_loop F ri iov f (adjust_leftover (b0 :: bufs') sent) T1 (rr_st r) (rr_sels r))
       | o => sres_of_fail r (rout_fail o)
       end).
    cbv zeta.
    pose proof (retry_dt_ge _ _ (sock_send (concat (firstn iov (b0 :: bufs')))) send_costs_ok
                            (sock_send_inv (concat (firstn iov (b0 :: bufs')))) F ri T s sels Hc) as [HD HI].
    change (sock_send (concat (firstn iov (b0 :: bufs')))) with (sock_sendmsg iov (b0 :: bufs')) in HD, HI.
    set (r := retry (sock_sendmsg iov (b0 :: bufs')) F ri T s sels) in *.
    destruct (rr_out r) as [sent T1| |c|]; try exact HD.
    specialize (IH (adjust_leftover (b0 :: bufs') sent) T1 (rr_st r) (rr_sels r) HI).
    unfold sr_add. cbn [sr_waits sr_dt]. rewrite sum_wait_el_app. lia.
Qed.

(* send_all loop: TimeoutError => the time the call took (waits + call costs) is at least T *)
Lemma send_all_loop_timeout_exhausted : forall F ri fuel rest t s sels,
  send_costs_ok s ->
  sr_out (send_all_loop F ri fuel rest (Some t) s sels) = SExc E_TIMEOUT ->
  Forall full_wait (sr_waits (send_all_loop F ri fuel rest (Some t) s sels)) ->
  t <= sr_dt (send_all_loop F ri fuel rest (Some t) s sels).
Proof.
  intros F ri fuel. induction fuel as [|f IH]; intros rest t s sels Hc.
  - destruct rest; simpl; discriminate.
  - destruct rest as [|b rest']; [simpl; discriminate|].
    change (send_all_loop F ri (S f) (b :: rest') (Some t) s sels) with
      (let r := send F ri (b :: rest') (Some t) s sels in
       match rr_out r with
       | ROk sent _ => sr_add (rr_dt r) (rr_waits r) (rr_calls r)
                              (send_all_loop F ri f (skipn sent (b :: rest')) (recompute (Some t) (rr_dt r)) (rr_st r) (rr_sels r))
       | o => sres_of_fail r (rout_fail o)
       end).
    cbv zeta. unfold send.
    pose proof (retry_timeout_exhausted_proof _ _ (sock_send (b :: rest')) F ri t s sels) as HT.
    pose proof (retry_send_raise_code (b :: rest') F ri (Some t) s sels) as HR.
    pose proof (retry_dt_ge _ _ (sock_send (b :: rest')) send_costs_ok (sock_send_inv (b :: rest')) F ri (Some t) s sels Hc)
      as [HD HI].
    set (r := retry (sock_send (b :: rest')) F ri (Some t) s sels) in *.
    destruct (rr_out r) as [sent T1| |c|] eqn:E.
    + simpl. intros Hout HF. apply Forall_app in HF. destruct HF as [HF1 HF2].
      specialize (IH (skipn sent (b :: rest')) (Z.max 0 (t - rr_dt r)) (rr_st r) (rr_sels r) HI Hout HF2). lia.
    + simpl. intros _ HF. specialize (HT eq_refl HF). lia.
    + simpl. intro H. inversion H. exfalso. apply (HR c); [first [exact E | reflexivity]|assumption].
    + simpl. discriminate.
Qed.

(* send_all_from_iterable on every path *)
Lemma send_iter_timeout_exhausted : forall drop_empty has_sendmsg iov F fuel ri chunks t s sels,
  send_costs_ok s ->
  sr_out (send_iter drop_empty has_sendmsg iov F fuel ri chunks (Some t) s sels) = SExc E_TIMEOUT ->
  Forall full_wait (sr_waits (send_iter drop_empty has_sendmsg iov F fuel ri chunks (Some t) s sels)) ->
  t <= sr_dt (send_iter drop_empty has_sendmsg iov F fuel ri chunks (Some t) s sels).
Proof.
  intros drop_empty has_sendmsg iov F fuel ri chunks t s sels Hc. unfold send_iter.
  destruct ((iov <=? 0) || negb has_sendmsg).
  - unfold send_all_join, send_all. destruct (concat chunks) as [|b d].
    + unfold send.
      pose proof (retry_timeout_exhausted_proof _ _ (sock_send []) F ri t s sels) as HT.
      pose proof (retry_send_raise_code [] F ri (Some t) s sels) as HR.
      pose proof (retry_dt_ge _ _ (sock_send []) send_costs_ok (sock_send_inv []) F ri (Some t) s sels Hc) as [HD _].
      destruct (rr_out (retry (sock_send []) F ri (Some t) s sels)) as [v T1| |c|] eqn:E; simpl; try discriminate.
      * intros _ HF. specialize (HT eq_refl HF). lia.
      * intro H. inversion H. exfalso. apply (HR c); [reflexivity|assumption].
    + apply send_all_loop_timeout_exhausted. exact Hc.
  - intros Hout HF.
    pose proof (sendmsg_loop_timeout_exhausted _ _ _ _ _ _ _ _ Hout HF) as L.
    pose proof (sendmsg_loop_dt_ge F ri (Z.to_nat iov) fuel (build_deque drop_empty chunks) (Some t) s sels Hc). lia.
Qed.

(* the asynchronous iterator with timeout=None (normalised to inf) never ends with TimeoutError *)
Lemma aiter_none_never_times_out : forall arr, Forall (fun st => as_out st <> E_TIMEOUT) (aiter_run None arr).
Proof.
  induction arr as [|a arr IH]; simpl; [constructor|].
  destruct a as [d|]; simpl; (constructor; [unfold E_TIMEOUT, E_CONN; simpl; lia | exact IH]).
Qed.
