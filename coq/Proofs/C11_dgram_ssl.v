(* C11: UDP client budgets and the SSL transport's wait mapping, as instances of the _retry theorems. *)
From Coq Require Import ZArith List Bool Lia.
From EN Require Import Lib.Bytes IO.Retry IO.SendAll IO.Budget IO.Datagram IO.SslMap
     Proofs.C11_retry Proofs.C11_budget.
Import ListNotations.
Open Scope Z_scope.

(* ---- lock_with_timeout followed by one _retry, any callback *)
Section Locked.
  Variables St R : Type.
  Variable cb : St -> cbres R * St * Z.

  Definition locked_waits (res : lkres * option (rres St R)) : list wait :=
    lock_waits (fst res) ++ match snd res with Some r => rr_waits r | None => [] end.

  Lemma locked_retry_budget : forall F ri t l st sels,
    ri_ok ri -> budget_ok t (locked_waits (locked_retry cb F ri (Some t) (Some l) st sels)).
  Proof.
    intros F ri t l st sels Hri. unfold locked_retry, locked_waits.
    pose proof (lock_budget t l) as (HB & HS & HT). cbv zeta in HB, HS, HT.
    set (k := lock_with_timeout (Some t) l) in *.
    destruct (lk_T k) as [[t1|]|]; simpl.
    - apply budget_ok_app; [exact HB|].
      pose proof (retry_budget_proof _ _ cb F ri t1 st sels Hri) as HR.
      destruct HT as [HT|[HT HT0]]; subst t1.
      + apply budget_ok_mono with (t := t - lk_dt k); [lia|]. apply budget_ok_max. exact HR.
      + apply budget_ok_mono with (t := t); [lia|]. exact HR.
    - contradiction.
    - rewrite app_nil_r. exact HB.
  Qed.

  Lemma locked_retry_endpoint_budget : forall F ri t st sels,
    ri_ok ri -> budget_ok t (locked_waits (locked_retry cb F ri (Some t) None st sels)).
  Proof.
    intros. unfold locked_retry, locked_waits. simpl. apply retry_budget_proof. assumption.
  Qed.

  Lemma locked_retry_zero : forall F ri lk st sels,
    locked_waits (locked_retry cb F ri (Some 0) lk st sels) = []
    /\ lk_waits (fst (locked_retry cb F ri (Some 0) lk st sels)) = [].
  Proof.
    intros F ri lk st sels. unfold locked_retry, locked_waits.
    destruct lk as [[|acq el]|]; simpl; try (split; [apply retry_zero_no_wait | reflexivity]).
    split; reflexivity.
  Qed.

  Lemma locked_retry_inf_no_timeout : forall F ri lk st sels r,
    snd (locked_retry cb F ri None lk st sels) = Some r -> rr_out r <> RTimeout.
  Proof.
    intros F ri lk st sels r. unfold locked_retry.
    destruct lk as [[|acq el]|]; simpl; intro H; inversion H; subst; unfold retry; simpl; apply retry_loop_inf_no_timeout.
  Qed.
End Locked.

(* ---- the i-th wait of a send through the SSL object waits for the event the i-th blocking SSL answer asked for *)
Fixpoint sock_wait_events (l : list sockans) : list bool :=
  match l with
  | SBlock w _ :: r => w :: sock_wait_events r
  | _ => []
  end.

Lemma ssl_wait_events_map : forall script, sock_wait_events (map ssl_send_answer script) = ssl_wait_events script.
Proof.
  induction script as [|a r IH]; simpl; [reflexivity|].
  destruct a; simpl; try reflexivity; rewrite IH; reflexivity.
Qed.

Lemma retry_send_wait_events : forall data fuel ri T s sels,
  map w_write (rr_waits (retry_loop (sock_send data) fuel ri T s sels))
  = firstn (length (rr_waits (retry_loop (sock_send data) fuel ri T s sels))) (sock_wait_events (sk_script s)).
Proof.
  intros data fuel. induction fuel as [|f IH]; intros ri T s sels; simpl; [reflexivity|].
  unfold sock_send at 1 3. destruct s as [script wire]; simpl.
  destruct script as [|a rest]; simpl; [reflexivity|].
  destruct a as [n c|w c|c]; simpl; try reflexivity.
  destruct (tmo_le0 T); simpl; [reflexivity|].
  destruct (next_sel sels) as [a sels1].
  destruct (if negb (tmo_leb T ri) then ri else T) as [wz|].
  - destruct (negb (sa_ready a) && negb (negb (tmo_leb T ri))); simpl; [reflexivity|].
    f_equal. apply (IH ri (recompute T (sa_el a)) (mk_sock rest wire) sels1).
  - destruct (sa_ready a); simpl; [|reflexivity].
    f_equal. apply (IH ri T (mk_sock rest wire) sels1).
Qed.

Lemma ssl_send_wait_mapping : forall F ri T data script wire sels,
  let r := ssl_send F ri T data script wire sels in
  map w_write (rr_waits r) = firstn (length (rr_waits r)) (ssl_wait_events script).
Proof.
  intros. unfold r, ssl_send, retry. destruct (tmo_neg T); [reflexivity|].
  rewrite retry_send_wait_events. simpl. rewrite ssl_wait_events_map. reflexivity.
Qed.

Lemma ssl_send_budget : forall F ri t data script wire sels,
  ri_ok ri -> budget_ok t (rr_waits (ssl_send F ri (Some t) data script wire sels)).
Proof. intros. unfold ssl_send. apply retry_budget_proof. assumption. Qed.
