(* C01 for raw JSON: the scanner closes a grammar document exactly at its last byte (jsonraw_split_balanced) and the
   copying consumer round-trips every list of documents under every chunking (json_roundtrip). *)
From Coq Require Import ZArith List Bool Lia Arith.
From EN Require Import Lib.Bytes Frame.Framer Frame.JsonRaw Frame.JsonGrammar Stream.Consumer
  Proofs.Bytes_proofs Proofs.C06_progress Proofs.C07_extra Proofs.C01_generic.
Import ListNotations.

Definition mkc (q cu sq : Z) (f : option jkind) : jcount := {| jq := q; jc := cu; js := sq; jfirst := f |}.

(* ---- the balanced texts: what keeps the string flag and every counter unchanged ---- *)
Inductive jinner : bytes -> Prop :=
| ji_nil : jinner []
| ji_plain b s : jspecial b = false -> jinner s -> jinner (b :: s)
| ji_str body s : jstr_body body -> jinner s -> jinner (b_quote :: body ++ b_quote :: s)
| ji_arr a s : jinner a -> jinner s -> jinner (b_lsquare :: a ++ b_rsquare :: s)
| ji_obj a s : jinner a -> jinner s -> jinner (b_lcurly :: a ++ b_rcurly :: s).

Lemma jinner_app a b : jinner a -> jinner b -> jinner (a ++ b).
Proof.
  intros Ha Hb. induction Ha; cbn [app]; try assumption.
  - constructor; assumption.
  - rewrite <- app_assoc. cbn [app]. constructor; assumption.
  - rewrite <- app_assoc. cbn [app]. constructor; assumption.
  - rewrite <- app_assoc. cbn [app]. constructor; assumption.
Qed.

Lemma jspecial_false b : jspecial b = false ->
  N.eqb b b_quote = false /\ N.eqb b b_bslash = false /\ N.eqb b b_lcurly = false /\ N.eqb b b_rcurly = false /\
  N.eqb b b_lsquare = false /\ N.eqb b b_rsquare = false.
Proof. unfold jspecial. rewrite !orb_false_iff. tauto. Qed.

Lemma atoms_inner a : forallb atom_byte a = true -> jinner a.
Proof.
  induction a as [|b a IH]; cbn; [constructor|]. rewrite andb_true_iff. intros [Hb Ha].
  constructor; [|auto]. unfold atom_byte in Hb. rewrite andb_true_iff, negb_true_iff in Hb. tauto.
Qed.

Lemma jstring_inner s : jstring s -> jinner s.
Proof. intros (body & Hb & ->). apply (ji_str body [] Hb ji_nil). Qed.

Scheme jvalue_ind2 := Induction for jvalue Sort Prop
  with jelems_ind2 := Induction for jelems Sort Prop
  with jmembers_ind2 := Induction for jmembers Sort Prop.
Combined Scheme jgrammar_ind from jvalue_ind2, jelems_ind2, jmembers_ind2.

Lemma comma_plain : jspecial b_comma = false. Proof. reflexivity. Qed.
Lemma colon_plain : jspecial b_colon = false. Proof. reflexivity. Qed.

Lemma grammar_inner :
  (forall v, jvalue v -> jinner v) /\ (forall es, jelems es -> jinner es) /\ (forall ms, jmembers ms -> jinner ms).
Proof.
  apply jgrammar_ind; intros.
  - apply jstring_inner; assumption.
  - destruct j as [_ Ha]. apply atoms_inner; assumption.
  - apply (ji_arr [] [] ji_nil ji_nil).
  - apply (ji_arr es [] H ji_nil).
  - apply (ji_obj [] [] ji_nil ji_nil).
  - apply (ji_obj ms [] H ji_nil).
  - assumption.
  - apply jinner_app; [assumption|]. apply ji_plain; [exact comma_plain|assumption].
  - apply jinner_app; [apply jstring_inner; assumption|]. apply ji_plain; [exact colon_plain|assumption].
  - apply jinner_app; [apply jstring_inner; assumption|]. apply ji_plain; [exact colon_plain|].
    apply jinner_app; [assumption|]. apply ji_plain; [exact comma_plain|assumption].
Qed.

Lemma rev_wrap (o c : byte) (a s pre : bytes) : rev (o :: a ++ c :: s) ++ pre = rev s ++ c :: rev a ++ o :: pre.
Proof. cbn [rev]. rewrite rev_app_distr. cbn [rev]. repeat rewrite <- app_assoc. reflexivity. Qed.

(* ---- the scanner on these texts ---- *)
Lemma escaped_rev_other b pre : N.eqb b b_bslash = false -> escaped_rev (b :: pre) = false.
Proof. intros H. cbn. rewrite H. reflexivity. Qed.

(* inside a string *)
Lemma jscan_body body : jstr_body body -> forall pre todo cu sq f,
  escaped_rev pre = false ->
  jscan pre (body ++ todo) (mkc 1 cu sq f) = jscan (rev body ++ pre) todo (mkc 1 cu sq f) /\
  escaped_rev (rev body ++ pre) = false.
Proof.
  induction 1 as [|b s Hq Hb Hs IH|b s Hs IH]; intros pre todo cu sq f He.
  - split; [reflexivity|exact He].
  - cbn [app jscan]. unfold jstep. rewrite Hq. cbn [andb jq mkc Z.ltb Z.compare].
    destruct (IH (b :: pre) todo cu sq f (escaped_rev_other b pre Hb)) as [H1 H2].
    cbn [rev]. rewrite <- app_assoc. cbn [app]. split; assumption.
  - cbn [app jscan]. unfold jstep at 1.
    replace (N.eqb b_bslash b_quote) with false by reflexivity. cbn [andb jq mkc Z.ltb Z.compare].
    cbn [jscan]. unfold jstep at 1.
    assert (Hesc : escaped_rev (b_bslash :: pre) = true) by (cbn; rewrite He; reflexivity).
    rewrite Hesc. rewrite andb_false_r. cbn [jq mkc Z.ltb Z.compare].
    assert (He2 : escaped_rev (b :: b_bslash :: pre) = false).
    { cbn. destruct (N.eqb b b_bslash); [|reflexivity]. cbn. rewrite He. reflexivity. }
    destruct (IH (b :: b_bslash :: pre) todo cu sq f He2) as [H1 H2].
    cbn [rev]. rewrite <- !app_assoc. cbn [app]. split; assumption.
Qed.

Definition depth (f : jkind) (cu sq : Z) : Z := match f with JCurly => cu | JSquare => sq | JQuote => 0 end.

Lemma leb_pos z : (1 <= z)%Z -> Z.leb z 0 = false.
Proof. intros H. apply Z.leb_gt. lia. Qed.

(* inside the first enclosure (kind f, depth >= 1), outside any string *)
Lemma jscan_inner a : jinner a -> forall pre todo cu sq f,
  escaped_rev pre = false -> f <> JQuote -> (1 <= depth f cu sq)%Z ->
  jscan pre (a ++ todo) (mkc 0 cu sq (Some f)) = jscan (rev a ++ pre) todo (mkc 0 cu sq (Some f)) /\
  escaped_rev (rev a ++ pre) = false.
Proof.
  induction 1 as [|b s Hb Hs IH|body s Hbody Hs IH|a s Ha IHa Hs IHs|a s Ha IHa Hs IHs];
    intros pre todo cu sq f He Hf Hd.
  - split; [reflexivity|exact He].
  - destruct (jspecial_false b Hb) as (E1 & E2 & E3 & E4 & E5 & E6).
    cbn [app jscan]. unfold jstep. rewrite E1, E3, E4, E5, E6. cbn [andb jq jfirst mkc Z.ltb Z.compare].
    assert (Hc : (if is_ws b then JContinue (mkc 0 cu sq (Some f)) else JContinue (mkc 0 cu sq (Some f)))
                 = JContinue (mkc 0 cu sq (Some f))) by (destruct (is_ws b); reflexivity).
    rewrite Hc. destruct (IH (b :: pre) todo cu sq f (escaped_rev_other b pre E2) Hf Hd) as [H1 H2].
    cbn [rev]. rewrite <- app_assoc. cbn [app]. split; assumption.
  - (* a string: opening quote, body, closing quote *)
    cbn [app jscan]. unfold jstep at 1. rewrite He.
    replace (N.eqb b_quote b_quote) with true by reflexivity. cbn [andb negb jq mkc Z.eqb].
    unfold jafter, jset. cbn [jq jc js jfirst mkc jget].
    assert (Hleb : Z.leb (jget {| jq := 1; jc := cu; js := sq; jfirst := Some f |} f) 0 = false).
    { destruct f; cbn [jget jq jc js]; [congruence|apply leb_pos; exact Hd|apply leb_pos; exact Hd]. }
    rewrite Hleb. fold (mkc 1 cu sq (Some f)).
    rewrite <- app_assoc. cbn [app].
    destruct (jscan_body body Hbody (b_quote :: pre) (b_quote :: s ++ todo) cu sq (Some f) ltac:(reflexivity)) as [H1 H2].
    rewrite H1. cbn [jscan]. unfold jstep at 1. rewrite H2.
    replace (N.eqb b_quote b_quote) with true by reflexivity. cbn [andb negb jq mkc Z.eqb].
    unfold jafter, jset. cbn [jq jc js jfirst mkc jget].
    assert (Hleb2 : Z.leb (jget {| jq := 0; jc := cu; js := sq; jfirst := Some f |} f) 0 = false).
    { destruct f; cbn [jget jq jc js]; [congruence|apply leb_pos; exact Hd|apply leb_pos; exact Hd]. }
    replace (if (1 =? 1)%positive then 0%Z else 1%Z) with 0%Z by reflexivity. rewrite Hleb2. fold (mkc 0 cu sq (Some f)).
    destruct (IH (b_quote :: rev body ++ b_quote :: pre) todo cu sq f ltac:(reflexivity) Hf Hd) as [H3 H4].
    rewrite H3, rev_wrap. split; [reflexivity|exact H4].
  - (* nested array *)
    cbn [app jscan]. unfold jstep at 1.
    replace (N.eqb b_lsquare b_quote) with false by reflexivity. cbn [andb jq mkc Z.ltb Z.compare].
    replace (N.eqb b_lsquare b_lcurly) with false by reflexivity.
    replace (N.eqb b_lsquare b_lsquare) with true by reflexivity.
    unfold jafter, jset. cbn [jq jc js jfirst mkc jget].
    assert (Hd1 : (1 <= depth f cu (sq + 1))%Z) by (destruct f; cbn [depth] in *; lia).
    assert (Hleb : Z.leb (jget {| jq := 0; jc := cu; js := sq + 1; jfirst := Some f |} f) 0 = false).
    { destruct f; cbn [jget jq jc js depth] in *; [congruence|apply leb_pos; lia|apply leb_pos; lia]. }
    rewrite Hleb. fold (mkc 0 cu (sq + 1) (Some f)).
    rewrite <- app_assoc. cbn [app].
    destruct (IHa (b_lsquare :: pre) (b_rsquare :: s ++ todo) cu (sq + 1)%Z f ltac:(reflexivity) Hf Hd1) as [H1 H2].
    rewrite H1. cbn [jscan]. unfold jstep at 1.
    replace (N.eqb b_rsquare b_quote) with false by reflexivity. cbn [andb jq mkc Z.ltb Z.compare].
    replace (N.eqb b_rsquare b_lcurly) with false by reflexivity.
    replace (N.eqb b_rsquare b_lsquare) with false by reflexivity.
    replace (N.eqb b_rsquare b_rcurly) with false by reflexivity.
    replace (N.eqb b_rsquare b_rsquare) with true by reflexivity.
    unfold jafter, jset. cbn [jq jc js jfirst mkc jget].
    replace (sq + 1 - 1)%Z with sq by lia.
    assert (Hleb2 : Z.leb (jget {| jq := 0; jc := cu; js := sq; jfirst := Some f |} f) 0 = false).
    { destruct f; cbn [jget jq jc js depth] in *; [congruence|apply leb_pos; lia|apply leb_pos; lia]. }
    rewrite Hleb2. fold (mkc 0 cu sq (Some f)).
    destruct (IHs (b_rsquare :: rev a ++ b_lsquare :: pre) todo cu sq f ltac:(reflexivity) Hf Hd) as [H3 H4].
    rewrite H3, rev_wrap. split; [reflexivity|exact H4].
  - (* nested object *)
    cbn [app jscan]. unfold jstep at 1.
    replace (N.eqb b_lcurly b_quote) with false by reflexivity. cbn [andb jq mkc Z.ltb Z.compare].
    replace (N.eqb b_lcurly b_lcurly) with true by reflexivity.
    unfold jafter, jset. cbn [jq jc js jfirst mkc jget].
    assert (Hd1 : (1 <= depth f (cu + 1) sq)%Z) by (destruct f; cbn [depth] in *; lia).
    assert (Hleb : Z.leb (jget {| jq := 0; jc := cu + 1; js := sq; jfirst := Some f |} f) 0 = false).
    { destruct f; cbn [jget jq jc js depth] in *; [congruence|apply leb_pos; lia|apply leb_pos; lia]. }
    rewrite Hleb. fold (mkc 0 (cu + 1) sq (Some f)).
    rewrite <- app_assoc. cbn [app].
    destruct (IHa (b_lcurly :: pre) (b_rcurly :: s ++ todo) (cu + 1)%Z sq f ltac:(reflexivity) Hf Hd1) as [H1 H2].
    rewrite H1. cbn [jscan]. unfold jstep at 1.
    replace (N.eqb b_rcurly b_quote) with false by reflexivity. cbn [andb jq mkc Z.ltb Z.compare].
    replace (N.eqb b_rcurly b_lcurly) with false by reflexivity.
    replace (N.eqb b_rcurly b_lsquare) with false by reflexivity.
    replace (N.eqb b_rcurly b_rcurly) with true by reflexivity.
    unfold jafter, jset. cbn [jq jc js jfirst mkc jget].
    replace (cu + 1 - 1)%Z with cu by lia.
    assert (Hleb2 : Z.leb (jget {| jq := 0; jc := cu; js := sq; jfirst := Some f |} f) 0 = false).
    { destruct f; cbn [jget jq jc js depth] in *; [congruence|apply leb_pos; lia|apply leb_pos; lia]. }
    rewrite Hleb2. fold (mkc 0 cu sq (Some f)).
    destruct (IHs (b_rcurly :: rev a ++ b_lcurly :: pre) todo cu sq f ltac:(reflexivity) Hf Hd) as [H3 H4].
    rewrite H3, rev_wrap. split; [reflexivity|exact H4].
Qed.

(* ---- jsonraw_split_balanced: the scanner returns exactly at the last byte of a grammar document ---- *)
Lemma split_array a rest : jinner a ->
  jscan [] ((b_lsquare :: a ++ [b_rsquare]) ++ rest) jcount0 = JSClosed (length (b_lsquare :: a ++ [b_rsquare])).
Proof.
  intros Ha. cbn [app]. rewrite <- app_assoc. cbn [app jscan].
  replace (jstep [] jcount0 b_lsquare) with (JContinue (mkc 0 0 1 (Some JSquare))) by reflexivity.
  destruct (jscan_inner a Ha [b_lsquare] (b_rsquare :: rest) 0%Z 1%Z JSquare eq_refl ltac:(discriminate) ltac:(cbn; lia)) as [H1 _].
  rewrite H1. cbn [jscan]. unfold jstep. cbn. rewrite !app_length, rev_length. cbn. f_equal; try lia.
Qed.

Lemma split_object a rest : jinner a ->
  jscan [] ((b_lcurly :: a ++ [b_rcurly]) ++ rest) jcount0 = JSClosed (length (b_lcurly :: a ++ [b_rcurly])).
Proof.
  intros Ha. cbn [app]. rewrite <- app_assoc. cbn [app jscan].
  replace (jstep [] jcount0 b_lcurly) with (JContinue (mkc 0 1 0 (Some JCurly))) by reflexivity.
  destruct (jscan_inner a Ha [b_lcurly] (b_rcurly :: rest) 1%Z 0%Z JCurly eq_refl ltac:(discriminate) ltac:(cbn; lia)) as [H1 _].
  rewrite H1. cbn [jscan]. unfold jstep. cbn. rewrite !app_length, rev_length. cbn. f_equal; try lia.
Qed.

Lemma split_string body rest : jstr_body body ->
  jscan [] ((b_quote :: body ++ [b_quote]) ++ rest) jcount0 = JSClosed (length (b_quote :: body ++ [b_quote])).
Proof.
  intros Hb. cbn [app]. rewrite <- app_assoc. cbn [app jscan].
  replace (jstep [] jcount0 b_quote) with (JContinue (mkc 1 0 0 (Some JQuote))) by reflexivity.
  destruct (jscan_body body Hb [b_quote] (b_quote :: rest) 0%Z 0%Z (Some JQuote) eq_refl) as [H1 H2].
  rewrite H1. cbn [jscan]. unfold jstep. rewrite H2. cbn. rewrite !app_length, rev_length. cbn. f_equal; try lia.
Qed.

Lemma value_byte_not_ws b : is_value_byte b = true -> is_ws b = false.
Proof.
  unfold is_value_byte, is_ws. rewrite andb_true_iff, !N.leb_le. intros [H1 H2].
  rewrite !orb_false_iff, !N.eqb_neq. lia.
Qed.

Lemma atom_head a : jatom a -> exists b a', a = b :: a' /\ jspecial b = false /\ is_ws b = false /\ forallb atom_byte a' = true.
Proof.
  intros [Hne Hall]. destruct a as [|b a']; [congruence|]. cbn in Hall. rewrite andb_true_iff in Hall. destruct Hall as [Hb Ha].
  unfold atom_byte in Hb. rewrite andb_true_iff, negb_true_iff in Hb. destruct Hb as [Hv Hs].
  exists b, a'. repeat split; auto. apply value_byte_not_ws; assumption.
Qed.

Lemma atom_not_enclosure a : jatom a -> starts_enclosure a = false.
Proof.
  intros Ha. destruct (atom_head a Ha) as (b & a' & -> & Hs & _ & _). cbn.
  destruct (jspecial_false b Hs) as (E1 & _ & E3 & _ & E5 & _). rewrite E1, E3, E5. reflexivity.
Qed.

Theorem jsonraw_split_balanced v rest : jvalue v -> starts_enclosure v = true ->
  jscan [] (v ++ rest) jcount0 = JSClosed (length v).
Proof.
  intros Hv Hs. destruct Hv as [s (body & Hb & ->)|a Ha| |es He| |ms Hm].
  - apply split_string; assumption.
  - rewrite (atom_not_enclosure a Ha) in Hs. discriminate.
  - apply (split_array [] rest ji_nil).
  - apply split_array. apply (proj1 (proj2 grammar_inner)); assumption.
  - apply (split_object [] rest ji_nil).
  - apply split_object. apply (proj2 (proj2 grammar_inner)); assumption.
Qed.

(* ---- one feed of raw_parse on the whole buffer (J) for grammar documents ---- *)
Section JsonDocs.
  Variable limit : nat.
  Definition J (w : bytes) : fres jstate bytes := jraw_feed limit JInit w.

  Lemma firstn_app_exact {X} (a b : list X) : firstn (length a) (a ++ b) = a.
  Proof. induction a; cbn; [destruct b; reflexivity|f_equal; assumption]. Qed.

  Lemma enclosure_ne v : starts_enclosure v = true -> v <> [].
  Proof. destruct v; [discriminate|discriminate]. Qed.

  Lemma J_done_enclosure v rest : jvalue v -> starts_enclosure v = true -> length v <= limit -> ws_run rest = 0 ->
    J (v ++ rest) = Done v rest.
  Proof.
    intros Hv Hs Hl Hw. unfold J. cbn [jraw_feed]. unfold jenc. cbn [app rev].
    rewrite (jsonraw_split_balanced v rest Hv Hs). unfold jsplit.
    destruct (Nat.ltb limit (length v)) eqn:El; [apply Nat.ltb_lt in El; lia|].
    rewrite skipn_app_exact, Hw, Nat.add_0_r.
    destruct rest as [|b r].
    - rewrite app_nil_r, Nat.eqb_refl. reflexivity.
    - destruct (Nat.eqb (length v) (length (v ++ b :: r))) eqn:Ee.
      + apply Nat.eqb_eq in Ee. rewrite app_length in Ee. cbn in Ee. lia.
      + rewrite firstn_app_exact, skipn_app_exact. pose proof (enclosure_ne v Hs). destruct v; [congruence|reflexivity].
  Qed.

  Lemma J_need_enclosure v p q : jvalue v -> starts_enclosure v = true -> length v <= limit ->
    v = p ++ q -> q <> [] -> exists s', J p = Need s'.
  Proof.
    intros Hv Hs Hl Heq Hq.
    pose proof (jsonraw_split_balanced v [] Hv Hs) as Hc. rewrite app_nil_r in Hc. rewrite Heq in Hc.
    assert (Hlen : length p < length v) by (rewrite Heq, app_length; destruct q; [congruence|cbn; lia]).
    destruct (jscan_prefix_closed p q _ Hc) as [[_ Hle]|[c' [E _]]]; [rewrite <- Heq in Hle; lia|].
    unfold J. cbn [jraw_feed]. unfold jenc. cbn [app rev]. rewrite E.
    destruct (Nat.ltb limit (length p)) eqn:El; [apply Nat.ltb_lt in El; lia|]. eauto.
  Qed.

  Lemma find_nonvalue_atoms a x : forallb atom_byte a = true ->
    find_nonvalue (a ++ x) = option_map (fun i => length a + i) (find_nonvalue x).
  Proof.
    induction a as [|b a IH]; cbn [app forallb length]; intros H.
    - destruct (find_nonvalue x); reflexivity.
    - rewrite andb_true_iff in H. destruct H as [Hb Ha]. unfold atom_byte in Hb. rewrite andb_true_iff in Hb.
      cbn [find_nonvalue]. destruct Hb as [-> _]. rewrite (IH Ha). destruct (find_nonvalue x); reflexivity.
  Qed.

  Lemma jscan_atom_start b x : jspecial b = false -> is_ws b = false -> jscan [] (b :: x) jcount0 = JSPlain 0.
  Proof.
    intros Hs Hw. destruct (jspecial_false b Hs) as (E1 & E2 & E3 & E4 & E5 & E6).
    cbn [jscan]. unfold jstep. rewrite E1, E3, E4, E5, E6, Hw. reflexivity.
  Qed.

  Lemma J_done_plain a rest : jatom a -> length a <= limit -> ws_run rest = 0 ->
    J ((a ++ [b_nl]) ++ rest) = Done (a ++ [b_nl]) rest.
  Proof.
    intros Ha Hl Hw. destruct (atom_head a Ha) as (b & a' & Hab & Hs & Hws & Ha').
    assert (Hall : forallb atom_byte a = true) by (destruct Ha; assumption).
    unfold J. cbn [jraw_feed]. unfold jenc. cbn [app rev].
    rewrite <- app_assoc. cbn [app].
    replace (jscan [] (a ++ b_nl :: rest) jcount0) with (JSPlain 0) by (rewrite Hab; symmetry; apply jscan_atom_start; assumption).
    cbn [skipn]. unfold jplain. rewrite (find_nonvalue_atoms a (b_nl :: rest) Hall).
    replace (find_nonvalue (b_nl :: rest)) with (Some 0) by reflexivity. cbn [option_map]. rewrite Nat.add_0_r.
    unfold jsplit. destruct (Nat.ltb limit (length a)) eqn:El; [apply Nat.ltb_lt in El; lia|].
    rewrite skipn_app_exact.
    replace (ws_run (b_nl :: rest)) with (S (ws_run rest)) by reflexivity. rewrite Hw.
    destruct rest as [|c r].
    - replace (length (a ++ [b_nl])) with (length a + 1) by (rewrite app_length; reflexivity).
      rewrite Nat.eqb_refl. reflexivity.
    - destruct (Nat.eqb (length a + 1) (length (a ++ b_nl :: c :: r))) eqn:Ee.
      + apply Nat.eqb_eq in Ee. rewrite app_length in Ee. cbn in Ee. lia.
      + replace (a ++ b_nl :: c :: r) with ((a ++ [b_nl]) ++ c :: r) by (rewrite <- app_assoc; reflexivity).
        replace (length a + 1) with (length (a ++ [b_nl])) by (rewrite app_length; reflexivity).
        rewrite firstn_app_exact, skipn_app_exact. destruct (a ++ [b_nl]) eqn:En; [|reflexivity].
        destruct a; discriminate.
  Qed.

  Lemma J_need_plain a p q : jatom a -> length a <= limit -> a ++ [b_nl] = p ++ q -> p <> [] -> q <> [] ->
    exists s', J p = Need s'.
  Proof.
    intros Ha Hl Heq Hp Hq.
    destruct (exists_last Hq) as (q' & x & ->). rewrite app_assoc in Heq. apply app_inj_tail in Heq as [Heq _].
    assert (Hall : forallb atom_byte a = true) by (destruct Ha; assumption).
    rewrite Heq, forallb_app in Hall. apply andb_true_iff in Hall as [Hpall _].
    destruct p as [|b p']; [congruence|]. cbn in Hpall. pose proof Hpall as Hpall0.
    rewrite andb_true_iff in Hpall. destruct Hpall as [Hb Hp'].
    unfold atom_byte in Hb. rewrite andb_true_iff, negb_true_iff in Hb. destruct Hb as [Hv Hs].
    unfold J. cbn [jraw_feed]. unfold jenc. cbn [app rev].
    rewrite (jscan_atom_start b p' Hs (value_byte_not_ws b Hv)). cbn [skipn]. unfold jplain.
    pose proof (find_nonvalue_atoms (b :: p') [] Hpall0) as Hf. rewrite app_nil_r in Hf. rewrite Hf. cbn [find_nonvalue option_map].
    assert (length (b :: p') <= limit) by (rewrite Heq, app_length in Hl; lia).
    destruct (Nat.ltb limit (length (b :: p'))) eqn:El; [apply Nat.ltb_lt in El; lia|]. eauto.
  Qed.

  Lemma jdoc_head d x : jdoc d -> ws_run (d ++ x) = 0.
  Proof.
    intros [v Hv Hs|a Ha].
    - destruct v as [|b v']; [discriminate|]. cbn in Hs |- *.
      rewrite !orb_true_iff, !N.eqb_eq in Hs. destruct Hs as [[->| ->]| ->]; reflexivity.
    - destruct (atom_head a Ha) as (b & a' & -> & _ & Hw & _). cbn. rewrite Hw. reflexivity.
  Qed.

  Lemma jdoc_ne d : jdoc d -> d <> [].
  Proof. intros [v Hv Hs|a Ha]; [apply enclosure_ne; assumption|destruct a; discriminate]. Qed.

  (* both kinds of document *)
  Lemma J_done d rest : jdoc d -> length d <= limit -> ws_run rest = 0 -> J (d ++ rest) = Done d rest.
  Proof.
    intros [v Hv Hs|a Ha] Hl Hw.
    - apply J_done_enclosure; assumption.
    - apply J_done_plain; [assumption| |assumption]. rewrite app_length in Hl. lia.
  Qed.

  Lemma J_need d p q : jdoc d -> length d <= limit -> d = p ++ q -> p <> [] -> q <> [] -> exists s', J p = Need s'.
  Proof.
    intros [v Hv Hs|a Ha] Hl Heq Hp Hq.
    - eapply J_need_enclosure; eauto.
    - eapply J_need_plain; eauto. rewrite app_length in Hl. lia.
  Qed.
End JsonDocs.

(* ---- json_roundtrip ---- *)
Section JsonRoundtrip.
  Context {P : Type}.
  Variable limit : nat.
  Variable dec : decoder P.

  Let F := json_framer limit dec.
  Definition jrep_ne (s : jstate) (w : bytes) : Prop := jrep s w /\ w <> [].
  Definition jdoc_ok (d : bytes) : Prop := jdoc d /\ length d <= limit.
  Definition jev (d : bytes) : nres P := match dec d with Some p => RPkt p | None => RErr EDecode end.

  Lemma holds_whole s w ch : holds F jrep_ne s w -> jraw_feed limit s ch = J limit (w ++ ch).
  Proof.
    intros [[-> ->]|[Hr _]]; [reflexivity|]. apply jraw_feed_whole; assumption.
  Qed.

  Theorem json_roundtrip_l (docs chunks : list bytes) fuel :
    Forall (fun ch => ch <> []) chunks -> Forall jdoc_ok docs -> concat chunks = concat docs ->
    length (concat chunks) < fuel ->
    exists c', cdeliver F fuel (cinit F) chunks = (c', map jev docs) /\ cbuf c' = [] /\ ccons c' = None.
  Proof.
    intros Hne Hd Heq Hf.
    destruct (roundtrip_spec F jrep_ne jdoc_ok jev (fun _ => True) (fun r => ws_run r = 0)) with (chunks0 := chunks) (docs0 := docs) (fuel := fuel)
      as (c' & Hdl & Hb & Hc); auto.
    - intros s w [_ H]; exact H.
    - intros d [Hj _]. apply jdoc_ne; assumption.
    - intros d x [Hj _]. apply jdoc_head; assumption.
    - intros a b Ha H. destruct a as [|x a]; [congruence|]. cbn in *. destruct (is_ws x); [discriminate|reflexivity].
    - (* feed_need *)
      intros s w ch d q Hh Hch [Hj Hl] Hdq Hq _.
      assert (Hp : w ++ ch <> []) by (destruct w; [cbn; assumption|discriminate]).
      destruct (J_need limit d (w ++ ch) q Hj Hl Hdq Hp Hq) as (s' & Hn).
      exists s'. cbn. unfold json_feed. rewrite (holds_whole s w ch Hh), Hn. split; [reflexivity|].
      split; [apply (jraw_need_rep limit); exact Hn|exact Hp].
    - (* feed_done *)
      intros s w ch d r Hh [Hj Hl] Hwr Hlw Hr _.
      cbn. unfold json_feed. rewrite (holds_whole s w ch Hh), Hwr, (J_done limit d r Hj Hl Hr). unfold jev.
      destruct (dec d) as [p|]; [left; exists p; auto|right; exists EDecode; auto].
    - exists c'. auto.
  Qed.
End JsonRoundtrip.
