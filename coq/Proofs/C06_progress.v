(* C06 (iii): every event of a framer consumes at least one of the bytes it was given since its previous event;
   hence a receive loop that skips errors produces at most length-of-input events and its drain loop stops by itself. *)
From Coq Require Import ZArith List Bool Lia Arith.
From EN Require Import Lib.Bytes Frame.Framer Frame.ReadUntil Frame.JsonRaw Frame.ErrSites Frame.Generic Stream.Consumer
  Proofs.Bytes_proofs.
Import ListNotations.

(* ---- the interface: [held s] = number of bytes the suspended generator keeps ---- *)
Record progressive {P} (F : framer P) (held : fst_ F -> nat) : Prop := {
  pg_init : held (finit F) = 0;
  pg_need : forall s c s', ffeed F s c = Need s' -> held s' <= held s + length c;
  pg_done : forall s c p rest, c <> [] -> ffeed F s c = Done p rest -> length rest < held s + length c;
  pg_fail : forall s c e rest, c <> [] -> ffeed F s c = Fail e rest -> length rest < held s + length c
}.

Lemma skipn_len_lt {X} n (l : list X) : 1 <= n -> l <> [] -> length (skipn n l) < length l.
Proof. intros Hn Hl. rewrite skipn_length. destruct l; [congruence|]. cbn [length]. lia. Qed.

Lemma skipn_len_le {X} n (l : list X) : length (skipn n l) <= length l.
Proof. rewrite skipn_length; lia. Qed.

Lemma nonempty_len {X} (l : list X) : l <> [] -> 1 <= length l.
Proof. destruct l; [congruence|cbn [length]; lia]. Qed.

Lemma len_nonempty {X} (l : list X) : 1 <= length l -> l <> [].
Proof. destruct l; cbn [length]; [lia|congruence]. Qed.

(* ---- read_until ---- *)
Section RU.
  Context {P : Type}.
  Variables (sep : bytes) (limit : nat) (keep_end : bool) (dec : decoder P).
  Hypothesis sep_ne : 1 <= length sep.

  Definition ru_held (s : ru_state) : nat := match s with None => 0 | Some (b, _) => length b end.

  Lemma ru_scan_progress buffer offset :
    match ru_scan sep limit keep_end dec buffer offset with
    | Need s' => ru_held s' = length buffer
    | Done _ rest | Fail _ rest => length rest < length buffer
    | Crash => False
    end.
  Proof.
    unfold ru_scan, seplen. destruct (Nat.leb (length sep) (length buffer - offset)) eqn:E; [|reflexivity].
    apply Nat.leb_le in E.
    assert (Hb : buffer <> []) by (apply len_nonempty; lia).
    destruct (find sep buffer offset) as [sepidx|] eqn:Ef.
    - unfold ru_finish, seplen. destruct (Nat.ltb limit sepidx) eqn:El.
      + apply Nat.ltb_lt in El. pose proof (overrun_remainder_len sep buffer sepidx). lia.
      + assert (length (skipn (sepidx + length sep) buffer) < length buffer) by (apply skipn_len_lt; [lia|assumption]).
        destruct (dec _); assumption.
    - destruct (Nat.ltb limit (length buffer + 1 - length sep)) eqn:El; [|reflexivity].
      apply Nat.ltb_lt in El. pose proof (overrun_remainder_len sep buffer (length buffer + 1 - length sep)). lia.
  Qed.

  Lemma ru_progressive : progressive (ru_framer sep limit keep_end dec) ru_held.
  Proof.
    split; simpl.
    - reflexivity.
    - intros s c s' H. unfold ru_feed in H. destruct s as [[b o]|].
      + pose proof (ru_scan_progress (b ++ c) o) as Hp. rewrite H in Hp. rewrite Hp, app_length. simpl; lia.
      + destruct c; [inversion H; simpl; lia|].
        pose proof (ru_scan_progress (b :: c) 0) as Hp. rewrite H in Hp. rewrite Hp. simpl; lia.
    - intros s c p rest Hc H. unfold ru_feed in H. destruct s as [[b o]|].
      + pose proof (ru_scan_progress (b ++ c) o) as Hp. rewrite H in Hp. rewrite app_length in Hp. simpl; lia.
      + destruct c; [congruence|]. pose proof (ru_scan_progress (b :: c) 0) as Hp. rewrite H in Hp. simpl in *; lia.
    - intros s c e rest Hc H. unfold ru_feed in H. destruct s as [[b o]|].
      + pose proof (ru_scan_progress (b ++ c) o) as Hp. rewrite H in Hp. rewrite app_length in Hp. simpl; lia.
      + destruct c; [congruence|]. pose proof (ru_scan_progress (b :: c) 0) as Hp. rewrite H in Hp. simpl in *; lia.
  Qed.
End RU.

(* ---- read_exactly / fixed size ---- *)
Section RX.
  Context {P : Type}.
  Variables (size : nat) (dec : decoder P).
  Hypothesis size_pos : 1 <= size.

  Definition rx_held (s : rx_state) : nat := match s with None => 0 | Some b => length b end.

  Lemma rx_check_progress buffer :
    match rx_check size dec buffer with
    | Need s' => rx_held s' = length buffer
    | Done _ rest | Fail _ rest => length rest < length buffer
    | Crash => False
    end.
  Proof.
    unfold rx_check. destruct (Nat.ltb (length buffer) size) eqn:E; [reflexivity|].
    apply Nat.ltb_ge in E.
    assert (length (skipn size buffer) < length buffer) by (apply skipn_len_lt; [lia|apply len_nonempty; lia]).
    destruct (dec _); assumption.
  Qed.

  Lemma rx_progressive : progressive (rx_framer size dec) rx_held.
  Proof.
    split; simpl.
    - reflexivity.
    - intros s c s' H. unfold rx_feed in H. destruct s as [b|].
      + pose proof (rx_check_progress (b ++ c)) as Hp. rewrite H in Hp. rewrite Hp, app_length. simpl; lia.
      + destruct c; [inversion H; simpl; lia|].
        pose proof (rx_check_progress (b :: c)) as Hp. rewrite H in Hp. rewrite Hp. simpl; lia.
    - intros s c p rest Hc H. unfold rx_feed in H. destruct s as [b|].
      + pose proof (rx_check_progress (b ++ c)) as Hp. rewrite H in Hp. rewrite app_length in Hp. simpl; lia.
      + destruct c; [congruence|]. pose proof (rx_check_progress (b :: c)) as Hp. rewrite H in Hp. simpl in *; lia.
    - intros s c e rest Hc H. unfold rx_feed in H. destruct s as [b|].
      + pose proof (rx_check_progress (b ++ c)) as Hp. rewrite H in Hp. rewrite app_length in Hp. simpl; lia.
      + destruct c; [congruence|]. pose proof (rx_check_progress (b :: c)) as Hp. rewrite H in Hp. simpl in *; lia.
  Qed.
End RX.

(* ---- raw JSON ---- *)
Section JSON.
  Variable limit : nat.

  Definition j_held (s : jstate) : nat :=
    match s with JInit => 0 | JEnc doc _ => length doc | JPlain doc => length doc end.

  Definition j_ok {P} (n : nat) (r : fres jstate P) : Prop :=
    match r with
    | Need s' => j_held s' <= n
    | Done _ rest | Fail _ rest => length rest < n
    | Crash => False
    end.

  Lemma j_ok_mono {P} n m (r : fres jstate P) : n <= m -> j_ok n r -> j_ok m r.
  Proof. destruct r; simpl; intros; lia || assumption. Qed.

  Lemma jsplit_progress doc consumed : doc <> [] -> j_ok (length doc) (jsplit limit doc consumed).
  Proof.
    intros Hd. pose proof (nonempty_len _ Hd) as Hl. unfold jsplit, j_ok.
    destruct (Nat.ltb limit consumed) eqn:El.
    - apply Nat.ltb_lt in El. pose proof (overrun_remainder_len [] doc consumed). lia.
    - destruct (Nat.eqb (consumed + ws_run (skipn consumed doc)) (length doc)) eqn:Ee.
      + simpl; lia.
      + destruct (firstn (consumed + ws_run (skipn consumed doc)) doc) eqn:Ef.
        * simpl; lia.
        * apply skipn_len_lt; [|assumption].
          destruct (consumed + ws_run (skipn consumed doc)); [simpl in Ef; congruence|lia].
  Qed.

  Lemma jplain_progress doc : j_ok (length doc) (jplain limit doc).
  Proof.
    unfold jplain. destruct (find_nonvalue doc) as [idx|] eqn:Ef.
    - apply jsplit_progress. destruct doc; [simpl in Ef; congruence|congruence].
    - destruct (Nat.ltb limit (length doc)) eqn:El; [|simpl; lia].
      apply Nat.ltb_lt in El. unfold j_ok. pose proof (overrun_remainder_len [] doc (length doc)). lia.
  Qed.

  Lemma jscan_nil_or pre todo c : todo = [] -> jscan pre todo c = JSMore c.
  Proof. intros ->; reflexivity. Qed.

  Lemma jenc_progress old chunk c : j_ok (length old + length chunk) (jenc limit old chunk c).
  Proof.
    unfold jenc. rewrite <- app_length.
    destruct (jscan (rev old) chunk c) as [c'|consumed|off] eqn:Es.
    - destruct (Nat.ltb limit (length (old ++ chunk))) eqn:El; [|simpl; lia].
      apply Nat.ltb_lt in El. unfold j_ok. pose proof (overrun_remainder_len [] (old ++ chunk) (length (old ++ chunk))). lia.
    - apply jsplit_progress. destruct chunk; [simpl in Es; congruence|]. destruct old; simpl; congruence.
    - eapply j_ok_mono; [|apply jplain_progress]. apply skipn_len_le.
  Qed.

  Lemma jraw_feed_progress s chunk : j_ok (j_held s + length chunk) (jraw_feed limit s chunk).
  Proof.
    destruct s; simpl.
    - apply (jenc_progress [] chunk jcount0).
    - apply jenc_progress.
    - rewrite <- app_length. apply jplain_progress.
  Qed.

  Context {P : Type}.
  Variable dec : decoder P.

  Lemma json_feed_progress s chunk : j_ok (j_held s + length chunk) (json_feed limit dec s chunk).
  Proof.
    unfold json_feed. pose proof (jraw_feed_progress s chunk) as H.
    destruct (jraw_feed limit s chunk); simpl in *; try assumption.
    destruct (dec p); simpl; assumption.
  Qed.

  Lemma json_progressive : progressive (json_framer limit dec) j_held.
  Proof.
    split; simpl.
    - reflexivity.
    - intros s c s' H. pose proof (json_feed_progress s c) as Hp. rewrite H in Hp. exact Hp.
    - intros s c p rest _ H. pose proof (json_feed_progress s c) as Hp. rewrite H in Hp. exact Hp.
    - intros s c e rest _ H. pose proof (json_feed_progress s c) as Hp. rewrite H in Hp. exact Hp.
  Qed.
End JSON.

(* ---- file based: needs the loader to have read something before it returns or fails ---- *)
Section FB.
  Context {P : Type}.
  Variables (limit : nat) (load : bytes -> lres P) (expected : Z -> bool).
  Hypothesis load_eof_pos : forall content pos, load content = LEof pos -> pos <= length content.
  Hypothesis load_done_pos : forall content p pos, load content = LDone p pos -> 1 <= pos.
  Hypothesis load_raise_pos : forall content k pos, load content = LRaise k pos -> 1 <= pos.

  (* a loader may leave the file position anywhere; BytesIO.write then extends the buffer up to position + len *)
  Definition fb_held (s : fb_state) : nat :=
    match s with None => 0 | Some (content, pos) => Nat.max (length content) pos end.

  Lemma fb_round_progress content : content <> [] ->
    match fb_round limit load expected content with
    | Need s' => fb_held s' = length content
    | Done _ rest | Fail _ rest => length rest < length content
    | Crash => True
    end.
  Proof.
    intros Hc. pose proof (nonempty_len _ Hc). unfold fb_round.
    destruct (Nat.ltb limit (length content)) eqn:El.
    - pose proof (overrun_remainder_len [] content (length content)). lia.
    - destruct (load content) as [pos|p pos|k pos] eqn:E.
      + simpl. specialize (load_eof_pos _ _ E). lia.
      + apply skipn_len_lt; eauto.
      + destruct (expected k); [|exact I]. apply skipn_len_lt; eauto.
  Qed.

  Lemma bio_write_len content pos data :
    length (bio_write content pos data) <= Nat.max (length content) pos + length data /\
    length data <= length (bio_write content pos data).
  Proof. unfold bio_write. rewrite !app_length, firstn_length, repeat_length, skipn_length. lia. Qed.

  Lemma fb_feed_progress s (c : bytes) : c <> [] ->
    match fb_feed limit load expected s c with
    | Need s' => fb_held s' <= fb_held s + length c
    | Done _ rest | Fail _ rest => length rest < fb_held s + length c
    | Crash => True
    end.
  Proof.
    intros Hc. pose proof (nonempty_len _ Hc). unfold fb_feed. destruct s as [[content pos]|]; cbn [fb_held].
    - pose proof (bio_write_len content pos c) as [H1 H2].
      assert (Hne : bio_write content pos c <> []) by (apply len_nonempty; lia).
      pose proof (fb_round_progress _ Hne) as Hp.
      destruct (fb_round limit load expected (bio_write content pos c)); try lia; exact I.
    - pose proof (fb_round_progress _ Hc) as Hp.
      destruct (fb_round limit load expected c); try lia; exact I.
  Qed.

  Lemma fb_progressive : progressive (fb_framer limit load expected) fb_held.
  Proof.
    split; simpl.
    - reflexivity.
    - intros s c s' H. destruct c as [|b c].
      + (* an empty chunk is never sent by the consumers; the bound still holds *)
        unfold fb_feed in H. destruct s as [[content pos]|]; cbn [fb_held].
        * unfold fb_round in H. destruct (Nat.ltb _ _); [congruence|].
          destruct (load _) as [p0|p0 q|k q] eqn:E; try congruence.
          -- inversion H; subst. cbn [fb_held]. specialize (load_eof_pos _ _ E).
             pose proof (bio_write_len content pos []). simpl in *. lia.
          -- destruct (expected k); congruence.
        * unfold fb_round in H. destruct (Nat.ltb _ _); [congruence|].
          destruct (load _) as [p0|p0 q|k q] eqn:E; try congruence.
          -- inversion H; subst. cbn [fb_held]. specialize (load_eof_pos _ _ E). simpl in *. lia.
          -- destruct (expected k); congruence.
      + pose proof (fb_feed_progress s (b :: c) ltac:(congruence)) as Hp. rewrite H in Hp. exact Hp.
    - intros s c p rest Hc H. pose proof (fb_feed_progress s c Hc) as Hp. rewrite H in Hp. exact Hp.
    - intros s c e rest Hc H. pose proof (fb_feed_progress s c Hc) as Hp. rewrite H in Hp. exact Hp.
  Qed.
End FB.

(* ---- compressors: the decompressor reaches eof inside the chunk that completes the stream ---- *)
Section CZ.
  Context {P : Type}.
  Variables (D : Type) (dnew : D) (ddecompress : D -> bytes -> (D * bytes) + Z) (deof : D -> bool) (dunused : D -> bytes).
  Variables (expected : Z -> bool) (inner : bytes -> ores P) (inner_declared : Z -> bool).
  Hypothesis unused_in_chunk : forall d c d' out, ddecompress d c = inl (d', out) -> deof d' = true -> length (dunused d') < length c.

  Lemma cz_feed_progress st c : c <> [] ->
    match cz_feed D ddecompress deof dunused expected inner inner_declared st c with
    | Need _ | Crash => True
    | Done _ rest | Fail _ rest => length rest < length c
    end.
  Proof.
    intros Hc. pose proof (nonempty_len _ Hc). unfold cz_feed. destruct st as [results d].
    destruct (ddecompress d c) as [[d' out]|k] eqn:E.
    - destruct (deof d') eqn:Ee; [|exact I].
      unfold cz_finish. specialize (unused_in_chunk _ _ _ _ E Ee).
      destruct (inner _); [assumption|]. destruct (inner_declared k); [assumption|exact I].
    - destruct (expected k); simpl; [lia|exact I].
  Qed.

  Lemma cz_progressive :
    progressive (cz_framer D dnew ddecompress deof dunused expected inner inner_declared) (fun _ => 0).
  Proof.
    split; simpl.
    - reflexivity.
    - intros; lia.
    - intros s c p rest Hc H. pose proof (cz_feed_progress s c Hc) as Hp. rewrite H in Hp. lia.
    - intros s c e rest Hc H. pose proof (cz_feed_progress s c Hc) as Hp. rewrite H in Hp. lia.
  Qed.
End CZ.

(* ---- wrappers keep the property ---- *)
Lemma wrap_progressive {P} (F : framer P) held : progressive F held -> progressive (wrap_generic F) held.
Proof.
  intros [Hi Hn Hd Hf]. split; simpl.
  - exact Hi.
  - intros s c s' H. destruct (ffeed F s c) eqn:E; inversion H; subst. eapply Hn; eauto.
  - intros s c p rest Hc H. destruct (ffeed F s c) eqn:E; inversion H; subst. eapply Hd; eauto.
  - intros s c e rest Hc H. destruct (ffeed F s c) eqn:E; inversion H; subst. eapply Hf; eauto.
Qed.

Lemma lift_progressive {P} (F : framer (epkt P)) held : progressive F held -> progressive (lift_framer F) held.
Proof.
  intros [Hi Hn Hd Hf]. split; simpl.
  - exact Hi.
  - intros s c s' H. destruct (ffeed F s c) as [s0|[p|k] r|e r|] eqn:E; simpl in H; inversion H; subst. eapply Hn; eauto.
  - intros s c p rest Hc H. destruct (ffeed F s c) as [s0|[p0|k] r|e r|] eqn:E; simpl in H; inversion H; subst. eapply Hd; eauto.
  - intros s c e rest Hc H. destruct (ffeed F s c) as [s0|[p0|k] r|e0 r|] eqn:E; simpl in H; inversion H; subst. eapply Hf; eauto.
Qed.

(* ---- the copying consumer over a progressive framer ---- *)
Section Loop.
  Context {P : Type}.
  Variable F : framer P.
  Variable held : fst_ F -> nat.
  Hypothesis HF : progressive F held.

  (* bytes still owed to the parser: the consumer's leftover plus what the suspended generator keeps *)
  Definition phi (c : cstate F) : nat :=
    length (cbuf c) + match ccons c with Some s => held s | None => 0 end.

  Definition is_stop (r : nres P) : bool := match r with RStop => true | _ => false end.

  Lemma cfeed_phi c (data : bytes) : data <> [] ->
    let '(c', r) := cfeed F c data in
    if is_stop r then phi c' <= (match ccons c with Some s => held s | None => 0 end) + length data
    else phi c' < (match ccons c with Some s => held s | None => 0 end) + length data.
  Proof.
    intros Hd. pose proof (nonempty_len _ Hd). destruct HF as [Hi Hn Hdn Hf].
    unfold cfeed, phi.
    set (st := match ccons c with Some s => s | None => finit F end).
    assert (Hst : held st = match ccons c with Some s => held s | None => 0 end)
      by (unfold st; destruct (ccons c); [reflexivity|exact Hi]).
    destruct (ffeed F st data) eqn:E; simpl.
    - specialize (Hn _ _ _ E). lia.
    - specialize (Hdn _ _ _ _ Hd E). lia.
    - specialize (Hf _ _ _ _ Hd E). lia.
    - lia.
  Qed.

  Lemma cnext_none_phi c :
    let '(c', r) := match cbuf c with [] => (c, RStop) | b => cfeed F c b end in
    if is_stop r then phi c' <= phi c else phi c' < phi c.
  Proof.
    destruct (cbuf c) as [|b0 l0] eqn:Eb; [simpl; lia|].
    pose proof (cfeed_phi c (b0 :: l0) ltac:(congruence)) as H.
    assert (Hphi : phi c = S (length l0) + match ccons c with Some s => held s | None => 0 end)
      by (unfold phi; rewrite Eb; reflexivity).
    destruct (cfeed F c (b0 :: l0)) as [c' r]. rewrite Hphi. cbn [length] in *.
    destruct (is_stop r); lia.
  Qed.

  Lemma cnext_phi c (chunk : option bytes) :
    let '(c', r) := cnext F c chunk in
    let n := match chunk with Some ch => length ch | None => 0 end in
    if is_stop r then phi c' <= phi c + n else phi c' < phi c + n.
  Proof.
    unfold cnext. destruct chunk as [[|b ch]|].
    - pose proof (cnext_none_phi c) as H. destruct (match cbuf c with [] => (c, RStop) | _ => _ end) as [c' r].
      cbn [length]. destruct (is_stop r); lia.
    - pose proof (cfeed_phi c (cbuf c ++ b :: ch) ltac:(destruct (cbuf c); simpl; congruence)) as H.
      assert (Hphi : phi c = length (cbuf c) + match ccons c with Some s => held s | None => 0 end) by reflexivity.
      destruct (cfeed F c (cbuf c ++ b :: ch)) as [c' r]. rewrite Hphi. rewrite app_length in H.
      cbn [length] in *. destruct (is_stop r); lia.
    - pose proof (cnext_none_phi c) as H. destruct (match cbuf c with [] => (c, RStop) | _ => _ end) as [c' r].
      destruct (is_stop r); lia.
  Qed.

  Lemma cnext_stop_iff c chunk c' r : cnext F c chunk = (c', r) -> is_stop r = true -> r = RStop.
  Proof. destruct r; simpl; congruence. Qed.

  (* every event of the drain loop pays one byte *)
  Lemma cdrain_phi fuel : forall c, let '(c', evs) := cdrain F fuel c in length evs + phi c' <= phi c.
  Proof.
    induction fuel as [|f IH]; intros c; [simpl; lia|].
    cbn [cdrain]. pose proof (cnext_phi c None) as H. destruct (cnext F c None) as [c1 r].
    destruct r as [p|e| |]; cbn [is_stop] in H.
    1,2,4: specialize (IH c1); destruct (cdrain F f c1) as [c2 rs]; cbn [length]; lia.
    cbn [length]; lia.
  Qed.

  Lemma cnext_none_stop_idem c c1 : cnext F c None = (c1, RStop) -> snd (cnext F c1 None) = RStop.
  Proof.
    unfold cnext. destruct (cbuf c) as [|b0 l0] eqn:Eb.
    - intros E; inversion E; subst. rewrite Eb. reflexivity.
    - unfold cfeed. destruct (ffeed F _ _) eqn:Ef; intros E; inversion E; subst. reflexivity.
  Qed.

  (* ... and with enough fuel the loop stops because next(None) raised StopIteration, not because fuel ran out *)
  Lemma cdrain_stops fuel : forall c, phi c < fuel ->
    let '(c', _) := cdrain F fuel c in snd (cnext F c' None) = RStop.
  Proof.
    induction fuel as [|f IH]; intros c Hf; [lia|]. cbn [cdrain].
    destruct (cnext F c None) as [c1 r] eqn:E.
    pose proof (cnext_phi c None) as H. rewrite E in H.
    destruct r as [p|e| |]; cbn [is_stop] in H.
    1,2,4: assert (Hlt : phi c1 < f) by lia; specialize (IH c1 Hlt); destruct (cdrain F f c1) as [c2 rs]; exact IH.
    eapply cnext_none_stop_idem; eassumption.
  Qed.

  Lemma cstep_phi fuel c (chunk : bytes) :
    let '(c', evs) := cstep F fuel c chunk in length evs + phi c' <= phi c + length chunk.
  Proof.
    unfold cstep. pose proof (cnext_phi c (Some chunk)) as H. destruct (cnext F c (Some chunk)) as [c1 r].
    destruct r as [p|e| |]; cbn [is_stop] in H.
    1,2,4: pose proof (cdrain_phi fuel c1) as Hd; destruct (cdrain F fuel c1) as [c2 rs]; cbn [length]; lia.
    cbn [length]; lia.
  Qed.

  Definition total_len (chunks : list bytes) : nat := fold_right (fun ch n => length ch + n) 0 chunks.

  Lemma cdeliver_phi fuel chunks : forall c,
    let '(c', evs) := cdeliver F fuel c chunks in length evs + phi c' <= phi c + total_len chunks.
  Proof.
    induction chunks as [|ch chs IH]; intros c; [simpl; lia|].
    cbn [cdeliver total_len fold_right].
    pose proof (cstep_phi fuel c ch) as H1. destruct (cstep F fuel c ch) as [c1 rs].
    specialize (IH c1). destruct (cdeliver F fuel c1 chs) as [c2 rs'].
    rewrite app_length. fold (total_len chs). lia.
  Qed.

  (* after every chunk the endpoint's drain loop has terminated on its own, provided the fuel covers the backlog *)
  Lemma cstep_stops fuel c (chunk : bytes) : phi c + length chunk <= fuel ->
    let '(c', _) := cstep F fuel c chunk in snd (cnext F c' None) = RStop.
  Proof.
    intros Hf. unfold cstep. destruct (cnext F c (Some chunk)) as [c1 r] eqn:E.
    pose proof (cnext_phi c (Some chunk)) as H. rewrite E in H.
    destruct r as [p|e| |]; cbn [is_stop] in H.
    1,2,4: pose proof (cdrain_stops fuel c1 ltac:(lia)) as Hd; destruct (cdrain F fuel c1) as [c2 rs]; exact Hd.
    (* next(chunk) itself stopped: the generator is suspended and the leftover is empty *)
    unfold cnext in E. destruct chunk as [|b ch].
    - destruct (cbuf c) as [|b0 l0] eqn:Eb.
      + inversion E; subst. unfold cnext. rewrite Eb. reflexivity.
      + unfold cfeed in E. destruct (ffeed F _ _) eqn:Ef; inversion E; subst. reflexivity.
    - unfold cfeed in E. destruct (ffeed F _ _) eqn:Ef; inversion E; subst. reflexivity.
  Qed.
End Loop.
