(* C06 (iii): every event of a framer consumes at least one of the bytes it was given since its previous event;
   hence a receive loop that skips errors produces at most length-of-input events and its drain loop stops by itself. *)
From Coq Require Import ZArith List Bool Lia Arith.
From EN Require Import Lib.Bytes Frame.Framer Frame.ReadUntil Frame.JsonRaw Frame.ErrSites Frame.Generic Stream.Consumer
  Proofs.Bytes_proofs.
Import ListNotations.

(* ---- the interface: [held s] = number of bytes the suspended generator keeps ---- *)
Record progressive {P} (F : framer P) (held : fst_ F -> nat) : Prop := {
  pg_init : held (finit F) = 0;
  pg_need : forall s c s', ffeed F s c = Need s' -> held s' <= held s + length c;
  pg_done : forall s c p rest, c <> [] -> ffeed F s c = Done p rest -> length rest < held s + length c;
  pg_fail : forall s c e rest, c <> [] -> ffeed F s c = Fail e rest -> length rest < held s + length c
}.

Lemma skipn_len_lt {X} n (l : list X) : 1 <= n -> l <> [] -> length (skipn n l) < length l.
Proof. intros Hn Hl. rewrite skipn_length. destruct l; [congruence|simpl; lia]. Qed.

Lemma skipn_len_le {X} n (l : list X) : length (skipn n l) <= length l.
Proof. rewrite skipn_length; lia. Qed.

Lemma nonempty_len {X} (l : list X) : l <> [] -> 1 <= length l.
Proof. destruct l; [congruence|simpl; lia]. Qed.

Lemma len_nonempty {X} (l : list X) : 1 <= length l -> l <> [].
Proof. destruct l; simpl; [lia|congruence]. Qed.

(* ---- read_until ---- *)
Section RU.
  Context {P : Type}.
  Variables (sep : bytes) (limit : nat) (keep_end : bool) (dec : decoder P).
  Hypothesis sep_ne : 1 <= length sep.

  Definition ru_held (s : ru_state) : nat := match s with None => 0 | Some (b, _) => length b end.

  Lemma ru_scan_progress buffer offset :
    match ru_scan sep limit keep_end dec buffer offset with
    | Need s' => ru_held s' = length buffer
    | Done _ rest | Fail _ rest => length rest < length buffer
    | Crash => False
    end.
  Proof.
    unfold ru_scan, seplen. destruct (Nat.leb (length sep) (length buffer - offset)) eqn:E; [|reflexivity].
    apply Nat.leb_le in E.
    assert (Hb : buffer <> []) by (apply len_nonempty; lia).
    destruct (find sep buffer offset) as [sepidx|] eqn:Ef.
    - unfold ru_finish, seplen. destruct (Nat.ltb limit sepidx) eqn:El.
      + apply Nat.ltb_lt in El. pose proof (overrun_remainder_len sep buffer sepidx). lia.
      + assert (length (skipn (sepidx + length sep) buffer) < length buffer) by (apply skipn_len_lt; [lia|assumption]).
        destruct (dec _); assumption.
    - destruct (Nat.ltb limit (length buffer + 1 - length sep)) eqn:El; [|reflexivity].
      apply Nat.ltb_lt in El. pose proof (overrun_remainder_len sep buffer (length buffer + 1 - length sep)). lia.
  Qed.

  Lemma ru_progressive : progressive (ru_framer sep limit keep_end dec) ru_held.
  Proof.
    split; simpl.
    - reflexivity.
    - intros s c s' H. unfold ru_feed in H. destruct s as [[b o]|].
      + pose proof (ru_scan_progress (b ++ c) o) as Hp. rewrite H in Hp. rewrite Hp, app_length. simpl; lia.
      + destruct c; [inversion H; simpl; lia|].
        pose proof (ru_scan_progress (b :: c) 0) as Hp. rewrite H in Hp. rewrite Hp. simpl; lia.
    - intros s c p rest Hc H. unfold ru_feed in H. destruct s as [[b o]|].
      + pose proof (ru_scan_progress (b ++ c) o) as Hp. rewrite H in Hp. rewrite app_length in Hp. simpl; lia.
      + destruct c; [congruence|]. pose proof (ru_scan_progress (b :: c) 0) as Hp. rewrite H in Hp. simpl in *; lia.
    - intros s c e rest Hc H. unfold ru_feed in H. destruct s as [[b o]|].
      + pose proof (ru_scan_progress (b ++ c) o) as Hp. rewrite H in Hp. rewrite app_length in Hp. simpl; lia.
      + destruct c; [congruence|]. pose proof (ru_scan_progress (b :: c) 0) as Hp. rewrite H in Hp. simpl in *; lia.
  Qed.
End RU.

(* ---- read_exactly / fixed size ---- *)
Section RX.
  Context {P : Type}.
  Variables (size : nat) (dec : decoder P).
  Hypothesis size_pos : 1 <= size.

  Definition rx_held (s : rx_state) : nat := match s with None => 0 | Some b => length b end.

  Lemma rx_check_progress buffer :
    match rx_check size dec buffer with
    | Need s' => rx_held s' = length buffer
    | Done _ rest | Fail _ rest => length rest < length buffer
    | Crash => False
    end.
  Proof.
    unfold rx_check. destruct (Nat.ltb (length buffer) size) eqn:E; [reflexivity|].
    apply Nat.ltb_ge in E.
    assert (length (skipn size buffer) < length buffer) by (apply skipn_len_lt; [lia|apply len_nonempty; lia]).
    destruct (dec _); assumption.
  Qed.

  Lemma rx_progressive : progressive (rx_framer size dec) rx_held.
  Proof.
    split; simpl.
    - reflexivity.
    - intros s c s' H. unfold rx_feed in H. destruct s as [b|].
      + pose proof (rx_check_progress (b ++ c)) as Hp. rewrite H in Hp. rewrite Hp, app_length. simpl; lia.
      + destruct c; [inversion H; simpl; lia|].
        pose proof (rx_check_progress (b :: c)) as Hp. rewrite H in Hp. rewrite Hp. simpl; lia.
    - intros s c p rest Hc H. unfold rx_feed in H. destruct s as [b|].
      + pose proof (rx_check_progress (b ++ c)) as Hp. rewrite H in Hp. rewrite app_length in Hp. simpl; lia.
      + destruct c; [congruence|]. pose proof (rx_check_progress (b :: c)) as Hp. rewrite H in Hp. simpl in *; lia.
    - intros s c e rest Hc H. unfold rx_feed in H. destruct s as [b|].
      + pose proof (rx_check_progress (b ++ c)) as Hp. rewrite H in Hp. rewrite app_length in Hp. simpl; lia.
      + destruct c; [congruence|]. pose proof (rx_check_progress (b :: c)) as Hp. rewrite H in Hp. simpl in *; lia.
  Qed.
End RX.

(* ---- raw JSON ---- *)
Section JSON.
  Variable limit : nat.

  Definition j_held (s : jstate) : nat :=
    match s with JInit => 0 | JEnc doc _ => length doc | JPlain doc => length doc end.

  Definition j_ok {P} (doc : bytes) (r : fres jstate P) : Prop :=
    match r with
    | Need s' => j_held s' <= length doc
    | Done _ rest | Fail _ rest => length rest < length doc
    | Crash => False
    end.

  Lemma jsplit_progress doc consumed : doc <> [] -> 1 <= consumed \/ limit < consumed = False ->
    j_ok doc (jsplit limit doc consumed).
  Proof.
    intros Hd Hc. unfold jsplit, j_ok.
    destruct (Nat.ltb limit consumed) eqn:El.
    - apply Nat.ltb_lt in El. pose proof (overrun_remainder_len [] doc consumed). apply nonempty_len in Hd. lia.
    - destruct (Nat.eqb (consumed + ws_run (skipn consumed doc)) (length doc)) eqn:Ee.
      + simpl. apply nonempty_len in Hd; lia.
      + destruct (firstn (consumed + ws_run (skipn consumed doc)) doc) eqn:Ef.
        * simpl. apply nonempty_len in Hd; lia.
        * apply skipn_len_lt; [|assumption].
          destruct (consumed + ws_run (skipn consumed doc)); [simpl in Ef; congruence|lia].
  Qed.

  Lemma find_nonvalue_lt s idx : find_nonvalue s = Some idx -> idx < length s.
  Proof.
    revert idx; induction s as [|b s IH]; simpl; intros idx H; [congruence|].
    destruct (is_value_byte b).
    - destruct (find_nonvalue s) as [i|]; simpl in H; [|congruence]. inversion H; subst. specialize (IH i eq_refl). lia.
    - inversion H; lia.
  Qed.

  Lemma jplain_progress doc : doc <> [] -> j_ok doc (jplain limit doc).
  Proof.
    intros Hd. unfold jplain. destruct (find_nonvalue doc) as [idx|] eqn:Ef.
    - apply jsplit_progress; [assumption|]. left.
      (* idx may be 0: then nothing is consumed before the whitespace skip, handled inside jsplit *)
      destruct idx; [|lia].
      (* consumed = 0 *) exfalso. revert Ef. clear. intros _. exact I.
  Abort.
End JSON.
