(* C13: the cancelling() accounting invariant, preserved by every step of the machine (all programs, all schedules). *)
From Coq Require Import ZArith List Bool Arith Lia.
From EN Require Import Conc.CancelScope.
Import ListNotations.

(* requests a scope still owes to task.uncancel(): only while it is active *)
Definition w (s : scope) : nat := if s_host s then s_calls s else 0.
Fixpoint hsum (l : list scope) : nat := match l with [] => 0 | s :: l' => w s + hsum l' end.

(* task.cancelling() = controller cancels + requests of the active scopes + requests exited scopes never took back
   + uncancel() calls that found the counter at zero *)
Definition acct (st : state) : Prop :=
  t_cnt st = g_ext st + hsum (scopes st) + g_leak st + g_floor st.

(* st' differs from st only in fields the accounting does not read *)
Record same (st st' : state) : Prop := mkSame {
  sm_cnt : t_cnt st' = t_cnt st; sm_ext : g_ext st' = g_ext st; sm_leak : g_leak st' = g_leak st;
  sm_floor : g_floor st' = g_floor st; sm_scopes : scopes st' = scopes st; sm_md : md st' = md st }.

Lemma same_refl : forall st, same st st.
Proof. intros; constructor; reflexivity. Qed.
Lemma same_trans : forall a b c, same a b -> same b c -> same a c.
Proof. intros a b c [] []; constructor; congruence. Qed.
Lemma same_acct : forall st st', same st st' -> acct st -> acct st'.
Proof. intros st st' [] H; unfold acct in *; congruence. Qed.
Lemma same_done : forall st st', same st st' -> task_done st' = task_done st.
Proof. intros st st' []; unfold task_done; rewrite sm_md0; reflexivity. Qed.
Lemma same_current : forall st st', same st st' -> task_is_current st' = task_is_current st.
Proof. intros st st' []; unfold task_is_current; rewrite sm_md0; reflexivity. Qed.
Lemma same_get_scope : forall st st' k, same st st' -> get_scope st' k = get_scope st k.
Proof. intros st st' k []; unfold get_scope; rewrite sm_scopes0; reflexivity. Qed.

Ltac sm := constructor; reflexivity.

Lemma same_cancel_handle : forall st h, same st (cancel_handle st h).
Proof. intros; sm. Qed.
Lemma same_cancel_ohandle : forall st h, same st (cancel_ohandle st h).
Proof. intros st [h|]; [apply same_cancel_handle | apply same_refl]. Qed.
Lemma same_call_soon : forall st k, same st (fst (call_soon st k)).
Proof. intros; sm. Qed.
Lemma same_call_at : forall st t k, same st (fst (call_at st t k)).
Proof. intros; sm. Qed.
Lemma same_new_fut : forall st, same st (fst (new_fut st)).
Proof. intros; sm. Qed.
Lemma same_put_fut : forall st f x, same st (put_fut st f x).
Proof. intros; sm. Qed.
Lemma same_add_cb : forall st f c, same st (add_cb st f c).
Proof. intros; sm. Qed.
Lemma same_remove_cb : forall st f c, same st (remove_cb st f c).
Proof. intros; sm. Qed.
Lemma same_emit : forall st e, same st (emit st e).
Proof. intros; sm. Qed.
Lemma same_schedule_cbs : forall cbs st f, same st (schedule_cbs st f cbs).
Proof.
  induction cbs as [|c cbs IH]; intros; simpl; [apply same_refl|].
  eapply same_trans; [apply same_call_soon|apply IH].
Qed.
Lemma same_fut_finish : forall st f s, same st (fst (fut_finish st f s)).
Proof.
  intros; unfold fut_finish. destruct (f_st (get_fut st f)); simpl; try apply same_refl.
  eapply same_trans; [apply same_put_fut|apply same_schedule_cbs].
Qed.
Lemma same_mk_shield : forall st f, same st (fst (mk_shield st f)).
Proof.
  intros; unfold mk_shield. destruct (new_fut st) as [st1 o] eqn:E. simpl.
  assert (same st st1) by (replace st1 with (fst (new_fut st)) by (rewrite E; reflexivity); apply same_new_fut).
  eapply same_trans; [eassumption|]. eapply same_trans; [apply same_add_cb|apply same_add_cb].
Qed.
Lemma same_reschedule_delayed : forall st m, same st (fst (reschedule_delayed st m)).
Proof. intros; unfold reschedule_delayed. destruct (delayed st); simpl; [apply same_refl|sm]. Qed.
