(* C13: the cancelling() accounting invariant, preserved by every step of the machine (all programs, all schedules). *)
From Coq Require Import ZArith List Bool Arith Lia.
From EN Require Import Conc.CancelScope Proofs.C13_core.
Import ListNotations.

(* requests a scope still owes to task.uncancel(): only while it is active (owed / owed_sum of the model file) *)
Notation w := owed.
Notation hsum := owed_sum.

(* task.cancelling() = controller cancels + requests of the active scopes + requests exited scopes never took back
   + uncancel() calls that found the counter at zero *)
Definition acct (st : state) : Prop :=
  t_cnt st = g_ext st + hsum (scopes st) + g_leak st + g_floor st.

(* st' differs from st only in fields the accounting does not read *)
Record same (st st' : state) : Prop := mkSame {
  sm_cnt : t_cnt st' = t_cnt st; sm_ext : g_ext st' = g_ext st; sm_leak : g_leak st' = g_leak st;
  sm_floor : g_floor st' = g_floor st; sm_scopes : scopes st' = scopes st; sm_md : md st' = md st;
  sm_fix : fixF st' = fixF st }.

Lemma same_refl : forall st, same st st.
Proof. intros; constructor; reflexivity. Qed.
Lemma same_trans : forall a b c, same a b -> same b c -> same a c.
Proof. intros a b c [] []; constructor; congruence. Qed.
Lemma same_acct : forall st st', same st st' -> acct st -> acct st'.
Proof. intros st st' [] H; unfold acct in *; congruence. Qed.
Lemma same_done : forall st st', same st st' -> task_done st' = task_done st.
Proof. intros st st' []; unfold task_done; rewrite sm_md0; reflexivity. Qed.
Lemma same_current : forall st st', same st st' -> task_is_current st' = task_is_current st.
Proof. intros st st' []; unfold task_is_current; rewrite sm_md0; reflexivity. Qed.
Lemma same_get_scope : forall st st' k, same st st' -> get_scope st' k = get_scope st k.
Proof. intros st st' k []; unfold get_scope; rewrite sm_scopes0; reflexivity. Qed.

Ltac sm := constructor; reflexivity.

Lemma same_cancel_handle : forall st h, same st (cancel_handle st h).
Proof. intros; sm. Qed.
Lemma same_cancel_ohandle : forall st h, same st (cancel_ohandle st h).
Proof. intros st [h|]; [apply same_cancel_handle | apply same_refl]. Qed.
Lemma same_call_soon : forall st k, same st (fst (call_soon st k)).
Proof. intros; sm. Qed.
Lemma same_call_at : forall st t k, same st (fst (call_at st t k)).
Proof. intros; sm. Qed.
Lemma same_new_fut : forall st, same st (fst (new_fut st)).
Proof. intros; sm. Qed.
Lemma same_put_fut : forall st f x, same st (put_fut st f x).
Proof. intros; sm. Qed.
Lemma same_add_cb : forall st f c, same st (add_cb st f c).
Proof. intros; sm. Qed.
Lemma same_remove_cb : forall st f c, same st (remove_cb st f c).
Proof. intros; sm. Qed.
Lemma same_emit : forall st e, same st (emit st e).
Proof. intros; sm. Qed.
Lemma same_schedule_cbs : forall cbs st f, same st (schedule_cbs st f cbs).
Proof.
  induction cbs as [|c cbs IH]; intros; simpl; [apply same_refl|].
  eapply same_trans; [apply same_call_soon|apply IH].
Qed.
Lemma same_fut_finish : forall st f s, same st (fst (fut_finish st f s)).
Proof.
  intros; unfold fut_finish. destruct (f_st (get_fut st f)); simpl; try apply same_refl.
  eapply same_trans; [apply same_put_fut|apply same_schedule_cbs].
Qed.
Lemma same_mk_shield : forall st f, same st (fst (mk_shield st f)).
Proof.
  intros; unfold mk_shield. destruct (new_fut st) as [st1 o] eqn:E. simpl.
  assert (same st st1) by (replace st1 with (fst (new_fut st)) by (rewrite E; reflexivity); apply same_new_fut).
  eapply same_trans; [eassumption|]. eapply same_trans; [apply same_add_cb|apply same_add_cb].
Qed.
Lemma same_reschedule_delayed : forall st m, same st (fst (reschedule_delayed st m)).
Proof. intros; unfold reschedule_delayed. destruct (delayed st); simpl; [apply same_refl|sm]. Qed.

(* ---- hsum under updates *)
Lemma hsum_app : forall a b, hsum (a ++ b) = hsum a + hsum b.
Proof. induction a; intros; simpl; [reflexivity|rewrite IHa; lia]. Qed.

Lemma hsum_upd : forall l k x, k < length l -> hsum (upd l k x) + w (nth k l dummy_s) = hsum l + w x.
Proof.
  induction l as [|a l IH]; intros k x Hk; simpl in Hk; [lia|].
  destruct k; simpl; [lia|]. specialize (IH k x ltac:(lia)). lia.
Qed.
Lemma upd_oob : forall (l : list scope) k x, length l <= k -> upd l k x = l.
Proof.
  induction l as [|a l IH]; intros k x Hk; simpl; [reflexivity|].
  destruct k; simpl in Hk; [lia|]. rewrite IH by lia. reflexivity.
Qed.
Lemma nth_upd_same : forall (l : list scope) k x, k < length l -> nth k (upd l k x) dummy_s = x.
Proof.
  induction l as [|a l IH]; intros k x Hk; simpl in Hk; [lia|].
  destruct k; simpl; [reflexivity|]. apply IH; lia.
Qed.
Lemma length_upd : forall (l : list scope) k x, length (upd l k x) = length l.
Proof. induction l; intros [|k] x; simpl; auto. Qed.

Lemma host_valid : forall st k, s_host (get_scope st k) = true -> k < length (scopes st).
Proof.
  intros st k H. unfold get_scope in H.
  destruct (lt_dec k (length (scopes st))) as [L|L]; [assumption|].
  rewrite nth_overflow in H by lia. discriminate.
Qed.

(* replacing scope k by one with the same weight *)
Lemma hsum_put_same_w : forall st k x, w x = w (get_scope st k) -> hsum (scopes (put_scope st k x)) = hsum (scopes st).
Proof.
  intros st k x Hw. unfold put_scope. simpl.
  destruct (lt_dec k (length (scopes st))) as [L|L].
  - pose proof (hsum_upd (scopes st) k x L). unfold get_scope in Hw. lia.
  - rewrite upd_oob by lia. reflexivity.
Qed.

(* effect records *)
Record eff (st st' : state) (dcnt dext dleak dfloor dh : nat) : Prop := mkEff {
  e_cnt : t_cnt st' = t_cnt st + dcnt; e_ext : g_ext st' = g_ext st + dext; e_leak : g_leak st' = g_leak st + dleak;
  e_floor : g_floor st' = g_floor st + dfloor; e_h : hsum (scopes st') = hsum (scopes st) + dh; e_md : md st' = md st;
  e_fix : fixF st' = fixF st }.

Lemma same_eff : forall st st', same st st' -> eff st st' 0 0 0 0 0.
Proof. intros st st' []; constructor; try lia; [rewrite sm_scopes0; lia|assumption|assumption]. Qed.
Lemma eff_trans : forall a b c c1 e1 l1 f1 h1 c2 e2 l2 f2 h2,
  eff a b c1 e1 l1 f1 h1 -> eff b c c2 e2 l2 f2 h2 -> eff a c (c1 + c2) (e1 + e2) (l1 + l2) (f1 + f2) (h1 + h2).
Proof. intros a b c ? ? ? ? ? ? ? ? ? ? [] []; constructor; try lia; congruence. Qed.
Lemma eff_acct : forall st st' c e l f h, eff st st' c e l f h -> c = e + h + l + f -> acct st -> acct st'.
Proof. intros st st' c e l f h [] Hb H; unfold acct in *; lia. Qed.

(* a balanced effect: the invariant and the mode are preserved *)
Definition good (st st' : state) : Prop := (acct st -> acct st') /\ md st' = md st.
Lemma good_refl : forall st, good st st.
Proof. intros; split; auto. Qed.
Lemma good_trans : forall a b c, good a b -> good b c -> good a c.
Proof. intros a b c [H1 M1] [H2 M2]; split; [auto|congruence]. Qed.
Lemma same_good : forall st st', same st st' -> good st st'.
Proof. intros st st' H; split; [apply same_acct; assumption|apply H]. Qed.
Lemma eff_good : forall st st' c e l f h, eff st st' c e l f h -> c = e + h + l + f -> good st st'.
Proof. intros st st' c e l f h H Hb; split; [eapply eff_acct; eauto|apply H]. Qed.
Lemma good_done : forall st st', good st st' -> task_done st' = task_done st.
Proof. intros st st' [_ M]; unfold task_done; rewrite M; reflexivity. Qed.

(* Task.cancel: one more request (the task is never done while the machine runs) *)
Lemma eff_task_cancel : forall st m, task_done st = false -> eff st (task_cancel st m) 1 0 0 0 0.
Proof.
  intros st m Hd. unfold task_cancel. rewrite Hd.
  set (st1 := set_t_cnt st (S (t_cnt st))).
  assert (E1 : eff st st1 1 0 0 0 0) by (constructor; simpl; first [lia | reflexivity]).
  destruct (t_waiter st1) as [f|].
  - unfold fut_cancel. destruct (fut_finish st1 f (FCanc m)) as [st2 ok] eqn:E.
    assert (S2 : same st1 st2) by (replace st2 with (fst (fut_finish st1 f (FCanc m))) by (rewrite E; reflexivity);
                                   apply same_fut_finish).
    assert (E2 : eff st st2 (1+0) (0+0) (0+0) (0+0) (0+0)) by (eapply eff_trans; [exact E1|apply same_eff; exact S2]).
    destruct ok; [exact E2|].
    destruct E2; constructor; simpl; assumption.
  - destruct E1; constructor; simpl; assumption.
Qed.

Lemma task_cancel_scopes : forall st m, scopes (task_cancel st m) = scopes st.
Proof.
  intros. unfold task_cancel. destruct (task_done st); [reflexivity|].
  set (st1 := set_t_cnt st (S (t_cnt st))).
  destruct (t_waiter st1) as [f|]; [|reflexivity].
  unfold fut_cancel. destruct (fut_finish st1 f (FCanc m)) as [st2 ok] eqn:E.
  assert (S2 : same st1 st2) by (replace st2 with (fst (fut_finish st1 f (FCanc m))) by (rewrite E; reflexivity);
                                 apply same_fut_finish).
  destruct ok; simpl; rewrite (sm_scopes _ _ S2); reflexivity.
Qed.

(* Task.uncancel: balanced *)
Lemma good_task_uncancel_cancel : forall st m, task_done st = false -> good st (task_cancel (task_uncancel st) m).
Proof.
  intros st m Hd. unfold task_uncancel. destruct (t_cnt st) as [|n] eqn:Ec.
  - set (st1 := set_g_floor st (S (g_floor st))).
    assert (eff st st1 0 0 0 1 0) by (constructor; simpl; first [lia | reflexivity]).
    assert (eff st1 (task_cancel st1 m) 1 0 0 0 0) by (apply eff_task_cancel; exact Hd).
    eapply eff_good; [eapply eff_trans; eassumption|lia].
  - set (st1 := set_t_cnt st n).
    assert (E2 : eff st1 (task_cancel st1 m) 1 0 0 0 0) by (apply eff_task_cancel; exact Hd).
    destruct E2. split; [|simpl in *; assumption].
    unfold acct in *. simpl in *. intros. lia.
Qed.

Lemma eff_put_scope : forall st k x d, k < length (scopes st) -> w x = w (get_scope st k) + d ->
  eff st (put_scope st k x) 0 0 0 0 d.
Proof.
  intros st k x d L Hw. constructor; simpl; try lia; try reflexivity.
  pose proof (hsum_upd (scopes st) k x L). unfold get_scope in Hw. lia.
Qed.
Lemma same_w_put_scope : forall st k x, w x = w (get_scope st k) -> eff st (put_scope st k x) 0 0 0 0 0.
Proof.
  intros st k x Hw. constructor; simpl; try lia; try reflexivity.
  pose proof (hsum_put_same_w st k x Hw) as H. simpl in H. lia.
Qed.
Lemma good_put_same_w : forall st k x, w x = w (get_scope st k) -> good st (put_scope st k x).
Proof. intros. eapply eff_good; [apply same_w_put_scope; assumption|lia]. Qed.

Lemma get_put_scope : forall st k x, k < length (scopes st) -> get_scope (put_scope st k x) k = x.
Proof. intros. unfold get_scope, put_scope. simpl. apply nth_upd_same; assumption. Qed.

Lemma good_upd_same_w : forall st k f, (forall s, w (f s) = w s) -> good st (upd_scope st k f).
Proof. intros. unfold upd_scope. apply good_put_same_w. auto. Qed.

Lemma w_set_ch : forall ch s, w (sc_set_ch ch s) = w s. Proof. reflexivity. Qed.
Lemma w_set_th : forall th s, w (sc_set_th th s) = w s. Proof. reflexivity. Qed.
Lemma w_set_called : forall s, w (sc_set_called s) = w s. Proof. reflexivity. Qed.
Lemma w_set_deadline : forall dl s, w (sc_set_deadline dl s) = w s. Proof. reflexivity. Qed.

Lemma good_deliver_arm : forall st k retry, good st (deliver_arm st k retry).
Proof.
  intros st k [|]; unfold deliver_arm.
  - eapply good_trans; [apply same_good; apply same_call_soon|]. apply good_upd_same_w. apply w_set_ch.
  - apply good_upd_same_w. apply w_set_ch.
Qed.

Lemma good_deliver_issue : forall st k, task_done st = false -> s_host (get_scope st k) = true ->
  good st (deliver_issue st k).
Proof.
  intros st k Hd Hh. unfold deliver_issue, upd_scope.
  pose proof (host_valid st k Hh) as L.
  pose proof (eff_task_cancel st (Some k) Hd) as E1.
  set (st1 := task_cancel st (Some k)) in *.
  assert (Hs : get_scope st1 k = get_scope st k) by (unfold get_scope, st1; rewrite task_cancel_scopes; reflexivity).
  assert (L1 : k < length (scopes st1)) by (unfold st1; rewrite task_cancel_scopes; exact L).
  eapply eff_good.
  - eapply eff_trans; [exact E1|]. apply eff_put_scope with (d := 1); [exact L1|].
    rewrite Hs. unfold owed, sc_inc_calls. simpl. rewrite Hh. lia.
  - lia.
Qed.

(* __deliver_cancellation *)
Lemma good_deliver : forall st k, task_done st = false -> good st (deliver st k).
Proof.
  intros st k Hd. unfold deliver.
  destruct (s_host (get_scope st k)) eqn:Hh; [|apply good_refl].
  cbn [negb]. destruct (delayed st) as [[h m]|]; [apply good_deliver_arm|].
  destruct (negb (t_must st) && negb (task_is_current st)); [|apply good_deliver_arm].
  eapply good_trans; [apply good_deliver_issue|apply good_deliver_arm]. all: assumption.
Qed.

Lemma good_scope_cancel : forall st k, task_done st = false -> good st (scope_cancel st k).
Proof.
  intros st k Hd. unfold scope_cancel. destruct (s_called (get_scope st k)); [apply good_refl|].
  assert (G1 : good st (upd_scope (cancel_ohandle st (s_th (get_scope st k))) k sc_set_called)).
  { eapply good_trans; [apply same_good; apply same_cancel_ohandle|]. apply good_upd_same_w. apply w_set_called. }
  eapply good_trans; [exact G1|]. apply good_deliver. rewrite (good_done _ _ G1). exact Hd.
Qed.

Lemma good_setup_timeout : forall st k, task_done st = false -> good st (setup_timeout st k).
Proof.
  intros st k Hd. unfold setup_timeout. destruct (s_deadline (get_scope st k)) as [dl|]; [|apply good_refl].
  destruct (dl <=? time st); [apply good_scope_cancel; exact Hd|].
  eapply good_trans; [apply same_good; apply same_call_at|]. apply good_upd_same_w. apply w_set_th.
Qed.

Lemma good_scope_reschedule : forall st k when, task_done st = false -> good st (scope_reschedule st k when).
Proof.
  intros st k when Hd. unfold scope_reschedule.
  assert (G1 : good st (upd_scope (cancel_ohandle st (s_th (get_scope st k))) k (sc_set_deadline when))).
  { eapply good_trans; [apply same_good; apply same_cancel_ohandle|]. apply good_upd_same_w. apply w_set_deadline. }
  destruct (s_state (get_scope st k)); try exact G1.
  destruct (s_called (get_scope st k)); [exact G1|].
  eapply good_trans; [exact G1|]. apply good_setup_timeout. rewrite (good_done _ _ G1). exact Hd.
Qed.

Lemma good_check_pending : forall st, task_done st = false -> good st (check_pending st).
Proof.
  intros st Hd. unfold check_pending. destruct (first_called st (sstack st)) as [k|]; [|apply good_refl].
  destruct (s_ch (get_scope st k)); [apply good_refl|apply good_deliver; exact Hd].
Qed.

(* __enter__ *)
Lemma good_scope_enter : forall st pre dl, task_done st = false -> good st (fst (scope_enter st pre dl)).
Proof.
  intros st pre dl Hd. unfold scope_enter.
  set (st1 := set_sstack _ _).
  assert (G1 : good st st1).
  { eapply eff_good with (c := 0) (e := 0) (l := 0) (f := 0) (h := 0); [|lia].
    constructor; simpl; try lia; try reflexivity. rewrite hsum_app. simpl. lia. }
  assert (Hd1 : task_done st1 = false) by (rewrite (good_done _ _ G1); exact Hd).
  destruct pre; simpl.
  - eapply good_trans; [exact G1|apply good_deliver; exact Hd1].
  - eapply good_trans; [exact G1|apply good_setup_timeout; exact Hd1].
Qed.

Lemma same_exit_drop_delayed : forall st k, same st (exit_drop_delayed st k).
Proof.
  intros. unfold exit_drop_delayed. destruct (delayed st) as [[h m]|]; [|apply same_refl].
  destruct (msg_eqb m (Some k)); [|apply same_refl]. sm.
Qed.

(* the exception-dependent part of __exit__: what it takes back from cancelling() is exactly what it no longer owes *)
Lemma exit_called_acct : forall st k s exc st' calls caught,
  exit_called st k s exc = (st', calls, caught) ->
  calls <= s_calls s /\ g_floor st <= g_floor st' /\
  t_cnt st' + (s_calls s - calls) = t_cnt st + (g_floor st' - g_floor st) /\
  g_ext st' = g_ext st /\ g_leak st' = g_leak st /\ scopes st' = scopes st /\ md st' = md st.
Proof.
  intros st k s exc st' calls caught H. unfold exit_called in H.
  destruct exc as [[m| |]|].
  - destruct (uncancel_loop (s_calls s) (t_cnt st) (s_hostc s) (g_floor st)) as [[[c cnt] fl] hit] eqn:E.
    apply uncancel_loop_spec in E. destruct E as (A & B & C & _).
    inversion H; subst. simpl. repeat split; try lia.
  - inversion H; subst. repeat split; try lia.
  - inversion H; subst. repeat split; try lia.
  - inversion H; subst. repeat split; try lia.
Qed.

(* the repair of C13-F1 (when present) takes back exactly what it removes from the scope's debt *)
Lemma exit_takeback_acct : forall st called calls st' c',
  exit_takeback st called calls = (st', c') ->
  c' <= calls /\ g_floor st <= g_floor st' /\
  t_cnt st' + (calls - c') = t_cnt st + (g_floor st' - g_floor st) /\
  g_ext st' = g_ext st /\ g_leak st' = g_leak st /\ scopes st' = scopes st /\ md st' = md st /\
  (fixF st = true -> called = true -> c' = 0).
Proof.
  intros st called calls st' c' H. unfold exit_takeback in H.
  destruct (fixF st && called) eqn:E; inversion H; subst; simpl.
  - repeat split; try lia.
  - repeat split; try lia. intros F C. rewrite F, C in E. discriminate.
Qed.

(* __exit__ *)
Lemma good_scope_exit : forall st k exc, task_done st = false -> good st (fst (scope_exit st k exc)).
Proof.
  intros st k exc Hd. unfold scope_exit.
  destruct (s_host (get_scope st k)) eqn:Hh; cbn [negb]; [|simpl; apply same_good; sm].
  pose proof (host_valid st k Hh) as L.
  set (s := get_scope st k) in *.
  set (st2 := set_sstack _ _).
  assert (S2 : same st st2).
  { unfold st2. eapply same_trans; [apply same_cancel_ohandle|].
    eapply same_trans; [apply same_cancel_ohandle|]. sm. }
  set (r := if s_called s then exit_called st2 k s exc else (st2, s_calls s, s_caught s)).
  assert (R : let st3 := fst (fst r) in let calls := snd (fst r) in
              calls <= s_calls s /\ g_floor st2 <= g_floor st3 /\
              t_cnt st3 + (s_calls s - calls) = t_cnt st2 + (g_floor st3 - g_floor st2) /\
              g_ext st3 = g_ext st2 /\ g_leak st3 = g_leak st2 /\ scopes st3 = scopes st2 /\ md st3 = md st2).
  { unfold r. destruct (s_called s).
    - destruct (exit_called st2 k s exc) as [[st3 calls] caught] eqn:E. cbn [fst snd].
      eapply exit_called_acct; exact E.
    - cbn [fst snd]. repeat split; first [lia|reflexivity]. }
  cbv zeta in R. destruct R as (R1 & R2 & R3 & R4 & R5 & R6 & R7).
  set (st4 := if s_called s then exit_drop_delayed (fst (fst r)) k else fst (fst r)).
  assert (S4 : same (fst (fst r)) st4).
  { unfold st4. destruct (s_called s); [apply same_exit_drop_delayed|apply same_refl]. }
  destruct (exit_takeback st4 (s_called s) (snd (fst r))) as [st4b calls'] eqn:ET.
  apply exit_takeback_acct in ET. destruct ET as (T1 & T2 & T3 & T4 & T5 & T6 & T7 & _).
  set (new := mkScope false (s_hostc s) calls' SExited (s_called s) (snd r) (s_deadline s) None None).
  set (st5 := set_g_leak (put_scope st4b k new) (g_leak (put_scope st4b k new) + calls')).
  assert (G5 : good st st5).
  { split.
    - intro Ha. unfold acct in *. unfold st5. simpl.
      destruct S2, S4.
      assert (Hsc : scopes st4b = scopes st) by congruence.
      rewrite Hsc.
      pose proof (hsum_upd (scopes st) k new L) as HU.
      fold (get_scope st k) in HU. fold s in HU.
      assert (Hw : w s = s_calls s) by (unfold owed; rewrite Hh; reflexivity).
      assert (Hwn : w new = 0) by reflexivity.
      lia.
    - unfold st5. simpl. destruct S2, S4. congruence. }
  simpl. eapply good_trans; [exact G5|]. apply good_check_pending. rewrite (good_done _ _ G5). exact Hd.
Qed.

(* ---- yielding / resuming through shield drivers never touches the accounting *)
Lemma same_yield_out : forall k y st, same st (fst (fst (yield_out k y st))).
Proof.
  induction k as [|fr k IH]; intros y st; cbn [yield_out fst]; [apply same_refl|].
  destruct fr; try (specialize (IH y st); destruct (yield_out k y st) as [[st1 k1] y1]; exact IH).
  destruct y as [|f].
  - specialize (IH YNone st). destruct (yield_out k YNone st) as [[st1 k1] y1]. exact IH.
  - destruct (mk_shield st f) as [st1 o] eqn:E.
    assert (S1 : same st st1) by (replace st1 with (fst (mk_shield st f)) by (rewrite E; reflexivity); apply same_mk_shield).
    specialize (IH (YFut o) st1). destruct (yield_out k (YFut o) st1) as [[st2 k2] y2]. cbn [fst] in IH |- *.
    exact (same_trans _ _ _ S1 IH).
Qed.

Lemma same_shield_proceed : forall st id last outer thr, same st (fst (fst (shield_proceed st id last outer thr))).
Proof.
  intros. unfold shield_proceed. destruct last as [m|]; [|apply same_refl].
  destruct (reschedule_delayed st m) as [st1 ok] eqn:E.
  assert (S1 : same st st1) by (replace st1 with (fst (reschedule_delayed st m)) by (rewrite E; reflexivity);
                                 apply same_reschedule_delayed).
  destruct ok; simpl; [exact S1|]. eapply same_trans; [exact S1|sm].
Qed.

Lemma same_shield_resume : forall st id wt last v outer,
  same st (fst (fst (shield_resume st id wt last v outer))).
Proof.
  intros. unfold shield_resume.
  destruct wt as [| |f o]; try apply same_shield_proceed.
  assert (Q : same st (fst (fst (if fut_done st f
      then shield_proceed st id (cancel_msg_of v last) outer (fut_exc st f)
      else let '(st0, o0) := mk_shield st f in
           let '(st1, outer', y') := yield_out outer (YFut o0) st0 in
           (st1, FShield id (ShFut f o0) (cancel_msg_of v last) true :: outer', RYield y'))))).
  { destruct (fut_done st f); [apply same_shield_proceed|].
    destruct (mk_shield st f) as [st1 o1] eqn:E.
    assert (S1 : same st st1) by (replace st1 with (fst (mk_shield st f)) by (rewrite E; reflexivity); apply same_mk_shield).
    pose proof (same_yield_out outer (YFut o1) st1) as S2.
    destruct (yield_out outer (YFut o1) st1) as [[st2 k2] y2]. cbn [fst] in S2 |- *.
    exact (same_trans _ _ _ S1 S2). }
  destruct v as [[m| |]|]; first [exact Q|apply same_shield_proceed].
Qed.

Lemma same_resume_in : forall k v st, same st (fst (fst (resume_in k v st))).
Proof.
  induction k as [|fr k IH]; intros v st; simpl; [apply same_refl|].
  specialize (IH v st). destruct (resume_in k v st) as [[st1 k1] r1]. simpl in IH.
  destruct r1 as [v'|y|]; try exact IH.
  destruct fr; try exact IH.
  eapply same_trans; [exact IH|apply same_shield_resume].
Qed.

Lemma same_task_yield : forall st y, same st (task_yield st y).
Proof.
  intros st [|f]; unfold task_yield; [apply same_call_soon|].
  set (st1 := set_t_waiter (add_cb st f CbWake) (Some f)).
  assert (S1 : same st st1) by (unfold st1; sm).
  destruct (t_must st1); [|exact S1].
  destruct (fut_cancel st1 f (t_msg st1)) as [st2 ok] eqn:E.
  assert (S2 : same st1 st2) by (replace st2 with (fst (fut_cancel st1 f (t_msg st1))) by (rewrite E; reflexivity);
                                 apply same_fut_finish).
  destruct ok; [|eapply same_trans; eassumption].
  eapply same_trans; [exact S1|]. eapply same_trans; [exact S2|sm].
Qed.

(* accounting is blind to these fields *)
Lemma acct_same : forall st st', same st st' -> acct st -> acct st'. Proof. exact same_acct. Qed.

Definition live (st : state) : Prop := task_done st = false.

Lemma acct_do_yield : forall st wt y, acct st -> acct (do_yield st wt y).
Proof.
  intros st wt y Ha. unfold do_yield.
  pose proof (same_yield_out (FWait wt :: frames st) y st) as S1.
  destruct (yield_out (FWait wt :: frames st) y st) as [[st1 k1] y1]. simpl in S1.
  pose proof (same_task_yield (set_frames st1 k1) y1) as S2.
  assert (S0 : same st1 (set_frames st1 k1)) by sm.
  exact (same_acct _ _ (same_trans _ _ _ S1 (same_trans _ _ _ S0 S2)) Ha).
Qed.

Lemma acct_exec : forall st p, live st -> acct st -> acct (exec st p).
Proof.
  intros st p Hl Ha. unfold live in Hl. destruct p; unfold exec.
  - exact Ha.
  - exact Ha.
  - destruct d.
    + apply acct_do_yield. exact Ha.
    + destruct (new_fut (emit st (EvStart id (time st)))) as [st1 f] eqn:E1.
      assert (S1 : same st st1).
      { replace st1 with (fst (new_fut (emit st (EvStart id (time st))))) by (rewrite E1; reflexivity).
        eapply same_trans; [apply same_emit|apply same_new_fut]. }
      destruct (call_at st1 (time st1 + S d) (HSetRes f)) as [st2 h] eqn:E2.
      assert (S2 : same st1 st2).
      { replace st2 with (fst (call_at st1 (time st1 + S d) (HSetRes f))) by (rewrite E2; reflexivity). apply same_call_at. }
      apply acct_do_yield. exact (same_acct _ _ (same_trans _ _ _ S1 S2) Ha).
  - destruct (new_fut (emit st (EvStart id (time st)))) as [st1 f] eqn:E1.
    assert (S1 : same st st1).
    { replace st1 with (fst (new_fut (emit st (EvStart id (time st))))) by (rewrite E1; reflexivity).
      eapply same_trans; [apply same_emit|apply same_new_fut]. }
    destruct (call_at st1 (time st1 + d) (HSetExc f)) as [st2 h] eqn:E2.
    assert (S2 : same st1 st2).
    { replace st2 with (fst (call_at st1 (time st1 + d) (HSetExc f))) by (rewrite E2; reflexivity). apply same_call_at. }
    apply acct_do_yield. exact (same_acct _ _ (same_trans _ _ _ S1 S2) Ha).
  - apply acct_do_yield. exact Ha.
  - apply acct_do_yield. exact Ha.
  - exact Ha.
  - pose proof (good_scope_enter st pre (match delay with Some d => Some (time st + d) | None => None end) Hl) as G.
    destruct (scope_enter st pre _) as [st1 sid]. simpl in G. exact (proj1 G Ha).
  - exact Ha.
  - destruct (nth_scope st k) as [sid|]; [|exact Ha]. exact (proj1 (good_scope_cancel st sid Hl) Ha).
  - destruct (nth_scope st k) as [sid|]; [|exact Ha]. exact (proj1 (good_scope_reschedule st sid _ Hl) Ha).
  - exact Ha.
Qed.

Lemma live_set_frames : forall st k, live st -> live (set_frames st k).
Proof. intros; assumption. Qed.

Lemma acct_finish : forall st r, acct st -> acct (finish st r).
Proof. intros st [e|] Ha; unfold finish; [exact Ha|]. destruct (t_must st); exact Ha. Qed.

Lemma acct_ret : forall st, live st -> acct st -> acct (ret st).
Proof.
  intros st Hl Ha. unfold ret. destruct (frames st) as [|fr k]; [apply acct_finish; exact Ha|].
  destruct fr; try exact Ha.
  - (* FScope *)
    pose proof (good_scope_exit (set_frames st k) sid None Hl) as G.
    destruct (scope_exit (set_frames st k) sid None) as [st1 sw]. cbn [fst] in G.
    assert (A1 : acct st1) by exact (proj1 G Ha).
    destruct kind; [exact A1|]. destruct (s_caught (get_scope st1 sid)); exact A1.
  - (* FShield *)
    destruct y; [|exact Ha]. exact (proj1 (good_check_pending (set_frames st k) Hl) Ha).
Qed.

Lemma acct_raise : forall st e, live st -> acct st -> acct (raise_ st e).
Proof.
  intros st e Hl Ha. unfold raise_. destruct (frames st) as [|fr k]; [apply acct_finish; exact Ha|].
  destruct fr; try exact Ha.
  - pose proof (good_scope_exit (set_frames st k) sid (Some e) Hl) as G.
    destruct (scope_exit (set_frames st k) sid (Some e)) as [st1 sw]. cbn [fst] in G.
    assert (A1 : acct st1) by exact (proj1 G Ha).
    destruct kind; [destruct sw; exact A1|]. destruct (s_caught (get_scope st1 sid)); exact A1.
  - destruct y; [|exact Ha]. exact (proj1 (good_check_pending (set_frames st k) Hl) Ha).
  - destruct (catches c e); exact Ha.
Qed.

Lemma acct_wake : forall st wt v, acct st -> acct (wake st wt v).
Proof.
  intros st wt v Ha. unfold wake. destruct wt as [id|id|id f h]; destruct v as [e|]; try exact Ha.
  - destruct e as [m| |]; try exact Ha.
    pose proof (same_reschedule_delayed st m) as S1.
    destruct (reschedule_delayed st m) as [st1 ok]. cbn [fst] in S1.
    destruct ok; exact (same_acct _ _ S1 Ha).
Qed.

Lemma same_observe_resumption : forall st k v, same st (observe_resumption st k v).
Proof.
  intros. unfold observe_resumption.
  destruct (existsb is_shield k); [destruct v; [sm|apply same_refl]|].
  destruct k as [|[| | | | |[]] k']; try apply same_refl;
    (destruct v as [[[j|]| |]|]; try apply same_refl; try sm; destruct (first_called st (sstack st));
     [destruct (g_owed (set_g_late st true)); sm|destruct (g_owed st); [sm|apply same_refl]]).
Qed.

Lemma acct_task_step : forall st v, acct st -> acct (task_step st v).
Proof.
  intros st v Ha. unfold task_step.
  set (p := if t_must st then _ else _).
  assert (P : same st (fst p)) by (unfold p; destruct (t_must st); [sm|apply same_refl]).
  destruct p as [st0 v0]. cbn [fst] in P.
  set (st1 := set_md (set_t_waiter st0 None) (MRun CRet)).
  assert (A1 : acct st1) by exact (same_acct _ _ P Ha).
  pose proof (same_resume_in (frames st1) v0 st1) as S2.
  destruct (resume_in (frames st1) v0 st1) as [[st2 k2] r2]. cbn [fst] in S2.
  assert (A2 : acct st2) by exact (same_acct _ _ S2 A1).
  destruct r2 as [v'|y|].
  - assert (A3 : acct (observe_resumption (set_frames st2 k2) k2 v'))
      by exact (same_acct _ _ (same_observe_resumption (set_frames st2 k2) k2 v') A2).
    destruct k2 as [|fr k']; [exact A3|]. destruct fr; try exact A3.
    + destruct v'; exact A3.
    + apply acct_wake. exact A3.
  - exact (same_acct _ _ (same_task_yield (set_frames st2 k2) y) A2).
  - exact A2.
Qed.

Lemma acct_run_cb : forall st f c, acct st -> acct (run_cb st f c).
Proof.
  intros st f c Ha. unfold run_cb. destruct c as [|outer|inner].
  - apply acct_task_step. exact Ha.
  - destruct (f_st (get_fut st outer)); try exact Ha;
      (destruct (f_st (get_fut st f));
       [exact (same_acct _ _ (same_fut_finish st outer FRes) Ha)
       |exact (same_acct _ _ (same_fut_finish st outer FRes) Ha)
       |exact (same_acct _ _ (same_fut_finish st outer (FCanc None)) Ha)
       |exact (same_acct _ _ (same_fut_finish st outer FExc) Ha)]).
  - destruct (fut_done st inner); [exact Ha|]. exact (same_acct _ _ (same_remove_cb st inner (CbInner f)) Ha).
Qed.

Lemma acct_run_handle : forall st k, md st = MLoop -> acct st -> acct (run_handle st k).
Proof.
  intros st k Hm Ha. assert (Hl : live st) by (unfold live, task_done; rewrite Hm; reflexivity).
  unfold run_handle. destruct k.
  - apply acct_task_step; exact Ha.
  - apply acct_run_cb; exact Ha.
  - destruct (f_st (get_fut st f)); try exact Ha; exact (same_acct _ _ (same_fut_finish st f FRes) Ha).
  - exact (same_acct _ _ (same_fut_finish st f FExc) Ha).
  - exact (proj1 (good_scope_cancel st s Hl) Ha).
  - exact (proj1 (good_deliver st s Hl) Ha).
  - rewrite Hl. exact (proj1 (good_task_uncancel_cancel st m Hl) Ha).
  - exact Ha.
  - rewrite Hl.
    assert (E0 : eff st (note_ext st) 0 1 0 0 0).
    { unfold note_ext. destruct (in_shield _); constructor; simpl; first [lia|reflexivity]. }
    assert (Hl1 : task_done (note_ext st) = false) by (unfold task_done; rewrite (e_md _ _ _ _ _ _ _ E0); exact Hl).
    pose proof (eff_task_cancel (note_ext st) None Hl1) as E.
    exact (eff_acct _ _ _ _ _ _ _ (eff_trans _ _ _ _ _ _ _ _ _ _ _ _ _ E0 E) ltac:(lia) Ha).
  - destruct (nth_scope st k) as [sid|]; [|exact Ha]. exact (proj1 (good_scope_cancel st sid Hl) Ha).
Qed.

Lemma acct_begin_iter : forall st, acct st -> acct (begin_iter st).
Proof.
  intros st Ha. unfold begin_iter.
  destruct (inject (S (iter st)) (ctrl (set_iter st (S (iter st)))) (ready (set_iter st (S (iter st))))
                   (nexth (set_iter st (S (iter st))))) as [rd nh].
  set (st1 := set_heap _ _).
  assert (A1 : acct st1) by exact Ha.
  clearbody st1.
  repeat match goal with
         | |- acct (match ?x with _ => _ end) => destruct x
         | |- acct (let '(_, _) := ?x in _) => destruct x
         end; try exact A1;
  repeat match goal with
         | |- context [match ?x with _ => _ end] => destruct x
         end; exact A1.
Qed.

(* ======== the invariant is preserved by every step: all programs, all controller schedules ======== *)
Theorem acct_step : forall st, acct st -> acct (step st).
Proof.
  intros st Ha. unfold step. destruct (md st) as [c| |r|] eqn:Hm; try exact Ha.
  - assert (Hl : live st) by (unfold live, task_done; rewrite Hm; reflexivity).
    destruct c as [p| |e]; [apply acct_exec|apply acct_ret|apply acct_raise]; assumption.
  - destruct (todo st) as [|n]; [apply acct_begin_iter; exact Ha|].
    unfold run_next. destruct (ready (set_todo st n)) as [|h rd]; [exact Ha|].
    destruct (h_canc h); [exact Ha|]. apply acct_run_handle; [exact Hm|exact Ha].
Qed.

Lemma acct_run_steps : forall fuel st, acct st -> acct (run_steps fuel st).
Proof.
  induction fuel as [|fu IH]; intros st Ha; simpl; [exact Ha|].
  destruct (md st); try exact Ha; apply IH; apply acct_step; exact Ha.
Qed.

Lemma push_timers_same : forall ts st, same st (push_timers ts st).
Proof.
  induction ts as [|t ts IH]; intros st; simpl; [apply same_refl|].
  eapply same_trans; [apply same_call_at|apply IH].
Qed.

Lemma acct_init : forall fx fb p timers turns k, acct (init fx fb p timers turns k).
Proof. intros. unfold init. eapply same_acct; [apply push_timers_same|]. reflexivity. Qed.

(* for every program, every controller schedule (timers, injected handles, busy-loop compression) and every number of
   machine steps *)
Theorem acct_reachable : forall fx fb p timers turns k fuel, acct (run_steps fuel (init fx fb p timers turns k)).
Proof. intros. apply acct_run_steps. apply acct_init. Qed.

Lemma owed_sum_zero : forall l, (forall s, In s l -> s_host s = false) -> owed_sum l = 0.
Proof.
  induction l as [|a l IH]; intros H; simpl; [reflexivity|].
  rewrite IH by (intros; apply H; right; assumption).
  unfold owed. rewrite (H a) by (left; reflexivity). reflexivity.
Qed.

Theorem no_leftover_when_balanced : forall fx fb p timers turns k fuel,
  let st := run_steps fuel (init fx fb p timers turns k) in
  (forall s, In s (scopes st) -> s_host s = false) ->
  t_cnt st = g_ext st + g_leak st + g_floor st.
Proof.
  intros. pose proof (acct_reachable fx fb p timers turns k fuel) as A. fold st in A. unfold acct in A.
  rewrite owed_sum_zero in A by assumption. lia.
Qed.

Lemma gs_md_emit : forall st e m k, get_scope (set_md (emit st e) m) k = get_scope st k.
Proof. reflexivity. Qed.
Lemma md_set_md : forall st m, md (set_md st m) = m.
Proof. reflexivity. Qed.

(* timeout().__exit__ : TimeoutError replaces the outcome iff cancelled_caught(); otherwise the outcome is untouched *)
Lemma timeout_exit_step : forall st id sid k c,
  frames st = FScope id KTimeout sid :: k -> md st = MRun c -> (c = CRet \/ exists e, c = CRaise e) ->
  (s_caught (get_scope (step st) sid) = true -> md (step st) = MRun (CRaise ETimeout)) /\
  (s_caught (get_scope (step st) sid) = false -> md (step st) = MRun c).
Proof.
  intros st id sid k c Hf Hm Hc. unfold step. rewrite Hm.
  destruct Hc as [->|[e ->]].
  - unfold ret. rewrite Hf. destruct (scope_exit (set_frames st k) sid None) as [st1 sw].
    destruct (s_caught (get_scope st1 sid)) eqn:E; rewrite gs_md_emit, md_set_md, E; split; intro H;
      first [reflexivity|discriminate].
  - unfold raise_. rewrite Hf. destruct (scope_exit (set_frames st k) sid (Some e)) as [st1 sw].
    destruct (s_caught (get_scope st1 sid)) eqn:E; rewrite gs_md_emit, md_set_md, E; split; intro H;
      first [reflexivity|discriminate].
Qed.
