(* C14: every close path ends with every leaf transport closing -- for every number of suspension points and every
   outcome (complete / OSError / cancel / scope expiry) at each of them. *)
From Coq Require Import List Bool Arith Lia.
Import ListNotations.
From EN Require Import Gen.ParamsC14 Conc.Close.

(* leaf flags only ever go up; lock and guard are only touched by with_lock *)
Definition le (w w' : world) : Prop := forall i, w_leaf w i = true -> w_leaf w' i = true.
Definition same_locks (w w' : world) : Prop := w_lock w' = w_lock w /\ w_guard w' = w_guard w.

Lemma le_refl w : le w w. Proof. intros i H; exact H. Qed.
Lemma le_trans a b c : le a b -> le b c -> le a c. Proof. intros H1 H2 i H. auto. Qed.

Definition keeps (p : M) : Prop :=
  forall e w ls, let '(r, w', ls') := p e w ls in le w w' /\ same_locks w w'.

Lemma point_keeps : keeps point.
Proof.
  intros e w ls. unfold point. destruct (e_forced e). { split; [apply le_refl | split; reflexivity]. }
  destruct ls as [|[] ls']; try destruct (e_timed e); (split; [intros i H; exact H | split; reflexivity]).
Qed.

Lemma points_keeps m : keeps (points m).
Proof.
  induction m as [|m IH]; intros e w ls; simpl.
  - split; [apply le_refl | split; reflexivity].
  - pose proof (point_keeps e w ls) as Hp. destruct (point e w ls) as [[r w1] ls1].
    destruct r; try exact Hp.
    pose proof (IH e w1 ls1) as H2. destruct (points m e w1 ls1) as [[r2 w2] ls2].
    destruct Hp as [Ha [Hb Hc]], H2 as [Hd [He Hf]]. split; [eapply le_trans; eauto | split; congruence].
Qed.

Lemma tls_shutdown_keeps c : keeps (tls_shutdown c).
Proof.
  intros e w ls. unfold tls_shutdown, swallow_err. destruct (t_unread c).
  - pose proof (points_keeps (t_flush c) e w ls) as H. destruct (points (t_flush c) e w ls) as [[r w1] ls1]. destruct r; exact H.
  - pose proof (points_keeps (t_unwrap c) e w ls) as H. destruct (points (t_unwrap c) e w ls) as [[r w1] ls1]. destruct r; exact H.
Qed.

Lemma forceful_keeps p : keeps p -> keeps (forceful p).
Proof.
  intros H e w ls. unfold forceful.
  pose proof (H {| e_forced := true; e_timed := e_timed e |} w ls) as Hp.
  destruct (p _ w ls) as [[r w1] ls1]. destruct r; exact Hp.
Qed.

Lemma set_leaf_le w i : le w (set_leaf w i).
Proof. intros j H. simpl. destruct (Nat.eqb j i); auto. Qed.

(* what a close of a base transport guarantees *)
Definition closes_base (b : base) (p : M) : Prop :=
  forall e w ls, let '(r, w', ls') := p e w ls in
    (forall i, In i (leaves b) -> w_leaf w' i = true) /\ le w w' /\ same_locks w w'.

Lemma base_aclose_closes : forall b, closes_base b (base_aclose b).
Proof.
  induction b as [i m | s IHs r IHr | i backlog]; intros e w ls.
  3:{ simpl.
      assert (Hset : le w (set_leaf w i) /\ same_locks w (set_leaf w i)) by (split; [apply set_leaf_le | split; reflexivity]).
      destruct (w_leaf w i && (negb backlog || w_flushed w i)) eqn:E0.
      { apply andb_true_iff in E0. destruct E0 as [E0 _].
        split; [intros j [<-|[]]; exact E0 | split; [apply le_refl | split; reflexivity]]. }
      destruct (negb backlog || w_flushed w i).
      - split; [intros j [<-|[]]; simpl; rewrite Nat.eqb_refl; reflexivity | split; [intros j Hj; simpl; destruct (Nat.eqb j i); auto | split; reflexivity]].
      - pose proof (point_keeps e (set_leaf w i) ls) as H.
        destruct (point e (set_leaf w i) ls) as [[r w1] ls1]. destruct H as [H1 [H2 H3]].
        assert (Hi : w_leaf w1 i = true) by (apply H1; simpl; rewrite Nat.eqb_refl; reflexivity).
        assert (Hle : le w w1) by (eapply le_trans; [apply set_leaf_le | exact H1]).
        destruct r; simpl;
          (split; [intros j [<-|[]]; exact Hi | split; [exact Hle | split; simpl in *; congruence]]). }
  - simpl. destruct (w_leaf w i) eqn:E.
    + split; [intros j [<-|[]]; exact E | split; [apply le_refl | split; reflexivity]].
    + pose proof (points_keeps m e (set_leaf w i) ls) as H.
      destruct (points m e (set_leaf w i) ls) as [[r w1] ls1]. destruct H as [H1 [H2 H3]].
      split; [| split; [eapply le_trans; [apply set_leaf_le | exact H1] | split; simpl in *; congruence]].
      intros j [<-|[]]. apply H1. simpl. rewrite Nat.eqb_refl. reflexivity.
  - simpl.
    pose proof (IHs e w ls) as H1. destruct (base_aclose s e w ls) as [[r1 w1] ls1].
    destruct H1 as [Hs [Hle1 [Hl1 Hg1]]].
    assert (Hn : forall e', let '(r2, w2, ls2) := base_aclose r e' w1 ls1 in
                 (forall i, In i (leaves s ++ leaves r) -> w_leaf w2 i = true) /\ le w w2 /\ same_locks w w2).
    { intro e'. pose proof (IHr e' w1 ls1) as H2. destruct (base_aclose r e' w1 ls1) as [[r2 w2] ls2].
      destruct H2 as [Hr [Hle2 [Hl2 Hg2]]]. split; [| split; [eapply le_trans; eauto | split; congruence]].
      intros i Hi. apply in_app_or in Hi. destruct Hi; auto. }
    assert (Hf : let '(r2, w2, ls2) := forceful (base_aclose r) e w1 ls1 in
                 (forall i, In i (leaves s ++ leaves r) -> w_leaf w2 i = true) /\ le w w2 /\ same_locks w w2).
    { unfold forceful. specialize (Hn {| e_forced := true; e_timed := e_timed e |}).
      destruct (base_aclose r _ w1 ls1) as [[r2 w2] ls2]. destruct r2; exact Hn. }
    destruct r1; try (destruct (forceful (base_aclose r) e w1 ls1) as [[r2 w2] ls2]; destruct r2; exact Hf).
    exact (Hn e).
Qed.

Lemma forceful_base_closes b : closes_base b (forceful (base_aclose b)).
Proof.
  intros e w ls. unfold forceful.
  pose proof (base_aclose_closes b {| e_forced := true; e_timed := e_timed e |} w ls) as H.
  destruct (base_aclose b _ w ls) as [[r w1] ls1]. destruct r; exact H.
Qed.

(* --- TLS.  The world setters for the TLS flags do not touch leaves or locks. *)
Lemma fin_ok b (x : res * world * list xlabel) w :
  (let '(r, w', ls') := x in (forall i, In i (leaves b) -> w_leaf w' i = true) /\ le w w' /\ same_locks w w') ->
  let '(r, w', ls') := (let '(r, w', ls') := x in (r, set_tls_closed (set_tls_closing w'), ls')) in
  ((forall i, In i (leaves b) -> w_leaf w' i = true) /\ le w w' /\ same_locks w w') /\
  w_tls_closing w' = true /\ w_tls_closed w' = true.
Proof. destruct x as [[r w'] ls']. intros H. split; [exact H | split; reflexivity]. Qed.

Lemma tls_aclose_closes : forall c b,
  forall e w ls, w_tls_closing w = false ->
    let '(r, w', ls') := tls_aclose c b e w ls in
    (forall i, In i (leaves b) -> w_leaf w' i = true) /\ le w w' /\ same_locks w w' /\
    w_tls_closing w' = true /\ w_tls_closed w' = true.
Proof.
  intros c b e w ls Hc.
  cut (let '(r, w', ls') := tls_aclose c b e w ls in
       ((forall i, In i (leaves b) -> w_leaf w' i = true) /\ le w w' /\ same_locks w w') /\
       w_tls_closing w' = true /\ w_tls_closed w' = true).
  { destruct (tls_aclose c b e w ls) as [[r w'] ls']. intros [[A [B C]] [D E]]. repeat split; try assumption; apply C. }
  unfold tls_aclose. rewrite Hc.
  change closing_flag_first with true. change unwrap_handler_catches_base with true. cbv iota. simpl orb.
  set (w0 := set_tls_closing w).
  assert (Hw0 : le w w0 /\ same_locks w w0).
  { subst w0. split; [intros i H; simpl; exact H | split; reflexivity]. }
  destruct Hw0 as [Hle0 [Hl0 Hg0]].
  assert (Hplain : forall e' w1 ls1, le w w1 -> same_locks w w1 ->
            let '(r, w', ls') := base_aclose b e' w1 ls1 in
            (forall i, In i (leaves b) -> w_leaf w' i = true) /\ le w w' /\ same_locks w w').
  { intros e' w1 ls1 Hl [Ha Hb]. pose proof (base_aclose_closes b e' w1 ls1) as H.
    destruct (base_aclose b e' w1 ls1) as [[r w2] ls2]. destruct H as [H1 [H2 [H3 H4]]].
    split; [exact H1 | split; [eapply le_trans; eauto | split; congruence]]. }
  assert (Hforce : forall w1 ls1, le w w1 -> same_locks w w1 ->
            let '(r, w', ls') := forceful (base_aclose b) e w1 ls1 in
            (forall i, In i (leaves b) -> w_leaf w' i = true) /\ le w w' /\ same_locks w w').
  { intros w1 ls1 Hl [Ha Hb]. pose proof (forceful_base_closes b e w1 ls1) as H.
    destruct (forceful (base_aclose b) e w1 ls1) as [[r w2] ls2]. destruct H as [H1 [H2 [H3 H4]]].
    split; [exact H1 | split; [eapply le_trans; eauto | split; congruence]]. }
  destruct (t_std c && negb (base_closing b w0)).
  - unfold timed.
    pose proof (tls_shutdown_keeps c {| e_forced := e_forced e; e_timed := true |} w0 ls) as Hu.
    destruct (tls_shutdown c _ w0 ls) as [[r1 w1] ls1]. destruct Hu as [Hu1 [Hu2 Hu3]].
    assert (Hl1 : le w w1) by exact (le_trans _ _ _ Hle0 Hu1).
    assert (Hs1 : same_locks w w1) by (split; congruence).
    destruct r1;
      try (apply (fin_ok b (base_aclose b e w1 ls1) w); apply Hplain; assumption);
      (specialize (Hforce w1 ls1 Hl1 Hs1);
       destruct (forceful (base_aclose b) e w1 ls1) as [[r2 w2] ls2];
       destruct r2; simpl; (split; [exact Hforce | split; reflexivity])).
  - apply (fin_ok b (base_aclose b e w0 ls) w). apply Hplain; [exact Hle0 | split; assumption].
Qed.

(* tls_aclose never lowers a leaf flag nor touches the locks, whatever the state it is called in *)
Lemma tls_aclose_keeps c b : keeps (tls_aclose c b).
Proof.
  intros e w ls. destruct (w_tls_closing w) eqn:Hc.
  - unfold tls_aclose. rewrite Hc. destruct (w_tls_closed w).
    + split; [apply le_refl | split; reflexivity].
    + apply point_keeps.
  - pose proof (tls_aclose_closes c b e w ls Hc) as H.
    destruct (tls_aclose c b e w ls) as [[r w'] ls']. destruct H as [_ [H1 [H2 _]]]. split; assumption.
Qed.

Definition fresh (t : tr) (w : world) : Prop :=
  match t with TPlain _ => True | TTls _ _ => w_tls_closing w = false end.

Lemma tr_aclose_keeps t : keeps (tr_aclose t).
Proof.
  destruct t as [b | c b]; simpl.
  - intros e w ls. pose proof (base_aclose_closes b e w ls) as H.
    destruct (base_aclose b e w ls) as [[r w'] ls']. destruct H as [_ H]. exact H.
  - apply tls_aclose_keeps.
Qed.

Lemma tr_aclose_closes t e w ls : fresh t w ->
  let '(r, w', ls') := tr_aclose t e w ls in
  (forall i, In i (leaves (tr_base t)) -> w_leaf w' i = true) /\ le w w' /\ same_locks w w'.
Proof.
  destruct t as [b | c b]; simpl; intro Hf.
  - apply base_aclose_closes.
  - pose proof (tls_aclose_closes c b e w ls Hf) as H.
    destruct (tls_aclose c b e w ls) as [[r w'] ls']. destruct H as [A [B [C _]]]. repeat split; try assumption; apply C.
Qed.

Lemma forceful_tr_closes t e w ls : fresh t w ->
  let '(r, w', ls') := forceful (tr_aclose t) e w ls in
  (forall i, In i (leaves (tr_base t)) -> w_leaf w' i = true) /\ le w w' /\ same_locks w w'.
Proof.
  intro Hf. unfold forceful.
  pose proof (tr_aclose_closes t {| e_forced := true; e_timed := e_timed e |} w ls Hf) as H.
  destruct (tr_aclose t _ w ls) as [[r w'] ls']. destruct r; exact H.
Qed.

Lemma guarded_keeps t : keeps (guarded_aclose t).
Proof.
  intros e w ls. unfold guarded_aclose. destruct (w_guard w).
  - split; [apply le_refl | split; reflexivity].
  - apply tr_aclose_keeps.
Qed.

Lemma closed_le b w w' : le w w' -> (forall i, In i (leaves b) -> w_leaf w i = true) ->
  forall i, In i (leaves b) -> w_leaf w' i = true.
Proof. intros H H1 i Hi. apply H. apply H1. exact Hi. Qed.

(* AsyncStreamEndpoint.aclose, nobody sending *)
Lemma endpoint_closes t e w ls : fresh t w -> w_guard w = false ->
  let '(r, w', ls') := guarded_aclose t e w ls in forall i, In i (leaves (tr_base t)) -> w_leaf w' i = true.
Proof.
  intros Hf Hg. unfold guarded_aclose. rewrite Hg.
  pose proof (tr_aclose_closes t e w ls Hf) as H. destruct (tr_aclose t e w ls) as [[r w'] ls']. apply H.
Qed.

(* AsyncTCPNetworkClient.aclose with the send lock free: holds with and without the forced fallback *)
Lemma client_closes_free t e w ls : fresh t w -> w_lock w = false -> w_guard w = false ->
  let '(r, w', ls') := client_aclose t e w ls in forall i, In i (leaves (tr_base t)) -> w_leaf w' i = true.
Proof.
  intros Hf Hl Hg. unfold client_aclose. rewrite Hl. apply endpoint_closes; assumption.
Qed.

(* _ConnectedClientAPI.aclose with the send lock free *)
Lemma api_closes_free t e w ls : fresh t w -> w_lock w = false -> w_guard w = false ->
  let '(r, w', ls') := api_aclose t e w ls in forall i, In i (leaves (tr_base t)) -> w_leaf w' i = true.
Proof.
  intros Hf Hl Hg. unfold api_aclose, with_lock. rewrite Hl. unfold guarded_aclose at 1. simpl w_guard. rewrite Hg.
  assert (Hf' : fresh t (set_api_closing w)) by (destruct t; simpl in *; auto).
  pose proof (tr_aclose_closes t e (set_api_closing w) ls Hf') as H.
  destruct (tr_aclose t e (set_api_closing w) ls) as [[r w1] ls1]. destruct H as [H1 _].
  assert (K : forall p, keeps p -> let '(r2, w2, ls2) := forceful p e (set_api_closing w1) ls1 in
                        forall i, In i (leaves (tr_base t)) -> w_leaf w2 i = true).
  { intros p Kp. pose proof (forceful_keeps _ Kp e (set_api_closing w1) ls1) as K.
    destruct (forceful p e (set_api_closing w1) ls1) as [[r2 w2] ls2]. destruct K as [K _].
    apply (closed_le _ _ _ K). exact H1. }
  destruct r; try exact H1;
    (destruct api_fallback_bypasses_guard;
     [ specialize (K _ (tr_aclose_keeps t)); destruct (forceful (tr_aclose t) e (set_api_closing w1) ls1) as [[r2 w2] ls2]
     | specialize (K _ (guarded_keeps t)); destruct (forceful (guarded_aclose t) e (set_api_closing w1) ls1) as [[r2 w2] ls2] ];
     destruct r2; exact K).
Qed.

(* the witnesses of F7 / F8: a sender is suspended holding the lock (and the guard), the closer is cancelled
   while waiting for the lock *)
Definition f_tr : tr := TPlain (BLeaf 0 1).

Lemma client_refuted : client_forced_fallback = false ->
  let '(r, w', _) := client_aclose f_tr env0 (world0 true) [XCancel] in r = RCancel /\ w_leaf w' 0 = false.
Proof. intro H. unfold client_aclose. simpl w_lock. cbv iota. rewrite H. vm_compute. split; reflexivity. Qed.

Lemma api_refuted : api_fallback_bypasses_guard = false ->
  let '(r, w', _) := api_aclose f_tr env0 (world0 true) [XCancel] in r = RBusy /\ w_leaf w' 0 = false.
Proof. intro H. unfold api_aclose. rewrite H. vm_compute. split; reflexivity. Qed.

(* --- the contended case for the fixed shapes (meta/fixes/C14_F7.diff, C14_F8.diff): a sender may hold the send
       lock and the send guard; the guard is only ever held together with the lock *)
Lemma point_fresh t e w ls : fresh t w -> let '(r, w', ls') := point e w ls in fresh t w'.
Proof.
  intro Hf. unfold point. destruct (e_forced e); [exact Hf|].
  destruct ls as [|[] ls']; try destruct (e_timed e); destruct t; simpl in *; auto.
Qed.

Lemma lock_point_spec t e w ls : fresh t w ->
  let '(r, w', ls') := lock_point e w ls in
  fresh t w' /\ le w w' /\ same_locks w w' /\ (r = ROk \/ r = RCancel \/ r = RForced \/ r = RShutdown).
Proof.
  intro Hf. unfold lock_point.
  assert (G : forall ls0, (forall l, ls0 <> XRaise :: l) ->
              let '(r, w', ls') := point e w ls0 in
              fresh t w' /\ le w w' /\ same_locks w w' /\ (r = ROk \/ r = RCancel \/ r = RForced \/ r = RShutdown)).
  { intros ls0 Hn. pose proof (point_fresh t e w ls0 Hf) as H1. pose proof (point_keeps e w ls0) as H2.
    unfold point in *. destruct (e_forced e); [repeat split; try apply H2; auto|].
    destruct ls0 as [|[] l0]; try (exfalso; eapply Hn; reflexivity); try destruct (e_timed e);
      (split; [exact H1 | split; [apply H2 | split; [apply H2 | auto]]]). }
  destruct ls as [|[] l]; try (apply G; intros l0 K; discriminate).
Qed.

Lemma release_fresh t w : fresh t w -> fresh t (release_sender w).
Proof. destruct t; simpl; auto. Qed.

Lemma client_closes_contended t e w ls : client_forced_fallback = true -> fresh t w ->
  (w_lock w = false -> w_guard w = false) ->
  let '(r, w', ls') := client_aclose t e w ls in forall i, In i (leaves (tr_base t)) -> w_leaf w' i = true.
Proof.
  intros Hp Hf Hlg. unfold client_aclose. destruct (w_lock w) eqn:Hl.
  - pose proof (lock_point_spec t e w ls Hf) as Hs. destruct (lock_point e w ls) as [[r w1] ls1].
    destruct Hs as [Hf1 [_ [_ Hr]]].
    assert (Hforce : let '(r2, w2, ls2) := forceful (tr_aclose t) e w1 ls1 in
                     forall i, In i (leaves (tr_base t)) -> w_leaf w2 i = true).
    { pose proof (forceful_tr_closes t e w1 ls1 Hf1) as H. destruct (forceful (tr_aclose t) e w1 ls1) as [[r2 w2] ls2]. apply H. }
    destruct Hr as [-> | [-> | [-> | ->]]].
    + apply endpoint_closes; [apply release_fresh; exact Hf1 | reflexivity].
    + rewrite Hp. destruct (forceful (tr_aclose t) e w1 ls1) as [[r2 w2] ls2]. destruct r2; exact Hforce.
    + rewrite Hp. destruct (forceful (tr_aclose t) e w1 ls1) as [[r2 w2] ls2]. destruct r2; exact Hforce.
    + rewrite Hp. destruct (forceful (tr_aclose t) e w1 ls1) as [[r2 w2] ls2]. destruct r2; exact Hforce.
  - apply endpoint_closes; auto.
Qed.

Lemma api_closes_contended t e w ls : api_fallback_bypasses_guard = true -> fresh t w ->
  (w_lock w = false -> w_guard w = false) ->
  let '(r, w', ls') := api_aclose t e w ls in forall i, In i (leaves (tr_base t)) -> w_leaf w' i = true.
Proof.
  intros Hp Hf Hlg. destruct (w_lock w) eqn:Hl.
  2:{ apply api_closes_free; auto. }
  unfold api_aclose, with_lock. rewrite Hl, Hp.
  pose proof (lock_point_spec t e w ls Hf) as Hs. destruct (lock_point e w ls) as [[r w1] ls1].
  destruct Hs as [Hf1 [_ [_ Hr]]].
  assert (Hforce : let '(r2, w2, ls2) := forceful (tr_aclose t) e (set_api_closing w1) ls1 in
                   forall i, In i (leaves (tr_base t)) -> w_leaf w2 i = true).
  { assert (Hf2 : fresh t (set_api_closing w1)) by (destruct t; simpl in *; auto).
    pose proof (forceful_tr_closes t e (set_api_closing w1) ls1 Hf2) as H.
    destruct (forceful (tr_aclose t) e (set_api_closing w1) ls1) as [[r2 w2] ls2]. apply H. }
  destruct Hr as [-> | [-> | [-> | ->]]].
  - (* the sender finished: lock and guard are free *)
    unfold guarded_aclose. simpl w_guard.
    assert (Hf2 : fresh t (set_api_closing (release_sender w1))) by (destruct t; simpl in *; auto).
    pose proof (tr_aclose_closes t e (set_api_closing (release_sender w1)) ls1 Hf2) as H.
    destruct (tr_aclose t e (set_api_closing (release_sender w1)) ls1) as [[r w2] ls2]. destruct H as [H1 _].
    assert (K : let '(r3, w3, ls3) := forceful (tr_aclose t) e (set_api_closing w2) ls2 in
                forall i, In i (leaves (tr_base t)) -> w_leaf w3 i = true).
    { pose proof (forceful_keeps _ (tr_aclose_keeps t) e (set_api_closing w2) ls2) as K.
      destruct (forceful (tr_aclose t) e (set_api_closing w2) ls2) as [[r3 w3] ls3]. destruct K as [K _].
      apply (closed_le _ _ _ K). exact H1. }
    destruct r; try exact H1;
      (destruct (forceful (tr_aclose t) e (set_api_closing w2) ls2) as [[r3 w3] ls3]; destruct r3; exact K).
  - destruct (forceful (tr_aclose t) e (set_api_closing w1) ls1) as [[r2 w2] ls2]. destruct r2; exact Hforce.
  - destruct (forceful (tr_aclose t) e (set_api_closing w1) ls1) as [[r2 w2] ls2]. destruct r2; exact Hforce.
  - destruct (forceful (tr_aclose t) e (set_api_closing w1) ls1) as [[r2 w2] ls2]. destruct r2; exact Hforce.
Qed.

(* both halves of a stapled transport are closed whatever happens while closing the first *)
Lemma stapled_both s r e w ls :
  let '(x, w', ls') := base_aclose (BStapled s r) e w ls in
  (forall i, In i (leaves s) -> w_leaf w' i = true) /\ (forall i, In i (leaves r) -> w_leaf w' i = true).
Proof.
  pose proof (base_aclose_closes (BStapled s r) e w ls) as H.
  destruct (base_aclose (BStapled s r) e w ls) as [[x w'] ls']. destruct H as [H _].
  split; intros i Hi; apply H; simpl; apply in_or_app; auto.
Qed.

(* a second close of a closed base transport: no suspension point, returns normally, nothing changes -- unless an
   asyncio adapter still has unflushed data (see adapter_backlog_second_close_waits) *)
Lemma base_second_prompt : forall b e w ls, no_backlog b = true -> (forall i, In i (leaves b) -> w_leaf w i = true) ->
  base_aclose b e w ls = (ROk, w, ls).
Proof.
  induction b as [i m | s IHs r IHr | i backlog]; intros e w ls Hb H; simpl.
  - rewrite (H i (or_introl eq_refl)). reflexivity.
  - simpl in Hb. apply andb_true_iff in Hb. destruct Hb as [Hs Hr].
    rewrite IHs by (auto; intros i Hi; apply H; simpl; apply in_or_app; auto).
    apply IHr; auto. intros i Hi; apply H; simpl; apply in_or_app; auto.
  - simpl in Hb. rewrite (H i (or_introl eq_refl)). rewrite Hb. reflexivity.
Qed.

Lemma tr_second_prompt t e w ls e2 : fresh t w -> no_backlog (tr_base t) = true ->
  let '(r, w1, ls1) := tr_aclose t e w ls in tr_aclose t e2 w1 ls1 = (ROk, w1, ls1).
Proof.
  destruct t as [b | c b]; simpl; intros Hf Hb.
  - pose proof (base_aclose_closes b e w ls) as H. destruct (base_aclose b e w ls) as [[r w1] ls1].
    apply base_second_prompt; [exact Hb | apply H].
  - pose proof (tls_aclose_closes c b e w ls Hf) as H. destruct (tls_aclose c b e w ls) as [[r w1] ls1].
    destruct H as [_ [_ [_ [H1 H2]]]]. unfold tls_aclose. rewrite H1, H2. reflexivity.
Qed.

(* the asyncio adapter with unflushed data and a peer that does not read: a close that is cancelled (or forced)
   at the close waiter marks the transport closing but does not release the file descriptor, and a second close waits
   again (it consumes a label) *)
Lemma adapter_backlog_witness :
  let '(r, w1, ls1) := base_aclose (BAdapter 0 true) env0 (world0 false) [XCancel; XCancel] in
  r = RCancel /\ w_leaf w1 0 = true /\ w_flushed w1 0 = false /\
  let '(r2, w2, ls2) := base_aclose (BAdapter 0 true) env0 w1 ls1 in r2 = RCancel /\ w_used w2 = 2.
Proof. vm_compute. repeat split. Qed.

Lemma adapter_forced_witness :
  let '(r, w1, ls1) := forceful (base_aclose (BAdapter 0 true)) env0 (world0 false) [] in
  r = ROk /\ w_leaf w1 0 = true /\ w_flushed w1 0 = false.
Proof. vm_compute. repeat split. Qed.

(* the descriptor is released as soon as the waiter completes: the peer drained the data or the connection broke *)
Lemma adapter_flush_releases i e w ls :
  let '(r, w1, ls1) := base_aclose (BAdapter i true) e w ls in r = ROk -> w_flushed w1 i = true \/ (w_leaf w i = true /\ w1 = w).
Proof.
  simpl. destruct (w_leaf w i) eqn:El; destruct (w_flushed w i) eqn:Ef; simpl.
  - intros _. right. auto.
  - destruct (point e (set_leaf w i) ls) as [[r w1] ls1].
    destruct r; try discriminate; intros _; left; simpl; rewrite Nat.eqb_refl; reflexivity.
  - intros _. left. rewrite Nat.eqb_refl. reflexivity.
  - destruct (point e (set_leaf w i) ls) as [[r w1] ls1].
    destruct r; try discriminate; intros _; left; simpl; rewrite Nat.eqb_refl; reflexivity.
Qed.

(* a failed, cancelled or timed-out TLS handshake closes the wrapped transport *)
Lemma wrap_failure c b e w ls :
  let '(r, w', ls') := tls_wrap c b e w ls in r <> ROk -> forall i, In i (leaves b) -> w_leaf w' i = true.
Proof.
  unfold tls_wrap. destruct (timed (points (t_hs c)) e w ls) as [[x w1] ls1].
  pose proof (forceful_base_closes b e (set_tls_closing w1) ls1) as H.
  destruct x; try (intros Hn; exfalso; apply Hn; reflexivity);
    (destruct (forceful (base_aclose b) e (set_tls_closing w1) ls1) as [[r2 w2] ls2]; destruct H as [H _];
     destruct r2; intros _; exact H).
Qed.

(* --- all paths *)
Definition path_ok (p : path) : Prop :=
  match p with
  | PTaskExit _ true => False        (* see client_task_exit below *)
  | _ => True
  end.

Lemma world0_fresh t : fresh t (world0 false).
Proof. destruct t; simpl; auto. Qed.

Lemma paths_close : forall p ls, path_ok p ->
  let '(r, w', ls') := run_path p env0 (world0 false) ls in
  (match p with PWrap _ _ => r <> ROk | _ => True end) ->
  forall i, In i (leaves (tr_base (path_tr p))) -> w_leaf w' i = true.
Proof.
  intros p ls Hok. destruct p as [t | t | c b | t | t | t | t inner | t | t | t | t]; simpl run_path; simpl path_tr.
  11:{ pose proof (forceful_tr_closes t env0 (world0 false) ls (world0_fresh t)) as H.
      destruct (forceful (tr_aclose t) env0 (world0 false) ls) as [[r w'] ls']. intros _. apply H. }
  8:{ unfold then_raises.
      pose proof (endpoint_closes t env0 (world0 false) ls (world0_fresh t) eq_refl) as H.
      destruct (guarded_aclose t env0 (world0 false) ls) as [[r w'] ls']. intros _. exact H. }
  8:{ unfold then_raises.
      pose proof (client_closes_free t env0 (world0 false) ls (world0_fresh t) eq_refl eq_refl) as H.
      destruct (client_aclose t env0 (world0 false) ls) as [[r w'] ls']. intros _. exact H. }
  8:{ unfold client_task_exit.
      pose proof (forceful_tr_closes t env0 (world0 false) ls (world0_fresh t)) as H.
      destruct (forceful (tr_aclose t) env0 (world0 false) ls) as [[r w'] ls']. destruct H as [H _].
      destruct r; intros _; exact H. }
  - pose proof (tr_aclose_closes t env0 (world0 false) ls (world0_fresh t)) as H.
    destruct (tr_aclose t env0 (world0 false) ls) as [[r w'] ls']. intros _. apply H.
  - pose proof (forceful_tr_closes t env0 (world0 false) ls (world0_fresh t)) as H.
    destruct (forceful (tr_aclose t) env0 (world0 false) ls) as [[r w'] ls']. intros _. apply H.
  - apply wrap_failure.
  - pose proof (endpoint_closes t env0 (world0 false) ls (world0_fresh t) eq_refl) as H.
    destruct (guarded_aclose t env0 (world0 false) ls) as [[r w'] ls']. intros _. exact H.
  - pose proof (client_closes_free t env0 (world0 false) ls (world0_fresh t) eq_refl eq_refl) as H.
    destruct (client_aclose t env0 (world0 false) ls) as [[r w'] ls']. intros _. exact H.
  - pose proof (api_closes_free t env0 (world0 false) ls (world0_fresh t) eq_refl eq_refl) as H.
    destruct (api_aclose t env0 (world0 false) ls) as [[r w'] ls']. intros _. exact H.
  - destruct inner; [destruct Hok |]. unfold client_task_exit.
    pose proof (forceful_tr_closes t env0 (world0 false) ls (world0_fresh t)) as H.
    destruct (forceful (tr_aclose t) env0 (world0 false) ls) as [[r w'] ls']. destruct H as [H _].
    destruct r; intros _; exact H.
Qed.

(* the teardown of the server's client task closes the transport even when the sender holds lock and guard,
   whatever the handler did before, as long as the handler did not start closing the TLS layer itself *)
Lemma task_exit_closes t handler e w ls :
  (forall e w ls, let '(r, w', ls') := handler e w ls in fresh t w -> fresh t w' /\ le w w') -> fresh t w ->
  let '(r, w', ls') := client_task_exit handler t e w ls in forall i, In i (leaves (tr_base t)) -> w_leaf w' i = true.
Proof.
  intros Hh Hf. unfold client_task_exit. specialize (Hh e w ls). destruct (handler e w ls) as [[x w1] ls1].
  destruct (Hh Hf) as [Hf1 _].
  pose proof (forceful_tr_closes t e w1 ls1 Hf1) as H.
  destruct (forceful (tr_aclose t) e w1 ls1) as [[r w2] ls2]. destruct H as [H _]. destruct r; exact H.
Qed.

(* ------------------------------------------------------------------ the teardown after ANY handler of our kind.
   tinv: once the TLS layer says "closing", its leaves are closed -- true between complete operations, because
   tls_aclose reaches the leaves on every exit once it has set the flag. *)
Definition tinv (t : tr) (w : world) : Prop :=
  match t with
  | TPlain _ => True
  | TTls _ b => w_tls_closing w = true -> forall i, In i (leaves b) -> w_leaf w i = true
  end.

Definition keeps_t (t : tr) (p : M) : Prop :=
  forall e w ls, tinv t w -> let '(r, w', ls') := p e w ls in tinv t w' /\ le w w' /\ same_locks w w'.

Lemma point_tls e w ls : let '(r, w', ls') := point e w ls in w_tls_closing w' = w_tls_closing w.
Proof. unfold point. destruct (e_forced e); auto. destruct ls as [|[] ?]; try destruct (e_timed e); reflexivity. Qed.

Lemma tinv_le t w w' : tinv t w -> le w w' -> w_tls_closing w' = w_tls_closing w -> tinv t w'.
Proof. destruct t; simpl; auto. intros H Hle E Hc i Hi. apply Hle. apply H; [congruence | exact Hi]. Qed.

Lemma tr_aclose_tinv t : keeps_t t (tr_aclose t).
Proof.
  intros e w ls Hi. destruct t as [b | c b]; simpl.
  - pose proof (base_aclose_closes b e w ls) as H. destruct (base_aclose b e w ls) as [[r w'] ls']. tauto.
  - destruct (w_tls_closing w) eqn:Hc.
    + unfold tls_aclose. rewrite Hc. destruct (w_tls_closed w).
      * split; [exact Hi | split; [apply le_refl | split; reflexivity]].
      * pose proof (point_keeps e w ls) as Hk. pose proof (point_tls e w ls) as Ht.
        destruct (point e w ls) as [[r w'] ls']. destruct Hk as [Hle Hl].
        split; [eapply (tinv_le (TTls c b)); eauto | split; assumption].
    + pose proof (tls_aclose_closes c b e w ls Hc) as H. destruct (tls_aclose c b e w ls) as [[r w'] ls'].
      destruct H as [H1 [H2 [H3 _]]]. split; [intros _; exact H1 | split; assumption].
Qed.

Lemma forceful_tinv t p : keeps_t t p -> keeps_t t (forceful p).
Proof.
  intros H e w ls Hi. unfold forceful.
  pose proof (H {| e_forced := true; e_timed := e_timed e |} w ls Hi) as Hp.
  destruct (p _ w ls) as [[r w1] ls1]. destruct r; exact Hp.
Qed.

Lemma guarded_tinv t : keeps_t t (guarded_aclose t).
Proof.
  intros e w ls Hi. unfold guarded_aclose. destruct (w_guard w).
  - split; [exact Hi | split; [apply le_refl | split; reflexivity]].
  - apply tr_aclose_tinv. exact Hi.
Qed.

Lemma tinv_api t w : tinv t (set_api_closing w) <-> tinv t w.
Proof. destruct t; simpl; tauto. Qed.
Lemma tinv_release t w : tinv t (release_sender w) <-> tinv t w.
Proof. destruct t; simpl; tauto. Qed.

Lemma lock_point_tinv t e w ls : tinv t w ->
  let '(r, w', ls') := lock_point e w ls in tinv t w' /\ le w w'.
Proof.
  intro Hi. unfold lock_point.
  assert (G : forall ls0, let '(r, w', ls') := point e w ls0 in tinv t w' /\ le w w').
  { intro ls0. pose proof (point_keeps e w ls0) as Hk. pose proof (point_tls e w ls0) as Ht.
    destruct (point e w ls0) as [[r w'] ls']. destruct Hk as [Hle _]. split; [eapply tinv_le; eauto | exact Hle]. }
  destruct ls as [|[] l]; apply G.
Qed.

(* _ConnectedClientAPI.aclose keeps tinv and never lowers a leaf flag, whoever holds lock and guard *)
Lemma api_aclose_tinv t e w ls : tinv t w ->
  let '(r, w', ls') := api_aclose t e w ls in tinv t w' /\ le w w'.
Proof.
  intro Hi. unfold api_aclose.
  assert (Hbody : forall e0 w0 ls0, tinv t w0 ->
            let '(r, w', ls') := guarded_aclose t e0 (set_api_closing w0) ls0 in tinv t w' /\ le w0 w').
  { intros e0 w0 ls0 H0. pose proof (guarded_tinv t e0 (set_api_closing w0) ls0 (proj2 (tinv_api t w0) H0)) as H.
    destruct (guarded_aclose t e0 (set_api_closing w0) ls0) as [[r w'] ls']. destruct H as [A [B _]].
    split; [exact A | intros i Hl; apply B; exact Hl]. }
  assert (Hlock : let '(x, w1, ls1) := with_lock (fun e' w' ls' => guarded_aclose t e' (set_api_closing w') ls') e w ls in
                  tinv t w1 /\ le w w1).
  { unfold with_lock. destruct (w_lock w).
    - pose proof (lock_point_tinv t e w ls Hi) as Hp. destruct (lock_point e w ls) as [[r0 w0] ls0].
      destruct Hp as [Hi0 Hle0].
      destruct r0; try (split; assumption).
      pose proof (Hbody e (release_sender w0) ls0 (proj2 (tinv_release t w0) Hi0)) as Hb.
      destruct (guarded_aclose t e (set_api_closing (release_sender w0)) ls0) as [[r w'] ls'].
      destruct Hb as [A B]. split; [exact A | eapply le_trans; [exact Hle0 | intros i Hl; apply B; exact Hl]].
    - apply Hbody. exact Hi. }
  destruct (with_lock _ e w ls) as [[x w1] ls1]. destruct Hlock as [Hi1 Hle1].
  assert (Hf : forall p, keeps_t t p ->
            let '(r2, w2, ls2) := forceful p e (set_api_closing w1) ls1 in tinv t w2 /\ le w w2).
  { intros p Kp. pose proof (forceful_tinv t p Kp e (set_api_closing w1) ls1 (proj2 (tinv_api t w1) Hi1)) as H.
    destruct (forceful p e (set_api_closing w1) ls1) as [[r2 w2] ls2]. destruct H as [A [B _]].
    split; [exact A | eapply le_trans; [exact Hle1 | intros i Hl; apply B; exact Hl]]. }
  destruct x; try (split; assumption);
    (destruct api_fallback_bypasses_guard;
     [ specialize (Hf _ (tr_aclose_tinv t)); destruct (forceful (tr_aclose t) e (set_api_closing w1) ls1) as [[r2 w2] ls2]
     | specialize (Hf _ (guarded_tinv t)); destruct (forceful (guarded_aclose t) e (set_api_closing w1) ls1) as [[r2 w2] ls2] ];
     destruct r2; exact Hf).
Qed.

(* the exit stack closes every leaf after any handler that keeps tinv (every program of this file does) *)
Lemma task_exit_closes_tinv t handler e w ls :
  (forall e w ls, tinv t w -> let '(r, w', ls') := handler e w ls in tinv t w' /\ le w w') -> tinv t w ->
  let '(r, w', ls') := client_task_exit handler t e w ls in forall i, In i (leaves (tr_base t)) -> w_leaf w' i = true.
Proof.
  intros Hh Hi. unfold client_task_exit. specialize (Hh e w ls Hi). destruct (handler e w ls) as [[x w1] ls1].
  destruct Hh as [Hi1 _].
  assert (G : let '(r, w2, ls2) := forceful (tr_aclose t) e w1 ls1 in
              forall i, In i (leaves (tr_base t)) -> w_leaf w2 i = true).
  { destruct t as [b | c b].
    - pose proof (forceful_tr_closes (TPlain b) e w1 ls1 Logic.I) as H.
      destruct (forceful (tr_aclose (TPlain b)) e w1 ls1) as [[r w2] ls2]. apply H.
    - destruct (w_tls_closing w1) eqn:Hc.
      + pose proof (forceful_keeps _ (tr_aclose_keeps (TTls c b)) e w1 ls1) as K.
        destruct (forceful (tr_aclose (TTls c b)) e w1 ls1) as [[r w2] ls2]. destruct K as [K _].
        intros i Hl. apply K. apply Hi1; [exact Hc | exact Hl].
      + pose proof (forceful_tr_closes (TTls c b) e w1 ls1 Hc) as H.
        destruct (forceful (tr_aclose (TTls c b)) e w1 ls1) as [[r w2] ls2]. apply H. }
  destruct (forceful (tr_aclose t) e w1 ls1) as [[r w2] ls2]. destruct r; exact G.
Qed.

Lemma world0_tinv t lock : tinv t (world0 lock).
Proof. destruct t; simpl; auto; discriminate. Qed.

(* both teardown paths, lock free or held *)
Lemma teardown_closes t inner lock ls :
  let '(r, w', ls') := run_path (PTaskExit t inner) env0 (world0 lock) ls in
  forall i, In i (leaves (tr_base t)) -> w_leaf w' i = true.
Proof.
  simpl run_path. apply task_exit_closes_tinv; [| apply world0_tinv].
  destruct inner.
  - intros e w ls0. apply api_aclose_tinv.
  - intros e w ls0 H. split; [exact H | apply le_refl].
Qed.

Lemma paths_close_all : forall p ls,
  let '(r, w', ls') := run_path p env0 (world0 false) ls in
  (match p with PWrap _ _ => r <> ROk | _ => True end) ->
  forall i, In i (leaves (tr_base (path_tr p))) -> w_leaf w' i = true.
Proof.
  intros p ls. destruct p as [t | t | c b | t | t | t | t inner | t | t | t | t];
    try (match goal with |- context [run_path ?q _ _ _] => exact (paths_close q ls Logic.I) end).
  pose proof (teardown_closes t inner false ls) as H.
  destruct (run_path (PTaskExit t inner) env0 (world0 false) ls) as [[r w'] ls']. intros _. exact H.
Qed.
