(* C02 for raw JSON: inside the limit the events depend only on the bytes (document-by-document decoding, one error per
   undecodable document, later documents intact); what holds after a limit error; two observations where parsing does
   depend on the chunking (unterminated oversized JSON document, corrupt compressed frame). *)
From Coq Require Import ZArith List Bool Lia Arith.
From EN Require Import Lib.Bytes Frame.Framer Frame.JsonRaw Frame.JsonGrammar Frame.ErrSites Frame.Generic Stream.Consumer
  Proofs.Bytes_proofs Proofs.C06_progress Proofs.C07_extra Proofs.C01_generic Proofs.C01_json.
Import ListNotations.

(* ---- self-delimiting frames of the raw scanner ---- *)
(* the scanner returns exactly at the last byte of v, whatever follows *)
Definition closes (v : bytes) : Prop := forall rest, jscan [] (v ++ rest) jcount0 = JSClosed (length v).

(* what the scanner frames on its own: a byte string it closes (every grammar enclosure, every balanced-but-invalid
   text such as [1,,] or {"a" 1}, a stray closing bracket ...), or a plain value and its newline *)
Inductive jframe : bytes -> Prop :=
| jf_closed v : closes v -> v <> [] -> ws_run v = 0 -> jframe v
| jf_plain a : jatom a -> jframe (a ++ [b_nl]).

(* balanced documents: correct framing, arbitrary content *)
Inductive jbdoc : bytes -> Prop :=
| jb_array a : jinner a -> jbdoc (b_lsquare :: a ++ [b_rsquare])
| jb_object a : jinner a -> jbdoc (b_lcurly :: a ++ [b_rcurly])
| jb_string body : jstr_body body -> jbdoc (b_quote :: body ++ [b_quote])
| jb_plain a : jatom a -> jbdoc (a ++ [b_nl]).

Lemma jbdoc_frame d : jbdoc d -> jframe d.
Proof.
  intros [a Ha|a Ha|body Hb|a Ha].
  - apply jf_closed; [intros rest; apply split_array; assumption|discriminate|reflexivity].
  - apply jf_closed; [intros rest; apply split_object; assumption|discriminate|reflexivity].
  - apply jf_closed; [intros rest; apply split_string; assumption|discriminate|reflexivity].
  - apply jf_plain; assumption.
Qed.

Lemma jdoc_frame d : jdoc d -> jframe d.
Proof.
  intros [v Hv Hs|a Ha]; [|apply jf_plain; assumption].
  apply jf_closed.
  - intros rest. apply jsonraw_split_balanced; assumption.
  - apply enclosure_ne; assumption.
  - destruct v as [|b v']; [discriminate|]. cbn in Hs |- *.
    rewrite !orb_true_iff, !N.eqb_eq in Hs. destruct Hs as [[->| ->]| ->]; reflexivity.
Qed.

Lemma stray_closer_frame : jframe [b_rsquare] /\ jframe [b_rcurly].
Proof. split; apply jf_closed; try discriminate; try reflexivity; intros rest; reflexivity. Qed.

Section JFrames.
  Variable limit : nat.

  Lemma J_done_closed v rest : closes v -> v <> [] -> length v <= limit -> ws_run rest = 0 -> J limit (v ++ rest) = Done v rest.
  Proof.
    intros Hc Hne Hl Hw. unfold J. cbn [jraw_feed]. unfold jenc. cbn [app rev].
    rewrite (Hc rest). unfold jsplit.
    destruct (Nat.ltb limit (length v)) eqn:El; [apply Nat.ltb_lt in El; lia|].
    rewrite skipn_app_exact, Hw, Nat.add_0_r.
    destruct rest as [|b r].
    - rewrite app_nil_r, Nat.eqb_refl. reflexivity.
    - destruct (Nat.eqb (length v) (length (v ++ b :: r))) eqn:Ee.
      + apply Nat.eqb_eq in Ee. rewrite app_length in Ee. cbn in Ee. lia.
      + rewrite firstn_app_exact, skipn_app_exact. destruct v; [congruence|reflexivity].
  Qed.

  Lemma J_need_closed v p q : closes v -> length v <= limit -> v = p ++ q -> q <> [] -> exists s', J limit p = Need s'.
  Proof.
    intros Hc Hl Heq Hq.
    pose proof (Hc []) as Hc0. rewrite app_nil_r in Hc0. rewrite Heq in Hc0.
    assert (Hlen : length p < length v) by (rewrite Heq, app_length; destruct q; [congruence|cbn; lia]).
    destruct (jscan_prefix_closed p q _ Hc0) as [[_ Hle]|[c' [E _]]]; [rewrite <- Heq in Hle; lia|].
    unfold J. cbn [jraw_feed]. unfold jenc. cbn [app rev]. rewrite E.
    destruct (Nat.ltb limit (length p)) eqn:El; [apply Nat.ltb_lt in El; lia|]. eauto.
  Qed.

  (* a frame longer than the limit that arrives whole: limit error, and the remainder is exactly what follows it *)
  Lemma J_overrun_closed v rest : closes v -> limit < length v -> J limit (v ++ rest) = Fail ELimit rest.
  Proof.
    intros Hc Hl. unfold J. cbn [jraw_feed]. unfold jenc. cbn [app rev]. rewrite (Hc rest). unfold jsplit.
    destruct (Nat.ltb limit (length v)) eqn:El; [|apply Nat.ltb_ge in El; lia].
    unfold overrun_remainder. rewrite skipn_app_exact. reflexivity.
  Qed.

  Lemma J_done_frame d rest : jframe d -> length d <= limit -> ws_run rest = 0 -> J limit (d ++ rest) = Done d rest.
  Proof.
    intros [v Hc Hne Hw|a Ha] Hl Hr; [apply J_done_closed; assumption|].
    apply J_done_plain; [assumption| |assumption]. rewrite app_length in Hl. lia.
  Qed.

  Lemma J_need_frame d p q : jframe d -> length d <= limit -> d = p ++ q -> p <> [] -> q <> [] -> exists s', J limit p = Need s'.
  Proof.
    intros [v Hc Hne Hw|a Ha] Hl Heq Hp Hq; [eapply J_need_closed; eauto|].
    eapply J_need_plain; eauto. rewrite app_length in Hl. lia.
  Qed.

  Lemma jframe_head d x : jframe d -> ws_run (d ++ x) = 0.
  Proof.
    intros [v Hc Hne Hw|a Ha].
    - destruct v as [|b v']; [congruence|]. cbn in *. destruct (is_ws b); [discriminate|reflexivity].
    - apply jdoc_head. apply jd_plain; assumption.
  Qed.

  Lemma jframe_ne d : jframe d -> d <> [].
  Proof. intros [v Hc Hne Hw|a Ha]; [assumption|destruct a; discriminate]. Qed.

  (* ---- the instance of the prefix-code theorem ---- *)
  Context {P : Type}.
  Variable dec : decoder P.
  Let F := json_framer limit dec.
  Definition jframe_ok (d : bytes) : Prop := jframe d /\ length d <= limit.
  Definition jhead (r : bytes) : Prop := ws_run r = 0.
  Definition jall (_ : bytes) : Prop := True.

  Lemma jf_rep_ne : forall s w, jrep_ne s w -> w <> [].
  Proof. intros s w [_ H]; exact H. Qed.
  Lemma jf_doc_ne : forall d, jframe_ok d -> d <> [].
  Proof. intros d [H _]. apply jframe_ne; assumption. Qed.
  Lemma jf_fits_suffix : forall a b : bytes, jall (a ++ b) -> jall b.
  Proof. intros; exact I. Qed.
  Lemma jf_head_nil : jhead [].
  Proof. reflexivity. Qed.
  Lemma jf_head_doc : forall d x, jframe_ok d -> jhead (d ++ x).
  Proof. intros d x [H _]. apply jframe_head; assumption. Qed.
  Lemma jf_head_prefix : forall a b : bytes, a <> [] -> jhead (a ++ b) -> jhead a.
  Proof. intros a b Ha H. unfold jhead in *. destruct a as [|x a]; [congruence|]. cbn in *. destruct (is_ws x); [discriminate|reflexivity]. Qed.

  Lemma jf_feed_need : forall s w (ch : bytes) d q, holds F jrep_ne s w -> ch <> [] -> jframe_ok d -> d = (w ++ ch) ++ q -> q <> [] ->
    jall (w ++ ch) -> exists s', ffeed F s ch = Need s' /\ jrep_ne s' (w ++ ch).
  Proof.
    intros s w ch d q Hh Hch [Hj Hl] Hdq Hq _.
    assert (Hp : w ++ ch <> []) by (destruct w; [cbn; assumption|discriminate]).
    destruct (J_need_frame d (w ++ ch) q Hj Hl Hdq Hp Hq) as (s' & Hn).
    exists s'. cbn. unfold json_feed. rewrite (holds_whole limit dec s w ch Hh), Hn. split; [reflexivity|].
    split; [apply (jraw_need_rep limit); exact Hn|exact Hp].
  Qed.

  Lemma jf_feed_done : forall s w (ch : bytes) d r, holds F jrep_ne s w -> jframe_ok d -> w ++ ch = d ++ r -> length w < length d ->
    jhead r -> jall (w ++ ch) ->
    (exists p, ffeed F s ch = Done p r /\ jev dec d = RPkt p) \/ (exists e, ffeed F s ch = Fail e r /\ jev dec d = RErr e).
  Proof.
    intros s w ch d r Hh [Hj Hl] Hwr Hlw Hr _.
    cbn. unfold json_feed. rewrite (holds_whole limit dec s w ch Hh), Hwr, (J_done_frame d r Hj Hl Hr). unfold jev.
    destruct (dec d) as [p|]; [left; exists p; auto|right; exists EDecode; auto].
  Qed.

  (* (1) inside the limit: for every chunking of a stream of frames the events are the frame-by-frame decoding *)
  Theorem json_events_chunk_independent_l (docs chunks : list bytes) fuel :
    Forall (fun ch => ch <> []) chunks -> Forall jframe_ok docs -> concat chunks = concat docs ->
    length (concat chunks) < fuel ->
    exists c', cdeliver F fuel (cinit F) chunks = (c', map (jev dec) docs) /\ cbuf c' = [] /\ ccons c' = None.
  Proof.
    intros Hne Hd Heq Hf.
    destruct (roundtrip_spec F jrep_ne jframe_ok (jev dec) jall jhead jf_rep_ne jf_doc_ne jf_fits_suffix jf_head_nil
                jf_head_doc jf_head_prefix jf_feed_need jf_feed_done chunks docs (fun _ _ _ _ _ _ => I) fuel Hne Hd Heq Hf)
      as (c' & Hdl & Hb & Hc).
    exists c'. auto.
  Qed.

  (* any two chunkings of the same stream give the same events *)
  Corollary json_two_chunkings_agree_l (docs chunks1 chunks2 : list bytes) fuel :
    Forall jframe_ok docs ->
    Forall (fun ch => ch <> []) chunks1 -> concat chunks1 = concat docs ->
    Forall (fun ch => ch <> []) chunks2 -> concat chunks2 = concat docs ->
    length (concat docs) < fuel ->
    snd (cdeliver F fuel (cinit F) chunks1) = snd (cdeliver F fuel (cinit F) chunks2).
  Proof.
    intros Hd H1 E1 H2 E2 Hf.
    destruct (json_events_chunk_independent_l docs chunks1 fuel H1 Hd E1 ltac:(rewrite E1; exact Hf)) as (c1 & D1 & _).
    destruct (json_events_chunk_independent_l docs chunks2 fuel H2 Hd E2 ltac:(rewrite E2; exact Hf)) as (c2 & D2 & _).
    rewrite D1, D2. reflexivity.
  Qed.

  (* a frame the decoder rejects costs exactly one error; the frames before and after it are delivered intact *)
  Corollary json_bad_document_costs_one_l (ds1 ds2 : list bytes) (bad : bytes) (chunks : list bytes) fuel :
    dec bad = None -> Forall jframe_ok (ds1 ++ bad :: ds2) ->
    Forall (fun ch => ch <> []) chunks -> concat chunks = concat (ds1 ++ bad :: ds2) -> length (concat chunks) < fuel ->
    exists c', cdeliver F fuel (cinit F) chunks = (c', map (jev dec) ds1 ++ RErr EDecode :: map (jev dec) ds2) /\
               cbuf c' = [] /\ ccons c' = None.
  Proof.
    intros Hb Hd Hne Heq Hf.
    destruct (json_events_chunk_independent_l _ chunks fuel Hne Hd Heq Hf) as (c' & Hdl & Hi).
    exists c'. split; [|exact Hi]. rewrite Hdl, map_app. cbn [map]. unfold jev at 2. rewrite Hb. reflexivity.
  Qed.
End JFrames.

(* ---- after a limit error ---- *)
Section JResync.
  Variable limit : nat.
  Context {P : Type}.
  Variable dec : decoder P.
  Let F := json_framer limit dec.

  Lemma cdrain_idle fuel : cdrain F fuel (cinit F) = (cinit F, []).
  Proof. destruct fuel; reflexivity. Qed.

  (* (2a) an oversized frame that is closed inside the data of one feed (it arrives whole, or its end arrives before any
     intermediate size check fails): limit error, remainder = exactly the bytes after the frame, and every later frame
     is delivered intact, whatever the chunking of what follows *)
  Theorem json_overrun_resync_l (big x : bytes) (docs cs : list bytes) fuel :
    closes big -> limit < length big ->
    Forall (jframe_ok limit) docs -> Forall (fun ch => ch <> []) cs -> x ++ concat cs = concat docs ->
    length (x ++ concat cs) < fuel ->
    exists c', cdeliver F fuel (cinit F) ((big ++ x) :: cs) = (c', RErr ELimit :: map (jev dec) docs) /\
               cbuf c' = [] /\ ccons c' = None.
  Proof.
    intros Hc Hl Hd Hne Heq Hf.
    assert (Hbx : big ++ x <> []) by (destruct big; [cbn in Hl; lia|discriminate]).
    cbn [cdeliver]. unfold cstep.
    rewrite (cnext_suspended F (cinit F) JInit (big ++ x) (suspended_init F) Hbx).
    assert (Hfeed : ffeed F JInit (big ++ x) = Fail ELimit x).
    { cbn. unfold json_feed. fold (J limit (big ++ x)). rewrite (J_overrun_closed limit big x Hc Hl). reflexivity. }
    rewrite Hfeed.
    destruct (drain_spec F jrep_ne (jframe_ok limit) (jev dec) jall jhead (jf_doc_ne limit) jf_fits_suffix jf_head_nil
                (jf_head_doc limit) jf_head_prefix (jf_feed_need limit dec) (jf_feed_done limit dec)
                fuel x (concat cs) docs ltac:(rewrite app_length in Hf; lia) Hd Heq I)
      as (c1 & w1 & ds1 & ds2 & Hsplit & Hdr & Hc1 & Hw1 & Hp1 & Hl1).
    rewrite Hdr.
    assert (Hd2 : Forall (jframe_ok limit) ds2) by (rewrite Hsplit in Hd; apply Forall_app in Hd; tauto).
    destruct (deliver_spec F jrep_ne (jframe_ok limit) (jev dec) jall jhead jf_rep_ne (jf_doc_ne limit) jf_fits_suffix
                jf_head_nil (jf_head_doc limit) jf_head_prefix (jf_feed_need limit dec) (jf_feed_done limit dec)
                cs ds2 (fun _ _ _ _ _ _ => I) cs c1 w1 ds2 fuel Hc1 Hne Hd2 (incl_refl _) (incl_refl _) Hw1 Hp1
                ltac:(rewrite !app_length in *; lia))
      as (c' & Hdl & Hb & Hcc).
    rewrite Hdl. exists c'. split; [|split; assumption]. rewrite Hsplit, map_app. reflexivity.
  Qed.

  (* (2b) an unterminated oversized document: the error is raised by the read that takes the received data beyond the
     limit; the remainder is EMPTY and the parser restarts on exactly the next read -- wherever that falls inside the
     oversized document.  What IS true: the events are the limit error followed by what a fresh consumer makes of
     the later reads. *)
  Lemma json_restart_gen pre : forall (cs : list bytes) c s w fuel cj,
    suspended F c s -> (s = JInit /\ w = [] \/ jrep s w) ->
    pre <> [] -> Forall (fun ch => ch <> []) pre ->
    jscan [] (w ++ concat pre) jcount0 = JSMore cj -> limit < length (w ++ concat pre) ->
    length (w ++ concat (removelast pre)) <= limit ->
    cdeliver F fuel c (pre ++ cs) = (let '(c', evs) := cdeliver F fuel (cinit F) cs in (c', RErr ELimit :: evs)).
  Proof.
    induction pre as [|ch pre' IH]; intros cs c s w fuel cj Hs Hh Hnn Hne Hscan Hlim Hprev; [congruence|].
    inversion Hne as [|? ? Hch Hne']; subst.
    assert (Hw : jraw_feed limit s ch = J limit (w ++ ch)).
    { destruct Hh as [[-> ->]|Hr]; [reflexivity|apply jraw_feed_whole; assumption]. }
    cbn [app cdeliver]. unfold cstep. rewrite (cnext_suspended F c s ch Hs Hch).
    cbn [ffeed F json_framer]. unfold json_feed. rewrite Hw. unfold J. cbn [jraw_feed]. unfold jenc. cbn [app rev].
    destruct pre' as [|c2 more].
    - cbn [concat] in Hscan, Hlim. rewrite app_nil_r in Hscan, Hlim. rewrite Hscan.
      destruct (Nat.ltb limit (length (w ++ ch))) eqn:El; [|apply Nat.ltb_ge in El; lia].
      rewrite overrun_nil_all. fold (cinit F). rewrite cdrain_idle. cbn [app].
      destruct (cdeliver F fuel (cinit F) cs) as [c' evs]. reflexivity.
    - assert (Hrl : removelast (ch :: c2 :: more) = ch :: removelast (c2 :: more)) by reflexivity.
      rewrite Hrl in Hprev. cbn [concat] in Hscan, Hlim, Hprev. rewrite app_assoc in Hscan, Hlim, Hprev.
      destruct (jscan_prefix_more _ _ _ Hscan) as [c1 E]. rewrite E.
      assert (Hle : length (w ++ ch) <= limit) by (rewrite (app_length (w ++ ch)) in Hprev; lia).
      destruct (Nat.ltb limit (length (w ++ ch))) eqn:El; [apply Nat.ltb_lt in El; lia|].
      assert (Hi : cdeliver F fuel (@Build_cstate P F [] (Some (JEnc (w ++ ch) c1))) ((c2 :: more) ++ cs) =
                   (let '(c', evs) := cdeliver F fuel (cinit F) cs in (c', RErr ELimit :: evs))).
      { apply (IH cs (@Build_cstate P F [] (Some (JEnc (w ++ ch) c1))) (JEnc (w ++ ch) c1) (w ++ ch) fuel cj); auto.
        + split; [reflexivity|left; reflexivity].
        + right. constructor. exact E.
        + discriminate. }
      match goal with |- (let '(c'', rs') := ?X in _) = _ =>
        replace X with (let '(c', evs) := cdeliver F fuel (cinit F) cs in (c', RErr ELimit :: evs)) by (symmetry; exact Hi) end.
      destruct (cdeliver F fuel (cinit F) cs) as [c' evs]. reflexivity.
  Qed.

  Theorem json_overrun_restart_l (pre cs : list bytes) fuel cj :
    pre <> [] -> Forall (fun ch => ch <> []) pre ->
    jscan [] (concat pre) jcount0 = JSMore cj -> limit < length (concat pre) ->
    length (concat (removelast pre)) <= limit ->
    cdeliver F fuel (cinit F) (pre ++ cs) = (let '(c', evs) := cdeliver F fuel (cinit F) cs in (c', RErr ELimit :: evs)).
  Proof.
    intros Hnn Hne Hs Hl Hp.
    apply (json_restart_gen pre cs (cinit F) JInit [] fuel cj); auto.
    - apply suspended_init.
  Qed.

  (* hence: later frames are intact exactly when the later reads start on a frame boundary (the read that raised the
     error ended the oversized document) or when what is left of the oversized document is itself a sequence of frames
     (stray closing brackets are frames: each costs one decode error) *)
  Corollary json_overrun_restart_frames_l (pre cs docs : list bytes) fuel cj :
    pre <> [] -> Forall (fun ch => ch <> []) pre ->
    jscan [] (concat pre) jcount0 = JSMore cj -> limit < length (concat pre) ->
    length (concat (removelast pre)) <= limit ->
    Forall (fun ch => ch <> []) cs -> Forall (jframe_ok limit) docs -> concat cs = concat docs -> length (concat cs) < fuel ->
    exists c', cdeliver F fuel (cinit F) (pre ++ cs) = (c', RErr ELimit :: map (jev dec) docs) /\ cbuf c' = [] /\ ccons c' = None.
  Proof.
    intros Hnn Hne Hs Hl Hp Hcs Hd Heq Hf.
    rewrite (json_overrun_restart_l pre cs fuel cj Hnn Hne Hs Hl Hp).
    destruct (json_events_chunk_independent_l limit dec docs cs fuel Hcs Hd Heq Hf) as (c' & Hdl & Hi).
    fold F in Hdl. rewrite Hdl. exists c'. auto.
  Qed.
End JResync.

(* ---- observations: where the events DO depend on the chunking ---- *)
(* raw JSON, limit 5, the eleven bytes LBRACKET QUOTE a b c d QUOTE RBRACKET LBRACKET 1 RBRACKET (an array holding the string abcd,
   then the array holding 1): received in one read the oversized document is recognised and skipped and the second
   array is delivered; cut after the first six bytes the size check fails first, the remainder is empty, the next read
   starts with a quote that opens a string, and the second array is swallowed by it *)
Definition obs_stream : bytes := [91; 34; 97; 98; 99; 100; 34; 93; 91; 49; 93]%N.
Theorem json_unterminated_overrun_is_chunk_dependent_observed :
  snd (cdeliver (json_framer 5 (fun b : bytes => Some b)) 20 (cinit _) [obs_stream])
    = [RErr ELimit; RPkt [91; 49; 93]%N] /\
  snd (cdeliver (json_framer 5 (fun b : bytes => Some b)) 20 (cinit _) [firstn 6 obs_stream; skipn 6 obs_stream])
    = [RErr ELimit].
Proof. vm_compute. split; reflexivity. Qed.

(* compressor wrappers: a decompression error discards everything passed to decompress() in that call.  Toy decompressor:
   a length-prefixed record, first byte 255 = corrupt stream (raises class 10). *)
Definition obsz_dd (h c : bytes) : (bytes * bytes) + Z :=
  match h ++ c with
  | 255%N :: _ => inr 10%Z
  | _ => toyz_dd h c
  end.
Definition obsz_framer : framer bytes :=
  cz_framer bytes [] obsz_dd toyz_complete toyz_unused (fun _ => true) (fun x => OOk x) (fun _ => true).
Theorem compressor_bad_frame_discards_buffered_frames_observed :
  snd (cdeliver obsz_framer 20 (cinit _) [[255; 1; 7]]%N) = [RErr EDecode] /\
  snd (cdeliver obsz_framer 20 (cinit _) [[255]; [1; 7]]%N) = [RErr EDecode; RPkt [7]%N].
Proof. vm_compute. split; reflexivity. Qed.
