(* Liveness half of the backpressure: under the pause hypothesis, once the kernel has taken everything (empty buffer, live
   transport) nobody is left parked: every sender that was suspended has been completed (its wake-up is enabled). *)
From Coq Require Import List Arith Bool Lia.
From EN Require Import Conc.FlowControl Proofs.C20_flow Proofs.C20_adapter Proofs.C20_closed.
Import ListNotations.

(* the flow control is paused only if the transport considers the protocol paused (so that it will resume it) *)
Definition K (a : ad) : Prop := w_paused (a_w a) = true -> a_ppaused a = true.

Lemma K_init : forall c n, K (ad_init c n).
Proof. intros c n H. discriminate. Qed.

Lemma K_pause : forall a, K a -> K (maybe_pause a).
Proof. intros a H. unfold maybe_pause, K. destruct (_ && _); simpl; auto. Qed.
Lemma K_resume : forall a, K a -> K (maybe_resume a).
Proof. intros a H. unfold maybe_resume, K. destruct (_ && _); simpl; auto; try discriminate. Qed.
Lemma K_buf : forall a b, K a -> K (with_buf b a).
Proof. intros a b H. exact H. Qed.

Lemma K_write : forall t n k a, K a -> K (tr_write t n k a).
Proof.
  intros t n k a H. unfold tr_write. destruct (_ || _); auto. destruct (a_buf a); [destruct (_ =? 0); auto|]; apply K_pause, K_buf; auto.
Qed.
Lemma K_sendto : forall t n ok a, K a -> K (tr_sendto t n ok a).
Proof.
  intros t n ok a H. unfold tr_sendto. destruct (_ || _); auto. destruct (a_buf a); [destruct ok; auto|]; apply K_pause, K_buf; auto.
Qed.
Lemma K_writelines : forall t n k a, K a -> K (tr_writelines t n k a).
Proof.
  intros t n k a H. unfold tr_writelines. destruct (_ || _); auto.
  destruct (k =? 0); destruct (c_wl_pauses (a_cfg a)); repeat first [apply K_pause | apply K_resume | apply K_buf]; auto.
Qed.

Lemma K_lift : forall a l w' o, K a -> quiet l -> wfc_step (a_w a) l = Some (w', o) -> K (with_w w' a).
Proof. intros a l w' o H Q S. destruct (wfc_quiet _ _ _ _ Q S) as [E _]. unfold K. simpl. rewrite E. exact H. Qed.

Lemma K_step : forall a l a' o, K a -> ad_step a l = Some (a', o) -> K a'.
Proof.
  intros a l a' o Ka H. destruct l as [t n k|t n k|t n ok|k| | |e|t|f|t]; unfold ad_step in H.
  - destruct (get_task t (a_w a)) as [[| |]|]; try discriminate.
    destruct (wfc_step (a_w (tr_write t n k a)) (WDrain t)) as [[w' o']|] eqn:S; [|discriminate]. simpl in H. inversion H; subst.
    apply (K_lift _ (WDrain t) _ _ (K_write t n k a Ka) I S).
  - destruct (get_task t (a_w a)) as [[| |]|]; try discriminate.
    destruct (wfc_step (a_w (tr_writelines t n k a)) (WDrain t)) as [[w' o']|] eqn:S; [|discriminate]. simpl in H. inversion H; subst.
    apply (K_lift _ (WDrain t) _ _ (K_writelines t n k a Ka) I S).
  - destruct (get_task t (a_w a)) as [[| |]|]; try discriminate.
    destruct (wfc_step (a_w (tr_sendto t n ok a)) (WDrain t)) as [[w' o']|] eqn:S; [|discriminate]. simpl in H. inversion H; subst.
    apply (K_lift _ (WDrain t) _ _ (K_sendto t n ok a Ka) I S).
  - destruct (a_buf a) as [|x r]; [discriminate|]. destruct (_ && _); [|discriminate].
    assert (K1 : K (maybe_resume (with_buf (take k (x :: r)) a))) by (apply K_resume, K_buf; auto).
    destruct (a_buf (maybe_resume (with_buf (take k (x :: r)) a))).
    + destruct (w_closing _); inversion H; subst; auto.
      unfold K, set_dead, with_w. simpl. unfold wfc_lost. destruct (w_lost _); simpl; [apply K1|discriminate].
    + inversion H; subst; auto.
  - destruct (a_dead a); [discriminate|]. inversion H; subst. exact Ka.
  - destruct (w_closing (a_w a)); [discriminate|]. inversion H; subst. destruct (a_buf a); exact Ka.
  - destruct (a_dead a && negb (w_lost (a_w a))) eqn:E; [|discriminate]. inversion H; subst.
    apply andb_true_iff in E. destruct E as [_ E]. apply negb_true_iff in E.
    unfold K, with_w. simpl. unfold wfc_lost. rewrite E. simpl. discriminate.
  - unfold lift in H. destruct (wfc_step (a_w a) (WCancel t)) as [[w' o']|] eqn:S; [|discriminate]. inversion H; subst.
    apply (K_lift _ (WCancel t) _ _ Ka I S).
  - unfold lift in H. destruct (wfc_step (a_w a) (WCallback f)) as [[w' o']|] eqn:S; [|discriminate]. inversion H; subst.
    apply (K_lift _ (WCallback f) _ _ Ka I S).
  - unfold lift in H. destruct (wfc_step (a_w a) (WWake t)) as [[w' o']|] eqn:S; [|discriminate]. inversion H; subst.
    apply (K_lift _ (WWake t) _ _ Ka I S).
Qed.

Lemma K_run : forall ls a a', K a -> ad_run a ls = Some a' -> K a'.
Proof.
  induction ls as [|l ls IH]; simpl; intros a a' Ka H.
  - inversion H; subst; auto.
  - destruct (ad_step a l) as [[a1 o]|] eqn:E; [|discriminate]. eapply IH; [|eauto]. eapply K_step; eauto.
Qed.

Lemma send_resumes_once_flushed_proof :
  forall c n ls a, Hc c -> Forall (ok_label c) ls -> ad_run (ad_init c n) ls = Some a ->
    a_dead a = false -> a_buf a = [] ->
    w_paused (a_w a) = false /\
    forall t f, task (a_w a) t = Some (TParked f FPending) -> False.
Proof.
  intros c n ls a H F R Dd B.
  destruct (J_run ls (ad_init c n) a (J_init c n H) F R) as [Ja _].
  assert (Ka := K_run ls _ a (K_init c n) R).
  assert (Da := D_run ls _ a (D_init c n) R).
  assert (P : w_paused (a_w a) = false).
  { destruct (w_paused (a_w a)) eqn:E; auto. exfalso. specialize (Ka E).
    apply (j_pp a Ja Dd) in Ka. contradiction. }
  split; auto. intros t f X. apply (i_live _ (d_w a Da)) in X. destruct X as [X _]. congruence.
Qed.
