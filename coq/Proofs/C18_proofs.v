(* C18 proofs: one inductive invariant over ALL reachable states of the lifecycle LTS (any number of calls, any
   interleaving of calls, client activity and completions), then the property theorems as consequences. *)
From Coq Require Import List Bool Arith Lia.
From EN Require Import Conc.Lifecycle.
Import ListNotations.

Definition serve_ok (s : st) (e : nat * spc) : Prop :=
  match snd e with
  | SAct => fscope s <> None /\ scope s <> None /\ stask s = TNone /\ guard s <> Some GServe
  | SInit => guard s = Some GServe /\ scope s <> None /\ stask s = TNone /\ fscope s = None
  | SMain => scope s <> None /\ guard s <> Some GServe /\ fscope s = None
  | SWait => scope s = None /\ stask s <> TRun /\ clients s = 0 /\ guard s <> Some GServe /\ fscope s = None
  | SQuit => scope s = None /\ stask s = TNone /\ clients s = 0 /\ guard s <> Some GServe /\ fscope s = None
  end.

Record Inv (s : st) : Prop := {
  i_idle : ev s = true ->
           serves s = [] /\ scope s = None /\ fscope s = None /\ guard s <> Some GServe /\ stask s = TNone /\ fin s = gen s;
  i_run : ev s = false -> exists e, serves s = [e] /\ serve_ok s e /\ gen s = S (fin s);
  i_closer : guard s = Some GClose <-> closer s <> None;
  i_closer_closed : closer s <> None -> closed s = true;
  i_ctasks : forall id, closer s = Some (id, CTasks) -> stask s <> TRun;
  i_fscope : closed s = true -> fscope s <> Some false;
  i_lst : closed s = true -> closer s = None -> lst s = LEmpty;
  i_wait : forall id g, In (id, g) (waiters s) -> g <= gen s /\ (fin s < g -> scope s <> Some false)
}.

Lemma take_single {X} id (e : nat * X) x r : take id [e] = Some (x, r) -> e = (id, x) /\ r = [].
Proof.
  destruct e as [i y]. simpl. destruct (Nat.eqb i id) eqn:E; [|discriminate].
  intros H. inversion H; subst. apply Nat.eqb_eq in E. subst. auto.
Qed.

Lemma take_In {X} id (l : list (nat * X)) x r : take id l = Some (x, r) -> forall y, In y r -> In y l.
Proof.
  revert x r. induction l as [|[i y] l IH]; simpl; intros x r H; [discriminate|].
  destruct (Nat.eqb i id).
  - inversion H; subst. intros; now right.
  - destruct (take id l) as [[y' r']|] eqn:T; [|discriminate]. inversion H; subst.
    intros z [Hz|Hz]; [now left | right; eapply IH; eauto].
Qed.

Lemma take_head {X} id (x : X) l : take id ((id, x) :: l) = Some (x, l).
Proof. simpl. now rewrite Nat.eqb_refl. Qed.

Lemma inv_init : Inv init.
Proof.
  constructor; simpl; intros; try tauto; try discriminate; try congruence.
  - repeat split; congruence.
  - split; intros; congruence.
Qed.

Ltac inv_fields H :=
  destruct H as [Hidle Hrun Hcl Hclc Hct Hfs Hlst Hw].

(* case analysis on a scrutinee occurring in hypothesis H only (other hypotheses keep their shape) *)
Ltac case_in H t E :=
  let v := fresh "v" in remember t as v eqn:E in H; destruct v; symmetry in E.

Ltac close_fields Hw :=
  try solve [auto]; try solve [intros; congruence]; try solve [intros; discriminate];
  try solve [split; intros; congruence];
  try solve [intros _; eexists; repeat split; simpl; eauto; try congruence; try lia];
  try solve [intros ? ? Hin; apply Hw in Hin; destruct Hin; split; [lia|intros; try congruence; try lia]];
  try solve [intros ? ? Hin; apply Hw in Hin; destruct Hin; split; auto; intros; try congruence; try lia].

Ltac solve_small :=
  simpl in *; try tauto; try congruence; try lia; try discriminate.

(* frequently used: which regime are we in *)
Lemma ev_cases (s : st) : ev s = true \/ ev s = false.
Proof. destruct (ev s); auto. Qed.

(* detach only touches [active] and may request the cancellation of an existing run scope *)
Lemma detach_fields s :
  closed (detach s) = closed s /\ lst (detach s) = lst s /\ ev (detach s) = ev s /\ gen (detach s) = gen s /\
  fin (detach s) = fin s /\ fscope (detach s) = fscope s /\ guard (detach s) = guard s /\ stask (detach s) = stask s /\
  clients (detach s) = clients s /\ dying (detach s) = dying s /\ serves (detach s) = serves s /\
  closer (detach s) = closer s /\ cwait (detach s) = cwait s /\ waiters (detach s) = waiters s /\
  (scope (detach s) = scope s \/ (scope s <> None /\ scope (detach s) = Some true)).
Proof.
  unfold detach. simpl. destruct (pred (active s)); simpl; [|repeat split; auto].
  destruct (scope s) eqn:E; simpl; repeat split; auto. right. split; congruence.
Qed.

Lemma inv_detach s : Inv s -> Inv (detach s).
Proof.
  intros H. inv_fields H.
  destruct (detach_fields s) as (E1&E2&E3&E4&E5&E6&E7&E8&E9&E10&E11&E12&E13&E14&E15).
  constructor; rewrite ?E1, ?E2, ?E3, ?E4, ?E5, ?E6, ?E7, ?E8, ?E9, ?E10, ?E11, ?E12, ?E13, ?E14; auto.
  - intros Hev. destruct (Hidle Hev) as (A&B&C&D&E&F). repeat split; auto.
    destruct E15 as [->|[X _]]; auto. congruence.
  - intros Hev. destruct (Hrun Hev) as (e&A&B&C). exists e. repeat split; auto.
    unfold serve_ok in *. rewrite ?E6, ?E7, ?E8, ?E9.
    destruct (snd e); destruct E15 as [->|[X Y]]; try tauto; rewrite ?Y; intuition congruence.
  - intros id g Hin. destruct (Hw id g Hin) as [A B]. split; auto. intros Hlt.
    destruct E15 as [->|[X Y]]; auto. rewrite Y. congruence.
Qed.

Lemma inv_start_close s id s' o :
  Inv s -> closer s = None -> start_close s id = (s', o) -> Inv s'.
Proof.
  intros H Hc. unfold start_close.
  destruct (guard s) eqn:G.
  - intros E; inversion E; subst. exact H.
  - inv_fields H. intros E; inversion E; subst; clear E.
    destruct (fscope s) eqn:F; simpl; destruct (stask s) eqn:T; simpl;
      (constructor; simpl;
       [ intros Hev; destruct (Hidle Hev) as (A&B&C&D&E&Fn); repeat split; auto; congruence
       | intros Hev; destruct (Hrun Hev) as (e&A&B&C); exists e; repeat split; auto;
         unfold serve_ok in *; simpl; rewrite ?F, ?T in *; destruct (snd e); intuition congruence
       | split; intros; congruence
       | auto
       | intros; congruence
       | intros; congruence
       | intros; congruence
       | intros id' g Hin; apply Hw in Hin; auto ]).
Qed.

Lemma end_run_inv (s : st) :
  (forall id g, In (id, g) (waiters s) -> g <= gen s) ->
  gen s = S (fin s) -> serves s = [] -> fscope s = None -> guard s <> Some GServe -> stask s = TNone ->
  (guard s = Some GClose <-> closer s <> None) ->
  (closer s <> None -> closed s = true) ->
  (forall id, closer s = Some (id, CTasks) -> stask s <> TRun) ->
  (closed s = true -> fscope s <> Some false) ->
  (closed s = true -> closer s = None -> lst s = LEmpty) ->
  Inv (end_run s).
Proof.
  intros Hw G S F Gd T C1 C2 C3 C4 C5.
  constructor; simpl; auto; try discriminate.
  - intros _. repeat split; auto.
  - intros id g Hin. specialize (Hw id g Hin). split; [lia|]. intros; congruence.
Qed.

Lemma closer_none_of_open s : Inv s -> closed s = false -> closer s = None.
Proof.
  intros H Cl. destruct (closer s) eqn:X; auto.
  assert (closed s = true) by (apply (i_closer_closed s H); congruence). congruence.
Qed.

Lemma closer_none_of_gserve s : Inv s -> guard s = Some GServe -> closer s = None.
Proof.
  intros H G. destruct (closer s) eqn:X; auto.
  assert (guard s = Some GClose) by (apply (i_closer s H); congruence). congruence.
Qed.

Lemma guard_none s : Inv s -> closer s = None -> guard s <> Some GServe -> guard s = None.
Proof.
  intros H C G. destruct (guard s) as [[|]|] eqn:X; auto; [congruence|].
  assert (closer s <> None) by (apply (i_closer s H); congruence). congruence.
Qed.

Lemma inv_step s l s' o : Inv s -> step s l = Some (s', o) -> Inv s'.
Proof.
  intros H St. pose proof H as H0. inv_fields H.
  destruct l; simpl in St.
  - (* LCallServe *)
    case_in St (ev s) Ev; simpl in St.
    2:{ inversion St; subst. constructor; simpl; auto. }
    destruct (Hidle Ev) as (A&B&C&D&E&F).
    case_in St (closed s) Cl; simpl in St.
    { inversion St; subst. apply end_run_inv; simpl; auto; try lia.
      intros id g Hin. apply Hw in Hin. lia. }
    assert (Hcn : closer s = None) by (apply closer_none_of_open; auto).
    assert (Hg : guard s = None) by (apply guard_none; auto).
    assert (Hsetup : forall s1 o1, enter_setup (begin_run (bump_id s)) (next_id s) = (s1, o1) -> Inv s1).
    { unfold enter_setup. simpl. rewrite Hg. intros s1 o1 X. inversion X; subst. rewrite A.
      constructor; simpl; rewrite ?Hcn; close_fields Hw. }
    case_in St (lst s) Ls; simpl in St.
    + inversion St; subst. rewrite A. constructor; simpl; rewrite ?Hcn, ?Hg; close_fields Hw.
    + destruct (enter_setup (begin_run (bump_id s)) (next_id s)) as [s1 o1] eqn:X. inversion St; subst. eapply Hsetup; eauto.
    + destruct (enter_setup (begin_run (bump_id s)) (next_id s)) as [s1 o1] eqn:X. inversion St; subst. eapply Hsetup; eauto.
  - (* LCallClose *)
    case_in St (closer s) Cs; simpl in St.
    + inversion St; subst. constructor; simpl; auto.
    + destruct (start_close (bump_id s) (next_id s)) as [s1 o1] eqn:X. inversion St; subst.
      eapply (inv_start_close (bump_id s)); eauto. constructor; simpl; auto.
  - (* LCallShutdown *)
    assert (Inv (cancel_scope_if_any (bump_id s))) as Hc.
    { unfold cancel_scope_if_any. simpl. destruct (scope s) eqn:Sc; simpl.
      - constructor; simpl; auto.
        + intros Hev. destruct (Hidle Hev) as (A&B&C&D&E&F). congruence.
        + intros Hev. destruct (Hrun Hev) as (e&A&B&C). exists e. repeat split; auto.
          unfold serve_ok in *. simpl. destruct (snd e); intuition congruence.
        + intros id g Hin. apply Hw in Hin. destruct Hin. split; auto. intros; congruence.
      - constructor; simpl; auto; rewrite ?Sc; auto. }
    assert (Hsc : scope (cancel_scope_if_any (bump_id s)) <> Some false).
    { unfold cancel_scope_if_any. simpl. destruct (scope s) eqn:Sc; simpl; rewrite ?Sc; congruence. }
    assert (Hflds : ev (cancel_scope_if_any (bump_id s)) = ev s /\ gen (cancel_scope_if_any (bump_id s)) = gen s /\
                    waiters (cancel_scope_if_any (bump_id s)) = waiters s).
    { unfold cancel_scope_if_any. simpl. destruct (scope s); simpl; auto. }
    destruct Hflds as (F1&F2&F3).
    set (s1 := cancel_scope_if_any (bump_id s)) in *.
    case_in St (ev s1) Ev.
    + inversion St; subst. auto.
    + inversion St; subst. destruct Hc as [a b c d e f g h].
      constructor; simpl in *; auto.
      intros id g0 Hin. apply in_app_or in Hin. destruct Hin as [Hin|Hin].
      * apply (h id g0). exact Hin.
      * destruct Hin as [Hin|[]]. injection Hin as <- <-. split; [lia|]. intros; auto.
  - (* LConnect *)
    case_in St (stask s) T; try discriminate. case_in St (lst s) Ls; try discriminate.
    inversion St; subst. constructor; simpl; auto.
    intros Hev. destruct (Hrun Hev) as (e&A&B&C). exists e. repeat split; auto.
    unfold serve_ok in *. simpl. destruct (snd e); intuition congruence.
  - (* LDisconnect *)
    case_in St (clients s) Cn; try discriminate. inversion St; subst.
    apply inv_detach. constructor; simpl; auto.
    intros Hev. destruct (Hrun Hev) as (e&A&B&C). exists e. repeat split; auto.
    unfold serve_ok in *. simpl. destruct (snd e); intuition congruence.
  - (* LQuery *) inversion St; subst; auto.
  - (* LUdpQueue *)
    case_in St (stask s) T; try discriminate. case_in St (lst s) Ls; try discriminate.
    inversion St; subst. constructor; simpl; auto.
  - (* LFactoryDone *)
    destruct (take id (serves s)) as [[pc rest]|] eqn:Tk; try discriminate.
    destruct pc; try discriminate.
    destruct (ev_cases s) as [Ev|Ev].
    { destruct (Hidle Ev) as (A&_). rewrite A in Tk. discriminate. }
    destruct (Hrun Ev) as (e&A&B&C). rewrite A in Tk. apply take_single in Tk. destruct Tk as [-> ->].
    unfold serve_ok in B. simpl in B. destruct B as (B1&B2&B3&B4).
    assert (Hend : Inv (end_run (set_fscope (set_serves s []) None))).
    { apply end_run_inv; simpl; auto; try congruence. intros i g Hin. apply Hw in Hin. tauto. }
    simpl in St.
    case_in St (fscope s) Fs; try congruence.
    destruct b.
    { inversion St; subst. exact Hend. }
    case_in St (scope s) Sc; try congruence.
    destruct b.
    { inversion St; subst. exact Hend. }
    assert (Cl : closed s = false).
    { destruct (closed s) eqn:X; auto. exfalso. apply (i_fscope s H0); auto. }
    assert (Hcn : closer s = None) by (apply closer_none_of_open; auto).
    assert (Hg : guard s = None) by (apply guard_none; auto).
    unfold enter_setup in St. simpl in St. rewrite Hg in St. inversion St; subst.
    constructor; simpl; rewrite ?Hcn; close_fields Hw.
  - (* LFactoryFail *)
    destruct (take id (serves s)) as [[pc rest]|] eqn:Tk; try discriminate.
    destruct pc; try discriminate.
    destruct (ev_cases s) as [Ev|Ev].
    { destruct (Hidle Ev) as (A&_). rewrite A in Tk. discriminate. }
    destruct (Hrun Ev) as (e&A&B&C). rewrite A in Tk. apply take_single in Tk. destruct Tk as [-> ->].
    unfold serve_ok in B. simpl in B. destruct B as (B1&B2&B3&B4).
    inversion St; subst. apply end_run_inv; simpl; auto; try congruence. intros i g Hin. apply Hw in Hin. tauto.
  - (* LInitDone *)
    destruct (take id (serves s)) as [[pc rest]|] eqn:Tk; try discriminate.
    destruct pc; try discriminate.
    destruct (ev_cases s) as [Ev|Ev].
    { destruct (Hidle Ev) as (A&_). rewrite A in Tk. discriminate. }
    destruct (Hrun Ev) as (e&A&B&C). rewrite A in Tk. apply take_single in Tk. destruct Tk as [-> ->].
    unfold serve_ok in B. simpl in B. destruct B as (B1&B2&B3&B4).
    assert (Hcn : closer s = None) by (apply closer_none_of_gserve; auto).
    simpl in St.
    assert (Hend : Inv (end_run (set_guard (set_serves s []) None))).
    { apply end_run_inv; simpl; rewrite ?Hcn; close_fields Hw.
      intros i g Hin. apply Hw in Hin. tauto. }
    assert (Hgo : Inv (set_serves (set_active (set_stask (set_guard (set_serves s []) None) TRun) 1) ([] ++ [(id, SMain)]))).
    { constructor; simpl; rewrite ?Hcn; close_fields Hw. }
    case_in St (scope s) Sc; try congruence.
    destruct b; inversion St; subst; auto.
  - (* LWake *)
    destruct (take id (serves s)) as [[pc rest]|] eqn:Tk; try discriminate.
    destruct pc; try discriminate.
    case_in St (scope s) Sc; try discriminate. destruct b; try discriminate.
    destruct (ev_cases s) as [Ev|Ev].
    { destruct (Hidle Ev) as (A&_). rewrite A in Tk. discriminate. }
    destruct (Hrun Ev) as (e&A&B&C). rewrite A in Tk. apply take_single in Tk. destruct Tk as [-> ->].
    unfold serve_ok in B. simpl in B. destruct B as (B1&B2&B3).
    inversion St; subst. clear St.
    destruct (stask s) eqn:T; simpl; constructor; simpl; rewrite ?T; try congruence; auto;
      try solve [intros _; eexists; split; [reflexivity|]; split; [|auto];
                 unfold serve_ok; simpl; rewrite ?T; repeat split; auto; congruence];
      try solve [intros i X; apply Hct in X; congruence];
      try solve [intros i g Hin; apply Hw in Hin; destruct Hin; split; auto; intros; congruence].
  - (* LChildrenDone *)
    destruct (take id (serves s)) as [[pc rest]|] eqn:Tk; try discriminate.
    destruct pc; try discriminate.
    destruct (ev_cases s) as [Ev|Ev].
    { destruct (Hidle Ev) as (A&_). rewrite A in Tk. discriminate. }
    destruct (Hrun Ev) as (e&A&B&C). rewrite A in Tk. apply take_single in Tk. destruct Tk as [-> ->].
    unfold serve_ok in B. simpl in B. destruct B as (B1&B2&B3&B4&B5).
    assert (Hx : Inv (set_stask (set_serves s ([] ++ [(id, SQuit)])) TNone)).
    { constructor; simpl; auto; try congruence.
      - intros _. eexists; split; [reflexivity|]. split; [|auto]. unfold serve_ok; simpl. repeat split; auto. }
    case_in St (stask s) T; try discriminate; case_in St (dying s) Dy; try discriminate; inversion St; subst; exact Hx.
  - (* LServeExit *)
    destruct (take id (serves s)) as [[pc rest]|] eqn:Tk; try discriminate.
    destruct pc; try discriminate.
    destruct (ev_cases s) as [Ev|Ev].
    { destruct (Hidle Ev) as (A&_). rewrite A in Tk. discriminate. }
    destruct (Hrun Ev) as (e&A&B&C). rewrite A in Tk. apply take_single in Tk. destruct Tk as [-> ->].
    unfold serve_ok in B. simpl in B. destruct B as (B1&B2&B3&B4&B5).
    inversion St; subst. apply end_run_inv; simpl; auto; try congruence. intros i g Hin. apply Hw in Hin. tauto.
  - (* LTaskDone *)
    case_in St (stask s) T; try discriminate. inversion St; subst.
    apply inv_detach. constructor; simpl; auto; try congruence.
    + intros Hev. destruct (Hidle Hev) as (A&B&C&D&E&F). congruence.
    + intros Hev. destruct (Hrun Hev) as (e&A&B&C). exists e. repeat split; auto.
      unfold serve_ok in *. simpl. destruct (snd e); intuition congruence.
  - (* LClientGone *)
    case_in St (dying s) Dy; try discriminate. inversion St; subst.
    apply inv_detach. constructor; simpl; auto.
  - (* LCloseLock *)
    case_in St (cwait s) Cw; try discriminate. case_in St (closer s) Cs; try discriminate.
    destruct (start_close (set_cwait s v) n) as [s1 o1] eqn:X. inversion St; subst.
    eapply (inv_start_close (set_cwait s v)); eauto. constructor; simpl; auto.
  - (* LCloseTasks *)
    case_in St (closer s) Cs; try discriminate. destruct p as [id pc]. destruct pc; try discriminate.
    assert (Cl : closed s = true) by (apply Hclc; congruence).
    assert (Inv (set_closer s (Some (id, CListeners)))) as Hx.
    { constructor; simpl; auto; try congruence.
      - rewrite Cs in Hcl. split; intros; [congruence|]. apply Hcl. congruence. }
    assert (Hy : Inv (match lst (set_closer s (Some (id, CListeners))) with
                      | LOpen => set_lst (set_closer s (Some (id, CListeners))) LClosing
                      | _ => set_closer s (Some (id, CListeners)) end)).
    { simpl. destruct (lst s) eqn:Ls; auto.
      destruct Hx as [a b c d e f g h]. constructor; simpl in *; auto; try congruence. }
    case_in St (stask s) T; try discriminate; inversion St; subst; exact Hy.
  - (* LCloseFinish *)
    case_in St (closer s) Cs; try discriminate. destruct p as [id pc]. destruct pc; try discriminate.
    inversion St; subst.
    assert (Gd : guard s = Some GClose) by (apply Hcl; congruence).
    assert (Cl : closed s = true) by (apply Hclc; congruence).
    constructor; simpl; auto; try congruence.
    + intros Hev. destruct (Hidle Hev) as (A&B&C&D&E&F). repeat split; auto. congruence.
    + intros Hev. destruct (Hrun Hev) as (e&A&B&C). exists e. repeat split; auto.
      unfold serve_ok in *. simpl. destruct (snd e); intuition congruence.
    + split; intros; congruence.
  - (* LShutdownWake *)
    destruct (take id (waiters s)) as [[g rest]|] eqn:Tk; try discriminate.
    case_in St (Nat.leb g (fin s)) Le; try discriminate. inversion St; subst.
    constructor; simpl; auto.
    intros i g0 Hin. apply (Hw i g0). eapply take_In; eauto.
Qed.

Theorem inv_reachable : forall s, reachable s -> Inv s.
Proof. induction 1; [apply inv_init | eapply inv_step; eauto]. Qed.
