(* The configurations of the adapters of /repo as read from its source (Gen/ParamsC20.v, regenerated on every run)
   satisfy the pause hypothesis, so send_returns_only_when_flushed applies to them. *)
From Coq Require Import List Arith Bool.
From EN Require Import Conc.FlowControl Proofs.C20_flow Proofs.C20_adapter Gen.ParamsC20.
Import ListNotations.

(* 1 stands for any non-zero water mark (asyncio's defaults are 65536 / 16384) *)
Definition mark (zero : bool) : nat := if zero then 0 else 1.

(* AsyncioTransportStreamSocketAdapter: send_all (write) and send_all_from_iterable (writelines, then the re-check) *)
Definition stream_cfg : tcfg :=
  mkCfg (mark stream_limits_zero) (mark stream_limits_zero) (interp_writelines_pauses || stream_iter_rechecks).
(* DatagramEndpoint / DatagramListenerSocketAdapter: sendto only *)
Definition dgram_endpoint_cfg : tcfg := mkCfg (mark dgram_endpoint_limits_zero) (mark dgram_endpoint_limits_zero) true.
Definition dgram_listener_cfg : tcfg := mkCfg (mark dgram_listener_limits_zero) (mark dgram_listener_limits_zero) true.

Definition repo_cfgs : list tcfg := [stream_cfg; dgram_endpoint_cfg; dgram_listener_cfg].

Lemma repo_adapters_satisfy_H_pause_proof : forall c, In c repo_cfgs -> Hc c /\ (forall l, ok_label c l).
Proof.
  intros c [E|[E|[E|[]]]]; subst c; (split; [split; reflexivity|intros l; destruct l; simpl; auto]).
Qed.

Lemma send_returns_only_when_flushed_in_repo_proof :
  forall c, In c repo_cfgs ->
  forall n ls a, ad_run (ad_init c n) ls = Some a ->
  forall l a' o t, ad_step a l = Some (a', o) -> In (ODrain t ROk) o -> bytes_of t (a_buf a') = 0.
Proof.
  intros c Hin n ls a R l a' o t S I.
  destruct (repo_adapters_satisfy_H_pause_proof c Hin) as [H OK].
  assert (F : Forall (ok_label c) ls) by (apply Forall_forall; intros; apply OK).
  exact (send_returns_only_when_flushed_proof c n ls a H F R l a' o t (OK l) S I).
Qed.
