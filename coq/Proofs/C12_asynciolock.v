(* Invariants of the asyncio.Lock model over every label sequence. *)
From Coq Require Import List Arith Bool Lia.
From EN Require Import Conc.FairLock Conc.AsyncioLock Proofs.C12_fairlock.
Import ListNotations.

Definition not_woken (w : awaiter) : Prop := aw_st w <> WWoken.

Record al_inv (s : al) : Prop := mkAI {
  a_hold : if al_locked s then exists t, al_holders s = [t] else al_holders s = [];
  a_woken : match al_waiters s with
            | [] => True
            | w :: r => (aw_st w = WWoken -> al_locked s = false) /\ Forall not_woken r
            end;
  a_wake : al_locked s = false -> match al_waiters s with [] => True | w :: _ => aw_st w <> WPending end;
  a_nodup : NoDup (map aw_tid (al_waiters s));
  a_disj : forall t, In t (al_holders s) -> ~ In t (map aw_tid (al_waiters s))
}.

Lemma al_inv_init : al_inv al_init.
Proof. constructor; simpl; auto using NoDup_nil. Qed.

(* ---- lists *)
Lemma aw_exists_In : forall t ws, existsb (aw_is t) ws = true <-> In t (map aw_tid ws).
Proof.
  intros t ws; induction ws as [|w r IH]; simpl.
  - split; [discriminate|tauto].
  - unfold aw_is at 1. rewrite orb_true_iff, IH, Nat.eqb_eq. tauto.
Qed.

Lemma al_remove_notin : forall t ws, ~ In t (map aw_tid ws) -> al_remove t ws = ws.
Proof.
  intros t ws; induction ws as [|w r IH]; simpl; intros H; auto.
  unfold aw_is at 1. destruct (Nat.eqb (aw_tid w) t) eqn:E.
  - apply Nat.eqb_eq in E. tauto.
  - simpl. f_equal. apply IH. tauto.
Qed.

Lemma al_remove_In : forall t ws x, In x (al_remove t ws) -> In x ws.
Proof. intros t ws x H. unfold al_remove in H. apply filter_In in H. tauto. Qed.

Lemma al_remove_tids : forall t ws x, In x (map aw_tid (al_remove t ws)) -> In x (map aw_tid ws) /\ x <> t.
Proof.
  intros t ws x H. apply in_map_iff in H. destruct H as [w [E H]]. unfold al_remove in H.
  apply filter_In in H. destruct H as [H1 H2]. split.
  - apply in_map_iff. exists w; auto.
  - unfold aw_is in H2. apply negb_true_iff, Nat.eqb_neq in H2. congruence.
Qed.

Lemma al_remove_nodup : forall t ws, NoDup (map aw_tid ws) -> NoDup (map aw_tid (al_remove t ws)).
Proof.
  intros t ws; induction ws as [|w r IH]; simpl; intros H; auto.
  inversion H; subst. destruct (negb (aw_is t w)); simpl; auto.
  constructor; auto. intros C. apply al_remove_tids in C. tauto.
Qed.

Lemma al_remove_forall : forall (P : awaiter -> Prop) t ws, Forall P ws -> Forall P (al_remove t ws).
Proof. intros P t ws H. rewrite Forall_forall in *. intros x Hx. apply H. eapply al_remove_In; eauto. Qed.

Lemma al_find_some : forall t ws w, al_find t ws = Some w -> In w ws /\ aw_tid w = t.
Proof.
  intros t ws w H. unfold al_find in H. apply find_some in H. destruct H as [H1 H2].
  unfold aw_is in H2. apply Nat.eqb_eq in H2. auto.
Qed.

Lemma wake_first_tids : forall ws, map aw_tid (al_wake_first ws) = map aw_tid ws.
Proof. destruct ws as [|w r]; simpl; auto. destruct (is_pending w); reflexivity. Qed.

Lemma wake_first_tickets : forall ws, map aw_ticket (al_wake_first ws) = map aw_ticket ws.
Proof. destruct ws as [|w r]; simpl; auto. destruct (is_pending w); reflexivity. Qed.

(* a woken waiter found in a queue whose tail has no woken waiter is the head *)
Lemma woken_is_head : forall t w0 r w, Forall not_woken r -> al_find t (w0 :: r) = Some w -> aw_st w = WWoken -> w = w0.
Proof.
  intros t w0 r w Hr Hf Hs. unfold al_find in Hf. simpl in Hf. destruct (aw_is t w0); [congruence|].
  apply find_some in Hf. destruct Hf as [Hin _]. rewrite Forall_forall in Hr. apply Hr in Hin. contradiction.
Qed.

Lemma al_remove_head : forall w r, NoDup (map aw_tid (w :: r)) -> al_remove (aw_tid w) (w :: r) = r.
Proof.
  intros w r H. simpl. unfold aw_is at 1. rewrite Nat.eqb_refl. simpl. inversion H; subst. apply al_remove_notin; auto.
Qed.

(* waking the first waiter of a queue whose tail has no woken waiter, lock free *)
Lemma wake_first_woken : forall ws, Forall not_woken (tl ws) ->
  match al_wake_first ws with [] => True | w :: r => (aw_st w = WWoken -> false = false) /\ Forall not_woken r end.
Proof. intros [|w r] H; simpl; auto. destruct (is_pending w); simpl; auto. Qed.

Lemma wake_first_head : forall ws, match al_wake_first ws with [] => True | w :: _ => aw_st w <> WPending end.
Proof.
  intros [|w r]; simpl; auto. destruct (is_pending w) eqn:E; simpl; [discriminate|].
  unfold is_pending in E. destruct (aw_st w); congruence.
Qed.

Lemma tail_remove : forall t w r, Forall not_woken r -> Forall not_woken (tl (al_remove t (w :: r))).
Proof.
  intros t w r H. simpl. destruct (negb (aw_is t w)); simpl.
  - apply al_remove_forall; auto.
  - assert (X := al_remove_forall not_woken t r H). destruct (al_remove t r); simpl; auto. inversion X; auto.
Qed.

Lemma head_of_not_woken : forall (b : bool) r, Forall not_woken r ->
  match r with [] => True | w :: r' => (aw_st w = WWoken -> b = false) /\ Forall not_woken r' end.
Proof. intros b [|w r'] H; auto. inversion H; subst. split; auto. intros C. contradiction. Qed.

(* ---- preservation *)

Lemma al_acquire_inv : forall t s s' got, al_inv s -> al_idle t s = true -> al_acquire t s = (s', got) -> al_inv s'.
Proof.
  intros t s s' got [Ih Is Iw Ind Id] Hidle H. unfold al_acquire in H.
  unfold al_idle, al_waiting in Hidle. apply andb_true_iff in Hidle. destruct Hidle as [Hw Hh].
  apply negb_true_iff in Hw. apply negb_true_iff in Hh.
  assert (Hnw : ~ In t (map aw_tid (al_waiters s))) by (intros C; apply aw_exists_In in C; congruence).
  assert (Hnh : ~ In t (al_holders s)) by (intros C; apply mem_tid_In in C; congruence).
  destruct (negb (al_locked s) && forallb is_cancelled (al_waiters s)) eqn:E; inversion H; subst; clear H.
  - apply andb_true_iff in E. destruct E as [El Ec]. apply negb_true_iff in El. rewrite El in Ih.
    constructor; simpl; auto; try discriminate.
    + exists t. rewrite Ih. reflexivity.
    + destruct (al_waiters s) as [|w r]; auto. destruct Is as [_ Is2]. split; auto.
      simpl in Ec. apply andb_true_iff in Ec. destruct Ec as [Ec _]. unfold is_cancelled in Ec.
      intros C. rewrite C in Ec. discriminate.
    + rewrite Ih. simpl. intros x [Ex|[]]. subst. auto.
  - constructor; simpl; auto.
    + destruct (al_waiters s) as [|w r]; simpl.
      * split; [discriminate|constructor].
      * destruct Is as [Is1 Is2]. split; auto. apply Forall_app; split; auto. constructor; auto. unfold not_woken. simpl. discriminate.
    + intros Hl. specialize (Iw Hl). destruct (al_waiters s) as [|w r]; simpl; auto.
      rewrite Hl in E. simpl in E. discriminate.
    + rewrite map_app. simpl. apply NoDup_app_single; auto.
    + intros x Hx. rewrite map_app, in_app_iff. simpl. intros [C|[C|[]]]; [eapply Id; eauto|subst; tauto].
Qed.

Lemma futcancel_map_tids : forall t ws, map aw_tid (map (fun x => if aw_is t x then set_st WCancelled x else x) ws) = map aw_tid ws.
Proof. intros t ws. rewrite map_map. apply map_ext. intros x. destruct (aw_is t x); reflexivity. Qed.

Lemma al_futcancel_inv : forall t s s', al_inv s -> al_futcancel t s = Some s' -> al_inv s'.
Proof.
  intros t s s' [Ih Is Iw Ind Id] H. unfold al_futcancel in H.
  destruct (al_find t (al_waiters s)) as [w|]; [|discriminate]. destruct (is_pending w); [|discriminate].
  inversion H; subst; clear H. constructor; simpl; auto; try (rewrite futcancel_map_tids; auto).
  - destruct (al_waiters s) as [|w0 r]; simpl; auto. destruct Is as [Is1 Is2]. split.
    + destruct (aw_is t w0); simpl; auto. discriminate.
    + rewrite Forall_forall in *. intros x Hx. apply in_map_iff in Hx. destruct Hx as [y [E Hy]]. subst x.
      destruct (aw_is t y); [unfold not_woken; simpl; discriminate|auto].
  - intros Hl. specialize (Iw Hl). destruct (al_waiters s) as [|w0 r]; simpl; auto.
    destruct (aw_is t w0); simpl; auto. discriminate.
Qed.

Lemma al_resume_inv : forall t s s', al_inv s -> al_resume t s = Some s' -> al_inv s'.
Proof.
  intros t s s' [Ih Is Iw Ind Id] H. unfold al_resume in H.
  destruct (al_find t (al_waiters s)) as [w|] eqn:F; [|discriminate].
  destruct (is_woken w) eqn:S; [|discriminate]. inversion H; subst; clear H.
  assert (Sw : aw_st w = WWoken) by (unfold is_woken in S; destruct (aw_st w); congruence).
  destruct (al_waiters s) as [|w0 r] eqn:EW; [discriminate|]. destruct Is as [Is1 Is2].
  assert (w = w0) by (eapply woken_is_head; eauto). subst w0.
  destruct (al_find_some _ _ _ F) as [_ Et]. subst t.
  assert (RH := al_remove_head w r Ind). specialize (Is1 Sw). rewrite Is1 in Ih.
  simpl in Ind. inversion Ind; subst.
  constructor; cbn [al_locked al_waiters al_holders]; try rewrite RH; auto; try discriminate.
  - exists (aw_tid w). rewrite Ih. reflexivity.
  - apply head_of_not_woken; auto.
  - rewrite Ih. simpl. intros x [E|[]]. subst. auto.
Qed.

Lemma al_cancel_inv : forall t s s', al_inv s -> al_cancel t s = Some s' -> al_inv s'.
Proof.
  intros t s s' [Ih Is Iw Ind Id] H. unfold al_cancel in H.
  destruct (al_find t (al_waiters s)) as [w|] eqn:F; [|discriminate].
  destruct (is_pending w); [discriminate|]. inversion H; subst; clear H.
  destruct (al_waiters s) as [|w0 r] eqn:EW; [discriminate|]. destruct Is as [Is1 Is2].
  assert (Htl : Forall not_woken (tl (al_remove t (w0 :: r)))) by (apply tail_remove; auto).
  assert (Hnd : NoDup (map aw_tid (al_remove t (w0 :: r)))) by (apply al_remove_nodup; auto).
  assert (Hdj : forall x, In x (al_holders s) -> ~ In x (map aw_tid (al_remove t (w0 :: r)))).
  { intros x Hx C. apply al_remove_tids in C. destruct C as [C _]. eapply Id; eauto. }
  destruct (al_locked s) eqn:El; constructor; cbn [al_locked al_waiters al_holders]; auto; try discriminate.
  - simpl. destruct (negb (aw_is t w0)); simpl.
    + split; [intros C; apply Is1 in C; discriminate|]. apply al_remove_forall; auto.
    + apply head_of_not_woken. apply al_remove_forall; auto.
  - apply wake_first_woken; auto.
  - intros _. apply wake_first_head.
  - rewrite wake_first_tids; auto.
  - intros x Hx. rewrite wake_first_tids. auto.
Qed.

Lemma al_release_inv : forall t s s', al_inv s -> In t (al_holders s) -> al_release t s = Some s' -> al_inv s'.
Proof.
  intros t s s' [Ih Is Iw Ind Id] Ht H. unfold al_release in H.
  destruct (al_locked s) eqn:El; [|discriminate]. inversion H; subst; clear H.
  destruct Ih as [t0 Ih]. rewrite Ih in Ht. destruct Ht as [E|[]]. subst t0.
  constructor; cbn [al_locked al_waiters al_holders]; auto.
  - rewrite Ih. apply remove_tid_single.
  - apply wake_first_woken. destruct (al_waiters s) as [|w r]; simpl; [constructor|tauto].
  - intros _. apply wake_first_head.
  - rewrite wake_first_tids; auto.
  - rewrite Ih, remove_tid_single. simpl. tauto.
Qed.

Lemma al_step_inv : forall s l s' o, al_inv s -> al_step s l = Some (s', o) -> al_inv s'.
Proof.
  intros s l s' o I H. destruct l as [t|t|t|t|t]; simpl in H.
  - destruct (al_idle t s) eqn:E; [|discriminate]. destruct (al_acquire t s) as [s1 got] eqn:A. inversion H; subst.
    eapply al_acquire_inv; eauto.
  - destruct (al_futcancel t s) eqn:A; inversion H; subst. eapply al_futcancel_inv; eauto.
  - destruct (al_resume t s) eqn:A; inversion H; subst. eapply al_resume_inv; eauto.
  - destruct (al_cancel t s) eqn:A; inversion H; subst. eapply al_cancel_inv; eauto.
  - destruct (mem_tid t (al_holders s)) eqn:M; [|discriminate]. destruct (al_release t s) eqn:A; inversion H; subst.
    eapply al_release_inv; eauto. apply mem_tid_In; auto.
Qed.

Lemma al_run_inv : forall ls s s', al_inv s -> al_run s ls = Some s' -> al_inv s'.
Proof.
  induction ls as [|l ls IH]; simpl; intros s s' I H.
  - inversion H; subst; auto.
  - destruct (al_step s l) as [[s1 o]|] eqn:E; [|discriminate]. eapply IH; [|eauto]. eapply al_step_inv; eauto.
Qed.

(* ---- statements *)

Lemma asynciolock_mutex_proof :
  forall ls s, al_run al_init ls = Some s -> length (al_holders s) <= 1 /\ (al_holders s <> [] -> al_locked s = true).
Proof.
  intros ls s H. apply al_run_inv in H; [|apply al_inv_init]. destruct H as [Ih _ _ _ _]. destruct (al_locked s).
  - destruct Ih as [t E]. rewrite E. simpl. split; auto.
  - rewrite Ih. simpl. split; auto; try lia; congruence.
Qed.

(* free lock + non-empty queue: the head future is done; its task's continuation is enabled: it takes the lock (woken)
   or leaves with CancelledError and, the lock still being free, passes the wake-up on to the next waiter *)
Lemma asynciolock_no_lost_wakeup_proof :
  forall ls s w r, al_run al_init ls = Some s -> al_locked s = false -> al_waiters s = w :: r ->
    (aw_st w = WWoken /\ exists s', al_step s (ALResume (aw_tid w)) = Some (s', [OAcquired (aw_tid w)]) /\
                                    al_holders s' = [aw_tid w] /\ al_waiters s' = r) \/
    (aw_st w = WCancelled /\ exists s', al_step s (ALCancel (aw_tid w)) = Some (s', [OCancelled (aw_tid w)]) /\
                                        al_waiters s' = al_wake_first r /\ al_locked s' = false).
Proof.
  intros ls s w r H Hl Hw. apply al_run_inv in H; [|apply al_inv_init]. destruct H as [Ih Is Iw Ind Id].
  specialize (Iw Hl). rewrite Hw in *. rewrite Hl in Ih.
  assert (RH := al_remove_head w r Ind).
  destruct (aw_st w) eqn:S; [congruence|left|right]; split; auto; simpl.
  - unfold al_resume. rewrite Hw. unfold al_find. simpl. unfold aw_is at 1. rewrite Nat.eqb_refl.
    unfold is_woken. rewrite S. simpl. eexists. split; [reflexivity|]. simpl. rewrite Ih. split; auto.
  - unfold al_cancel. rewrite Hw. unfold al_find. simpl. unfold aw_is at 1. rewrite Nat.eqb_refl.
    unfold is_pending. rewrite S, Hl. simpl. eexists. split; [reflexivity|]. simpl. split; auto.
    change (al_wake_first (al_remove (aw_tid w) (w :: r)) = al_wake_first r). rewrite RH. reflexivity.
Qed.

Lemma asynciolock_no_deadlock_proof :
  forall ls s, al_run al_init ls = Some s -> al_waiters s <> [] ->
    (exists t, al_holders s = [t]) \/ (exists w r, al_waiters s = w :: r /\ aw_st w <> WPending).
Proof.
  intros ls s H Hw. apply al_run_inv in H; [|apply al_inv_init]. destruct H as [Ih Is Iw Ind Id].
  destruct (al_locked s) eqn:El; [left; auto|]. right. specialize (Iw eq_refl).
  destruct (al_waiters s) as [|w r]; [congruence|]. eauto.
Qed.

(* ---- the fairness asyncio.Lock has: FIFO among the live (non-cancelled) waiters; a newcomer can only overtake
   waiters whose future is already cancelled (they will never take the lock) *)
From Coq Require Import Sorting.Sorted ZifyBool.

Definition live (w : awaiter) : bool := negb (is_cancelled w).
Definition al_line (s : al) : list nat := al_acq s ++ map aw_ticket (filter live (al_waiters s)).
Definition al_all (s : al) : list nat := al_acq s ++ map aw_ticket (al_waiters s) ++ al_gone s.

Record al_tk (s : al) : Prop := mkATk {
  atk_sorted : StronglySorted lt (al_line s);
  atk_bound : Forall (fun k => k < al_next s) (al_line s);
  atk_count : forall k, count_occ Nat.eq_dec (al_all s) k = if k <? al_next s then 1 else 0
}.

Lemma al_tk_init : al_tk al_init.
Proof. constructor; simpl; auto; constructor. Qed.

Lemma aw_Forall_filter_map : forall (P : nat -> Prop) f (ws : list awaiter),
  Forall P (map aw_ticket ws) -> Forall P (map aw_ticket (filter f ws)).
Proof.
  intros P f ws H. rewrite Forall_forall in *. intros x Hx. apply H.
  apply in_map_iff in Hx. destruct Hx as [w [E Hw]]. apply filter_In in Hw. apply in_map_iff. exists w; tauto.
Qed.

Lemma aw_ss_filter : forall f a (ws : list awaiter),
  StronglySorted lt (a ++ map aw_ticket ws) -> StronglySorted lt (a ++ map aw_ticket (filter f ws)).
Proof.
  intros f a; induction a as [|x a IH]; simpl; intros ws H.
  - induction ws as [|w r IHr]; simpl in *; auto.
    inversion H; subst. destruct (f w); simpl; auto. constructor; auto. apply aw_Forall_filter_map; auto.
  - inversion H; subst. constructor; auto.
    apply Forall_app in H3. destruct H3 as [Ha Hw]. apply Forall_app; split; auto. apply aw_Forall_filter_map; auto.
Qed.

Lemma all_cancelled_no_live : forall ws, forallb is_cancelled ws = true -> filter live ws = [].
Proof.
  induction ws as [|w r IH]; simpl; intros H; auto. apply andb_true_iff in H. destruct H as [H1 H2].
  unfold live. rewrite H1. simpl. auto.
Qed.

Lemma live_wake_first : forall ws, map aw_ticket (filter live (al_wake_first ws)) = map aw_ticket (filter live ws).
Proof.
  intros [|w r]; simpl; auto. destruct (is_pending w) eqn:P; auto. simpl.
  unfold live, is_cancelled, is_pending in *. simpl. destruct (aw_st w); try discriminate. reflexivity.
Qed.

Lemma live_remove : forall t ws, filter live (al_remove t ws) = filter (fun w => negb (aw_is t w)) (filter live ws).
Proof.
  intros t ws. unfold al_remove. induction ws as [|w r IH]; simpl; auto.
  destruct (negb (aw_is t w)) eqn:A; destruct (live w) eqn:L; simpl; rewrite ?A, ?L; simpl; rewrite IH; reflexivity.
Qed.

Lemma live_futcancel : forall t ws,
  map aw_ticket (filter live (map (fun x => if aw_is t x then set_st WCancelled x else x) ws))
  = map aw_ticket (filter (fun w => negb (aw_is t w)) (filter live ws)).
Proof.
  intros t ws. induction ws as [|w r IH]; simpl; auto.
  destruct (aw_is t w) eqn:A; simpl.
  - unfold live at 1. simpl. destruct (live w); simpl; rewrite ?A; simpl; exact IH.
  - destruct (live w) eqn:L; simpl; rewrite ?A; simpl; rewrite IH; reflexivity.
Qed.

Lemma futcancel_tickets : forall t ws, map aw_ticket (map (fun x => if aw_is t x then set_st WCancelled x else x) ws) = map aw_ticket ws.
Proof. intros t ws. rewrite map_map. apply map_ext. intros x. destruct (aw_is t x); reflexivity. Qed.

Lemma aw_count_remove : forall t ws w k,
  NoDup (map aw_tid ws) -> al_find t ws = Some w ->
  count_occ Nat.eq_dec (map aw_ticket ws) k
  = count_occ Nat.eq_dec (map aw_ticket (al_remove t ws)) k + (if Nat.eq_dec (aw_ticket w) k then 1 else 0).
Proof.
  intros t ws w k; induction ws as [|w0 r IH]; simpl; intros N F; [discriminate|].
  inversion N; subst. unfold al_find in F. simpl in F. unfold aw_is at 1. unfold aw_is at 1 in F.
  destruct (Nat.eqb (aw_tid w0) t) eqn:E; simpl.
  - inversion F; subst. apply Nat.eqb_eq in E. subst t. rewrite al_remove_notin by auto.
    destruct (Nat.eq_dec (aw_ticket w) k); lia.
  - specialize (IH H2 F). destruct (Nat.eq_dec (aw_ticket w0) k); lia.
Qed.

Lemma al_acquire_tk : forall t s s' got, al_tk s -> al_acquire t s = (s', got) -> al_tk s'.
Proof.
  intros t s s' got [Ts Tb Tc] H. unfold al_acquire in H. unfold al_line, al_all in *.
  destruct (negb (al_locked s) && forallb is_cancelled (al_waiters s)) eqn:E; inversion H; subst; clear H;
    constructor; unfold al_line, al_all; simpl.
  - apply andb_true_iff in E. destruct E as [_ E]. rewrite (all_cancelled_no_live _ E) in *. simpl in *.
    rewrite app_nil_r in *. apply ss_app_single; auto.
  - apply andb_true_iff in E. destruct E as [_ E]. rewrite (all_cancelled_no_live _ E) in *. simpl in *.
    rewrite app_nil_r in *. apply Forall_app; split; [eapply Forall_impl; [|exact Tb]; simpl; intros; lia|constructor; auto].
  - intros k. specialize (Tc k). repeat rewrite count_occ_app in *. simpl.
    rewrite <- seq_count_step with (c := count_occ Nat.eq_dec (al_acq s) k + (count_occ Nat.eq_dec (map aw_ticket (al_waiters s)) k + count_occ Nat.eq_dec (al_gone s) k)); auto.
    destruct (Nat.eq_dec (al_next s) k); lia.
  - rewrite filter_app, map_app, app_assoc. simpl. apply ss_app_single; auto.
  - rewrite filter_app, map_app, app_assoc. simpl. apply Forall_app; split; [eapply Forall_impl; [|exact Tb]; simpl; intros; lia|constructor; auto].
  - intros k. specialize (Tc k). rewrite map_app. simpl. repeat rewrite count_occ_app in *. simpl.
    rewrite <- seq_count_step with (c := count_occ Nat.eq_dec (al_acq s) k + (count_occ Nat.eq_dec (map aw_ticket (al_waiters s)) k + count_occ Nat.eq_dec (al_gone s) k)); auto.
    destruct (Nat.eq_dec (al_next s) k); lia.
Qed.

Lemma al_futcancel_tk : forall t s s', al_tk s -> al_futcancel t s = Some s' -> al_tk s'.
Proof.
  intros t s s' [Ts Tb Tc] H. unfold al_futcancel in H.
  destruct (al_find t (al_waiters s)) as [w|]; [|discriminate]. destruct (is_pending w); [|discriminate].
  inversion H; subst; clear H. unfold al_line, al_all in *.
  constructor; unfold al_line, al_all; simpl; rewrite ?live_futcancel, ?futcancel_tickets; auto.
  - apply aw_ss_filter; auto.
  - apply Forall_app in Tb. destruct Tb as [Ta Tw]. apply Forall_app; split; auto. apply aw_Forall_filter_map; auto.
Qed.

Lemma al_resume_tk : forall t s s', al_inv s -> al_tk s -> al_resume t s = Some s' -> al_tk s'.
Proof.
  intros t s s' [Ih Is Iw Ind Id] [Ts Tb Tc] H. unfold al_resume in H.
  destruct (al_find t (al_waiters s)) as [w|] eqn:F; [|discriminate].
  destruct (is_woken w) eqn:S; [|discriminate]. inversion H; subst; clear H.
  assert (Sw : aw_st w = WWoken) by (unfold is_woken in S; destruct (aw_st w); congruence).
  unfold al_line, al_all in *.
  destruct (al_waiters s) as [|w0 r] eqn:EW; [discriminate|]. destruct Is as [Is1 Is2].
  assert (w = w0) by (eapply woken_is_head; eauto). subst w0.
  destruct (al_find_some _ _ _ F) as [_ Et]. subst t.
  assert (RH := al_remove_head w r Ind).
  assert (Lw : live w = true) by (unfold live, is_cancelled; rewrite Sw; reflexivity).
  simpl in Ts, Tb. rewrite Lw in Ts, Tb. simpl in Ts, Tb.
  constructor; unfold al_line, al_all; cbn [al_acq al_waiters al_gone al_next]; rewrite RH.
  - rewrite <- app_assoc. exact Ts.
  - rewrite <- app_assoc. exact Tb.
  - intros k. specialize (Tc k). cbn [map] in Tc.
    change (aw_ticket w :: map aw_ticket r ++ al_gone s) with ([aw_ticket w] ++ map aw_ticket r ++ al_gone s) in Tc.
    repeat rewrite count_occ_app in *. cbn [count_occ] in *. destruct (Nat.eq_dec (aw_ticket w) k); lia.
Qed.

Lemma al_cancel_tk : forall t s s', al_inv s -> al_tk s -> al_cancel t s = Some s' -> al_tk s'.
Proof.
  intros t s s' [Ih Is Iw Ind Id] [Ts Tb Tc] H. unfold al_cancel in H.
  destruct (al_find t (al_waiters s)) as [w|] eqn:F; [|discriminate].
  destruct (is_pending w); [discriminate|]. inversion H; subst; clear H. unfold al_line, al_all in *.
  assert (E1 : map aw_ticket (filter live (if al_locked s then al_remove t (al_waiters s) else al_wake_first (al_remove t (al_waiters s))))
               = map aw_ticket (filter (fun x => negb (aw_is t x)) (filter live (al_waiters s)))).
  { destruct (al_locked s); [|rewrite live_wake_first]; rewrite live_remove; reflexivity. }
  assert (E2 : map aw_ticket (if al_locked s then al_remove t (al_waiters s) else al_wake_first (al_remove t (al_waiters s)))
               = map aw_ticket (al_remove t (al_waiters s))).
  { destruct (al_locked s); auto. apply wake_first_tickets. }
  constructor; unfold al_line, al_all; simpl; rewrite ?E1, ?E2.
  - apply aw_ss_filter; auto.
  - apply Forall_app in Tb. destruct Tb as [Ta Tw]. apply Forall_app; split; auto. apply aw_Forall_filter_map; auto.
  - intros k. specialize (Tc k). repeat rewrite count_occ_app in *. simpl.
    rewrite (aw_count_remove t (al_waiters s) w k Ind F) in Tc. destruct (Nat.eq_dec (aw_ticket w) k); lia.
Qed.

Lemma al_release_tk : forall t s s', al_tk s -> al_release t s = Some s' -> al_tk s'.
Proof.
  intros t s s' [Ts Tb Tc] H. unfold al_release in H. destruct (al_locked s); [|discriminate]. inversion H; subst; clear H.
  unfold al_line, al_all in *. constructor; unfold al_line, al_all; simpl; rewrite ?live_wake_first, ?wake_first_tickets; auto.
Qed.

Lemma al_step_tk : forall s l s' o, al_inv s -> al_tk s -> al_step s l = Some (s', o) -> al_tk s'.
Proof.
  intros s l s' o I T H. destruct l as [t|t|t|t|t]; simpl in H.
  - destruct (al_idle t s); [|discriminate]. destruct (al_acquire t s) as [s1 got] eqn:A. inversion H; subst. eapply al_acquire_tk; eauto.
  - destruct (al_futcancel t s) eqn:A; inversion H; subst. eapply al_futcancel_tk; eauto.
  - destruct (al_resume t s) eqn:A; inversion H; subst. eapply al_resume_tk; eauto.
  - destruct (al_cancel t s) eqn:A; inversion H; subst. eapply al_cancel_tk; eauto.
  - destruct (mem_tid t (al_holders s)); [|discriminate]. destruct (al_release t s) eqn:A; inversion H; subst. eapply al_release_tk; eauto.
Qed.

Lemma al_run_tk : forall ls s s', al_inv s -> al_tk s -> al_run s ls = Some s' -> al_tk s'.
Proof.
  induction ls as [|l ls IH]; simpl; intros s s' I T H.
  - inversion H; subst; auto.
  - destruct (al_step s l) as [[s1 o]|] eqn:E; [|discriminate]. eapply IH; [| |eauto]. eapply al_step_inv; eauto. eapply al_step_tk; eauto.
Qed.

Lemma asynciolock_fifo_among_live_proof :
  forall ls s, al_run al_init ls = Some s ->
    StronglySorted lt (al_acq s ++ map aw_ticket (filter live (al_waiters s))) /\
    (forall k, count_occ Nat.eq_dec (al_acq s ++ map aw_ticket (al_waiters s) ++ al_gone s) k = if k <? al_next s then 1 else 0).
Proof.
  intros ls s H. apply al_run_tk in H; [|apply al_inv_init|apply al_tk_init]. destruct H as [Ts Tb Tc]. split; auto.
Qed.
