(* C09 — proofs about the end-of-stream decision logic (Conc/TlsEof.v), the pump (Conc/TlsPump.v) and the ideal
   record layer (Conc/IdealTls.v). *)
From Coq Require Import ZArith List Bool Lia ZifyBool.
From EN Require Import Lib.Bytes Conc.TlsBase Conc.TlsPump Conc.TlsEof Conc.IdealTls Gen.ParamsC09 Proofs.Ideal_proofs Proofs.Tls_tactics.


(* ------------------------------------------------------------------ decision tables (finite case analysis) *)

Lemma is_ssl_eof_error_char : forall e,
  is_ssl_eof_error (XSsl e) = true <-> (e = ESslEof \/ e = ESslEofStr).
Proof.
  intros e; split.
  - destruct e; vm_compute; intros H; try discriminate; auto.
  - intros [-> | ->]; vm_compute; reflexivity.
Qed.

Lemma recv_with_clean_eof : forall hs std r,
  hs = recv_handlers \/ hs = recv_into_handlers ->
  recv_result_with hs std r = Ret 0 ->
  r = ROk 0 \/ r = RSsl EZeroReturn \/ (std = false /\ (r = RSsl ESslEof \/ r = RSsl ESslEofStr)).
Proof.
  intros hs std r Hhs H.
  assert (Hr : recv_result_with recv_handlers std r = Ret 0 \/ recv_result_with recv_into_handlers std r = Ret 0)
    by (destruct Hhs; subst; auto).
  clear H Hhs hs.
  destruct r as [v | e | | | b | ].
  - left. destruct Hr as [H | H]; cbn in H; injection H as ->; reflexivity.
  - destruct e, std; vm_compute in Hr; destruct Hr as [H | H]; try discriminate; auto.
  - destruct std; vm_compute in Hr; destruct Hr; discriminate.
  - destruct std; vm_compute in Hr; destruct Hr; discriminate.
  - destruct b; vm_compute in Hr; destruct Hr; discriminate.
  - vm_compute in Hr; destruct Hr; discriminate.
Qed.

Lemma truncation_raises : forall e,
  is_ssl_eof_error (XSsl e) = true ->
  recv_result true (RSsl e) = Raise (XR (XSsl e)) /\ recv_into_result true (RSsl e) = Raise (XR (XSsl e)).
Proof.
  intros e H. apply is_ssl_eof_error_char in H. destruct H as [-> | ->]; split; vm_compute; reflexivity.
Qed.

Lemma nonstd_abrupt_eof : forall e,
  is_ssl_eof_error (XSsl e) = true ->
  recv_result false (RSsl e) = Ret 0 /\ recv_into_result false (RSsl e) = Ret 0.
Proof.
  intros e H. apply is_ssl_eof_error_char in H. destruct H as [-> | ->]; split; vm_compute; reflexivity.
Qed.

Section PumpFacts.
Variable fl : flags.
Notation flush_pc := (flush_pc fl).
Notation pcall := (pcall fl).
Notation after_flush := (after_flush fl).
Notation go := (go fl).
Notation step := (step fl).
Notation settle_n := (settle_n fl).
Notation settle := (settle fl).
Notation retry := (retry fl).
Notation start := (start fl).
Notation run_method := (run_method fl).
Notation sys_step := (sys_step fl).
Notation sys_run := (sys_run fl).
Notation run_op := (run_op fl).
Notation run_ops := (run_ops fl).

(* ------------------------------------------------------------------ the pump reports what the SSL object said *)

Lemma go_end : forall m s p s' r a, go m s p = Some (s', PEnd r, a) -> exists v, r = ROk v.
Proof.
  intros m s p s' r a H. unfold go in H.
  destruct p as [ | k | k | sn | | r0]; try discriminate.
  - destruct (send_lock s); try discriminate.
    destruct k as [ | | v]; destruct (wbio s) as [| w0 w]; cbn in H; try (inversion H; subst; eauto; fail).
  - fold (go m s (PRecvWait sn)) in H. go_recv H sn; [| inversion H].
    unfold pcall in H. destruct m; try (inversion H; fail). destruct (deque s); try (inversion H; fail).
    flush_cases; inversion H; eauto.
Qed.

Lemma settle_n_end_ssl : forall fuel m s p s' e a, settle_n fuel m s p = (s', PEnd (RSsl e), a) -> p = PEnd (RSsl e).
Proof.
  induction fuel as [| f IH]; intros m s p s' e a H; cbn in H.
  - inversion H; reflexivity.
  - destruct (go m s p) as [[[s1 p1] a1] |] eqn:G.
    + destruct (settle_n f m s1 p1) as [[s2 p2] a2] eqn:S2. inversion H; subst.
      apply IH in S2. subst p1. apply go_end in G. destruct G as [v Hv]. discriminate.
    + inversion H; reflexivity.
Qed.

Lemma settle_end_ssl : forall m s p s' e a, settle m s p = (s', PEnd (RSsl e), a) -> p = PEnd (RSsl e).
Proof. intros m s p s' e a. apply settle_n_end_ssl. Qed.

Lemma step_end_ssl : forall m b s p l s' e a,
  step m b s p l = Some (s', PEnd (RSsl e), a) -> exists x, l = LSsl x /\ a_out x = SErr e.
Proof.
  intros m b s p l s' e a H.
  destruct p as [ | k | k | sn | | r0]; destruct l as [x | | t]; cbv beta iota delta [step] in H; try discriminate;
    try (apply go_end in H; destruct H as [v Hv]; discriminate).
  - (* PCall, LSsl *)
    destruct (negb _); [inversion H |].
    destruct (a_out x) eqn:Eo; cbv zeta in H.
    + destruct m; try (flush_cases; inversion H; fail).
      match type of H with context [match ?d with [] => Some _ | _ :: _ => Some _ end] => destruct d end;
        flush_cases; inversion H.
    + flush_cases; inversion H.
    + inversion H.
    + inversion H; subst. eauto.
    + inversion H.
    + inversion H.
  - destruct t; inversion H.
  - destruct t as [d | | | | bt]; try discriminate; cbv zeta in H.
    + destruct k; cbn [after_flush] in H; try (inversion H; fail).
      unfold pcall in H. destruct m; try (inversion H; fail). destruct (deque _); flush_cases; inversion H.
    + destruct k; inversion H.
  - destruct t; inversion H.
  - destruct t as [d | | | | bt]; try discriminate; cbv zeta in H.
    destruct d; unfold pcall in H; destruct m; try (inversion H; fail); destruct (deque _); flush_cases; inversion H.
Qed.

Lemma retry_cons : forall m b s p a answers, (forall r, p <> PEnd r) ->
  retry m b s p (a :: answers) =
    match step m b s p (match a with AS x => LSsl x | AT t => LT t end) with
    | None => (s, RDesync, [ADesync], answers)
    | Some (s1, p1, acts1) =>
        let '(s2, p2, acts2) := settle m s1 p1 in
        let '(s3, r, acts3, rest') := retry m b s2 p2 answers in
        (s3, r, acts1 ++ acts2 ++ acts3, rest')
    end.
Proof. intros m b s p a answers H. destruct p; try reflexivity. exfalso; eapply H; reflexivity. Qed.

Lemma retry_ssl_error_from_oracle : forall m b answers s p s' e acts rest,
  retry m b s p answers = (s', RSsl e, acts, rest) ->
  p = PEnd (RSsl e) \/ exists x, In (AS x) answers /\ a_out x = SErr e.
Proof.
  intros m b answers. induction answers as [| a answers IH]; intros s p s' e acts rest H.
  - destruct p; cbn in H; inversion H; subst; auto.
  - destruct p as [ | k | k | sn | | r].
    6: { cbn in H. inversion H; subst; auto. }
    all: rewrite retry_cons in H by (intros r; discriminate);
         destruct (step _ _ _ _ _) as [[[s1 p1] a1] |] eqn:St; [| inversion H];
         destruct (settle m s1 p1) as [[s2 p2] a2] eqn:Se;
         destruct (retry m b s2 p2 answers) as [[[s3 r3] a3] rest3] eqn:Re;
         inversion H; subst;
         apply IH in Re; destruct Re as [Hp | [x [Hin Hx]]];
         [ subst p2; apply settle_end_ssl in Se; subst p1; apply step_end_ssl in St; destruct St as [x [Hl Hx]];
           right; exists x; split; [left; destruct a; inversion Hl; subst; reflexivity | exact Hx]
         | right; exists x; split; [right; exact Hin | exact Hx] ].
Qed.

Lemma run_method_ssl_error_from_oracle : forall m b s answers s' e acts rest,
  run_method m b s answers = (s', RSsl e, acts, rest) ->
  exists x, In (AS x) answers /\ a_out x = SErr e.
Proof.
  intros m b s answers s' e acts rest H. unfold run_method, start in H.
  destruct (settle m s (pcall m s)) as [[s1 p1] a1] eqn:Se.
  destruct (retry m b s1 p1 answers) as [[[s2 r] a2] rest2] eqn:Re.
  inversion H; subst.
  apply retry_ssl_error_from_oracle in Re. destruct Re as [Hp | Hx]; [| exact Hx].
  subst p1. apply settle_end_ssl in Se. unfold pcall in Se. destruct m; try discriminate.
  destruct (deque s); try discriminate; flush_cases; discriminate.
Qed.

(* what recv reports as a clean end-of-stream, in terms of the SSL object's own answers *)
Lemma recv_eof_from_oracle : forall std n st answers st' ob rest,
  run_op std (ORecv n) st answers = (st', ob, rest) ->
  In (ORes (Ret 0)) ob ->
  (exists s' acts, run_method MRead n (sh st) answers = (s', ROk 0, acts, rest)) \/
  (exists x, In (AS x) answers /\
             (a_out x = SErr EZeroReturn \/ (std = false /\ (a_out x = SErr ESslEof \/ a_out x = SErr ESslEofStr)))).
Proof.
  intros std n st answers st' ob rest H Hin. unfold run_op in H.
  destruct (run_method MRead n (sh st) answers) as [[[s r] a] rest0] eqn:R.
  inversion H; subst. clear H.
  apply in_app_or in Hin. destruct Hin as [Hin | Hin].
  - unfold acts in Hin. apply in_map_iff in Hin. destruct Hin as [x [Hx _]]. discriminate.
  - destruct Hin as [Hin | []]. inversion Hin as [Hres].
    apply (recv_with_clean_eof recv_handlers) in Hres; [| auto].
    destruct Hres as [-> | [-> | [-> [-> | ->]]]].
    + left; eauto.
    + right. apply run_method_ssl_error_from_oracle in R. destruct R as [x [Hi Hx]]. eauto.
    + right. apply run_method_ssl_error_from_oracle in R. destruct R as [x [Hi Hx]]. exists x; auto.
    + right. apply run_method_ssl_error_from_oracle in R. destruct R as [x [Hi Hx]]. exists x; auto.
Qed.

(* ------------------------------------------------------------------ closing sends the close notification first *)

Lemma settle_PCall : forall m s, settle m s PCall = (s, PCall, []).
Proof. reflexivity. Qed.

Lemma aclose_first_action : forall st a answers st' ob rest,
  closing st = false -> tr_closing st = false -> send_lock (sh st) = false ->
  a_meth a = MUnwrap -> a_arg a = 0 ->
  ((exists v, a_out a = SOk v) \/ a_out a = SWantRead) ->
  wbio (sh st) ++ a_wdelta a <> [] ->
  run_op true OClose st (AS a :: answers) = (st', ob, rest) ->
  exists ob', ob = OAct (ASend (wbio (sh st) ++ a_wdelta a)) :: ob' /\
              (In (OAct AClose) ob' \/ In (ORes Desync) ob').
Proof.
  intros st a answers st' ob rest Hc Ht Hl Hm Harg Hout Hne H.
  assert (Hp : aclose_unwrap_if_std = true) by reflexivity.
  unfold run_op in H. rewrite Hc, Ht, Hp in H. cbn [negb andb] in H.
  unfold run_method, start in H. change (pcall MUnwrap (sh st)) with PCall in H.
  rewrite settle_PCall in H. rewrite retry_cons in H by (intros r; discriminate).
  remember (wbio (sh st) ++ a_wdelta a) as w eqn:Ew.
  assert (Hgo : forall k, match k with KLoop => False | _ => True end ->
            settle MUnwrap (set_wbio (sh st) w) (PFlush k)
            = (set_send_lock (set_wbio (set_wbio (sh st) w) []) true, PSending k, [ASend w])).
  { intros k Hk. unfold settle. cbn [settle_n go]. cbn [send_lock set_wbio wbio]. rewrite Hl.
    destruct w as [| w0 w']; [congruence |]. destruct k; try contradiction; reflexivity. }
  assert (Hstep : exists k, match k with KLoop => False | _ => True end /\
            step MUnwrap 0 (sh st) PCall (LSsl a) = Some (set_wbio (sh st) w, PFlush k, [])).
  { destruct Hout as [[v Hv] | Hwr].
    - exists (KRet v). split; [exact I |]. unfold step. rewrite Hm, Harg, Hv, <- Ew.
      cbn [meth_eqb expected_arg Nat.eqb andb negb]. unfold done_pc, flush_pc, wbio_empty. cbn [wbio set_wbio meth_eqb].
      rewrite andb_false_r. destruct w; [congruence |]. rewrite andb_false_r. reflexivity.
    - exists (KRead (feeds (sh st))). split; [exact I |]. unfold step. rewrite Hm, Harg, Hwr, <- Ew.
      cbn [meth_eqb expected_arg Nat.eqb andb negb]. unfold flush_pc, wbio_empty. cbn [wbio set_wbio feeds].
      destruct w; [congruence |]. rewrite andb_false_r. reflexivity. }
  destruct Hstep as [k [Hk Hst]]. rewrite Hst, (Hgo k Hk) in H.
  destruct (retry MUnwrap 0 _ (PSending k) answers) as [[[s3 r] a3] rest3].
  cbn [app] in H.
  assert (Fin : forall X, X = (st', ob, rest) -> X = (st', ob, rest)) by auto.
  destruct r as [v' | e | | | [|] | ].
  2: { destruct (existsb _ _); [destruct (f_close_flush fl && negb (send_lock s3)) |].
       - destruct (wbio s3) as [| w0 w'];
           [| destruct rest3 as [| [x | t] rest4]; [| | destruct t as [d | | | | bt]; try destruct bt]];
           inversion H; subst; eexists; (split; [reflexivity |]); rewrite ?in_app_iff; cbn; auto 14.
       - inversion H; subst; eexists; (split; [reflexivity |]); rewrite ?in_app_iff; cbn; auto 10.
       - inversion H; subst; eexists; (split; [reflexivity |]); rewrite ?in_app_iff; cbn; auto 10. }
  all: try destruct (existsb _ _);
    inversion H; subst; eexists; (split; [reflexivity |]);
    rewrite ?in_app_iff; cbn; auto 10.
Qed.

Lemma nonstd_close_no_unwrap : forall st answers,
  closing st = false ->
  run_op false OClose st answers =
    ({| sh := set_deque (sh st) []; closing := true; tr_closing := true |}, [OAct AClose; ORes (Ret 0)], answers).
Proof.
  intros st answers Hc. unfold run_op. rewrite Hc. reflexivity.
Qed.

End PumpFacts.

(* ------------------------------------------------------------------ blocking transport *)

Definition sync_block (a : sans) : Prop :=
  s_meth a = MRead /\ (s_out a = SWantRead \/ s_out a = SWantWrite \/ s_out a = SErr ESyscall).

Lemma sync_retry_block : forall std hs a x rest, sync_block a ->
  exists w, sync_retry true std MRead hs (a :: x :: rest) =
            let '(ob, r, rest') := sync_retry true std MRead hs (x :: rest) in (SAct w :: ob, r, rest').
Proof.
  intros std hs [am ao] x rest [Hm Ho]; cbn in Hm, Ho; subst am.
  destruct Ho as [-> | [-> | ->]]; eexists; reflexivity.
Qed.

Lemma sync_truncation_raises : forall pre rest,
  Forall sync_block pre ->
  exists waits,
    sync_retry true true MRead sync_recv_handlers (pre ++ {| s_meth := MRead; s_out := SErr ESslEof |} :: rest)
    = (waits, Raise (XR (XSsl ESslEof)), rest).
Proof.
  induction pre as [| a pre IH]; intros rest Hpre.
  - eexists. vm_compute. reflexivity.
  - inversion Hpre as [| ? ? Ha Hpre']; subst.
    destruct (IH rest Hpre') as [w Hw].
    cbn [app]. remember (pre ++ {| s_meth := MRead; s_out := SErr ESslEof |} :: rest) as tl eqn:E.
    destruct tl as [| x l]; [destruct pre; discriminate |].
    destruct (sync_retry_block true sync_recv_handlers a x l Ha) as [w' Hb].
    rewrite Hb, Hw. eexists; reflexivity.
Qed.

Lemma sync_nonstd_abrupt_eof : forall pre rest,
  Forall sync_block pre ->
  exists waits,
    sync_retry true false MRead sync_recv_handlers (pre ++ {| s_meth := MRead; s_out := SErr ESslEof |} :: rest)
    = (waits, Ret 0, rest).
Proof.
  induction pre as [| a pre IH]; intros rest Hpre.
  - eexists. vm_compute. reflexivity.
  - inversion Hpre as [| ? ? Ha Hpre']; subst.
    destruct (IH rest Hpre') as [w Hw].
    cbn [app]. remember (pre ++ {| s_meth := MRead; s_out := SErr ESslEof |} :: rest) as tl eqn:E.
    destruct tl as [| x l]; [destruct pre; discriminate |].
    destruct (sync_retry_block false sync_recv_handlers a x l Ha) as [w' Hb].
    rewrite Hb, Hw. eexists; reflexivity.
Qed.

Lemma sync_close_unwraps_first : forall raw a answers,
  s_meth a <> MUnwrap ->
  sync_op raw true OClose {| s_closed := false |} (a :: answers)
  = ({| s_closed := true |}, [SAct SDesync; SAct SSockClose; SRes Desync], answers).
Proof.
  intros raw a answers H. destruct a as [m o]. cbn in H.
  destruct m; try congruence; reflexivity.
Qed.

(* ------------------------------------------------------------------ ideal record layer *)

Section IdealFacts.
Variable E D : byte -> byte.
Variable M : nat.
Hypothesis DE : forall x, D (E x) = x.

Definition data_stream (recs : list bytes) : bytes := concat (map (enc E T_DATA) recs) ++ close_notify E.

Lemma data_stream_cons : forall r recs, data_stream (r :: recs) = enc E T_DATA r ++ data_stream recs.
Proof. intros. unfold data_stream. cbn. rewrite app_assoc. reflexivity. Qed.


(* a reader whose incoming BIO holds a proper prefix of (data records ++ close notification) and is at end-of-file
   never reports a clean end-of-stream, whatever has been buffered already *)
Lemma drain_truncated : forall fuel recs k n s,
  n > 0 ->
  k < length (data_stream recs) ->
  i_stage s = 2 -> i_got_cn s = false -> i_reof s = true ->
  i_rbio s = firstn k (data_stream recs) ->
  forall o, In o (drain D fuel s n) -> o = SErr ESslEof \/ o = SErr ESslOther \/ o = SWantRead \/ exists v, o = SOk (S v).
Proof.
  induction fuel as [| fuel IH]; intros recs k n s Hn Hk Hst Hcn Heof Hbio o Hin; [destruct Hin |].
  cbn [drain] in Hin. unfold read in Hin. rewrite Hst in Hin. cbn [Nat.eqb negb] in Hin.
  destruct (i_plain s) as [| x pl] eqn:Epl.
  - rewrite Hcn in Hin.
    destruct recs as [| r recs].
    + (* only (a prefix of) the close notification is left *)
      assert (Hnone : parse1 D (i_rbio s) = None).
      { rewrite Hbio. unfold data_stream. cbn [map concat app].
        replace (close_notify E) with (enc E T_ALERT [] ++ []) by (rewrite app_nil_r; reflexivity).
        rewrite (parse1_prefix E D DE). unfold data_stream, close_notify, enc in Hk. cbn in Hk.
        destruct (Nat.leb (2 + length (@nil byte)) k) eqn:L; [apply Nat.leb_le in L; cbn in L; exfalso; lia | reflexivity]. }
      rewrite Hnone in Hin. unfold starved in Hin. rewrite Heof in Hin. destruct Hin as [<- | []]. auto.
    + rewrite Hbio, data_stream_cons, (parse1_prefix E D DE) in Hin.
      rewrite data_stream_cons, app_length, (enc_length E) in Hk.
      destruct (Nat.leb (2 + length r) k) eqn:L.
      * apply Nat.leb_le in L. replace (N.eqb T_DATA T_DATA) with true in Hin by reflexivity.
        destruct r as [| r0 r'].
        -- (* empty data record: a protocol error in the ideal layer *)
           destruct Hin as [<- | []]. auto.
        -- cbn [length firstn] in Hin. destruct n as [| n']; [lia |]. cbn [firstn length] in Hin.
           destruct Hin as [<- | Hin]; [right; right; right; eauto |].
           eapply (IH recs (k - (2 + length (r0 :: r'))) (S n')) in Hin; eauto; cbn [length] in *; try lia.
      * unfold starved in Hin. rewrite Heof in Hin. destruct Hin as [<- | []]. auto.
  - destruct n as [| n']; [lia |]. cbn [firstn length] in Hin.
    destruct Hin as [<- | Hin]; [right; right; right; eauto |].
    eapply (IH recs k (S n')) in Hin; eauto.
Qed.

Lemma drain_truncated_never_clean : forall fuel recs k n s,
  n > 0 -> k < length (data_stream recs) ->
  i_stage s = 2 -> i_got_cn s = false -> i_reof s = true -> i_rbio s = firstn k (data_stream recs) ->
  ~ In (SOk 0) (drain D fuel s n).
Proof.
  intros fuel recs k n s Hn Hk Hst Hcn Heof Hbio Hin.
  eapply drain_truncated in Hin; eauto.
  destruct Hin as [H | [H | [H | [v H]]]]; discriminate.
Qed.

(* the first unwrap() of an established session whose incoming BIO is not at end-of-file produces the close
   notification and asks for the peer's (or returns) *)
Lemma unwrap_emits_close_notify : forall s,
  i_stage s = 2 -> i_sent_cn s = false -> i_reof s = false ->
  let '(s', o, out) := unwrap E D s in
  out = close_notify E /\ i_sent_cn s' = true /\ (o = SOk 0 \/ o = SWantRead).
Proof.
  intros s Hst Hs He. unfold unwrap. rewrite Hst, Hs. cbn [Nat.eqb negb].
  destruct (i_got_cn s).
  - cbn. auto.
  - destruct (parse1 D (i_rbio s)) as [[[t p] rest] |].
    + destruct (N.eqb t T_ALERT); cbn; auto.
    + unfold starved. rewrite He. cbn. auto.
Qed.

End IdealFacts.
