(* C06: the remainder carried by every event is exactly a suffix of the bytes the parser had been given since its
   previous event (the unread remainder: nothing invented, nothing reordered). *)
From Coq Require Import ZArith List Bool Lia Arith.
From EN Require Import Lib.Bytes Frame.Framer Frame.ReadUntil Frame.BufReadUntil Frame.JsonRaw
  Proofs.Bytes_proofs Proofs.C06_progress.
Import ListNotations.

Definition suffix_of (rest buf : bytes) : Prop := exists consumed, buf = consumed ++ rest.

Lemma suffix_refl b : suffix_of b b.
Proof. exists []. reflexivity. Qed.

Lemma suffix_nil b : suffix_of [] b.
Proof. exists b. rewrite app_nil_r. reflexivity. Qed.

Lemma suffix_skipn n b : suffix_of (skipn n b) b.
Proof. exists (firstn n b). symmetry. apply firstn_skipn. Qed.

Lemma suffix_trans a b c : suffix_of a b -> suffix_of b c -> suffix_of a c.
Proof. intros [x ->] [y ->]. exists (y ++ x). rewrite app_assoc. reflexivity. Qed.

Lemma suffix_app_l a b c : suffix_of a b -> suffix_of a (c ++ b).
Proof. intros [x ->]. exists (c ++ x). rewrite app_assoc. reflexivity. Qed.

Lemma strip_suffix sep r : suffix_of (strip_to_sep_prefix sep r) r.
Proof. destruct (strip_spec sep r) as (k & _ & -> & _). apply suffix_skipn. Qed.

Lemma overrun_remainder_suffix sep buf n : suffix_of (overrun_remainder sep buf n) buf.
Proof.
  unfold overrun_remainder. destruct sep as [|s0 sep]; [apply suffix_skipn|].
  destruct (bytes_eqb _ _).
  - eapply suffix_trans; [apply suffix_skipn|apply suffix_skipn].
  - eapply suffix_trans; [apply strip_suffix|apply suffix_skipn].
Qed.

Definition event_suffix {S P} (buf : bytes) (r : fres S P) : Prop :=
  match r with Done _ rest | Fail _ rest => suffix_of rest buf | _ => True end.

Definition bevent_suffix {S P} (buf : bytes) (r : bres S P) : Prop :=
  match r with BDone _ rest | BFail _ rest => suffix_of rest buf | _ => True end.

(* ---- read_until / read_exactly ---- *)
Definition ru_acc (s : ru_state) : bytes := match s with None => [] | Some (b, _) => b end.
Definition rx_acc (s : rx_state) : bytes := match s with None => [] | Some b => b end.

Lemma ru_scan_suffix {P} sep limit ke (dec : decoder P) buffer offset :
  event_suffix buffer (ru_scan sep limit ke dec buffer offset).
Proof.
  unfold ru_scan, ru_finish. destruct (Nat.leb _ _); [|exact I].
  destruct (find sep buffer offset) as [sepidx|].
  - destruct (Nat.ltb limit sepidx); [apply overrun_remainder_suffix|]. destruct (dec _); apply suffix_skipn.
  - destruct (Nat.ltb _ _); [apply overrun_remainder_suffix|exact I].
Qed.

Lemma ru_feed_suffix {P} sep limit ke (dec : decoder P) st chunk :
  event_suffix (ru_acc st ++ chunk) (ffeed (ru_framer sep limit ke dec) st chunk).
Proof.
  cbn. unfold ru_feed. destruct st as [[b o]|]; cbn [ru_acc app]; [apply ru_scan_suffix|].
  destruct chunk; [exact I|apply ru_scan_suffix].
Qed.

Lemma rx_feed_suffix {P} size (dec : decoder P) st chunk :
  event_suffix (rx_acc st ++ chunk) (ffeed (rx_framer size dec) st chunk).
Proof.
  cbn. unfold rx_feed, rx_check.
  destruct st as [b|]; cbn [rx_acc app]; [|destruct chunk; [exact I|]];
    (destruct (Nat.ltb _ _); [exact I|]; destruct (dec _); apply suffix_skipn).
Qed.

(* ---- the buffer-filling twins: the bytes received so far are the first buflen bytes of the buffer ---- *)
Lemma firstn_skipn_swap' {X} (n m : nat) (l : list X) : firstn m (skipn n l) = skipn n (firstn (n + m) l).
Proof.
  revert l; induction n as [|n IH]; intros l; [reflexivity|].
  destruct l; [cbn; rewrite firstn_nil; reflexivity|]. cbn. apply IH.
Qed.

Lemma bru_feed_suffix {P} sep limit ke (dec : decoder P) st mem n :
  bevent_suffix (firstn (fst st + n) mem) (bfeed (bru_framer sep limit ke dec) st mem n).
Proof.
  cbn. unfold bru_feed, bru_scan, bseplen. destruct st as [buflen off]. cbn [fst].
  set (bl := buflen + n).
  destruct (Nat.leb _ _) eqn:E; [|exact I]. apply Nat.leb_le in E.
  destruct (find_in sep mem off bl) as [sepidx|] eqn:Ef.
  - assert (Hs : suffix_of (firstn (bl - (sepidx + length sep)) (skipn (sepidx + length sep) mem)) (firstn bl mem)).
    { rewrite firstn_skipn_swap'.
      destruct (le_lt_dec (sepidx + length sep) bl) as [Hle|Hgt].
      - replace (sepidx + length sep + (bl - (sepidx + length sep))) with bl by lia. apply suffix_skipn.
      - replace (bl - (sepidx + length sep)) with 0 by lia. rewrite Nat.add_0_r.
        (* cannot happen (the separator was found inside the received bytes); the statement holds anyway *)
        rewrite skipn_all2 by (rewrite firstn_length; lia). apply suffix_nil. }
    destruct (dec _); exact Hs.
  - destruct (Z.ltb _ _); [apply overrun_remainder_suffix|exact I].
Qed.

Lemma bfx_feed_suffix {P} size (dec : decoder P) nread mem n :
  bevent_suffix (firstn (nread + n) mem) (bfeed (bfx_framer size dec) nread mem n).
Proof.
  cbn. unfold bfx_feed. destruct (Nat.ltb (nread + n) size) eqn:E; [exact I|]. apply Nat.ltb_ge in E.
  assert (Hs : suffix_of (firstn (nread + n - size) (skipn size mem)) (firstn (nread + n) mem)).
  { rewrite firstn_skipn_swap'. replace (size + (nread + n - size)) with (nread + n) by lia. apply suffix_skipn. }
  destruct (dec _); exact Hs.
Qed.

(* ---- raw JSON: suffix of everything received for this document (leading whitespace of a plain value is dropped) ---- *)
Definition j_acc (s : jstate) : bytes := match s with JInit => [] | JEnc doc _ => doc | JPlain doc => doc end.

Lemma jsplit_suffix limit doc n : event_suffix doc (jsplit limit doc n).
Proof.
  unfold jsplit. destruct (Nat.ltb limit n); [apply overrun_remainder_suffix|].
  destruct (Nat.eqb _ _); [apply suffix_nil|]. destruct (firstn _ doc); [apply suffix_nil|apply suffix_skipn].
Qed.

Lemma jplain_suffix limit doc : event_suffix doc (jplain limit doc).
Proof.
  unfold jplain. destruct (find_nonvalue doc); [apply jsplit_suffix|].
  destruct (Nat.ltb _ _); [apply overrun_remainder_suffix|exact I].
Qed.

Lemma event_suffix_mono {S P} a b (r : fres S P) : suffix_of a b -> event_suffix a r -> event_suffix b r.
Proof. intros Hab. destruct r; cbn; auto; intros H; eapply suffix_trans; eauto. Qed.

Lemma jraw_feed_suffix limit st chunk : event_suffix (j_acc st ++ chunk) (ffeed (jraw_framer limit) st chunk).
Proof.
  cbn. assert (Henc : forall old c, event_suffix (old ++ chunk) (jenc limit old chunk c)).
  { intros old c. unfold jenc. destruct (jscan _ _ _).
    - destruct (Nat.ltb _ _); [apply overrun_remainder_suffix|exact I].
    - apply jsplit_suffix.
    - eapply event_suffix_mono; [apply suffix_skipn|apply jplain_suffix]. }
  destruct st; cbn [jraw_feed j_acc]; [apply (Henc [])|apply Henc|apply jplain_suffix].
Qed.

Lemma json_feed_suffix {P} limit (dec : decoder P) st chunk :
  event_suffix (j_acc st ++ chunk) (ffeed (json_framer limit dec) st chunk).
Proof.
  pose proof (jraw_feed_suffix limit st chunk) as H. cbn in *. unfold json_feed.
  destruct (jraw_feed limit st chunk); cbn in *; auto. destruct (dec p); exact H.
Qed.

(* ---- file based and compressors, under the hypotheses that make "the bytes given since the previous event" meaningful:
   the loader left the file position at the end after each EOFError (so the BytesIO is the concatenation of what was
   fed), and the decompressor's unused_data is the tail of the chunk that completed the stream ---- *)
From EN Require Import Frame.ErrSites Frame.Generic.

Definition fb_acc (st : fb_state) : bytes := match st with None => [] | Some (content, _) => content end.
Definition fb_at_end (st : fb_state) : Prop := match st with None => True | Some (content, pos) => pos = length content end.

Lemma fb_round_suffix {P} limit (load : bytes -> lres P) expected content :
  event_suffix content (fb_round limit load expected content).
Proof.
  unfold fb_round. destruct (Nat.ltb _ _); [apply overrun_remainder_suffix|].
  destruct (load content) as [pos|p pos|k pos]; [exact I|apply suffix_skipn|].
  destruct (expected k); [apply suffix_skipn|exact I].
Qed.

Lemma fb_feed_suffix {P} limit (load : bytes -> lres P) expected st chunk : fb_at_end st ->
  event_suffix (fb_acc st ++ chunk) (ffeed (fb_framer limit load expected) st chunk).
Proof.
  intros He. cbn. unfold fb_feed. destruct st as [[content pos]|]; cbn [fb_acc app]; [|apply fb_round_suffix].
  cbn in He. subst pos. unfold bio_write. rewrite firstn_all, Nat.sub_diag. cbn [repeat app].
  rewrite skipn_all2 by lia. rewrite app_nil_r. apply fb_round_suffix.
Qed.

(* the invariant is kept by a loader that reads to the end before raising EOFError *)
Lemma fb_feed_keeps_at_end {P} limit (load : bytes -> lres P) expected st chunk st' :
  (forall content pos, load content = LEof pos -> pos = length content) ->
  ffeed (fb_framer limit load expected) st chunk = Need st' -> fb_at_end st'.
Proof.
  intros Hl. cbn. unfold fb_feed, fb_round.
  destruct st as [[content pos]|];
    (destruct (Nat.ltb _ _); [discriminate|]);
    (destruct (load _) as [q|p q|k q] eqn:E; [|discriminate|destruct (expected k); discriminate]);
    intros H; inversion H; subst; cbn; eapply Hl; eauto.
Qed.

Lemma cz_feed_suffix {P} D dnew (dd : D -> bytes -> (D * bytes) + Z) deof dunused expected (inner : bytes -> ores P)
      inner_declared st chunk :
  (forall d c d' out, dd d c = inl (d', out) -> deof d' = true -> suffix_of (dunused d') c) ->
  event_suffix chunk (ffeed (cz_framer D dnew dd deof dunused expected inner inner_declared) st chunk).
Proof.
  intros Hu. cbn. unfold cz_feed, cz_finish. destruct st as [results d].
  destruct (dd d chunk) as [[d' out]|k] eqn:E.
  - destruct (deof d') eqn:Ee; [|exact I]. specialize (Hu _ _ _ _ E Ee).
    destruct (inner _); [exact Hu|]. destruct (inner_declared k); [exact Hu|exact I].
  - destruct (expected k); [apply suffix_nil|exact I].
Qed.
