(* C15, several connections: frame property and per-connection results under any interleaving. *)
From Coq Require Import List Arith Bool Lia.
From EN Require Import Lib.Bytes Frame.Framer Stream.Consumer Stream.Endpoint Stream.EndpointSpec Conc.StreamServer
  Conc.StreamServerSpec Conc.StreamServerMulti Proofs.C15_proofs.
Import ListNotations.

Section Multi.
  Context {P C : Type}.
  Variable M : machine P C.

  Lemma supdate_same : forall (s : list (@conn P C)) a,
      nth_error (supdate M s a) a = option_map (conn_step M) (nth_error s a).
  Proof. induction s as [|cn s IH]; intros [|a]; cbn; auto. Qed.

  (* frame: a step of connection a leaves every other connection's component unchanged *)
  Lemma supdate_other : forall (s : list (@conn P C)) a b, a <> b -> nth_error (supdate M s a) b = nth_error s b.
  Proof.
    induction s as [|cn s IH]; intros [|a] [|b] H; cbn; auto; try congruence.
  Qed.

  Lemma conn_iter_step : forall n (cn : @conn P C), conn_iter M n (conn_step M cn) = conn_step M (conn_iter M n cn).
  Proof. induction n; intros cn; cbn; [reflexivity|]. rewrite IHn. reflexivity. Qed.

  (* the component of connection a after any interleaving = its own task stepped as many times as a was scheduled *)
  Lemma srun_projection : forall sch (s : list (@conn P C)) a,
      nth_error (srun M s sch) a = option_map (conn_iter M (count_occ Nat.eq_dec sch a)) (nth_error s a).
  Proof.
    induction sch as [|b sch IH]; intros s a; cbn [srun count_occ].
    - destruct (nth_error s a); reflexivity.
    - rewrite IH. destruct (Nat.eq_dec b a) as [->|Hne].
      + rewrite supdate_same. destruct (nth_error s a); reflexivity.
      + rewrite (supdate_other s b a Hne). reflexivity.
  Qed.

  Lemma conn_iter_done : forall n (f : @final P), conn_iter M n (CDone f) = CDone f.
  Proof. induction n; intros; cbn; auto. Qed.

  Lemma conn_iter_run : forall fuel n ph t c o now u, fuel < n ->
      conn_iter M n (CRun fuel ph t c o now u) = CDone (client_loop M fuel ph t c o now u).
  Proof.
    induction fuel; intros n ph t c o now u Hn; destruct n; try lia.
    - cbn. apply conn_iter_done.
    - cbn [conn_iter conn_step client_loop].
      destruct (closed u); [apply conn_iter_done|].
      destruct (rq_next M t c o now) as [[[c' o'] now'] a].
      destruct a as [p|x|].
      + destruct (hresume ph (UReq p) now' u) as [u1 [ph' t'| |x]]; [apply IHfuel; lia|apply conn_iter_done|apply conn_iter_done].
      + destruct (hresume ph (UErr x) now' u) as [u1 [ph' t'| |x']]; [apply IHfuel; lia|apply conn_iter_done|apply conn_iter_done].
      + apply conn_iter_done.
  Qed.

  (* a connection that has been scheduled often enough has run its whole task: the single-connection model *)
  Lemma conn_iter_new : forall n oc acts0 c o, S (S (S (length acts0))) < n ->
      conn_iter M n (CNew oc acts0 c o) = CDone (client_coroutine M oc acts0 c o).
  Proof.
    intros n oc acts0 c o Hn. destruct n; [lia|]. cbn [conn_iter conn_step]. unfold client_coroutine.
    destruct (hstart oc _) as [u1 [ph t| |x]]; [apply conn_iter_run; lia|apply conn_iter_done|apply conn_iter_done].
  Qed.

  Lemma multi_result : forall l sch a oc acts0 c o,
      nth_error l a = Some (oc, acts0, c, o) ->
      S (S (S (length acts0))) < count_occ Nat.eq_dec sch a ->
      nth_error (srun M (accept l) sch) a = Some (CDone (client_coroutine M oc acts0 c o)).
  Proof.
    intros l sch a oc acts0 c o Hl Hn. rewrite srun_projection. unfold accept. rewrite nth_error_map, Hl. cbn.
    rewrite conn_iter_new by exact Hn. reflexivity.
  Qed.
End Multi.

Section MultiRequests.
  Context {P C : Type}.
  Variable M : machine P C.
  Variable spec : bytes -> list (nres P).
  Variable G : bytes -> Prop.
  Variable R : C -> bytes -> nat -> Prop.
  Variable D : C -> bytes -> Prop.
  Hypothesis OK : consumer_ok_rel M spec G R D.
  Variable c0 : C.
  Hypothesis R0 : R c0 [] 0.

  (* every connection, whatever the other connections and the interleaving: once its task has ended (which it has after
     being scheduled often enough) the requests seen by its handler are a prefix of the decoding of ITS stream, all of it
     if its peer closed *)
  Lemma multi_requests_in_order : forall (l : list (nat * list hact * C * speer)) sch a oc acts0 o,
      nth_error l a = Some (oc, acts0, c0, o) ->
      G (sstream_of o) ->
      S (S (S (length acts0))) < count_occ Nat.eq_dec sch a ->
      exists f, nth_error (srun M (accept l) sch) a = Some (CDone f) /\
                (exists n, got_log (ulog (f_user f)) = firstn n (spec (sstream_of o))) /\
                (f_eof f = true -> got_log (ulog (f_user f)) = spec (sstream_of o)).
  Proof.
    intros l sch a oc acts0 o Hl HG Hn. exists (client_coroutine M oc acts0 c0 o).
    split; [apply multi_result; assumption|].
    exact (client_coroutine_req_rel M spec G R D OK c0 R0 oc acts0 o HG).
  Qed.
End MultiRequests.
