(* C06: skip_errors_terminates for the buffer-filling consumer (BufferedStreamDataConsumer) over any bframer whose events
   make progress.  Potential = bytes re-injected at the buffer start + bytes the suspended generator counts as received. *)
From Coq Require Import ZArith List Bool Lia Arith.
From EN Require Import Lib.Bytes Frame.Framer Frame.BufReadUntil Frame.ErrSites Frame.Generic Stream.Consumer
  Proofs.Bytes_proofs Proofs.C06_progress Proofs.C06_buffered.
Import ListNotations.

Record bprogressive {P} (B : bframer P) (bh : bst_ B -> nat) : Prop := {
  bpg_init : bh (fst (binit B)) = 0;
  bpg_need : forall s mem n s' start, 1 <= n -> mem <> [] -> bfeed B s mem n = BNeed s' start -> bh s' <= bh s + n;
  bpg_done : forall s mem n p rest, 1 <= n -> mem <> [] -> bfeed B s mem n = BDone p rest -> length rest < bh s + n;
  bpg_fail : forall s mem n e rest, 1 <= n -> mem <> [] -> bfeed B s mem n = BFail e rest -> length rest < bh s + n
}.

(* ---- instances ---- *)
Lemma bru_bprogressive {P} sep limit ke (dec : decoder P) : 1 <= length sep ->
  bprogressive (bru_framer sep limit ke dec) fst.
Proof.
  intros Hs. split; cbn.
  - reflexivity.
  - intros s mem n s' start _ _ H. pose proof (bru_feed_progress sep ke dec Hs s mem n) as Hp. rewrite H in Hp.
    destruct s' as [b o]. cbn. lia.
  - intros s mem n p rest _ _ H. pose proof (bru_feed_progress sep ke dec Hs s mem n) as Hp. rewrite H in Hp. exact Hp.
  - intros s mem n e rest _ _ H. pose proof (bru_feed_progress sep ke dec Hs s mem n) as Hp. rewrite H in Hp. exact Hp.
Qed.

Lemma bfx_bprogressive {P} size (dec : decoder P) : 1 <= size -> bprogressive (bfx_framer size dec) (fun n => n).
Proof.
  intros Hs. split; cbn.
  - reflexivity.
  - intros s mem n s' start _ _ H. pose proof (bfx_feed_progress size dec Hs s mem n) as Hp. rewrite H in Hp. lia.
  - intros s mem n p rest _ _ H. pose proof (bfx_feed_progress size dec Hs s mem n) as Hp. rewrite H in Hp. exact Hp.
  - intros s mem n e rest _ _ H. pose proof (bfx_feed_progress size dec Hs s mem n) as Hp. rewrite H in Hp. exact Hp.
Qed.

Lemma firstn_nonempty {X} n (l : list X) : 1 <= n -> l <> [] -> firstn n l <> [] /\ length (firstn n l) <= n.
Proof.
  intros Hn Hl. split; [|rewrite firstn_length; lia].
  destruct n; [lia|]. destruct l; [congruence|]. cbn. discriminate.
Qed.

Lemma bwrap_bprogressive {P} (F : framer P) held alloc : progressive F held -> bprogressive (bwrap_generic F alloc) held.
Proof.
  intros [Hi Hn Hd Hf]. split; cbn; unfold bwrap_feed.
  - exact Hi.
  - intros s mem n s' start H1 Hm H. destruct (firstn_nonempty n mem H1 Hm) as [Hne Hl].
    destruct (ffeed F s (firstn n mem)) eqn:E; inversion H; subst. specialize (Hn _ _ _ E). lia.
  - intros s mem n p rest H1 Hm H. destruct (firstn_nonempty n mem H1 Hm) as [Hne Hl].
    destruct (ffeed F s (firstn n mem)) eqn:E; inversion H; subst. specialize (Hd _ _ _ _ Hne E). lia.
  - intros s mem n e rest H1 Hm H. destruct (firstn_nonempty n mem H1 Hm) as [Hne Hl].
    destruct (ffeed F s (firstn n mem)) eqn:E; inversion H; subst. specialize (Hf _ _ _ _ Hne E). lia.
Qed.

Lemma lift_bprogressive {P} (B : bframer (epkt P)) bh : bprogressive B bh -> bprogressive (lift_bframer B) bh.
Proof.
  intros [Hi Hn Hd Hf]. split; cbn.
  - exact Hi.
  - intros s mem n s' start H1 Hm H. destruct (bfeed B s mem n) as [s0 st|[p|k] r|e r|] eqn:E; cbn in H; inversion H; subst. eapply Hn; eauto.
  - intros s mem n p rest H1 Hm H. destruct (bfeed B s mem n) as [s0 st|[p0|k] r|e r|] eqn:E; cbn in H; inversion H; subst. eapply Hd; eauto.
  - intros s mem n e rest H1 Hm H. destruct (bfeed B s mem n) as [s0 st|[p0|k] r|e0 r|] eqn:E; cbn in H; inversion H; subst. eapply Hf; eauto.
Qed.

(* ---- the consumer ---- *)
Section BufLoop.
  Context {P : Type}.
  Variable B : bframer P.
  Variable sizehint : nat.
  Variable bh : bst_ B -> nat.
  Hypothesis HB : bprogressive B bh.
  Hypothesis alloc_pos : 1 <= balloc B sizehint.      (* create_buffer() must not return an empty buffer *)

  Definition psi (c : bcstate B) : nat :=
    balready c + match bcons c with Some s => bh s | None => 0 end.

  (* the buffer, once created, is non-empty; a suspended generator always has its buffer *)
  Definition binv (c : bcstate B) : Prop :=
    (forall m, bmem c = Some m -> m <> []) /\ (bcons c <> None -> bmem c <> None).

  Lemma write_at_nonempty (mem : bytes) off (d : bytes) : mem <> [] -> write_at mem off d <> [].
  Proof.
    intros Hm. unfold write_at. destruct off.
    - cbn. destruct d; [cbn; assumption|discriminate].
    - destruct mem; [congruence|]. cbn. discriminate.
  Qed.

  Lemma repeat_nonempty n : 1 <= n -> repeat 0%N n <> [].
  Proof. destruct n; [lia|discriminate]. Qed.

  Lemma gwb_spec c : binv c -> bexported c = None ->
    let '(c1, v) := bc_get_write_buffer B sizehint c in
    binv c1 /\ psi c1 = psi c /\ bcons c1 <> None /\ balready c1 = balready c /\
    match v with
    | Some (off, len) => bexported c1 = Some (off, len) /\ 1 <= len
    | None => bexported c1 = None
    end.
  Proof.
    intros [Hm Hc] He. unfold bc_get_write_buffer. rewrite He.
    set (mem := match bmem c with Some m => m | None => repeat 0%N (balloc B sizehint) end).
    assert (Hmem : mem <> []) by (unfold mem; destruct (bmem c) as [m|]; [apply Hm; reflexivity|apply repeat_nonempty; assumption]).
    destruct (bcons c) as [s|] eqn:Ec.
    - destruct (Nat.eqb (length mem - (bstart c + balready c)) 0) eqn:El; cbn;
        (split; [split; cbn; [intros m H; inversion H; subst; assumption|discriminate]|]);
        unfold psi; cbn; rewrite Ec; repeat split; try reflexivity; try discriminate.
      apply Nat.eqb_neq in El. lia.
    - destruct (binit B) as [cons0 start0] eqn:Eb.
      assert (H0 : bh cons0 = 0) by (pose proof (bpg_init B bh HB) as H; rewrite Eb in H; exact H).
      destruct (Nat.eqb (length mem - (start0 + balready c)) 0) eqn:El; cbn;
        (split; [split; cbn; [intros m H; inversion H; subst; assumption|discriminate]|]);
        unfold psi; cbn; rewrite Ec, H0; repeat split; try reflexivity; try discriminate.
      apply Nat.eqb_neq in El. lia.
  Qed.

  Lemma fill_spec c (d : bytes) : binv c ->
    binv (bc_fill B c d) /\ psi (bc_fill B c d) = psi c /\ bexported (bc_fill B c d) = bexported c /\
    bcons (bc_fill B c d) = bcons c.
  Proof.
    intros Hi. pose proof Hi as [Hm Hc]. unfold bc_fill.
    destruct (bmem c) as [m|] eqn:Em; [|split; [exact Hi|repeat split; try reflexivity; try assumption; congruence]].
    destruct (bexported c) as [[off len]|] eqn:Ee; [|split; [exact Hi|repeat split; try reflexivity; try assumption; congruence]].
    repeat split; cbn; auto.
    - intros m' H; inversion H; subst. apply write_at_nonempty. apply Hm; reflexivity.
    - discriminate.
  Qed.

  Lemma save_spec c2 (rest : bytes) : binv c2 -> bmem c2 <> None -> bcons c2 = None -> balready c2 = 0 -> bexported c2 = None ->
    let c' := bc_save_remainder B sizehint c2 rest in
    binv c' /\ bexported c' = None /\ psi c' <= length rest.
  Proof.
    intros Hi Hm Hc Ha He. unfold bc_save_remainder. destruct rest as [|b rest].
    - cbn. split; [assumption|]. split; [assumption|]. unfold psi. rewrite Ha, Hc. lia.
    - pose proof (gwb_spec c2 Hi He) as Hg. destruct (bc_get_write_buffer B sizehint c2) as [c1 v].
      destruct Hg as (Hi1 & Hp & Hn1 & Ha1 & Hv). pose proof Hi1 as [Hm1 Hc1].
      assert (Hp0 : psi c1 = 0) by (rewrite Hp; unfold psi; rewrite Ha, Hc; lia).
      destruct (bmem c1) as [mem|] eqn:Em.
      + destruct v as [[off len]|].
        * cbn. split; [split; cbn|].
          -- intros m H; inversion H; subst. apply write_at_nonempty. apply Hm1; reflexivity.
          -- discriminate.
          -- split; [reflexivity|]. unfold psi in *. cbn. lia.
        * split; [exact Hi1|]. split; [exact Hv|]. lia.
      + exfalso. apply Hc1; [assumption|reflexivity].
  Qed.

  Definition is_stopb (r : nres P) : bool := match r with RStop => true | _ => false end.

  (* next(n) when the call is legal (n within the exported view, or None) *)
  Lemma bcnext_spec c n : binv c ->
    match n with None => True | Some k => exists off len, bexported c = Some (off, len) /\ k <= len end ->
    (bexported c = None \/ bcons c <> None) ->
    let '(c', r) := bcnext B sizehint c n in
    let nb0 := match n with Some k => k | None => 0 end in
    binv c' /\ bexported c' = None /\
    (if is_stopb r then psi c' <= psi c + nb0 else psi c' < psi c + nb0).
  Proof.
    intros Hi Hn Hex. pose proof Hi as [Hm Hc]. unfold bcnext.
    assert (Hbad : match n with
                   | None => false
                   | Some k => match bexported c with None => true | Some (_, len) => Nat.ltb len k end
                   end = false).
    { destruct n as [k|]; [|reflexivity]. destruct Hn as (off & len & -> & Hk). apply Nat.ltb_ge. exact Hk. }
    rewrite Hbad.
    destruct (bcons c) as [st|] eqn:Ec.
    - set (nb0 := match n with Some k => k | None => 0 end).
      destruct (Nat.eqb (nb0 + balready c) 0) eqn:E0.
      + apply Nat.eqb_eq in E0. cbn. split; [split; cbn; [exact Hm|intros _; apply Hc; congruence]|].
        split; [reflexivity|]. unfold psi; cbn. rewrite Ec. lia.
      + apply Nat.eqb_neq in E0.
        destruct (bmem c) as [m|] eqn:Em; [|exfalso; apply Hc; [congruence|reflexivity]].
        assert (Hmne : m <> []) by (apply Hm; reflexivity).
        assert (H1 : 1 <= nb0 + balready c) by lia.
        destruct (bfeed B st m (nb0 + balready c)) as [s' start|p rest|e rest|] eqn:Ef.
        * cbn. split; [split; cbn; [intros m' H; inversion H; subst; assumption|intros _; discriminate]|].
          split; [reflexivity|]. unfold psi; cbn. rewrite Ec.
          pose proof (bpg_need B bh HB _ _ _ _ _ H1 Hmne Ef). lia.
        * pose proof (bpg_done B bh HB _ _ _ _ _ H1 Hmne Ef) as Hp.
          pose proof (save_spec {| bmem := Some m; bstart := bstart c; balready := 0; bexported := None; bcons := None |} rest) as Hs.
          cbn in Hs. destruct Hs as (Hi' & He' & Hp'); try reflexivity; try discriminate.
          { split; cbn; [intros m' H; inversion H; subst; assumption|congruence]. }
          cbn. split; [exact Hi'|]. split; [exact He'|]. unfold psi at 2. rewrite Ec. lia.
        * pose proof (bpg_fail B bh HB _ _ _ _ _ H1 Hmne Ef) as Hp.
          pose proof (save_spec {| bmem := Some m; bstart := bstart c; balready := 0; bexported := None; bcons := None |} rest) as Hs.
          cbn in Hs. destruct Hs as (Hi' & He' & Hp'); try reflexivity; try discriminate.
          { split; cbn; [intros m' H; inversion H; subst; assumption|congruence]. }
          cbn. split; [exact Hi'|]. split; [exact He'|]. unfold psi at 2. rewrite Ec. lia.
        * cbn. split; [split; cbn; [discriminate|congruence]|]. split; [reflexivity|]. unfold psi; cbn. rewrite Ec. lia.
    - cbn. split; [exact Hi|]. split; [destruct Hex as [H|H]; [exact H|congruence]|]. lia.
  Qed.

  (* packets and parse errors (everything except the RuntimeErrors) *)
  Definition nevents (evs : list (nres P)) : nat :=
    length (filter (fun r => match r with RCrash => false | _ => true end) evs).

  Lemma nevents_cons r evs : nevents (r :: evs) <= S (nevents evs).
  Proof. unfold nevents. cbn. destruct r; cbn; lia. Qed.

  Lemma nevents_le evs : nevents evs <= length evs.
  Proof. unfold nevents. induction evs as [|r evs IH]; cbn; [lia|]. destruct r; cbn; lia. Qed.

  Lemma nevents_app a b : nevents (a ++ b) = nevents a + nevents b.
  Proof. unfold nevents. rewrite filter_app, app_length. reflexivity. Qed.

  Definition rested_b (c : bcstate B) : Prop := binv c /\ bexported c = None.

  Lemma bcdrain_psi fuel : forall c, rested_b c ->
    let '(c', evs) := bcdrain B sizehint fuel c in rested_b c' /\ length evs + psi c' <= psi c.
  Proof.
    induction fuel as [|f IH]; intros c [Hi He]; [cbn; split; [split; assumption|lia]|].
    cbn [bcdrain]. pose proof (bcnext_spec c None Hi I (or_introl He)) as H.
    destruct (bcnext B sizehint c None) as [c1 r]. destruct H as (Hi1 & He1 & Hp).
    destruct r as [p|e| |]; cbn [is_stopb] in Hp.
    1,2,4: specialize (IH c1 (conj Hi1 He1)); destruct (bcdrain B sizehint f c1) as [c2 rs];
           destruct IH as [Hr Hl]; split; [exact Hr|cbn [length]; lia].
    split; [split; assumption|cbn [length]; lia].
  Qed.

  Lemma bcdrain_stops fuel : forall c, rested_b c -> psi c < fuel ->
    let '(c', _) := bcdrain B sizehint fuel c in snd (bcnext B sizehint c' None) = RStop.
  Proof.
    induction fuel as [|f IH]; intros c [Hi He] Hf; [lia|]. cbn [bcdrain].
    pose proof (bcnext_spec c None Hi I (or_introl He)) as H.
    destruct (bcnext B sizehint c None) as [c1 r] eqn:E. destruct H as (Hi1 & He1 & Hp).
    destruct r as [p|e| |]; cbn [is_stopb] in Hp.
    1,2,4: specialize (IH c1 (conj Hi1 He1) ltac:(lia)); destruct (bcdrain B sizehint f c1) as [c2 rs]; exact IH.
    (* next(None) stopped: calling it again stops again *)
    clear IH Hp. unfold bcnext in E |- *.
    destruct (bcons c) as [st|] eqn:Ec.
    - destruct (Nat.eqb (0 + balready c) 0) eqn:E0.
      + inversion E; subst. cbn. try rewrite Ec. cbn. reflexivity.
      + destruct (bfeed B st _ _) as [s' start| | |] eqn:Ef; inversion E; subst. cbn. reflexivity.
    - inversion E; subst. rewrite Ec. reflexivity.
  Qed.

  Lemma bcstep_psi fuel c (data : bytes) : rested_b c ->
    let '(c', evs, n) := bcstep B sizehint fuel c data in
    rested_b c' /\ nevents evs + psi c' <= psi c + n /\ n <= length data.
  Proof.
    intros [Hi He]. unfold bcstep.
    pose proof (gwb_spec c Hi He) as Hg. destruct (bc_get_write_buffer B sizehint c) as [c1 v].
    destruct Hg as (Hi1 & Hp1 & Hn1 & Ha1 & Hv).
    destruct v as [[off len]|].
    - destruct Hv as [Hex Hlen].
      set (d := firstn len data).
      pose proof (fill_spec c1 d Hi1) as (Hi2 & Hp2 & He2 & Hc2).
      assert (Hd : length d <= len /\ length d <= length data) by (unfold d; rewrite firstn_length; lia).
      pose proof (bcnext_spec (bc_fill B c1 d) (Some (length d)) Hi2) as H.
      destruct (bcnext B sizehint (bc_fill B c1 d) (Some (length d))) as [c3 r].
      destruct H as (Hi3 & He3 & Hp3).
      { exists off, len. rewrite He2. split; [exact Hex|lia]. }
      { right. rewrite Hc2. exact Hn1. }
      pose proof (fun rs => nevents_cons r rs) as Hnc.
      destruct r as [p|e| |]; cbn [is_stopb] in Hp3.
      1,2,4: pose proof (bcdrain_psi fuel c3 (conj Hi3 He3)) as Hd3; destruct (bcdrain B sizehint fuel c3) as [c4 rs];
             destruct Hd3 as [Hr Hl]; split; [exact Hr|]; split; [|lia];
             specialize (Hnc rs);
             pose proof (nevents_le rs); lia.
      split; [split; assumption|]. split; [unfold nevents; cbn; lia|lia].
    - split; [split; [exact Hi1|exact Hv]|]. split; [unfold nevents; cbn; lia|lia].
  Qed.

  Lemma bcchunk_psi rounds fuel : forall c (data : bytes), rested_b c ->
    let '(c', evs) := bcchunk B sizehint rounds fuel c data in
    rested_b c' /\ nevents evs + psi c' <= psi c + length data.
  Proof.
    induction rounds as [|k IH]; intros c data Hr; [cbn; split; [exact Hr|unfold nevents; cbn; lia]|].
    cbn [bcchunk]. destruct data as [|b data]; [split; [exact Hr|unfold nevents; cbn; lia]|].
    pose proof (bcstep_psi fuel c (b :: data) Hr) as H1.
    destruct (bcstep B sizehint fuel c (b :: data)) as [[c1 rs] n]. destruct H1 as (Hr1 & Hp1 & Hn1).
    specialize (IH c1 (skipn n (b :: data)) Hr1).
    destruct (bcchunk B sizehint k fuel c1 (skipn n (b :: data))) as [c2 rs']. destruct IH as (Hr2 & Hp2).
    split; [exact Hr2|]. rewrite nevents_app. rewrite skipn_length in Hp2. lia.
  Qed.

  Lemma bcdeliver_psi fuel chunks : forall c, rested_b c ->
    let '(c', evs) := bcdeliver B sizehint fuel c chunks in
    rested_b c' /\ nevents evs + psi c' <= psi c + total_len chunks.
  Proof.
    induction chunks as [|ch chs IH]; intros c Hr; [cbn; split; [exact Hr|unfold nevents; cbn; lia]|].
    cbn [bcdeliver total_len fold_right]. fold (total_len chs).
    pose proof (bcchunk_psi (S (length ch)) fuel c ch Hr) as H1.
    destruct (bcchunk B sizehint (S (length ch)) fuel c ch) as [c1 rs]. destruct H1 as (Hr1 & Hp1).
    specialize (IH c1 Hr1). destruct (bcdeliver B sizehint fuel c1 chs) as [c2 rs']. destruct IH as (Hr2 & Hp2).
    split; [exact Hr2|]. rewrite nevents_app. lia.
  Qed.

  Lemma rested_b_init : rested_b (bcinit B).
  Proof. split; [split; cbn; [discriminate|congruence]|reflexivity]. Qed.

  Lemma psi_init : psi (bcinit B) = 0.
  Proof. reflexivity. Qed.

  (* the drain loop of one receive round stops by itself: after bcstep with enough fuel, next(None) is StopIteration *)
  Lemma bcstep_stops fuel c (data : bytes) : rested_b c -> psi c + length data < fuel ->
    let '(c', evs, _) := bcstep B sizehint fuel c data in
    In RCrash evs \/ snd (bcnext B sizehint c' None) = RStop.
  Proof.
    intros [Hi He] Hf. unfold bcstep.
    pose proof (gwb_spec c Hi He) as Hg. destruct (bc_get_write_buffer B sizehint c) as [c1 v].
    destruct Hg as (Hi1 & Hp1 & Hn1 & Ha1 & Hv).
    destruct v as [[off len]|]; [|left; left; reflexivity].
    destruct Hv as [Hex Hlen].
    set (d := firstn len data).
    pose proof (fill_spec c1 d Hi1) as (Hi2 & Hp2 & He2 & Hc2).
    assert (Hd : length d <= len /\ length d <= length data) by (unfold d; rewrite firstn_length; lia).
    destruct (bcnext B sizehint (bc_fill B c1 d) (Some (length d))) as [c3 r] eqn:E.
    pose proof (bcnext_spec (bc_fill B c1 d) (Some (length d)) Hi2) as H. rewrite E in H.
    destruct H as (Hi3 & He3 & Hp3).
    { exists off, len. rewrite He2. split; [exact Hex|lia]. }
    { right. rewrite Hc2. exact Hn1. }
    destruct r as [p|e| |]; cbn [is_stopb] in Hp3.
    1,2: pose proof (bcdrain_stops fuel c3 (conj Hi3 He3) ltac:(lia)) as Hs; destruct (bcdrain B sizehint fuel c3) as [c4 rs];
         right; exact Hs.
    - (* next(n) stopped: the generator is suspended with nothing re-injected, so next(None) stops too *)
      right. clear Hp3. unfold bcnext in E |- *.
      destruct (match bexported (bc_fill B c1 d) with None => true | Some (_, l0) => Nat.ltb l0 (length d) end); [discriminate|].
      destruct (bcons (bc_fill B c1 d)) as [st|] eqn:Ec.
      + destruct (Nat.eqb (length d + balready (bc_fill B c1 d)) 0) eqn:E0.
        * inversion E; subst. cbn. try rewrite Ec. cbn. reflexivity.
        * destruct (bfeed B st _ _) as [s' start| | |] eqn:Ef; inversion E; subst. cbn. reflexivity.
      + inversion E; subst. rewrite Ec. reflexivity.
    - destruct (bcdrain B sizehint fuel c3) as [c4 rs]. cbn. left. left; reflexivity.
  Qed.
End BufLoop.
