(* C18 proofs about the thread-level model of the standalone wrapper (Conc/Standalone.v). *)
From Coq Require Import List Bool Arith Lia.
From EN Require Import Gen.ParamsC18 Conc.Standalone.
Import ListNotations.

Lemma trun_reachable ls : forall s s', treachable s -> trun s ls = Some s' -> treachable s'.
Proof.
  induction ls as [|l ls IH]; simpl; intros s s' R H.
  - inversion H; subst; auto.
  - destruct (tstep s l) as [[s1 o]|] eqn:E; try discriminate. eapply IH; [|eauto]. eapply tr_step; eauto.
Qed.

(* shutdown() called while the server is NOT running; it leaves its locked section (no portal) and is pre-empted before
   `self.__is_shutdown.wait()`; a serve_forever() of another thread starts and clears the event; the shutdown thread
   now waits for an event that only the end of that run will set, and nothing asks that run to end. *)
Definition lost_wakeup_trace : list tlabel :=
  [TSpawn KShutdown; TStep 0; TSpawn KServe; TStep 1; TStep 1; TStep 1; TStep 1].

Lemma lost_wakeup_witness :
  standalone_shutdown_guarded = false ->
  exists s, treachable s /\ thr s = [(0, H2 0); (1, V4)] /\ t_shut s = false /\ astop s = false /\
            (forall id, tstep s (TStep id) = None) /\ tstep s TAsyncEnd = None.
Proof.
  intros G.
  first [ (vm_compute in G; discriminate G) |
  (destruct (trun tinit lost_wakeup_trace) as [s|] eqn:E; [|vm_compute in E; discriminate];
   exists s; split; [eapply trun_reachable; [apply tr_init | exact E]|];
   vm_compute in E; inversion E; subst; clear E; simpl;
   repeat split; auto;
   intros id; destruct id as [|[|id]]; reflexivity) ].
Qed.

(* with the guarded shutdown (one event per run, captured under the lock) the same schedule lets the shutdown call
   return although the new run keeps serving *)
Lemma guarded_shutdown_returns :
  standalone_shutdown_guarded = true ->
  exists s s', trun tinit lost_wakeup_trace = Some s /\ tstep s (TStep 0) = Some (s', [(0, TOk)]) /\ thr s' = [(1, V4)].
Proof.
  intros G.
  first [ (vm_compute in G; discriminate G) | (eexists; eexists; split; [vm_compute; reflexivity | split; vm_compute; reflexivity]) ].
Qed.
