(* C18: a property of the big-step standalone runner (Run/C18.v) that depends on the regenerated parameter
   nst_sets_up_in_finally (threads_helper.NetworkServerThread.run sets the is_up event in a finally clause):
   a NetworkServerThread.start() call is released as soon as the thread's serve_forever has ended, whatever its outcome.
   If run() only sets the event on an exception, the proof does not go through (a serve_forever that returns normally
   without ever having been up -- shutdown during the set-up -- would leave start() blocked for ever). *)
From Coq Require Import List Bool Arith ZArith Lia.
From EN Require Import Lib.Bytes Lib.Sx Gen.ParamsC18 Conc.Lifecycle Run.C18.
Import ListNotations.
Open Scope Z_scope.

Lemma start_released_when_thread_ended (x : sst) (up : bool) (si ri : nat) (l : list (nat * nat)) :
  nth ri (sstat x) 0 <> 0 ->
  resolve_starts x up ((si, ri) :: l) =
    (set_nth si 1 (fst (resolve_starts x up l)), snd (resolve_starts x up l)).
Proof.
  intros H. simpl. destruct (resolve_starts x up l) as [ss rest]. simpl.
  destruct (Z.eqb (nth ri (sstat x) 0) 0) eqn:E; [apply Z.eqb_eq in E; contradiction|].
  (* computes only if nst_sets_up_in_finally is true: otherwise the outcome 1 (returned normally) leaves start() blocked *)
  simpl. reflexivity.
Qed.
