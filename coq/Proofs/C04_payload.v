(* C04: the chunk-wise digest used for very large real-TLS payloads equals the digest of what the model puts on the
   wire (async TLS backlog with no scripted fault: success, wire = concat chunks). *)
From Coq Require Import ZArith List Bool Lia Arith.
From EN Require Import Lib.Bytes Lib.Sx IO.Retry IO.SendAll IO.TlsWrite IO.Payload.
Import ListNotations.

Lemma fletcher_app : forall a b s1 s2,
  fletcher s1 s2 (a ++ b) = let '(x, y) := fletcher s1 s2 a in fletcher x y b.
Proof.
  induction a as [|x a IH]; intros b s1 s2; simpl; [reflexivity|]. apply IH.
Qed.

Lemma fletcher_chunks_concat : forall chunks s1 s2, fletcher_chunks s1 s2 chunks = fletcher s1 s2 (concat chunks).
Proof.
  induction chunks as [|c r IH]; intros s1 s2; simpl; [reflexivity|].
  rewrite fletcher_app. destruct (fletcher s1 s2 c) as [x y]. apply IH.
Qed.

Lemma fold_length_concat : forall (chunks : list bytes) n,
  fold_left (fun n c => (n + length c)%nat) chunks n = (n + length (concat chunks))%nat.
Proof.
  induction chunks as [|c r IH]; intros n; simpl; [lia|]. rewrite IH, app_length. lia.
Qed.

Lemma digest_chunks_concat : forall chunks, digest_chunks chunks = digest (concat chunks).
Proof.
  intros. unfold digest_chunks, digest. rewrite fletcher_chunks_concat.
  destruct (fletcher 0 0 (concat chunks)) as [s1 s2]. rewrite fold_length_concat. reflexivity.
Qed.

(* no scripted fault: the TLS backlog loop hands over everything and returns *)
Lemma tls_write_loop_no_fault : forall fuel backlog w,
  (length backlog <= fuel)%nat ->
  sr_out (tls_write_loop fuel backlog (mk_sock [] w)) = SOk
  /\ sk_wire (sr_sock (tls_write_loop fuel backlog (mk_sock [] w))) = w ++ concat backlog.
Proof.
  induction fuel as [|f IH]; intros backlog w H.
  - destruct backlog; simpl in *; [split; [reflexivity|rewrite app_nil_r; reflexivity] | lia].
  - destruct backlog as [|d r]; simpl; [split; [reflexivity|rewrite app_nil_r; reflexivity]|].
    rewrite Nat.ltb_irrefl. simpl in H.
    destruct (IH r (w ++ d)) as [A B]; [lia|]. split; [exact A|]. rewrite B, app_assoc. reflexivity.
Qed.

Lemma tls_flush_fast_path : forall fuel chunks,
  (length chunks <= fuel)%nat ->
  sr_out (tls_flush fuel chunks (mk_sock [] [])) = SOk
  /\ digest (sk_wire (sr_sock (tls_flush fuel chunks (mk_sock [] [])))) = digest_chunks chunks.
Proof.
  intros fuel chunks H. unfold tls_flush. destruct (tls_write_loop_no_fault fuel chunks [] H) as [A B].
  split; [exact A|]. rewrite B. simpl. symmetry. apply digest_chunks_concat.
Qed.
