(* Adapter = asyncio transport + WriteFlowControl: under the pause hypothesis a send returns only when flushed. *)
From Coq Require Import List Arith Bool Lia ZifyBool.
From EN Require Import Conc.FlowControl Proofs.C20_flow.
Import ListNotations.

(* H_pause: water marks (0, 0) and every write path used calls _maybe_pause_protocol *)
Definition Hc (c : tcfg) : Prop := c_high c = 0 /\ c_low c = 0.
Definition ok_label (c : tcfg) (l : alabel) : Prop :=
  match l with ASendIter _ _ _ => c_wl_pauses c = true | _ => True end.
Definition pos (x : tid * nat) : Prop := 0 < snd x.

Record J (a : ad) : Prop := mkJ {
  j_cfg : Hc (a_cfg a);
  j_dead : a_dead a = true -> a_buf a = [];
  j_pos : Forall pos (a_buf a);
  j_pp : a_dead a = false -> (a_ppaused a = true <-> a_buf a <> []);
  j_wp : a_dead a = false -> a_ppaused a = true -> w_paused (a_w a) = true;
  j_lost : w_lost (a_w a) = true -> a_dead a = true;
  j_res : forall t f, task (a_w a) t = Some (TParked f FResult) -> bytes_of t (a_buf a) = 0
}.

Lemma size_pos : forall b, Forall pos b -> b <> [] -> 0 < buf_size b.
Proof. intros [|[t n] r] H N; [congruence|]. inversion H; subst. unfold pos in H2. simpl in *. lia. Qed.

Lemma take_pos : forall b k, Forall pos b -> Forall pos (take k b).
Proof.
  induction b as [|[t n] r IH]; simpl; intros k H; auto. inversion H; subst.
  destruct (n <=? k) eqn:E; auto. constructor; auto. unfold pos in *. simpl in *. lia.
Qed.

Lemma bytes_take_le : forall t b k, bytes_of t (take k b) <= bytes_of t b.
Proof.
  intros t b; induction b as [|[u n] r IH]; simpl; intros k; auto.
  destruct (n <=? k) eqn:E; simpl.
  - specialize (IH (k - n)). lia.
  - destruct (u =? t); lia.
Qed.

Lemma bytes_app : forall t b u n, bytes_of t (b ++ [(u, n)]) = bytes_of t b + (if u =? t then n else 0).
Proof. intros t b u n; induction b as [|[v m] r IH]; simpl; [lia|]. rewrite IH. lia. Qed.

Lemma J_init : forall c n, Hc c -> J (ad_init c n).
Proof.
  intros c n H. constructor; simpl; auto; try discriminate.
  intros _. split; [discriminate|congruence].
Qed.

Lemma paused_false_empty : forall a, J a -> w_paused (a_w a) = false -> a_buf a = [].
Proof.
  intros a [Jc Jd Jp Jpp Jw Jl Jr] H. destruct (a_dead a) eqn:D; auto.
  destruct (a_buf a) eqn:B; auto. exfalso.
  assert (P : a_ppaused a = true) by (apply Jpp; auto; congruence).
  rewrite (Jw eq_refl P) in H. discriminate.
Qed.

(* after the buffer changed to b': _maybe_resume_protocol then _maybe_pause_protocol re-establish the invariant *)
Lemma J_renorm : forall a b', J a -> a_dead a = false -> Forall pos b' ->
  (forall t f, task (a_w a) t = Some (TParked f FResult) -> bytes_of t b' = 0) ->
  J (maybe_pause (maybe_resume (with_buf b' a))).
Proof.
  intros a b' [[Ch Cl] Jd Jp Jpp Jw Jl Jr] D P R.
  destruct b' as [|x r].
  - destruct (a_ppaused a) eqn:PP.
    + unfold maybe_resume, with_buf. simpl. rewrite ?PP, ?Cl. simpl.
      unfold maybe_pause. simpl. rewrite ?Ch. simpl.
      constructor; simpl; auto; try (split; auto; fail); try discriminate.
      intros _. split; [discriminate|congruence].
    + unfold maybe_resume, with_buf. simpl. rewrite ?PP. simpl.
      unfold maybe_pause. simpl. rewrite ?Ch, ?PP. simpl.
      constructor; simpl; auto; try (split; auto; fail); try congruence.
      intros _. split; congruence.
  - assert (S : 0 < buf_size (x :: r)) by (apply size_pos; auto; discriminate).
    assert (E1 : (buf_size (x :: r) <=? 0) = false) by lia.
    assert (E2 : (0 <? buf_size (x :: r)) = true) by lia.
    unfold maybe_resume, with_buf. cbn [a_ppaused a_buf a_cfg a_dead a_w]. rewrite Cl, E1, andb_false_r.
    unfold maybe_pause. cbn [a_ppaused a_buf a_cfg a_dead a_w]. rewrite Ch, E2.
    destruct (a_ppaused a) eqn:PP; simpl.
    + constructor; simpl; auto; try (split; auto; fail); try congruence.
      intros _. split; [discriminate|auto].
    + constructor; simpl; auto; try (split; auto; fail); try congruence.
      intros _. split; [discriminate|auto].
Qed.

Lemma renorm_grow : forall a b', J a -> a_dead a = false -> Forall pos b' -> b' <> [] ->
  maybe_pause (with_buf b' a) = maybe_pause (maybe_resume (with_buf b' a)).
Proof.
  intros a b' [[Ch Cl] _ _ _ _ _ _] D P N. unfold maybe_resume at 1. simpl. rewrite Cl.
  assert (S : 0 < buf_size b') by (apply size_pos; auto).
  assert (E1 : (buf_size b' <=? 0) = false) by lia. rewrite E1, andb_false_r. reflexivity.
Qed.

Lemma renorm_shrink : forall a b', J a -> a_dead a = false -> a_buf a <> [] -> Forall pos b' ->
  maybe_resume (with_buf b' a) = maybe_pause (maybe_resume (with_buf b' a)).
Proof.
  intros a b' [[Ch Cl] Jd Jp Jpp Jw Jl Jr] D N P.
  assert (PP : a_ppaused a = true) by (apply Jpp; auto).
  unfold maybe_resume, with_buf. cbn [a_ppaused a_buf a_cfg a_dead a_w]. rewrite Cl, PP. simpl.
  destruct (buf_size b' <=? 0) eqn:E; unfold maybe_pause; cbn [a_ppaused a_buf a_cfg a_dead a_w]; rewrite Ch.
  - assert (E2 : (0 <? buf_size b') = false) by lia. rewrite E2. reflexivity.
  - rewrite ?PP; simpl; rewrite ?andb_false_r; reflexivity.
Qed.

(* the flow-control labels that neither pause nor resume nor lose *)
Definition quiet (l : wlabel) : Prop :=
  match l with WDrain _ | WCancel _ | WCallback _ | WWake _ => True | _ => False end.

Lemma wfc_quiet : forall w l w' o, quiet l -> wfc_step w l = Some (w', o) ->
  w_paused w' = w_paused w /\ w_lost w' = w_lost w /\
  (forall t f, task w' t = Some (TParked f FResult) -> task w t = Some (TParked f FResult)).
Proof.
  intros w l w' o Q H. unfold task. destruct l as [u| | |e|b|u|g|u]; simpl in Q; try contradiction; simpl in H.
  - unfold get_task in H. destruct (nth_error (w_tasks w) u) as [x|] eqn:E; [|discriminate].
    destruct x; try discriminate. unfold wfc_drain, drain_body in H.
    destruct (w_closing w); [|destruct (w_lost w) eqn:L; [|destruct (negb (w_paused w))]]; inversion H; subst; simpl;
      repeat split; auto; try (intros t f X; try (apply nth_error_upd_cases in X; destruct X as [[? ?]|[? X]]; congruence); auto).
  - unfold get_task in H. destruct (nth_error (w_tasks w) u) as [x|] eqn:E; [|discriminate].
    destruct x as [|c|g st]; try discriminate; inversion H; subst; simpl; repeat split; auto;
      try (intros t f X; apply nth_error_upd_cases in X; destruct X as [[? ?]|[? X]]; congruence).
  - destruct (mem_fid g (w_deque w) && fut_done g (w_tasks w)); [|discriminate]. inversion H; subst. simpl. auto.
  - unfold get_task in H. destruct (nth_error (w_tasks w) u) as [x|] eqn:E; [|discriminate].
    destruct x as [|c|g st]; try discriminate.
    + destruct c.
      * inversion H; subst. simpl. repeat split; auto. intros t f X.
        apply nth_error_upd_cases in X; destruct X as [[? ?]|[? X]]; congruence.
      * unfold drain_body, set_task, set_tasks in H. simpl in H.
        destruct (w_lost w) eqn:L; [|destruct (negb (w_paused w))]; inversion H; subst; unfold set_task, set_tasks; simpl;
          repeat split; auto;
          try (intros t f X;
               repeat (match goal with H0 : nth_error (upd _ _ _) _ = Some _ |- _ =>
                         apply nth_error_upd_cases in H0; destruct H0 as [[? ?]|[? H0]]; try congruence end); auto).
    + destruct (res_of st); [|discriminate]. inversion H; subst. simpl. repeat split; auto. intros t f X.
      apply nth_error_upd_cases in X; destruct X as [[? ?]|[? X]]; congruence.
Qed.

Lemma J_lift : forall a w' , J a -> w_paused w' = w_paused (a_w a) -> w_lost w' = w_lost (a_w a) ->
  (forall t f, task w' t = Some (TParked f FResult) -> task (a_w a) t = Some (TParked f FResult)) ->
  J (with_w w' a).
Proof.
  intros a w' [Jc Jd Jp Jpp Jw Jl Jr] E1 E2 E3. constructor; simpl; auto.
  - intros D P. rewrite E1. auto.
  - rewrite E2. auto.
  - intros t f X. eauto.
Qed.

(* a drain()/wake-up that returns normally finds write not paused, or a future completed by resume_writing *)
Lemma drain_ok_cases : forall w l w' o t, quiet l -> wfc_step w l = Some (w', o) -> In (ODrain t ROk) o ->
  w_paused w = false \/ (exists f, task w t = Some (TParked f FResult)).
Proof.
  intros w l w' o t Q H I. unfold task. destruct l as [u| | |e|b|u|g|u]; simpl in Q; try contradiction; simpl in H.
  - unfold get_task in H. destruct (nth_error (w_tasks w) u) as [x|] eqn:E; [|discriminate].
    destruct x; try discriminate. unfold wfc_drain, drain_body in H.
    destruct (w_closing w); [|destruct (w_lost w) eqn:L; [|destruct (w_paused w) eqn:P; simpl in H]];
      inversion H; subst; simpl in I; auto; destruct I as [I|[]]; try discriminate.
    try (destruct (w_lost_exc _); discriminate).
  - unfold get_task in H. destruct (nth_error (w_tasks w) u) as [x|] eqn:E; [|discriminate].
    destruct x as [|c|g st]; try discriminate; inversion H; subst; simpl in I; contradiction.
  - destruct (mem_fid g (w_deque w) && fut_done g (w_tasks w)); [|discriminate]. inversion H; subst. contradiction.
  - unfold get_task in H. destruct (nth_error (w_tasks w) u) as [x|] eqn:E; [|discriminate].
    destruct x as [|c|g st]; try discriminate.
    + destruct c.
      * inversion H; subst. simpl in I. destruct I as [I|[]]. discriminate.
      * unfold drain_body in H. simpl in H.
        destruct (w_lost w); [|destruct (w_paused w) eqn:P; simpl in H]; inversion H; subst; simpl in I; auto;
          destruct I as [I|[]]; try discriminate. try (destruct (w_lost_exc _); discriminate).
    + destruct st as [| |conn|]; [discriminate| |destruct conn|]; simpl in H; inversion H; subst; simpl in I;
        destruct I as [I|[]]; try discriminate.
      inversion I; subst. right. eauto.
Qed.

Lemma J_alive : forall a, J a -> a_buf a <> [] -> a_dead a = false.
Proof. intros a Ja N. destruct (a_dead a) eqn:D; auto. exfalso. apply N. apply (j_dead a Ja D). Qed.

Lemma lift_common : forall a1 l w' o, J a1 -> quiet l -> wfc_step (a_w a1) l = Some (w', o) ->
  J (with_w w' a1) /\ (forall t, In (ODrain t ROk) o -> bytes_of t (a_buf a1) = 0).
Proof.
  intros a1 l w' o Ja Q H. destruct (wfc_quiet _ _ _ _ Q H) as [E1 [E2 E3]]. split.
  - apply J_lift; auto.
  - intros t I. destruct (drain_ok_cases _ _ _ _ _ Q H I) as [P|[f P]].
    + rewrite (paused_false_empty a1 Ja P). reflexivity.
    + eapply j_res; eauto.
Qed.

Lemma idle_not_result : forall a t u f, task (a_w a) t = Some TIdle -> task (a_w a) u = Some (TParked f FResult) -> (t =? u) = false.
Proof. intros a t u f H1 H2. destruct (t =? u) eqn:E; auto. apply Nat.eqb_eq in E. subst. congruence. Qed.

Lemma J_grow : forall a t n, J a -> task (a_w a) t = Some TIdle -> a_dead a = false -> 0 < n ->
  J (maybe_pause (with_buf (a_buf a ++ [(t, n)]) a)).
Proof.
  intros a t n Ja Ht D Hn.
  assert (P : Forall pos (a_buf a ++ [(t, n)])).
  { apply Forall_app; split; [apply (j_pos a Ja)|constructor; auto]. }
  rewrite renorm_grow; auto.
  - apply J_renorm; auto. intros u f Hu. rewrite bytes_app, (j_res a Ja u f Hu), (idle_not_result a t u f Ht Hu). reflexivity.
  - destruct (a_buf a); discriminate.
Qed.

Lemma J_write : forall a t n k, J a -> task (a_w a) t = Some TIdle -> J (tr_write t n k a).
Proof.
  intros a t n k Ja Ht. unfold tr_write. destruct (a_dead a) eqn:D; simpl; auto.
  destruct (n =? 0) eqn:N; auto. destruct (a_buf a) as [|x r] eqn:B.
  - destruct (n - Nat.min k n =? 0) eqn:M; auto.
    replace [(t, n - Nat.min k n)] with (a_buf a ++ [(t, n - Nat.min k n)]) by (rewrite B; reflexivity).
    apply J_grow; auto. lia.
  - change (J (maybe_pause (with_buf ((x :: r) ++ [(t, n)]) a))). rewrite <- B. apply J_grow; auto. lia.
Qed.

Lemma J_sendto : forall a t n ok, J a -> task (a_w a) t = Some TIdle -> J (tr_sendto t n ok a).
Proof.
  intros a t n ok Ja Ht. unfold tr_sendto. destruct (a_dead a) eqn:D; simpl; auto.
  destruct (n =? 0) eqn:N; auto. destruct (a_buf a) as [|x r] eqn:B.
  - destruct ok; auto.
    replace [(t, n)] with (a_buf a ++ [(t, n)]) by (rewrite B; reflexivity). apply J_grow; auto. lia.
  - change (J (maybe_pause (with_buf ((x :: r) ++ [(t, n)]) a))). rewrite <- B. apply J_grow; auto. lia.
Qed.

Lemma J_writelines : forall a t n k, J a -> c_wl_pauses (a_cfg a) = true -> task (a_w a) t = Some TIdle ->
  J (tr_writelines t n k a).
Proof.
  intros a t n k Ja WL Ht. unfold tr_writelines. destruct (a_dead a) eqn:D; simpl; auto.
  destruct (n =? 0) eqn:N; auto.
  assert (Hn : 0 < n) by lia.
  assert (P : Forall pos (a_buf a ++ [(t, n)])).
  { apply Forall_app; split; [apply (j_pos a Ja)|constructor; auto]. }
  assert (CF : forall x, a_cfg (maybe_resume x) = a_cfg x).
  { intros x. unfold maybe_resume. destruct (_ && _); reflexivity. }
  destruct (k =? 0) eqn:K.
  - simpl. rewrite WL. apply J_grow; auto.
  - simpl. rewrite WL. apply J_renorm; auto.
    + apply take_pos; auto.
    + intros u f Hu. assert (L := bytes_take_le u (a_buf a ++ [(t, n)]) k).
      rewrite bytes_app, (j_res a Ja u f Hu), (idle_not_result a t u f Ht Hu) in L. lia.
Qed.

Lemma J_dead_state : forall a w, J a -> J (mkAd (a_cfg a) [] (a_ppaused a) true w).
Proof.
  intros a w Ja. constructor; simpl; auto; try discriminate. apply (j_cfg a Ja).
Qed.

Lemma J_set_dead : forall a w, J a -> a_buf a = [] -> J (set_dead (with_w w a)).
Proof.
  intros a w [Jc Jd Jp Jpp Jw Jl Jr] B. unfold set_dead, with_w. constructor; simpl; auto; try discriminate;
    try (rewrite B; constructor); try (intros t f _; rewrite B; reflexivity).
Qed.

Lemma J_step : forall a l a' o, J a -> ok_label (a_cfg a) l -> ad_step a l = Some (a', o) ->
  J a' /\ a_cfg a' = a_cfg a /\ (forall t, In (ODrain t ROk) o -> bytes_of t (a_buf a') = 0).
Proof.
  intros a l a' o Ja OK H.
  assert (CFW : forall t n k, a_cfg (tr_write t n k a) = a_cfg a).
  { intros. unfold tr_write, maybe_pause. destruct (_ || _); auto. destruct (a_buf a); [destruct (_ =? 0); auto|];
      simpl; destruct (_ && _); reflexivity. }
  assert (CFS : forall t n k, a_cfg (tr_sendto t n k a) = a_cfg a).
  { intros. unfold tr_sendto, maybe_pause. destruct (_ || _); auto. destruct (a_buf a); [destruct k; auto|];
      simpl; destruct (_ && _); reflexivity. }
  assert (CFL : forall t n k, a_cfg (tr_writelines t n k a) = a_cfg a).
  { intros. unfold tr_writelines, maybe_pause, maybe_resume. destruct (_ || _); auto.
    destruct (k =? 0); simpl; repeat (destruct (_ && _); simpl); destruct (c_wl_pauses _); simpl;
      repeat (destruct (_ && _); simpl); reflexivity. }
  destruct l as [t n k|t n k|t n ok|k| | |e|t|f|t]; unfold ad_step in H.
  - destruct (get_task t (a_w a)) as [[| |]|] eqn:G; try discriminate.
    destruct (wfc_step (a_w (tr_write t n k a)) (WDrain t)) as [[w' o']|] eqn:S; [|discriminate]. simpl in H. inversion H; subst.
    assert (J1 : J (tr_write t n k a)) by (apply J_write; auto).
    destruct (lift_common _ (WDrain t) _ _ J1 I S) as [A B]. split; [exact A|split; [simpl; auto|exact B]].
  - destruct (get_task t (a_w a)) as [[| |]|] eqn:G; try discriminate.
    destruct (wfc_step (a_w (tr_writelines t n k a)) (WDrain t)) as [[w' o']|] eqn:S; [|discriminate]. simpl in H. inversion H; subst.
    assert (J1 : J (tr_writelines t n k a)) by (apply J_writelines; auto).
    destruct (lift_common _ (WDrain t) _ _ J1 I S) as [A B]. split; [exact A|split; [simpl; auto|exact B]].
  - destruct (get_task t (a_w a)) as [[| |]|] eqn:G; try discriminate.
    destruct (wfc_step (a_w (tr_sendto t n ok a)) (WDrain t)) as [[w' o']|] eqn:S; [|discriminate]. simpl in H. inversion H; subst.
    assert (J1 : J (tr_sendto t n ok a)) by (apply J_sendto; auto).
    destruct (lift_common _ (WDrain t) _ _ J1 I S) as [A B]. split; [exact A|split; [simpl; auto|exact B]].
  - destruct (a_buf a) as [|x r] eqn:B; [discriminate|].
    destruct ((0 <? k) && (k <=? buf_size (x :: r))); [|discriminate].
    assert (D : a_dead a = false) by (apply J_alive; auto; congruence).
    assert (J1 : J (maybe_resume (with_buf (take k (x :: r)) a))).
    { rewrite renorm_shrink; auto; [|congruence|apply take_pos; rewrite <- B; apply (j_pos a Ja)].
      apply J_renorm; auto.
      - apply take_pos. rewrite <- B. apply (j_pos a Ja).
      - intros u f Hu. assert (L := bytes_take_le u (x :: r) k).
        assert (Z : bytes_of u (x :: r) = 0) by (rewrite <- B; eapply j_res; eauto). lia. }
    assert (C1 : a_cfg (maybe_resume (with_buf (take k (x :: r)) a)) = a_cfg a).
    { unfold maybe_resume. destruct (_ && _); reflexivity. }
    destruct (a_buf (maybe_resume (with_buf (take k (x :: r)) a))) eqn:B1.
    + destruct (w_closing (a_w (maybe_resume (with_buf (take k (x :: r)) a)))); inversion H; subst.
      * split; [|split; [exact C1|intros t []]]. apply J_set_dead; auto.
      * split; [auto|split; [exact C1|intros t []]].
    + inversion H; subst. split; [auto|split; [exact C1|intros t []]].
  - destruct (a_dead a); [discriminate|]. inversion H; subst. split; [apply J_dead_state; auto|split; [reflexivity|intros t []]].
  - destruct (w_closing (a_w a)); [discriminate|]. inversion H; subst. split; [|split; [destruct (a_buf a); reflexivity|intros t []]].
    destruct (a_buf a) eqn:B.
    + apply J_set_dead; auto.
    + apply J_lift; auto.
  - destruct (a_dead a) eqn:D; simpl in H; [|discriminate]. destruct (w_lost (a_w a)); simpl in H; [discriminate|].
    inversion H; subst. split; [|split; [reflexivity|intros t []]].
    assert (B : a_buf a = []) by (apply (j_dead a Ja D)).
    destruct Ja as [Jc Jd Jp Jpp Jw Jl Jr]. constructor; simpl; auto; try congruence.
    intros t f _. rewrite B. reflexivity.
  - unfold lift in H. destruct (wfc_step (a_w a) (WCancel t)) as [[w' o']|] eqn:S; [|discriminate]. inversion H; subst.
    destruct (lift_common _ (WCancel t) _ _ Ja I S) as [A B]. split; [exact A|split; [simpl; auto|exact B]].
  - unfold lift in H. destruct (wfc_step (a_w a) (WCallback f)) as [[w' o']|] eqn:S; [|discriminate]. inversion H; subst.
    destruct (lift_common _ (WCallback f) _ _ Ja I S) as [A B]. split; [exact A|split; [simpl; auto|exact B]].
  - unfold lift in H. destruct (wfc_step (a_w a) (WWake t)) as [[w' o']|] eqn:S; [|discriminate]. inversion H; subst.
    destruct (lift_common _ (WWake t) _ _ Ja I S) as [A B]. split; [exact A|split; [simpl; auto|exact B]].
Qed.

Lemma J_run : forall ls a a', J a -> Forall (ok_label (a_cfg a)) ls -> ad_run a ls = Some a' -> J a' /\ a_cfg a' = a_cfg a.
Proof.
  induction ls as [|l ls IH]; simpl; intros a a' Ja F H.
  - inversion H; subst; auto.
  - inversion F; subst. destruct (ad_step a l) as [[a1 o]|] eqn:E; [|discriminate].
    destruct (J_step _ _ _ _ Ja H2 E) as [J1 [C1 _]].
    destruct (IH a1 a' J1) as [A B]; auto.
    + rewrite C1. auto.
    + split; auto. congruence.
Qed.

Lemma send_returns_only_when_flushed_proof :
  forall c n ls a, Hc c -> Forall (ok_label c) ls -> ad_run (ad_init c n) ls = Some a ->
    forall l a' o t, ok_label c l -> ad_step a l = Some (a', o) -> In (ODrain t ROk) o -> bytes_of t (a_buf a') = 0.
Proof.
  intros c n ls a H F R l a' o t OK S I.
  destruct (J_run ls (ad_init c n) a (J_init c n H) F R) as [Ja Ca]. simpl in Ca.
  rewrite <- Ca in OK. destruct (J_step _ _ _ _ Ja OK S) as [_ [_ B]]. auto.
Qed.

(* F6: writelines() without _maybe_pause_protocol (CPython 3.12.1): the send returns with a byte in user space *)
Lemma send_unflushed_writelines_refuted_proof :
  exists a' o, ad_step (ad_init (mkCfg 0 0 false) 1) (ASendIter 0 3 2) = Some (a', o) /\
               In (ODrain 0 ROk) o /\ bytes_of 0 (a_buf a') = 1.
Proof. eexists. eexists. split; [vm_compute; reflexivity|]. split; [left; reflexivity|reflexivity]. Qed.

(* F5: a non-zero high-water mark (asyncio's default is 64 KiB; 4 here, the marks are unary numbers): the datagram
   send returns with the datagram in user space *)
Lemma send_unflushed_datagram_refuted_proof :
  exists a' o, ad_step (ad_init (mkCfg 4 1 true) 1) (ASendTo 0 3 false) = Some (a', o) /\
               In (ODrain 0 ROk) o /\ bytes_of 0 (a_buf a') = 3.
Proof. eexists. eexists. split; [vm_compute; reflexivity|]. split; [left; reflexivity|reflexivity]. Qed.
