(* SendSerial with the client lock: nobody ever gets BusyResourceError, nothing crashes (RuntimeError of the lock /
   AssertionError of the guard), for every label sequence.  Joint invariant: a task suspended in the transport is the
   lock holder (and conversely), the lock invariant of Proofs/C12_fairlock.v, and W of Proofs/C12_wire.v. *)
From Coq Require Import List Arith Bool ZArith Lia.
From EN Require Import Lib.Bytes Conc.FairLock Conc.AsyncioLock Conc.Guard Conc.SendSerial Proofs.C12_fairlock Proofs.C12_wire.
Import ListNotations.

Definition is_wait (x : tstate) : Prop := exists c r, x = TWait c r.
Definition tids (l : fl) : list tid := map w_tid (fl_waiters l).

Record LI (s : st) : Prop := mkLI {
  l_use : s_lk s = LFair;
  l_inv : fl_inv (s_lock s);
  l_send : forall u todo rest, tk s u = Some (TSend todo rest) -> In u (fl_holders (s_lock s));
  l_hold : forall u, In u (fl_holders (s_lock s)) -> exists todo rest, tk s u = Some (TSend todo rest);
  l_wait : forall u, In u (tids (s_lock s)) -> exists c r, tk s u = Some (TWait c r);
  l_crash : s_crashed s = false;
  l_nobusy : forall u, tk s u <> Some (TDone c_busy)
}.

(* t holds the lock and is running (inside a step) *)
Record LH (t : tid) (s : st) : Prop := mkLH {
  h_use : s_lk s = LFair;
  h_inv : fl_inv (s_lock s);
  h_hold : fl_holders (s_lock s) = [t];
  h_run : tk s t = Some TRun;
  h_nosend : forall u todo rest, tk s u <> Some (TSend todo rest);
  h_wait : forall u, In u (tids (s_lock s)) -> exists c r, tk s u = Some (TWait c r);
  h_crash : s_crashed s = false;
  h_nobusy : forall u, tk s u <> Some (TDone c_busy)
}.

Lemma LI_ext : forall s s', s_lk s' = s_lk s -> s_lock s' = s_lock s -> s_tasks s' = s_tasks s ->
  s_crashed s' = s_crashed s -> LI s -> LI s'.
Proof.
  intros s s' E1 E2 E3 E4 [H1 H2 H3 H4 H5 H6 H7]. constructor; unfold tk in *; rewrite ?E1, ?E2, ?E3, ?E4; auto.
Qed.

Lemma LI_init : forall progs, LI (st_init LFair progs).
Proof.
  intros. constructor; simpl; auto; unfold tk, tids; simpl.
  - apply fl_inv_init.
  - intros u todo rest H. rewrite nth_error_map in H. destruct (nth_error progs u); discriminate.
  - intros u [].
  - intros u [].
  - intros u H. rewrite nth_error_map in H. destruct (nth_error progs u); discriminate.
Qed.

(* ---- facts about the lock operations *)

Lemma holder_locked : forall l t, fl_inv l -> In t (fl_holders l) -> fl_locked l = true /\ fl_holders l = [t].
Proof.
  intros l t I H. destruct I as [Ih _ _ _ _]. destruct (fl_locked l).
  - destruct Ih as [t0 E]. rewrite E in H. destruct H as [H|[]]. subst. auto.
  - rewrite Ih in H. destruct H.
Qed.

Lemma release_facts : forall l t, fl_inv l -> In t (fl_holders l) ->
  exists l', fl_release t l = Some l' /\ fl_inv l' /\ fl_holders l' = [] /\ tids l' = tids l.
Proof.
  intros l t I H. destruct (holder_locked l t I H) as [L E].
  unfold fl_release. rewrite L. eexists. split; [reflexivity|]. split; [|split].
  - eapply fl_release_inv; eauto. unfold fl_release. rewrite L. reflexivity.
  - simpl. rewrite E. apply remove_tid_single.
  - unfold tids. simpl. apply wake_tids.
Qed.

Lemma resume_facts : forall l t l', fl_inv l -> fl_resume t l = Some l' ->
  fl_holders l = [] /\ fl_holders l' = [t] /\ fl_inv l' /\ (forall u, In u (tids l') -> In u (tids l) /\ u <> t).
Proof.
  intros l t l' I H. assert (I' : fl_inv l') by (eapply fl_resume_inv; eauto).
  unfold fl_resume in H. destruct (find_waiter t (fl_waiters l)) as [w|] eqn:F; [|discriminate].
  destruct (w_set w) eqn:S; [|discriminate]. inversion H; subst; clear H.
  assert (T : forall u, In u (map w_tid (remove_waiter t (fl_waiters l))) -> In u (tids l) /\ u <> t).
  { intros u Hu. apply remove_waiter_tids in Hu. auto. }
  destruct I as [Ih Is Iw Ind Id].
  destruct (fl_waiters l) as [|w0 r] eqn:EW; [discriminate|]. destruct Is as [Is1 Is2].
  assert (w = w0) by (eapply set_waiter_is_head; eauto). subst w0.
  specialize (Is1 S). rewrite Is1 in Ih. split; [auto|]. split; [simpl; rewrite Ih; reflexivity|]. split; [auto|].
  intros u Hu. apply T. exact Hu.
Qed.

Lemma cancel_facts : forall l t l', fl_cancel t l = Some l' ->
  fl_holders l' = fl_holders l /\ (forall u, In u (tids l') -> In u (tids l) /\ u <> t).
Proof.
  intros l t l' H. unfold fl_cancel in H. destruct (find_waiter t (fl_waiters l)) as [w|]; [|discriminate].
  inversion H; subst; clear H. split; [reflexivity|]. intros u Hu. unfold tids in *. simpl in Hu.
  destruct (fl_locked l); [|rewrite wake_tids in Hu]; apply remove_waiter_tids in Hu; auto.
Qed.

Lemma idle_of_LI : forall s t, LI s -> tk s t = Some TRun -> fl_idle t (s_lock s) = true.
Proof.
  intros s t L Ht. unfold fl_idle, fl_waiting. apply andb_true_iff. split; apply negb_true_iff.
  - destruct (existsb (is_tid t) (fl_waiters (s_lock s))) eqn:E; auto.
    apply existsb_is_tid_In in E. destruct (l_wait s L t E) as [c [r C]]. congruence.
  - destruct (mem_tid t (fl_holders (s_lock s))) eqn:E; auto.
    apply mem_tid_In in E. destruct (l_hold s L t E) as [a [b C]]. congruence.
Qed.

(* ---- plain task replacement *)

Lemma LI_set_plain : forall s t x y, LI s -> tk s t = Some x -> ~ is_send x -> ~ is_wait x -> ~ is_send y ->
  y <> TDone c_busy -> LI (set_task t y s).
Proof.
  intros s t x y [H1 H2 H3 H4 H5 H6 H7] Ht Nx Wx Ny Nb. constructor; simpl; auto; unfold tk in *; simpl.
  - intros u todo rest H. apply upd_cases in H. destruct H as [[_ E]|[_ E]]; [|eauto].
    exfalso. apply Ny. subst. unfold is_send; eauto.
  - intros u Hu. destruct (H4 u Hu) as [a [b E]]. exists a, b. rewrite upd_neq; auto.
    intros C. subst u. rewrite Ht in E. inversion E. subst. apply Nx. unfold is_send; eauto.
  - intros u Hu. destruct (H5 u Hu) as [a [b E]]. exists a, b. rewrite upd_neq; auto.
    intros C. subst u. rewrite Ht in E. inversion E. subst. apply Wx. unfold is_wait; eauto.
  - intros u H. apply upd_cases in H. destruct H as [[_ E]|[_ E]]; [congruence|]. eapply H7; eauto.
Qed.

(* ---- the send itself, lock held by the running task *)

Lemma gexit_true : forall s, s_guard s = true -> gexit s = with_guard false s.
Proof. intros s G. unfold gexit, guard_exit. rewrite G. reflexivity. Qed.

Lemma guard_free : forall s, W s -> (forall u todo rest, tk s u <> Some (TSend todo rest)) -> s_guard s = false.
Proof.
  intros s HW N. destruct (s_guard s) eqn:G; auto. destruct (w_busy s HW G) as [u [a [b E]]]. exfalso. eapply N; eauto.
Qed.

(* releasing the lock held by t, tasks untouched *)
Lemma LI_after_release : forall s t, s_lk s = LFair -> fl_inv (s_lock s) -> In t (fl_holders (s_lock s)) ->
  (forall u todo rest, tk s u <> Some (TSend todo rest)) ->
  (forall u, In u (tids (s_lock s)) -> exists c r, tk s u = Some (TWait c r)) ->
  s_crashed s = false -> (forall u, tk s u <> Some (TDone c_busy)) ->
  LI (unlock t s) /\ tk (unlock t s) = tk s.
Proof.
  intros s t U I H NS WT C NB. destruct (release_facts _ _ I H) as [l' [R [I' [Hh Ht]]]].
  unfold unlock. rewrite U, R. split; [|reflexivity].
  constructor; simpl; auto; unfold tk in *; simpl.
  - intros u a b E. exfalso. eapply NS; eauto.
  - rewrite Hh. intros u [].
  - rewrite Ht. auto.
Qed.

Lemma L_send_body : forall t p rest k s, LH t s -> W s ->
  (forall s', LI s' -> W s' -> tk s' t = Some TRun -> LI (k s')) -> LI (send_body t p rest k s).
Proof.
  intros t p rest k s [U I Hh Hr NS WT C NB] HW Hk.
  assert (G : s_guard s = false) by (apply guard_free; auto).
  assert (WB := W_send_body t p rest (fun x => x) s HW Hr (fun s' A _ => A)).
  unfold send_body, guard_enter in *. rewrite G in *.
  destruct p as [|pc more].
  - (* the send does not suspend *)
    unfold finish_send in *.
    set (s1 := gexit (close_seg SgComplete (open_seg t [] (with_guard true s)))) in *.
    assert (E1 : s1 = with_guard false (close_seg SgComplete (open_seg t [] (with_guard true s)))).
    { unfold s1. apply gexit_true. reflexivity. }
    assert (X : LI (unlock t s1) /\ tk (unlock t s1) = tk s1).
    { apply LI_after_release; rewrite E1; simpl; auto. rewrite Hh. simpl; auto. }
    destruct X as [X1 X2]. apply Hk; auto. rewrite X2, E1. exact Hr.
  - (* first piece written, the task is suspended inside the transport holding lock and guard *)
    constructor; simpl; auto; unfold tk in *; simpl.
    + intros u a b E. apply upd_cases in E. destruct E as [[Eu _]|[_ E]].
      * subst. rewrite Hh. simpl; auto.
      * exfalso. eapply NS; eauto.
    + rewrite Hh. intros u [Eu|[]]. subst u. exists more, rest. eapply upd_eq; eauto.
    + intros u Hu. destruct (WT u Hu) as [a [b E]]. exists a, b. rewrite upd_neq; auto. intros Eq. subst. congruence.
    + intros u E. apply upd_cases in E. destruct E as [[_ E]|[_ E]]; [discriminate|]. eapply NB; eauto.
Qed.

Lemma LH_nosend_from_LI : forall s, LI s -> fl_holders (s_lock s) = [] -> forall u a b, tk s u <> Some (TSend a b).
Proof. intros s L E u a b C. apply (l_send s L) in C. rewrite E in C. destruct C. Qed.

Lemma c_ok_not_busy : TDone c_ok <> TDone c_busy. Proof. discriminate. Qed.
Lemma c_cancelled_not_busy : TDone c_cancelled <> TDone c_busy. Proof. discriminate. Qed.
Lemma c_error_not_busy : TDone c_error <> TDone c_busy. Proof. discriminate. Qed.

Lemma not_send_run : ~ is_send TRun. Proof. intros [a [b C]]; discriminate. Qed.
Lemma not_wait_run : ~ is_wait TRun. Proof. intros [a [b C]]; discriminate. Qed.
Lemma not_send_done : forall c, ~ is_send (TDone c). Proof. intros c [a [b C]]; discriminate. Qed.
Lemma not_send_wait : forall c r, ~ is_send (TWait c r). Proof. intros c r [a [b C]]; discriminate. Qed.
Lemma not_send_new : forall p, ~ is_send (TNew p). Proof. intros p [a [b C]]; discriminate. Qed.
Lemma not_wait_new : forall p, ~ is_wait (TNew p). Proof. intros p [a [b C]]; discriminate. Qed.

Lemma L_run_task : forall prog t s, LI s -> W s -> tk s t = Some TRun -> LI (run_task t prog s).
Proof.
  induction prog as [|p rest IH]; intros t s L HW Ht; simpl.
  - eapply LI_set_plain; eauto using not_send_run, not_wait_run, not_send_done, c_ok_not_busy.
  - assert (Idle := idle_of_LI s t L Ht). unfold acquire. rewrite (l_use s L).
    destruct (fl_acquire t (s_lock s)) as [l got] eqn:A.
    assert (I' : fl_inv l) by (eapply fl_acquire_inv; eauto using l_inv).
    unfold fl_acquire in A.
    destruct (fl_locked (s_lock s) || negb (is_nil (fl_waiters (s_lock s)))) eqn:C; inversion A; subst; clear A.
    + (* queue behind the others *)
      destruct L as [H1 H2 H3 H4 H5 H6 H7]. constructor; simpl; auto; unfold tk, tids in *; simpl in *.
      * intros u a b E. apply upd_cases in E. destruct E as [[_ E]|[_ E]]; [discriminate|eauto].
      * intros u Hu. destruct (H4 u Hu) as [a [b E]]. exists a, b. rewrite upd_neq; auto. intros Eq; subst; congruence.
      * intros u Hu. rewrite map_app, in_app_iff in Hu. simpl in Hu. destruct Hu as [Hu|[Hu|[]]].
        -- destruct (H5 u Hu) as [a [b E]]. exists a, b. rewrite upd_neq; auto. intros Eq; subst; congruence.
        -- subst u. exists p, rest. eapply upd_eq; eauto.
      * intros u E. apply upd_cases in E. destruct E as [[_ E]|[_ E]]; [discriminate|]. eapply H7; eauto.
    + (* fast path: the lock was free and nobody queued *)
      apply orb_false_iff in C. destruct C as [Cl Cw]. apply negb_false_iff in Cw.
      assert (Hh : fl_holders (s_lock s) = []).
      { destruct (l_inv s L) as [Ih _ _ _ _]. rewrite Cl in Ih. exact Ih. }
      assert (Ew : fl_waiters (s_lock s) = []) by (destruct (fl_waiters (s_lock s)); [reflexivity|discriminate]).
      apply L_send_body.
      * constructor; simpl; auto; try (apply (l_use s L)); try (apply (l_crash s L)); try (apply (l_nobusy s L)).
        -- rewrite Hh. reflexivity.
        -- exact (LH_nosend_from_LI s L Hh).
        -- unfold tids. simpl. rewrite Ew. intros u [].
      * apply W_with_lock; auto.
      * intros s' L' W' T'. apply IH; auto.
Qed.

(* the send of t ends (normally or not): guard left, lock released; y is what the task becomes *)
Lemma L_end_send : forall s t todo rest c y, LI s -> W s -> tk s t = Some (TSend todo rest) -> ~ is_send y -> y <> TDone c_busy ->
  LI (set_task t y (unlock t (gexit (close_seg c s)))).
Proof.
  intros s t todo rest c y L HW Ht Ny Nb.
  destruct (w_send s HW t todo rest Ht) as [G _].
  assert (Hin : In t (fl_holders (s_lock s))) by (eapply l_send; eauto).
  destruct (holder_locked _ _ (l_inv s L) Hin) as [_ Hh].
  destruct (release_facts _ _ (l_inv s L) Hin) as [l' [R [I' [Hh' Ht']]]].
  rewrite gexit_true by exact G. unfold unlock. simpl. rewrite (l_use s L). simpl. rewrite R.
  destruct L as [H1 H2 H3 H4 H5 H6 H7]. constructor; simpl; auto; unfold tk in *; simpl.
  - intros u a b E. exfalso. apply upd_cases in E. destruct E as [[_ E]|[N E]].
    + apply Ny. subst. unfold is_send; eauto.
    + apply H3 in E. rewrite Hh in E. destruct E as [E|[]]. congruence.
  - rewrite Hh'. intros u [].
  - rewrite Ht'. intros u Hu. destruct (H5 u Hu) as [a [b E]]. exists a, b. rewrite upd_neq; auto.
    intros Eq. subst. congruence.
  - intros u E. apply upd_cases in E. destruct E as [[_ E]|[_ E]]; [congruence|]. eapply H7; eauto.
Qed.

Lemma upd_upd : forall {X} (l : list X) t x y, upd t x (upd t y l) = upd t x l.
Proof. induction l as [|a l IH]; intros t x y; destruct t; simpl; auto. rewrite IH. reflexivity. Qed.

Lemma L_step : forall s l s', LI s -> W s -> s_next s l = Some s' -> LI s'.
Proof.
  intros s l s' L HW H. destruct l as [t|t|t|t|t|t]; simpl in H; unfold get_task in H;
    destruct (nth_error (s_tasks s) t) as [x|] eqn:E; try discriminate.
  - (* SStart *)
    destruct x; try discriminate. inversion H; subst. apply L_run_task.
    + eapply LI_set_plain; eauto using not_send_new, not_wait_new, not_send_run. discriminate.
    + apply W_set_plain; auto using not_send_run. intros y Hy. unfold tk in Hy. rewrite E in Hy. inversion Hy. apply not_send_new.
    + unfold tk. simpl. eapply upd_eq; eauto.
  - (* SResume *)
    destruct x as [| |p rest| |]; try discriminate. unfold lk_resume in H. simpl in H. rewrite (l_use s L) in H.
    destruct (fl_resume t (s_lock s)) as [l|] eqn:R; [|discriminate]. simpl in H.
    inversion H; subst. destruct (resume_facts _ _ _ (l_inv s L) R) as [Hh [Hh' [I' T]]].
    apply L_send_body.
    + constructor; simpl; auto; try (apply (l_use s L)); try (apply (l_crash s L)).
      * unfold tk. simpl. eapply upd_eq; eauto.
      * intros u a b C. unfold tk in C. simpl in C. apply upd_cases in C. destruct C as [[_ C]|[_ C]]; [discriminate|].
        eapply (LH_nosend_from_LI s L Hh); eauto.
      * intros u Hu. destruct (T u Hu) as [Hu1 Hu2]. destruct (l_wait s L u Hu1) as [a [b C]]. exists a, b.
        unfold tk. simpl. rewrite upd_neq; auto.
      * intros u C. unfold tk in C. simpl in C. apply upd_cases in C. destruct C as [[_ C]|[_ C]]; [discriminate|].
        eapply (l_nobusy s L); eauto.
    + apply W_with_lock. apply W_set_plain; auto using not_send_run.
      intros y Hy. unfold tk in Hy. rewrite E in Hy. inversion Hy. apply not_send_wait.
    + intros. apply L_run_task; auto.
  - (* SWrite *)
    destruct x as [| | |todo rest|]; try discriminate. destruct todo as [|pc more]; inversion H; subst.
    + destruct (W_finish s t rest HW E) as [A [B _]]. apply L_run_task; auto.
      unfold finish_send.
      assert (X := L_end_send s t [] rest SgComplete TRun L HW E not_send_run ltac:(discriminate)).
      (* same state: the task entry was set to TRun before instead of after *)
      eapply LI_ext; [| | | |exact X]; unfold unlock, gexit, guard_exit, close_seg, set_task, with_tasks; simpl;
        destruct (s_guard s); simpl; rewrite ?(l_use s L); simpl; destruct (fl_release t (s_lock s)); simpl; auto;
        try (symmetry; apply (l_use s L)).
    + destruct L as [H1 H2 H3 H4 H5 H6 H7]. constructor; simpl; auto; unfold tk in *; simpl.
      * intros u a b C. apply upd_cases in C. destruct C as [[Eu _]|[_ C]]; [subst; eauto|eauto].
      * intros u Hu. destruct (H4 u Hu) as [a [b C]]. destruct (Nat.eq_dec u t).
        -- subst. exists more, rest. eapply upd_eq; eauto.
        -- exists a, b. rewrite upd_neq; auto.
      * intros u Hu. destruct (H5 u Hu) as [a [b C]]. exists a, b. rewrite upd_neq; auto. intros Eq; subst; congruence.
      * intros u C. apply upd_cases in C. destruct C as [[_ C]|[_ C]]; [discriminate|]. eapply H7; eauto.
  - (* SFail *)
    destruct x as [| | |todo rest|]; try discriminate. inversion H; subst. unfold abort_send.
    eapply L_end_send; eauto using not_send_done, c_error_not_busy.
  - (* SCancel *)
    destruct x as [prog| |p rest|todo rest|]; try discriminate.
    + inversion H; subst. eapply LI_set_plain; eauto using not_send_new, not_wait_new, not_send_done, c_cancelled_not_busy.
    + unfold lk_cancel in H. rewrite (l_use s L) in H.
      destruct (fl_cancel t (s_lock s)) as [l|] eqn:C; [|discriminate]. simpl in H. inversion H; subst.
      destruct (cancel_facts _ _ _ C) as [Hh T].
      assert (I' : fl_inv l) by (eapply fl_cancel_inv; eauto using l_inv).
      destruct L as [H1 H2 H3 H4 H5 H6 H7]. constructor; simpl; auto; unfold tk in *; simpl.
      * rewrite Hh. intros u a b X. apply upd_cases in X. destruct X as [[_ X]|[_ X]]; [discriminate|eauto].
      * rewrite Hh. intros u Hu. destruct (H4 u Hu) as [a [b X]]. exists a, b. rewrite upd_neq; auto. intros Eq; subst; congruence.
      * intros u Hu. destruct (T u Hu) as [Hu1 Hu2]. destruct (H5 u Hu1) as [a [b X]]. exists a, b. rewrite upd_neq; auto.
      * intros u X. apply upd_cases in X. destruct X as [[_ X]|[_ X]]; [discriminate|]. eapply H7; eauto.
    + inversion H; subst. unfold abort_send. eapply L_end_send; eauto using not_send_done, c_cancelled_not_busy.
  - (* SFutCancel: nothing happens with the FairLock *)
    destruct x; try discriminate. unfold lk_futcancel in H. rewrite (l_use s L) in H. inversion H; subst. exact L.
Qed.

Lemma LW_run : forall ls s s', LI s -> W s -> s_run s ls = Some s' -> LI s' /\ W s'.
Proof.
  induction ls as [|l ls IH]; simpl; intros s s' L HW H.
  - inversion H; subst; auto.
  - destruct (s_next s l) as [s1|] eqn:E; [|discriminate]. eapply IH; [| |eauto].
    + eapply L_step; eauto.
    + eapply W_step; eauto.
Qed.

Lemma guard_never_busy_under_lock_proof :
  forall progs ls s, s_run (st_init LFair progs) ls = Some s ->
    (forall t, nth_error (s_tasks s) t <> Some (TDone c_busy)) /\ s_crashed s = false /\
    (forall t todo rest, nth_error (s_tasks s) t = Some (TSend todo rest) -> fl_holders (s_lock s) = [t] /\ s_guard s = true).
Proof.
  intros progs ls s R. destruct (LW_run ls _ s (LI_init progs) (W_init LFair progs) R) as [L HW].
  split; [apply (l_nobusy s L)|]. split; [apply (l_crash s L)|].
  intros t todo rest E. split.
  - assert (Hin : In t (fl_holders (s_lock s))) by (eapply l_send; eauto).
    apply (holder_locked _ _ (l_inv s L) Hin).
  - apply (w_send s HW t todo rest E).
Qed.
