(* SendSerial: the wire is the concatenation of the segments (whole packets, or a prefix for an aborted / running send),
   for every label sequence, with or without the client lock.  The ResourceGuard alone gives non-interleaving. *)
From Coq Require Import List Arith Bool ZArith Lia.
From EN Require Import Lib.Bytes Conc.FairLock Conc.AsyncioLock Conc.Guard Conc.SendSerial.
Import ListNotations.

Definition tk (s : st) (t : tid) : option tstate := nth_error (s_tasks s) t.
Definition not_active (g : seg) : Prop := sg_st g <> SgActive.
Definition seg_ok (g : seg) : Prop :=
  sg_written g <= length (sg_pkt g) /\ (sg_st g = SgComplete -> sg_written g = length (sg_pkt g)).
Definition is_send (x : tstate) : Prop := exists todo rest, x = TSend todo rest.

Record W (s : st) : Prop := mkWI {
  w_wire : s_wire s = concat (map seg_bytes (rev (s_segs s)));
  w_ok : Forall seg_ok (s_segs s);
  w_tail : Forall not_active (tl (s_segs s));
  w_send : forall t todo rest, tk s t = Some (TSend todo rest) ->
           s_guard s = true /\
           exists g r, s_segs s = g :: r /\ sg_owner g = t /\ sg_st g = SgActive /\
                       skipn (sg_written g) (sg_pkt g) = todo;
  w_idle : s_guard s = false -> Forall not_active (s_segs s);
  w_busy : s_guard s = true -> exists t todo rest, tk s t = Some (TSend todo rest)
}.

(* ---- lists *)

Lemma upd_cases : forall {X} (l : list X) t x u y,
  nth_error (upd t x l) u = Some y -> (u = t /\ y = x) \/ (u <> t /\ nth_error l u = Some y).
Proof.
  induction l as [|a l IH]; intros t x u y H.
  - destruct t, u; simpl in H; discriminate.
  - destruct t as [|t]; destruct u as [|u]; simpl in *.
    + inversion H; auto.
    + right; split; auto.
    + right; split; auto.
    + apply IH in H. destruct H as [[E1 E2]|[N E]]; [left|right]; split; auto.
Qed.

Lemma upd_eq : forall {X} (l : list X) t x y, nth_error l t = Some y -> nth_error (upd t x l) t = Some x.
Proof.
  induction l as [|a l IH]; intros t x y H; destruct t; simpl in *; try discriminate; auto.
  eapply IH; eauto.
Qed.

Lemma upd_neq : forall {X} (l : list X) t x u, u <> t -> nth_error (upd t x l) u = nth_error l u.
Proof.
  induction l as [|a l IH]; intros t x u N; destruct t, u; simpl; auto; try congruence.
Qed.

Lemma skipn_cons_S : forall {X} w (l : list X) x m, skipn w l = x :: m -> skipn (S w) l = m.
Proof.
  induction w; intros l x m H; destruct l; simpl in *; try discriminate.
  - inversion H; auto.
  - eapply IHw; eauto.
Qed.

Lemma firstn_S_skipn : forall {X} w (l : list X) x m, skipn w l = x :: m -> firstn (S w) l = firstn w l ++ [x].
Proof.
  induction w; intros l x m H; destruct l; simpl in *; try discriminate.
  - inversion H; auto.
  - f_equal. eapply IHw; eauto.
Qed.

Lemma skipn_cons_lt : forall {X} w (l : list X) x m, skipn w l = x :: m -> w < length l.
Proof.
  induction w; intros l x m H; destruct l; simpl in *; try discriminate; try lia.
  apply IHw in H. lia.
Qed.

Lemma skipn_nil_ge : forall {X} w (l : list X), skipn w l = [] -> length l <= w.
Proof.
  induction w; intros l H; destruct l; simpl in *; try discriminate; try lia.
  apply IHw in H. lia.
Qed.

Lemma concat_rev_cons : forall (g : seg) r,
  concat (map seg_bytes (rev (g :: r))) = concat (map seg_bytes (rev r)) ++ seg_bytes g.
Proof. intros. simpl. rewrite map_app, concat_app. simpl. rewrite app_nil_r. reflexivity. Qed.

(* ---- W does not look at the lock, nor at the crash flag *)

Lemma W_ext : forall s s', s_guard s' = s_guard s -> s_tasks s' = s_tasks s -> s_wire s' = s_wire s ->
  s_segs s' = s_segs s -> W s -> W s'.
Proof.
  intros s s' Eg Et Ew Es [H1 H2 H3 H4 H5 H6]. constructor; unfold tk in *; rewrite ?Eg, ?Et, ?Ew, ?Es; auto.
Qed.

Lemma W_with_lock : forall l s, W s -> W (with_lock l s).
Proof. intros. apply (W_ext s); auto. Qed.

(* the lock operations leave guard, tasks, wire and segments alone *)
Definition same_core (s s1 : st) : Prop :=
  s_guard s1 = s_guard s /\ s_tasks s1 = s_tasks s /\ s_wire s1 = s_wire s /\ s_segs s1 = s_segs s.

Lemma W_core : forall s s1, same_core s s1 -> W s -> W s1.
Proof. intros s s1 [A [B [C D]]] H. apply (W_ext s); auto. Qed.

Lemma unlock_core : forall t s, same_core s (unlock t s).
Proof.
  intros. unfold unlock, same_core. destruct (s_lk s); auto.
  - destruct (fl_release t (s_lock s)); simpl; auto.
  - destruct (al_release t (s_alock s)); simpl; auto.
Qed.

Lemma acquire_core : forall t s, same_core s (fst (acquire t s)).
Proof.
  intros. unfold acquire, same_core. destruct (s_lk s); simpl; auto.
  - destruct (fl_acquire t (s_lock s)); simpl; auto.
  - destruct (al_acquire t (s_alock s)); simpl; auto.
Qed.

Lemma lk_resume_core : forall t s s1, lk_resume t s = Some s1 -> same_core s s1.
Proof.
  intros t s s1 H. unfold lk_resume in H. destruct (s_lk s); try discriminate.
  - destruct (fl_resume t (s_lock s)); inversion H; subst. unfold same_core; simpl; auto.
  - destruct (al_resume t (s_alock s)); inversion H; subst. unfold same_core; simpl; auto.
Qed.

Lemma lk_cancel_core : forall t s s1, lk_cancel t s = Some s1 -> same_core s s1.
Proof.
  intros t s s1 H. unfold lk_cancel in H. destruct (s_lk s); try discriminate.
  - destruct (fl_cancel t (s_lock s)); inversion H; subst. unfold same_core; simpl; auto.
  - destruct (al_cancel t (s_alock s)); inversion H; subst. unfold same_core; simpl; auto.
Qed.

Lemma lk_futcancel_core : forall t s s1, lk_futcancel t s = Some s1 -> same_core s s1.
Proof.
  intros t s s1 H. unfold lk_futcancel in H. destruct (s_lk s); try (inversion H; subst; unfold same_core; auto; fail).
  destruct (al_futcancel t (s_alock s)); inversion H; subst. unfold same_core; simpl; auto.
Qed.

Lemma W_unlock : forall t s, W s -> W (unlock t s).
Proof. intros t s H. apply (W_core s); auto. apply unlock_core. Qed.

Lemma tk_unlock : forall t s u, tk (unlock t s) u = tk s u.
Proof. intros. unfold tk. destruct (unlock_core t s) as [_ [A _]]. rewrite A. reflexivity. Qed.

Lemma W_init : forall ul progs, W (st_init ul progs).
Proof.
  intros. constructor; simpl; auto; unfold tk; simpl.
  - intros t todo rest H. exfalso. rewrite nth_error_map in H. destruct (nth_error progs t); discriminate.
  - discriminate.
Qed.

(* a task that is not sending is replaced by a state that is not sending *)
Lemma W_set_plain : forall s t x, W s -> ~ is_send x -> (forall y, tk s t = Some y -> ~ is_send y) -> W (set_task t x s).
Proof.
  intros s t x [H1 H2 H3 H4 H5 H6] Hx Ht. constructor; simpl; auto; unfold tk in *; simpl.
  - intros u todo rest H. apply upd_cases in H. destruct H as [[_ E]|[_ E]]; [|eauto].
    exfalso. apply Hx. subst. unfold is_send. eauto.
  - intros G. destruct (H6 G) as [u [todo [rest E]]]. exists u, todo, rest.
    rewrite upd_neq; auto. intros C. subst u. eapply Ht; eauto. unfold is_send; eauto.
Qed.

(* ---- the composite operations *)

Lemma W_finish : forall s t rest, W s -> tk s t = Some (TSend [] rest) ->
  W (finish_send t (set_task t TRun s)) /\ tk (finish_send t (set_task t TRun s)) t = Some TRun
  /\ s_guard (finish_send t (set_task t TRun s)) = false.
Proof.
  intros s t rest HW Ht. destruct (w_send s HW t [] rest Ht) as [G [g [r [Es [Eo [Ea Ek]]]]]].
  unfold finish_send. split; [|split].
  - apply W_unlock. unfold gexit, close_seg, guard_exit. simpl. rewrite G. simpl.
    destruct HW as [H1 H2 H3 H4 H5 H6]. rewrite Es in *. simpl in *.
    inversion H2; subst. destruct H7 as [Hle Hc].
    constructor; simpl; auto; unfold tk in *; simpl.
    + rewrite H1. rewrite !map_app. unfold seg_bytes. simpl. reflexivity.
    + constructor; auto. split; simpl; auto. intros _. apply skipn_nil_ge in Ek. lia.
    + intros u todo rest' H. exfalso. apply upd_cases in H. destruct H as [[_ E]|[N E]]; [discriminate|].
      apply H4 in E. destruct E as [_ [g' [r' [E1 [E2 _]]]]]. inversion E1; subst. congruence.
    + intros _. constructor; auto. unfold not_active. simpl. discriminate.
    + discriminate.
  - rewrite tk_unlock. unfold gexit, guard_exit. simpl. rewrite G. unfold tk. simpl. eapply upd_eq; eauto.
  - destruct (unlock_core t (gexit (close_seg SgComplete (set_task t TRun s)))) as [A _]. rewrite A.
    unfold gexit, guard_exit. simpl. rewrite G. reflexivity.
Qed.

Lemma unlock_proj : forall t x, s_guard (unlock t x) = s_guard x /\ s_tasks (unlock t x) = s_tasks x /\
  s_wire (unlock t x) = s_wire x /\ s_segs (unlock t x) = s_segs x.
Proof. intros. apply unlock_core. Qed.

Lemma W_abort : forall s t todo rest c, W s -> tk s t = Some (TSend todo rest) -> W (abort_send t c s).
Proof.
  intros s t todo rest c HW Ht. destruct (w_send s HW t todo rest Ht) as [G [g [r [Es [Eo [Ea Ek]]]]]].
  unfold abort_send.
  destruct (unlock_proj t (gexit (close_seg SgAborted s))) as [P1 [P2 [P3 P4]]].
  apply (W_ext (set_task t (TDone c) (gexit (close_seg SgAborted s)))); simpl; auto; try congruence.
  unfold gexit, close_seg, guard_exit. simpl. rewrite G. simpl.
  destruct HW as [H1 H2 H3 H4 H5 H6]. rewrite Es in *. simpl in *.
  inversion H2; subst. destruct H7 as [Hle Hc].
  constructor; simpl; auto; unfold tk in *; simpl.
  - rewrite H1. rewrite !map_app. unfold seg_bytes. simpl. reflexivity.
  - constructor; auto. split; simpl; auto. discriminate.
  - intros u todo' rest' H. exfalso. apply upd_cases in H. destruct H as [[_ E]|[N E]]; [discriminate|].
    apply H4 in E. destruct E as [_ [g' [r' [E1 [E2 _]]]]]. inversion E1; subst. congruence.
  - intros _. constructor; auto. unfold not_active. simpl. discriminate.
  - discriminate.
Qed.

Lemma W_write : forall s t pc more rest, W s -> tk s t = Some (TSend (pc :: more) rest) ->
  W (set_task t (TSend more rest) (write_piece pc s)).
Proof.
  intros s t pc more rest HW Ht. destruct (w_send s HW t _ _ Ht) as [G [g [r [Es [Eo [Ea Ek]]]]]].
  destruct HW as [H1 H2 H3 H4 H5 H6]. unfold write_piece, seg_wrote. simpl. rewrite Es in *. simpl in *.
  inversion H2; subst. destruct H7 as [Hle Hc].
  constructor; simpl; auto; unfold tk in *; simpl.
  - rewrite H1. simpl. repeat rewrite map_app, concat_app. simpl. repeat rewrite app_nil_r.
    rewrite <- app_assoc. f_equal. unfold seg_bytes. cbn [sg_written sg_pkt].
    rewrite (firstn_S_skipn _ _ _ _ Ek), concat_app. simpl. rewrite app_nil_r. reflexivity.
  - constructor; auto. split; simpl.
    + apply skipn_cons_lt in Ek. lia.
    + intros C. congruence.
  - intros u todo rest' H. split; auto. apply upd_cases in H. destruct H as [[U E]|[N E]].
    + inversion E; subst. eexists. eexists. split; [reflexivity|]. simpl. repeat split; auto.
      eapply skipn_cons_S; eauto.
    + exfalso. apply H4 in E. destruct E as [_ [g' [r' [E1 [E2 _]]]]]. inversion E1; subst. congruence.
  - intros C. congruence.
  - intros _. exists (sg_owner g), more, rest. eapply upd_eq; eauto.
Qed.

Lemma W_send_body : forall t p rest k s, W s -> tk s t = Some TRun ->
  (forall s', W s' -> tk s' t = Some TRun -> W (k s')) -> W (send_body t p rest k s).
Proof.
  intros t p rest k s HW Ht Hk. unfold send_body, guard_enter. destruct (s_guard s) eqn:G.
  - apply W_set_plain.
    + apply W_unlock; auto.
    + intros [a [b C]]. discriminate.
    + intros y Hy. rewrite tk_unlock, Ht in Hy. inversion Hy. intros [a [b C]]. discriminate.
  - assert (NS : forall u todo r0, tk s u = Some (TSend todo r0) -> False).
    { intros u todo r0 H. destruct (w_send s HW u todo r0 H) as [C _]. congruence. }
    destruct HW as [H1 H2 H3 H4 H5 H6]. specialize (H5 G).
    destruct p as [|pc more].
    + apply Hk.
      * unfold finish_send. apply W_unlock. unfold gexit, guard_exit, close_seg, open_seg. simpl.
        constructor; simpl; auto; unfold tk in *; simpl.
        -- rewrite map_app, concat_app. simpl. rewrite app_nil_r. auto.
        -- constructor; auto. split; simpl; auto.
        -- intros u todo r0 H. exfalso. eapply NS; eauto.
        -- intros _. constructor; auto. unfold not_active; simpl. discriminate.
        -- discriminate.
      * unfold finish_send. rewrite tk_unlock. unfold gexit, guard_exit. simpl. exact Ht.
    + unfold write_piece, open_seg. simpl.
      constructor; simpl; auto; unfold tk in *; simpl.
      * rewrite map_app, concat_app. simpl. unfold seg_bytes at 2. simpl. repeat rewrite app_nil_r. rewrite H1. reflexivity.
      * constructor; auto. split; simpl; [lia|discriminate].
      * intros u todo r0 H. split; auto. apply upd_cases in H. destruct H as [[U E]|[N E]].
        -- inversion E; subst. eexists. eexists. split; [reflexivity|]. simpl. auto.
        -- exfalso. eapply NS; eauto.
      * discriminate.
      * intros _. exists t, more, rest. eapply upd_eq; eauto.
Qed.

Lemma W_run_task : forall prog t s, W s -> tk s t = Some TRun -> W (run_task t prog s).
Proof.
  induction prog as [|p rest IH]; intros t s HW Ht; simpl.
  - apply W_set_plain; auto.
    + intros [a [b C]]. discriminate.
    + intros y Hy. rewrite Ht in Hy. inversion Hy. intros [a [b C]]. discriminate.
  - assert (C := acquire_core t s). destruct (acquire t s) as [s1 got]. simpl in C.
    assert (W1 : W s1) by (apply (W_core s); auto).
    assert (T1 : tk s1 t = Some TRun) by (unfold tk in *; destruct C as [_ [C _]]; rewrite C; auto).
    destruct got.
    + apply W_send_body; auto.
    + apply W_set_plain; auto.
      * intros [a [b X]]. discriminate.
      * intros y Hy. rewrite T1 in Hy. inversion Hy. intros [a [b X]]. discriminate.
Qed.

Lemma W_step : forall s l s', W s -> s_next s l = Some s' -> W s'.
Proof.
  intros s l s' HW H. destruct l as [t|t|t|t|t|t]; simpl in H; unfold get_task in H;
    destruct (nth_error (s_tasks s) t) as [x|] eqn:E; try discriminate.
  - destruct x; try discriminate. inversion H; subst. apply W_run_task.
    + apply W_set_plain; auto.
      * intros [a [b C]]. discriminate.
      * intros y Hy. unfold tk in Hy. rewrite E in Hy. inversion Hy. intros [a [b C]]. discriminate.
    + unfold tk. simpl. eapply upd_eq; eauto.
  - destruct x; try discriminate. destruct (lk_resume t (set_task t TRun s)) as [s1|] eqn:R; [|discriminate].
    inversion H; subst. assert (C := lk_resume_core _ _ _ R). apply W_send_body.
    + apply (W_core (set_task t TRun s)); auto. apply W_set_plain; auto.
      * intros [a [b X]]. discriminate.
      * intros y Hy. unfold tk in Hy. rewrite E in Hy. inversion Hy. intros [a [b X]]. discriminate.
    + unfold tk. destruct C as [_ [C _]]. rewrite C. simpl. eapply upd_eq; eauto.
    + intros. apply W_run_task; auto.
  - destruct x as [| | |todo rest|]; try discriminate. destruct todo as [|pc more]; inversion H; subst.
    + destruct (W_finish s t rest HW E) as [A [B _]]. apply W_run_task; auto.
    + eapply W_write; eauto.
  - destruct x; try discriminate. inversion H; subst. eapply W_abort; eauto.
  - destruct x; try discriminate.
    + inversion H; subst. apply W_set_plain; auto.
      * intros [a [b C]]. discriminate.
      * intros y Hy. unfold tk in Hy. rewrite E in Hy. inversion Hy. intros [a [b C]]. discriminate.
    + destruct (lk_cancel t s) as [s1|] eqn:R; [|discriminate]. inversion H; subst.
      assert (C := lk_cancel_core _ _ _ R). apply W_set_plain.
      * apply (W_core s); auto.
      * intros [a [b X]]. discriminate.
      * intros y Hy. unfold tk in Hy. destruct C as [_ [C _]]. rewrite C, E in Hy. inversion Hy. intros [a [b X]]. discriminate.
    + inversion H; subst. eapply W_abort; eauto.
  - destruct x; try discriminate. apply (W_core s); auto. eapply lk_futcancel_core; eauto.
Qed.

Lemma W_run : forall ls s s', W s -> s_run s ls = Some s' -> W s'.
Proof.
  induction ls as [|l ls IH]; simpl; intros s s' HW H.
  - inversion H; subst; auto.
  - destruct (s_next s l) as [s1|] eqn:E; [|discriminate]. eapply IH; [|eauto]. eapply W_step; eauto.
Qed.

Definition all_complete (sgs : list seg) : Prop := Forall (fun g => sg_st g = SgComplete) sgs.

Lemma complete_bytes : forall sgs, Forall seg_ok sgs -> all_complete sgs ->
  map seg_bytes sgs = map (fun g => pkt_bytes (sg_pkt g)) sgs.
Proof.
  induction sgs as [|g r IH]; simpl; intros H1 H2; auto.
  inversion H1; subst. inversion H2; subst. f_equal; auto.
  destruct H3 as [_ Hc]. unfold seg_bytes, pkt_bytes. rewrite Hc by assumption. rewrite firstn_all. reflexivity.
Qed.

Lemma wire_is_concat_of_packets_proof :
  forall ul progs ls s, s_run (st_init ul progs) ls = Some s ->
    s_wire s = concat (map seg_bytes (rev (s_segs s))) /\
    (forall g, In g (s_segs s) ->
       seg_bytes g = concat (firstn (sg_written g) (sg_pkt g)) /\ sg_written g <= length (sg_pkt g) /\
       (sg_st g = SgComplete -> seg_bytes g = pkt_bytes (sg_pkt g))) /\
    Forall not_active (tl (s_segs s)) /\
    (all_complete (s_segs s) -> s_wire s = concat (map (fun g => pkt_bytes (sg_pkt g)) (rev (s_segs s)))).
Proof.
  intros ul progs ls s R. apply W_run in R; [|apply W_init]. destruct R as [H1 H2 H3 H4 H5 H6].
  split; [auto|]. split; [|split; auto].
  - intros g Hg. rewrite Forall_forall in H2. destruct (H2 g Hg) as [Hle Hc]. split; [reflexivity|]. split; auto.
    intros C. unfold seg_bytes, pkt_bytes. rewrite (Hc C), firstn_all. reflexivity.
  - intros C. rewrite H1. f_equal. apply complete_bytes.
    + apply Forall_rev. auto.
    + apply Forall_rev. auto.
Qed.
