(* The facts of the source that Conc/FairLock.v and Conc/TlsSend.v transcribe (Gen/ParamsC12.v is regenerated from /repo's
   AST on every run, fail closed): if one of them stops being true the theorems are about another program and this
   file stops compiling. *)
From EN Require Import Gen.ParamsC12.

Lemma models_transcribe_the_source_proof :
  fairlock_fast_path_checks_queue = true /\ fairlock_leave_removes_own_waiter = true /\
  fairlock_cancel_rewakes_when_free = true /\ fairlock_cancel_silent_when_held = true /\ fairlock_wakes_the_head = true /\
  tls_whole_packet_enters_backlog_at_once = true /\ tls_bio_read_under_send_lock = true /\
  tls_transport_send_under_send_lock = true.
Proof. repeat split; reflexivity. Qed.
