(* C18: the property theorems, consequences of the invariant of C18_proofs.v (which holds in every reachable state:
   any number of calls, any interleaving). *)
From Coq Require Import List Bool Arith Lia.
From EN Require Import Conc.Lifecycle Proofs.C18_proofs.
Import ListNotations.

(* ---------- at most one serve_forever is ever past its entry check ---------- *)
Lemma serves_le_one s : reachable s -> length (serves s) <= 1.
Proof.
  intros R. apply inv_reachable in R. destruct (ev s) eqn:E.
  - destruct (i_idle s R E) as (A&_). rewrite A. simpl. lia.
  - destruct (i_run s R E) as (e&A&_). rewrite A. simpl. lia.
Qed.

Lemma second_serve_refused_l s s' o :
  reachable s -> serves s <> [] -> step s LCallServe = Some (s', o) ->
  o = [Ret (next_id s) OAlreadyRunning] /\ serves s' = serves s /\ ev s' = ev s /\ gen s' = gen s.
Proof.
  intros R Hs St. apply inv_reachable in R.
  assert (ev s = false) as E.
  { destruct (ev s) eqn:E; auto. destruct (i_idle s R E) as (A&_). congruence. }
  simpl in St. rewrite E in St. simpl in St. inversion St; subst. simpl. auto.
Qed.

(* ---------- closed is sticky and refuses ---------- *)
Lemma closed_detach s : closed (detach s) = closed s.
Proof. destruct (detach_fields s) as (A&_). exact A. Qed.

Lemma closed_sticky_l s l s' o : step s l = Some (s', o) -> closed s = true -> closed s' = true.
Proof.
  intros St Cl. destruct l; simpl in St.
  - destruct (negb (ev s)); [inversion St; subst; simpl; auto|]. simpl in St. rewrite Cl in St. inversion St; subst; auto.
  - destruct (closer s); [inversion St; subst; simpl; auto|].
    unfold start_close in St. simpl in St. destruct (guard s); inversion St; subst; simpl; auto.
    destruct (fscope s); simpl; destruct (stask s); simpl; auto.
  - unfold cancel_scope_if_any in St. simpl in St.
    destruct (scope s); simpl in St; destruct (ev s); inversion St; subst; simpl; auto.
  - destruct (stask s); try discriminate; destruct (lst s); try discriminate; inversion St; subst; simpl; auto.
  - destruct (clients s); try discriminate; inversion St; subst. rewrite closed_detach. simpl; auto.
  - inversion St; subst; auto.
  - destruct (stask s); try discriminate; destruct (lst s); try discriminate; inversion St; subst; simpl; auto.
  - destruct (take id (serves s)) as [[[] r]|]; try discriminate. simpl in St.
    unfold enter_setup in St. simpl in St.
    destruct (fscope s) as [[|]|]; try (inversion St; subst; simpl; auto; fail);
      destruct (scope s) as [[|]|]; try (inversion St; subst; simpl; auto; fail);
      destruct (guard s); inversion St; subst; simpl; auto.
  - destruct (take id (serves s)) as [[[] r]|]; try discriminate. inversion St; subst; simpl; auto.
  - destruct (take id (serves s)) as [[[] r]|]; try discriminate. simpl in St.
    destruct (scope s) as [[|]|]; inversion St; subst; simpl; auto.
  - destruct (take id (serves s)) as [[[] r]|]; try discriminate.
    destruct (scope s) as [[|]|]; try discriminate. inversion St; subst. simpl. destruct (stask s); simpl; auto.
  - destruct (take id (serves s)) as [[[] r]|]; try discriminate.
    destruct (stask s); try discriminate; destruct (dying s); try discriminate; inversion St; subst; simpl; auto.
  - destruct (take id (serves s)) as [[[] r]|]; try discriminate. inversion St; subst; simpl; auto.
  - destruct (stask s); try discriminate. inversion St; subst. rewrite closed_detach. simpl; auto.
  - destruct (dying s); try discriminate. inversion St; subst. rewrite closed_detach. simpl; auto.
  - destruct (cwait s); try discriminate. destruct (closer s); try discriminate.
    unfold start_close in St. simpl in St. destruct (guard s); inversion St; subst; simpl; auto.
    destruct (fscope s); simpl; destruct (stask s); simpl; auto.
  - destruct (closer s) as [[i []]|]; try discriminate.
    destruct (stask s); try discriminate; inversion St; subst; simpl; destruct (lst s); simpl; auto.
  - destruct (closer s) as [[i []]|]; try discriminate. inversion St; subst; simpl; auto.
  - destruct (take id (waiters s)) as [[g r]|]; try discriminate.
    destruct (Nat.leb g (fin s)); try discriminate. inversion St; subst; simpl; auto.
Qed.

Lemma closed_refuses_l s s' o :
  closed s = true -> step s LCallServe = Some (s', o) ->
  (o = [Ret (next_id s) OClosed] \/ o = [Ret (next_id s) OAlreadyRunning]) /\ serves s' = serves s.
Proof.
  intros Cl St. simpl in St. destruct (ev s); simpl in St.
  - rewrite Cl in St. inversion St; subst. simpl. auto.
  - inversion St; subst. simpl. auto.
Qed.

(* ---------- when the event of a run is set, serving has fully stopped ---------- *)
Lemma stopped_when_event_set s :
  reachable s -> ev s = true ->
  serves s = [] /\ stask s = TNone /\ scope s = None /\ is_serving s = false /\ fin s = gen s.
Proof.
  intros R E. apply inv_reachable in R. destruct (i_idle s R E) as (A&B&C&D&T&F).
  repeat split; auto. unfold is_serving. rewrite T. reflexivity.
Qed.

Lemma shutdown_immediate_l s s' o :
  reachable s -> step s LCallShutdown = Some (s', o) -> o <> [] ->
  ev s' = true /\ serves s' = [] /\ stask s' = TNone /\ is_serving s' = false.
Proof.
  intros R St Ho.
  assert (reachable s') as R' by (eapply r_step; eauto).
  assert (ev s' = true) as E.
  { simpl in St. unfold cancel_scope_if_any in St. simpl in St.
    destruct (scope s); simpl in St; destruct (ev s) eqn:X; inversion St; subst; simpl; auto; congruence. }
  destruct (stopped_when_event_set s' R' E) as (A&B&C&D&_). auto.
Qed.

Lemma shutdown_wake_l s id s' o :
  reachable s -> step s (LShutdownWake id) = Some (s', o) ->
  exists g rest, take id (waiters s) = Some (g, rest) /\ g <= fin s /\ o = [Ret id OOk] /\
    (ev s' = true -> serves s' = [] /\ stask s' = TNone /\ is_serving s' = false).
Proof.
  intros R St. assert (reachable s') as R' by (eapply r_step; eauto).
  simpl in St. destruct (take id (waiters s)) as [[g rest]|] eqn:T; try discriminate.
  destruct (Nat.leb g (fin s)) eqn:L; try discriminate. inversion St; subst.
  exists g, rest. repeat split; auto.
  - now apply Nat.leb_le.
  - destruct (stopped_when_event_set _ R' H) as (A&B&C&D&_); auto.
  - destruct (stopped_when_event_set _ R' H) as (A&B&C&D&_); auto.
  - destruct (stopped_when_event_set _ R' H) as (A&B&C&D&_); auto.
Qed.

(* every pending shutdown waits for a run that exists, and its wake-up condition is exactly "that run has ended" *)
Lemma waiter_target s id g : reachable s -> In (id, g) (waiters s) -> g <= gen s.
Proof. intros R Hin. apply inv_reachable in R. destruct (i_wait s R id g Hin); auto. Qed.

(* ---------- a stopped server can serve again unless it was closed ---------- *)
Lemma can_serve_again_l s :
  reachable s -> ev s = true -> closed s = false ->
  exists s' pc, step s LCallServe = Some (s', []) /\ serves s' = [(next_id s, pc)] /\ (pc = SAct \/ pc = SInit) /\ ev s' = false.
Proof.
  intros R E Cl. apply inv_reachable in R.
  destruct (i_idle s R E) as (A&B&C&D&T&F).
  assert (closer s = None) as Hc by (apply closer_none_of_open; auto).
  assert (guard s = None) as Hg by (apply guard_none; auto).
  simpl. rewrite E. simpl. rewrite Cl.
  destruct (lst s) eqn:Ls.
  - eexists; exists SAct. split; [reflexivity|]. simpl. rewrite A. auto.
  - unfold enter_setup. simpl. rewrite Hg. eexists; exists SInit. split; [reflexivity|]. simpl. rewrite A. auto.
  - unfold enter_setup. simpl. rewrite Hg. eexists; exists SInit. split; [reflexivity|]. simpl. rewrite A. auto.
Qed.

(* ---------- listeners are closed after server_close ---------- *)
Lemma close_finish_l s s' o :
  reachable s -> step s LCloseFinish = Some (s', o) ->
  lst s' = LEmpty /\ is_listening s' = false /\ closed s' = true /\ closer s' = None.
Proof.
  intros R St. apply inv_reachable in R. simpl in St.
  destruct (closer s) as [[i []]|] eqn:C; try discriminate. inversion St; subst. simpl.
  repeat split; auto. apply (i_closer_closed s R). congruence.
Qed.

Lemma closed_means_no_listener s :
  reachable s -> closed s = true -> closer s = None -> lst s = LEmpty /\ is_listening s = false /\ is_serving s = false.
Proof.
  intros R Cl C. apply inv_reachable in R. pose proof (i_lst s R Cl C) as L.
  unfold is_listening, is_serving. rewrite L. repeat split; auto. destruct (stask s); auto.
Qed.

(* ---------- no deadlock ---------- *)
Definition busy (s : st) : Prop :=
  waiters s <> [] \/ closer s <> None \/ cwait s <> [] \/
  exists id pc, serves s = [(id, pc)] /\ (pc <> SMain \/ scope s = Some true).

Definition internal (l : label) : Prop := is_external l = false.

Lemma serve_progress s id pc :
  Inv s -> serves s = [(id, pc)] -> (pc <> SMain \/ scope s = Some true) ->
  exists l, internal l /\ step s l <> None.
Proof.
  intros I Hs Hp. destruct pc.
  - exists (LFactoryDone id). split; [reflexivity|]. simpl. rewrite Hs, take_head. simpl.
    unfold enter_setup. simpl.
    destruct (fscope s) as [[|]|]; try discriminate; destruct (scope s) as [[|]|]; try discriminate;
      destruct (guard s); discriminate.
  - exists (LInitDone id). split; [reflexivity|]. simpl. rewrite Hs, take_head. simpl.
    destruct (scope s) as [[|]|]; discriminate.
  - destruct Hp as [Hp|Hp]; [congruence|].
    exists (LWake id). split; [reflexivity|]. simpl. rewrite Hs, take_head, Hp. discriminate.
  - destruct (stask s) eqn:T.
    + destruct (dying s) eqn:D.
      * exists (LChildrenDone id). split; [reflexivity|]. simpl. rewrite Hs, take_head, T, D. discriminate.
      * exists LClientGone. split; [reflexivity|]. simpl. rewrite D. discriminate.
    + exfalso. destruct (ev s) eqn:E.
      * destruct (i_idle s I E) as (A&_). congruence.
      * destruct (i_run s I E) as (e&A&B&_). rewrite Hs in A. inversion A; subst. unfold serve_ok in B. simpl in B. tauto.
    + exists LTaskDone. split; [reflexivity|]. simpl. rewrite T. discriminate.
    + destruct (dying s) eqn:D.
      * exists (LChildrenDone id). split; [reflexivity|]. simpl. rewrite Hs, take_head, T, D. discriminate.
      * exists LClientGone. split; [reflexivity|]. simpl. rewrite D. discriminate.
  - exists (LServeExit id). split; [reflexivity|]. simpl. rewrite Hs, take_head. discriminate.
Qed.

Lemma no_deadlock_l s : reachable s -> busy s -> exists l, internal l /\ step s l <> None.
Proof.
  intros R B. apply inv_reachable in R. destruct B as [B|[B|[B|B]]].
  - (* a shutdown call waits *)
    destruct (waiters s) as [|[id g] ws] eqn:W; [congruence|].
    destruct (Nat.leb g (fin s)) eqn:L.
    + exists (LShutdownWake id). split; [reflexivity|]. simpl. rewrite W, take_head, L. discriminate.
    + apply Nat.leb_gt in L.
      assert (In (id, g) (waiters s)) as Hin by (rewrite W; now left).
      destruct (i_wait s R id g Hin) as [G1 G2]. specialize (G2 L).
      destruct (ev s) eqn:E.
      { destruct (i_idle s R E) as (_&_&_&_&_&F). lia. }
      destruct (i_run s R E) as ([i pc]&A&Bk&_).
      apply (serve_progress s i pc R A).
      destruct pc; try (left; congruence). right.
      unfold serve_ok in Bk. simpl in Bk. destruct Bk as (S1&_).
      destruct (scope s) as [[|]|]; congruence.
  - (* a server_close holds the lock *)
    destruct (closer s) as [[id pc]|] eqn:C; [|congruence]. destruct pc.
    + pose proof (i_ctasks s R id C) as T. destruct (stask s) eqn:Ts; try congruence.
      * exists LCloseTasks. split; [reflexivity|]. simpl. rewrite C, Ts. discriminate.
      * exists LTaskDone. split; [reflexivity|]. simpl. rewrite Ts. discriminate.
      * exists LCloseTasks. split; [reflexivity|]. simpl. rewrite C, Ts. discriminate.
    + exists LCloseFinish. split; [reflexivity|]. simpl. rewrite C. discriminate.
  - (* a server_close waits for the lock *)
    destruct (closer s) as [[id pc]|] eqn:C.
    + destruct pc.
      * pose proof (i_ctasks s R id C) as T. destruct (stask s) eqn:Ts; try congruence.
        -- exists LCloseTasks. split; [reflexivity|]. simpl. rewrite C, Ts. discriminate.
        -- exists LTaskDone. split; [reflexivity|]. simpl. rewrite Ts. discriminate.
        -- exists LCloseTasks. split; [reflexivity|]. simpl. rewrite C, Ts. discriminate.
      * exists LCloseFinish. split; [reflexivity|]. simpl. rewrite C. discriminate.
    + destruct (cwait s) as [|i r] eqn:W; [congruence|].
      exists LCloseLock. split; [reflexivity|]. simpl. rewrite W, C.
      unfold start_close. destruct (guard (set_cwait s r)); discriminate.
  - destruct B as (id&pc&A&P). eapply serve_progress; eauto.
Qed.

(* ---------- the defect reproduced by the faithful model (finding: UDP teardown with a queued datagram) ---------- *)
Fixpoint run_trace (s : st) (ls : list label) : option (st * list obs) :=
  match ls with
  | [] => Some (s, [])
  | l :: ls' => match step s l with
                | Some (s', o) => match run_trace s' ls' with Some (s'', o') => Some (s'', o ++ o') | None => None end
                | None => None
                end
  end.

Lemma run_trace_reachable s ls s' o : reachable s -> run_trace s ls = Some (s', o) -> reachable s'.
Proof.
  revert s s' o. induction ls as [|l ls IH]; simpl; intros s s' o R H.
  - inversion H; subst; auto.
  - destruct (step s l) as [[s1 o1]|] eqn:St; try discriminate.
    destruct (run_trace s1 ls) as [[s2 o2]|] eqn:Rt; try discriminate. inversion H; subst.
    eapply IH; [|eauto]. eapply r_step; eauto.
Qed.

Definition udp_crash_trace : list label :=
  [LCallServe; LFactoryDone 0; LInitDone 0; LUdpQueue; LCallShutdown; LWake 0; LTaskDone; LChildrenDone 0; LServeExit 0; LShutdownWake 1].

Lemma udp_crash_witness :
  Gen.ParamsC18.udp_restart_guarded = false ->
  exists s o, run_trace init udp_crash_trace = Some (s, o) /\ In (Ret 0 OCrash) o /\ In (Ret 1 OOk) o /\ ev s = true.
Proof.
  (* works whatever the regenerated parameter says: either the hypothesis is absurd or the witness computes *)
  intros H.
  first [ (vm_compute in H; discriminate H)
        | (eexists; eexists; split; [vm_compute; reflexivity | simpl; auto]) ].
Qed.

(* ... and with the restart guarded (the proposed fix), no call ever ends that way *)
Local Opaque Gen.ParamsC18.udp_restart_guarded.

Lemma crash_only_unguarded :
  forall s l s' o id, step s l = Some (s', o) -> In (Ret id OCrash) o -> Gen.ParamsC18.udp_restart_guarded = false.
Proof.
  intros s l s' o id0 St Hin. destruct l; simpl in St.
  - destruct (negb (ev s)); [inversion St; subst; simpl in Hin; intuition congruence|]. simpl in St.
    unfold enter_setup in St. simpl in St.
    destruct (closed s); [inversion St; subst; simpl in Hin; intuition congruence|].
    destruct (lst s); try destruct (guard s); inversion St; subst; simpl in Hin; intuition congruence.
  - destruct (closer s); [inversion St; subst; simpl in Hin; tauto|].
    unfold start_close in St. simpl in St. destruct (guard s); inversion St; subst; simpl in Hin; intuition congruence.
  - unfold cancel_scope_if_any in St. simpl in St.
    destruct (scope s); simpl in St; destruct (ev s); inversion St; subst; simpl in Hin; intuition congruence.
  - destruct (stask s); try discriminate; destruct (lst s); try discriminate; inversion St; subst; simpl in Hin; tauto.
  - destruct (clients s); try discriminate; inversion St; subst; simpl in Hin; tauto.
  - inversion St; subst; simpl in Hin; intuition congruence.
  - destruct (stask s); try discriminate; destruct (lst s); try discriminate; inversion St; subst; simpl in Hin; tauto.
  - destruct (take id (serves s)) as [[[] r]|]; try discriminate. simpl in St.
    unfold enter_setup in St. simpl in St.
    destruct (fscope s) as [[|]|]; try (inversion St; subst; simpl in Hin; intuition congruence; fail);
      destruct (scope s) as [[|]|]; try (inversion St; subst; simpl in Hin; intuition congruence; fail);
      destruct (guard s); inversion St; subst; simpl in Hin; intuition congruence.
  - destruct (take id (serves s)) as [[[] r]|]; try discriminate. inversion St; subst; simpl in Hin; intuition congruence.
  - destruct (take id (serves s)) as [[[] r]|]; try discriminate. simpl in St.
    destruct (scope s) as [[|]|]; inversion St; subst; simpl in Hin; intuition congruence.
  - destruct (take id (serves s)) as [[[] r]|]; try discriminate.
    destruct (scope s) as [[|]|]; try discriminate. inversion St; subst. simpl in Hin; tauto.
  - destruct (take id (serves s)) as [[[] r]|]; try discriminate.
    destruct (stask s); try discriminate; destruct (dying s); try discriminate; inversion St; subst; simpl in Hin; tauto.
  - destruct (take id (serves s)) as [[[] r]|]; try discriminate.
    destruct (Gen.ParamsC18.udp_restart_guarded) eqn:G; [|reflexivity]. rewrite andb_false_r in St.
    inversion St; subst; simpl in Hin; intuition congruence.
  - destruct (stask s); try discriminate. inversion St; subst. simpl in Hin; tauto.
  - destruct (dying s); try discriminate. inversion St; subst. simpl in Hin; tauto.
  - destruct (cwait s); try discriminate. destruct (closer s); try discriminate.
    unfold start_close in St. simpl in St. destruct (guard s); inversion St; subst; simpl in Hin; intuition congruence.
  - destruct (closer s) as [[i []]|]; try discriminate.
    destruct (stask s); try discriminate; inversion St; subst; simpl in Hin; tauto.
  - destruct (closer s) as [[i []]|]; try discriminate. inversion St; subst; simpl in Hin; intuition congruence.
  - destruct (take id (waiters s)) as [[g r]|]; try discriminate.
    destruct (Nat.leb g (fin s)); try discriminate. inversion St; subst; simpl in Hin; intuition congruence.
Qed.

Lemma no_crash_when_guarded :
  Gen.ParamsC18.udp_restart_guarded = true ->
  forall s l s' o id, step s l = Some (s', o) -> ~ In (Ret id OCrash) o.
Proof. intros H s l s' o id St Hin. pose proof (crash_only_unguarded _ _ _ _ _ St Hin). congruence. Qed.

(* non-vacuity: a state with a running server, a connected client and a pending shutdown is reachable *)
Lemma example_reachable_busy :
  exists s, reachable s /\ busy s /\ serves s = [(0, SWait)] /\ dying s = 1.
Proof.
  destruct (run_trace init [LCallServe; LFactoryDone 0; LInitDone 0; LConnect; LCallShutdown; LWake 0]) as [[s o]|] eqn:E;
    [|vm_compute in E; discriminate].
  exists s. split; [eapply run_trace_reachable; [apply r_init | exact E]|].
  vm_compute in E. inversion E; subst. simpl. split; [|auto]. left. discriminate.
Qed.
