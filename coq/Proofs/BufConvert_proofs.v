(* a buffered protocol with a converter (BufferedStreamProtocol(serializer, converter)) delivers the converted events of
   the protocol without it: buffer-filling consumer, any deliveries *)
From Coq Require Import List Arith Lia.
From EN Require Import Lib.Bytes Frame.Framer Frame.Convert Stream.Consumer Proofs.Convert_proofs.
Import ListNotations.

Section BufConvProofs.
  Context {Q P : Type}.
  Variable conv : Q -> option P.
  Variable F : bframer Q.
  Variable sizehint : nat.
  Let G := conv_bframer conv F.

  Definition bconv_st (c : bcstate F) : bcstate G :=
    @Build_bcstate P G (bmem c) (bstart c) (balready c) (bexported c) (bcons c).

  Lemma bgwb_conv c :
    bc_get_write_buffer G sizehint (bconv_st c) =
      (bconv_st (fst (bc_get_write_buffer F sizehint c)), snd (bc_get_write_buffer F sizehint c)).
  Proof.
    destruct c as [mem start already exported cons]. unfold bc_get_write_buffer, bconv_st.
    cbn [bexported bmem bcons bstart balready].
    destruct exported as [v|]; [reflexivity|].
    change (balloc G sizehint) with (balloc F sizehint).
    destruct cons as [s|].
    - destruct (Nat.eqb _ 0); reflexivity.
    - change (binit G) with (binit F). destruct (binit F) as [c0 st0].
      destruct (Nat.eqb _ 0); reflexivity.
  Qed.

  Lemma bfill_conv c data : bc_fill G (bconv_st c) data = bconv_st (bc_fill F c data).
  Proof.
    destruct c as [mem start already exported cons]. unfold bc_fill, bconv_st.
    cbn [bexported bmem bcons bstart balready].
    destruct mem as [m|]; [|reflexivity]. destruct exported as [[off len]|]; reflexivity.
  Qed.

  Lemma bsave_conv c rest :
    bc_save_remainder G sizehint (bconv_st c) rest = bconv_st (bc_save_remainder F sizehint c rest).
  Proof.
    unfold bc_save_remainder. destruct rest as [|b rest]; [reflexivity|].
    rewrite bgwb_conv. destruct (bc_get_write_buffer F sizehint c) as [c1 v]. cbn [fst snd].
    destruct c1 as [mem start already exported cons]. unfold bconv_st. cbn [bexported bmem bcons bstart balready].
    destruct mem as [m|]; [|reflexivity]. destruct v as [[off len]|]; reflexivity.
  Qed.

  Lemma bconv_mk mem start already exported cons :
    bconv_st (Build_bcstate F mem start already exported cons) = Build_bcstate G mem start already exported cons.
  Proof. reflexivity. Qed.

  Lemma bcnext_conv c n :
    bcnext G sizehint (bconv_st c) n =
      (bconv_st (fst (bcnext F sizehint c n)), conv_ev conv (snd (bcnext F sizehint c n))).
  Proof.
    destruct c as [mem start already exported cons]. rewrite bconv_mk. unfold bcnext.
    cbn [bexported bmem bcons bstart balready].
    match goal with |- (if ?b then _ else _) = _ => destruct b end; [reflexivity|].
    destruct cons as [st|]; [|reflexivity].
    destruct (Nat.eqb _ 0); [reflexivity|].
    change (bfeed G st) with (fun m k => conv_bres conv (bfeed F st m k)). cbv beta.
    destruct (bfeed F st _ _) as [s st'|q rest|e rest|]; cbn [conv_bres fst snd conv_ev].
    - reflexivity.
    - destruct (conv q); cbn [fst snd]; rewrite <- bsave_conv, bconv_mk; reflexivity.
    - rewrite <- bsave_conv, bconv_mk; reflexivity.
    - reflexivity.
  Qed.

  Lemma bcdrain_conv fuel : forall c,
    bcdrain G sizehint fuel (bconv_st c) =
      (bconv_st (fst (bcdrain F sizehint fuel c)), map (conv_ev conv) (snd (bcdrain F sizehint fuel c))).
  Proof.
    induction fuel as [|f IH]; intros c; [reflexivity|].
    cbn [bcdrain]. rewrite bcnext_conv. destruct (bcnext F sizehint c None) as [c' r]. cbn [fst snd].
    destruct r as [q|e| |]; cbn [conv_ev].
    - rewrite IH. destruct (bcdrain F sizehint f c') as [c'' rs]. cbn [fst snd map conv_ev]. destruct (conv q); reflexivity.
    - rewrite IH. destruct (bcdrain F sizehint f c') as [c'' rs]. reflexivity.
    - reflexivity.
    - rewrite IH. destruct (bcdrain F sizehint f c') as [c'' rs]. reflexivity.
  Qed.

  Lemma bcstep_conv fuel c data :
    bcstep G sizehint fuel (bconv_st c) data =
      (bconv_st (fst (fst (bcstep F sizehint fuel c data))), map (conv_ev conv) (snd (fst (bcstep F sizehint fuel c data))),
       snd (bcstep F sizehint fuel c data)).
  Proof.
    unfold bcstep. rewrite bgwb_conv. destruct (bc_get_write_buffer F sizehint c) as [c1 v]. cbn [fst snd].
    destruct v as [[off len]|]; [|reflexivity].
    rewrite bfill_conv, bcnext_conv.
    destruct (bcnext F sizehint (bc_fill F c1 (firstn len data)) (Some (length (firstn len data)))) as [c3 r]. cbn [fst snd].
    destruct r as [q|e| |]; cbn [conv_ev].
    - rewrite bcdrain_conv. destruct (bcdrain F sizehint fuel c3) as [c4 rs]. cbn [fst snd map conv_ev].
      destruct (conv q); reflexivity.
    - rewrite bcdrain_conv. destruct (bcdrain F sizehint fuel c3) as [c4 rs]. reflexivity.
    - reflexivity.
    - rewrite bcdrain_conv. destruct (bcdrain F sizehint fuel c3) as [c4 rs]. reflexivity.
  Qed.

  Lemma bcchunk_conv fuel rounds : forall c data,
    bcchunk G sizehint rounds fuel (bconv_st c) data =
      (bconv_st (fst (bcchunk F sizehint rounds fuel c data)), map (conv_ev conv) (snd (bcchunk F sizehint rounds fuel c data))).
  Proof.
    induction rounds as [|k IH]; intros c data; [reflexivity|].
    cbn [bcchunk]. destruct data as [|b data]; [reflexivity|].
    rewrite bcstep_conv. destruct (bcstep F sizehint fuel c (b :: data)) as [[c' rs] n]. cbn [fst snd].
    rewrite IH. destruct (bcchunk F sizehint k fuel c' (skipn n (b :: data))) as [c'' rs']. cbn [fst snd].
    rewrite map_app. reflexivity.
  Qed.

  Theorem bcdeliver_conv fuel chunks : forall c,
    bcdeliver G sizehint fuel (bconv_st c) chunks =
      (bconv_st (fst (bcdeliver F sizehint fuel c chunks)), map (conv_ev conv) (snd (bcdeliver F sizehint fuel c chunks))).
  Proof.
    induction chunks as [|ch chs IH]; intros c; [reflexivity|].
    cbn [bcdeliver]. rewrite bcchunk_conv. destruct (bcchunk F sizehint (S (length ch)) fuel c ch) as [c' rs]. cbn [fst snd].
    rewrite IH. destruct (bcdeliver F sizehint fuel c' chs) as [c'' rs']. cbn [fst snd]. rewrite map_app. reflexivity.
  Qed.
End BufConvProofs.
