(* A consumer that has been asked for its write buffer (get_write_buffer(): the view is exported) and whose transport
   call was then cancelled is as good as the drained consumer it came from: the next recv_packet() drains it
   (next(None) un-exports the view), asks again and gets the same view.  This turns the side condition of
   recv_packet_no_loss ("asking for the write buffer keeps a drained consumer drained") into three equations about the
   consumer's own functions on drained states, which hold for BufferedStreamDataConsumer by computation. *)
From Coq Require Import List Bool Arith Lia.
From EN Require Import Lib.Bytes Frame.Framer Stream.Consumer Stream.Endpoint Stream.EndpointSpec
                       Conc.SockReader Conc.SockReaderSpec Conc.SockEndpoint Proofs.C10_endpoint.
Import ListNotations.

Section Reexport.
  Context {P C : Type}.
  Variable S : smachine P C.
  Variable spec : bytes -> list (nres P).
  Variable G : bytes -> Prop.
  Variable R : C -> bytes -> nat -> Prop.
  Variable D : C -> bytes -> Prop.
  Hypothesis OK : consumer_ok_rel (to_machine S) spec G R D.
  (* on a drained state: asking twice gives the same view; next(None) on the exported state raises StopIteration and
     un-exports; asking again re-exports the same view; next(None) on the un-exported state is a no-op *)
  Hypothesis Hre : forall c d c1 room, D c d -> sroom S c = Some (c1, room) ->
    sroom S c1 = Some (c1, room) /\
    exists c2, sdrain S c1 = (c2, RStop) /\ sroom S c2 = Some (c1, room) /\ sdrain S c2 = (c2, RStop).

  Definition D' (c : C) (d : bytes) : Prop :=
    exists c0, D c0 d /\
      (c = c0 \/ exists c1 room, sroom S c0 = Some (c1, room) /\ (c = c1 \/ sdrain S c1 = (c, RStop))).
  Definition R' (c : C) (d : bytes) (k : nat) : Prop := R c d k \/ (k = length (spec d) /\ D' c d).

  Lemma D_D' : forall c d, D c d -> D' c d.
  Proof. intros c d H. exists c. split; [exact H | left; reflexivity]. Qed.

  (* an exported / un-exported state takes from the transport exactly like the drained state it came from *)
  Lemma mtake_same : forall c d c0, D c0 d ->
    (exists c1 room, sroom S c0 = Some (c1, room) /\ (c = c1 \/ sdrain S c1 = (c, RStop))) ->
    forall avail, mtake (to_machine S) c avail = mtake (to_machine S) c0 avail.
  Proof.
    intros c d c0 HD (c1 & room & Hroom & Hc) avail. simpl.
    destruct (Hre _ _ _ _ HD Hroom) as (H1 & c2 & H2 & H3 & H4).
    rewrite Hroom. destruct Hc as [->|Hc].
    - rewrite H1. reflexivity.
    - rewrite H2 in Hc. inversion Hc; subst c. rewrite H3. reflexivity.
  Qed.

  Lemma ok' : consumer_ok_rel (to_machine S) spec G R' D'.
  Proof.
    constructor.
    - exact (okr_prefix _ _ _ _ _ OK).
    - exact (okr_mono _ _ _ _ _ OK).
    - intros c d H. right. split; [reflexivity | exact H].
    - (* drain *)
      intros c d k c' r HG HR Hm.
      assert (Hbase : forall c0 k0 c0' r0, R c0 d k0 -> mdrain (to_machine S) c0 = (c0', r0) ->
                match r0 with
                | RStop => k0 = length (spec d) /\ D' c0' d
                | _ => nth_error (spec d) k0 = Some r0 /\ R' c0' d (Datatypes.S k0)
                end).
      { intros c0 k0 c0' r0 HR0 Hm0. pose proof (okr_drain _ _ _ _ _ OK c0 d k0 c0' r0 HG HR0 Hm0) as H.
        destruct r0; try (destruct H as (A & B); split; [exact A | left; exact B]).
        destruct H as (A & B). split; [exact A | apply D_D'; exact B]. }
      destruct HR as [HR | (Hk & c0 & HD & Hc)]; [exact (Hbase _ _ _ _ HR Hm)|].
      destruct Hc as [-> | (c1 & room & Hroom & Hc)].
      + exact (Hbase _ _ _ _ (eq_ind_r (fun k => R c0 d k) (okr_D_R _ _ _ _ _ OK _ _ HD) Hk) Hm).
      + destruct (Hre _ _ _ _ HD Hroom) as (H1 & c2 & H2 & H3 & H4). simpl in Hm.
        assert (Hres : r = RStop /\ c' = c2).
        { destruct Hc as [->|Hc].
          - rewrite H2 in Hm. inversion Hm; subst. split; reflexivity.
          - rewrite H2 in Hc. inversion Hc; subst c. rewrite H4 in Hm. inversion Hm; subst. split; reflexivity. }
        destruct Hres as (-> & ->). split; [exact Hk|].
        exists c0. split; [exact HD|]. right. exists c1, room. split; [exact Hroom | right; exact H2].
    - (* take *)
      intros c d avail (c0 & HD & Hc) Hne HG.
      assert (Hm : mtake (to_machine S) c avail = mtake (to_machine S) c0 avail).
      { destruct Hc as [->|Hc]; [reflexivity | eapply mtake_same; eassumption]. }
      destruct (okr_take _ _ _ _ _ OK c0 d avail HD Hne HG) as (c' & r & n & room & Ht & Hn & Hres).
      exists c', r, n, room. rewrite Hm. split; [exact Ht|]. split; [exact Hn|].
      destruct r; try (destruct Hres as (A & B); split; [exact A | left; exact B]).
      destruct Hres as (A & B). split; [exact A | apply D_D'; exact B].
  Qed.

  Lemma D'_sroom : forall c d c1 room, D' c d -> sroom S c = Some (c1, room) -> D' c1 d.
  Proof.
    intros c d c1 room (c0 & HD & Hc) Hroom.
    destruct Hc as [-> | (c1' & room' & Hroom0 & Hc)].
    - exists c0. split; [exact HD|]. right. exists c1, room. split; [exact Hroom | left; reflexivity].
    - destruct (Hre _ _ _ _ HD Hroom0) as (H1 & c2 & H2 & H3 & H4).
      assert (Hc1 : c1 = c1').
      { destruct Hc as [->|Hc].
        - rewrite H1 in Hroom. inversion Hroom. reflexivity.
        - rewrite H2 in Hc. inversion Hc; subst c. rewrite H3 in Hroom. inversion Hroom. reflexivity. }
      subst c1. exists c0. split; [exact HD|]. right. exists c1', room'. split; [exact Hroom0 | left; reflexivity].
  Qed.

  Lemma recv_packet_no_loss_reexport_proof : forall (into latching : bool) c0 ls,
    R c0 [] 0 ->
    let es := erun S into latching (einit c0) ls in
    G (delivered (sk es)) ->
    (exists rest, spec (delivered (sk es)) = events es ++ rest) /\
    (exists tail, returned (sk es) ++ parked (sk es) ++ tail = delivered (sk es) /\
                  (tail <> [] -> lost_exc (sk es) <> None)).
  Proof.
    intros into latching c0 ls HR es HG.
    destruct (recv_packet_no_loss_proof S into latching spec G R' D' ok' D'_sroom c0 ls (or_introl HR) HG)
      as (A & _ & B).
    split; assumption.
  Qed.
End Reexport.

(* the three equations hold for BufferedStreamDataConsumer on every state with nothing pending and no exported view
   (every drained state of the buffered read_until / fixed-size consumers is of that form), whatever the framer *)
Lemma buf_reexport : forall P (F : bframer P) sizehint (c c1 : bcstate F) room,
  balready c = 0 -> bexported c = None ->
  sroom (buf_smachine F sizehint) c = Some (c1, room) ->
  sroom (buf_smachine F sizehint) c1 = Some (c1, room) /\
  exists c2, sdrain (buf_smachine F sizehint) c1 = (c2, RStop) /\
             sroom (buf_smachine F sizehint) c2 = Some (c1, room) /\
             sdrain (buf_smachine F sizehint) c2 = (c2, RStop).
Proof.
  intros P F sizehint c c1 room Hal Hex Hroom. simpl in *.
  unfold bc_get_write_buffer in Hroom. rewrite Hex in Hroom.
  destruct c as [m st al ex co]. simpl in *. subst al ex.
  set (mem := match m with Some m0 => m0 | None => repeat 0%N (balloc F sizehint) end) in *.
  destruct (match co with Some s => (s, st) | None => binit F end) as [cons0 start] eqn:Ecs.
  rewrite Nat.add_0_r in Hroom.
  destruct (Nat.eqb (length mem - start) 0) eqn:Elen; [discriminate|].
  inversion Hroom; subst c1 room. clear Hroom.
  split.
  - unfold bc_get_write_buffer. simpl. reflexivity.
  - eexists. split; [|split].
    + unfold bcnext. simpl. reflexivity.
    + unfold bc_get_write_buffer. simpl. rewrite Nat.add_0_r, Elen. reflexivity.
    + unfold bcnext. simpl. reflexivity.
Qed.

Lemma buf_machine_split : forall P (F : bframer P) sizehint c a,
  mtake (buf_machine F sizehint) c a = mtake (to_machine (buf_smachine F sizehint)) c a.
Proof.
  intros P F sizehint c a. simpl.
  destruct (bc_get_write_buffer F sizehint c) as [c1 [[off len]|]]; reflexivity.
Qed.

Lemma consumer_ok_rel_ext' : forall P C (M1 M2 : machine P C) spec G R D,
  (forall c, mdrain M1 c = mdrain M2 c) -> (forall c a, mtake M1 c a = mtake M2 c a) ->
  consumer_ok_rel M1 spec G R D -> consumer_ok_rel M2 spec G R D.
Proof.
  intros P C M1 M2 spec G R D Hd Ht [A B C0 E F].
  constructor; auto.
  - intros c d k c' r HG HR Hm. rewrite <- Hd in Hm. eapply E; eassumption.
  - intros c d avail HD Hne HG. destruct (F c d avail HD Hne HG) as (c' & r & n & room & Hm & Hrest).
    exists c', r, n, room. rewrite <- Ht. split; assumption.
Qed.

(* the endpoint corollary for the buffer-filling receiver (_BufferedReceiverImpl / _BufferedRequestReceiver over
   BufferedStreamDataConsumer): any buffered framer whose consumer satisfies the C03 interface with drained states that
   have nothing pending and no exported view *)
Lemma recv_packet_no_loss_buffered_proof :
  forall P (F : bframer P) sizehint (spec : bytes -> list (nres P)) (G : bytes -> Prop)
         (R : bcstate F -> bytes -> nat -> Prop) (D : bcstate F -> bytes -> Prop),
    consumer_ok_rel (buf_machine F sizehint) spec G R D ->
    (forall c d, D c d -> balready c = 0 /\ bexported c = None) ->
    forall (latching : bool) c0 ls,
      R c0 [] 0 ->
      let es := erun (buf_smachine F sizehint) true latching (einit c0) ls in
      G (delivered (sk es)) ->
      (exists rest, spec (delivered (sk es)) = events es ++ rest) /\
      (exists tail, returned (sk es) ++ parked (sk es) ++ tail = delivered (sk es) /\
                    (tail <> [] -> lost_exc (sk es) <> None)).
Proof.
  intros P F sizehint spec G R D OK0 Hshape latching c0 ls HR es HG.
  assert (OK : consumer_ok_rel (to_machine (buf_smachine F sizehint)) spec G R D).
  { eapply consumer_ok_rel_ext'; [| |exact OK0].
    - intro c. reflexivity.
    - intros c a. apply buf_machine_split. }
  apply (recv_packet_no_loss_reexport_proof (buf_smachine F sizehint) spec G R D OK); try assumption.
  intros c d c1 room HD Hroom. destruct (Hshape c d HD) as (Hal & Hex).
  exact (buf_reexport P F sizehint c c1 room Hal Hex Hroom).
Qed.
