(* C04, asyncio side: the bytes through the asyncio adapter (IO/AsyncAdapter.v over Conc/FlowControl.v). *)
From Coq Require Import List Arith Bool Lia ZifyBool.
From EN Require Import Lib.Bytes Conc.FlowControl IO.AsyncAdapter.
Import ListNotations.

Lemma buf_size_app : forall b x, buf_size (b ++ [x]) = buf_size b + snd x.
Proof. induction b as [|y r IH]; intros x; simpl; [lia|]. rewrite IH. lia. Qed.

Lemma buf_size_take : forall b k, buf_size (take k b) = buf_size b - k.
Proof.
  induction b as [|[t n] r IH]; intros k; simpl; [lia|].
  destruct (n <=? k) eqn:E; simpl; [rewrite IH; lia | lia].
Qed.

Lemma a_buf_maybe_pause : forall a, a_buf (maybe_pause a) = a_buf a /\ a_dead (maybe_pause a) = a_dead a.
Proof. intros a. unfold maybe_pause. destruct ((c_high (a_cfg a) <? buf_size (a_buf a)) && negb (a_ppaused a)); split; reflexivity. Qed.

Lemma a_buf_maybe_resume : forall a, a_buf (maybe_resume a) = a_buf a /\ a_dead (maybe_resume a) = a_dead a.
Proof. intros a. unfold maybe_resume. destruct (a_ppaused a && (buf_size (a_buf a) <=? c_low (a_cfg a))); split; reflexivity. Qed.

Lemma lift_same : forall a r a' o, lift a r = Some (a', o) -> a_buf a' = a_buf a /\ a_dead a' = a_dead a.
Proof. intros a [[w o']|] a' o H; simpl in H; [inversion H; subst; split; reflexivity | discriminate]. Qed.

(* size of the user-space buffer and liveness after one step of the count model *)
Lemma ad_step_size : forall a l a' o,
  ad_step a l = Some (a', o) ->
  (a_dead a = true -> a_dead a' = true)
  /\ buf_size (a_buf a') =
     match l with
     | ASend t n k => if a_dead a || (n =? 0) then buf_size (a_buf a)
                      else match a_buf a with [] => n - Nat.min k n | _ => buf_size (a_buf a) + n end
     | ASendIter t n k => if a_dead a || (n =? 0) then buf_size (a_buf a) else buf_size (a_buf a) + n - k
     | ASendTo _ _ _ => buf_size (a_buf a')
     | AReady k => buf_size (a_buf a) - k
     | AKill => 0
     | _ => buf_size (a_buf a)
     end.
Proof.
  intros a l a' o H. destruct l as [t n k|t n k|t n ok|k| | |e|t|f|t];
    [simpl in H|simpl in H|simpl in H|unfold ad_step in H|simpl in H|simpl in H|simpl in H|simpl in H|simpl in H|simpl in H].
  - destruct (get_task t (a_w a)) as [[| |]|]; try discriminate.
    apply lift_same in H. destruct H as [Hb Hd]. rewrite Hb, Hd. unfold tr_write.
    destruct (a_dead a || (n =? 0)) eqn:E; [split; [tauto|reflexivity]|].
    destruct (a_buf a) as [|x r] eqn:B.
    + destruct (n - Nat.min k n =? 0) eqn:E2.
      * split; [tauto|]. rewrite B. simpl. lia.
      * destruct (a_buf_maybe_pause (with_buf [(t, n - Nat.min k n)] a)) as [P1 P2]. rewrite P1, P2. simpl. split; [tauto|lia].
    + destruct (a_buf_maybe_pause (with_buf ((x :: r) ++ [(t, n)]) a)) as [P1 P2]. rewrite P1, P2.
      split; [tauto|]. unfold with_buf. cbn [a_buf]. rewrite buf_size_app. cbn [snd]. reflexivity.
  - destruct (get_task t (a_w a)) as [[| |]|]; try discriminate.
    apply lift_same in H. destruct H as [Hb Hd]. rewrite Hb, Hd. unfold tr_writelines.
    destruct (a_dead a || (n =? 0)) eqn:E; [split; [tauto|reflexivity]|].
    assert (G : forall a1, a_buf (if c_wl_pauses (a_cfg a) then maybe_pause a1 else a1) = a_buf a1
                          /\ a_dead (if c_wl_pauses (a_cfg a) then maybe_pause a1 else a1) = a_dead a1).
    { intros a1. destruct (c_wl_pauses (a_cfg a)); [apply a_buf_maybe_pause | split; reflexivity]. }
    destruct (k =? 0) eqn:Ek.
    + destruct (G (with_buf (a_buf a ++ [(t, n)]) a)) as [P1 P2]. rewrite P1, P2. simpl.
      split; [tauto|]. rewrite buf_size_app. simpl. lia.
    + destruct (G (maybe_resume (with_buf (take k (a_buf a ++ [(t, n)])) a))) as [P1 P2]. rewrite P1, P2.
      destruct (a_buf_maybe_resume (with_buf (take k (a_buf a ++ [(t, n)])) a)) as [Q1 Q2]. rewrite Q1, Q2. simpl.
      split; [tauto|]. rewrite buf_size_take, buf_size_app. simpl. lia.
  - destruct (get_task t (a_w a)) as [[| |]|]; try discriminate.
    apply lift_same in H. destruct H as [Hb Hd]. split; [|reflexivity].
    intro D. rewrite Hd. unfold tr_sendto. rewrite D. simpl. exact D.
  - destruct (a_buf a) as [|x r] eqn:B; [discriminate|].
    match type of H with (if ?c then _ else _) = _ => destruct c; [|discriminate] end.
    set (a1 := maybe_resume (with_buf (take k (x :: r)) a)) in *.
    destruct (a_buf_maybe_resume (with_buf (take k (x :: r)) a)) as [Q1 Q2]. fold a1 in Q1, Q2.
    assert (S1 : buf_size (a_buf a1) = buf_size (x :: r) - k) by (rewrite Q1; unfold with_buf; cbn [a_buf]; apply buf_size_take).
    assert (D1 : a_dead a1 = a_dead a) by (rewrite Q2; reflexivity).
    clear Q1 Q2. clearbody a1.
    destruct (a_buf a1) eqn:B2.
    + destruct (w_closing (a_w a1)); inversion H; subst; simpl; rewrite ?B2, ?D1;
        (split; [tauto | first [exact S1 | rewrite B2 in S1; exact S1]]).
    + inversion H; subst. simpl. rewrite ?B2, ?D1. split; [tauto | first [exact S1 | rewrite B2 in S1; exact S1]].
  - destruct (a_dead a); [discriminate|]. inversion H; subst. simpl. split; [tauto|reflexivity].
  - destruct (w_closing (a_w a)); [discriminate|]. inversion H; subst.
    destruct (a_buf a) eqn:B; simpl; rewrite ?B; (split; [tauto|reflexivity]).
  - destruct (a_dead a && negb (w_lost (a_w a))); [|discriminate]. inversion H; subst. simpl. split; [tauto|reflexivity].
  - apply lift_same in H. destruct H as [Hb Hd]. rewrite Hb, Hd. split; [tauto|reflexivity].
  - apply lift_same in H. destruct H as [Hb Hd]. rewrite Hb, Hd. split; [tauto|reflexivity].
  - apply lift_same in H. destruct H as [Hb Hd]. rewrite Hb, Hd. split; [tauto|reflexivity].
Qed.

(* ---- the contents follow the counts, and nothing is duplicated, reordered or (while the transport lives) lost *)
Definition cinv (c : cad) : Prop :=
  length (k_buf c) = buf_size (a_buf (k_ad c))
  /\ exists lost, k_handed c = k_wire c ++ k_buf c ++ lost /\ (a_dead (k_ad c) = false -> lost = []).

Lemma cinv_init : forall cfg n, cinv (cad_init cfg n).
Proof. intros. split; [reflexivity|]. exists []. split; [reflexivity|]. intros _; reflexivity. Qed.

Lemma length_zero_nil : forall {X} (l : list X), length l = 0 -> l = [].
Proof. intros X [|x l] H; [reflexivity|discriminate]. Qed.

Lemma cad_step_inv : forall c l c', cinv c -> cad_step c l = Some c' -> cinv c'.
Proof.
  intros c l c' (HL & lost & HH & HA) Hs. unfold cad_step in Hs.
  destruct l as [t data k|t chunks k|a].
  - simpl count_label in Hs.
    destruct (ad_step (k_ad c) (ASend t (length data) k)) as [[a' o]|] eqn:E; [|discriminate].
    destruct (ad_step_size _ _ _ _ E) as [Hm Hsz].
    unfold contents_step in Hs.
    destruct (a_dead (k_ad c) || (length data =? 0)) eqn:Ec; cbv iota in Hsz.
    + inversion Hs; subst; clear Hs. unfold cinv. simpl. split; [lia|]. exists lost. split; [assumption|].
      intro D. apply HA. destruct (a_dead (k_ad c)) eqn:D0; [rewrite (Hm eq_refl) in D; discriminate|reflexivity].
    + assert (Dal : a_dead (k_ad c) = false) by (destruct (a_dead (k_ad c)); [discriminate|reflexivity]).
      rewrite (HA Dal) in HH. rewrite app_nil_r in HH.
      destruct (a_buf (k_ad c)) as [|x r] eqn:B.
      * simpl in HL. apply length_zero_nil in HL. rewrite HL in HH. rewrite app_nil_r in HH.
        inversion Hs; subst; clear Hs. unfold cinv. simpl. split.
        { rewrite skipn_length. lia. }
        exists []. split; [|reflexivity]. rewrite app_nil_r, HH, <- app_assoc. rewrite firstn_skipn. reflexivity.
      * inversion Hs; subst; clear Hs. unfold cinv. simpl. split.
        { rewrite app_length. simpl in Hsz, HL. lia. }
        exists []. split; [|reflexivity]. rewrite app_nil_r, HH, app_assoc. reflexivity.
  - simpl count_label in Hs.
    destruct (ad_step (k_ad c) (ASendIter t (length (concat chunks)) k)) as [[a' o]|] eqn:E; [|discriminate].
    destruct (ad_step_size _ _ _ _ E) as [Hm Hsz].
    unfold contents_step in Hs.
    destruct (a_dead (k_ad c) || (length (concat chunks) =? 0)) eqn:Ec; cbv iota in Hsz.
    + inversion Hs; subst; clear Hs. unfold cinv. simpl. split; [lia|]. exists lost. split; [assumption|].
      intro D. apply HA. destruct (a_dead (k_ad c)) eqn:D0; [rewrite (Hm eq_refl) in D; discriminate|reflexivity].
    + assert (Dal : a_dead (k_ad c) = false) by (destruct (a_dead (k_ad c)); [discriminate|reflexivity]).
      rewrite (HA Dal) in HH. rewrite app_nil_r in HH.
      inversion Hs; subst; clear Hs. unfold cinv. simpl. split.
      { rewrite skipn_length, app_length. lia. }
      exists []. split; [|reflexivity]. rewrite app_nil_r, HH, <- !app_assoc. rewrite firstn_skipn. reflexivity.
  - destruct (is_send_label a) eqn:Es; [discriminate|].
    destruct (ad_step (k_ad c) a) as [[a' o]|] eqn:E; [|discriminate].
    destruct (ad_step_size _ _ _ _ E) as [Hm Hsz].
    assert (Hkeep : a_dead a' = false -> lost = []).
    { intro D. apply HA. destruct (a_dead (k_ad c)) eqn:D0; [rewrite (Hm eq_refl) in D; discriminate|reflexivity]. }
    destruct a as [t n k|t n k|t n ok|k| | |e|t|f|t]; try discriminate; simpl in Hs; inversion Hs; subst; clear Hs; unfold cinv; simpl.
    + (* AReady *) split; [rewrite skipn_length; lia|]. exists lost. split; [|assumption].
      rewrite HH, <- !app_assoc. rewrite (app_assoc (firstn k (k_buf c))), firstn_skipn. reflexivity.
    + (* AKill *) split; [lia|]. exists (k_buf c ++ lost). split; [simpl; assumption|].
      intro D. exfalso. simpl in E. destruct (a_dead (k_ad c)); [discriminate|]. inversion E; subst. discriminate.
    + split; [lia|]. exists lost. split; assumption.
    + split; [lia|]. exists lost. split; assumption.
    + split; [lia|]. exists lost. split; assumption.
    + split; [lia|]. exists lost. split; assumption.
    + split; [lia|]. exists lost. split; assumption.
Qed.

Lemma creach_inv : forall cfg n c, creach cfg n c -> cinv c.
Proof. induction 1; [apply cinv_init | eapply cad_step_inv; eassumption]. Qed.

(* the bytes the kernel took are a prefix of the bytes handed to the transport; while the transport lives, the rest
   is exactly the user-space buffer; and the contents have the size the flow-control model counts *)
Lemma adapter_exact : forall cfg n c,
  creach cfg n c ->
  (exists rest, k_handed c = k_wire c ++ rest)
  /\ (a_dead (k_ad c) = false -> k_handed c = k_wire c ++ k_buf c)
  /\ length (k_buf c) = buf_size (a_buf (k_ad c)).
Proof.
  intros cfg n c H. destruct (creach_inv _ _ _ H) as (HL & lost & HH & HA).
  split; [exists (k_buf c ++ lost); assumption|]. split; [|assumption].
  intro D. rewrite (HA D) in HH. rewrite app_nil_r in HH. assumption.
Qed.

(* what has been handed to the transport is the concatenation, in call order, of the data of the sends that found it
   alive: each packet's chunks contiguous and in order, exactly once *)
Lemma handed_is_concat_of_sends : forall ls c c',
  cad_run c ls = Some c' -> k_handed c' = k_handed c ++ handed_of c ls.
Proof.
  induction ls as [|l r IH]; intros c c' H; simpl in *.
  - inversion H; subst. rewrite app_nil_r. reflexivity.
  - destruct (cad_step c l) as [c1|] eqn:E; [|discriminate].
    rewrite (IH c1 c' H). rewrite app_assoc. f_equal.
    unfold cad_step in E. destruct l as [t data k|t chunks k|a].
    + destruct (ad_step (k_ad c) (count_label (CSend t data k))) as [[a' o]|]; [|discriminate].
      unfold contents_step in E. destruct (a_dead (k_ad c)) eqn:D; simpl in E.
      * inversion E; subst. simpl. rewrite app_nil_r. reflexivity.
      * destruct (length data =? 0) eqn:Z.
        -- inversion E; subst. simpl. apply Nat.eqb_eq in Z. apply length_zero_nil in Z. subst. rewrite app_nil_r. reflexivity.
        -- destruct (a_buf (k_ad c)); inversion E; subst; reflexivity.
    + destruct (ad_step (k_ad c) (count_label (CSendIter t chunks k))) as [[a' o]|]; [|discriminate].
      unfold contents_step in E. destruct (a_dead (k_ad c)) eqn:D; simpl in E.
      * inversion E; subst. simpl. rewrite app_nil_r. reflexivity.
      * destruct (length (concat chunks) =? 0) eqn:Z.
        -- inversion E; subst. simpl. apply Nat.eqb_eq in Z. apply length_zero_nil in Z. rewrite Z, app_nil_r. reflexivity.
        -- inversion E; subst; reflexivity.
    + destruct (is_send_label a); [discriminate|].
      destruct (ad_step (k_ad c) a) as [[a' o]|]; [|discriminate].
      destruct a; simpl in E; inversion E; subst; simpl; rewrite app_nil_r; reflexivity.
Qed.
