(* C13: local forms of interrupt_on_time and shield_runs_to_completion_then_delivers (every state, not only reachable). *)
From Coq Require Import ZArith List Bool Arith Lia.
From EN Require Import Conc.CancelScope.
Import ListNotations.

Lemma nth_upd_eq : forall (A : Type) (l : list A) k x d, k < length l -> nth k (upd l k x) d = x.
Proof.
  induction l as [|a l IH]; intros k x d Hk; simpl in Hk; [lia|].
  destruct k; simpl; [reflexivity|]. apply IH; lia.
Qed.

Definition no_shield (k : list frame) : Prop := forall f, In f k -> is_shield f = false.

(* without a shield driver on the coroutine stack a resumption reaches the innermost await unchanged *)
Lemma resume_in_no_shield : forall k v st, no_shield k -> resume_in k v st = (st, k, RDeliver v).
Proof.
  induction k as [|fr k IH]; intros v st H; simpl; [reflexivity|].
  rewrite IH by (intros f Hf; apply H; right; exact Hf).
  assert (Hs : is_shield fr = false) by (apply H; left; reflexivity).
  destruct fr; try reflexivity. discriminate.
Qed.

(* Task.cancel() on a live task always leaves a mark: _must_cancel, or the awaited future is now cancelled *)
Lemma task_cancel_marks : forall st m, task_done st = false ->
  t_must (task_cancel st m) = true \/
  exists f, t_waiter (task_cancel st m) = Some f /\ exists m', f_st (get_fut (task_cancel st m) f) = FCanc m'.
Proof.
  intros st m Hd. unfold task_cancel. rewrite Hd.
  set (st1 := set_t_cnt st (S (t_cnt st))).
  destruct (t_waiter st1) as [f|] eqn:Ew; [|left; reflexivity].
  unfold fut_cancel, fut_finish.
  destruct (f_st (get_fut st1 f)) eqn:Ef.
  - right. exists f. cbn [fst snd].
    assert (P : forall cbs s0, t_waiter (schedule_cbs s0 f cbs) = t_waiter s0 /\ futs (schedule_cbs s0 f cbs) = futs s0).
    { induction cbs as [|c cbs IHc]; intros s0; cbn [schedule_cbs]; [split; reflexivity|].
      destruct (IHc (fst (call_soon s0 (HFutCb f c)))) as [A B]. rewrite A, B. split; reflexivity. }
    set (cbs0 := f_cbs (get_fut st1 f)).
    destruct (P cbs0 (put_fut st1 f (mkFut (FCanc m) []))) as [A B].
    split.
    + rewrite A. exact Ew.
    + exists m. unfold get_fut. rewrite B. unfold put_fut. simpl.
      assert (L : f < length (futs st1)).
      { destruct (lt_dec f (length (futs st1))) as [L|L]; [exact L|].
        unfold get_fut in Ef. rewrite nth_overflow in Ef by lia. discriminate. }
      change (futs st1) with (futs st) in *. rewrite nth_upd_eq by exact L. reflexivity.
  - left. reflexivity.
  - left. reflexivity.
  - left. reflexivity.
Qed.

(* interrupt_on_time, local form: a task marked _must_cancel resumes its innermost await point -- a bare yield or a
   sleep, with no shield driver anywhere on the coroutine stack -- by CancelledError, whatever value the wake-up
   carried *)
Lemma must_cancel_interrupts : forall st v k w,
  t_must st = true -> frames st = FWait w :: k -> no_shield k ->
  (forall id, w <> WShYield id) ->
  exists m, md (task_step st v) = MRun (CRaise (ECancel m)).
Proof.
  intros st v k w Hm Hf Hns Hw. unfold task_step. rewrite Hm.
  set (e := match v with Some (ECancel m) => Some (ECancel m) | _ => Some (ECancel (t_msg st)) end).
  assert (He : exists m, e = Some (ECancel m)).
  { unfold e. destruct v as [[m| |]|]; eauto. }
  destruct He as [m He]. rewrite He.
  set (st1 := set_md (set_t_waiter (set_t_must st false) None) (MRun CRet)).
  assert (Hf1 : frames st1 = FWait w :: k) by exact Hf.
  rewrite Hf1.
  rewrite resume_in_no_shield.
  - exists m. destruct w as [id|id|id f h]; try reflexivity. exfalso. eapply Hw. reflexivity.
  - intros f [<-|Hin]; [reflexivity|apply Hns; exact Hin].
Qed.

(* the same for a wake-up from a future that task.cancel() cancelled *)
Lemma cancelled_future_interrupts : forall st f m k w,
  f_st (get_fut st f) = FCanc m -> frames st = FWait w :: k -> no_shield k ->
  (forall id, w <> WShYield id) ->
  exists m', md (run_cb st f CbWake) = MRun (CRaise (ECancel m')).
Proof.
  intros st f m k w Hc Hf Hns Hw. unfold run_cb. rewrite Hc.
  unfold task_step.
  set (p := if t_must st then _ else _).
  assert (P : exists st0 m', p = (st0, Some (ECancel m')) /\ frames st0 = frames st).
  { unfold p. destruct (t_must st); eexists; eexists; split; reflexivity. }
  destruct P as (st0 & m' & -> & Hf0).
  set (st1 := set_md (set_t_waiter st0 None) (MRun CRet)).
  assert (Hf1 : frames st1 = FWait w :: k) by (unfold st1; simpl; congruence).
  rewrite Hf1. rewrite resume_in_no_shield.
  - exists m'. destruct w as [id|id|id f' h]; try reflexivity. exfalso. eapply Hw. reflexivity.
  - intros fr [<-|Hin]; [reflexivity|apply Hns; exact Hin].
Qed.

(* shield, local form: a CancelledError arriving at a cancel_shielded_await driver that waits on a bare yield is not
   delivered to the coroutine it drives (the inner coroutine is resumed normally), and it is re-issued: the
   delayed-cancel dictionary holds its message and a __cancel_task_unless_done handle is at the back of the queue,
   followed by the dictionary pop *)
Lemma shield_swallows_then_redelivers : forall st id last m outer,
  delayed st = None ->
  exists st', shield_resume st id ShNone last (Some (ECancel m)) outer
              = (st', FShield id ShRun None true :: outer, RDeliver None) /\
    delayed st' = Some (nexth st, m) /\
    ready st' = ready st ++ [mkH (nexth st) (HDelayedCancel m) false; mkH (S (nexth st)) HDelayedPop false].
Proof.
  intros st id last m outer Hd. unfold shield_resume, shield_proceed. cbn [cancel_msg_of].
  unfold reschedule_delayed.
  rewrite Hd. cbn. eexists. split; [reflexivity|]. split; [reflexivity|]. rewrite <- app_assoc. reflexivity.
Qed.

(* ... and when that handle runs the task is cancelled again with the same message, cancelling() unchanged overall
   (uncancel + cancel) unless the counter was at zero *)
Lemma delayed_cancel_recancels : forall st m, task_done st = false ->
  let st' := run_handle st (HDelayedCancel m) in
  (t_must st' = true \/ exists f, t_waiter st' = Some f /\ exists m', f_st (get_fut st' f) = FCanc m') /\
  (0 < t_cnt st -> t_cnt st' = t_cnt st).
Proof.
  intros st m Hd. cbn [run_handle]. rewrite Hd. split.
  - apply task_cancel_marks. unfold task_uncancel. destruct (t_cnt st); exact Hd.
  - intro Hp. unfold task_uncancel. destruct (t_cnt st) as [|n] eqn:E; [lia|].
    unfold task_cancel. 
    assert (Hd1 : task_done (set_t_cnt st n) = false) by exact Hd. rewrite Hd1.
    set (st1 := set_t_cnt (set_t_cnt st n) (S (t_cnt (set_t_cnt st n)))).
    assert (C1 : t_cnt st1 = S n) by reflexivity.
    destruct (t_waiter st1) as [f|]; [|reflexivity].
    unfold fut_cancel, fut_finish. destruct (f_st (get_fut st1 f)); cbn [fst snd]; try reflexivity.
    assert (P : forall cbs s0, t_cnt (schedule_cbs s0 f cbs) = t_cnt s0).
    { induction cbs as [|c cbs IHc]; intros s0; cbn [schedule_cbs]; [reflexivity|]. rewrite IHc. reflexivity. }
    rewrite P. reflexivity.
Qed.
