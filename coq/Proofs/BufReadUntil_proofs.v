(* _buffered_readuntil + BufferedStreamDataConsumer: the buffer-filling path delivers exactly the specification *)
From Coq Require Import ZArith List Bool Lia Arith.
From EN Require Import Lib.Bytes Frame.Framer Frame.BufReadUntil Stream.Consumer Stream.SpecDecode
  Proofs.Bytes_proofs Proofs.ReadUntil_proofs.
Import ListNotations.

Lemma firstn_firstn_le {X} (i j : nat) (l : list X) : i <= j -> firstn i (firstn j l) = firstn i l.
Proof. intros H. rewrite firstn_firstn. f_equal. lia. Qed.

Lemma firstn_skipn_swap {X} (n m : nat) (l : list X) : firstn m (skipn n l) = skipn n (firstn (n + m) l).
Proof. symmetry. apply skipn_firstn_comm' || idtac. revert l; induction n as [|n IH]; intros l; simpl; [reflexivity|].
  destruct l; [rewrite firstn_nil; reflexivity | apply IH]. Qed.

Lemma write_at_length mem off (d : bytes) : off + length d <= length mem -> length (write_at mem off d) = length mem.
Proof. intros H. unfold write_at. rewrite !app_length, firstn_length, skipn_length. lia. Qed.

Lemma write_at_firstn mem off (d : bytes) :
  off + length d <= length mem -> firstn (off + length d) (write_at mem off d) = firstn off mem ++ d.
Proof.
  intros H. unfold write_at. rewrite app_assoc.
  rewrite firstn_app_le by (rewrite app_length, firstn_length; lia).
  apply firstn_all2. rewrite app_length, firstn_length. lia.
Qed.

Section BRU.
  Context {P : Type}.
  Variable sep : bytes.
  Variable limit : nat.
  Variable keep_end : bool.
  Variable dec : decoder P.
  Variable sizehint : nat.
  Hypothesis sep_ne : sep <> [].

  Let sl := length sep.
  Hypothesis limit_ok : sl + 1 <= limit.     (* an empty frame fits: otherwise nothing can ever be received *)

  Let F := bru_framer sep limit keep_end dec.
  Let L := limit - 1 - sl.                    (* the generator's own limit *)

  Notation spec_events := (spec_events sep keep_end dec).
  Notation frame_event := (frame_event sep keep_end dec).
  Notation safe := (safe sep L).

  (* the scan, as a function of the received bytes only *)
  Definition bscan (data : bytes) (off : nat) : bres (nat * nat) P :=
    let buflen := length data in
    if Nat.leb sl (buflen - off) then
      match find sep data off with
      | Some i =>
          match dec (firstn (if keep_end then i + sl else i) data) with
          | Some p => BDone p (skipn (i + sl) data)
          | None => BFail EDecode (skipn (i + sl) data)
          end
      | None =>
          if Nat.ltb L (buflen + 1 - sl) then BFail ELimit (overrun_remainder sep data (buflen + 1 - sl))
          else BNeed (buflen, buflen + 1 - sl) buflen
      end
    else BNeed (buflen, off) buflen.

  Lemma bru_scan_data mem buflen off :
    buflen <= length mem -> length mem = limit ->
    bru_scan sep keep_end dec mem buflen off = bscan (firstn buflen mem) off.
  Proof.
    intros Hb Hm. unfold bru_scan, bscan, bseplen. fold sl. rewrite firstn_length. rewrite Nat.min_l by exact Hb.
    destruct (Nat.leb_spec sl (buflen - off)) as [Hc|Hc]; [|reflexivity].
    unfold find_in.
    destruct (find sep (firstn buflen mem) off) as [i|] eqn:Ef.
    - apply find_Some in Ef as (_ & Hocc & _). pose proof (occ_bound _ _ _ sep_ne Hocc) as Hbd.
      rewrite firstn_length, Nat.min_l in Hbd by exact Hb. fold sl in Hbd.
      rewrite firstn_firstn_le by (destruct keep_end; lia).
      rewrite firstn_skipn_swap. replace (i + sl + (buflen - (i + sl))) with buflen by lia. reflexivity.
    - rewrite Hm.
      destruct (Z.ltb_spec (Z.of_nat limit - 1 - Z.of_nat sl) (Z.of_nat (buflen + 1 - sl)));
        destruct (Nat.ltb_spec L (buflen + 1 - sl)); unfold L in *; try reflexivity; lia.
  Qed.

  (* invariant of a suspended scan *)
  Definition bru_inv (data : bytes) (off : nat) : Prop :=
    (off = 0 \/ off + sl <= length data + 1) /\ forall j, j < off -> occ sep data j = false.

  Lemma sl_pos' : 1 <= sl.
  Proof. unfold sl. destruct sep; [congruence | simpl; lia]. Qed.

  Lemma bru_inv_0 data : bru_inv data 0.
  Proof. split; [left; reflexivity | intros; lia]. Qed.

  Lemma bru_inv_app data off d : bru_inv data off -> bru_inv (data ++ d) off.
  Proof.
    intros (H1 & H2). split.
    - destruct H1 as [->|H1]; [left; reflexivity | right; rewrite app_length; lia].
    - intros j Hj. destruct H1 as [->|H1]; [lia|]. rewrite occ_app_inv by (fold sl; lia). apply H2; exact Hj.
  Qed.

  Lemma bru_inv_off_le data off : bru_inv data off -> off <= length data.
  Proof. pose proof sl_pos'. intros ([->|H1] & _); lia. Qed.

  Lemma bscan_found data off p :
    bru_inv data off -> find0 sep data = Some p ->
    bscan data off = match dec (firstn (if keep_end then p + sl else p) data) with
                     | Some x => BDone x (skipn (p + sl) data)
                     | None => BFail EDecode (skipn (p + sl) data)
                     end.
  Proof.
    intros Hinv Hf. pose proof (bru_inv_off_le _ _ Hinv) as Hle. destruct Hinv as (H1 & H2).
    pose proof (find0_Some _ _ _ Hf) as [Hocc _].
    pose proof (occ_bound _ _ _ sep_ne Hocc) as Hb. fold sl in Hb.
    assert (Hp : off <= p).
    { destruct (le_lt_dec off p); [assumption|]. rewrite H2 in Hocc by assumption. discriminate. }
    unfold bscan. destruct (Nat.leb_spec sl (length data - off)) as [_|Hc]; [|lia].
    rewrite find_eq_find0 by assumption. rewrite Hf. reflexivity.
  Qed.

  (* once a scan has happened every further byte triggers a new one; before, fewer than sl bytes are held *)
  Definition bru_fresh (data : bytes) (off : nat) : Prop := off = 0 -> length data < sl \/ True.

  Lemma bscan_none data off :
    bru_inv data off -> find0 sep data = None ->
    (length data + 2 <= limit ->
       exists off', bscan data off = BNeed (length data, off') (length data) /\ bru_inv data off') /\
    (limit < length data + 2 -> sl <= length data - off ->
       bscan data off = BFail ELimit (overrun_remainder sep data (length data + 1 - sl))).
  Proof.
    intros Hinv Hf. pose proof (bru_inv_off_le _ _ Hinv) as Hle. pose proof sl_pos' as Hsl.
    pose proof (find0_None _ _ Hf) as Hno. unfold bscan.
    destruct (Nat.leb_spec sl (length data - off)) as [Hc|Hc].
    - rewrite find_eq_find0 by (try assumption; intros; apply Hno). rewrite Hf. split.
      + intros Hl. destruct (Nat.ltb_spec L (length data + 1 - sl)) as [Hx|_]; [unfold L in Hx; lia|].
        eexists; split; [reflexivity|]. split; [right; lia | intros; apply Hno].
      + intros Hl _. destruct (Nat.ltb_spec L (length data + 1 - sl)) as [_|Hx]; [reflexivity | unfold L in Hx; lia].
    - split.
      + intros Hl. eexists; split; [reflexivity | exact Hinv].
      + intros _ Hc'. lia.
  Qed.

  (* ---------------- consumer states ---------------- *)
  Definition mkb (m : option bytes) (st al : nat) (ex : option (nat * nat)) (co : option (nat * nat)) : bcstate F :=
    @Build_bcstate P F m st al ex co.

  Definition mem_ok (m : option bytes) : Prop := match m with None => True | Some x => length x = limit end.

  (* drained states: holding the separator-free tail w *)
  Inductive brep : bcstate F -> bytes -> Prop :=
  | brep_idle (m : option bytes) st : mem_ok m -> brep (mkb m st 0 None None) []
  | brep_wait (m : bytes) off (w : bytes) :
      length m = limit -> w <> [] -> length w + 2 <= limit -> firstn (length w) m = w ->
      bru_inv w off -> find0 sep w = None ->
      (off = 0 -> length w < sl \/ length w + 1 - sl = 0 \/ True) ->
      brep (mkb (Some m) (length w) 0 None (Some (length w, off))) w.

  (* states with a saved remainder r still to be examined by next(None) *)
  Inductive bpend : bcstate F -> bytes -> Prop :=
  | bpend_nil c : brep c [] -> bpend c []
  | bpend_some (m : bytes) (r : bytes) :
      length m = limit -> r <> [] -> firstn (length r) m = r ->
      bpend (mkb (Some m) 0 (length r) None (Some (0, 0))) r.

  Lemma bfind0_nil : find0 sep [] = None.
  Proof. destruct sep; [congruence | reflexivity]. Qed.

  Lemma brep_nosep c w : brep c w -> find0 sep w = None.
  Proof. intros [|]; [apply bfind0_nil | assumption]. Qed.

  Lemma bc_save_remainder_ne (c : bcstate F) (rest : bytes) :
    rest <> [] ->
    bc_save_remainder F sizehint c rest =
      let '(c1, v) := bc_get_write_buffer F sizehint c in
      match bmem c1, v with
      | Some mem, Some (off, _) =>
          @Build_bcstate P F (Some (write_at mem off rest)) (bstart c1) (balready c1 + length rest) None (bcons c1)
      | _, _ => c1
      end.
  Proof. destruct rest; [congruence | reflexivity]. Qed.

  Lemma save_remainder (m : bytes) st (rest : bytes) :
    length m = limit -> length rest <= limit ->
    bpend (bc_save_remainder F sizehint (mkb (Some m) st 0 None None) rest) rest.
  Proof.
    intros Hm Hr. destruct rest as [|b0 r0].
    - constructor. constructor. exact Hm.
    - remember (b0 :: r0) as rest eqn:E. assert (Hne : rest <> []) by (subst; discriminate).
      rewrite (bc_save_remainder_ne _ _ Hne).
      unfold bc_get_write_buffer. cbn [bexported bmem bcons mkb binit F bru_framer balready bstart fst snd].
      assert (Hl : Nat.eqb (length m - 0) 0 = false) by (apply Nat.eqb_neq; pose proof sl_pos'; lia).
      cbn [Nat.add]. rewrite Hl. cbn [bmem bstart balready bcons].
      assert (Hw : length (write_at m 0 rest) = limit) by (rewrite write_at_length; simpl; lia).
      pose proof (write_at_firstn m 0 rest ltac:(simpl; lia)) as Hf. simpl in Hf.
      change (bpend (mkb (Some (write_at m 0 rest)) 0 (length rest) None (Some (0, 0))) rest).
      constructor; assumption.
  Qed.

  (* lemmas of the copying development, instantiated at the buffered band L *)
  Let ev_step := @spec_events_step P sep L keep_end dec sep_ne.
  Let ev_none := @spec_events_none P sep keep_end dec.
  Let ev_app := @spec_events_app P sep L keep_end dec sep_ne.
  Let sf_app_l := @safe_app_l P sep L keep_end dec sep_ne.
  Let sf_tail := safe_tail sep L.
  Let sf_tail_app := @safe_tail_app P sep L keep_end dec sep_ne.
  Let ev_tail_len := @spec_tail_len P sep keep_end dec.
  Let fe_app := @frame_event_app P sep L keep_end dec.
  Let sf_nosep_len := safe_nosep_len sep L.

  Lemma safe_tail_bound s : safe s -> find0 sep s = None -> length s + 2 <= limit.
  Proof.
    intros Hs E. pose proof (sf_nosep_len _ Hs E) as H. fold sl in H. unfold L in H. pose proof sl_pos'. lia.
  Qed.

  Definition bcres (m : bytes) (st0 : nat) (r : bres (nat * nat) P) : bcstate F * nres P :=
    match r with
    | BNeed s start => (mkb (Some m) start 0 None (Some s), RStop)
    | BDone p rest => (bc_save_remainder F sizehint (mkb (Some m) st0 0 None None) rest, RPkt p)
    | BFail e rest => (bc_save_remainder F sizehint (mkb (Some m) st0 0 None None) rest, RErr e)
    | BCrash => (mkb None st0 0 None None, RCrash)
    end.

  Lemma bcnext_none_idle m st : bcnext F sizehint (mkb m st 0 None None) None = (mkb m st 0 None None, RStop).
  Proof. reflexivity. Qed.

  Lemma bcnext_none_pend (m : bytes) (r : bytes) :
    length m = limit -> r <> [] -> firstn (length r) m = r -> length r <= limit ->
    bcnext F sizehint (mkb (Some m) 0 (length r) None (Some (0, 0))) None = bcres m 0 (bscan r 0).
  Proof.
    intros Hm Hne Hf Hl. unfold bcnext. cbn [bexported bcons mkb balready bmem bstart].
    assert (Hz : Nat.eqb (0 + length r) 0 = false) by (apply Nat.eqb_neq; destruct r; [congruence | simpl; lia]).
    rewrite Hz. cbn [bfeed F bru_framer bru_feed]. rewrite bru_scan_data by (simpl; lia). cbn [Nat.add]. rewrite Hf.
    destruct (bscan r 0); reflexivity.
  Qed.

  (* one recv_into round on a drained consumer *)
  Lemma bcround c w (data : bytes) :
    brep c w -> data <> [] ->
    let d := firstn (limit - length w) data in
    exists (m : bytes) off, length m = limit /\ bru_inv (w ++ d) off /\
      firstn (length w + length d) m = w ++ d /\
      (off = 0 \/ off + sl <= length w + 1) /\
      let '(c1, v) := bc_get_write_buffer F sizehint c in
      v = Some (length w, limit - length w) /\
      bcnext F sizehint (bc_fill F c1 d) (Some (length d)) = bcres m (length w) (bscan (w ++ d) off) /\
      d <> [] /\ length w + length d <= limit.
  Proof.
    intros Hc Hne d. pose proof sl_pos' as Hsl.
    assert (Hdl : length d = Nat.min (limit - length w) (length data)) by (unfold d; apply firstn_length).
    revert d Hdl. destruct Hc as [m0 st Hm0 | m0 off w Hm0 Hwne Hwl Hwf Hinv Hnf _]; intros d Hdl.
    - (* idle: a fresh generator starts at position 0 *)
      set (m1 := match m0 with Some x => x | None => repeat 0%N limit end).
      assert (Hm1 : length m1 = limit) by (unfold m1; destruct m0; [exact Hm0 | apply repeat_length]).
      exists (write_at m1 0 d), 0. cbn [length app] in *. rewrite Nat.sub_0_r in *.
      assert (Hdne : d <> []).
      { unfold d. destruct data; [congruence|]. destruct limit; [lia | simpl; discriminate]. }
      assert (Hdle : length d <= limit) by lia.
      split; [rewrite write_at_length; simpl; lia|]. split; [apply bru_inv_0|].
      split; [exact (write_at_firstn m1 0 d ltac:(simpl; lia))|]. split; [left; reflexivity|].
      unfold bc_get_write_buffer. cbn [bexported mkb bmem bcons binit F bru_framer balloc balready bstart].
      fold m1. cbn [Nat.add]. rewrite Hm1. rewrite Nat.sub_0_r.
      assert (Hz : Nat.eqb limit 0 = false) by (apply Nat.eqb_neq; lia). rewrite Hz.
      split; [reflexivity|]. split; [|split; [exact Hdne | lia]].
      unfold bc_fill, bcnext. cbn [bmem bexported bcons balready bstart].
      assert (Hbad : Nat.ltb limit (length d) = false) by (apply Nat.ltb_ge; lia). rewrite Hbad.
      assert (Hz2 : Nat.eqb (length d + 0) 0 = false) by (apply Nat.eqb_neq; destruct d; [congruence | simpl; lia]).
      rewrite Hz2. cbn [bfeed F bru_framer bru_feed]. rewrite bru_scan_data by (rewrite ?write_at_length; simpl; lia).
      pose proof (write_at_firstn m1 0 d ltac:(simpl; lia)) as Hw. cbn [Nat.add firstn app] in Hw.
      replace (0 + (length d + 0)) with (length d) by lia. rewrite Hw.
      destruct (bscan d 0); reflexivity.
    - (* suspended generator: the view starts at the bytes already received *)
      exists (write_at m0 (length w) d), off.
      assert (Hdne : d <> []).
      { unfold d. destruct data; [congruence|]. destruct (limit - length w) eqn:Ev; [lia | simpl; discriminate]. }
      assert (Hdle : length w + length d <= limit) by lia.
      split; [rewrite write_at_length; lia|]. split; [apply bru_inv_app; exact Hinv|].
      split; [rewrite write_at_firstn by lia; rewrite Hwf; reflexivity|]. split; [exact (proj1 Hinv)|].
      unfold bc_get_write_buffer. cbn [bexported mkb bmem bcons balready bstart].
      rewrite Nat.add_0_r. rewrite Hm0.
      assert (Hz : Nat.eqb (limit - length w) 0 = false) by (apply Nat.eqb_neq; lia). rewrite Hz.
      split; [reflexivity|]. split; [|split; [exact Hdne | lia]].
      unfold bc_fill, bcnext. cbn [bmem bexported bcons balready bstart].
      assert (Hbad : Nat.ltb (limit - length w) (length d) = false) by (apply Nat.ltb_ge; lia). rewrite Hbad.
      assert (Hz2 : Nat.eqb (length d + 0) 0 = false) by (apply Nat.eqb_neq; destruct d; [congruence | simpl; lia]).
      rewrite Hz2. cbn [bfeed F bru_framer bru_feed]. rewrite bru_scan_data by (rewrite ?write_at_length; lia).
      replace (length w + (length d + 0)) with (length w + length d) by lia.
      rewrite write_at_firstn by lia. rewrite Hwf.
      destruct (bscan (w ++ d) off); reflexivity.
  Qed.

  Lemma bpend_len c r : bpend c r -> length r <= limit.
  Proof.
    intros [c0 _|m r0 Hm _ Hf]; [simpl; lia|]. rewrite <- Hf at 1. rewrite firstn_length. lia.
  Qed.

  (* next(None) until StopIteration on a consumer with a saved remainder *)
  Lemma bdrain_spec fuel : forall c r,
    bpend c r -> safe r -> length r < fuel ->
    exists c', bcdrain F sizehint fuel c = (c', fst (spec_events r)) /\ brep c' (snd (spec_events r)).
  Proof.
    induction fuel as [|f IH]; intros c r Hp Hs Hf; [lia|]. pose proof sl_pos' as Hsl.
    pose proof (bpend_len _ _ Hp) as Hrl.
    destruct Hp as [c Hc|m r Hm Hne Hfm].
    - inversion Hc as [m st Hm|]; subst; [|congruence].
      cbn [bcdrain]. rewrite bcnext_none_idle. rewrite (ev_none _ bfind0_nil).
      eexists; split; [reflexivity | exact Hc].
    - cbn [bcdrain]. rewrite (bcnext_none_pend _ _ Hm Hne Hfm Hrl).
      destruct (find0 sep r) as [p|] eqn:E.
      + rewrite (bscan_found _ _ _ (bru_inv_0 r) E).
        destruct (sf_tail _ _ Hs E) as [_ Hrest].
        pose proof (find0_Some _ _ _ E) as [Hocc _]. pose proof (occ_bound _ _ _ sep_ne Hocc) as Hb. fold sl in Hb.
        rewrite (ev_step _ _ E). unfold SpecDecode.frame_event. fold sl.
        assert (Hp1 : bpend (bc_save_remainder F sizehint (mkb (Some m) 0 0 None None) (skipn (p + sl) r)) (skipn (p + sl) r))
          by (apply save_remainder; [exact Hm | rewrite skipn_length; lia]).
        destruct (IH _ (skipn (p + sl) r) Hp1 Hrest) as (c' & Hd & Hc'); [rewrite skipn_length; lia|].
        destruct (dec _); cbn [bcres]; rewrite Hd; eexists; (split; [reflexivity | exact Hc']).
      + pose proof (safe_tail_bound _ Hs E) as Hbound.
        destruct (bscan_none _ _ (bru_inv_0 r) E) as [Hn _].
        destruct (Hn Hbound) as (off' & Hscan & Hinv'). rewrite Hscan. cbn [bcres].
        rewrite (ev_none _ E). eexists; split; [reflexivity|]. cbn [snd].
        apply brep_wait; try assumption. intros _; right; right; exact I.
  Qed.

  Lemma firstn_min_skipn {X} k (l : list X) : firstn k l ++ skipn (length (firstn k l)) l = l.
  Proof.
    rewrite firstn_length. destruct (le_lt_dec k (length l)).
    - rewrite Nat.min_l by lia. apply firstn_skipn.
    - rewrite Nat.min_r by lia. rewrite firstn_all2 by lia. rewrite skipn_all. apply app_nil_r.
  Qed.

  (* one receive round: get_write_buffer, recv_into, next(n), then drain *)
  Lemma bcstep_spec fuel c w (data y : bytes) :
    brep c w -> data <> [] ->
    let d := firstn (limit - length w) data in
    safe ((w ++ d) ++ y) -> length (w ++ d) < fuel ->
    exists c', bcstep F sizehint fuel c data = (c', fst (spec_events (w ++ d)), length d) /\
               brep c' (snd (spec_events (w ++ d))) /\ d <> [].
  Proof.
    intros Hc Hne d Hs Hf. pose proof sl_pos' as Hsl.
    destruct (bcround c w data Hc Hne) as (m & off & Hm & Hinv & Hfm & _ & Hround). fold d in Hinv, Hfm, Hround.
    unfold bcstep. destruct (bc_get_write_buffer F sizehint c) as [c1 v].
    destruct Hround as (-> & Hnext & Hdne & Hdl). fold d. rewrite Hnext.
    pose proof (sf_app_l _ _ Hs) as Hs1.
    rewrite <- app_length in Hfm.
    destruct (find0 sep (w ++ d)) as [p|] eqn:E.
    - rewrite (bscan_found _ _ _ Hinv E).
      destruct (sf_tail _ _ Hs1 E) as [_ Hrest].
      pose proof (find0_Some _ _ _ E) as [Hocc _]. pose proof (occ_bound _ _ _ sep_ne Hocc) as Hb. fold sl in Hb.
      rewrite (ev_step _ _ E). unfold SpecDecode.frame_event. fold sl.
      assert (Hp2 : bpend (bc_save_remainder F sizehint (mkb (Some m) (length w) 0 None None) (skipn (p + sl) (w ++ d)))
                          (skipn (p + sl) (w ++ d)))
        by (apply save_remainder; [exact Hm | rewrite skipn_length, app_length; lia]).
      destruct (bdrain_spec fuel _ _ Hp2 Hrest) as (c' & Hd & Hc'); [rewrite skipn_length; lia|].
      destruct (dec _); cbn [bcres]; rewrite Hd; eexists; (split; [reflexivity | split; [exact Hc' | exact Hdne]]).
    - pose proof (safe_tail_bound _ Hs1 E) as Hbound.
      destruct (bscan_none _ _ Hinv E) as [Hn _].
      destruct (Hn Hbound) as (off' & Hscan & Hinv'). rewrite Hscan. cbn [bcres].
      rewrite (ev_none _ E). eexists; split; [reflexivity|]. cbn [snd]. split; [|exact Hdne].
      apply brep_wait; try assumption.
      + destruct w; [simpl; exact Hdne | discriminate].
      + intros _; right; right; exact I.
  Qed.

  Lemma bcchunk_spec fuel rounds : forall c w (data y : bytes),
    brep c w -> safe (w ++ data ++ y) -> length data < rounds -> length (w ++ data) < fuel ->
    exists c', bcchunk F sizehint rounds fuel c data = (c', fst (spec_events (w ++ data))) /\
               brep c' (snd (spec_events (w ++ data))).
  Proof.
    induction rounds as [|k IH]; intros c w data y Hc Hs Hr Hf; [lia|].
    cbn [bcchunk]. destruct data as [|b0 data0].
    - rewrite app_nil_r. rewrite (ev_none _ (brep_nosep _ _ Hc)). eexists; split; [reflexivity | exact Hc].
    - cbv iota. set (data := b0 :: data0) in *. assert (Hne : data <> []) by (unfold data; discriminate).
      set (d := firstn (limit - length w) data).
      assert (Hsplit : d ++ skipn (length d) data = data) by apply firstn_min_skipn.
      assert (Hs' : safe ((w ++ d) ++ skipn (length d) data ++ y)).
      { rewrite <- app_assoc. rewrite (app_assoc d). rewrite Hsplit. exact Hs. }
      assert (Hdl : length d <= length data) by (unfold d; rewrite firstn_length; lia).
      destruct (bcstep_spec fuel c w data (skipn (length d) data ++ y) Hc Hne Hs') as (c1 & Hstep & Hc1 & Hdne).
      { fold d. rewrite !app_length in *. lia. }
      fold d in Hstep, Hc1, Hdne. rewrite Hstep.
      assert (Hdpos : 0 < length d) by (destruct d; [congruence | simpl; lia]).
      destruct (IH c1 (snd (spec_events (w ++ d))) (skipn (length d) data) y Hc1) as (c' & Hch & Hc').
      { apply sf_tail_app. exact Hs'. }
      { rewrite skipn_length. lia. }
      { pose proof (ev_tail_len (w ++ d)) as Hl. rewrite !app_length in *. rewrite skipn_length. lia. }
      rewrite Hch.
      assert (Heq : w ++ data = (w ++ d) ++ skipn (length d) data) by (rewrite <- app_assoc, Hsplit; reflexivity).
      rewrite Heq. rewrite (ev_app (w ++ d) (skipn (length d) data)).
      eexists; split; [reflexivity | exact Hc'].
  Qed.

  (* main theorem, buffer-filling path: whatever the transport delivers per recv_into and whatever the view
     sizes, a stream inside the safe band is decoded exactly as the specification says *)
  Theorem bcdeliver_spec cs : forall c w fuel,
    brep c w -> safe (w ++ concat cs) -> length (w ++ concat cs) < fuel ->
    exists c', bcdeliver F sizehint fuel c cs = (c', fst (spec_events (w ++ concat cs))) /\
               brep c' (snd (spec_events (w ++ concat cs))).
  Proof.
    induction cs as [|ch cs IH]; intros c w fuel Hc Hs Hf.
    - cbn [bcdeliver concat]. rewrite app_nil_r. rewrite (ev_none _ (brep_nosep _ _ Hc)).
      eexists; split; [reflexivity | exact Hc].
    - cbn [bcdeliver concat] in *.
      destruct (bcchunk_spec fuel (S (length ch)) c w ch (concat cs) Hc Hs) as (c1 & Hch & Hc1); [lia | |].
      { rewrite !app_length in *. lia. }
      rewrite Hch.
      assert (Hs' : safe ((w ++ ch) ++ concat cs)) by (rewrite <- app_assoc; exact Hs).
      destruct (IH c1 (snd (spec_events (w ++ ch))) fuel Hc1) as (c' & Hd & Hc').
      { apply sf_tail_app. exact Hs'. }
      { pose proof (ev_tail_len (w ++ ch)) as Hl. rewrite !app_length in *. lia. }
      rewrite Hd. rewrite (app_assoc w). rewrite (ev_app (w ++ ch) (concat cs)). eexists; split; [reflexivity | exact Hc'].
  Qed.

  (* ================= round-level view: arbitrary input, no safety hypothesis ================= *)

  (* every fill is what one recv_into wrote: non-empty and at most the exported view *)
  Inductive fits_run (fuel : nat) : bcstate F -> list bytes -> Prop :=
  | fr_nil c : fits_run fuel c []
  | fr_cons c (d : bytes) ds :
      d <> [] -> (forall w, brep c w -> length w + length d <= limit) ->
      fits_run fuel (fst (fst (bcstep F sizehint fuel c d))) ds -> fits_run fuel c (d :: ds).

  Lemma bscan_progress data off :
    bru_inv data off -> data <> [] -> (off = 0 \/ off + sl <= length data) -> length data <= limit ->
    match bscan data off with
    | BNeed s start => exists off', s = (length data, off') /\ start = length data /\ bru_inv data off' /\
                                   find0 sep data = None /\ length data + 2 <= limit
    | BDone _ rest => length rest < length data
    | BFail _ rest => length rest < length data
    | BCrash => False
    end.
  Proof.
    intros Hinv Hne Hoff Hlen. pose proof sl_pos' as Hsl.
    assert (Hpos : 0 < length data) by (destruct data; [congruence | simpl; lia]).
    destruct (find0 sep data) as [p|] eqn:E.
    - rewrite (bscan_found _ _ _ Hinv E).
      pose proof (find0_Some _ _ _ E) as [Hocc _]. pose proof (occ_bound _ _ _ sep_ne Hocc) as Hb. fold sl in Hb.
      destruct (dec _); rewrite skipn_length; lia.
    - destruct (bscan_none _ _ Hinv E) as [Hn Hov].
      destruct (le_lt_dec (length data + 2) limit) as [Hle|Hgt].
      + destruct (Hn Hle) as (off' & -> & Hinv'). exists off'.
        split; [reflexivity|]. split; [reflexivity|]. split; [exact Hinv'|]. split; [reflexivity | exact Hle].
      + assert (Hscan : sl <= length data - off) by (destruct Hoff as [->|Ho]; lia).
        rewrite (Hov Hgt Hscan). pose proof (overrun_remainder_len sep data (length data + 1 - sl)). lia.
  Qed.

  Lemma brep_len c w : brep c w -> w = [] \/ length w + 2 <= limit.
  Proof. intros [|]; [left; reflexivity | right; assumption]. Qed.

  Lemma bdrain_rep fuel : forall c r,
    bpend c r -> length r < fuel ->
    exists c' w' evs, bcdrain F sizehint fuel c = (c', evs) /\ brep c' w' /\ length w' <= length r.
  Proof.
    induction fuel as [|f IH]; intros c r Hp Hf; [lia|]. pose proof sl_pos' as Hsl.
    pose proof (bpend_len _ _ Hp) as Hrl.
    destruct Hp as [c Hc|m r Hm Hne Hfm].
    - inversion Hc as [m st Hm|]; subst; [|congruence].
      cbn [bcdrain]. rewrite bcnext_none_idle. exists (mkb m st 0 None None), [], []. repeat split; [exact Hc | simpl; lia].
    - cbn [bcdrain]. rewrite (bcnext_none_pend _ _ Hm Hne Hfm Hrl).
      pose proof (bscan_progress r 0 (bru_inv_0 r) Hne (or_introl eq_refl) Hrl) as Hp.
      destruct (bscan r 0) as [s start|x rest|e rest|]; cbn [bcres].
      + destruct Hp as (off' & -> & -> & Hinv' & Hnf & Hb).
        exists (mkb (Some m) (length r) 0 None (Some (length r, off'))), r, []. repeat split; [|lia].
        apply brep_wait; try assumption. intros _; right; right; exact I.
      + assert (Hp1 : bpend (bc_save_remainder F sizehint (mkb (Some m) 0 0 None None) rest) rest)
          by (apply save_remainder; [exact Hm | lia]).
        destruct (IH _ rest Hp1) as (c' & w' & evs & Hd & Hc' & Hl); [lia|].
        rewrite Hd. exists c', w', (RPkt x :: evs). repeat split; [assumption | lia].
      + assert (Hp1 : bpend (bc_save_remainder F sizehint (mkb (Some m) 0 0 None None) rest) rest)
          by (apply save_remainder; [exact Hm | lia]).
        destruct (IH _ rest Hp1) as (c' & w' & evs & Hd & Hc' & Hl); [lia|].
        rewrite Hd. exists c', w', (RErr e :: evs). repeat split; [assumption | lia].
      + contradiction.
  Qed.

  (* what one fitting round computes, as a function of the bytes held before and the fill *)
  Lemma bcstep_fit fuel c w (d : bytes) :
    brep c w -> d <> [] -> length w + length d <= limit ->
    exists (m : bytes) off, length m = limit /\ bru_inv (w ++ d) off /\ (off = 0 \/ off + sl <= length (w ++ d)) /\
      firstn (length (w ++ d)) m = w ++ d /\
      bcstep F sizehint fuel c d =
        (let '(c1, r) := bcres m (length w) (bscan (w ++ d) off) in
         match r with
         | RStop => (c1, [], length d)
         | _ => let '(c2, rs) := bcdrain F sizehint fuel c1 in (c2, r :: rs, length d)
         end).
  Proof.
    intros Hc Hne Hfit.
    destruct (bcround c w d Hc Hne) as (m & off & Hm & Hinv & Hfm & Hoff & Hround).
    assert (Hd : firstn (limit - length w) d = d) by (apply firstn_all2; lia).
    rewrite Hd in *. exists m, off. split; [exact Hm|]. split; [exact Hinv|].
    unfold bcstep. destruct (bc_get_write_buffer F sizehint c) as [c1 v].
    destruct Hround as (-> & Hnext & Hdne & Hdl). rewrite Hd. rewrite Hnext.
    split.
    - assert (0 < length d) by (destruct d; [congruence | simpl; lia]).
      destruct Hoff as [->|Ho]; [left; reflexivity | right; rewrite app_length; lia].
    - split; [rewrite app_length; exact Hfm|].
      destruct (bcres m (length w) (bscan (w ++ d) off)) as [c1' r]. destruct r; reflexivity.
  Qed.

  Lemma overrun_remainder_short (b : bytes) :
    sl <= length b ->
    let t := overrun_remainder sep b (length b + 1 - sl) in length t < sl /\ find0 sep t = None /\ safe t.
  Proof.
    intros Hl t. pose proof sl_pos' as Hsl.
    pose proof (overrun_remainder_len sep b (length b + 1 - sl)) as Hlen. fold t in Hlen.
    assert (Ht : length t < sl) by lia.
    assert (Hn : find0 sep t = None).
    { apply find0_occ_none. intros j. destruct (occ sep t j) eqn:E; [|reflexivity].
      apply (occ_bound _ _ _ sep_ne) in E. fold sl in E. lia. }
    split; [exact Ht|]. split; [exact Hn|]. apply safe_end; [exact Hn | fold sl; lia].
  Qed.

  (* classification of one fitting round on a drained consumer, for arbitrary input *)
  Lemma bcstep_outcome fuel c w (d : bytes) :
    brep c w -> d <> [] -> length w + length d <= limit -> length (w ++ d) < fuel ->
    let b := w ++ d in
    (find0 sep b = None /\ length b + 2 <= limit /\
       exists c', bcstep F sizehint fuel c d = (c', [], length d) /\ brep c' b) \/
    (find0 sep b = None /\ limit < length b + 2 /\
       exists c', bcstep F sizehint fuel c d = (c', [RErr ELimit], length d) /\
                  brep c' (overrun_remainder sep b (length b + 1 - sl))) \/
    (exists p c1, find0 sep b = Some p /\ bpend c1 (skipn (p + sl) b) /\
       bcstep F sizehint fuel c d =
         (let '(c2, rs) := bcdrain F sizehint fuel c1 in (c2, frame_event b p :: rs, length d))).
  Proof.
    intros Hc Hne Hfit Hf b. pose proof sl_pos' as Hsl. change (length (w ++ d)) with (length b) in Hf.
    destruct (bcstep_fit fuel c w d Hc Hne Hfit) as (m & off & Hm & Hinv & Hoff & Hfm & Hstep). fold b in Hinv, Hoff, Hfm, Hstep.
    assert (Hbne : b <> []) by (unfold b; destruct w; [simpl; exact Hne | discriminate]).
    assert (Hbl : length b <= limit) by (unfold b; rewrite app_length; lia).
    destruct (find0 sep b) as [p|] eqn:E.
    - right; right.
      pose proof (find0_Some _ _ _ E) as [Hocc _]. pose proof (occ_bound _ _ _ sep_ne Hocc) as Hb. fold sl in Hb.
      exists p, (bc_save_remainder F sizehint (mkb (Some m) (length w) 0 None None) (skipn (p + sl) b)).
      split; [reflexivity|]. split; [apply save_remainder; [exact Hm | rewrite skipn_length; lia]|].
      rewrite Hstep. rewrite (bscan_found _ _ _ Hinv E). unfold SpecDecode.frame_event. fold sl.
      destruct (dec _); reflexivity.
    - destruct (bscan_none _ _ Hinv E) as [Hn Hov].
      destruct (le_lt_dec (length b + 2) limit) as [Hle|Hgt].
      + left. split; [reflexivity|]. split; [exact Hle|].
        destruct (Hn Hle) as (off' & Hscan & Hinv'). rewrite Hstep, Hscan. cbn [bcres].
        eexists; split; [reflexivity|]. apply brep_wait; try assumption. intros _; right; right; exact I.
      + right; left. split; [reflexivity|]. split; [exact Hgt|].
        assert (Hscan : sl <= length b - off) by (destruct Hoff as [->|Ho]; lia).
        rewrite Hstep, (Hov Hgt Hscan). cbn [bcres].
        destruct (overrun_remainder_short b ltac:(lia)) as (Htl & Htn & Hts).
        set (t := overrun_remainder sep b (length b + 1 - sl)) in *.
        assert (Hp : bpend (bc_save_remainder F sizehint (mkb (Some m) (length w) 0 None None) t) t)
          by (apply save_remainder; [exact Hm | lia]).
        destruct (bdrain_spec fuel _ t Hp Hts) as (c' & Hd & Hc'); [lia|].
        rewrite (ev_none _ Htn) in Hd, Hc'. cbn [fst snd] in Hd, Hc'. rewrite Hd.
        exists c'. split; [reflexivity | exact Hc'].
  Qed.

  Lemma fits_step fuel c w (d : bytes) ds c' evs n :
    fits_run fuel c (d :: ds) -> brep c w -> bcstep F sizehint fuel c d = (c', evs, n) ->
    d <> [] /\ length w + length d <= limit /\ fits_run fuel c' ds.
  Proof.
    intros Hfr Hc Hs. inversion Hfr as [|? ? ? Hne Hfit Hrest]; subst.
    rewrite Hs in Hrest. cbn [fst] in Hrest. split; [exact Hne|]. split; [apply Hfit; exact Hc | exact Hrest].
  Qed.

  (* held bound, buffer-filling path: whatever arrives, after each round the consumer holds a separator-free tail
     of at most limit - 2 bytes (or nothing); the buffer itself is the [limit]-byte allocation *)
  Theorem bcfills_rep fuel ds : forall c w,
    brep c w -> fits_run fuel c ds -> length (w ++ concat ds) < fuel ->
    exists c' w' evs, bcfills F sizehint fuel c ds = (c', evs) /\ brep c' w' /\ length w' <= length (w ++ concat ds).
  Proof.
    induction ds as [|d ds IH]; intros c w Hc Hfr Hf.
    - cbn [bcfills concat]. exists c, w, []. repeat split; [exact Hc | rewrite app_nil_r; lia].
    - cbn [bcfills concat] in *. rewrite app_assoc in Hf. rewrite !app_length in Hf.
      inversion Hfr as [|? ? ? Hne Hfit _]; subst. specialize (Hfit w Hc).
      destruct (bcstep_outcome fuel c w d Hc Hne Hfit) as [(_ & _ & c1 & Hs & Hc1) | [(_ & _ & c1 & Hs & Hc1) | (p & c1 & E & Hp & Hs)]];
        [rewrite app_length; lia | | |].
      + destruct (fits_step _ _ _ _ _ _ _ _ Hfr Hc Hs) as (_ & _ & Hfr').
        destruct (IH c1 (w ++ d) Hc1 Hfr') as (c' & w' & evs & Hd & Hc' & Hl); [rewrite !app_length; lia|].
        rewrite Hs, Hd. exists c', w', ([] ++ evs). repeat split; [exact Hc'|]. rewrite app_assoc. exact Hl.
      + destruct (fits_step _ _ _ _ _ _ _ _ Hfr Hc Hs) as (_ & _ & Hfr').
        pose proof (overrun_remainder_len sep (w ++ d) (length (w ++ d) + 1 - sl)) as Hl0.
        destruct (IH c1 _ Hc1 Hfr') as (c' & w' & evs & Hd & Hc' & Hl); [rewrite !app_length in *; lia|].
        rewrite Hs, Hd. exists c', w', ([RErr ELimit] ++ evs). repeat split; [exact Hc'|].
        rewrite !app_length in *. lia.
      + destruct (bdrain_rep fuel c1 _ Hp) as (c2 & w2 & evs2 & Hd2 & Hc2 & Hl2); [rewrite skipn_length, app_length; lia|].
        rewrite Hd2 in Hs.
        destruct (fits_step _ _ _ _ _ _ _ _ Hfr Hc Hs) as (_ & _ & Hfr').
        rewrite skipn_length in Hl2.
        destruct (IH c2 w2 Hc2 Hfr') as (c' & w' & evs & Hd & Hc' & Hl); [rewrite !app_length in *; lia|].
        rewrite Hs, Hd. eexists c', w', _. repeat split; [exact Hc'|]. rewrite !app_length in *. lia.
  Qed.

  (* unterminated data reaching limit - 1 bytes always raises the limit error, whatever the fills *)
  Theorem overrun_raised_rounds fuel ds : forall c w,
    brep c w -> fits_run fuel c ds -> find0 sep (w ++ concat ds) = None ->
    limit < length (w ++ concat ds) + 2 -> length (w ++ concat ds) < fuel ->
    exists c' evs, bcfills F sizehint fuel c ds = (c', RErr ELimit :: evs).
  Proof.
    induction ds as [|d ds IH]; intros c w Hc Hfr Hnf Hlen Hf.
    - cbn [concat] in Hlen. rewrite app_nil_r in Hlen. destruct (brep_len _ _ Hc) as [->|Hb]; [|lia].
      simpl in Hlen. pose proof sl_pos'. lia.
    - cbn [bcfills concat] in *. rewrite app_assoc in Hnf, Hlen, Hf.
      inversion Hfr as [|? ? ? Hne Hfit _]; subst. specialize (Hfit w Hc).
      pose proof (find0_none_app_l _ _ _ Hnf) as E.
      destruct (bcstep_outcome fuel c w d Hc Hne Hfit) as [(_ & _ & c1 & Hs & Hc1) | [(_ & _ & c1 & Hs & Hc1) | (p & c1 & E' & _)]];
        [rewrite !app_length in *; lia | | | congruence].
      + destruct (fits_step _ _ _ _ _ _ _ _ Hfr Hc Hs) as (_ & _ & Hfr').
        destruct (IH c1 (w ++ d) Hc1 Hfr' Hnf Hlen Hf) as (c' & evs & Hd).
        rewrite Hs, Hd. exists c', evs. reflexivity.
      + rewrite Hs. destruct (bcfills F sizehint fuel c1 ds) as [c' evs]. exists c', evs. reflexivity.
  Qed.

  (* safe streams, round level *)
  Theorem bcfills_spec fuel ds : forall c w,
    brep c w -> fits_run fuel c ds -> safe (w ++ concat ds) -> length (w ++ concat ds) < fuel ->
    exists c', bcfills F sizehint fuel c ds = (c', fst (spec_events (w ++ concat ds))) /\
               brep c' (snd (spec_events (w ++ concat ds))).
  Proof.
    induction ds as [|d ds IH]; intros c w Hc Hfr Hs Hf.
    - cbn [bcfills concat]. rewrite app_nil_r. rewrite (ev_none _ (brep_nosep _ _ Hc)). eexists; split; [reflexivity | exact Hc].
    - cbn [bcfills concat] in *.
      inversion Hfr as [|? ? ? Hne Hfit _]; subst. specialize (Hfit w Hc).
      assert (Hs' : safe ((w ++ d) ++ concat ds)) by (rewrite <- app_assoc; exact Hs).
      assert (Hd : firstn (limit - length w) d = d) by (apply firstn_all2; lia).
      destruct (bcstep_spec fuel c w d (concat ds) Hc Hne) as (c1 & Hstep & Hc1 & _);
        [rewrite Hd; exact Hs' | rewrite Hd; rewrite !app_length in *; lia |].
      rewrite Hd in Hstep, Hc1.
      destruct (fits_step _ _ _ _ _ _ _ _ Hfr Hc Hstep) as (_ & _ & Hfr').
      destruct (IH c1 _ Hc1 Hfr') as (c' & Hdel & Hc').
      { apply sf_tail_app. exact Hs'. }
      { pose proof (ev_tail_len (w ++ d)) as Hl. rewrite !app_length in *. lia. }
      rewrite Hstep, Hdel. rewrite (app_assoc w). rewrite (ev_app (w ++ d) (concat ds)).
      eexists; split; [reflexivity | exact Hc'].
  Qed.

  (* resynchronisation, buffer-filling path: a frame of any size followed by its terminator and a stream inside the
     band: some junk events (a limit error when the frame does not fit the buffer), then exactly the events of the rest *)
  Theorem resync_rounds fuel ds : forall c w (rest : bytes) q,
    brep c w -> fits_run fuel c ds -> resync_at sep (w ++ concat ds) rest q -> safe rest ->
    length (w ++ concat ds) < fuel ->
    exists c' junk, bcfills F sizehint fuel c ds = (c', junk ++ fst (spec_events rest)) /\
                    brep c' (snd (spec_events rest)) /\ junk <> [] /\ (limit < q + sl -> In (RErr ELimit) junk).
  Proof.
    induction ds as [|d ds IH]; intros c w rest q Hc Hfr HJ Hs Hf; pose proof sl_pos' as Hsl.
    - cbn [concat] in HJ. rewrite app_nil_r in HJ. destruct HJ as [Hq _]. rewrite (brep_nosep _ _ Hc) in Hq. discriminate.
    - cbn [bcfills concat] in *. rewrite app_assoc in HJ, Hf.
      inversion Hfr as [|? ? ? Hne Hfit _]; subst. specialize (Hfit w Hc).
      destruct HJ as [Hq Hrest].
      destruct (bcstep_outcome fuel c w d Hc Hne Hfit) as [(E & Hb & c1 & Hstep & Hc1) | [(E & Hb & c1 & Hstep & Hc1) | (p & c1 & E & Hp & Hstep)]];
        [rewrite !app_length in *; lia | | |].
      + (* still accumulating *)
        destruct (fits_step _ _ _ _ _ _ _ _ Hfr Hc Hstep) as (_ & _ & Hfr').
        destruct (IH c1 (w ++ d) rest q Hc1 Hfr' (conj Hq Hrest) Hs Hf) as (c' & junk & Hd & Hc' & Hj1 & Hj2).
        rewrite Hstep, Hd. exists c', junk. cbn [app]. repeat split; assumption.
      + (* buffer (nearly) full without separator: limit error, keep the longest separator-prefix suffix *)
        destruct (fits_step _ _ _ _ _ _ _ _ Hfr Hc Hstep) as (_ & _ & Hfr').
        destruct (overrun_tail sep L keep_end dec sep_ne (w ++ d) (concat ds) rest q E) as (Htl & _ & q' & HJ');
          [fold sl; rewrite !app_length in *; lia | split; assumption |].
        fold sl in Htl, HJ'.
        destruct (IH c1 _ rest q' Hc1 Hfr' HJ' Hs) as (c' & junk & Hd & Hc' & _ & _);
          [rewrite !app_length in *; lia|].
        rewrite Hstep, Hd. exists c', (RErr ELimit :: junk). cbn [app].
        split; [reflexivity|]. split; [exact Hc'|]. split; [discriminate | intros _; left; reflexivity].
      + (* the terminator is in the buffer: the skipped frame ends here *)
        pose proof (find0_app_l _ _ (concat ds) _ E) as E'. assert (p = q) by congruence. subst p.
        pose proof (find0_Some _ _ _ E) as [Hocc _]. pose proof (occ_bound _ _ _ sep_ne Hocc) as Hbd. fold sl in Hbd.
        rewrite skipn_app_le in Hrest by (fold sl; lia). fold sl in Hrest.
        assert (Hsr : safe (skipn (q + sl) (w ++ d))) by (apply (sf_app_l _ (concat ds)); rewrite Hrest; exact Hs).
        destruct (bdrain_spec fuel c1 _ Hp Hsr) as (c2 & Hd2 & Hc2); [rewrite skipn_length; rewrite !app_length in *; lia|].
        rewrite Hd2 in Hstep.
        destruct (fits_step _ _ _ _ _ _ _ _ Hfr Hc Hstep) as (_ & _ & Hfr').
        destruct (bcfills_spec fuel ds c2 _ Hc2 Hfr') as (c3 & Hdel & Hc3).
        { apply sf_tail_app. rewrite Hrest. exact Hs. }
        { pose proof (ev_tail_len (skipn (q + sl) (w ++ d))) as Hl. rewrite skipn_length in Hl. rewrite !app_length in *. lia. }
        rewrite Hstep, Hdel.
        assert (Hev : fst (spec_events (skipn (q + sl) (w ++ d))) ++
                      fst (spec_events (snd (spec_events (skipn (q + sl) (w ++ d))) ++ concat ds)) = fst (spec_events rest) /\
                      snd (spec_events (snd (spec_events (skipn (q + sl) (w ++ d))) ++ concat ds)) = snd (spec_events rest)).
        { rewrite <- Hrest. rewrite (ev_app (skipn (q + sl) (w ++ d)) (concat ds)). split; reflexivity. }
        destruct Hev as [Hev1 Hev2]. rewrite Hev2 in Hc3.
        exists c3, [frame_event (w ++ d) q]. cbn [app]. rewrite <- Hev1.
        split; [reflexivity|]. split; [exact Hc3|]. split; [discriminate|].
        intros Hbig. rewrite !app_length in *. lia.
  Qed.

  Lemma view_len_brep c w : brep c w -> view_len F sizehint c = limit - length w.
  Proof.
    intros Hc. destruct (bcround c w [0%N] Hc ltac:(discriminate)) as (m & off & _ & _ & _ & _ & Hround).
    unfold view_len. destruct (bc_get_write_buffer F sizehint c) as [c1 v]. destruct Hround as (-> & _). reflexivity.
  Qed.

  Lemma fills_fit_run fuel ds : forall c w,
    brep c w -> length (w ++ concat ds) < fuel -> fills_fit F sizehint fuel c ds -> fits_run fuel c ds.
  Proof.
    induction ds as [|d ds IH]; intros c w Hc Hf Hfit; [constructor|].
    cbn [fills_fit concat] in *. destruct Hfit as (Hne & Hlen & Hrest).
    rewrite (view_len_brep _ _ Hc) in Hlen.
    assert (Hwl : w = [] \/ length w + 2 <= limit) by (apply brep_len with c; exact Hc).
    assert (Hfitw : length w + length d <= limit) by (pose proof sl_pos'; destruct Hwl as [->|]; simpl in *; lia).
    constructor; [exact Hne | |].
    - intros w0 Hc0.
      assert (w0 = w).
      { destruct Hc as [m st Hm|m off w1]; inversion Hc0; subst; try reflexivity; congruence. }
      subst. exact Hfitw.
    - rewrite app_assoc in Hf. rewrite !app_length in Hf.
      destruct (bcstep_outcome fuel c w d Hc Hne Hfitw) as [(_ & _ & c1 & Hs & Hc1) | [(_ & _ & c1 & Hs & Hc1) | (p & c1 & E & Hp & Hs)]];
        [rewrite app_length; lia | | |].
      + rewrite Hs in *. cbn [fst] in *. apply (IH c1 (w ++ d) Hc1); [rewrite !app_length; lia | exact Hrest].
      + rewrite Hs in *. cbn [fst] in *.
        pose proof (overrun_remainder_len sep (w ++ d) (length (w ++ d) + 1 - sl)) as Hl0.
        apply (IH c1 _ Hc1); [rewrite !app_length in *; lia | exact Hrest].
      + destruct (bdrain_rep fuel c1 _ Hp) as (c2 & w2 & evs2 & Hd2 & Hc2 & Hl2); [rewrite skipn_length, app_length; lia|].
        rewrite Hd2 in Hs. rewrite Hs in *. cbn [fst] in *. rewrite skipn_length in Hl2.
        apply (IH c2 w2 Hc2); [rewrite !app_length in *; lia | exact Hrest].
  Qed.
End BRU.
