(* _buffered_readuntil + BufferedStreamDataConsumer: the buffer-filling path delivers exactly the specification *)
From Coq Require Import ZArith List Bool Lia Arith.
From EN Require Import Lib.Bytes Frame.Framer Frame.BufReadUntil Stream.Consumer Stream.SpecDecode
  Proofs.Bytes_proofs Proofs.ReadUntil_proofs.
Import ListNotations.

Lemma firstn_firstn_le {X} (i j : nat) (l : list X) : i <= j -> firstn i (firstn j l) = firstn i l.
Proof. intros H. rewrite firstn_firstn. f_equal. lia. Qed.

Lemma firstn_skipn_swap {X} (n m : nat) (l : list X) : firstn m (skipn n l) = skipn n (firstn (n + m) l).
Proof. symmetry. apply skipn_firstn_comm' || idtac. revert l; induction n as [|n IH]; intros l; simpl; [reflexivity|].
  destruct l; [rewrite firstn_nil; reflexivity | apply IH]. Qed.

Lemma write_at_length mem off (d : bytes) : off + length d <= length mem -> length (write_at mem off d) = length mem.
Proof. intros H. unfold write_at. rewrite !app_length, firstn_length, skipn_length. lia. Qed.

Lemma write_at_firstn mem off (d : bytes) :
  off + length d <= length mem -> firstn (off + length d) (write_at mem off d) = firstn off mem ++ d.
Proof.
  intros H. unfold write_at. rewrite app_assoc.
  rewrite firstn_app_le by (rewrite app_length, firstn_length; lia).
  apply firstn_all2. rewrite app_length, firstn_length. lia.
Qed.

Section BRU.
  Context {P : Type}.
  Variable sep : bytes.
  Variable limit : nat.
  Variable keep_end : bool.
  Variable dec : decoder P.
  Variable sizehint : nat.
  Hypothesis sep_ne : sep <> [].

  Let sl := length sep.
  Hypothesis limit_ok : sl + 1 <= limit.     (* an empty frame fits: otherwise nothing can ever be received *)

  Let F := bru_framer sep limit keep_end dec.
  Let L := limit - 1 - sl.                    (* the generator's own limit *)

  Notation spec_events := (spec_events sep keep_end dec).
  Notation frame_event := (frame_event sep keep_end dec).
  Notation safe := (safe sep L).

  (* the scan, as a function of the received bytes only *)
  Definition bscan (data : bytes) (off : nat) : bres (nat * nat) P :=
    let buflen := length data in
    if Nat.leb sl (buflen - off) then
      match find sep data off with
      | Some i =>
          match dec (firstn (if keep_end then i + sl else i) data) with
          | Some p => BDone p (skipn (i + sl) data)
          | None => BFail EDecode (skipn (i + sl) data)
          end
      | None =>
          if Nat.ltb L (buflen + 1 - sl) then BFail ELimit (overrun_remainder sep data (buflen + 1 - sl))
          else BNeed (buflen, buflen + 1 - sl) buflen
      end
    else BNeed (buflen, off) buflen.

  Lemma bru_scan_data mem buflen off :
    buflen <= length mem -> length mem = limit ->
    bru_scan sep keep_end dec mem buflen off = bscan (firstn buflen mem) off.
  Proof.
    intros Hb Hm. unfold bru_scan, bscan, bseplen. fold sl. rewrite firstn_length. rewrite Nat.min_l by exact Hb.
    destruct (Nat.leb_spec sl (buflen - off)) as [Hc|Hc]; [|reflexivity].
    unfold find_in.
    destruct (find sep (firstn buflen mem) off) as [i|] eqn:Ef.
    - apply find_Some in Ef as (_ & Hocc & _). pose proof (occ_bound _ _ _ sep_ne Hocc) as Hbd.
      rewrite firstn_length, Nat.min_l in Hbd by exact Hb. fold sl in Hbd.
      rewrite firstn_firstn_le by (destruct keep_end; lia).
      rewrite firstn_skipn_swap. replace (i + sl + (buflen - (i + sl))) with buflen by lia. reflexivity.
    - rewrite Hm.
      destruct (Z.ltb_spec (Z.of_nat limit - 1 - Z.of_nat sl) (Z.of_nat (buflen + 1 - sl)));
        destruct (Nat.ltb_spec L (buflen + 1 - sl)); unfold L in *; try reflexivity; lia.
  Qed.

  (* invariant of a suspended scan *)
  Definition bru_inv (data : bytes) (off : nat) : Prop :=
    (off = 0 \/ off + sl <= length data + 1) /\ forall j, j < off -> occ sep data j = false.

  Lemma sl_pos' : 1 <= sl.
  Proof. unfold sl. destruct sep; [congruence | simpl; lia]. Qed.

  Lemma bru_inv_0 data : bru_inv data 0.
  Proof. split; [left; reflexivity | intros; lia]. Qed.

  Lemma bru_inv_app data off d : bru_inv data off -> bru_inv (data ++ d) off.
  Proof.
    intros (H1 & H2). split.
    - destruct H1 as [->|H1]; [left; reflexivity | right; rewrite app_length; lia].
    - intros j Hj. destruct H1 as [->|H1]; [lia|]. rewrite occ_app_inv by (fold sl; lia). apply H2; exact Hj.
  Qed.

  Lemma bru_inv_off_le data off : bru_inv data off -> off <= length data.
  Proof. pose proof sl_pos'. intros ([->|H1] & _); lia. Qed.

  Lemma bscan_found data off p :
    bru_inv data off -> find0 sep data = Some p ->
    bscan data off = match dec (firstn (if keep_end then p + sl else p) data) with
                     | Some x => BDone x (skipn (p + sl) data)
                     | None => BFail EDecode (skipn (p + sl) data)
                     end.
  Proof.
    intros Hinv Hf. pose proof (bru_inv_off_le _ _ Hinv) as Hle. destruct Hinv as (H1 & H2).
    pose proof (find0_Some _ _ _ Hf) as [Hocc _].
    pose proof (occ_bound _ _ _ sep_ne Hocc) as Hb. fold sl in Hb.
    assert (Hp : off <= p).
    { destruct (le_lt_dec off p); [assumption|]. rewrite H2 in Hocc by assumption. discriminate. }
    unfold bscan. destruct (Nat.leb_spec sl (length data - off)) as [_|Hc]; [|lia].
    rewrite find_eq_find0 by assumption. rewrite Hf. reflexivity.
  Qed.

  (* once a scan has happened every further byte triggers a new one; before, fewer than sl bytes are held *)
  Definition bru_fresh (data : bytes) (off : nat) : Prop := off = 0 -> length data < sl \/ True.

  Lemma bscan_none data off :
    bru_inv data off -> find0 sep data = None ->
    (length data + 2 <= limit ->
       exists off', bscan data off = BNeed (length data, off') (length data) /\ bru_inv data off') /\
    (limit < length data + 2 -> sl <= length data - off ->
       bscan data off = BFail ELimit (overrun_remainder sep data (length data + 1 - sl))).
  Proof.
    intros Hinv Hf. pose proof (bru_inv_off_le _ _ Hinv) as Hle. pose proof sl_pos' as Hsl.
    pose proof (find0_None _ _ Hf) as Hno. unfold bscan.
    destruct (Nat.leb_spec sl (length data - off)) as [Hc|Hc].
    - rewrite find_eq_find0 by (try assumption; intros; apply Hno). rewrite Hf. split.
      + intros Hl. destruct (Nat.ltb_spec L (length data + 1 - sl)) as [Hx|_]; [unfold L in Hx; lia|].
        eexists; split; [reflexivity|]. split; [right; lia | intros; apply Hno].
      + intros Hl _. destruct (Nat.ltb_spec L (length data + 1 - sl)) as [_|Hx]; [reflexivity | unfold L in Hx; lia].
    - split.
      + intros Hl. eexists; split; [reflexivity | exact Hinv].
      + intros _ Hc'. lia.
  Qed.

  (* ---------------- consumer states ---------------- *)
  Definition mkb (m : option bytes) (st al : nat) (ex : option (nat * nat)) (co : option (nat * nat)) : bcstate F :=
    @Build_bcstate P F m st al ex co.

  Definition mem_ok (m : option bytes) : Prop := match m with None => True | Some x => length x = limit end.

  (* drained states: holding the separator-free tail w *)
  Inductive brep : bcstate F -> bytes -> Prop :=
  | brep_idle (m : option bytes) st : mem_ok m -> brep (mkb m st 0 None None) []
  | brep_wait (m : bytes) off (w : bytes) :
      length m = limit -> w <> [] -> length w + 2 <= limit -> firstn (length w) m = w ->
      bru_inv w off -> find0 sep w = None ->
      (off = 0 -> length w < sl \/ length w + 1 - sl = 0 \/ True) ->
      brep (mkb (Some m) (length w) 0 None (Some (length w, off))) w.

  (* states with a saved remainder r still to be examined by next(None) *)
  Inductive bpend : bcstate F -> bytes -> Prop :=
  | bpend_nil c : brep c [] -> bpend c []
  | bpend_some (m : bytes) (r : bytes) :
      length m = limit -> r <> [] -> firstn (length r) m = r ->
      bpend (mkb (Some m) 0 (length r) None (Some (0, 0))) r.

  Lemma bfind0_nil : find0 sep [] = None.
  Proof. destruct sep; [congruence | reflexivity]. Qed.

  Lemma brep_nosep c w : brep c w -> find0 sep w = None.
  Proof. intros [|]; [apply bfind0_nil | assumption]. Qed.

  Lemma bc_save_remainder_ne (c : bcstate F) (rest : bytes) :
    rest <> [] ->
    bc_save_remainder F sizehint c rest =
      let '(c1, v) := bc_get_write_buffer F sizehint c in
      match bmem c1, v with
      | Some mem, Some (off, _) =>
          @Build_bcstate P F (Some (write_at mem off rest)) (bstart c1) (balready c1 + length rest) None (bcons c1)
      | _, _ => c1
      end.
  Proof. destruct rest; [congruence | reflexivity]. Qed.

  Lemma save_remainder (m : bytes) st (rest : bytes) :
    length m = limit -> length rest <= limit ->
    bpend (bc_save_remainder F sizehint (mkb (Some m) st 0 None None) rest) rest.
  Proof.
    intros Hm Hr. destruct rest as [|b0 r0].
    - constructor. constructor. exact Hm.
    - remember (b0 :: r0) as rest eqn:E. assert (Hne : rest <> []) by (subst; discriminate).
      rewrite (bc_save_remainder_ne _ _ Hne).
      unfold bc_get_write_buffer. cbn [bexported bmem bcons mkb binit F bru_framer balready bstart fst snd].
      assert (Hl : Nat.eqb (length m - 0) 0 = false) by (apply Nat.eqb_neq; pose proof sl_pos'; lia).
      cbn [Nat.add]. rewrite Hl. cbn [bmem bstart balready bcons].
      assert (Hw : length (write_at m 0 rest) = limit) by (rewrite write_at_length; simpl; lia).
      pose proof (write_at_firstn m 0 rest ltac:(simpl; lia)) as Hf. simpl in Hf.
      change (bpend (mkb (Some (write_at m 0 rest)) 0 (length rest) None (Some (0, 0))) rest).
      constructor; assumption.
  Qed.

  (* lemmas of the copying development, instantiated at the buffered band L *)
  Let ev_step := @spec_events_step P sep L keep_end dec sep_ne.
  Let ev_none := @spec_events_none P sep keep_end dec.
  Let ev_app := @spec_events_app P sep L keep_end dec sep_ne.
  Let sf_app_l := @safe_app_l P sep L keep_end dec sep_ne.
  Let sf_tail := safe_tail sep L.
  Let sf_tail_app := @safe_tail_app P sep L keep_end dec sep_ne.
  Let ev_tail_len := @spec_tail_len P sep keep_end dec.
  Let fe_app := @frame_event_app P sep L keep_end dec.
  Let sf_nosep_len := safe_nosep_len sep L.

  Lemma safe_tail_bound s : safe s -> find0 sep s = None -> length s + 2 <= limit.
  Proof.
    intros Hs E. pose proof (sf_nosep_len _ Hs E) as H. fold sl in H. unfold L in H. pose proof sl_pos'. lia.
  Qed.

  Definition bcres (m : bytes) (st0 : nat) (r : bres (nat * nat) P) : bcstate F * nres P :=
    match r with
    | BNeed s start => (mkb (Some m) start 0 None (Some s), RStop)
    | BDone p rest => (bc_save_remainder F sizehint (mkb (Some m) st0 0 None None) rest, RPkt p)
    | BFail e rest => (bc_save_remainder F sizehint (mkb (Some m) st0 0 None None) rest, RErr e)
    | BCrash => (mkb None st0 0 None None, RCrash)
    end.

  Lemma bcnext_none_idle m st : bcnext F sizehint (mkb m st 0 None None) None = (mkb m st 0 None None, RStop).
  Proof. reflexivity. Qed.

  Lemma bcnext_none_pend (m : bytes) (r : bytes) :
    length m = limit -> r <> [] -> firstn (length r) m = r -> length r <= limit ->
    bcnext F sizehint (mkb (Some m) 0 (length r) None (Some (0, 0))) None = bcres m 0 (bscan r 0).
  Proof.
    intros Hm Hne Hf Hl. unfold bcnext. cbn [bexported bcons mkb balready bmem bstart].
    assert (Hz : Nat.eqb (0 + length r) 0 = false) by (apply Nat.eqb_neq; destruct r; [congruence | simpl; lia]).
    rewrite Hz. cbn [bfeed F bru_framer bru_feed]. rewrite bru_scan_data by (simpl; lia). cbn [Nat.add]. rewrite Hf.
    destruct (bscan r 0); reflexivity.
  Qed.

  (* one recv_into round on a drained consumer *)
  Lemma bcround c w (data : bytes) :
    brep c w -> data <> [] ->
    let d := firstn (limit - length w) data in
    exists (m : bytes) off, length m = limit /\ bru_inv (w ++ d) off /\
      firstn (length w + length d) m = w ++ d /\
      let '(c1, v) := bc_get_write_buffer F sizehint c in
      v = Some (length w, limit - length w) /\
      bcnext F sizehint (bc_fill F c1 d) (Some (length d)) = bcres m (length w) (bscan (w ++ d) off) /\
      d <> [] /\ length w + length d <= limit.
  Proof.
    intros Hc Hne d. pose proof sl_pos' as Hsl.
    assert (Hdl : length d = Nat.min (limit - length w) (length data)) by (unfold d; apply firstn_length).
    revert d Hdl. destruct Hc as [m0 st Hm0 | m0 off w Hm0 Hwne Hwl Hwf Hinv Hnf _]; intros d Hdl.
    - (* idle: a fresh generator starts at position 0 *)
      set (m1 := match m0 with Some x => x | None => repeat 0%N limit end).
      assert (Hm1 : length m1 = limit) by (unfold m1; destruct m0; [exact Hm0 | apply repeat_length]).
      exists (write_at m1 0 d), 0. cbn [length app] in *. rewrite Nat.sub_0_r in *.
      assert (Hdne : d <> []).
      { unfold d. destruct data; [congruence|]. destruct limit; [lia | simpl; discriminate]. }
      assert (Hdle : length d <= limit) by lia.
      split; [rewrite write_at_length; simpl; lia|]. split; [apply bru_inv_0|].
      split; [exact (write_at_firstn m1 0 d ltac:(simpl; lia))|].
      unfold bc_get_write_buffer. cbn [bexported mkb bmem bcons binit F bru_framer balloc balready bstart].
      fold m1. cbn [Nat.add]. rewrite Hm1. rewrite Nat.sub_0_r.
      assert (Hz : Nat.eqb limit 0 = false) by (apply Nat.eqb_neq; lia). rewrite Hz.
      split; [reflexivity|]. split; [|split; [exact Hdne | lia]].
      unfold bc_fill, bcnext. cbn [bmem bexported bcons balready bstart].
      assert (Hbad : Nat.ltb limit (length d) = false) by (apply Nat.ltb_ge; lia). rewrite Hbad.
      assert (Hz2 : Nat.eqb (length d + 0) 0 = false) by (apply Nat.eqb_neq; destruct d; [congruence | simpl; lia]).
      rewrite Hz2. cbn [bfeed F bru_framer bru_feed]. rewrite bru_scan_data by (rewrite ?write_at_length; simpl; lia).
      pose proof (write_at_firstn m1 0 d ltac:(simpl; lia)) as Hw. cbn [Nat.add firstn app] in Hw.
      replace (0 + (length d + 0)) with (length d) by lia. rewrite Hw.
      destruct (bscan d 0); reflexivity.
    - (* suspended generator: the view starts at the bytes already received *)
      exists (write_at m0 (length w) d), off.
      assert (Hdne : d <> []).
      { unfold d. destruct data; [congruence|]. destruct (limit - length w) eqn:Ev; [lia | simpl; discriminate]. }
      assert (Hdle : length w + length d <= limit) by lia.
      split; [rewrite write_at_length; lia|]. split; [apply bru_inv_app; exact Hinv|].
      split; [rewrite write_at_firstn by lia; rewrite Hwf; reflexivity|].
      unfold bc_get_write_buffer. cbn [bexported mkb bmem bcons balready bstart].
      rewrite Nat.add_0_r. rewrite Hm0.
      assert (Hz : Nat.eqb (limit - length w) 0 = false) by (apply Nat.eqb_neq; lia). rewrite Hz.
      split; [reflexivity|]. split; [|split; [exact Hdne | lia]].
      unfold bc_fill, bcnext. cbn [bmem bexported bcons balready bstart].
      assert (Hbad : Nat.ltb (limit - length w) (length d) = false) by (apply Nat.ltb_ge; lia). rewrite Hbad.
      assert (Hz2 : Nat.eqb (length d + 0) 0 = false) by (apply Nat.eqb_neq; destruct d; [congruence | simpl; lia]).
      rewrite Hz2. cbn [bfeed F bru_framer bru_feed]. rewrite bru_scan_data by (rewrite ?write_at_length; lia).
      replace (length w + (length d + 0)) with (length w + length d) by lia.
      rewrite write_at_firstn by lia. rewrite Hwf.
      destruct (bscan (w ++ d) off); reflexivity.
  Qed.

  Lemma bpend_len c r : bpend c r -> length r <= limit.
  Proof.
    intros [c0 _|m r0 Hm _ Hf]; [simpl; lia|]. rewrite <- Hf at 1. rewrite firstn_length. lia.
  Qed.

  (* next(None) until StopIteration on a consumer with a saved remainder *)
  Lemma bdrain_spec fuel : forall c r,
    bpend c r -> safe r -> length r < fuel ->
    exists c', bcdrain F sizehint fuel c = (c', fst (spec_events r)) /\ brep c' (snd (spec_events r)).
  Proof.
    induction fuel as [|f IH]; intros c r Hp Hs Hf; [lia|]. pose proof sl_pos' as Hsl.
    pose proof (bpend_len _ _ Hp) as Hrl.
    destruct Hp as [c Hc|m r Hm Hne Hfm].
    - inversion Hc as [m st Hm|]; subst; [|congruence].
      cbn [bcdrain]. rewrite bcnext_none_idle. rewrite (ev_none _ bfind0_nil).
      eexists; split; [reflexivity | exact Hc].
    - cbn [bcdrain]. rewrite (bcnext_none_pend _ _ Hm Hne Hfm Hrl).
      destruct (find0 sep r) as [p|] eqn:E.
      + rewrite (bscan_found _ _ _ (bru_inv_0 r) E).
        destruct (sf_tail _ _ Hs E) as [_ Hrest].
        pose proof (find0_Some _ _ _ E) as [Hocc _]. pose proof (occ_bound _ _ _ sep_ne Hocc) as Hb. fold sl in Hb.
        rewrite (ev_step _ _ E). unfold SpecDecode.frame_event. fold sl.
        assert (Hp1 : bpend (bc_save_remainder F sizehint (mkb (Some m) 0 0 None None) (skipn (p + sl) r)) (skipn (p + sl) r))
          by (apply save_remainder; [exact Hm | rewrite skipn_length; lia]).
        destruct (IH _ (skipn (p + sl) r) Hp1 Hrest) as (c' & Hd & Hc'); [rewrite skipn_length; lia|].
        destruct (dec _); cbn [bcres]; rewrite Hd; eexists; (split; [reflexivity | exact Hc']).
      + pose proof (safe_tail_bound _ Hs E) as Hbound.
        destruct (bscan_none _ _ (bru_inv_0 r) E) as [Hn _].
        destruct (Hn Hbound) as (off' & Hscan & Hinv'). rewrite Hscan. cbn [bcres].
        rewrite (ev_none _ E). eexists; split; [reflexivity|]. cbn [snd].
        apply brep_wait; try assumption. intros _; right; right; exact I.
  Qed.

  Lemma firstn_min_skipn {X} k (l : list X) : firstn k l ++ skipn (length (firstn k l)) l = l.
  Proof.
    rewrite firstn_length. destruct (le_lt_dec k (length l)).
    - rewrite Nat.min_l by lia. apply firstn_skipn.
    - rewrite Nat.min_r by lia. rewrite firstn_all2 by lia. rewrite skipn_all. apply app_nil_r.
  Qed.

  (* one receive round: get_write_buffer, recv_into, next(n), then drain *)
  Lemma bcstep_spec fuel c w (data y : bytes) :
    brep c w -> data <> [] ->
    let d := firstn (limit - length w) data in
    safe ((w ++ d) ++ y) -> length (w ++ d) < fuel ->
    exists c', bcstep F sizehint fuel c data = (c', fst (spec_events (w ++ d)), length d) /\
               brep c' (snd (spec_events (w ++ d))) /\ d <> [].
  Proof.
    intros Hc Hne d Hs Hf. pose proof sl_pos' as Hsl.
    destruct (bcround c w data Hc Hne) as (m & off & Hm & Hinv & Hfm & Hround). fold d in Hinv, Hfm, Hround.
    unfold bcstep. destruct (bc_get_write_buffer F sizehint c) as [c1 v].
    destruct Hround as (-> & Hnext & Hdne & Hdl). fold d. rewrite Hnext.
    pose proof (sf_app_l _ _ Hs) as Hs1.
    rewrite <- app_length in Hfm.
    destruct (find0 sep (w ++ d)) as [p|] eqn:E.
    - rewrite (bscan_found _ _ _ Hinv E).
      destruct (sf_tail _ _ Hs1 E) as [_ Hrest].
      pose proof (find0_Some _ _ _ E) as [Hocc _]. pose proof (occ_bound _ _ _ sep_ne Hocc) as Hb. fold sl in Hb.
      rewrite (ev_step _ _ E). unfold SpecDecode.frame_event. fold sl.
      assert (Hp2 : bpend (bc_save_remainder F sizehint (mkb (Some m) (length w) 0 None None) (skipn (p + sl) (w ++ d)))
                          (skipn (p + sl) (w ++ d)))
        by (apply save_remainder; [exact Hm | rewrite skipn_length, app_length; lia]).
      destruct (bdrain_spec fuel _ _ Hp2 Hrest) as (c' & Hd & Hc'); [rewrite skipn_length; lia|].
      destruct (dec _); cbn [bcres]; rewrite Hd; eexists; (split; [reflexivity | split; [exact Hc' | exact Hdne]]).
    - pose proof (safe_tail_bound _ Hs1 E) as Hbound.
      destruct (bscan_none _ _ Hinv E) as [Hn _].
      destruct (Hn Hbound) as (off' & Hscan & Hinv'). rewrite Hscan. cbn [bcres].
      rewrite (ev_none _ E). eexists; split; [reflexivity|]. cbn [snd]. split; [|exact Hdne].
      apply brep_wait; try assumption.
      + destruct w; [simpl; exact Hdne | discriminate].
      + intros _; right; right; exact I.
  Qed.

  Lemma bcchunk_spec fuel rounds : forall c w (data y : bytes),
    brep c w -> safe (w ++ data ++ y) -> length data < rounds -> length (w ++ data) < fuel ->
    exists c', bcchunk F sizehint rounds fuel c data = (c', fst (spec_events (w ++ data))) /\
               brep c' (snd (spec_events (w ++ data))).
  Proof.
    induction rounds as [|k IH]; intros c w data y Hc Hs Hr Hf; [lia|].
    cbn [bcchunk]. destruct data as [|b0 data0].
    - rewrite app_nil_r. rewrite (ev_none _ (brep_nosep _ _ Hc)). eexists; split; [reflexivity | exact Hc].
    - cbv iota. set (data := b0 :: data0) in *. assert (Hne : data <> []) by (unfold data; discriminate).
      set (d := firstn (limit - length w) data).
      assert (Hsplit : d ++ skipn (length d) data = data) by apply firstn_min_skipn.
      assert (Hs' : safe ((w ++ d) ++ skipn (length d) data ++ y)).
      { rewrite <- app_assoc. rewrite (app_assoc d). rewrite Hsplit. exact Hs. }
      assert (Hdl : length d <= length data) by (unfold d; rewrite firstn_length; lia).
      destruct (bcstep_spec fuel c w data (skipn (length d) data ++ y) Hc Hne Hs') as (c1 & Hstep & Hc1 & Hdne).
      { fold d. rewrite !app_length in *. lia. }
      fold d in Hstep, Hc1, Hdne. rewrite Hstep.
      assert (Hdpos : 0 < length d) by (destruct d; [congruence | simpl; lia]).
      destruct (IH c1 (snd (spec_events (w ++ d))) (skipn (length d) data) y Hc1) as (c' & Hch & Hc').
      { apply sf_tail_app. exact Hs'. }
      { rewrite skipn_length. lia. }
      { pose proof (ev_tail_len (w ++ d)) as Hl. rewrite !app_length in *. rewrite skipn_length. lia. }
      rewrite Hch.
      assert (Heq : w ++ data = (w ++ d) ++ skipn (length d) data) by (rewrite <- app_assoc, Hsplit; reflexivity).
      rewrite Heq. rewrite (ev_app (w ++ d) (skipn (length d) data)).
      eexists; split; [reflexivity | exact Hc'].
  Qed.

  (* main theorem, buffer-filling path: whatever the transport delivers per recv_into and whatever the view
     sizes, a stream inside the safe band is decoded exactly as the specification says *)
  Theorem bcdeliver_spec cs : forall c w fuel,
    brep c w -> safe (w ++ concat cs) -> length (w ++ concat cs) < fuel ->
    exists c', bcdeliver F sizehint fuel c cs = (c', fst (spec_events (w ++ concat cs))) /\
               brep c' (snd (spec_events (w ++ concat cs))).
  Proof.
    induction cs as [|ch cs IH]; intros c w fuel Hc Hs Hf.
    - cbn [bcdeliver concat]. rewrite app_nil_r. rewrite (ev_none _ (brep_nosep _ _ Hc)).
      eexists; split; [reflexivity | exact Hc].
    - cbn [bcdeliver concat] in *.
      destruct (bcchunk_spec fuel (S (length ch)) c w ch (concat cs) Hc Hs) as (c1 & Hch & Hc1); [lia | |].
      { rewrite !app_length in *. lia. }
      rewrite Hch.
      assert (Hs' : safe ((w ++ ch) ++ concat cs)) by (rewrite <- app_assoc; exact Hs).
      destruct (IH c1 (snd (spec_events (w ++ ch))) fuel Hc1) as (c' & Hd & Hc').
      { apply sf_tail_app. exact Hs'. }
      { pose proof (ev_tail_len (w ++ ch)) as Hl. rewrite !app_length in *. lia. }
      rewrite Hd. rewrite (app_assoc w). rewrite (ev_app (w ++ ch) (concat cs)). eexists; split; [reflexivity | exact Hc'].
  Qed.
End BRU.
