(* C19, client level: invariants of Conc/ClientConn.v over all label sequences. *)
From Coq Require Import ZArith List Bool Arith Lia.
Import ListNotations.
From EN Require Import Gen.ParamsC19 Conc.ConnRace Conc.ClientConn Proofs.C19_proofs.

Section Client.
Variable c : rcfg.
Hypothesis ids_distinct : NoDup (map a_id (c_addrs c)).
Hypothesis nonempty : c_addrs c <> [].

Definition in_get (w : wstate) : Prop := match w with WRace | WWrap _ => True | _ => False end.

Record KInv (s : kstate) : Prop := {
  ki_race : Inv c (k_race s);
  ki_closed_conn : k_aclosed s = true -> k_connector s = false;
  ki_get_conn : in_get (k_w s) -> k_connector s = true \/ k_scope_cancel s = true;
  ki_closed_ep : k_aclosed s = true -> k_endpoint s <> None -> k_sock_closed s = true;
  ki_wrap : forall id, k_w s = WWrap id -> r_result (k_race s) = Some (ResSock id);
  ki_get_ep : in_get (k_w s) -> k_endpoint s = None /\ k_scope_used s = true /\ k_sock_closed s = false;
  ki_ep : forall id, k_endpoint s = Some id -> r_result (k_race s) = Some (ResSock id);
  ki_fresh : k_scope_used s = false -> k_race s = init c /\ k_sock_closed s = false;
  ki_idle : k_scope_used s = true -> ~ in_get (k_w s) ->
            r_result (k_race s) <> None /\
            (forall id, r_result (k_race s) = Some (ResSock id) -> k_endpoint s = Some id \/ k_sock_closed s = true);
  ki_ok : forall o, In (o, true) (k_outs s) -> o <> WOk
}.

Lemma kinit_inv : KInv (kinit c).
Proof.
  constructor; simpl.
  - apply init_inv.
  - discriminate.
  - intros [].
  - discriminate.
  - discriminate.
  - intros [].
  - discriminate.
  - auto.
  - discriminate.
  - intros o [].
Qed.

Lemma cancel_race_inv s : Inv c (k_race s) -> Inv c (cancel_race c s) /\ r_result (cancel_race c s) = r_result (k_race s).
Proof.
  intro I. unfold cancel_race. destruct (k_w s); auto.
  destruct (step c (k_race s) LCancelCaller) as [r|] eqn:E; auto.
  split; [eapply step_inv; eauto|]. simpl in E. destruct (r_host (k_race s)); inversion E; reflexivity.
Qed.

Lemma cancel_race_idle s : ~ in_get (k_w s) -> cancel_race c s = k_race s.
Proof. unfold cancel_race. destruct (k_w s); simpl; tauto. Qed.

Lemma in_app_outs (outs : list (wout * bool)) o b x : In x (outs ++ [(o, b)]) -> In x outs \/ x = (o, b).
Proof. intro H. apply in_app_or in H. destruct H as [H | [H | []]]; auto. Qed.

(* a call finishes: the generic preservation step *)
Lemma finish_call_inv s o connector used endpoint closed :
  KInv s ->
  (k_aclosed s = true -> connector = false) ->
  (k_aclosed s = true -> endpoint <> None -> closed = true) ->
  (forall id, endpoint = Some id -> r_result (k_race s) = Some (ResSock id)) ->
  (used = false -> k_race s = init c /\ closed = false) ->
  (used = true -> r_result (k_race s) <> None /\
                  (forall id, r_result (k_race s) = Some (ResSock id) -> endpoint = Some id \/ closed = true)) ->
  (k_aclosed s = true -> o <> WOk) ->
  KInv (finish_call s o connector used endpoint closed).
Proof.
  intros K H1 H2 H3 H4 H5 H6. constructor; simpl.
  - apply (ki_race s K).
  - exact H1.
  - intros [].
  - exact H2.
  - discriminate.
  - intros [].
  - exact H3.
  - exact H4.
  - intros Hu _. apply H5. exact Hu.
  - intros o' Hin. apply in_app_outs in Hin. destruct Hin as [Hin | Hin].
    + apply (ki_ok s K); exact Hin.
    + inversion Hin; subst. apply H6. auto.
Qed.

Lemma kstep_inv s l s' : KInv s -> kstep c s l = Some s' -> KInv s'.
Proof.
  intros K H. destruct l as [ | | l' | swallow | | swallow | | ]; unfold kstep in H.
  - (* KWait *)
    destruct (k_w s) eqn:Ew; try discriminate. injection H as <-.
    constructor; simpl.
    + apply (ki_race s K).
    + apply (ki_closed_conn s K).
    + intros [].
    + apply (ki_closed_ep s K).
    + discriminate.
    + intros [].
    + apply (ki_ep s K).
    + apply (ki_fresh s K).
    + intros Hu _. apply (ki_idle s K Hu). rewrite Ew. simpl; tauto.
    + apply (ki_ok s K).
  - (* KBegin *)
    destruct (k_w s) eqn:Ew; try discriminate.
    assert (Hng : ~ in_get (k_w s)) by (rewrite Ew; simpl; tauto).
    destruct (k_task_cancel s).
    { injection H as <-. apply finish_call_inv; [exact K | | | | | | ].
      - apply (ki_closed_conn s K).
      - apply (ki_closed_ep s K).
      - apply (ki_ep s K).
      - apply (ki_fresh s K).
      - intro Hu. apply (ki_idle s K Hu Hng).
      - discriminate. }
    destruct (k_endpoint s) as [id|] eqn:Eep.
    { injection H as <-. apply finish_call_inv; [exact K | | | | | | ].
      - apply (ki_closed_conn s K).
      - intros Ha _. apply (ki_closed_ep s K Ha). rewrite Eep. discriminate.
      - intros id' E. apply (ki_ep s K). congruence.
      - apply (ki_fresh s K).
      - intro Hu. destruct (ki_idle s K Hu Hng) as [A B]. split; auto. intros id' E. rewrite Eep in B. auto.
      - intros Ha. rewrite (ki_closed_ep s K Ha) by (rewrite Eep; discriminate). discriminate. }
    destruct (k_connector s) eqn:Ec.
    + destruct (k_scope_used s) eqn:Eu.
      * injection H as <-. apply finish_call_inv; [exact K | | | | | | ].
        -- intro Ha. pose proof (ki_closed_conn s K Ha). congruence.
        -- intros _ E; exfalso; apply E; reflexivity.
        -- discriminate.
        -- discriminate.
        -- intros _. destruct (ki_idle s K Eu Hng) as [A B]. split; auto. intros id E. rewrite Eep in B. auto.
        -- discriminate.
      * injection H as <-. destruct (ki_fresh s K Eu) as [Hr Hc].
        constructor; simpl.
        -- apply (ki_race s K).
        -- intros Ha. pose proof (ki_closed_conn s K Ha). congruence.
        -- auto.
        -- intros _ E; exfalso; apply E; reflexivity.
        -- discriminate.
        -- auto.
        -- discriminate.
        -- discriminate.
        -- intros _ N. exfalso. apply N. exact Logic.I.
        -- apply (ki_ok s K).
    + injection H as <-. apply finish_call_inv; [exact K | | | | | | ].
      * reflexivity.
      * intros _ E; exfalso; apply E; reflexivity.
      * discriminate.
      * intros Eu. destruct (ki_fresh s K Eu). auto.
      * intros Eu. destruct (ki_idle s K Eu Hng) as [A B]. split; auto. intros id E. rewrite Eep in B. auto.
      * discriminate.
  - (* KRace *)
    assert (G : forall r, k_w s = WRace -> step c (k_race s) l' = Some r ->
              KInv {| k_race := r; k_w := WRace; k_connector := k_connector s; k_scope_used := k_scope_used s;
                      k_scope_cancel := k_scope_cancel s; k_task_cancel := k_task_cancel s;
                      k_endpoint := k_endpoint s; k_sock_closed := k_sock_closed s; k_aclosed := k_aclosed s;
                      k_outs := k_outs s |}).
    { intros r Ew Es.
      assert (Ir : Inv c r) by (eapply step_inv; eauto; apply (ki_race s K)).
      assert (Hg : in_get (k_w s)) by (rewrite Ew; exact Logic.I).
      destruct (ki_get_ep s K Hg) as [Hep [Hu Hc]].
      constructor; simpl.
      - exact Ir.
      - apply (ki_closed_conn s K).
      - intros _. apply (ki_get_conn s K Hg).
      - apply (ki_closed_ep s K).
      - discriminate.
      - auto.
      - intros id E. congruence.
      - intros E. congruence.
      - intros _ N. exfalso. apply N. exact Logic.I.
      - apply (ki_ok s K). }
    destruct (k_w s) eqn:Ew; destruct l'; try discriminate;
      (destruct (step c (k_race s) _) as [r|] eqn:Es; [|discriminate]; injection H as <-; apply G; auto).
  - (* KRaceDone *)
    destruct (k_w s) eqn:Ew; try discriminate.
    assert (Hg : in_get (k_w s)) by (rewrite Ew; exact Logic.I).
    destruct (ki_get_ep s K Hg) as [Hep [Hu Hc]].
    assert (Hfin : forall o conn, r_result (k_race s) <> None -> (forall id, r_result (k_race s) <> Some (ResSock id)) ->
                   (k_aclosed s = true -> conn = false) -> o <> WOk ->
                   KInv (finish_call s o conn true (k_endpoint s) (k_sock_closed s))).
    { intros o conn Hr Hns Hconn Ho. apply finish_call_inv; [exact K | | | | | | ].
      - exact Hconn.
      - apply (ki_closed_ep s K).
      - apply (ki_ep s K).
      - discriminate.
      - intros _. split; [exact Hr | intros id E; exfalso; eapply Hns; eauto].
      - intros _. exact Ho. }
    destruct (r_result (k_race s)) as [[id | n | | ]|] eqn:Er; try discriminate.
    + injection H as <-. constructor; simpl.
      * apply (ki_race s K).
      * apply (ki_closed_conn s K).
      * intros _. apply (ki_get_conn s K Hg).
      * apply (ki_closed_ep s K).
      * intros id' E. inversion E; subst. exact Er.
      * auto.
      * apply (ki_ep s K).
      * apply (ki_fresh s K).
      * intros _ N. exfalso. apply N. exact Logic.I.
      * apply (ki_ok s K).
    + injection H as <-. apply Hfin; try discriminate. apply (ki_closed_conn s K).
    + unfold leave_cancelled in H. destruct swallow.
      * destruct (k_scope_cancel s); [|discriminate]. injection H as <-. apply Hfin; try discriminate. reflexivity.
      * destruct (k_task_cancel s); [|discriminate]. injection H as <-. apply Hfin; try discriminate.
        apply (ki_closed_conn s K).
    + injection H as <-. apply Hfin; try discriminate. apply (ki_closed_conn s K).
  - (* KWrapDone *)
    destruct (k_w s) eqn:Ew; try discriminate.
    assert (Hg : in_get (k_w s)) by (rewrite Ew; exact Logic.I).
    destruct (ki_get_ep s K Hg) as [Hep [Hu Hc]].
    destruct (k_scope_cancel s) eqn:Esc; [discriminate|]. injection H as <-.
    assert (Hna : k_aclosed s = false).
    { destruct (k_aclosed s) eqn:Ea; auto. exfalso. pose proof (ki_closed_conn s K Ea).
      destruct (ki_get_conn s K Hg); congruence. }
    apply finish_call_inv; [exact K | | | | | | ].
    + reflexivity.
    + intros E; congruence.
    + intros id' E. inversion E; subst. apply (ki_wrap s K). exact Ew.
    + discriminate.
    + intros _. split; [rewrite (ki_wrap s K _ Ew); discriminate | intros id' E; left].
      rewrite (ki_wrap s K _ Ew) in E. inversion E; reflexivity.
    + intros E; congruence.
  - (* KWrapCancel *)
    destruct (k_w s) eqn:Ew; try discriminate.
    assert (Hg : in_get (k_w s)) by (rewrite Ew; exact Logic.I).
    destruct (ki_get_ep s K Hg) as [Hep [Hu Hc]].
    assert (Hfin : forall o conn, (k_aclosed s = true -> conn = false) -> o <> WOk ->
                   KInv (finish_call s o conn true (k_endpoint s) true)).
    { intros o conn Hconn Ho. apply finish_call_inv; [exact K | | | | | | ].
      - exact Hconn.
      - reflexivity.
      - apply (ki_ep s K).
      - discriminate.
      - intros _. split; [rewrite (ki_wrap s K _ Ew); discriminate | auto].
      - intros _. exact Ho. }
    unfold leave_cancelled in H. destruct swallow.
    + destruct (k_scope_cancel s); [|discriminate]. injection H as <-. apply Hfin; [reflexivity | discriminate].
    + destruct (k_task_cancel s); [|discriminate]. injection H as <-. apply Hfin; [apply (ki_closed_conn s K) | discriminate].
  - (* KAclose *)
    injection H as <-.
    assert (Hrace : Inv c (if k_connector s then cancel_race c s else k_race s) /\
                    r_result (if k_connector s then cancel_race c s else k_race s) = r_result (k_race s)).
    { destruct (k_connector s); [apply cancel_race_inv; apply (ki_race s K) | split; [apply (ki_race s K) | reflexivity]]. }
    destruct Hrace as [Ir Er].
    constructor; simpl.
    + exact Ir.
    + reflexivity.
    + intros Hg. right. destruct (ki_get_conn s K Hg) as [-> | ->]; [apply orb_true_r | reflexivity].
    + intros _ Hne. destruct (k_endpoint s); [reflexivity | exfalso; apply Hne; reflexivity].
    + intros id E. rewrite Er. apply (ki_wrap s K). exact E.
    + intros Hg. destruct (ki_get_ep s K Hg) as [A [B C]]. rewrite A. auto.
    + intros id E. rewrite Er. apply (ki_ep s K). exact E.
    + intros Eu. destruct (ki_fresh s K Eu) as [A B].
      assert (Hng : ~ in_get (k_w s)) by (intro Hg; destruct (ki_get_ep s K Hg) as [_ [X _]]; congruence).
      rewrite (cancel_race_idle s Hng). split.
      * destruct (k_connector s); exact A.
      * destruct (k_endpoint s) as [id|] eqn:Eep; [|exact B]. exfalso.
        pose proof (ki_ep s K _ Eep) as E. rewrite A in E. discriminate.
    + intros Eu Hng. rewrite Er. destruct (ki_idle s K Eu Hng) as [A B]. split; [exact A|].
      intros id E. destruct (B id E) as [B1 | B1]; [left; exact B1 | right].
      destruct (k_endpoint s); [reflexivity | exact B1].
    + apply (ki_ok s K).
  - (* KCancelTask *)
    destruct (k_w s) eqn:Ew; try discriminate;
      (injection H as <-;
       destruct (cancel_race_inv s (ki_race s K)) as [Ir Er];
       constructor; simpl;
       [ exact Ir
       | apply (ki_closed_conn s K)
       | first [ intros _; apply (ki_get_conn s K); rewrite Ew; exact Logic.I | intros [] ]
       | apply (ki_closed_ep s K)
       | intros id0 E; rewrite Er; apply (ki_wrap s K); congruence
       | first [ intros _; apply (ki_get_ep s K); rewrite Ew; exact Logic.I | intros [] ]
       | intros id0 E; rewrite Er; apply (ki_ep s K); exact E
       | intros Eu; destruct (ki_fresh s K Eu) as [A B]; split; [|exact B];
         assert (Hng : ~ in_get (k_w s)) by (intro Hg; destruct (ki_get_ep s K Hg) as [_ [X _]]; congruence);
         rewrite (cancel_race_idle s Hng); exact A
       | first [ intros _ N; exfalso; apply N; exact Logic.I
               | intros Eu _; rewrite Er; apply (ki_idle s K Eu); rewrite Ew; simpl; tauto ]
       | apply (ki_ok s K) ]).
Qed.

Lemma kexec_inv : forall tr s s', KInv s -> kexec c s tr = Some s' -> KInv s'.
Proof.
  induction tr as [|l tr IH]; intros s s' K H; simpl in H.
  - inversion H; subst; exact K.
  - destruct (kstep c s l) as [s1|] eqn:E; [|discriminate]. eapply IH; [eapply kstep_inv; eauto | exact H].
Qed.

(* no call in progress: every socket created by the race is closed, except the one the endpoint owns *)
Lemma quiescent_open s : KInv s -> ~ in_get (k_w s) ->
  match k_endpoint s with
  | Some id => kopen s = (if k_sock_closed s then [] else [id])
  | None => kopen s = []
  end.
Proof.
  intros K Hng. unfold kopen.
  destruct (k_scope_used s) eqn:Eu.
  - destruct (ki_idle s K Eu Hng) as [A B].
    destruct (result_exact_inv c (k_race s) (ki_race s K)) as [R1 [R2 _]].
    destruct (r_result (k_race s)) as [o|] eqn:Er; [|exfalso; apply A; reflexivity].
    destruct (k_endpoint s) as [id|] eqn:Eep.
    + pose proof (ki_ep s K _ Eep) as E. rewrite Er in E. inversion E; subst.
      destruct (k_sock_closed s); auto. apply R1. reflexivity.
    + destruct (k_sock_closed s) eqn:Ec; auto.
      destruct o as [id | | | ].
      * destruct (B id eq_refl); congruence.
      * apply (R2 _ eq_refl). discriminate.
      * apply (R2 _ eq_refl). discriminate.
      * apply (R2 _ eq_refl). discriminate.
  - destruct (ki_fresh s K Eu) as [A B]. rewrite B, A. simpl.
    destruct (k_endpoint s) as [id|] eqn:Eep; auto.
    pose proof (ki_ep s K _ Eep) as E. rewrite A in E. discriminate.
Qed.

Lemma closed_client_no_socket s : KInv s -> ~ in_get (k_w s) -> k_aclosed s = true -> kopen s = [].
Proof.
  intros K Hng Ha. pose proof (quiescent_open s K Hng) as H.
  destruct (k_endpoint s) as [id|] eqn:Eep; auto.
  rewrite (ki_closed_ep s K Ha) in H by (rewrite Eep; discriminate). exact H.
Qed.

(* a wait_connected() that starts on a closed client reports ClientClosedError *)
Lemma closed_then_wait s s' : KInv s -> k_aclosed s = true -> k_w s = WNew -> k_task_cancel s = false ->
  kstep c s KBegin = Some s' -> k_w s' = WIdle /\ k_outs s' = k_outs s ++ [(WClosed, true)] /\ kopen s' = kopen s.
Proof.
  intros K Ha Ew Et H. unfold kstep in H. rewrite Ew, Et in H.
  destruct (k_endpoint s) as [id|] eqn:Eep.
  - assert (Hc : k_sock_closed s = true) by (apply (ki_closed_ep s K Ha); rewrite Eep; discriminate).
    rewrite Hc in H. injection H as <-. unfold finish_call, kopen; simpl. rewrite Ha, Hc. auto.
  - rewrite (ki_closed_conn s K Ha) in H. injection H as <-. unfold finish_call, kopen; simpl. rewrite Ha. auto.
Qed.

End Client.
