(* C17 proofs, part 1: the finite domain.
   Exception values are a naked leaf or a group; a group in canonical form is a sublist of [all_leaves], so the
   canonical exceptions form the finite list [all_canon_excs] (7 naked + 128 groups).  Every statement below is a
   boolean check evaluated by vm_compute over that COMPLETE domain x every position x both server flavours, and lifted
   to a universally quantified statement with forallb_forall.  This is a legitimate proof because the domain is
   enumerated completely (membership lemmas below), not sampled.  The tables the checks evaluate (Gen/ParamsC17.v) are
   regenerated from /repo's source on every run, so a narrowed except clause makes [reflexivity] fail here.
   Part 2 (C17_general.v) removes the canonical-form restriction. *)
From Coq Require Import List Bool ZArith Lia.
From EN Require Import Conc.ExcKinds Gen.ParamsC17 Conc.Isolation.
Import ListNotations.

Definition is_none {X} (o : option X) : bool := match o with None => true | Some _ => false end.
Lemma is_none_true {X} (o : option X) : is_none o = true -> o = None.
Proof. destruct o; simpl; congruence. Qed.

Definition opt_is_exception (o : option exc) : bool := match o with None => true | Some e => exc_is_exception e end.
Definition all_opt_canon : list (option exc) := None :: map Some all_canon_excs.

Lemma all_positions_complete : forall p, In p all_positions.
Proof. destruct p as [| | | | | | | | | | |d|]; try (simpl; tauto); destruct d; simpl; tauto. Qed.
Lemma all_upos_complete : forall p, In p all_upos.
Proof. destruct p as [| | | | |d| | | | |]; try (simpl; tauto); destruct d; simpl; tauto. Qed.
Lemma all_leaves_complete : forall k, In k all_leaves.
Proof. destruct k; simpl; tauto. Qed.
Lemma flavours_complete : forall f, In f all_flavours.
Proof. destruct f; simpl; tauto. Qed.

(* ---- TCP ---- *)
Definition chk_tcp_raises (tls : flavour) (p : position) (e1 : exc) (e2 : option exc) : bool :=
  implb (exc_is_exception e1 && opt_is_exception e2) (is_none (o_raises (tcp_client_task tls p e1 e2))).

Lemma tcp_raises_table :
  forallb (fun tls => forallb (fun p => forallb (fun e1 => forallb (fun e2 => chk_tcp_raises tls p e1 e2)
     all_opt_canon) all_canon_excs) all_positions) all_flavours = true.
Proof. vm_compute. reflexivity. Qed.

Lemma tcp_never_raises_canon :
  forall tls p e1 e2,
    In e1 all_canon_excs -> In e2 all_opt_canon ->
    exc_is_exception e1 = true -> opt_is_exception e2 = true ->
    o_raises (tcp_client_task tls p e1 e2) = None.
Proof.
  intros tls p e1 e2 H1 H2 X1 X2.
  pose proof tcp_raises_table as T.
  rewrite forallb_forall in T. specialize (T tls (flavours_complete tls)).
  rewrite forallb_forall in T. specialize (T p (all_positions_complete p)).
  rewrite forallb_forall in T. specialize (T e1 H1).
  rewrite forallb_forall in T. specialize (T e2 H2).
  unfold chk_tcp_raises in T. rewrite X1, X2 in T. simpl in T. now apply is_none_true.
Qed.

(* closed on every path, whatever is raised (also for BaseException kinds) *)
Lemma tcp_closed_always_main : forall tls p e1 e2, o_closed (tcp_client_task_main tls p e1 e2) = true.
Proof.
  intros. unfold tcp_client_task_main.
  repeat match goal with |- context [let '(_, _) := ?x in _] => destruct x end.
  reflexivity.
Qed.

Lemma tcp_closed_always : forall tls p e1 e2,
  o_closed (tcp_client_task tls p e1 e2) = true.
Proof.
  intros. unfold tcp_client_task. destruct p; try apply tcp_closed_always_main;
    try (destruct (delay_error d) as [k|]; [destruct (leaf_matches tcp_wait_clauses k)|]);
    try destruct receiver_next_protected; solve [apply tcp_closed_always_main | reflexivity].
Qed.

Lemma tcp_disc_iff_connected_main : forall tls p e1 e2,
  o_disc_called (tcp_client_task_main tls p e1 e2) = pos_connected p.
Proof.
  intros. unfold tcp_client_task_main.
  repeat match goal with |- context [let '(_, _) := ?x in _] => destruct x end.
  reflexivity.
Qed.

Lemma tcp_disc_iff_connected : forall tls p e1 e2,
  o_disc_called (tcp_client_task tls p e1 e2) = pos_connected p.
Proof.
  intros. unfold tcp_client_task. destruct p; try apply tcp_disc_iff_connected_main;
    try (destruct (delay_error d) as [k|]; [destruct (leaf_matches tcp_wait_clauses k)|]);
    try destruct receiver_next_protected; solve [apply tcp_disc_iff_connected_main | reflexivity].
Qed.

Lemma tcp_hook4_iff_connected_main : forall tls p e1 e2,
  existsb (Z.eqb 4) (o_hooks (tcp_client_task_main tls p e1 e2)) = pos_connected p.
Proof.
  intros. unfold tcp_client_task_main.
  repeat match goal with |- context [let '(_, _) := ?x in _] => destruct x end.
  destruct p; try reflexivity; destruct d; reflexivity.
Qed.

Lemma tcp_hook4_iff_connected : forall tls p e1 e2,
  existsb (Z.eqb 4) (o_hooks (tcp_client_task tls p e1 e2)) = pos_connected p.
Proof.
  intros. unfold tcp_client_task. destruct p; try apply tcp_hook4_iff_connected_main;
    try (destruct (delay_error d) as [k|]; [destruct (leaf_matches tcp_wait_clauses k)|]);
    try destruct receiver_next_protected; solve [apply tcp_hook4_iff_connected_main | reflexivity].
Qed.

(* faults raised by an exit callback registered after the suppressor (the TLS close handshake) *)
Definition chk_exit_cb (e : exc) : bool :=
  implb (exc_is_exception e) (is_none (o_raises (tcp_exit_callback_fault FTlsCompat SAclosing e))
                              && is_none (o_raises (tcp_exit_callback_fault FPlain SLinger e))
                              && is_none (o_raises (tcp_exit_callback_fault FTlsCompat SOnDisconnect e))
                              && is_none (o_raises (tcp_exit_callback_fault FPlain SOnDisconnect e))).
Lemma exit_cb_table : forallb chk_exit_cb all_canon_excs = true.
Proof. vm_compute. reflexivity. Qed.

(* ---- set-up faults ---- *)
Definition chk_setup (st : setup_stage) (e : exc) : bool :=
  implb (exc_is_exception e) (is_none (o_raises (setup_task st e)) && o_closed (setup_task st e)).
Lemma setup_table : forallb (fun st => forallb (chk_setup st) all_canon_excs) [StConnect; StHandshake] = true.
Proof. vm_compute. reflexivity. Qed.

Lemma setup_never_raises_canon : forall st e,
  In e all_canon_excs -> exc_is_exception e = true ->
  o_raises (setup_task st e) = None /\ o_closed (setup_task st e) = true /\ o_hooks (setup_task st e) = [].
Proof.
  intros st e H X. pose proof setup_table as T.
  rewrite forallb_forall in T.
  assert (In st [StConnect; StHandshake]) as Hs by (destruct st; simpl; tauto).
  specialize (T st Hs). rewrite forallb_forall in T. specialize (T e H).
  unfold chk_setup in T. rewrite X in T. simpl in T. apply andb_true_iff in T. destruct T as [A B].
  split; [now apply is_none_true | split; [exact B | reflexivity]].
Qed.

(* ---- UDP ---- *)
Definition is_cnone (s : cstate) : bool := match s with CNone => true | CRunning => false end.
Definition chk_udp (p : upos) (e : exc) : bool :=
  implb (exc_is_exception e)
        (is_none (u_raises (udp_client_task p e)) && is_cnone (u_state (udp_client_task p e)) && u_fresh (udp_client_task p e)).
Lemma udp_table : forallb (fun p => forallb (chk_udp p) all_canon_excs) all_upos = true.
Proof. vm_compute. reflexivity. Qed.

Lemma udp_never_raises_canon : forall p e,
  In e all_canon_excs -> exc_is_exception e = true ->
  u_raises (udp_client_task p e) = None /\ u_state (udp_client_task p e) = CNone /\ u_fresh (udp_client_task p e) = true.
Proof.
  intros p e H X. pose proof udp_table as T.
  rewrite forallb_forall in T. specialize (T p (all_upos_complete p)).
  rewrite forallb_forall in T. specialize (T e H).
  unfold chk_udp in T. rewrite X in T. simpl in T.
  apply andb_true_iff in T. destruct T as [T C]. apply andb_true_iff in T. destruct T as [A B].
  split; [now apply is_none_true|]. split; [|exact C].
  destruct (u_state (udp_client_task p e)); simpl in B; congruence.
Qed.

(* the state returns to None even when the exception is NOT filtered (the server is lost then, but the per-client
   record is consistent): mark_done sits in a finally clause *)
Lemma udp_state_none_always : forall p e, u_state (udp_client_task p e) = CNone.
Proof.
  intros. assert (M : forall p, u_state (udp_client_task_main p e) = CNone).
  { intros q. unfold udp_client_task_main. destruct (match_run udp_aexit e) as [r lg]. destruct r; reflexivity. }
  unfold udp_client_task. destruct p; try apply M;
    try (destruct (delay_error d) as [k|]; [destruct (leaf_matches udp_wait_clauses k)|]);
    try destruct udp_first_parse_protected; try destruct (leaf_matches udp_wait_clauses KGeneric); solve [apply M | reflexivity].
Qed.

(* ---- non-vacuity ---- *)
Lemma fatal_escapes_tcp : o_raises (tcp_client_task FPlain PHandleAfter (Naked KFatal) None) = Some (Naked KFatal).
Proof. vm_compute. reflexivity. Qed.
Lemma fatal_group_escapes_udp :
  u_raises (udp_client_task UAfter (Group [KGeneric; KFatal])) = Some (Group [KGeneric; KFatal]).
Proof. vm_compute. reflexivity. Qed.
Lemma exception_kinds_exist : exc_is_exception (Group [KGeneric; KClientClosed]) = true /\ In (Group [KGeneric; KClientClosed]) all_canon_excs.
Proof. split; [reflexivity | vm_compute; repeat (try (left; reflexivity); right)]. Qed.

(* ---- the final forced close: every OSError-derived kind raised by the socket shutdown is swallowed ---- *)
Definition chk_final_close (k : leaf) : bool :=
  implb (isinst k C_OSError) (is_none (f_exc (layers_run adapter_close (Naked k)))).
Lemma final_close_table : forallb chk_final_close all_leaves = true.
Proof. vm_compute. reflexivity. Qed.
Lemma final_close_swallowed k : isinst k C_OSError = true -> f_exc (layers_run adapter_close (Naked k)) = None.
Proof.
  intros H. pose proof final_close_table as T. rewrite forallb_forall in T. specialize (T k (all_leaves_complete k)).
  unfold chk_final_close in T. rewrite H in T. simpl in T. now apply is_none_true.
Qed.
Lemma oserror_kinds_exist : isinst KOSError C_OSError = true /\ isinst KTimeout C_OSError = true /\ isinst KGeneric C_OSError = false.
Proof. repeat split; reflexivity. Qed.
