(* The buffer-filling consumer over _wrap_generic_buffered_incremental_deserialize simulates the copying consumer over the
   same generator: when every fill fits the exported view, BufferedStreamDataConsumer (bcfills) and StreamDataConsumer
   (cdeliver) produce the same events, for ANY framer.  The consumer-level buffered round trips follow. *)
From Coq Require Import ZArith List Bool Lia Arith.
From EN Require Import Lib.Bytes Frame.Framer Frame.ErrSites Frame.Generic Stream.Consumer
  Proofs.Bytes_proofs Proofs.C06_progress Proofs.C07_extra Proofs.C01_generic.
Import ListNotations.

Lemma firstn_app_len {X} (a b : list X) : firstn (length a) (a ++ b) = a.
Proof. induction a; cbn; [destruct b; reflexivity|f_equal; assumption]. Qed.

Section BufSim.
  Context {P : Type}.
  Variable F : framer P.
  Variable alloc : nat -> nat.
  Variable sizehint : nat.
  Let B := bwrap_generic F alloc.

  Definition st_of (o : option (fst_ F)) : fst_ F := match o with Some s => s | None => finit F end.

  (* the re-injected remainder at the start of the receive buffer = the copying consumer's leftover buffer *)
  Definition sim (bc : bcstate B) (c : cstate F) : Prop :=
    bstart bc = 0 /\ bexported bc = None /\ st_of (bcons bc) = st_of (ccons c) /\
    (bcons bc = None -> balready bc = 0) /\
    match bmem bc with
    | Some mem => mem <> [] /\ balready bc <= length mem /\ firstn (balready bc) mem = cbuf c
    | None => balready bc = 0 /\ cbuf c = [] /\ bcons bc = None
    end.

  Definition mkb (m : option bytes) (a : nat) (co : option (fst_ F)) : bcstate B :=
    @Build_bcstate P B m 0 a None co.

  Definition bpost (mem : bytes) (r : fres (fst_ F) P) : bcstate B * nres P :=
    match r with
    | Need s => (mkb (Some mem) 0 (Some s), RStop)
    | Done p rest => (bc_save_remainder B sizehint (mkb (Some mem) 0 None) rest, RPkt p)
    | Fail e rest => (bc_save_remainder B sizehint (mkb (Some mem) 0 None) rest, RErr e)
    | Crash => (mkb None 0 None, RCrash)
    end.

  Definition cpost (r : fres (fst_ F) P) : cstate F * nres P :=
    match r with
    | Need s => ({| cbuf := []; ccons := Some s |}, RStop)
    | Done p rest => ({| cbuf := rest; ccons := None |}, RPkt p)
    | Fail e rest => ({| cbuf := rest; ccons := None |}, RErr e)
    | Crash => ({| cbuf := []; ccons := None |}, RCrash)
    end.

  Lemma cfeed_cpost c (data : bytes) : cfeed F c data = cpost (ffeed F (st_of (ccons c)) data).
  Proof. unfold cfeed, cpost, st_of. destruct (ccons c); destruct (ffeed F _ data); reflexivity. Qed.

  Lemma write_at_0 (mem rest : bytes) : write_at mem 0 rest = rest ++ skipn (length rest) mem.
  Proof. reflexivity. Qed.

  Lemma save_sim mem (rest : bytes) : mem <> [] ->
    sim (bc_save_remainder B sizehint (mkb (Some mem) 0 None) rest) {| cbuf := rest; ccons := None |}.
  Proof.
    intros Hm. unfold bc_save_remainder. destruct rest as [|b r].
    - cbn. repeat split; auto. cbn. lia.
    - unfold bc_get_write_buffer. cbn [bexported mkb bmem bcons balready binit B bwrap_generic bstart].
      assert (Hl : Nat.eqb (length mem - (0 + 0)) 0 = false) by (apply Nat.eqb_neq; destruct mem; [congruence|cbn; lia]).
      rewrite Hl. cbn [bmem bstart balready bcons].
      unfold sim. cbn [bstart bexported bcons balready bmem cbuf ccons st_of].
      split; [reflexivity|]. split; [reflexivity|]. split; [reflexivity|]. split; [discriminate|].
      rewrite write_at_0. split; [discriminate|]. split.
      + rewrite app_length. cbn. lia.
      + cbn [plus]. apply (firstn_app_len (b :: r)).
  Qed.

  Lemma post_sim mem r : mem <> [] -> sim (fst (bpost mem r)) (fst (cpost r)) /\ snd (bpost mem r) = snd (cpost r).
  Proof.
    intros Hm. split; [|destruct r; reflexivity]. destruct r as [s|p rest|e rest|]; cbn [bpost cpost fst snd].
    - unfold sim. cbn. repeat split; auto; try discriminate; try lia.
    - apply save_sim; assumption.
    - apply save_sim; assumption.
    - unfold sim. cbn. repeat split; auto.
  Qed.

  (* the feeding branch of next(): the generator is sent buffer[:nb] *)
  Lemma bcnext_feed bc n st mem :
    bcons bc = Some st -> bmem bc = Some mem -> bstart bc = 0 ->
    match n with None => True | Some k => exists off len, bexported bc = Some (off, len) /\ k <= len end ->
    let nb := match n with Some k => k | None => 0 end + balready bc in
    nb <> 0 ->
    bcnext B sizehint bc n = bpost mem (ffeed F st (firstn nb mem)).
  Proof.
    intros Hc Hm Hs Hn nb Hnb. unfold bcnext.
    assert (Hbad : match n with
                   | None => false
                   | Some k => match bexported bc with None => true | Some (_, len) => Nat.ltb len k end
                   end = false).
    { destruct n as [k|]; [|reflexivity]. destruct Hn as (off & len & -> & Hk). apply Nat.ltb_ge. exact Hk. }
    rewrite Hbad, Hc, Hm. fold nb.
    destruct (Nat.eqb nb 0) eqn:E0; [apply Nat.eqb_eq in E0; congruence|].
    cbn [bfeed B bwrap_generic]. unfold bwrap_feed, bpost, mkb. rewrite Hs.
    destruct (ffeed F st (firstn nb mem)); reflexivity.
  Qed.

  Lemma bcnext_none_sim bc c : sim bc c ->
    sim (fst (bcnext B sizehint bc None)) (fst (cnext F c None)) /\ snd (bcnext B sizehint bc None) = snd (cnext F c None).
  Proof.
    intros Hs. pose proof Hs as (H0 & He & Hst & Hn & Hm).
    destruct (bcons bc) as [st|] eqn:Ec.
    - destruct (bmem bc) as [mem|] eqn:Em; [|destruct Hm as (_ & _ & Hx); discriminate].
      destruct Hm as (Hne & Hle & Hf).
      destruct (Nat.eq_dec (balready bc) 0) as [Ha|Ha].
      + (* nothing re-injected: StopIteration on both sides *)
        unfold bcnext. rewrite Ec. cbn. rewrite Ha. cbn.
        rewrite Ha in Hf. cbn in Hf. unfold cnext. rewrite <- Hf. cbn.
        split; [|reflexivity]. unfold sim. cbn. try rewrite Ec. try rewrite Em. repeat split; auto; try discriminate; try lia.
      + rewrite (bcnext_feed bc None st mem Ec Em H0 I) by (cbn; exact Ha). cbn [plus].
        assert (Hcb : cbuf c <> []) by (rewrite <- Hf; destruct mem; [congruence|]; destruct (balready bc); [congruence|discriminate]).
        unfold cnext. destruct (cbuf c) as [|x l] eqn:Eb; [congruence|].
        rewrite cfeed_cpost, <- Hst. cbn [st_of]. rewrite Hf. apply post_sim; assumption.
    - specialize (Hn eq_refl). unfold bcnext. rewrite Ec. cbn [fst snd].
      assert (Hcb : cbuf c = []).
      { destruct (bmem bc) as [mem|]; [destruct Hm as (_ & _ & Hf); rewrite Hn in Hf; cbn in Hf; auto|tauto]. }
      unfold cnext. rewrite Hcb. cbn. split; [exact Hs|reflexivity].
  Qed.

  Lemma bcdrain_sim fuel : forall bc c, sim bc c ->
    sim (fst (bcdrain B sizehint fuel bc)) (fst (cdrain F fuel c)) /\
    snd (bcdrain B sizehint fuel bc) = snd (cdrain F fuel c).
  Proof.
    induction fuel as [|f IH]; intros bc c Hs; [split; [exact Hs|reflexivity]|].
    cbn [bcdrain cdrain]. pose proof (bcnext_none_sim bc c Hs) as [H1 H2].
    destruct (bcnext B sizehint bc None) as [bc1 r]. destruct (cnext F c None) as [c1 r']. cbn [fst snd] in *. subst r'.
    destruct r as [p|e| |]; try (split; [exact H1|reflexivity]);
      (specialize (IH bc1 c1 H1); destruct (bcdrain B sizehint f bc1) as [bc2 rs]; destruct (cdrain F f c1) as [c2 rs'];
       cbn [fst snd] in *; destruct IH as [I1 I2]; split; [exact I1|congruence]).
  Qed.

  Lemma firstn_write_at mem a (d : bytes) : a <= length mem ->
    firstn (length d + a) (write_at mem a d) = firstn a mem ++ d.
  Proof.
    intros Ha. unfold write_at. rewrite Nat.add_comm.
    rewrite firstn_app, firstn_length, Nat.min_l by exact Ha.
    replace (a + length d - a) with (length d) by lia.
    rewrite (firstn_all2 (n := a + length d)) by (rewrite firstn_length; lia).
    rewrite (firstn_app_len d). reflexivity.
  Qed.

  Lemma write_at_ne (mem : bytes) off (d : bytes) : mem <> [] -> write_at mem off d <> [].
  Proof.
    intros Hm. unfold write_at. destruct off; [cbn; destruct d; [cbn; assumption|discriminate]|].
    destruct mem; [congruence|]. cbn. discriminate.
  Qed.

  (* one receive round whose fill fits the view *)
  Lemma bcstep_sim fuel bc c (d : bytes) : sim bc c -> d <> [] -> length d <= view_len B sizehint bc ->
    sim (fst (fst (bcstep B sizehint fuel bc d))) (fst (cstep F fuel c d)) /\
    snd (fst (bcstep B sizehint fuel bc d)) = snd (cstep F fuel c d).
  Proof.
    intros Hs Hd Hfit. pose proof Hs as (H0 & He & Hst & Hn & Hm).
    unfold bcstep, view_len in *. unfold bc_get_write_buffer in *. rewrite He in *.
    set (mem := match bmem bc with Some m => m | None => repeat 0%N (balloc B sizehint) end) in *.
    set (cs := match bcons bc with Some s => (s, bstart bc) | None => binit B end) in *.
    assert (Hcs : cs = (st_of (bcons bc), 0)) by (unfold cs, st_of; destruct (bcons bc); [rewrite H0|]; reflexivity).
    rewrite Hcs in *. cbn [fst snd] in *.
    set (a := balready bc) in *.
    destruct (Nat.eqb (length mem - (0 + a)) 0) eqn:El; cbn [snd fst] in Hfit.
    { exfalso. destruct d; [congruence|cbn in Hfit; lia]. }
    apply Nat.eqb_neq in El. cbn [plus] in *.
    assert (Hmem : mem <> [] /\ a <= length mem /\ firstn a mem = cbuf c).
    { unfold mem. destruct (bmem bc) as [m|] eqn:Em; [exact Hm|].
      destruct Hm as (Ha & Hb & _). unfold a in *. rewrite Ha in *. cbn. rewrite Hb. split; [|split; [lia|reflexivity]].
      intros Hr. assert (Hz : length mem = 0) by (unfold mem; try rewrite Em; exact (f_equal (@length byte) Hr)). lia. }
    destruct Hmem as (Hmne & Hale & Hfa).
    rewrite (firstn_all2 (n := length mem - a) d) by exact Hfit.
    unfold bc_fill. cbn [bmem bexported bstart balready bcons].
    erewrite (bcnext_feed _ (Some (length d)) (st_of (bcons bc)) (write_at mem a d)); cbn [bcons bmem bstart bexported balready];
      try reflexivity.
    2:{ exists a, (length mem - a). split; [reflexivity|exact Hfit]. }
    2:{ destruct d; [congruence|cbn; lia]. }
    rewrite (firstn_write_at mem a d Hale), Hfa.
    unfold cstep, cnext. destruct d as [|x d']; [congruence|]. rewrite cfeed_cpost, <- Hst.
    pose proof (post_sim (write_at mem a (x :: d')) (ffeed F (st_of (bcons bc)) (cbuf c ++ x :: d')) (write_at_ne mem a _ Hmne)) as [P1 P2].
    destruct (bpost _ _) as [bc3 r]. destruct (cpost _) as [c3 r']. cbn [fst snd] in *. subst r'.
    destruct r as [p|e| |]; try (split; [exact P1|reflexivity]);
      (pose proof (bcdrain_sim fuel bc3 c3 P1) as [D1 D2]; destruct (bcdrain B sizehint fuel bc3) as [bc4 rs];
       destruct (cdrain F fuel c3) as [c4 rs']; cbn [fst snd] in *; split; [exact D1|congruence]).
  Qed.

  Lemma bcfills_sim fuel fills : forall bc c, sim bc c -> fills_fit B sizehint fuel bc fills ->
    sim (fst (bcfills B sizehint fuel bc fills)) (fst (cdeliver F fuel c fills)) /\
    snd (bcfills B sizehint fuel bc fills) = snd (cdeliver F fuel c fills).
  Proof.
    induction fills as [|d ds IH]; intros bc c Hs Hfit; [split; [exact Hs|reflexivity]|].
    cbn [fills_fit] in Hfit. destruct Hfit as (Hd & Hl & Hrest).
    cbn [bcfills cdeliver]. pose proof (bcstep_sim fuel bc c d Hs Hd Hl) as [S1 S2].
    destruct (bcstep B sizehint fuel bc d) as [[bc1 rs] n]. destruct (cstep F fuel c d) as [c1 rs']. cbn [fst snd] in *. subst rs'.
    specialize (IH bc1 c1 S1 Hrest). destruct (bcfills B sizehint fuel bc1 ds) as [bc2 r2]. destruct (cdeliver F fuel c1 ds) as [c2 r2'].
    cbn [fst snd] in *. destruct IH as [I1 I2]. split; [exact I1|congruence].
  Qed.

  (* when the copying consumer has no leftover, nothing is re-injected in the receive buffer *)
  Lemma sim_idle_already bc c : sim bc c -> cbuf c = [] -> balready bc = 0.
  Proof.
    intros (_ & _ & _ & Hn & Hm) Hb. destruct (bmem bc) as [mem|]; [|tauto].
    destruct Hm as (_ & Hle & Hf). rewrite Hb in Hf. destruct (balready bc) as [|a]; [reflexivity|].
    destruct mem; [cbn in Hle; lia|cbn in Hf; discriminate].
  Qed.

  Lemma sim_init : sim (bcinit B) (cinit F).
  Proof. unfold sim. cbn. repeat split; auto. Qed.

  (* the buffer-filling consumer delivers exactly what the copying consumer delivers *)
  Theorem bwrap_simulates fuel fills : fills_fit B sizehint fuel (bcinit B) fills ->
    snd (bcfills B sizehint fuel (bcinit B) fills) = snd (cdeliver F fuel (cinit F) fills) /\
    sim (fst (bcfills B sizehint fuel (bcinit B) fills)) (fst (cdeliver F fuel (cinit F) fills)).
  Proof. intros Hf. destruct (bcfills_sim fuel fills _ _ sim_init Hf). auto. Qed.
End BufSim.

(* _wrap_generic_incremental_deserialize changes nothing the consumer can see *)
Section WrapSame.
  Context {P : Type}.
  Variable G : framer P.
  Let W := wrap_generic G.

  Definition weq (c1 : cstate W) (c2 : cstate G) : Prop := cbuf c1 = cbuf c2 /\ ccons c1 = ccons c2.

  Lemma cfeed_weq c1 c2 (data : bytes) : weq c1 c2 ->
    weq (fst (cfeed W c1 data)) (fst (cfeed G c2 data)) /\ snd (cfeed W c1 data) = snd (cfeed G c2 data).
  Proof.
    intros [Hb Hc]. unfold cfeed. rewrite Hc. cbn [finit ffeed W wrap_generic].
    destruct (ffeed G _ data); cbn; repeat split; reflexivity.
  Qed.

  Lemma cnext_weq c1 c2 chunk : weq c1 c2 ->
    weq (fst (cnext W c1 chunk)) (fst (cnext G c2 chunk)) /\ snd (cnext W c1 chunk) = snd (cnext G c2 chunk).
  Proof.
    intros Hw. pose proof Hw as [Hb Hc]. unfold cnext. rewrite Hb.
    destruct chunk as [[|b ch]|]; try (destruct (cbuf c2); [split; [exact Hw|reflexivity]|apply cfeed_weq; exact Hw]).
    apply cfeed_weq; exact Hw.
  Qed.

  Lemma cdrain_weq fuel : forall c1 c2, weq c1 c2 ->
    weq (fst (cdrain W fuel c1)) (fst (cdrain G fuel c2)) /\ snd (cdrain W fuel c1) = snd (cdrain G fuel c2).
  Proof.
    induction fuel as [|f IH]; intros c1 c2 Hw; [split; [exact Hw|reflexivity]|].
    cbn [cdrain]. pose proof (cnext_weq c1 c2 None Hw) as [H1 H2].
    destruct (cnext W c1 None) as [d1 r]. destruct (cnext G c2 None) as [d2 r']. cbn [fst snd] in *. subst r'.
    destruct r as [p|e| |].
    3: split; [exact H1|reflexivity].
    all: specialize (IH d1 d2 H1); destruct (cdrain W f d1) as [e1 rs]; destruct (cdrain G f d2) as [e2 rs'];
         cbn [fst snd] in *; destruct IH as [I1 I2]; split; [exact I1|congruence].
  Qed.

  Lemma cdeliver_weq fuel chunks : forall c1 c2, weq c1 c2 ->
    weq (fst (cdeliver W fuel c1 chunks)) (fst (cdeliver G fuel c2 chunks)) /\
    snd (cdeliver W fuel c1 chunks) = snd (cdeliver G fuel c2 chunks).
  Proof.
    induction chunks as [|ch cs IH]; intros c1 c2 Hw; [split; [exact Hw|reflexivity]|].
    cbn [cdeliver]. unfold cstep.
    pose proof (cnext_weq c1 c2 (Some ch) Hw) as [H1 H2].
    destruct (cnext W c1 (Some ch)) as [d1 r]. destruct (cnext G c2 (Some ch)) as [d2 r']. cbn [fst snd] in *. subst r'.
    assert (Hstep : exists e1 e2 rs, weq e1 e2 /\
              (match r with RStop => (d1, []) | _ => let '(c'', rs0) := cdrain W fuel d1 in (c'', r :: rs0) end) = (e1, rs) /\
              (match r with RStop => (d2, []) | _ => let '(c'', rs0) := cdrain G fuel d2 in (c'', r :: rs0) end) = (e2, rs)).
    { destruct r as [p|e| |].
      3: exists d1, d2, []; auto.
      all: pose proof (cdrain_weq fuel d1 d2 H1) as [D1 D2]; destruct (cdrain W fuel d1) as [e1 rs]; destruct (cdrain G fuel d2) as [e2 rs'];
           cbn [fst snd] in *; subst rs'; eexists; eexists; eexists; split; [exact D1|split; reflexivity]. }
    destruct Hstep as (e1 & e2 & rs & He & E1 & E2). rewrite E1, E2.
    specialize (IH e1 e2 He). destruct (cdeliver W fuel e1 cs) as [f1 r1]. destruct (cdeliver G fuel e2 cs) as [f2 r2].
    cbn [fst snd] in *. destruct IH as [I1 I2]. split; [exact I1|congruence].
  Qed.
End WrapSame.

(* ---- consumer-level buffered round trips: file based and compressors ---- *)
Theorem fb_buffered_roundtrip_l {P} limit (load : bytes -> lres P) expected (enc : P -> bytes) :
  (forall p, enc p <> []) ->
  (forall p r, load (enc p ++ r) = LDone p (length (enc p))) ->
  (forall p q x, enc p = q ++ x -> x <> [] -> load q = LEof (length q)) ->
  forall (pkts : list P) (fills : list bytes) (sizehint m fuel : nat),
    let B := bwrap_generic (fb_framer limit load expected) (fb_alloc limit) in
    fills_fit B sizehint fuel (bcinit B) fills ->
    concat fills = concat (map enc pkts) ->
    Forall (fun p => length (enc p) <= m) pkts -> Forall (fun d : bytes => m + length d <= limit) fills ->
    length (concat fills) < fuel ->
    snd (bcfills B sizehint fuel (bcinit B) fills) = map RPkt pkts /\
    (let c' := fst (bcfills B sizehint fuel (bcinit B) fills) in balready c' = 0).
Proof.
  intros H1 H2 H3 pkts fills sizehint m fuel B Hfit Heq Hm Hc Hf.
  assert (Hne : Forall (fun ch : bytes => ch <> []) fills).
  { clear - Hfit. revert Hfit. generalize (bcinit B). induction fills as [|d ds IH]; intros c H; [constructor|].
    simpl in H. destruct H as (Hd & _ & Hr). constructor; [exact Hd|eapply IH; exact Hr]. }
  destruct (fb_roundtrip_l limit load expected enc H1 H2 H3 pkts fills m fuel Hne Heq Hm Hc Hf) as (c' & Hdl & Hb & Hcc).
  destruct (bwrap_simulates (fb_framer limit load expected) (fb_alloc limit) sizehint fuel fills Hfit) as [Hev Hsim].
  pose proof (cdeliver_weq (fb_framer limit load expected) fuel fills (cinit _) (cinit _) (conj eq_refl eq_refl)) as [Hw Hwe].
  rewrite Hdl in Hw, Hwe. cbn [fst snd] in Hw, Hwe. destruct Hw as [Hwb Hwc].
  split; [fold B in Hev; rewrite Hev, <- Hwe; reflexivity|].
  cbn zeta. eapply sim_idle_already; [exact Hsim|]. rewrite <- Hwb. exact Hb.
Qed.

Lemma fills_fit_nonempty {P} (B : bframer P) sizehint fuel fills : forall c,
  fills_fit B sizehint fuel c fills -> Forall (fun d : bytes => d <> []) fills.
Proof.
  induction fills as [|d ds IH]; intros c H; [constructor|].
  simpl in H. destruct H as (Hd & _ & Hr). constructor; [exact Hd|eapply IH; exact Hr].
Qed.

Theorem cz_buffered_roundtrip_l {P} (D : Type) (dnew : D) (dd : D -> bytes -> (D * bytes) + Z) (deof : D -> bool)
        (dunused : D -> bytes) (expected : Z -> bool) (inner : bytes -> ores P) (inner_declared : Z -> bool)
        (enc payload : P -> bytes) (drep : D -> bytes -> bytes -> Prop) :
  (forall p, enc p <> []) -> drep dnew [] [] ->
  (forall d w o (ch : bytes) p x, drep d w o -> ch <> [] -> enc p = (w ++ ch) ++ x -> x <> [] ->
     exists d' out, dd d ch = inl (d', out) /\ deof d' = false /\ drep d' (w ++ ch) (o ++ out)) ->
  (forall d w o (ch : bytes) p r, drep d w o -> w ++ ch = enc p ++ r -> length w < length (enc p) ->
     exists d' out, dd d ch = inl (d', out) /\ deof d' = true /\ dunused d' = r /\ o ++ out = payload p) ->
  (forall p, inner (payload p) = OOk p) ->
  forall (pkts : list P) (fills : list bytes) (sizehint fuel : nat),
    let B := bwrap_generic (cz_framer D dnew dd deof dunused expected inner inner_declared) cz_alloc in
    fills_fit B sizehint fuel (bcinit B) fills ->
    concat fills = concat (map enc pkts) -> length (concat fills) < fuel ->
    snd (bcfills B sizehint fuel (bcinit B) fills) = map RPkt pkts /\
    balready (fst (bcfills B sizehint fuel (bcinit B) fills)) = 0.
Proof.
  intros H1 H2 H3 H4 H5 pkts fills sizehint fuel B Hfit Heq Hf.
  pose proof (fills_fit_nonempty B sizehint fuel fills _ Hfit) as Hne.
  destruct (cz_roundtrip_l D dnew dd deof dunused expected inner inner_declared enc payload drep H1 H2 H3 H4 H5 pkts fills fuel Hne Heq Hf)
    as (c' & Hdl & Hb & Hcc).
  destruct (bwrap_simulates (cz_framer D dnew dd deof dunused expected inner inner_declared) cz_alloc sizehint fuel fills Hfit) as [Hev Hsim].
  rewrite Hdl in Hev, Hsim. cbn [fst snd] in Hev, Hsim.
  split; [exact Hev|]. eapply sim_idle_already; [exact Hsim|exact Hb].
Qed.
