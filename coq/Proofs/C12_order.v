(* SendSerial: per-sender order.  The packets of the segments owned by task t, oldest first, followed by what t still
   has to send, are exactly t's program: every packet of a sender gets hold of the transport at most once and in
   program order; a task that returned normally has put all its packets on the wire (with wire_is_concat_of_packets). *)
From Coq Require Import List Arith Bool ZArith Lia.
From EN Require Import Lib.Bytes Conc.FairLock Conc.AsyncioLock Conc.Guard Conc.SendSerial Proofs.C12_wire.
Import ListNotations.

(* packets of the segments owned by t, newest first *)
Definition owned (t : tid) (sgs : list seg) : list packet :=
  map sg_pkt (filter (fun g => Nat.eqb (sg_owner g) t) sgs).

Definition rem_ok (ts : tstate) (rem : list packet) : Prop :=
  match ts with
  | TNew p => rem = p
  | TRun => True
  | TWait c r => rem = c :: r
  | TSend _ r => rem = r
  | TDone c => c = c_ok -> rem = []
  end.

Definition Q (progs : list (list packet)) (s : st) : Prop :=
  forall t ts, tk s t = Some ts -> exists rem, rev (owned t (s_segs s)) ++ rem = nth t progs [] /\ rem_ok ts rem.

Lemma owned_wrote : forall t sgs, owned t (seg_wrote sgs) = owned t sgs.
Proof. intros t [|g r]; simpl; auto. unfold owned. simpl. destruct (Nat.eqb (sg_owner g) t); reflexivity. Qed.

Lemma owned_close : forall t c sgs, owned t (seg_close c sgs) = owned t sgs.
Proof. intros t c [|g r]; simpl; auto. unfold owned. simpl. destruct (Nat.eqb (sg_owner g) t); reflexivity. Qed.

Lemma owned_open_same : forall t p sgs, owned t (mkSeg t p 0 SgActive :: sgs) = p :: owned t sgs.
Proof. intros. unfold owned. simpl. rewrite Nat.eqb_refl. reflexivity. Qed.

Lemma owned_open_other : forall t u p sgs, u <> t -> owned u (mkSeg t p 0 SgActive :: sgs) = owned u sgs.
Proof. intros t u p sgs N. unfold owned. simpl. destruct (Nat.eqb t u) eqn:E; auto. apply Nat.eqb_eq in E. congruence. Qed.

Lemma Q_ext : forall progs s s', s_tasks s' = s_tasks s -> s_segs s' = s_segs s -> Q progs s -> Q progs s'.
Proof. intros progs s s' E1 E2 H t ts Ht. unfold tk in *. rewrite E1 in Ht. rewrite E2. auto. Qed.

Lemma segs_unlock : forall t s, s_segs (unlock t s) = s_segs s /\ s_tasks (unlock t s) = s_tasks s.
Proof. intros. destruct (unlock_proj t s) as [_ [A [_ B]]]. auto. Qed.

Lemma segs_gexit : forall s, s_segs (gexit s) = s_segs s /\ s_tasks (gexit s) = s_tasks s.
Proof. intros. unfold gexit. destruct (guard_exit (s_guard s)); simpl; auto. Qed.

(* replacing the entry of t *)
Lemma Q_set : forall progs s t y, Q progs s ->
  (exists rem, rev (owned t (s_segs s)) ++ rem = nth t progs [] /\ rem_ok y rem) -> Q progs (set_task t y s).
Proof.
  intros progs s t y H Hy u ts Hu. unfold tk in Hu. simpl in Hu. apply upd_cases in Hu.
  destruct Hu as [[Eu Ey]|[_ E]]; simpl; [subst; auto|apply H; auto].
Qed.

(* the ghost operations on the newest segment do not change who owns what *)
Lemma Q_segs : forall progs s s', s_tasks s' = s_tasks s -> (forall t, owned t (s_segs s') = owned t (s_segs s)) ->
  Q progs s -> Q progs s'.
Proof. intros progs s s' E1 E2 H t ts Ht. unfold tk in *. rewrite E1 in Ht. rewrite E2. auto. Qed.

Lemma owned_end : forall t u c s, owned u (s_segs (unlock t (gexit (close_seg c s)))) = owned u (s_segs s).
Proof.
  intros. destruct (segs_unlock t (gexit (close_seg c s))) as [A _]. rewrite A.
  destruct (segs_gexit (close_seg c s)) as [B _]. rewrite B. simpl. apply owned_close.
Qed.

Lemma tasks_end : forall t c s, s_tasks (unlock t (gexit (close_seg c s))) = s_tasks s.
Proof.
  intros. destruct (segs_unlock t (gexit (close_seg c s))) as [_ A]. rewrite A.
  destruct (segs_gexit (close_seg c s)) as [_ B]. rewrite B. reflexivity.
Qed.

(* a state whose segments are those of s plus a fresh one of t for p (possibly already written / closed) *)
Lemma Q_opened : forall progs t p rest s s', Q progs s -> tk s t = Some TRun ->
  rev (owned t (s_segs s)) ++ p :: rest = nth t progs [] ->
  s_tasks s' = s_tasks s -> (forall u, owned u (s_segs s') = owned u (mkSeg t p 0 SgActive :: s_segs s)) ->
  Q progs s' /\ rev (owned t (s_segs s')) ++ rest = nth t progs [].
Proof.
  intros progs t p rest s s' HQ Ht Hp E1 E2.
  assert (X : rev (owned t (s_segs s')) ++ rest = nth t progs []).
  { rewrite E2, owned_open_same. simpl. rewrite <- app_assoc. simpl. exact Hp. }
  split; auto. intros u ts Hu. unfold tk in *. rewrite E1 in Hu. destruct (Nat.eq_dec u t).
  - subst u. rewrite Ht in Hu. inversion Hu. subst. exists rest. split; simpl; auto.
  - rewrite E2, owned_open_other by auto. apply HQ. exact Hu.
Qed.

Lemma c_busy_not_ok : c_busy = c_ok -> False. Proof. discriminate. Qed.
Lemma c_err_not_ok : c_error = c_ok -> False. Proof. discriminate. Qed.
Lemma c_canc_not_ok : c_cancelled = c_ok -> False. Proof. discriminate. Qed.

Lemma Q_send_body : forall progs t p rest k s, Q progs s -> tk s t = Some TRun ->
  rev (owned t (s_segs s)) ++ p :: rest = nth t progs [] ->
  (forall s', Q progs s' -> tk s' t = Some TRun -> rev (owned t (s_segs s')) ++ rest = nth t progs [] -> Q progs (k s')) ->
  Q progs (send_body t p rest k s).
Proof.
  intros progs t p rest k s HQ Ht Hp Hk. unfold send_body. destruct (guard_enter (s_guard s)) as [g|].
  - destruct p as [|pc more].
    + unfold finish_send.
      destruct (Q_opened progs t [] rest s (unlock t (gexit (close_seg SgComplete (open_seg t [] (with_guard g s))))) HQ Ht Hp) as [A B].
      * rewrite tasks_end. reflexivity.
      * intros u. rewrite owned_end. reflexivity.
      * apply Hk; auto. unfold tk. rewrite tasks_end. exact Ht.
    + destruct (Q_opened progs t (pc :: more) rest s (write_piece pc (open_seg t (pc :: more) (with_guard g s))) HQ Ht Hp) as [A B].
      * reflexivity.
      * intros u. simpl. unfold owned. simpl. destruct (Nat.eqb t u); reflexivity.
      * apply Q_set; auto. exists rest. split; simpl; auto.
  - apply Q_set.
    + eapply Q_ext; [| |exact HQ]; apply segs_unlock.
    + exists (p :: rest). destruct (segs_unlock t s) as [A _]. rewrite A. split; auto. simpl. intros C. destruct (c_busy_not_ok C).
Qed.

Lemma Q_run_task : forall progs prog t s, Q progs s -> tk s t = Some TRun ->
  rev (owned t (s_segs s)) ++ prog = nth t progs [] -> Q progs (run_task t prog s).
Proof.
  intros progs prog; induction prog as [|p rest IH]; intros t s HQ Ht Hp; simpl.
  - apply Q_set; auto. exists []. split; simpl; auto.
  - assert (C := acquire_core t s). destruct (acquire t s) as [s1 got]. simpl in C. destruct C as [_ [C1 [_ C2]]].
    assert (Q1 : Q progs s1) by (eapply Q_ext; [| |exact HQ]; auto).
    assert (T1 : tk s1 t = Some TRun) by (unfold tk in *; rewrite C1; auto).
    destruct got.
    + apply Q_send_body; auto. rewrite C2. auto.
    + apply Q_set; auto. exists (p :: rest). rewrite C2. split; simpl; auto.
Qed.

Lemma Q_init : forall ul progs, Q progs (st_init ul progs).
Proof.
  intros ul progs t ts H. unfold tk in H. simpl in H. rewrite nth_error_map in H.
  destruct (nth_error progs t) as [p|] eqn:E; [|discriminate]. inversion H; subst. simpl.
  exists p. split; simpl; auto. symmetry. apply nth_error_nth. exact E.
Qed.

Lemma Q_step : forall progs s l s', Q progs s -> s_next s l = Some s' -> Q progs s'.
Proof.
  intros progs s l s' HQ H. destruct l as [t|t|t|t|t|t]; simpl in H; unfold get_task in H;
    destruct (nth_error (s_tasks s) t) as [x|] eqn:E; try discriminate;
    destruct (HQ t x E) as [rem [R1 R2]].
  - destruct x; try discriminate. inversion H; subst. simpl in R2. subst rem. apply Q_run_task; auto.
    + apply Q_set; auto. exists prog. split; simpl; auto.
    + unfold tk. simpl. eapply upd_eq; eauto.
  - destruct x as [| |p rest| |]; try discriminate. destruct (lk_resume t (set_task t TRun s)) as [s1|] eqn:RS; [|discriminate].
    inversion H; subst. simpl in R2. subst rem. destruct (lk_resume_core _ _ _ RS) as [_ [C1 [_ C2]]].
    apply Q_send_body; auto.
    + eapply Q_ext with (s := set_task t TRun s); auto. apply Q_set; auto. exists (p :: rest). split; simpl; auto.
    + unfold tk. rewrite C1. simpl. eapply upd_eq; eauto.
    + rewrite C2. simpl. exact R1.
    + intros. apply Q_run_task; auto.
  - destruct x as [| | |todo rest|]; try discriminate. simpl in R2. subst rem.
    destruct todo as [|pc more]; inversion H; subst.
    + apply Q_run_task.
      * unfold finish_send. eapply Q_segs with (s := set_task t TRun s).
        -- rewrite tasks_end. reflexivity.
        -- intros u. rewrite owned_end. reflexivity.
        -- apply Q_set; auto. exists rest. split; simpl; auto.
      * unfold finish_send, tk. rewrite tasks_end. simpl. eapply upd_eq; eauto.
      * unfold finish_send. rewrite owned_end. simpl. exact R1.
    + apply Q_set.
      * eapply Q_segs with (s := s); [reflexivity| |exact HQ]. intros u. simpl. apply owned_wrote.
      * exists rest. simpl. rewrite owned_wrote. split; auto.
  - destruct x as [| | |todo rest|]; try discriminate. inversion H; subst. unfold abort_send. apply Q_set.
    + eapply Q_segs with (s := s); [apply tasks_end| |exact HQ]. intros u. apply owned_end.
    + exists rem. rewrite owned_end. split; auto. simpl. intros C. destruct (c_err_not_ok C).
  - destruct x as [prog| |p rest|todo rest|]; try discriminate.
    + inversion H; subst. apply Q_set; auto. exists rem. split; auto. simpl. intros C. destruct (c_canc_not_ok C).
    + destruct (lk_cancel t s) as [s1|] eqn:RS; [|discriminate]. inversion H; subst.
      destruct (lk_cancel_core _ _ _ RS) as [_ [C1 [_ C2]]].
      apply Q_set; [eapply Q_ext; [| |exact HQ]; auto|]. exists rem. rewrite C2. split; auto. simpl. intros C. destruct (c_canc_not_ok C).
    + inversion H; subst. unfold abort_send. apply Q_set.
      * eapply Q_segs with (s := s); [apply tasks_end| |exact HQ]. intros u. apply owned_end.
      * exists rem. rewrite owned_end. split; auto. simpl. intros C. destruct (c_canc_not_ok C).
  - destruct x; try discriminate. destruct (lk_futcancel_core _ _ _ H) as [_ [C1 [_ C2]]]. eapply Q_ext; [| |exact HQ]; auto.
Qed.

Lemma per_sender_order_proof :
  forall ul progs ls s, s_run (st_init ul progs) ls = Some s ->
    forall t ts, nth_error (s_tasks s) t = Some ts ->
      exists rem, rev (owned t (s_segs s)) ++ rem = nth t progs [] /\ rem_ok ts rem.
Proof.
  intros ul progs ls. assert (G : forall s0 s, Q progs s0 -> s_run s0 ls = Some s -> Q progs s).
  { induction ls as [|l ls IH]; simpl; intros s0 s H0 R.
    - inversion R; subst; auto.
    - destruct (s_next s0 l) as [s1|] eqn:E; [|discriminate]. eapply IH; [|eauto]. eapply Q_step; eauto. }
  intros s R. exact (G _ _ (Q_init ul progs) R).
Qed.
