(* C02: chunk independence, both paths agree, a malformed frame costs exactly one error *)
From Coq Require Import ZArith List Bool Lia Arith.
From EN Require Import Lib.Bytes Frame.Framer Frame.ReadUntil Frame.BufReadUntil Stream.Consumer Stream.SpecDecode
  Proofs.Bytes_proofs Proofs.ReadUntil_proofs Proofs.BufReadUntil_proofs.
Import ListNotations.

Section C02.
  Context {P : Type}.
  Variable sep : bytes.
  Variable keep_end : bool.
  Variable dec : decoder P.
  Hypothesis sep_ne : sep <> [].
  Let sl := length sep.

  Lemma safe_mono L L' s : L <= L' -> safe sep L s -> safe sep L' s.
  Proof.
    intros Hle Hs. induction Hs as [s E Hl | s p E Hp _ IH].
    - apply safe_end; [exact E | lia].
    - eapply safe_frame; [exact E | lia | exact IH].
  Qed.

  (* both receive paths, any two chunkings: the same events, namely the specification's *)
  Lemma paths_agree_l limit sizehint (s : bytes) (cs1 cs2 : list bytes) fuel :
    sl + 1 <= limit -> safe sep (limit - 1 - sl) s ->
    Forall (fun ch => ch <> []) cs1 -> concat cs1 = s -> concat cs2 = s -> length s < fuel ->
    exists c1 c2,
      cdeliver (ru_framer sep limit keep_end dec) fuel (cinit _) cs1 = (c1, fst (spec_events sep keep_end dec s)) /\
      bcdeliver (bru_framer sep limit keep_end dec) sizehint fuel (bcinit _) cs2 = (c2, fst (spec_events sep keep_end dec s)).
  Proof.
    intros Hlim Hs Hne H1 H2 Hf.
    destruct (cdeliver_spec sep limit keep_end dec sep_ne cs1 (cinit _) [] fuel) as (c1 & Hd1 & _);
      [constructor | exact Hne | cbn [app]; rewrite H1; eapply safe_mono; [|exact Hs]; lia | cbn [app]; rewrite H1; exact Hf |].
    destruct (bcdeliver_spec sep limit keep_end dec sizehint sep_ne Hlim cs2 (bcinit _) [] fuel) as (c2 & Hd2 & _);
      [apply (brep_idle sep limit keep_end dec None 0); exact I | cbn [app]; rewrite H2; exact Hs
      | cbn [app]; rewrite H2; exact Hf |].
    cbn [app] in *. rewrite H1 in Hd1. rewrite H2 in Hd2. exists c1, c2. split; assumption.
  Qed.

  (* whole frames followed by anything decode independently *)
  Lemma spec_whole_app (L : nat) x y :
    snd (spec_events sep keep_end dec x) = [] ->
    spec_events sep keep_end dec (x ++ y) =
      (fst (spec_events sep keep_end dec x) ++ fst (spec_events sep keep_end dec y), snd (spec_events sep keep_end dec y)).
  Proof. intros H. rewrite (spec_events_app sep L keep_end dec sep_ne). rewrite H. reflexivity. Qed.

  (* one terminated frame whose payload does not decode: exactly one error, nothing else consumed *)
  Lemma spec_bad_frame (L : nat) (bad : bytes) :
    find0 sep (bad ++ sep) = Some (length bad) ->
    dec (if keep_end then bad ++ sep else bad) = None ->
    spec_events sep keep_end dec (bad ++ sep) = ([RErr EDecode], []).
  Proof.
    intros E Hd. rewrite (spec_events_step sep L keep_end dec sep_ne _ _ E).
    replace (skipn (length bad + length sep) (bad ++ sep)) with (@nil byte)
      by (rewrite <- app_length; symmetry; apply skipn_all).
    rewrite (spec_events_none sep keep_end dec []) by (destruct sep; [congruence | reflexivity]).
    cbn [fst snd]. unfold frame_event. destruct keep_end.
    - rewrite <- app_length, firstn_all, Hd. reflexivity.
    - rewrite firstn_app_le by lia. rewrite firstn_all, Hd. reflexivity.
  Qed.

  Lemma bad_frame_costs_one_l (L : nat) (f1 bad f2 : bytes) :
    snd (spec_events sep keep_end dec f1) = [] ->
    find0 sep (bad ++ sep) = Some (length bad) ->
    dec (if keep_end then bad ++ sep else bad) = None ->
    spec_events sep keep_end dec (f1 ++ (bad ++ sep) ++ f2) =
      (fst (spec_events sep keep_end dec f1) ++ [RErr EDecode] ++ fst (spec_events sep keep_end dec f2),
       snd (spec_events sep keep_end dec f2)).
  Proof.
    intros H1 E Hd. rewrite (spec_whole_app L _ _ H1).
    rewrite (spec_whole_app L (bad ++ sep) f2) by (rewrite (spec_bad_frame L _ E Hd); reflexivity).
    rewrite (spec_bad_frame L _ E Hd). reflexivity.
  Qed.

  (* the specification never reports a size error *)
  Lemma spec_no_limit_err s : ~ In (RErr ELimit) (fst (spec_events sep keep_end dec s)).
  Proof.
    unfold spec_events. generalize (length s) as f. intros f. revert s.
    induction f as [|f IH]; intros s; cbn [spec_fuel]; [intros []|].
    destruct (find0 sep s) as [p|]; [|intros []].
    specialize (IH (skipn (p + length sep) s)). destruct (spec_fuel sep keep_end dec f _) as [evs r].
    cbn [fst] in *. intros [H|H]; [|exact (IH H)].
    unfold frame_event in H. destruct (dec _); discriminate.
  Qed.

  (* a frame u (of any size) followed by its terminator and then a safe stream: whatever the chunking, the copying
     consumer emits some junk events for u and then exactly the events of [rest] *)
  Lemma resync_copying_l limit (u rest : bytes) (chunks : list bytes) fuel :
    find0 sep (u ++ sep) = Some (length u) -> safe sep limit rest ->
    Forall (fun ch => ch <> []) chunks -> concat chunks = u ++ sep ++ rest -> length (concat chunks) < fuel ->
    exists c' junk,
      cdeliver (ru_framer sep limit keep_end dec) fuel (cinit _) chunks = (c', junk ++ fst (spec_events sep keep_end dec rest)) /\
      cbuf c' = [] /\ junk <> [] /\ (limit < length u -> In (RErr ELimit) junk).
  Proof.
    intros Hu Hs Hne Hc Hf.
    assert (HJ : resync_at sep ([] ++ concat chunks) rest (length u)).
    { cbn [app]. rewrite Hc. split.
      - rewrite app_assoc. apply find0_app_l. exact Hu.
      - rewrite app_assoc. rewrite skipn_app_le by (rewrite app_length; lia).
        rewrite <- app_length. rewrite skipn_all. reflexivity. }
    destruct (resync_spec sep limit keep_end dec sep_ne chunks (cinit _) [] fuel rest (length u)
                (crep_idle _ _ _ _) Hne HJ Hs Hf) as (c' & junk & Hd & Hc' & Hj1 & Hj2).
    exists c', junk. split; [exact Hd|]. split; [inversion Hc'; reflexivity|]. split; assumption.
  Qed.

  Lemma resync_buffered_l limit sizehint (u rest : bytes) (fills : list bytes) fuel :
    sl + 1 <= limit ->
    find0 sep (u ++ sep) = Some (length u) -> safe sep (limit - 1 - sl) rest ->
    concat fills = u ++ sep ++ rest -> length (concat fills) < fuel ->
    fills_fit (bru_framer sep limit keep_end dec) sizehint fuel (bcinit _) fills ->
    exists c' junk,
      bcfills (bru_framer sep limit keep_end dec) sizehint fuel (bcinit _) fills =
        (c', junk ++ fst (spec_events sep keep_end dec rest)) /\
      junk <> [] /\ (limit < length u + sl -> In (RErr ELimit) junk).
  Proof.
    intros Hlim Hu Hs Hc Hf Hfit.
    assert (Hidle : brep sep limit keep_end dec (bcinit (bru_framer sep limit keep_end dec)) [])
      by (apply (brep_idle sep limit keep_end dec None 0); exact I).
    assert (HJ : resync_at sep ([] ++ concat fills) rest (length u)).
    { cbn [app]. rewrite Hc. split.
      - rewrite app_assoc. apply find0_app_l. exact Hu.
      - rewrite app_assoc. rewrite skipn_app_le by (rewrite app_length; lia).
        rewrite <- app_length. rewrite skipn_all. reflexivity. }
    pose proof (fills_fit_run sep limit keep_end dec sizehint sep_ne Hlim fuel fills _ [] Hidle Hf Hfit) as Hfr.
    destruct (resync_rounds sep limit keep_end dec sizehint sep_ne Hlim fuel fills _ [] rest (length u) Hidle Hfr HJ Hs Hf)
      as (c' & junk & Hd & _ & Hj1 & Hj2).
    exists c', junk. split; [exact Hd|]. split; assumption.
  Qed.
End C02.
