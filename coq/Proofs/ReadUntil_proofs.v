(* read_until (copying path): the resumed search is equivalent to searching from 0; consumer + framer = spec *)
From Coq Require Import ZArith List Bool Lia Arith.
From EN Require Import Lib.Bytes Frame.Framer Frame.ReadUntil Stream.Consumer Stream.SpecDecode Proofs.Bytes_proofs.
Import ListNotations.

Section RU.
  Context {P : Type}.
  Variable sep : bytes.
  Variable limit : nat.
  Variable keep_end : bool.
  Variable dec : decoder P.
  Hypothesis sep_ne : sep <> [].

  Let sl := length sep.
  Let F := ru_framer sep limit keep_end dec.

  Lemma sl_pos : 1 <= sl.
  Proof. unfold sl. destruct sep; [congruence | simpl; lia]. Qed.

  (* invariant of the suspended generator: nothing occurs before offset, and offset stays searchable *)
  Definition ru_inv (buf : bytes) (off : nat) : Prop :=
    off <= limit /\ (off = 0 \/ off + sl <= length buf + 1) /\ forall j, j < off -> occ sep buf j = false.

  Lemma ru_inv_0 buf : ru_inv buf 0.
  Proof. repeat split; [lia | left; reflexivity | intros; lia]. Qed.

  Lemma ru_inv_app buf off ch : ru_inv buf off -> ru_inv (buf ++ ch) off.
  Proof.
    intros (H0 & H1 & H2). repeat split; [exact H0 | |].
    - destruct H1 as [->|H1]; [left; reflexivity | right; rewrite app_length; lia].
    - intros j Hj. destruct H1 as [->|H1]; [lia|]. rewrite occ_app_inv by (fold sl; lia). apply H2; exact Hj.
  Qed.

  Lemma ru_inv_off_le buf off : ru_inv buf off -> off <= length buf.
  Proof. pose proof sl_pos. intros (_ & [->|H1] & _); lia. Qed.

  Lemma ru_scan_found buf off p :
    ru_inv buf off -> find0 sep buf = Some p -> ru_scan sep limit keep_end dec buf off = ru_finish sep limit keep_end dec buf p.
  Proof.
    intros Hinv Hf. pose proof (ru_inv_off_le _ _ Hinv) as Hle. destruct Hinv as (H0 & H1 & H2).
    pose proof (find0_Some _ _ _ Hf) as [Hocc Hfirst].
    pose proof (occ_bound _ _ _ sep_ne Hocc) as Hb. fold sl in Hb.
    assert (Hp : off <= p).
    { destruct (le_lt_dec off p); [assumption|]. rewrite H2 in Hocc by assumption. discriminate. }
    unfold ru_scan. fold sl. unfold seplen. fold sl.
    destruct (Nat.leb_spec sl (length buf - off)) as [_|Hc]; [|lia].
    rewrite find_eq_find0 by assumption. rewrite Hf. reflexivity.
  Qed.

  Lemma ru_scan_none buf off :
    ru_inv buf off -> find0 sep buf = None ->
    (length buf + 1 - sl <= limit ->
       exists off', ru_scan sep limit keep_end dec buf off = Need (Some (buf, off')) /\ ru_inv buf off') /\
    (limit < length buf + 1 - sl ->
       ru_scan sep limit keep_end dec buf off = Fail ELimit (overrun_remainder sep buf (length buf + 1 - sl))).
  Proof.
    intros Hinv Hf. pose proof (ru_inv_off_le _ _ Hinv) as Hle. pose proof sl_pos as Hsl.
    pose proof (find0_None _ _ Hf) as Hno.
    unfold ru_scan. unfold seplen. fold sl.
    destruct (Nat.leb_spec sl (length buf - off)) as [Hc|Hc].
    - rewrite find_eq_find0 by (try assumption; intros; apply Hno). rewrite Hf. split; intros Hl.
      + destruct (Nat.ltb_spec limit (length buf + 1 - sl)) as [|_]; [lia|].
        eexists; split; [reflexivity|]. repeat split; [lia | right; lia | intros; apply Hno].
      + destruct (Nat.ltb_spec limit (length buf + 1 - sl)) as [_|]; [reflexivity | lia].
    - split; intros Hl.
      + eexists; split; [reflexivity | exact Hinv].
      + destruct Hinv as (H0 & _). lia.
  Qed.

  (* ---------------- the specification ---------------- *)
  Notation spec_fuel := (spec_fuel sep keep_end dec).
  Notation spec_events := (spec_events sep keep_end dec).
  Notation frame_event := (frame_event sep keep_end dec).
  Notation safe := (safe sep limit).

  Lemma find0_nil : find0 sep [] = None.
  Proof. destruct sep; [congruence | reflexivity]. Qed.

  Lemma spec_fuel_enough f g s : length s <= f -> length s <= g -> spec_fuel f s = spec_fuel g s.
  Proof.
    revert g s; induction f as [|f IH]; intros g s Hf Hg.
    - destruct s; [|simpl in Hf; lia]. destruct g; cbn [SpecDecode.spec_fuel]; [reflexivity | rewrite find0_nil; reflexivity].
    - destruct g as [|g].
      + destruct s; [|simpl in Hg; lia]. cbn [SpecDecode.spec_fuel]. rewrite find0_nil. reflexivity.
      + cbn [SpecDecode.spec_fuel]. destruct (find0 sep s) as [p|] eqn:E; [|reflexivity].
        pose proof (find0_Some _ _ _ E) as [Hocc _]. pose proof (occ_bound _ _ _ sep_ne Hocc) as Hb.
        pose proof sl_pos. fold sl in Hb.
        rewrite (IH g) by (rewrite skipn_length; fold sl; lia). reflexivity.
  Qed.

  Lemma spec_events_none s : find0 sep s = None -> spec_events s = ([], s).
  Proof. unfold SpecDecode.spec_events. intros H. destruct (length s); cbn [SpecDecode.spec_fuel]; [reflexivity | rewrite H; reflexivity]. Qed.

  Lemma spec_events_step s p :
    find0 sep s = Some p ->
    spec_events s = (frame_event s p :: fst (spec_events (skipn (p + sl) s)), snd (spec_events (skipn (p + sl) s))).
  Proof.
    intros E. unfold SpecDecode.spec_events.
    pose proof (find0_Some _ _ _ E) as [Hocc _]. pose proof (occ_bound _ _ _ sep_ne Hocc) as Hb. fold sl in Hb.
    pose proof sl_pos.
    destruct (length s) as [|n] eqn:Hn; [lia|]. cbn [SpecDecode.spec_fuel]. rewrite E. fold sl.
    rewrite (spec_fuel_enough n (length (skipn (p + sl) s))) by (rewrite ?skipn_length; lia).
    destruct (spec_fuel _ _); reflexivity.
  Qed.

  Lemma frame_event_app s t p : p + sl <= length s -> frame_event (s ++ t) p = frame_event s p.
  Proof.
    intros H. unfold SpecDecode.frame_event. fold sl.
    rewrite firstn_app_le by (destruct keep_end; lia). reflexivity.
  Qed.

  (* decoding x ++ y = decoding x, then decoding (tail of x) ++ y *)
  Lemma spec_events_app x y :
    spec_events (x ++ y) =
      (fst (spec_events x) ++ fst (spec_events (snd (spec_events x) ++ y)),
       snd (spec_events (snd (spec_events x) ++ y))).
  Proof.
    remember (length x) as n eqn:Hn. revert x Hn.
    induction n as [n IH] using lt_wf_ind. intros x Hn.
    destruct (find0 sep x) as [p|] eqn:E.
    - pose proof (find0_Some _ _ _ E) as [Hocc _]. pose proof (occ_bound _ _ _ sep_ne Hocc) as Hb. fold sl in Hb.
      pose proof sl_pos.
      rewrite (spec_events_step _ _ (find0_app_l _ _ y _ E)). rewrite (spec_events_step _ _ E). simpl.
      rewrite skipn_app_le by lia. rewrite frame_event_app by lia.
      rewrite (IH (length (skipn (p + sl) x))) by (rewrite ?skipn_length; lia || reflexivity).
      reflexivity.
    - rewrite (spec_events_none _ E). simpl. destruct (spec_events (x ++ y)); reflexivity.
  Qed.

  Lemma safe_app_l x y : safe (x ++ y) -> safe x.
  Proof.
    remember (length x) as n eqn:Hn. revert x Hn.
    induction n as [n IH] using lt_wf_ind. intros x Hn Hs. pose proof sl_pos.
    destruct (find0 sep x) as [p|] eqn:E.
    - pose proof (find0_Some _ _ _ E) as [Hocc _]. pose proof (occ_bound _ _ _ sep_ne Hocc) as Hb. fold sl in Hb.
      pose proof (find0_app_l _ _ y _ E) as E'.
      inversion Hs as [s0 Hn0 _ | s0 p0 Hp0 Hle Hrest]; subst; [congruence|].
      rewrite E' in Hp0; inversion Hp0; subst p0.
      apply safe_frame with p; [exact E | exact Hle|].
      rewrite skipn_app_le in Hrest by (fold sl; lia).
      eapply IH; [| reflexivity | exact Hrest]. rewrite skipn_length. fold sl. lia.
    - apply safe_end; [exact E|]. fold sl.
      inversion Hs as [s0 Hn0 Hl | s0 p0 Hp0 Hle Hrest]; subst.
      + rewrite app_length in Hl. fold sl in Hl. lia.
      + (* the first separator of x ++ y ends beyond x *)
        pose proof (find0_Some _ _ _ Hp0) as [Hocc _].
        destruct (le_lt_dec (p0 + sl) (length x)) as [Hin|Hout]; [|lia].
        rewrite occ_app_inv in Hocc by (fold sl; lia).
        rewrite (find0_None _ _ E) in Hocc. discriminate.
  Qed.

  Lemma safe_tail s p : safe s -> find0 sep s = Some p -> p <= limit /\ safe (skipn (p + sl) s).
  Proof. intros Hs E. inversion Hs; subst; [congruence|]. replace p with p0 by congruence. split; assumption. Qed.

  Lemma safe_nosep_len s : safe s -> find0 sep s = None -> length s + 1 - sl <= limit.
  Proof. intros Hs E. inversion Hs; subst; [assumption | congruence]. Qed.

  (* ---------------- consumer states and what they hold ---------------- *)
  Definition mkc (b : bytes) (k : option (option (bytes * nat))) : cstate F := @Build_cstate P F b k.

  Inductive crep : cstate F -> bytes -> Prop :=
  | crep_idle : crep (mkc [] (None)) []
  | crep_wait buf off :
      buf <> [] -> ru_inv buf off -> find0 sep buf = None -> length buf + 1 - sl <= limit ->
      crep (mkc [] (Some (Some (buf, off)))) buf.

  Lemma crep_nosep c w : crep c w -> find0 sep w = None.
  Proof. intros [|]; [apply find0_nil | assumption]. Qed.

  Lemma ru_finish_ok b p :
    p <= limit ->
    ru_finish sep limit keep_end dec b p =
      match dec (firstn (if keep_end then p + sl else p) b) with
      | Some x => Done x (skipn (p + sl) b)
      | None => Fail EDecode (skipn (p + sl) b)
      end.
  Proof. intros H. unfold ru_finish. destruct (Nat.ltb_spec limit p); [lia | reflexivity]. Qed.

  Definition cres (r : fres (option (bytes * nat)) P) : cstate F * nres P :=
    match r with
    | Need s => (mkc [] (Some s), RStop)
    | Done p rest => (mkc rest None, RPkt p)
    | Fail e rest => (mkc rest None, RErr e)
    | Crash => (mkc [] None, RCrash)
    end.

  Lemma cnext_none_nil : cnext F (mkc [] None) None = (mkc [] None, RStop).
  Proof. reflexivity. Qed.

  Lemma cnext_none_buf r : r <> [] -> cnext F (mkc r None) None = cres (ru_scan sep limit keep_end dec r 0).
  Proof. destruct r as [|b r]; [congruence|]. intros _. reflexivity. Qed.

  Lemma cnext_chunk c w (ch : bytes) :
    crep c w -> ch <> [] ->
    exists off, ru_inv (w ++ ch) off /\ cnext F c (Some ch) = cres (ru_scan sep limit keep_end dec (w ++ ch) off).
  Proof.
    intros Hc Hch. destruct ch as [|b ch]; [congruence|].
    inversion Hc as [|buf off Hbne Hinv Hnf Hbound]; subst.
    - exists 0. split; [apply ru_inv_0 | reflexivity].
    - exists off. split; [apply ru_inv_app; exact Hinv | reflexivity].
  Qed.

  Lemma spec_tail_len x : length (snd (spec_events x)) <= length x.
  Proof.
    unfold SpecDecode.spec_events. generalize (length x) at 1 as f. intros f. revert x.
    induction f as [|f IHf]; intros x; cbn [SpecDecode.spec_fuel]; [simpl; lia|].
    destruct (find0 sep x) as [q|]; [|simpl; lia].
    specialize (IHf (skipn (q + length sep) x)). destruct (SpecDecode.spec_fuel sep keep_end dec f _). simpl in *.
    rewrite skipn_length in IHf. lia.
  Qed.

  (* the undelivered tail of x, followed by y, is safe when x ++ y is *)
  Lemma safe_tail_app x y : safe (x ++ y) -> safe (snd (spec_events x) ++ y).
  Proof.
    remember (length x) as n eqn:Hn. revert x Hn. induction n as [n IHn] using lt_wf_ind. intros x Hn Hsafe.
    pose proof sl_pos.
    destruct (find0 sep x) as [q|] eqn:Ex.
    - pose proof (find0_Some _ _ _ Ex) as [Hocc _]. pose proof (occ_bound _ _ _ sep_ne Hocc) as Hb. fold sl in Hb.
      rewrite (spec_events_step _ _ Ex). cbn [snd].
      destruct (safe_tail _ _ Hsafe (find0_app_l _ _ _ _ Ex)) as [_ Hr].
      rewrite skipn_app_le in Hr by (fold sl; lia).
      eapply IHn; [| reflexivity | exact Hr]. rewrite skipn_length. lia.
    - rewrite (spec_events_none _ Ex). exact Hsafe.
  Qed.

  (* draining a buffered remainder: next(None) until StopIteration *)
  Lemma cdrain_spec fuel r :
    length r < fuel -> safe r ->
    exists c', cdrain F fuel (mkc r None) = (c', fst (spec_events r)) /\ crep c' (snd (spec_events r)).
  Proof.
    revert r; induction fuel as [|f IH]; intros r Hf Hs; [lia|]. pose proof sl_pos.
    cbn [cdrain].
    destruct r as [|b0 r0].
    - rewrite cnext_none_nil. rewrite (spec_events_none _ find0_nil). eexists; split; [reflexivity | constructor].
    - remember (b0 :: r0) as r eqn:Hr.
      assert (Hne : r <> []) by (subst; discriminate).
      rewrite (cnext_none_buf _ Hne).
      destruct (find0 sep r) as [p|] eqn:E.
      + rewrite (ru_scan_found _ _ _ (ru_inv_0 r) E).
        destruct (safe_tail _ _ Hs E) as [Hle Hrest].
        pose proof (find0_Some _ _ _ E) as [Hocc _]. pose proof (occ_bound _ _ _ sep_ne Hocc) as Hb. fold sl in Hb.
        rewrite ru_finish_ok by assumption.
        rewrite (spec_events_step _ _ E). unfold SpecDecode.frame_event. fold sl.
        destruct (IH (skipn (p + sl) r)) as (c' & Hd & Hc); [rewrite skipn_length; lia | exact Hrest|].
        destruct (dec _); cbn [cres fst snd]; rewrite Hd; eexists; (split; [reflexivity | exact Hc]).
      + destruct (ru_scan_none _ _ (ru_inv_0 r) E) as [Hn _].
        pose proof (safe_nosep_len _ Hs E) as Hbound. fold sl in Hbound.
        destruct Hn as (off' & Hscan & Hinv'); [exact Hbound|].
        rewrite Hscan. cbn [cres]. rewrite (spec_events_none _ E). eexists; split; [reflexivity|].
        cbn [snd]. constructor; assumption.
  Qed.

  (* main theorem, copying path: any chunking of a safe stream is decoded exactly as the specification says *)
  Theorem cdeliver_spec cs : forall c w fuel,
    crep c w -> Forall (fun ch => ch <> []) cs -> safe (w ++ concat cs) -> length (w ++ concat cs) < fuel ->
    exists c', cdeliver F fuel c cs = (c', fst (spec_events (w ++ concat cs))) /\
               crep c' (snd (spec_events (w ++ concat cs))).
  Proof.
    induction cs as [|ch cs IH]; intros c w fuel Hc Hcs Hs Hf; pose proof sl_pos.
    - cbn [cdeliver concat]. rewrite app_nil_r. rewrite (spec_events_none _ (crep_nosep _ _ Hc)).
      eexists; split; [reflexivity | exact Hc].
    - inversion Hcs as [|? ? Hch Hcs']; subst. cbn [concat] in *.
      destruct (cnext_chunk _ _ _ Hc Hch) as (off & Hinv & Hnext).
      set (b := w ++ ch) in *.
      assert (Hassoc : w ++ ch ++ concat cs = b ++ concat cs) by (unfold b; rewrite app_assoc; reflexivity).
      rewrite Hassoc in *.
      cbn [cdeliver]. unfold cstep. rewrite Hnext.
      destruct (find0 sep b) as [p|] eqn:E.
      + (* a frame completes inside this chunk *)
        rewrite (ru_scan_found _ _ _ Hinv E).
        pose proof (find0_app_l _ _ (concat cs) _ E) as E'.
        destruct (safe_tail _ _ Hs E') as [Hle Hrest].
        pose proof (find0_Some _ _ _ E) as [Hocc _]. pose proof (occ_bound _ _ _ sep_ne Hocc) as Hb. fold sl in Hb.
        rewrite ru_finish_ok by assumption.
        rewrite skipn_app_le in Hrest by (fold sl; lia).
        pose proof (safe_app_l _ _ Hrest) as Hsr.
        destruct (cdrain_spec fuel (skipn (p + sl) b)) as (c2 & Hd & Hc2);
          [rewrite skipn_length; rewrite app_length in Hf; lia | exact Hsr|].
        destruct (IH c2 (snd (spec_events (skipn (p + sl) b))) fuel Hc2 Hcs') as (c3 & Hdel & Hc3).
        { apply safe_tail_app; exact Hrest. }
        { pose proof (spec_tail_len (skipn (p + sl) b)) as Hlen.
          rewrite app_length in *. rewrite skipn_length in Hlen. lia. }
        rewrite (spec_events_step _ _ E'). rewrite skipn_app_le by (fold sl; lia).
        rewrite frame_event_app by lia. rewrite spec_events_app. cbn [fst snd].
        unfold SpecDecode.frame_event. fold sl.
        destruct (dec (firstn (if keep_end then p + sl else p) b)) eqn:Ed;
          cbn [cres]; rewrite Hd, Hdel; eexists; (split; [reflexivity | exact Hc3]).
      + (* still no separator: the generator stays suspended *)
        destruct (ru_scan_none _ _ Hinv E) as [Hn _].
        assert (Hbound : length b + 1 - sl <= limit).
        { destruct (find0 sep (b ++ concat cs)) as [q|] eqn:Eq.
          - destruct (safe_tail _ _ Hs Eq) as [Hle _].
            pose proof (find0_Some _ _ _ Eq) as [Hocc _].
            destruct (le_lt_dec (q + sl) (length b)) as [Hin|Hout]; [|lia].
            rewrite occ_app_inv in Hocc by (fold sl; lia). rewrite (find0_None _ _ E) in Hocc. discriminate.
          - pose proof (safe_nosep_len _ Hs Eq) as Hl. rewrite app_length in Hl. fold sl in Hl. lia. }
        destruct Hn as (off' & Hscan & Hinv'); [exact Hbound|].
        rewrite Hscan. cbn [cres].
        assert (Hbne : b <> []) by (unfold b; destruct w; [simpl; exact Hch | discriminate]).
        destruct (IH (mkc [] (Some (Some ((b : bytes), off')))) b fuel) as (c3 & Hdel & Hc3);
          [constructor; assumption | exact Hcs' | exact Hs | exact Hf|].
        rewrite Hdel. eexists; split; [reflexivity | exact Hc3].
  Qed.

  (* ---------------- arbitrary input: no safety hypothesis ---------------- *)
  Lemma ru_scan_progress buf off :
    ru_inv buf off -> buf <> [] ->
    match ru_scan sep limit keep_end dec buf off with
    | Need s => exists off', s = Some (buf, off') /\ ru_inv buf off' /\ find0 sep buf = None /\ length buf + 1 - sl <= limit
    | Done _ rest => length rest < length buf
    | Fail _ rest => length rest < length buf
    | Crash => False
    end.
  Proof.
    intros Hinv Hne. pose proof sl_pos.
    assert (Hlen : 0 < length buf) by (destruct buf; [congruence | simpl; lia]).
    destruct (find0 sep buf) as [p|] eqn:E.
    - rewrite (ru_scan_found _ _ _ Hinv E).
      pose proof (find0_Some _ _ _ E) as [Hocc _]. pose proof (occ_bound _ _ _ sep_ne Hocc) as Hb. fold sl in Hb.
      unfold ru_finish. unfold seplen. fold sl.
      destruct (Nat.ltb_spec limit p).
      + rewrite (overrun_remainder_occ _ _ _ sep_ne Hocc). rewrite skipn_length. fold sl. lia.
      + destruct (dec _); rewrite skipn_length; lia.
    - destruct (ru_scan_none _ _ Hinv E) as [Hn Hf].
      destruct (le_lt_dec (length buf + 1 - sl) limit) as [Hle|Hgt].
      + destruct (Hn Hle) as (off' & -> & Hinv'). exists off'. split; [reflexivity|]. split; [exact Hinv'|]. split; [reflexivity | exact Hle].
      + rewrite (Hf Hgt). pose proof (overrun_remainder_len sep buf (length buf + 1 - sl)). lia.
  Qed.

  Lemma cdrain_rep fuel : forall r,
    length r < fuel ->
    exists c' w' evs, cdrain F fuel (mkc r None) = (c', evs) /\ crep c' w' /\ length w' <= length r.
  Proof.
    induction fuel as [|f IH]; intros r Hf; [lia|].
    cbn [cdrain]. destruct r as [|b0 r0].
    - rewrite cnext_none_nil. exists (mkc [] None), [], []. repeat split; [constructor | simpl; lia].
    - remember (b0 :: r0) as r eqn:Hr. assert (Hne : r <> []) by (subst; discriminate).
      rewrite (cnext_none_buf _ Hne).
      pose proof (ru_scan_progress r 0 (ru_inv_0 r) Hne) as Hp.
      destruct (ru_scan sep limit keep_end dec r 0) as [s|x rest|e rest|]; cbn [cres].
      + destruct Hp as (off' & -> & Hinv' & Hnf & Hb).
        exists (mkc [] (Some (Some (r, off')))), r, []. repeat split; [constructor; assumption | lia].
      + destruct (IH rest) as (c' & w' & evs & Hd & Hc & Hl); [lia|].
        rewrite Hd. exists c', w', (RPkt x :: evs). repeat split; [assumption | lia].
      + destruct (IH rest) as (c' & w' & evs & Hd & Hc & Hl); [lia|].
        rewrite Hd. exists c', w', (RErr e :: evs). repeat split; [assumption | lia].
      + contradiction.
  Qed.

  (* whatever bytes arrive, in whatever chunks, the consumer ends each receive round in a state that holds
     a separator-free tail within the bound *)
  Theorem cdeliver_rep cs : forall c w fuel,
    crep c w -> Forall (fun ch => ch <> []) cs -> length (w ++ concat cs) < fuel ->
    exists c' w' evs, cdeliver F fuel c cs = (c', evs) /\ crep c' w' /\ length w' <= length (w ++ concat cs).
  Proof.
    induction cs as [|ch cs IH]; intros c w fuel Hc Hcs Hf.
    - cbn [cdeliver concat]. exists c, w, []. repeat split; [assumption | rewrite app_nil_r; lia].
    - inversion Hcs as [|? ? Hch Hcs']; subst. cbn [concat] in *.
      destruct (cnext_chunk _ _ _ Hc Hch) as (off & Hinv & Hnext).
      assert (Hbne : w ++ ch <> []) by (destruct w; [simpl; exact Hch | discriminate]).
      pose proof (ru_scan_progress _ _ Hinv Hbne) as Hp.
      cbn [cdeliver]. unfold cstep. rewrite Hnext.
      rewrite app_assoc in Hf. rewrite !app_length in Hf.
      destruct (ru_scan sep limit keep_end dec (w ++ ch) off) as [s|x rest|e rest|]; cbn [cres].
      + destruct Hp as (off' & -> & Hinv' & Hnf & Hb).
        destruct (IH (mkc [] (Some (Some ((w ++ ch : bytes), off')))) (w ++ ch) fuel) as (c' & w' & evs & Hd & Hc' & Hl);
          [constructor; assumption | assumption | rewrite !app_length; lia |].
        rewrite Hd. exists c', w', ([] ++ evs). repeat split; [assumption|]. rewrite app_assoc. exact Hl.
      + rewrite app_length in Hp. destruct (cdrain_rep fuel rest) as (c1 & w1 & evs1 & Hd1 & Hc1 & Hl1); [lia|]. rewrite Hd1.
        destruct (IH c1 w1 fuel Hc1 Hcs') as (c' & w' & evs & Hd & Hc' & Hl); [rewrite app_length; lia|].
        rewrite Hd. exists c', w', ((RPkt x :: evs1) ++ evs). repeat split; [assumption|].
        rewrite !app_length in *. lia.
      + rewrite app_length in Hp. destruct (cdrain_rep fuel rest) as (c1 & w1 & evs1 & Hd1 & Hc1 & Hl1); [lia|]. rewrite Hd1.
        destruct (IH c1 w1 fuel Hc1 Hcs') as (c' & w' & evs & Hd & Hc' & Hl); [rewrite app_length; lia|].
        rewrite Hd. exists c', w', ((RErr e :: evs1) ++ evs). repeat split; [assumption|].
        rewrite !app_length in *. lia.
      + contradiction.
  Qed.

  Lemma crep_bound c w : crep c w -> length w + 1 <= limit + sl /\ find0 sep w = None.
  Proof.
    pose proof sl_pos. intros Hc. split; [|eapply crep_nosep; exact Hc].
    inversion Hc; subst; simpl; lia.
  Qed.

  Lemma find0_none_app_l x y : find0 sep (x ++ y) = None -> find0 sep x = None.
  Proof.
    intros H. destruct (find0 sep x) eqn:E; [|reflexivity]. rewrite (find0_app_l _ _ y _ E) in H. discriminate.
  Qed.

  (* unterminated data beyond the bound always raises the limit error, whatever the chunking *)
  Theorem overrun_raised cs : forall c w fuel,
    crep c w -> Forall (fun ch => ch <> []) cs -> find0 sep (w ++ concat cs) = None ->
    limit + sl < length (w ++ concat cs) + 1 ->
    exists c' evs, cdeliver F fuel c cs = (c', RErr ELimit :: evs).
  Proof.
    induction cs as [|ch cs IH]; intros c w fuel Hc Hcs Hnf Hlen.
    - cbn [concat] in Hlen. rewrite app_nil_r in Hlen. pose proof (crep_bound _ _ Hc) as [Hb _]. lia.
    - inversion Hcs as [|? ? Hch Hcs']; subst. cbn [concat] in *. rewrite app_assoc in Hnf, Hlen.
      destruct (cnext_chunk _ _ _ Hc Hch) as (off & Hinv & Hnext).
      pose proof (find0_none_app_l _ _ Hnf) as E.
      destruct (ru_scan_none _ _ Hinv E) as [Hn Hf].
      cbn [cdeliver]. unfold cstep. rewrite Hnext.
      destruct (le_lt_dec (length (w ++ ch) + 1 - sl) limit) as [Hle|Hgt].
      + destruct (Hn Hle) as (off' & -> & Hinv'). cbn [cres].
        assert (Hbne : w ++ ch <> []) by (destruct w; [simpl; exact Hch | discriminate]).
        destruct (IH (mkc [] (Some (Some ((w ++ ch : bytes), off')))) (w ++ ch) fuel) as (c' & evs & Hd);
          [constructor; assumption | assumption | assumption | assumption |].
        rewrite Hd. exists c', evs. reflexivity.
      + rewrite (Hf Hgt). cbn [cres].
        destruct (cdrain F fuel _) as [c1 evs1]. destruct (cdeliver F fuel c1 cs) as [c2 evs2].
        exists c2, (evs1 ++ evs2). reflexivity.
  Qed.

  (* ---------------- resynchronisation after a size error ---------------- *)
  (* J T rest : the first separator occurrence of T ends the frame being skipped, and what follows it is [rest] *)
  Definition resync_at (T rest : bytes) (q : nat) : Prop :=
    find0 sep T = Some q /\ skipn (q + sl) T = rest.

  Lemma overrun_tail (b rem' rest : bytes) q :
    find0 sep b = None -> sl <= length b -> resync_at (b ++ rem') rest q ->
    let t := overrun_remainder sep b (length b + 1 - sl) in
    length t < sl /\ find0 sep t = None /\ exists q', resync_at (t ++ rem') rest q'.
  Proof.
    intros Hnf Hlen (Hq & Hrest) t. pose proof sl_pos as Hsl.
    pose proof (find0_Some _ _ _ Hq) as [Hocc Hfirst].
    set (off := length b + 1 - sl) in *.
    set (r0 := skipn off b).
    assert (Hr0 : length r0 = sl - 1) by (unfold r0, off; rewrite skipn_length; lia).
    assert (Ht : t = strip_to_sep_prefix sep r0).
    { unfold t. rewrite (overrun_remainder_ne _ _ _ sep_ne). fold r0.
      destruct (bytes_eqb (firstn (length sep) r0) sep) eqn:Eb; [|reflexivity].
      apply bytes_eqb_eq in Eb. apply (f_equal (@length byte)) in Eb. rewrite firstn_length in Eb. fold sl in Eb. lia. }
    destruct (strip_spec sep r0) as (k & Hk & Hs & Hj). rewrite <- Ht in Hs.
    assert (Htlen : length t = sl - 1 - k) by (rewrite Hs, skipn_length; lia).
    (* the occurrence at q cannot start inside b before off + k *)
    assert (Hqb : length b < q + sl).
    { destruct (le_lt_dec (q + sl) (length b)) as [Hin|]; [|assumption].
      rewrite occ_app_inv in Hocc by (fold sl; lia). rewrite (find0_None _ _ Hnf) in Hocc. discriminate. }
    assert (Hqk : off + k <= q).
    { destruct (le_lt_dec (off + k) q) as [|Hlt]; [assumption|]. exfalso.
      (* then skipn (q - off) r0 is a separator prefix, contradicting minimality of k *)
      assert (Hj' := Hj (q - off) ltac:(unfold off in *; lia)).
      assert (Hpre : sep_pfx sep (skipn (q - off) r0) = true).
      { unfold r0. rewrite skipn_skipn. replace (off + (q - off)) with q by (unfold off in *; lia).
        replace (skipn q b) with (firstn (length b - q) (skipn q (b ++ rem'))).
        - apply sep_pfx_of_occ; [exact Hocc | lia].
        - rewrite skipn_app_le by lia. rewrite firstn_app_le by (rewrite skipn_length; lia).
          apply firstn_all2. rewrite skipn_length. lia. }
      congruence. }
    assert (Hb : b = firstn (off + k) b ++ t).
    { rewrite Hs. unfold r0. rewrite skipn_skipn. symmetry. apply firstn_skipn. }
    split; [lia|]. split.
    - apply find0_occ_none. intros j. destruct (occ sep t j) eqn:E; [|reflexivity].
      apply (occ_bound _ _ _ sep_ne) in E. fold sl in E. lia.
    - exists (q - (off + k)). unfold resync_at.
      assert (HT : b ++ rem' = firstn (off + k) b ++ (t ++ rem')) by (rewrite app_assoc, <- Hb; reflexivity).
      assert (Hfl : length (firstn (off + k) b) = off + k) by (rewrite firstn_length; unfold off in *; lia).
      split.
      + apply find0_first.
        * unfold occ in *. rewrite HT in Hocc. rewrite skipn_app in Hocc. rewrite Hfl in Hocc.
          rewrite skipn_all2 in Hocc by lia. exact Hocc.
        * intros j Hjlt. specialize (Hfirst (j + (off + k)) ltac:(lia)). unfold occ in *.
          rewrite HT in Hfirst. rewrite skipn_app in Hfirst. rewrite Hfl in Hfirst.
          rewrite skipn_all2 in Hfirst by lia. replace (j + (off + k) - (off + k)) with j in Hfirst by lia. exact Hfirst.
      + rewrite <- Hrest. rewrite HT. rewrite (skipn_app (q + sl)). rewrite Hfl.
        rewrite (skipn_all2 (n := q + sl) (firstn (off + k) b)) by lia. cbn [app]. f_equal. lia.
  Qed.

  (* a size-rejected (or simply skipped) frame costs some junk events; delivery then resumes intact with [rest] *)
  Theorem resync_spec cs : forall c w fuel (rest : bytes) q,
    crep c w -> Forall (fun ch => ch <> []) cs -> resync_at (w ++ concat cs) rest q -> safe rest ->
    length (w ++ concat cs) < fuel ->
    exists c' junk, cdeliver F fuel c cs = (c', junk ++ fst (spec_events rest)) /\ crep c' (snd (spec_events rest)) /\
                    junk <> [] /\ (limit < q -> In (RErr ELimit) junk).
  Proof.
    induction cs as [|ch cs IH]; intros c w fuel rest q Hc Hcs HJ Hs Hf; pose proof sl_pos as Hsl.
    - cbn [concat] in HJ. rewrite app_nil_r in HJ. destruct HJ as [Hq _]. rewrite (crep_nosep _ _ Hc) in Hq. discriminate.
    - inversion Hcs as [|? ? Hch Hcs']; subst. cbn [concat] in *.
      destruct (cnext_chunk _ _ _ Hc Hch) as (off & Hinv & Hnext).
      set (b := w ++ ch) in *.
      assert (Hassoc : w ++ ch ++ concat cs = b ++ concat cs) by (unfold b; rewrite app_assoc; reflexivity).
      rewrite Hassoc in *.
      assert (Hbne : b <> []) by (unfold b; destruct w; [simpl; exact Hch | discriminate]).
      cbn [cdeliver]. unfold cstep. rewrite Hnext.
      destruct HJ as [Hq Hrest].
      destruct (find0 sep b) as [p|] eqn:E.
      + (* the terminator is inside the buffer: the skipped frame ends here *)
        pose proof (find0_app_l _ _ (concat cs) _ E) as E'. assert (p = q) by congruence. subst p.
        rewrite (ru_scan_found _ _ _ Hinv E).
        pose proof (find0_Some _ _ _ E) as [Hocc _]. pose proof (occ_bound _ _ _ sep_ne Hocc) as Hb. fold sl in Hb.
        rewrite skipn_app_le in Hrest by lia.
        assert (Hsr : safe (skipn (q + sl) b)) by (apply (safe_app_l _ (concat cs)); rewrite Hrest; exact Hs).
        destruct (cdrain_spec fuel (skipn (q + sl) b)) as (c2 & Hd & Hc2);
          [rewrite skipn_length; rewrite app_length in Hf; lia | exact Hsr|].
        destruct (cdeliver_spec cs c2 (snd (spec_events (skipn (q + sl) b))) fuel Hc2 Hcs') as (c3 & Hdel & Hc3).
        { apply safe_tail_app. rewrite Hrest. exact Hs. }
        { pose proof (spec_tail_len (skipn (q + sl) b)) as Hlen.
          rewrite app_length in *. rewrite skipn_length in Hlen. lia. }
        assert (Hev : fst (spec_events (skipn (q + sl) b)) ++
                      fst (spec_events (snd (spec_events (skipn (q + sl) b)) ++ concat cs)) = fst (spec_events rest) /\
                      snd (spec_events (snd (spec_events (skipn (q + sl) b)) ++ concat cs)) = snd (spec_events rest)).
        { rewrite <- Hrest. rewrite (spec_events_app (skipn (q + sl) b) (concat cs)). split; reflexivity. }
        destruct Hev as [Hev1 Hev2]. rewrite Hev2 in Hc3.
        unfold ru_finish. unfold seplen. fold sl.
        destruct (Nat.ltb_spec limit q) as [Hover|Hin].
        * rewrite (overrun_remainder_occ _ _ _ sep_ne Hocc). fold sl. cbn [cres]. rewrite Hd, Hdel.
          exists c3, [RErr ELimit]. cbn [app]. rewrite <- Hev1.
          split; [reflexivity|]. split; [exact Hc3|]. split; [discriminate | intros _; left; reflexivity].
        * destruct (dec _) as [x|]; cbn [cres]; rewrite Hd, Hdel.
          -- exists c3, [RPkt x]. cbn [app]. rewrite <- Hev1. split; [reflexivity|]. split; [exact Hc3|].
             split; [discriminate | intros; lia].
          -- exists c3, [RErr EDecode]. cbn [app]. rewrite <- Hev1. split; [reflexivity|]. split; [exact Hc3|].
             split; [discriminate | intros; lia].
      + destruct (ru_scan_none _ _ Hinv E) as [Hn Hov].
        destruct (le_lt_dec (length b + 1 - sl) limit) as [Hle|Hgt].
        * (* still accumulating *)
          destruct (Hn Hle) as (off' & -> & Hinv'). cbn [cres].
          destruct (IH (mkc [] (Some (Some ((b : bytes), off')))) b fuel rest q) as (c' & junk & Hd & Hc' & Hj1 & Hj2);
            [constructor; assumption | exact Hcs' | split; assumption | exact Hs | exact Hf |].
          rewrite Hd. exists c', junk. cbn [app]. repeat split; assumption.
        * (* size error with no separator in sight: keep the longest separator-prefix suffix and go on *)
          rewrite (Hov Hgt). cbn [cres].
          destruct (overrun_tail b (concat cs) rest q E ltac:(lia) (conj Hq Hrest)) as (Htl & Htn & q' & HJ').
          set (t := overrun_remainder sep b (length b + 1 - sl)) in *.
          assert (Hdrain : exists c1, cdrain F fuel (mkc t None) = (c1, []) /\ crep c1 t).
          { destruct fuel as [|f]; [lia|]. cbn [cdrain]. destruct t as [|x t'] eqn:Et.
            - rewrite cnext_none_nil. eexists; split; [reflexivity | constructor].
            - rewrite <- Et in *. rewrite cnext_none_buf by (rewrite Et; discriminate).
              destruct (ru_scan_none _ _ (ru_inv_0 t) Htn) as [Hn' _].
              destruct Hn' as (o' & -> & Hi'); [lia|]. cbn [cres]. eexists; split; [reflexivity|].
              constructor; try assumption; [rewrite Et; discriminate | lia]. }
          destruct Hdrain as (c1 & Hd1 & Hc1). rewrite Hd1.
          assert (Htb : length t <= length b) by lia.
          destruct (IH c1 t fuel rest q' Hc1 Hcs' HJ' Hs) as (c' & junk & Hd & Hc' & _ & _);
            [rewrite !app_length in *; lia|].
          rewrite Hd. exists c', (RErr ELimit :: junk). cbn [app].
          split; [reflexivity|]. split; [exact Hc'|]. split; [discriminate | intros _; left; reflexivity].
  Qed.
End RU.
