(* a protocol with a converter delivers the converted events of the protocol without it (copying consumer) *)
From Coq Require Import List Arith Lia.
From EN Require Import Lib.Bytes Frame.Framer Frame.Convert Stream.Consumer.
Import ListNotations.

Section ConvProofs.
  Context {Q P : Type}.
  Variable conv : Q -> option P.
  Variable F : framer Q.
  Let G := conv_framer conv F.

  Definition conv_ev (r : nres Q) : nres P :=
    match r with
    | RPkt q => match conv q with Some p => RPkt p | None => RErr EConvert end
    | RErr e => RErr e
    | RStop => RStop
    | RCrash => RCrash
    end.

  Definition conv_st (c : cstate F) : cstate G := @Build_cstate P G (cbuf c) (ccons c).

  Lemma cnext_conv c chunk :
    cnext G (conv_st c) chunk = (conv_st (fst (cnext F c chunk)), conv_ev (snd (cnext F c chunk))).
  Proof.
    destruct c as [buf cons]. unfold cnext, conv_st. cbn [cbuf ccons].
    assert (Hfeed : forall data,
      cfeed G (@Build_cstate P G buf cons) data =
      (conv_st (fst (cfeed F (@Build_cstate Q F buf cons) data)), conv_ev (snd (cfeed F (@Build_cstate Q F buf cons) data)))).
    { intros data. unfold cfeed, conv_st. cbn [ccons cbuf].
      destruct cons as [s0|]; cbn [ffeed G conv_framer finit].
      - destruct (ffeed F s0 data) as [s|q rest|e rest|]; cbn [conv_res fst snd conv_ev cbuf ccons];
          [reflexivity | destruct (conv q); reflexivity | reflexivity | reflexivity].
      - destruct (ffeed F (finit F) data) as [s|q rest|e rest|]; cbn [conv_res fst snd conv_ev cbuf ccons];
          [reflexivity | destruct (conv q); reflexivity | reflexivity | reflexivity]. }
    destruct chunk as [[|b ch]|]; cbn [cbuf].
    - destruct buf; [reflexivity | apply Hfeed].
    - apply Hfeed.
    - destruct buf; [reflexivity | apply Hfeed].
  Qed.

  Lemma conv_ev_stop r : conv_ev r = RStop <-> r = RStop.
  Proof. destruct r as [q| | |]; cbn; try (split; congruence). destruct (conv q); split; congruence. Qed.

  Lemma cdrain_conv fuel : forall c,
    cdrain G fuel (conv_st c) = (conv_st (fst (cdrain F fuel c)), map conv_ev (snd (cdrain F fuel c))).
  Proof.
    induction fuel as [|f IH]; intros c; [reflexivity|].
    cbn [cdrain]. rewrite cnext_conv. destruct (cnext F c None) as [c' r] eqn:E. cbn [fst snd].
    destruct r as [q|e| |]; cbn [conv_ev].
    - rewrite IH. destruct (cdrain F f c') as [c'' rs]. cbn [fst snd map conv_ev].
      destruct (conv q); reflexivity.
    - rewrite IH. destruct (cdrain F f c') as [c'' rs]. reflexivity.
    - reflexivity.
    - rewrite IH. destruct (cdrain F f c') as [c'' rs]. reflexivity.
  Qed.

  Theorem cdeliver_conv fuel chunks : forall c,
    cdeliver G fuel (conv_st c) chunks =
      (conv_st (fst (cdeliver F fuel c chunks)), map conv_ev (snd (cdeliver F fuel c chunks))).
  Proof.
    induction chunks as [|ch chs IH]; intros c; [reflexivity|].
    cbn [cdeliver]. unfold cstep. rewrite cnext_conv. destruct (cnext F c (Some ch)) as [c1 r] eqn:E. cbn [fst snd].
    assert (Hrest : forall (c2 : cstate F) (pre : list (nres Q)),
      (let '(c'', rs') := cdeliver G fuel (conv_st c2) chs in (c'', map conv_ev pre ++ rs')) =
      (conv_st (fst (let '(c'', rs') := cdeliver F fuel c2 chs in (c'', pre ++ rs'))),
       map conv_ev (snd (let '(c'', rs') := cdeliver F fuel c2 chs in (c'', pre ++ rs'))))).
    { intros c2 pre. rewrite IH. destruct (cdeliver F fuel c2 chs) as [c3 rs3]. cbn [fst snd]. rewrite map_app. reflexivity. }
    destruct r as [q|e| |]; cbn [conv_ev].
    - rewrite cdrain_conv. destruct (cdrain F fuel c1) as [c2 rs]. cbn [fst snd].
      specialize (Hrest c2 (RPkt q :: rs)). cbn [map conv_ev] in Hrest.
      destruct (conv q); exact Hrest.
    - rewrite cdrain_conv. destruct (cdrain F fuel c1) as [c2 rs]. cbn [fst snd].
      exact (Hrest c2 (RErr e :: rs)).
    - exact (Hrest c1 []).
    - rewrite cdrain_conv. destruct (cdrain F fuel c1) as [c2 rs]. cbn [fst snd].
      exact (Hrest c2 (RCrash :: rs)).
  Qed.
End ConvProofs.
