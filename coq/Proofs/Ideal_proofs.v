(* C08/C09 — facts about the ideal record layer (Conc/IdealTls.v) that do not involve the transports. *)
From Coq Require Import ZArith List Bool Lia ZifyBool.
From EN Require Import Lib.Bytes Conc.TlsBase Conc.IdealTls.

Section IdealBasics.
Variable E D : byte -> byte.
Hypothesis DE : forall x, D (E x) = x.

Lemma map_DE : forall p, map D (map E p) = p.
Proof. induction p; cbn; [reflexivity | rewrite DE, IHp; reflexivity]. Qed.

Lemma parse1_prefix : forall t p rest k,
  parse1 D (firstn k (enc E t p ++ rest)) =
    if Nat.leb (2 + length p) k then Some (t, p, firstn (k - (2 + length p)) rest) else None.
Proof.
  intros t p rest k. unfold enc. cbn [app].
  destruct k as [| [| k]]; [reflexivity | reflexivity |].
  cbn [firstn parse1]. rewrite Nat2N.id.
  rewrite firstn_length, app_length, (map_length E p).
  destruct (Nat.leb (length p) (Nat.min k (length p + length rest))) eqn:L1;
    destruct (Nat.leb (2 + length p) (S (S k))) eqn:L2; try lia.
  - f_equal. f_equal; [f_equal |].
    + rewrite firstn_firstn. replace (Nat.min (length p) k) with (length p) by lia.
      rewrite <- (map_length E p) at 1. rewrite firstn_app, Nat.sub_diag, firstn_all. cbn. rewrite app_nil_r. apply map_DE.
    + rewrite skipn_firstn_comm. rewrite <- (map_length E p) at 2. rewrite skipn_app, Nat.sub_diag, skipn_all. cbn.
      reflexivity.
  - reflexivity.
Qed.

Lemma enc_length : forall t p, length (enc E t p) = 2 + length p.
Proof. intros. unfold enc. cbn. rewrite map_length. reflexivity. Qed.

End IdealBasics.
