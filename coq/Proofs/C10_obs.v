(* The history fields [returned] and [delivered] of the model are functions of the observations: they are not
   free ghost state.  Also: a reported connection error is sticky and fails every later receive. *)
From Coq Require Import List Bool Arith Lia.
From EN Require Import Lib.Bytes Conc.SockReader Conc.SockReaderSpec.
Import ListNotations.

Ltac break_match :=
  repeat match goal with
         | |- context [match ?x with _ => _ end] => destruct x eqn:?; simpl in *
         end.

Definition obs_bytes (o : obs) : bytes := match o with ORes (RBytes b) => b | _ => [] end.
Definition acc_bytes (l : label) (o : obs) : bytes :=
  match l, o with LData b, OData n _ _ => firstn n b | _, _ => [] end.

Lemma step_returned : forall fixed s l,
  returned (fst (step fixed s l)) = returned s ++ obs_bytes (snd (step fixed s l)).
Proof.
  intros fixed s l. destruct s as [ib ex ed w e lo le p mc c n dl r].
  destruct l;
    unfold step, call, data, eof_received, connection_lost, cancel, wake, turn, resume, finish, park,
           wakeup_read_waiter, schedule_wakeup; simpl;
    break_match; simpl; rewrite ?app_nil_r; auto.
Qed.

Lemma firstn_length_id : forall (b : bytes), firstn (length b) b = b.
Proof. intro b. apply firstn_all. Qed.

Lemma firstn_firstn_length : forall k (b : bytes), firstn (length (firstn k b)) b = firstn k b.
Proof.
  intros k b. rewrite firstn_length. destruct (Nat.le_ge_cases k (length b)).
  - rewrite Nat.min_l by assumption. reflexivity.
  - rewrite Nat.min_r by assumption. rewrite firstn_all. symmetry. apply firstn_all2. assumption.
Qed.

Lemma step_delivered : forall fixed s l,
  delivered (fst (step fixed s l)) = delivered s ++ acc_bytes l (snd (step fixed s l)).
Proof.
  intros fixed s l. destruct s as [ib ex ed w e lo le p mc c n dl r].
  destruct l;
    unfold step, call, data, eof_received, connection_lost, cancel, wake, turn, resume, finish, park,
           wakeup_read_waiter, schedule_wakeup; simpl;
    break_match; simpl; rewrite ?app_nil_r, ?firstn_firstn_length, ?firstn_length_id; auto.
Qed.

Lemma exec_cons : forall fixed s l ls,
  exec fixed s (l :: ls) =
  (fst (exec fixed (fst (step fixed s l)) ls), snd (step fixed s l) :: snd (exec fixed (fst (step fixed s l)) ls)).
Proof.
  intros. simpl. destruct (step fixed s l) as [s1 o]. simpl. destruct (exec fixed s1 ls). reflexivity.
Qed.

Lemma exec_returned : forall fixed ls s,
  returned (fst (exec fixed s ls)) = returned s ++ received (snd (exec fixed s ls)).
Proof.
  induction ls as [|l ls IH]; intro s.
  - simpl. rewrite app_nil_r. reflexivity.
  - rewrite exec_cons. cbn [fst snd]. rewrite IH, step_returned. unfold received. simpl.
    unfold obs_bytes. rewrite <- app_assoc. reflexivity.
Qed.

Lemma exec_delivered : forall fixed ls s,
  delivered (fst (exec fixed s ls)) = delivered s ++ accepted ls (snd (exec fixed s ls)).
Proof.
  induction ls as [|l ls IH]; intro s.
  - simpl. rewrite app_nil_r. reflexivity.
  - rewrite exec_cons. cbn [fst snd]. rewrite IH, step_delivered. rewrite <- app_assoc. f_equal.
    generalize (snd (step fixed s l)). intro o0.
    destruct l; simpl; try reflexivity; destruct o0; reflexivity.
Qed.

Lemma ghosts_are_observations_proof : forall fixed ls,
  returned (run_labels fixed ls) = received (snd (exec fixed init ls)) /\
  delivered (run_labels fixed ls) = accepted ls (snd (exec fixed init ls)).
Proof.
  intros. unfold run_labels. rewrite exec_returned, exec_delivered. simpl. split; reflexivity.
Qed.

(* ---- a reported connection error *)
Lemma step_lost_exc_sticky : forall fixed s l e, lost_exc s = Some e -> lost s = true ->
  lost_exc (fst (step fixed s l)) = Some e /\ lost (fst (step fixed s l)) = true.
Proof.
  intros fixed s l e He Hl. destruct s as [ib ex ed w eo lo le p mc c n dl r]. simpl in He, Hl. subst le lo.
  destruct l;
    unfold step, call, data, eof_received, connection_lost, cancel, wake, turn, resume, finish, park,
           wakeup_read_waiter, schedule_wakeup; simpl;
    break_match; simpl; auto; try discriminate.
Qed.

Lemma exec_lost_exc_sticky : forall fixed ls s e, lost_exc s = Some e -> lost s = true ->
  lost_exc (fst (exec fixed s ls)) = Some e.
Proof.
  induction ls as [|l ls IH]; intros s e He Hl; [exact He|].
  rewrite exec_cons. cbn [fst]. destruct (step_lost_exc_sticky fixed s l e He Hl) as (A & B). apply IH; assumption.
Qed.

Lemma error_fails_receives_proof : forall s o e, lost_exc s = Some e -> call s o = (s, ORes (RError e)).
Proof. intros s o e He. unfold call. rewrite He. reflexivity. Qed.
