(* C07 for the raw-JSON and file-based framers (and, through the generic wrappers, their buffer-filling twins):
   held bound, overrun raised, safe never rejected.  Also the chunk independence of the raw-JSON scanner. *)
From Coq Require Import ZArith List Bool Lia Arith.
From EN Require Import Lib.Bytes Frame.Framer Frame.JsonRaw Frame.ErrSites Frame.Generic Stream.Consumer
  Proofs.Bytes_proofs Proofs.C06_progress.
Import ListNotations.

(* ------------------------------------------------------------------------------------------------------------
   generic: the first event of a framer over a chunk list, and how the copying consumer shows it
   ------------------------------------------------------------------------------------------------------------ *)
Section FirstEvent.
  Context {P : Type}.
  Variable F : framer P.

  (* feed the chunks one after the other until the generator stops yielding *)
  Fixpoint first_event (s : fst_ F) (chunks : list bytes) : option (fres (fst_ F) P) :=
    match chunks with
    | [] => None
    | ch :: cs => match ffeed F s ch with
                  | Need s' => first_event s' cs
                  | r => Some r
                  end
    end.

  Definition nres_of (r : fres (fst_ F) P) : nres P :=
    match r with
    | Need _ => RStop
    | Done p _ => RPkt p
    | Fail e _ => RErr e
    | Crash => RCrash
    end.

  Definition suspended (c : cstate F) (s : fst_ F) : Prop :=
    cbuf c = [] /\ (ccons c = Some s \/ (ccons c = None /\ s = finit F)).

  Lemma cnext_suspended c s (ch : bytes) : suspended c s -> ch <> [] ->
    cnext F c (Some ch) =
    match ffeed F s ch with
    | Need s' => ({| cbuf := []; ccons := Some s' |}, RStop)
    | Done p rest => ({| cbuf := rest; ccons := None |}, RPkt p)
    | Fail e rest => ({| cbuf := rest; ccons := None |}, RErr e)
    | Crash => ({| cbuf := []; ccons := None |}, RCrash)
    end.
  Proof.
    intros [Hb Hs] Hch. unfold cnext. destruct ch as [|b ch]; [congruence|].
    rewrite Hb. cbn [app]. unfold cfeed.
    destruct Hs as [Hs|[Hs ->]]; rewrite Hs; reflexivity.
  Qed.

  (* the first event of the chunk list is the first event the endpoint sees *)
  Lemma cdeliver_first_event fuel chunks : forall c s r,
    suspended c s -> Forall (fun ch => ch <> []) chunks -> first_event s chunks = Some r ->
    exists c' evs, cdeliver F fuel c chunks = (c', nres_of r :: evs) /\ nres_of r <> RStop.
  Proof.
    induction chunks as [|ch cs IH]; intros c s r Hs Hne Hf; [discriminate|].
    inversion Hne as [|? ? Hch Hcs]; subst. cbn [first_event] in Hf. cbn [cdeliver]. unfold cstep.
    rewrite (cnext_suspended c s ch Hs Hch).
    destruct (ffeed F s ch) as [s'|p rest|e rest|] eqn:E.
    - destruct (IH {| cbuf := []; ccons := Some s' |} s' r) as (c' & evs & Hd & Hn); [split; auto|assumption|assumption|].
      rewrite Hd. exists c', evs. split; [reflexivity|assumption].
    - inversion Hf; subst. cbn [nres_of].
      destruct (cdrain F fuel _) as [c1 e1]. destruct (cdeliver F fuel c1 cs) as [c2 e2].
      exists c2, (e1 ++ e2). split; [reflexivity|discriminate].
    - inversion Hf; subst. cbn [nres_of].
      destruct (cdrain F fuel _) as [c1 e1]. destruct (cdeliver F fuel c1 cs) as [c2 e2].
      exists c2, (e1 ++ e2). split; [reflexivity|discriminate].
    - inversion Hf; subst. cbn [nres_of].
      destruct (cdrain F fuel _) as [c1 e1]. destruct (cdeliver F fuel c1 cs) as [c2 e2].
      exists c2, (e1 ++ e2). split; [reflexivity|discriminate].
  Qed.

  Lemma suspended_init : suspended (cinit F) (finit F).
  Proof. split; [reflexivity|right; split; reflexivity]. Qed.
End FirstEvent.

(* ------------------------------------------------------------------------------------------------------------
   generic held bound: if every state a framer suspends in satisfies Q, then after every receive round of the copying
   consumer, for ANY chunk list, the leftover buffer is empty and the suspended generator (if any) satisfies Q
   ------------------------------------------------------------------------------------------------------------ *)
Section HeldBound.
  Context {P : Type}.
  Variable F : framer P.
  Variable held : fst_ F -> nat.
  Hypothesis HF : progressive F held.
  Variable Q : fst_ F -> Prop.
  Hypothesis HQ : forall s c s', ffeed F s c = Need s' -> Q s'.

  Definition rested (c : cstate F) : Prop :=
    cbuf c = [] /\ match ccons c with Some s => Q s | None => True end.

  Lemma cfeed_rest c (data : bytes) :
    let '(c', r) := cfeed F c data in
    match r with RStop => rested c' | _ => ccons c' = None end.
  Proof.
    unfold cfeed. destruct (ffeed F _ data) eqn:E; cbn; try reflexivity.
    split; [reflexivity|]. cbn. eapply HQ; eauto.
  Qed.

  Lemma cdrain_rested fuel : forall c, ccons c = None -> phi F held c < fuel -> rested (fst (cdrain F fuel c)).
  Proof.
    induction fuel as [|f IH]; intros c Hn Hf; [lia|]. cbn [cdrain].
    destruct (cnext F c None) as [c1 r] eqn:E.
    pose proof (cnext_phi F held HF c None) as Hp. rewrite E in Hp.
    assert (Hr : match r with RStop => rested c1 | _ => ccons c1 = None end).
    { unfold cnext in E. destruct (cbuf c) as [|b0 l0] eqn:Eb.
      - inversion E; subst. split; [assumption|]. rewrite Hn. exact I.
      - pose proof (cfeed_rest c (b0 :: l0)) as H. rewrite E in H. exact H. }
    destruct r as [p|e| |]; cbn [is_stop] in Hp.
    1,2,4: specialize (IH c1 Hr ltac:(lia)); destruct (cdrain F f c1) as [c2 rs]; exact IH.
    exact Hr.
  Qed.

  Lemma cstep_rested fuel c (ch : bytes) : rested c -> ch <> [] -> phi F held c + length ch <= fuel ->
    rested (fst (cstep F fuel c ch)).
  Proof.
    intros [Hb Hq] Hch Hf. unfold cstep. destruct (cnext F c (Some ch)) as [c1 r] eqn:E.
    pose proof (cnext_phi F held HF c (Some ch)) as Hp. rewrite E in Hp.
    assert (Hr : match r with RStop => rested c1 | _ => ccons c1 = None end).
    { unfold cnext in E. destruct ch as [|b ch]; [congruence|].
      pose proof (cfeed_rest c (cbuf c ++ b :: ch)) as H. rewrite E in H. exact H. }
    destruct r as [p|e| |]; cbn [is_stop] in Hp.
    1,2,4: pose proof (cdrain_rested fuel c1 Hr ltac:(lia)) as Hd; destruct (cdrain F fuel c1) as [c2 rs]; exact Hd.
    exact Hr.
  Qed.

  Lemma total_len_concat (chunks : list bytes) : total_len chunks = length (concat chunks).
  Proof. induction chunks as [|ch cs IH]; [reflexivity|]. cbn [total_len fold_right concat]. rewrite app_length. fold (total_len cs). lia. Qed.

  Lemma cdeliver_rested fuel chunks : forall c,
    rested c -> Forall (fun ch => ch <> []) chunks -> phi F held c + total_len chunks <= fuel ->
    rested (fst (cdeliver F fuel c chunks)).
  Proof.
    induction chunks as [|ch cs IH]; intros c Hr Hne Hf; [exact Hr|].
    inversion Hne as [|? ? Hch Hcs]; subst. cbn [cdeliver total_len fold_right] in *. fold (total_len cs) in Hf.
    pose proof (cstep_rested fuel c ch Hr Hch ltac:(lia)) as H1.
    pose proof (cstep_phi F held HF fuel c ch) as H2.
    destruct (cstep F fuel c ch) as [c1 rs]. cbn [fst] in H1.
    specialize (IH c1 H1 Hcs ltac:(lia)). destruct (cdeliver F fuel c1 cs) as [c2 rs']. exact IH.
  Qed.

  Theorem held_bound_generic chunks fuel :
    Forall (fun ch => ch <> []) chunks -> length (concat chunks) <= fuel ->
    exists c' evs, cdeliver F fuel (cinit F) chunks = (c', evs) /\ cbuf c' = [] /\
                   match ccons c' with Some s => Q s | None => True end.
  Proof.
    intros Hne Hf.
    pose proof (cdeliver_rested fuel chunks (cinit F) (conj eq_refl I) Hne) as H.
    rewrite total_len_concat in H. unfold phi in H. cbn in H. specialize (H Hf).
    destruct (cdeliver F fuel (cinit F) chunks) as [c' evs]. exists c', evs. destruct H as [H1 H2]. auto.
  Qed.
End HeldBound.

(* ------------------------------------------------------------------------------------------------------------
   raw JSON: the scanner is a fold, so feeding in chunks = feeding the concatenation
   ------------------------------------------------------------------------------------------------------------ *)
Lemma jscan_app pre a : forall b c,
  jscan pre (a ++ b) c = match jscan pre a c with JSMore c' => jscan (rev a ++ pre) b c' | r => r end.
Proof.
  revert pre. induction a as [|x a IH]; intros pre b c; [reflexivity|].
  cbn [app jscan]. destruct (jstep pre c x) as [c'| |]; try reflexivity.
  rewrite IH. cbn [rev]. rewrite <- app_assoc. reflexivity.
Qed.

Lemma jscan_closed_range todo : forall pre c n, jscan pre todo c = JSClosed n -> length pre < n <= length pre + length todo.
Proof.
  induction todo as [|x todo IH]; intros pre c n H; cbn [jscan] in H; [discriminate|].
  destruct (jstep pre c x) as [c'| |].
  - apply IH in H. cbn [length] in *. lia.
  - inversion H; subst. cbn [length]. lia.
  - discriminate.
Qed.

Lemma jscan_plain_range todo : forall pre c off, jscan pre todo c = JSPlain off -> length pre <= off < length pre + length todo.
Proof.
  induction todo as [|x todo IH]; intros pre c off H; cbn [jscan] in H; [discriminate|].
  destruct (jstep pre c x) as [c'| |].
  - apply IH in H. cbn [length] in *. lia.
  - discriminate.
  - inversion H; subst. cbn [length]. lia.
Qed.

(* what a prefix of a scanned string scans to *)
Lemma jscan_prefix_more p q c : jscan [] (p ++ q) jcount0 = JSMore c -> exists c', jscan [] p jcount0 = JSMore c'.
Proof. rewrite jscan_app. destruct (jscan [] p jcount0); try discriminate. eauto. Qed.

Lemma jscan_prefix_closed p q n : jscan [] (p ++ q) jcount0 = JSClosed n ->
  (jscan [] p jcount0 = JSClosed n /\ n <= length p) \/ (exists c', jscan [] p jcount0 = JSMore c' /\ length p < n).
Proof.
  rewrite jscan_app. destruct (jscan [] p jcount0) as [c'|m|off] eqn:E; intros H; try discriminate.
  - right. exists c'. split; [reflexivity|]. apply jscan_closed_range in H. rewrite app_length, rev_length in H. cbn in H. lia.
  - inversion H; subst. left. split; [reflexivity|]. apply jscan_closed_range in E. cbn in E. lia.
Qed.

Lemma jscan_prefix_plain p q off : jscan [] (p ++ q) jcount0 = JSPlain off ->
  (jscan [] p jcount0 = JSPlain off /\ off < length p) \/ (exists c', jscan [] p jcount0 = JSMore c' /\ length p <= off).
Proof.
  rewrite jscan_app. destruct (jscan [] p jcount0) as [c'|m|o] eqn:E; intros H; try discriminate.
  - right. exists c'. split; [reflexivity|]. apply jscan_plain_range in H. rewrite app_length, rev_length in H. cbn in H. lia.
  - inversion H; subst. left. split; [reflexivity|]. apply jscan_plain_range in E. cbn in E. lia.
Qed.

Section JsonChunks.
  Variable limit : nat.

  (* the bytes a suspended raw_parse has been given since it started *)
  Inductive jrep : jstate -> bytes -> Prop :=
  | jrep_init : jrep JInit []
  | jrep_enc doc c : jscan [] doc jcount0 = JSMore c -> jrep (JEnc doc c) doc
  | jrep_plain ws doc : jscan [] (ws ++ doc) jcount0 = JSPlain (length ws) -> jrep (JPlain doc) (ws ++ doc).

  Lemma skipn_app_exact {X} (a b : list X) : skipn (length a) (a ++ b) = b.
  Proof. induction a; simpl; auto. Qed.

  (* chunk independence: resuming with a chunk = starting over with everything received so far *)
  Lemma jraw_feed_whole s w ch : jrep s w -> jraw_feed limit s ch = jraw_feed limit JInit (w ++ ch).
  Proof.
    intros H. destruct H as [|doc c H|ws doc H]; cbn [jraw_feed].
    - reflexivity.
    - unfold jenc. cbn [app rev]. rewrite (jscan_app [] doc ch jcount0), H, app_nil_r. reflexivity.
    - unfold jenc. cbn [app rev]. rewrite (jscan_app [] (ws ++ doc) ch jcount0), H.
      rewrite <- app_assoc, skipn_app_exact. reflexivity.
  Qed.

  Lemma jsplit_not_need doc n s : jsplit limit doc n <> Need s.
  Proof.
    unfold jsplit. repeat (match goal with |- context [if ?x then _ else _] => destruct x
                                    | |- context [match ?x with _ => _ end] => destruct x end); congruence.
  Qed.

  Lemma jraw_need_rep w s' : jraw_feed limit JInit w = Need s' -> jrep s' w.
  Proof.
    cbn [jraw_feed]. unfold jenc. cbn [app rev].
    destruct (jscan [] w jcount0) as [c'|n|off] eqn:E.
    - destruct (Nat.ltb limit (length w)); [discriminate|]. intros H; inversion H; subst. constructor; assumption.
    - intros H. exfalso. eapply jsplit_not_need; eauto.
    - unfold jplain. destruct (find_nonvalue (skipn off w)).
      + intros H. exfalso. eapply jsplit_not_need; eauto.
      + destruct (Nat.ltb limit _); [discriminate|]. intros H; inversion H; subst.
        pose proof (jscan_plain_range _ _ _ _ E) as Hr. cbn in Hr.
        assert (Hl : length (firstn off w) = off) by (rewrite firstn_length; lia).
        pose proof (jrep_plain (firstn off w) (skipn off w)) as Hj. rewrite Hl, firstn_skipn in Hj. apply Hj. exact E.
  Qed.

  Lemma jrep_step s w ch s' : jrep s w -> jraw_feed limit s ch = Need s' -> jrep s' (w ++ ch).
  Proof. intros Hr H. rewrite (jraw_feed_whole _ _ _ Hr) in H. apply jraw_need_rep; assumption. Qed.

  (* the first event over a chunk list, computed on cumulative concatenations only *)
  Fixpoint jwhole (w : bytes) (chunks : list bytes) : option (fres jstate bytes) :=
    match chunks with
    | [] => None
    | ch :: cs => match jraw_feed limit JInit (w ++ ch) with
                  | Need _ => jwhole (w ++ ch) cs
                  | r => Some r
                  end
    end.

  Theorem jraw_chunk_independent chunks : forall s w, jrep s w ->
    first_event (jraw_framer limit) s chunks = jwhole w chunks.
  Proof.
    induction chunks as [|ch cs IH]; intros s w Hr; [reflexivity|].
    cbn [first_event jwhole ffeed jraw_framer].
    rewrite (jraw_feed_whole _ _ ch Hr).
    destruct (jraw_feed limit JInit (w ++ ch)) as [s'| | |] eqn:E; try reflexivity.
    apply IH. apply jraw_need_rep. exact E.
  Qed.

  Lemma overrun_nil_all (doc : bytes) : overrun_remainder [] doc (length doc) = [].
  Proof. unfold overrun_remainder. apply skipn_all. Qed.

  (* (b) unterminated enclosure (or whitespace only): the limit error as soon as more than [limit] bytes are in *)
  Lemma jwhole_overrun_enclosure chunks : forall w c,
    jscan [] (w ++ concat chunks) jcount0 = JSMore c -> length w <= limit -> limit < length (w ++ concat chunks) ->
    jwhole w chunks = Some (Fail ELimit []).
  Proof.
    induction chunks as [|ch cs IH]; intros w c Hs Hw Hl.
    - cbn [concat] in Hl. rewrite app_nil_r in Hl. lia.
    - cbn [concat] in Hs, Hl. rewrite app_assoc in Hs, Hl. cbn [jwhole jraw_feed]. unfold jenc. cbn [app rev].
      destruct (jscan_prefix_more _ _ _ Hs) as [c1 E]. rewrite E.
      destruct (Nat.ltb limit (length (w ++ ch))) eqn:El.
      + rewrite overrun_nil_all. reflexivity.
      + apply Nat.ltb_ge in El. eapply IH; eauto.
  Qed.

  (* (b) unterminated plain value: at most [limit] leading whitespace bytes, then more than [limit] value bytes *)
  Lemma jwhole_overrun_plain chunks : forall w,
    (exists c, jscan [] w jcount0 = JSMore c /\ length w <= limit) \/
    (exists off, jscan [] w jcount0 = JSPlain off /\ length w - off <= limit) ->
    forall off, jscan [] (w ++ concat chunks) jcount0 = JSPlain off ->
    find_nonvalue (skipn off (w ++ concat chunks)) = None ->
    limit < length (w ++ concat chunks) - off ->
    jwhole w chunks = Some (Fail ELimit []).
  Proof.
    induction chunks as [|ch cs IH]; intros w Hw off Hs Hnv Hl.
    - cbn [concat] in *. rewrite app_nil_r in *. destruct Hw as [[c [E _]]|[o [E Hb]]]; rewrite E in Hs; [discriminate|].
      inversion Hs; subst. lia.
    - cbn [concat] in Hs, Hnv, Hl. rewrite app_assoc in Hs, Hnv, Hl. cbn [jwhole jraw_feed]. unfold jenc. cbn [app rev].
      destruct (jscan_prefix_plain _ _ _ Hs) as [[E Ho]|[c1 [E Ho]]]; rewrite E.
      + (* the value has started inside w ++ ch *)
        unfold jplain.
        assert (Hnv1 : find_nonvalue (skipn off (w ++ ch)) = None).
        { rewrite skipn_app_le in Hnv by lia. revert Hnv. generalize (skipn off (w ++ ch)). clear.
          induction l as [|b l IHl]; cbn; [reflexivity|]. destruct (is_value_byte b); [|discriminate].
          destruct (find_nonvalue (l ++ concat cs)); [discriminate|]. intros _. rewrite IHl; reflexivity. }
        rewrite Hnv1. rewrite skipn_length.
        destruct (Nat.ltb limit (length (w ++ ch) - off)) eqn:El.
        * rewrite <- skipn_length, overrun_nil_all. reflexivity.
        * apply Nat.ltb_ge in El. refine (IH (w ++ ch) _ off Hs Hnv Hl). right. exists off. split; [exact E|exact El].
      + destruct (Nat.ltb limit (length (w ++ ch))) eqn:El.
        * rewrite overrun_nil_all. reflexivity.
        * apply Nat.ltb_ge in El. refine (IH (w ++ ch) _ off Hs Hnv Hl). left. exists c1. split; [exact E|exact El].
  Qed.

  Definition not_limit {S P} (r : fres S P) : Prop := match r with Fail ELimit _ => False | Need _ => False | _ => True end.

  Lemma jsplit_within doc n : n <= limit -> not_limit (jsplit limit doc n).
  Proof.
    intros Hn. unfold jsplit. destruct (Nat.ltb limit n) eqn:E; [apply Nat.ltb_lt in E; lia|].
    repeat (match goal with |- context [if ?x then _ else _] => destruct x
                       | |- context [match ?x with _ => _ end] => destruct x end); exact I.
  Qed.

  (* (c) a document whose closing byte is at index n - 1 with n <= limit (leading whitespace included) is never
     rejected for its size, wherever the stream is cut and whatever follows it in the same read *)
  Lemma jwhole_safe_enclosure chunks : forall w c0 n,
    jscan [] w jcount0 = JSMore c0 -> length w <= limit ->
    jscan [] (w ++ concat chunks) jcount0 = JSClosed n -> n <= limit ->
    exists r, jwhole w chunks = Some r /\ not_limit r.
  Proof.
    induction chunks as [|ch cs IH]; intros w c0 n Hw Hwl Hs Hn.
    - cbn [concat] in Hs. rewrite app_nil_r in Hs. congruence.
    - cbn [concat] in Hs. rewrite app_assoc in Hs. cbn [jwhole jraw_feed]. unfold jenc. cbn [app rev].
      destruct (jscan_prefix_closed _ _ _ Hs) as [[E Hle]|[c1 [E Hlt]]]; rewrite E.
      + pose proof (jsplit_within (w ++ ch) n Hn) as Hk.
        destruct (jsplit limit (w ++ ch) n) eqn:Ej; cbn in Hk; try contradiction; eexists; split; try reflexivity; exact Hk.
      + destruct (Nat.ltb limit (length (w ++ ch))) eqn:El; [apply Nat.ltb_lt in El; lia|].
        eapply IH; eauto. lia.
  Qed.

  (* (c) plain value: leading whitespace of at most [limit] bytes and a value of at most [limit] bytes *)
  Lemma jwhole_safe_plain chunks : forall w,
    (exists c, jscan [] w jcount0 = JSMore c /\ length w <= limit) \/
    (exists off, jscan [] w jcount0 = JSPlain off /\ find_nonvalue (skipn off w) = None) ->
    forall off idx, jscan [] (w ++ concat chunks) jcount0 = JSPlain off ->
    find_nonvalue (skipn off (w ++ concat chunks)) = Some idx -> off <= limit -> idx <= limit ->
    exists r, jwhole w chunks = Some r /\ not_limit r.
  Proof.
    induction chunks as [|ch cs IH]; intros w Hw off idx Hs Hnv Ho Hi.
    - cbn [concat] in *. rewrite app_nil_r in *. destruct Hw as [[c [E _]]|[o [E Hb]]]; rewrite E in Hs; [discriminate|].
      inversion Hs; subst. congruence.
    - cbn [concat] in Hs, Hnv. rewrite app_assoc in Hs, Hnv. cbn [jwhole jraw_feed]. unfold jenc. cbn [app rev].
      destruct (jscan_prefix_plain _ _ _ Hs) as [[E Hlt]|[c1 [E Hle]]]; rewrite E.
      + unfold jplain. pose proof Hnv as Hnv0. rewrite skipn_app_le in Hnv by lia.
        destruct (find_nonvalue (skipn off (w ++ ch))) as [i|] eqn:Ef.
        * assert (i = idx).
          { revert Hnv Ef. generalize (skipn off (w ++ ch)). clear. intros l. revert i idx.
            induction l as [|b l IHl]; cbn; intros i idx H1 H2; [discriminate|].
            destruct (is_value_byte b); [|congruence].
            destruct (find_nonvalue l) as [j|] eqn:Ej; [|discriminate].
            destruct (find_nonvalue (l ++ concat cs)) as [k|] eqn:Ek; [|discriminate].
            cbn in *. inversion H1; inversion H2; subst. f_equal. eapply IHl; eauto. }
          subst i. pose proof (jsplit_within (skipn off (w ++ ch)) idx Hi) as Hk.
          destruct (jsplit limit (skipn off (w ++ ch)) idx) eqn:Ej; cbn in Hk; try contradiction;
            eexists; split; try reflexivity; exact Hk.
        * (* value still open: its length so far is below idx *)
          assert (Hlen : length (skipn off (w ++ ch)) <= idx).
          { revert Hnv Ef. generalize (skipn off (w ++ ch)). clear. intros l. revert idx.
            induction l as [|b l IHl]; cbn; intros idx H1 H2; [lia|].
            destruct (is_value_byte b); [|discriminate].
            destruct (find_nonvalue l) eqn:Ej; [discriminate|].
            destruct (find_nonvalue (l ++ concat cs)) as [k|] eqn:Ek; [|discriminate].
            cbn in H1. inversion H1; subst. specialize (IHl k eq_refl eq_refl). lia. }
          destruct (Nat.ltb limit (length (skipn off (w ++ ch)))) eqn:El; [apply Nat.ltb_lt in El; lia|].
          refine (IH (w ++ ch) _ off idx Hs Hnv0 Ho Hi). right. exists off. split; assumption.
      + destruct (Nat.ltb limit (length (w ++ ch))) eqn:El; [apply Nat.ltb_lt in El; lia|].
        apply Nat.ltb_ge in El. refine (IH (w ++ ch) _ off idx Hs Hnv Ho Hi). left. exists c1. split; assumption.
  Qed.
End JsonChunks.

(* ------------------------------------------------------------------------------------------------------------
   raw JSON at the level of JSONSerializer.incremental_deserialize and the copying consumer
   ------------------------------------------------------------------------------------------------------------ *)
Section JsonC07.
  Context {P : Type}.
  Variable limit : nat.
  Variable dec : decoder P.

  Definition jpost (r : fres jstate bytes) : fres jstate P :=
    match r with
    | Need s => Need s
    | Done doc rest => match dec doc with Some p => Done p rest | None => Fail EDecode rest end
    | Fail e rest => Fail e rest
    | Crash => Crash
    end.

  Lemma json_first_event chunks : forall s,
    first_event (json_framer limit dec) s chunks = option_map jpost (first_event (jraw_framer limit) s chunks).
  Proof.
    induction chunks as [|ch cs IH]; intros s; [reflexivity|].
    cbn [first_event ffeed json_framer jraw_framer]. unfold json_feed.
    destruct (jraw_feed limit s ch) as [s'|doc rest|e rest|]; cbn [jpost option_map]; try reflexivity.
    - apply IH.
    - destruct (dec doc); reflexivity.
  Qed.

  Lemma json_need_held s ch s' : json_feed limit dec s ch = Need s' -> j_held s' <= limit.
  Proof.
    unfold json_feed. destruct (jraw_feed limit s ch) as [s0|doc rest|e rest|] eqn:E; try discriminate.
    2: destruct (dec doc); discriminate.
    intros H; inversion H; subst. clear H.
    assert (Hgen : forall doc, forall s0, jplain limit doc = Need s0 -> j_held s0 <= limit).
    { intros doc s0. unfold jplain. destruct (find_nonvalue doc).
      - intros H. exfalso. eapply jsplit_not_need; eauto.
      - destruct (Nat.ltb limit (length doc)) eqn:El; [discriminate|]. intros H; inversion H; subst.
        apply Nat.ltb_ge in El. exact El. }
    assert (Henc : forall old c, jenc limit old ch c = Need s' -> j_held s' <= limit).
    { intros old c. unfold jenc. destruct (jscan (rev old) ch c).
      - destruct (Nat.ltb limit (length (old ++ ch))) eqn:El; [discriminate|]. intros H; inversion H; subst.
        apply Nat.ltb_ge in El. exact El.
      - intros H. exfalso. eapply jsplit_not_need; eauto.
      - apply Hgen. }
    destruct s; cbn [jraw_feed] in E; eauto.
  Qed.

  (* (a) *)
  Theorem json_held_bound_l (chunks : list bytes) fuel :
    Forall (fun ch => ch <> []) chunks -> length (concat chunks) <= fuel ->
    exists c' evs,
      cdeliver (json_framer limit dec) fuel (cinit _) chunks = (c', evs) /\
      cbuf c' = [] /\
      match ccons c' with
      | Some (JEnc doc _) | Some (JPlain doc) => length doc <= limit
      | _ => True
      end.
  Proof.
    intros Hne Hf.
    destruct (held_bound_generic (json_framer limit dec) j_held (json_progressive limit dec)
                (fun s => j_held s <= limit) (fun s c s' => json_need_held s c s') chunks fuel Hne Hf)
      as (c' & evs & Hd & Hb & Hq).
    exists c', evs. split; [exact Hd|]. split; [exact Hb|].
    destruct (ccons c') as [[|doc c|doc]|]; cbn in *; auto.
  Qed.

  Lemma json_first_to_consumer chunks fuel (r : fres jstate bytes) :
    Forall (fun ch => ch <> []) chunks -> jwhole limit [] chunks = Some r ->
    exists c' evs, cdeliver (json_framer limit dec) fuel (cinit _) chunks = (c', nres_of (json_framer limit dec) (jpost r) :: evs).
  Proof.
    intros Hne Hw.
    pose proof (jraw_chunk_independent limit chunks JInit [] (jrep_init)) as Hci. rewrite Hw in Hci.
    pose proof (json_first_event chunks JInit) as Hj. cbn [finit jraw_framer] in Hci. rewrite Hci in Hj. cbn [option_map] in Hj.
    destruct (cdeliver_first_event (json_framer limit dec) fuel chunks (cinit _) JInit (jpost r)
                (suspended_init _) Hne Hj) as (c' & evs & Hd & _).
    eauto.
  Qed.

  (* (b) an enclosure that never closes (or whitespace only): limit error once more than [limit] bytes are received *)
  Theorem json_overrun_raised_l (chunks : list bytes) fuel c :
    Forall (fun ch => ch <> []) chunks ->
    jscan [] (concat chunks) jcount0 = JSMore c -> limit < length (concat chunks) ->
    exists c' evs, cdeliver (json_framer limit dec) fuel (cinit _) chunks = (c', RErr ELimit :: evs).
  Proof.
    intros Hne Hs Hl.
    pose proof (jwhole_overrun_enclosure limit chunks [] c Hs ltac:(cbn; lia) Hl) as Hw.
    exact (json_first_to_consumer chunks fuel _ Hne Hw).
  Qed.

  (* (b) a plain value that never ends: limit error once the value itself exceeds [limit] bytes *)
  Theorem json_overrun_raised_plain_l (chunks : list bytes) fuel off :
    Forall (fun ch => ch <> []) chunks ->
    jscan [] (concat chunks) jcount0 = JSPlain off -> find_nonvalue (skipn off (concat chunks)) = None ->
    limit < length (concat chunks) - off ->
    exists c' evs, cdeliver (json_framer limit dec) fuel (cinit _) chunks = (c', RErr ELimit :: evs).
  Proof.
    intros Hne Hs Hnv Hl.
    assert (H0 : (exists c, jscan [] [] jcount0 = JSMore c /\ @length byte [] <= limit) \/
                 (exists o, jscan [] [] jcount0 = JSPlain o /\ @length byte [] - o <= limit))
      by (left; exists jcount0; split; [reflexivity|cbn; lia]).
    pose proof (jwhole_overrun_plain limit chunks [] H0 off Hs Hnv Hl) as Hw.
    exact (json_first_to_consumer chunks fuel _ Hne Hw).
  Qed.

  Lemma jpost_not_limit r : not_limit r -> (exists p, nres_of (json_framer limit dec) (jpost r) = RPkt p) \/
                                           nres_of (json_framer limit dec) (jpost r) = RErr EDecode \/
                                           nres_of (json_framer limit dec) (jpost r) = RCrash \/
                                           exists e, e <> ELimit /\ nres_of (json_framer limit dec) (jpost r) = RErr e.
  Proof.
    destruct r as [s|doc rest|e rest|]; cbn; intros H; try contradiction.
    - destruct (dec doc); cbn; eauto.
    - destruct e; try contradiction; right; right; right; eexists; (split; [|reflexivity]); discriminate.
    - auto.
  Qed.

  (* (c) a document (leading whitespace included) whose last byte is within the first [limit] bytes is never
     rejected for its size: the first event is a packet or a decode error, for every chunking *)
  Theorem json_safe_never_rejected_l (chunks : list bytes) fuel n :
    Forall (fun ch => ch <> []) chunks ->
    jscan [] (concat chunks) jcount0 = JSClosed n -> n <= limit ->
    exists c' r evs, cdeliver (json_framer limit dec) fuel (cinit _) chunks = (c', r :: evs) /\ r <> RErr ELimit /\ r <> RStop.
  Proof.
    intros Hne Hs Hn.
    destruct (jwhole_safe_enclosure limit chunks [] jcount0 n eq_refl ltac:(cbn; lia) Hs Hn) as (r & Hw & Hk).
    destruct (json_first_to_consumer chunks fuel _ Hne Hw) as (c' & evs & Hd).
    exists c', (nres_of (json_framer limit dec) (jpost r)), evs. split; [exact Hd|].
    destruct r as [s|doc rest|e rest|]; cbn in Hk |- *; try contradiction.
    - destruct (dec doc); cbn; split; discriminate.
    - destruct e; try contradiction; split; discriminate.
    - split; discriminate.
  Qed.

  Theorem json_safe_never_rejected_plain_l (chunks : list bytes) fuel off idx :
    Forall (fun ch => ch <> []) chunks ->
    jscan [] (concat chunks) jcount0 = JSPlain off -> find_nonvalue (skipn off (concat chunks)) = Some idx ->
    off <= limit -> idx <= limit ->
    exists c' r evs, cdeliver (json_framer limit dec) fuel (cinit _) chunks = (c', r :: evs) /\ r <> RErr ELimit /\ r <> RStop.
  Proof.
    intros Hne Hs Hnv Ho Hi.
    assert (H0 : (exists c, jscan [] [] jcount0 = JSMore c /\ @length byte [] <= limit) \/
                 (exists o, jscan [] [] jcount0 = JSPlain o /\ find_nonvalue (skipn o (@nil byte)) = None))
      by (left; exists jcount0; split; [reflexivity|cbn; lia]).
    destruct (jwhole_safe_plain limit chunks [] H0 off idx Hs Hnv Ho Hi) as (r & Hw & Hk).
    destruct (json_first_to_consumer chunks fuel _ Hne Hw) as (c' & evs & Hd).
    exists c', (nres_of (json_framer limit dec) (jpost r)), evs. split; [exact Hd|].
    destruct r as [s|doc rest|e rest|]; cbn in Hk |- *; try contradiction.
    - destruct (dec doc); cbn; split; discriminate.
    - destruct e; try contradiction; split; discriminate.
    - split; discriminate.
  Qed.
End JsonC07.

(* ------------------------------------------------------------------------------------------------------------
   file based (FileBasedPacketSerializer through _wrap_generic_incremental_deserialize)
   ------------------------------------------------------------------------------------------------------------ *)
Section FbC07.
  Context {P : Type}.
  Variables (limit : nat) (load : bytes -> lres P) (expected : Z -> bool).
  Hypothesis load_eof_pos : forall content pos, load content = LEof pos -> pos <= length content.
  Hypothesis load_done_pos : forall content p pos, load content = LDone p pos -> 1 <= pos.
  Hypothesis load_raise_pos : forall content k pos, load content = LRaise k pos -> 1 <= pos.

  Let F := wrap_generic (fb_framer limit load expected).

  Definition fb_content_le (s : fb_state) : Prop :=
    match s with Some (content, _) => length content <= limit | None => True end.

  Lemma fb_round_need content s' : fb_round limit load expected content = Need s' ->
    exists pos, s' = Some (content, pos) /\ load content = LEof pos /\ length content <= limit.
  Proof.
    unfold fb_round. destruct (Nat.ltb limit (length content)) eqn:El; [discriminate|]. apply Nat.ltb_ge in El.
    destruct (load content) as [pos|p pos|k pos] eqn:E; try discriminate.
    - intros H; inversion H; subst. eauto.
    - destruct (expected k); discriminate.
  Qed.

  Lemma fb_need_content s ch s' : ffeed F s ch = Need s' -> fb_content_le s'.
  Proof.
    cbn. destruct (fb_feed limit load expected s ch) as [s0| | |] eqn:E; try discriminate.
    intros H; inversion H; subst. unfold fb_feed in E.
    destruct s as [[content pos]|]; apply fb_round_need in E as (q & -> & _ & Hl); exact Hl.
  Qed.

  Lemma fb_wrapped_progressive : progressive F fb_held.
  Proof. apply wrap_progressive. apply fb_progressive; assumption. Qed.

  (* (a) *)
  Theorem fb_held_bound_l (chunks : list bytes) fuel :
    Forall (fun ch => ch <> []) chunks -> length (concat chunks) <= fuel ->
    exists c' evs,
      cdeliver F fuel (cinit _) chunks = (c', evs) /\ cbuf c' = [] /\
      match ccons c' with Some (Some (content, _)) => length content <= limit | _ => True end.
  Proof.
    intros Hne Hf.
    destruct (held_bound_generic F fb_held fb_wrapped_progressive fb_content_le fb_need_content chunks fuel Hne Hf)
      as (c' & evs & Hd & Hb & Hq).
    exists c', evs. split; [exact Hd|]. split; [exact Hb|].
    destruct (ccons c') as [[[content pos]|]|]; cbn in *; auto.
  Qed.

  (* the BytesIO of a suspended generator when every load so far read to the end *)
  Inductive fbrep : fb_state -> bytes -> Prop :=
  | fbrep_init : fbrep None []
  | fbrep_wait w : fbrep (Some (w, length w)) w.

  Lemma bio_write_end (w ch : bytes) : bio_write w (length w) ch = w ++ ch.
  Proof.
    unfold bio_write. rewrite firstn_all, Nat.sub_diag. cbn [repeat app].
    rewrite skipn_all2 by lia. rewrite app_nil_r. reflexivity.
  Qed.

  Lemma fb_feed_rep s w ch : fbrep s w -> fb_feed limit load expected s ch = fb_round limit load expected (w ++ ch).
  Proof. intros [|w']; cbn [fb_feed]; [reflexivity|]. rewrite bio_write_end. reflexivity. Qed.

  (* (b) a record that never completes (the loader reports EOF on every prefix, having read it all): the limit
     error on the read that takes the accumulated data beyond [limit] bytes *)
  Lemma fb_first_overrun chunks : forall s w,
    fbrep s w -> length w <= limit -> limit < length (w ++ concat chunks) ->
    (forall k, k <= length (w ++ concat chunks) -> load (firstn k (w ++ concat chunks)) = LEof k) ->
    first_event F s chunks = Some (Fail ELimit []).
  Proof.
    induction chunks as [|ch cs IH]; intros s w Hr Hw Hl He.
    - cbn [concat] in Hl. rewrite app_nil_r in Hl. lia.
    - cbn [concat] in Hl, He. rewrite app_assoc in Hl, He.
      unfold F. cbn [first_event ffeed wrap_generic fb_framer]. rewrite (fb_feed_rep _ _ ch Hr). unfold fb_round.
      destruct (Nat.ltb limit (length (w ++ ch))) eqn:El.
      + rewrite overrun_nil_all. reflexivity.
      + apply Nat.ltb_ge in El.
        pose proof (He (length (w ++ ch)) ltac:(rewrite (app_length (w ++ ch)); lia)) as Hk.
        rewrite firstn_app_le, firstn_all in Hk by lia. rewrite Hk.
        apply (IH _ (w ++ ch) (fbrep_wait _) El Hl He).
  Qed.

  Theorem fb_overrun_raised_l (chunks : list bytes) fuel :
    Forall (fun ch => ch <> []) chunks ->
    (forall k, k <= length (concat chunks) -> load (firstn k (concat chunks)) = LEof k) ->
    limit < length (concat chunks) ->
    exists c' evs, cdeliver F fuel (cinit _) chunks = (c', RErr ELimit :: evs).
  Proof.
    intros Hne He Hl.
    pose proof (fb_first_overrun chunks None [] fbrep_init ltac:(cbn; lia) Hl He) as Hf.
    destruct (cdeliver_first_event F fuel chunks (cinit _) None _ (suspended_init _) Hne Hf) as (c' & evs & Hd & _).
    exists c', evs. exact Hd.
  Qed.

  (* (c) whatever the loader does, no limit error while the data received since the previous event fits in [limit]:
     a record is never rejected for its size when record + whatever arrived with it in the same reads <= limit *)
  Lemma fb_first_safe chunks : forall s r,
    fb_held s + length (concat chunks) <= limit -> first_event F s chunks = Some r ->
    match r with Fail ELimit _ => False | _ => True end.
  Proof.
    induction chunks as [|ch cs IH]; intros s r Hl Hf; [discriminate|].
    cbn [concat] in Hl. rewrite app_length in Hl.
    unfold F in Hf. cbn [first_event ffeed wrap_generic fb_framer] in Hf.
    set (content := match s with Some (c0, pos) => bio_write c0 pos ch | None => ch end).
    assert (Hc : fb_feed limit load expected s ch = fb_round limit load expected content)
      by (unfold content; destruct s as [[c0 pos]|]; reflexivity).
    assert (Hlen : length content <= fb_held s + length ch).
    { unfold content. destruct s as [[c0 pos]|]; cbn [fb_held]; [|lia].
      pose proof (bio_write_len c0 pos ch) as [H1 _]. exact H1. }
    rewrite Hc in Hf. unfold fb_round in Hf.
    destruct (Nat.ltb limit (length content)) eqn:El; [apply Nat.ltb_lt in El; lia|].
    destruct (load content) as [pos|p pos|k pos] eqn:E.
    - apply (IH (Some (content, pos)) r); [|exact Hf]. cbn [fb_held]. specialize (load_eof_pos _ _ E). lia.
    - inversion Hf; subst; exact I.
    - destruct (expected k); inversion Hf; subst; exact I.
  Qed.

  Theorem fb_safe_never_rejected_l (chunks : list bytes) fuel r :
    Forall (fun ch => ch <> []) chunks -> length (concat chunks) <= limit ->
    first_event F None chunks = Some r ->
    exists c' evs, cdeliver F fuel (cinit _) chunks = (c', nres_of F r :: evs) /\ nres_of F r <> RErr ELimit.
  Proof.
    intros Hne Hl Hf.
    pose proof (fb_first_safe chunks None r ltac:(cbn; lia) Hf) as Hk.
    destruct (cdeliver_first_event F fuel chunks (cinit _) None r (suspended_init _) Hne Hf) as (c' & evs & Hd & _).
    exists c', evs. split; [exact Hd|]. destruct r as [s|p rest|e rest|]; cbn; try discriminate.
    destruct e; try discriminate. contradiction.
  Qed.
End FbC07.

(* ------------------------------------------------------------------------------------------------------------
   the buffer-filling twins: _wrap_generic_buffered_incremental_deserialize sends the inner generator buffer[:nbytes],
   so a sequence of receive rounds (buffer contents, nbytes) is the copying generator over the slices
   ------------------------------------------------------------------------------------------------------------ *)
Section BWrap.
  Context {P : Type}.
  Variable F : framer P.
  Variable alloc : nat -> nat.

  Fixpoint first_bevent (s : fst_ F) (rounds : list (bytes * nat)) : option (bres (fst_ F) P) :=
    match rounds with
    | [] => None
    | (mem, n) :: rs => match bfeed (bwrap_generic F alloc) s mem n with
                        | BNeed s' _ => first_bevent s' rs
                        | r => Some r
                        end
    end.

  Definition to_bres (r : fres (fst_ F) P) : bres (fst_ F) P :=
    match r with Need s => BNeed s 0 | Done p rest => BDone p rest | Fail e rest => BFail e rest | Crash => BCrash end.

  Theorem bwrap_first_event rounds : forall s,
    first_bevent s rounds = option_map to_bres (first_event F s (map (fun r => firstn (snd r) (fst r)) rounds)).
  Proof.
    induction rounds as [|[mem n] rs IH]; intros s; [reflexivity|].
    cbn [first_bevent map first_event fst snd bfeed bwrap_generic]. unfold bwrap_feed.
    destruct (ffeed F s (firstn n mem)); cbn [option_map to_bres]; try reflexivity. apply IH.
  Qed.

  (* the state of the inner generator is the only thing kept besides the receive buffer *)
  Lemma bwrap_need_state s mem n s' start : bfeed (bwrap_generic F alloc) s mem n = BNeed s' start ->
    ffeed F s (firstn n mem) = Need s' /\ start = 0.
  Proof. cbn. unfold bwrap_feed. destruct (ffeed F s (firstn n mem)); intros H; inversion H; subst; auto. Qed.
End BWrap.

Lemma fb_alloc_le limit sizehint : fb_alloc limit sizehint <= limit.
Proof. unfold fb_alloc. lia. Qed.

(* tightness / cut dependence of the file-based limit: a 3-byte record is accepted alone but rejected when the same
   read also carries 4 more bytes (limit 6): what is checked is the accumulated buffer, not the record *)
Definition c07_toy_load (content : bytes) : lres bytes :=
  match content with
  | [] => LEof 0
  | n :: rest => if Nat.ltb (length rest) (N.to_nat n) then LEof (length content)
                 else LDone (firstn (N.to_nat n) rest) (S (N.to_nat n))
  end.
Example fb_limit_depends_on_the_read :
  ffeed (fb_framer 6 c07_toy_load (fun _ => true)) None [2; 7; 7]%N = Done [7; 7]%N [] /\
  ffeed (fb_framer 6 c07_toy_load (fun _ => true)) None [2; 7; 7; 1; 9; 1; 9]%N = Fail ELimit [].
Proof. vm_compute. split; reflexivity. Qed.

(* raw JSON: acceptance of a document does not depend on what follows it in the read, only on its own end index *)
Example json_limit_is_on_the_document :
  ffeed (jraw_framer 3) JInit [91; 93; 91; 49; 44; 50; 44; 51; 93]%N = Done [91; 93]%N [91; 49; 44; 50; 44; 51; 93]%N.
Proof. vm_compute. reflexivity. Qed.
