(* StapledPacketSerializer: dispatch of the regenerated [stapled_class] and round trip between two stapled peers. *)
From Coq Require Import ZArith List Bool Lia.
From EN Require Import Lib.Bytes Frame.Framer Frame.ReadUntil Frame.BufReadUntil Stream.Consumer Frame.Stapled
  Gen.ParamsC01 Proofs.C01_proofs.
Import ListNotations.

Lemma three (x : Z) : (0 <= x <= 2)%Z -> x = 0%Z \/ x = 1%Z \/ x = 2%Z.
Proof. lia. Qed.

Lemma stapled_dispatch_proof :
  forall cls s r : Z,
    (0 <= s <= 2)%Z -> (0 <= r <= 2)%Z ->
    (cls = 0 \/ (cls = 1 /\ 1 <= s /\ 1 <= r) \/ (cls = 2 /\ 1 <= s /\ r = 2))%Z ->
    stapled_class cls s r = (if (s =? 0)%Z then 0 else r)%Z.
Proof.
  intros cls s r Hs Hr Hc.
  destruct (three s Hs) as [-> | [-> | ->]]; destruct (three r Hr) as [-> | [-> | ->]];
    destruct Hc as [-> | [(-> & H1 & H2) | (-> & H1 & H2)]]; try lia; vm_compute; reflexivity.
Qed.

(* a separator-framed serializer (AutoSeparatedPacketSerializer subclass / StringLineSerializer) seen as a half *)
Definition sep_half {P : Type} (cap : Z) (sep : bytes) (limit : nat) (keep_end : bool) (enc : P -> bytes)
           (dec : decoder P) : half P P :=
  {| h_cap := cap;
     h_iser := fun p => Some [enc p ++ sep];
     h_fr := ru_framer sep limit keep_end dec;
     h_bfr := bru_framer sep limit keep_end dec |}.

Lemma staple_offers :
  forall (PS X Y PR : Type) (s : half PS X) (r : half Y PR),
    (0 <= h_cap s <= 2)%Z -> (0 <= h_cap r <= 2)%Z ->
    (offers_copying (staple s r) = true <-> (1 <= h_cap s /\ 1 <= h_cap r)%Z) /\
    (offers_buffered (staple s r) = true <-> (1 <= h_cap s /\ h_cap r = 2)%Z).
Proof.
  intros PS X Y PR s r Hs Hr. unfold offers_copying, offers_buffered, staple; cbn [h_cap].
  rewrite (stapled_dispatch_proof 0 (h_cap s) (h_cap r) Hs Hr (or_introl eq_refl)).
  destruct (Z.eqb_spec (h_cap s) 0) as [E|E]; rewrite ?Z.leb_le; split; split; lia.
Qed.

Lemma valid_pkt_weaken {P} sep ke (enc : P -> bytes) dec (a b : nat) p :
  (a <= b)%nat -> valid_pkt sep ke enc dec a p -> valid_pkt sep ke enc dec b p.
Proof. intros Hab (H1 & H2 & H3). repeat split; [exact H1 | exact H2 | lia]. Qed.

Lemma stapled_peers_roundtrip_proof :
  forall (P Q : Type) (capS capR : Z) (sepS sepR : bytes) (keS keR : bool) (encS : P -> bytes) (decS : decoder P)
         (encR : Q -> bytes) (decR : decoder Q) (limS limR sizehint : nat),
    sepS <> [] -> length sepS + 1 <= limS ->
    let S := sep_half capS sepS limS keS encS decS in
    let R := sep_half capR sepR limR keR encR decR in
    let A := staple S R in
    let B := staple R S in
    forall (pkts : list P) (chunks : list bytes) (fuel : nat),
      Forall (valid_pkt sepS keS encS decS (limS - 1 - length sepS)) pkts ->
      Forall (fun ch => ch <> []) chunks ->
      concat chunks = concat (map (fun p => match h_iser A p with Some l => concat l | None => [] end) pkts) ->
      length (stream sepS encS pkts) < fuel ->
      cdeliver (h_fr B) fuel (cinit _) chunks = (@Build_cstate P (h_fr B) [] None, map RPkt pkts)
      /\ exists c', bcdeliver (h_bfr B) sizehint fuel (bcinit _) chunks = (c', map RPkt pkts) /\
                    bcons c' = None /\ balready c' = 0 /\ bexported c' = None.
Proof.
  intros P Q capS capR sepS sepR keS keR encS decS encR decR limS limR sizehint Hne Hlim S R A B pkts chunks fuel Hv Hch Hc Hf.
  assert (Hs : concat chunks = stream sepS encS pkts).
  { rewrite Hc. unfold stream, frame. f_equal. apply map_ext. intro p. cbn. rewrite app_nil_r. reflexivity. }
  split.
  - apply (consumer_roundtrip_l sepS keS encS decS Hne limS pkts chunks fuel); try assumption.
    eapply Forall_impl; [|exact Hv]. intros p Hp. eapply valid_pkt_weaken; [|exact Hp]. lia.
  - exact (bconsumer_roundtrip_l sepS keS encS decS Hne limS sizehint pkts chunks fuel Hlim Hv Hs Hf).
Qed.
