From Coq Require Import ZArith List Bool Lia Arith.
From EN Require Import Lib.Bytes Frame.Framer Frame.ReadUntil Frame.BufReadUntil Stream.Consumer Stream.SpecDecode
  Proofs.Bytes_proofs Proofs.ReadUntil_proofs Proofs.BufReadUntil_proofs Proofs.C02_proofs.
Import ListNotations.

Section C07.
  Context {P : Type}.
  Variable sep : bytes.
  Variable limit : nat.
  Variable keep_end : bool.
  Variable dec : decoder P.
  Hypothesis sep_ne : sep <> [].

  Lemma held_bound_copying_l (chunks : list bytes) fuel :
    Forall (fun ch => ch <> []) chunks -> length (concat chunks) < fuel ->
    exists c' evs,
      cdeliver (ru_framer sep limit keep_end dec) fuel (cinit _) chunks = (c', evs) /\
      cbuf c' = [] /\
      match ccons c' with
      | Some (Some (buf, _)) => length buf + 1 <= limit + length sep /\ find0 sep buf = None
      | _ => True
      end.
  Proof.
    intros Hne Hf.
    destruct (cdeliver_rep sep limit keep_end dec sep_ne chunks (cinit _) [] fuel) as (c' & w' & evs & Hd & Hc & _);
      [constructor | exact Hne | exact Hf |].
    exists c', evs. split; [exact Hd|].
    pose proof (crep_bound sep limit keep_end dec sep_ne _ _ Hc) as [Hb Hn].
    inversion Hc; subst; cbn; split; auto.
  Qed.

  Lemma overrun_raised_l (chunks : list bytes) fuel :
    Forall (fun ch => ch <> []) chunks -> find0 sep (concat chunks) = None ->
    limit + length sep < length (concat chunks) + 1 ->
    exists c' evs, cdeliver (ru_framer sep limit keep_end dec) fuel (cinit _) chunks = (c', RErr ELimit :: evs).
  Proof.
    intros Hne Hnf Hl.
    exact (overrun_raised sep limit keep_end dec sep_ne chunks (cinit _) [] fuel (crep_idle _ _ _ _) Hne Hnf Hl).
  Qed.

  Lemma safe_never_rejected_copying_l (chunks : list bytes) fuel :
    Forall (fun ch => ch <> []) chunks -> safe sep limit (concat chunks) -> length (concat chunks) < fuel ->
    exists c' evs, cdeliver (ru_framer sep limit keep_end dec) fuel (cinit _) chunks = (c', evs) /\ ~ In (RErr ELimit) evs.
  Proof.
    intros Hne Hs Hf.
    destruct (cdeliver_spec sep limit keep_end dec sep_ne chunks (cinit _) [] fuel) as (c' & Hd & _);
      [constructor | exact Hne | exact Hs | exact Hf |].
    eexists; eexists; split; [exact Hd | apply spec_no_limit_err].
  Qed.
End C07.

Section C07b.
  Context {P : Type}.
  Variable sep : bytes.
  Variable limit sizehint : nat.
  Variable keep_end : bool.
  Variable dec : decoder P.
  Hypothesis sep_ne : sep <> [].
  Hypothesis limit_ok : length sep + 1 <= limit.

  Lemma safe_never_rejected_buffered_l (chunks : list bytes) fuel :
    safe sep (limit - 1 - length sep) (concat chunks) -> length (concat chunks) < fuel ->
    exists c' evs, bcdeliver (bru_framer sep limit keep_end dec) sizehint fuel (bcinit _) chunks = (c', evs) /\
                   ~ In (RErr ELimit) evs.
  Proof.
    intros Hs Hf.
    destruct (bcdeliver_spec sep limit keep_end dec sizehint sep_ne limit_ok chunks (bcinit _) [] fuel) as (c' & Hd & _);
      [apply (brep_idle sep limit keep_end dec None 0); exact I | exact Hs | exact Hf |].
    eexists; eexists; split; [exact Hd | apply spec_no_limit_err].
  Qed.

  Lemma held_bound_buffered_l (fills : list bytes) fuel :
    length (concat fills) < fuel ->
    fills_fit (bru_framer sep limit keep_end dec) sizehint fuel (bcinit _) fills ->
    exists c' evs,
      bcfills (bru_framer sep limit keep_end dec) sizehint fuel (bcinit _) fills = (c', evs) /\
      match bmem c' with Some m => length m = limit | None => True end /\
      match bcons c' with Some (buflen, _) => buflen + 2 <= limit | None => True end.
  Proof.
    intros Hf Hfit.
    assert (Hidle : brep sep limit keep_end dec (bcinit (bru_framer sep limit keep_end dec)) [])
      by (apply (brep_idle sep limit keep_end dec None 0); exact I).
    pose proof (fills_fit_run sep limit keep_end dec sizehint sep_ne limit_ok fuel fills _ [] Hidle Hf Hfit) as Hfr.
    destruct (bcfills_rep sep limit keep_end dec sizehint sep_ne limit_ok fuel fills _ [] Hidle Hfr Hf)
      as (c' & w' & evs & Hd & Hc' & _).
    exists c', evs. split; [exact Hd|]. destruct Hc' as [m st Hm | m off w Hm Hne Hl Hfm Hinv Hnf Hx]; cbn.
    - split; [destruct m; [exact Hm | exact I] | exact I].
    - split; [exact Hm | exact Hl].
  Qed.

  Lemma overrun_raised_buffered_l (fills : list bytes) fuel :
    find0 sep (concat fills) = None -> limit < length (concat fills) + 2 -> length (concat fills) < fuel ->
    fills_fit (bru_framer sep limit keep_end dec) sizehint fuel (bcinit _) fills ->
    exists c' evs, bcfills (bru_framer sep limit keep_end dec) sizehint fuel (bcinit _) fills = (c', RErr ELimit :: evs).
  Proof.
    intros Hnf Hl Hf Hfit.
    assert (Hidle : brep sep limit keep_end dec (bcinit (bru_framer sep limit keep_end dec)) [])
      by (apply (brep_idle sep limit keep_end dec None 0); exact I).
    pose proof (fills_fit_run sep limit keep_end dec sizehint sep_ne limit_ok fuel fills _ [] Hidle Hf Hfit) as Hfr.
    exact (overrun_raised_rounds sep limit keep_end dec sizehint sep_ne limit_ok fuel fills _ [] Hidle Hfr Hnf Hl Hf).
  Qed.
End C07b.
