(* Blocking half of C10: a TimeoutError out of a blocking receive loses nothing.
   Every chunk the timed-out call took from the transport was handed to the consumer, in order, the consumer object is
   kept, and what later calls return is what they would have returned had the timed-out call never been made and had
   the transport kept those chunks for a later, patient call. *)
From Coq Require Import List Bool Arith Lia.
From EN Require Import Lib.Bytes Conc.BlockRecv Frame.Framer Stream.Consumer.
Import ListNotations.

Section Proofs.
  Context {C R : Type}.
  Variable next : C -> option bytes -> C * option R.
  Variable bufsize : nat.
  (* after a StopIteration, next(None) is a no-op that raises StopIteration again *)
  Hypothesis Hstop : forall c x c', next c x = (c', None) -> next c' None = (c', None).

  Lemma bloop_timeout : forall evs tz c c1 e1 evs1,
    bloop next bufsize evs tz c false = (c1, e1, evs1, BTimedOut) ->
    exists consumed,
      evs = consumed ++ evs1 /\ e1 = false /\
      (c1 = c \/ next c1 None = (c1, None)) /\
      bloop next bufsize (patient (bdata_of consumed) ++ evs1) false c false = bloop next bufsize evs1 false c1 false.
  Proof.
    induction evs as [|e evs IH]; intros tz c c1 e1 evs1 H; simpl in H.
    - discriminate.
    - destruct e as [b x| |].
      + destruct (nilb b) eqn:Eb; [discriminate|].
        destruct (next c (Some b)) as [c' [r|]] eqn:En; [discriminate|].
        assert (Hstep : forall rest, bloop next bufsize (patient [b] ++ rest) false c false
                                     = bloop next bufsize rest false c' false).
        { intro rest. simpl. rewrite Eb, En. reflexivity. }
        assert (Hrec : forall tz', bloop next bufsize evs tz' c' false = (c1, e1, evs1, BTimedOut) ->
                  exists consumed,
                    BData b x :: evs = consumed ++ evs1 /\ e1 = false /\
                    (c1 = c \/ next c1 None = (c1, None)) /\
                    bloop next bufsize (patient (bdata_of consumed) ++ evs1) false c false
                    = bloop next bufsize evs1 false c1 false).
        { intros tz' H'. destruct (IH tz' c' c1 e1 evs1 H') as (consumed & E1 & E2 & E3 & E4).
          exists (BData b x :: consumed). split; [rewrite E1; reflexivity|]. split; [exact E2|]. split.
          - right. destruct E3 as [E3|E3]; [subst c1; exact (Hstop _ _ _ En) | exact E3].
          - change (bdata_of (BData b x :: consumed)) with (b :: bdata_of consumed).
            change (patient (b :: bdata_of consumed) ++ evs1)
              with (patient [b] ++ (patient (bdata_of consumed) ++ evs1)).
            rewrite Hstep. exact E4. }
        destruct tz.
        * destruct (Nat.ltb (length b) bufsize).
          -- inversion H; subst. exists [BData b x]. split; [reflexivity|]. split; [reflexivity|]. split.
             ++ right. exact (Hstop _ _ _ En).
             ++ change (bdata_of [BData b x]) with [b]. apply Hstep.
          -- apply (Hrec true). exact H.
        * apply (Hrec x). exact H.
      + discriminate.
      + inversion H; subst. exists [BTimeout]. split; [reflexivity|]. split; [reflexivity|]. split; [left; reflexivity|].
        reflexivity.
  Qed.

  Lemma timeout_loses_nothing_proof : forall tz c evs c1 e1 evs1,
    breceive next bufsize tz c false evs = (c1, e1, evs1, BTimedOut) ->
    exists consumed,
      evs = consumed ++ evs1 /\ e1 = false /\
      breceive next bufsize false c false (patient (bdata_of consumed) ++ evs1)
      = breceive next bufsize false c1 false evs1.
  Proof.
    intros tz c evs c1 e1 evs1 H. unfold breceive in *.
    destruct (next c None) as [c0 [r|]] eqn:En; [discriminate|].
    destruct (bloop_timeout _ _ _ _ _ _ H) as (consumed & E1 & E2 & E3 & E4).
    exists consumed. split; [exact E1|]. split; [exact E2|].
    assert (Hs : next c1 None = (c1, None)).
    { destruct E3 as [E3|E3]; [subst c1; exact (Hstop _ _ _ En) | exact E3]. }
    rewrite Hs. exact E4.
  Qed.
End Proofs.

(* the hypothesis holds for the fixed-size consumer used in the correspondence run ... *)
Lemma fx_next_stop : forall size, 0 < size -> forall c x c', fx_next size c x = (c', None) -> fx_next size c' None = (c', None).
Proof.
  intros size Hs c x c' H. unfold fx_next in *.
  destruct (Nat.leb size (length match x with Some ch => c ++ ch | None => c end)) eqn:E; [discriminate|].
  inversion H; subst. rewrite E. reflexivity.
Qed.

(* ... and for the copying StreamDataConsumer over ANY framer (Stream/Consumer.v: cnext) *)
Definition cnext_opt {P} (F : framer P) (c : cstate F) (x : option bytes) : cstate F * option (nres P) :=
  let '(c', r) := cnext F c x in (c', match r with RStop => None | _ => Some r end).

Lemma cnext_stop : forall P (F : framer P) c x c', cnext_opt F c x = (c', None) -> cnext_opt F c' None = (c', None).
Proof.
  intros P F c x c' H. unfold cnext_opt in *.
  destruct (cnext F c x) as [c2 r] eqn:E. destruct r; try discriminate. inversion H; subst c2. clear H.
  assert (Hb : cbuf c' = []).
  { unfold cnext in E.
    assert (Hfeed : forall d, cfeed F c d = (c', RStop) -> cbuf c' = []).
    { intros d Hd. unfold cfeed in Hd. destruct (ffeed F _ d); inversion Hd; reflexivity. }
    destruct x as [[|b0 ch]|].
    - destruct (cbuf c) eqn:Ec; [inversion E; subst; exact Ec | exact (Hfeed _ E)].
    - exact (Hfeed _ E).
    - destruct (cbuf c) eqn:Ec; [inversion E; subst; exact Ec | exact (Hfeed _ E)]. }
  unfold cnext. rewrite Hb. reflexivity.
Qed.

Lemma timeout_loses_nothing_copying_proof : forall P (F : framer P) bufsize tz c evs c1 e1 evs1,
  breceive (cnext_opt F) bufsize tz c false evs = (c1, e1, evs1, BTimedOut) ->
  exists consumed,
    evs = consumed ++ evs1 /\ e1 = false /\
    breceive (cnext_opt F) bufsize false c false (patient (bdata_of consumed) ++ evs1)
    = breceive (cnext_opt F) bufsize false c1 false evs1.
Proof. intros. eapply timeout_loses_nothing_proof; [apply cnext_stop | eassumption]. Qed.

(* ================= buffer-filling blocking receiver ================= *)
Section ProofsBuffered.
  Context {C R : Type}.
  Variable bdrain : C -> C * option R.
  Variable broom : C -> option (C * nat).
  Variable bfeedn : C -> bytes -> C * option R.
  (* [Dr c]: c is drained (its last next() raised StopIteration, no view exported); [Iv c]: a state a call may start in *)
  Variable Dr : C -> Prop.
  Variable Iv : C -> Prop.
  Hypothesis A0 : forall c c', Iv c -> bdrain c = (c', None) -> Dr c'.
  Hypothesis A1 : forall c, Dr c -> bdrain c = (c, None).
  Hypothesis A2 : forall c c1 room, Dr c -> broom c = Some (c1, room) ->
      exists c2, bdrain c1 = (c2, None) /\ Dr c2 /\ broom c2 = Some (c1, room).
  Hypothesis A3 : forall c c1 room d c', Dr c -> broom c = Some (c1, room) -> bfeedn c1 d = (c', None) -> Dr c'.

  Notation loopb := (bloopb broom bfeedn).

  (* the loop only looks at its consumer through get_write_buffer() *)
  Lemma bloopb_room_eq : forall evs tz c c' x, broom c = Some x -> broom c' = Some x ->
    loopb evs tz c false = loopb evs tz c' false.
  Proof.
    intros evs tz c c' [c1 room] H H'. destruct evs as [|e evs]; simpl; rewrite H, H'; reflexivity.
  Qed.

  Lemma bloopb_timeout : forall evs tz c c1 e1 evs1,
    Dr c -> loopb evs tz c false = (c1, e1, evs1, BTimedOut) ->
    exists consumed cd,
      evs = consumed ++ evs1 /\ e1 = false /\ Dr cd /\
      (c1 = cd \/ exists room, broom cd = Some (c1, room)) /\
      loopb (patient (bdata_of consumed) ++ evs1) false c false = loopb evs1 false cd false.
  Proof.
    induction evs as [|e evs IH]; intros tz c c1 e1 evs1 HD H; simpl in H.
    - destruct (broom c) as [[c0 room]|]; discriminate.
    - destruct (broom c) as [[c0 room]|] eqn:Hroom; [|discriminate].
      destruct e as [b x| |].
      + destruct (nilb b) eqn:Eb; [discriminate|].
        destruct (Nat.ltb room (length b)) eqn:Efit; [discriminate|].
        destruct (bfeedn c0 b) as [c' [r|]] eqn:En; [discriminate|].
        assert (HD' : Dr c') by (eapply A3; eassumption).
        assert (Hstep : forall rest, loopb (patient [b] ++ rest) false c false = loopb rest false c' false).
        { intro rest. simpl. rewrite Hroom, Eb, Efit, En. reflexivity. }
        assert (Hrec : forall tz', loopb evs tz' c' false = (c1, e1, evs1, BTimedOut) ->
                  exists consumed cd,
                    BData b x :: evs = consumed ++ evs1 /\ e1 = false /\ Dr cd /\
                    (c1 = cd \/ exists room, broom cd = Some (c1, room)) /\
                    loopb (patient (bdata_of consumed) ++ evs1) false c false = loopb evs1 false cd false).
        { intros tz' H'. destruct (IH tz' c' c1 e1 evs1 HD' H') as (consumed & cd & E1 & E2 & E3 & E4 & E5).
          exists (BData b x :: consumed), cd. split; [rewrite E1; reflexivity|]. repeat (split; [assumption|]).
          change (bdata_of (BData b x :: consumed)) with (b :: bdata_of consumed).
          change (patient (b :: bdata_of consumed) ++ evs1) with (patient [b] ++ (patient (bdata_of consumed) ++ evs1)).
          rewrite Hstep. exact E5. }
        destruct tz.
        * destruct (Nat.ltb (length b) room).
          -- inversion H; subst. exists [BData b x], c1. split; [reflexivity|]. split; [reflexivity|].
             split; [exact HD'|]. split; [left; reflexivity|]. change (bdata_of [BData b x]) with [b]. apply Hstep.
          -- apply (Hrec true). exact H.
        * apply (Hrec x). exact H.
      + discriminate.
      + inversion H; subst. exists [BTimeout], c. split; [reflexivity|]. split; [reflexivity|]. split; [exact HD|].
        split; [right; exists room; exact Hroom | reflexivity].
  Qed.

  Lemma timeout_loses_nothing_buffered_proof : forall tz c evs c1 e1 evs1,
    Iv c ->
    breceiveb bdrain broom bfeedn tz c false evs = (c1, e1, evs1, BTimedOut) ->
    exists consumed,
      evs = consumed ++ evs1 /\ e1 = false /\
      breceiveb bdrain broom bfeedn false c false (patient (bdata_of consumed) ++ evs1)
      = breceiveb bdrain broom bfeedn false c1 false evs1.
  Proof.
    intros tz c evs c1 e1 evs1 HI H. unfold breceiveb in *.
    destruct (bdrain c) as [c0 [r|]] eqn:En; [discriminate|].
    assert (HD0 : Dr c0) by (eapply A0; eassumption).
    destruct (bloopb_timeout _ _ _ _ _ _ HD0 H) as (consumed & cd & E1 & E2 & HDd & Hc1 & E5).
    exists consumed. split; [exact E1|]. split; [exact E2|].
    rewrite E5. destruct Hc1 as [-> | (room & Hroom)].
    - rewrite (A1 _ HDd). reflexivity.
    - destruct (A2 _ _ _ HDd Hroom) as (c2 & Hd2 & HD2 & Hr2). rewrite Hd2.
      symmetry. eapply bloopb_room_eq; eassumption.
  Qed.
End ProofsBuffered.

(* BufferedStreamDataConsumer satisfies the four hypotheses, for every buffered framer:
   Dr = nothing pending, no exported view;  Iv = a consumer without a running generator has nothing pending either *)
Definition buf_Dr {P} {F : bframer P} (c : bcstate F) : Prop := balready c = 0 /\ bexported c = None.
Definition buf_Iv {P} {F : bframer P} (c : bcstate F) : Prop := bcons c = None -> balready c = 0 /\ bexported c = None.

Lemma buf_A0 : forall P (F : bframer P) h c c', buf_Iv c -> bufc_drain F h c = (c', None) -> buf_Dr c'.
Proof.
  intros P F h c c' HI H. unfold bufc_drain, bcnext in H. simpl in H.
  destruct (bcons c) as [st|] eqn:Ec.
  - destruct (balready c =? 0).
    + inversion H; subst. split; reflexivity.
    + destruct (bfeed F st _ _); simpl in H; try discriminate.
      inversion H; subst. split; reflexivity.
  - inversion H; subst. exact (HI Ec).
Qed.

Lemma buf_A1 : forall P (F : bframer P) h c, buf_Dr c -> bufc_drain F h c = (c, None).
Proof.
  intros P F h c (Hal & Hex). unfold bufc_drain, bcnext. simpl.
  destruct c as [m st al ex co]. simpl in *. subst al ex.
  destruct co; reflexivity.
Qed.

Lemma buf_A2 : forall P (F : bframer P) h c c1 room, buf_Dr c -> bufc_room F h c = Some (c1, room) ->
  exists c2, bufc_drain F h c1 = (c2, None) /\ buf_Dr c2 /\ bufc_room F h c2 = Some (c1, room).
Proof.
  intros P F h c c1 room (Hal & Hex) Hroom.
  unfold bufc_room, bc_get_write_buffer in Hroom. rewrite Hex in Hroom.
  destruct c as [m st al ex co]. simpl in *. subst al ex.
  set (mem := match m with Some m0 => m0 | None => repeat 0%N (balloc F h) end) in *.
  destruct (match co with Some s => (s, st) | None => binit F end) as [cons0 start] eqn:Ecs.
  rewrite Nat.add_0_r in Hroom.
  destruct (Nat.eqb (length mem - start) 0) eqn:Elen; [discriminate|].
  inversion Hroom; subst c1 room. clear Hroom.
  eexists. split; [|split].
  - unfold bufc_drain, bcnext. simpl. reflexivity.
  - split; reflexivity.
  - unfold bufc_room, bc_get_write_buffer. simpl. rewrite Nat.add_0_r, Elen. reflexivity.
Qed.

Lemma buf_A3 : forall P (F : bframer P) h c c1 room d c',
  buf_Dr c -> bufc_room F h c = Some (c1, room) -> bufc_feed F h c1 d = (c', None) -> buf_Dr c'.
Proof.
  intros P F h c c1 room d c' (Hal & Hex) Hroom H.
  unfold bufc_room, bc_get_write_buffer in Hroom. rewrite Hex in Hroom.
  destruct c as [m st al ex co]. simpl in *. subst al ex.
  set (mem := match m with Some m0 => m0 | None => repeat 0%N (balloc F h) end) in *.
  destruct (match co with Some s => (s, st) | None => binit F end) as [cons0 start] eqn:Ecs.
  rewrite Nat.add_0_r in Hroom.
  destruct (Nat.eqb (length mem - start) 0) eqn:Elen; [discriminate|].
  inversion Hroom; subst c1 room. clear Hroom.
  unfold bufc_feed, bcnext, bc_fill in H. simpl in H.
  destruct (Nat.ltb (length mem - start) (length d)); [simpl in H; discriminate|].
  destruct (length d + 0 =? 0).
  - inversion H; subst. split; reflexivity.
  - destruct (bfeed F cons0 _ _); simpl in H; try discriminate.
    inversion H; subst. split; reflexivity.
Qed.

Lemma timeout_loses_nothing_buffered_consumer_proof :
  forall P (F : bframer P) h tz (c : bcstate F) evs c1 e1 evs1,
    buf_Iv c ->
    breceiveb (bufc_drain F h) (bufc_room F h) (bufc_feed F h) tz c false evs = (c1, e1, evs1, BTimedOut) ->
    exists consumed,
      evs = consumed ++ evs1 /\ e1 = false /\
      breceiveb (bufc_drain F h) (bufc_room F h) (bufc_feed F h) false c false (patient (bdata_of consumed) ++ evs1)
      = breceiveb (bufc_drain F h) (bufc_room F h) (bufc_feed F h) false c1 false evs1.
Proof.
  intros P F h tz c evs c1 e1 evs1 HI H.
  eapply (timeout_loses_nothing_buffered_proof (bufc_drain F h) (bufc_room F h) (bufc_feed F h) buf_Dr buf_Iv).
  - intros; eapply buf_A0; eassumption.
  - intros; apply buf_A1; assumption.
  - intros; eapply buf_A2; eassumption.
  - intros; eapply buf_A3; eassumption.
  - exact HI.
  - exact H.
Qed.
