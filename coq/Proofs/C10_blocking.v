(* Blocking half of C10: a TimeoutError out of a blocking receive loses nothing.
   Every chunk the timed-out call took from the transport was handed to the consumer, in order, the consumer object is
   kept, and what later calls return is what they would have returned had the timed-out call never been made and had
   the transport kept those chunks for a later, patient call. *)
From Coq Require Import List Bool Arith Lia.
From EN Require Import Lib.Bytes Conc.BlockRecv Frame.Framer Stream.Consumer.
Import ListNotations.

Section Proofs.
  Context {C R : Type}.
  Variable next : C -> option bytes -> C * option R.
  Variable bufsize : nat.
  (* after a StopIteration, next(None) is a no-op that raises StopIteration again *)
  Hypothesis Hstop : forall c x c', next c x = (c', None) -> next c' None = (c', None).

  Lemma bloop_timeout : forall evs tz c c1 e1 evs1,
    bloop next bufsize evs tz c false = (c1, e1, evs1, BTimedOut) ->
    exists consumed,
      evs = consumed ++ evs1 /\ e1 = false /\
      (c1 = c \/ next c1 None = (c1, None)) /\
      bloop next bufsize (patient (bdata_of consumed) ++ evs1) false c false = bloop next bufsize evs1 false c1 false.
  Proof.
    induction evs as [|e evs IH]; intros tz c c1 e1 evs1 H; simpl in H.
    - discriminate.
    - destruct e as [b x| |].
      + destruct (nilb b) eqn:Eb; [discriminate|].
        destruct (next c (Some b)) as [c' [r|]] eqn:En; [discriminate|].
        assert (Hstep : forall rest, bloop next bufsize (patient [b] ++ rest) false c false
                                     = bloop next bufsize rest false c' false).
        { intro rest. simpl. rewrite Eb, En. reflexivity. }
        assert (Hrec : forall tz', bloop next bufsize evs tz' c' false = (c1, e1, evs1, BTimedOut) ->
                  exists consumed,
                    BData b x :: evs = consumed ++ evs1 /\ e1 = false /\
                    (c1 = c \/ next c1 None = (c1, None)) /\
                    bloop next bufsize (patient (bdata_of consumed) ++ evs1) false c false
                    = bloop next bufsize evs1 false c1 false).
        { intros tz' H'. destruct (IH tz' c' c1 e1 evs1 H') as (consumed & E1 & E2 & E3 & E4).
          exists (BData b x :: consumed). split; [rewrite E1; reflexivity|]. split; [exact E2|]. split.
          - right. destruct E3 as [E3|E3]; [subst c1; exact (Hstop _ _ _ En) | exact E3].
          - change (bdata_of (BData b x :: consumed)) with (b :: bdata_of consumed).
            change (patient (b :: bdata_of consumed) ++ evs1)
              with (patient [b] ++ (patient (bdata_of consumed) ++ evs1)).
            rewrite Hstep. exact E4. }
        destruct tz.
        * destruct (Nat.ltb (length b) bufsize).
          -- inversion H; subst. exists [BData b x]. split; [reflexivity|]. split; [reflexivity|]. split.
             ++ right. exact (Hstop _ _ _ En).
             ++ change (bdata_of [BData b x]) with [b]. apply Hstep.
          -- apply (Hrec true). exact H.
        * apply (Hrec x). exact H.
      + discriminate.
      + inversion H; subst. exists [BTimeout]. split; [reflexivity|]. split; [reflexivity|]. split; [left; reflexivity|].
        reflexivity.
  Qed.

  Lemma timeout_loses_nothing_proof : forall tz c evs c1 e1 evs1,
    breceive next bufsize tz c false evs = (c1, e1, evs1, BTimedOut) ->
    exists consumed,
      evs = consumed ++ evs1 /\ e1 = false /\
      breceive next bufsize false c false (patient (bdata_of consumed) ++ evs1)
      = breceive next bufsize false c1 false evs1.
  Proof.
    intros tz c evs c1 e1 evs1 H. unfold breceive in *.
    destruct (next c None) as [c0 [r|]] eqn:En; [discriminate|].
    destruct (bloop_timeout _ _ _ _ _ _ H) as (consumed & E1 & E2 & E3 & E4).
    exists consumed. split; [exact E1|]. split; [exact E2|].
    assert (Hs : next c1 None = (c1, None)).
    { destruct E3 as [E3|E3]; [subst c1; exact (Hstop _ _ _ En) | exact E3]. }
    rewrite Hs. exact E4.
  Qed.
End Proofs.

(* the hypothesis holds for the fixed-size consumer used in the correspondence run ... *)
Lemma fx_next_stop : forall size, 0 < size -> forall c x c', fx_next size c x = (c', None) -> fx_next size c' None = (c', None).
Proof.
  intros size Hs c x c' H. unfold fx_next in *.
  destruct (Nat.leb size (length match x with Some ch => c ++ ch | None => c end)) eqn:E; [discriminate|].
  inversion H; subst. rewrite E. reflexivity.
Qed.

(* ... and for the copying StreamDataConsumer over ANY framer (Stream/Consumer.v: cnext) *)
Definition cnext_opt {P} (F : framer P) (c : cstate F) (x : option bytes) : cstate F * option (nres P) :=
  let '(c', r) := cnext F c x in (c', match r with RStop => None | _ => Some r end).

Lemma cnext_stop : forall P (F : framer P) c x c', cnext_opt F c x = (c', None) -> cnext_opt F c' None = (c', None).
Proof.
  intros P F c x c' H. unfold cnext_opt in *.
  destruct (cnext F c x) as [c2 r] eqn:E. destruct r; try discriminate. inversion H; subst c2. clear H.
  assert (Hb : cbuf c' = []).
  { unfold cnext in E.
    assert (Hfeed : forall d, cfeed F c d = (c', RStop) -> cbuf c' = []).
    { intros d Hd. unfold cfeed in Hd. destruct (ffeed F _ d); inversion Hd; reflexivity. }
    destruct x as [[|b0 ch]|].
    - destruct (cbuf c) eqn:Ec; [inversion E; subst; exact Ec | exact (Hfeed _ E)].
    - exact (Hfeed _ E).
    - destruct (cbuf c) eqn:Ec; [inversion E; subst; exact Ec | exact (Hfeed _ E)]. }
  unfold cnext. rewrite Hb. reflexivity.
Qed.

Lemma timeout_loses_nothing_copying_proof : forall P (F : framer P) bufsize tz c evs c1 e1 evs1,
  breceive (cnext_opt F) bufsize tz c false evs = (c1, e1, evs1, BTimedOut) ->
  exists consumed,
    evs = consumed ++ evs1 /\ e1 = false /\
    breceive (cnext_opt F) bufsize false c false (patient (bdata_of consumed) ++ evs1)
    = breceive (cnext_opt F) bufsize false c1 false evs1.
Proof. intros. eapply timeout_loses_nothing_proof; [apply cnext_stop | eassumption]. Qed.
