(* C03, blocking TCP client: the receive lock serialises concurrent recv_packet calls (Conc/RecvLock.v). *)
From Coq Require Import List Arith Bool Lia.
From EN Require Import Lib.Bytes Frame.Framer Stream.Consumer Stream.Endpoint Stream.EndpointSpec Conc.RecvLock
  Proofs.C03_proofs.
Import ListNotations.

Section Lock.
  Context {P C : Type}.
  Variable M : machine P C.
  Variable c0 : C.
  Variable o0 : oracle.
  (* [Good c o]: "the loop makes progress from consumer state c with transport o".  It has to hold whenever the loop is
     entered in the serial run and to be preserved (with a strictly smaller transport) by an iteration that continues. *)
  Variable Good : C -> oracle -> Prop.
  Hypothesis Hgood_step : forall c o c' o', Good c o -> rstep_none M c o = RCont c' o' ->
      Good c' o' /\ oracle_size o' < oracle_size o.
  Hypothesis Hgood_enter : forall k rs stk ok c1,
      run_calls M Blocking (linit c0) o0 (repeat None k) = (rs, stk, ok) ->
      mdrain M (lc stk) = (c1, RStop) -> leof stk = false -> Good c1 ok.

  (* ---- the while loop as iterated single steps *)
  Inductive rloop_rel : C -> oracle -> C * bool * oracle * rres P -> Prop :=
  | rl_done c o c' e o' r : rstep_none M c o = RDone c' e o' r -> rloop_rel c o (c', e, o', r)
  | rl_cont c o c1 o1 res : rstep_none M c o = RCont c1 o1 -> rloop_rel c1 o1 res -> rloop_rel c o res.

  Inductive rcont_star : C -> oracle -> C -> oracle -> Prop :=
  | rs_refl c o : rcont_star c o c o
  | rs_step c o c1 o1 c2 o2 : rcont_star c o c1 o1 -> rstep_none M c1 o1 = RCont c2 o2 -> rcont_star c o c2 o2.

  Lemma rloop_rel_det : forall c o r1, rloop_rel c o r1 -> forall r2, rloop_rel c o r2 -> r1 = r2.
  Proof.
    induction 1; intros r2 H2; inversion H2; subst; try congruence.
    apply IHrloop_rel. congruence.
  Qed.

  Lemma star_done : forall c o c1 o1, rcont_star c o c1 o1 ->
      forall res, rloop_rel c1 o1 res -> rloop_rel c o res.
  Proof.
    induction 1; intros res H1; [exact H1|]. apply IHrcont_star. eapply rl_cont; eauto.
  Qed.

  Lemma rest_size : forall (ch : bytes) n dt dt' o', 1 <= n ->
      oracle_size (if Nat.ltb n (length ch) then TData (skipn n ch) dt :: o' else o') < oracle_size (TData ch dt' :: o').
  Proof.
    intros ch n dt dt' o' Hn. destruct (Nat.ltb n (length ch)) eqn:E.
    - apply Nat.ltb_lt in E. simpl. rewrite skipn_length. lia.
    - simpl. lia.
  Qed.

  (* the fuelled loop of Stream/Endpoint.v computes the relation *)
  Lemma rloop_is_rel : forall f c o el, Good c o -> oracle_size o < f ->
      exists res el', rloop M Blocking f None c o el = (res, el') /\ rloop_rel c o res.
  Proof.
    induction f; intros c o el HG Hf; [lia|].
    cbn [rloop]. destruct o as [|it o1].
    - eexists _, _. split; [reflexivity|]. apply rl_done. reflexivity.
    - destruct it as [ch dt| | |k].
      + destruct ch as [|b ch].
        * eexists _, _. split; [reflexivity|]. apply rl_done. reflexivity.
        * destruct (mtake M c (b :: ch)) as [[[[c1 r1] n] room]|] eqn:Et.
          2:{ eexists _, _. split; [reflexivity|]. apply rl_done. cbn [rstep_none]. rewrite Et. reflexivity. }
          set (o2 := if Nat.ltb n (length (b :: ch)) then TData (skipn n (b :: ch)) 0 :: o1 else o1) in *.
          destruct r1.
          -- eexists _, _. split; [reflexivity|]. apply rl_done. cbn [rstep_none]. rewrite Et. reflexivity.
          -- eexists _, _. split; [reflexivity|]. apply rl_done. cbn [rstep_none]. rewrite Et. reflexivity.
          -- assert (Es : rstep_none M c (TData (b :: ch) dt :: o1) = RCont c1 o2)
               by (cbn [rstep_none]; rewrite Et; reflexivity).
             destruct (Hgood_step _ _ _ _ HG Es) as [HG2 Hsz].
             edestruct IHf as (res & el' & E & Hr); [exact HG2| |rewrite E; eexists _, _; split; [reflexivity|]].
             ++ eapply Nat.lt_le_trans; [exact Hsz|apply (proj1 (Nat.lt_succ_r _ _)); exact Hf].
             ++ eapply rl_cont; [exact Es|exact Hr].
          -- eexists _, _. split; [reflexivity|]. apply rl_done. cbn [rstep_none]. rewrite Et. reflexivity.
      + eexists _, _. split; [reflexivity|]. apply rl_done. reflexivity.
      + destruct (Hgood_step c (TWouldTimeout :: o1) c o1 HG eq_refl) as [HG2 Hsz].
        edestruct IHf as (res & el' & E & Hr); [exact HG2| |rewrite E; eexists _, _; split; [reflexivity|]].
        * simpl in Hf. lia.
        * eapply rl_cont; [|exact Hr]. reflexivity.
      + eexists _, _. split; [reflexivity|]. apply rl_done. reflexivity.
  Qed.

  (* a blocking call without timeout, cut at its two phases *)
  Lemma receive_event : forall st o c' r, mdrain M (lc st) = (c', r) -> r <> RStop ->
      exists el, receive M Blocking None st o = ({| lc := c'; leof := leof st |}, o, of_nres r, el).
  Proof. intros st o c' r E Hr. unfold receive. rewrite E. destruct r; try congruence; eexists; reflexivity. Qed.

  Lemma receive_latched : forall st o c', mdrain M (lc st) = (c', RStop) -> leof st = true ->
      exists el, receive M Blocking None st o = ({| lc := c'; leof := true |}, o, RecvAborted, el).
  Proof. intros st o c' E He. unfold receive. rewrite E, He. eexists; reflexivity. Qed.

  Lemma receive_loop : forall st o c1 c' e' o' r, mdrain M (lc st) = (c1, RStop) -> leof st = false ->
      Good c1 o -> rloop_rel c1 o (c', e', o', r) ->
      exists el, receive M Blocking None st o = ({| lc := c'; leof := e' |}, o', r, el).
  Proof.
    intros st o c1 c' e' o' r E He HG Hr. unfold receive. rewrite E, He.
    destruct (rloop_is_rel (S (oracle_size o)) c1 o 0 HG (Nat.lt_succ_diag_r _)) as (res & el' & E2 & Hr2).
    rewrite E2. rewrite (rloop_rel_det _ _ _ Hr2 _ Hr). eexists; reflexivity.
  Qed.

  Lemma run_calls_snoc : forall k st0 oo rs stk ok st' o' r el,
      run_calls M Blocking st0 oo (repeat None k) = (rs, stk, ok) ->
      receive M Blocking None stk ok = (st', o', r, el) ->
      run_calls M Blocking st0 oo (repeat None (S k)) = (rs ++ [(r, o')], st', o').
  Proof.
    intros k st0 oo rs stk ok st' o' r el H1 H2.
    replace (S k) with (k + 1) by lia. rewrite repeat_app, (run_calls_app M Blocking), H1.
    cbn [repeat run_calls]. rewrite H2. reflexivity.
  Qed.

  (* ---- the invariant *)
  Variables na nb : nat.

  Definition inflight (p : tpc) : nat := match p with TIdle n => n | TBlocked n => S n | TParked n => S n end.
  Definition is_idle (p : tpc) : Prop := exists n, p = TIdle n.
  Definition not_parked (p : tpc) : Prop := forall n, p <> TParked n.

  Definition serial (s : @tstate P C) : Prop :=
    exists rs stk ok,
      run_calls M Blocking (linit c0) o0 (repeat None (length (t_log s))) = (rs, stk, ok) /\
      map fst rs = map snd (rev (t_log s)) /\
      match t_lock s with
      | None => t_c s = lc stk /\ t_eof s = leof stk /\ t_o s = ok /\ is_idle (t_a s) /\ is_idle (t_b s)
      | Some i => (exists n, tget s i = TParked n) /\ not_parked (tget s (negb i)) /\
                  t_eof s = false /\ leof stk = false /\
                  exists c1, mdrain M (lc stk) = (c1, RStop) /\ Good c1 ok /\ rcont_star c1 ok (t_c s) (t_o s)
      end.

  Definition Inv (s : @tstate P C) : Prop :=
    serial s /\ length (t_log s) + inflight (t_a s) + inflight (t_b s) = na + nb.

  Lemma map_snd_rev_cons : forall (l : list (bool * rres P)) i r rs,
      map fst rs = map snd (rev l) -> map fst (rs ++ [(r, (@nil titem))]) = map snd (rev ((i, r) :: l)).
  Proof. intros. cbn [rev]. rewrite !map_app, H. reflexivity. Qed.

  (* thread j takes the free lock (fresh start or wake-up); [p_other] is the other thread's status, kept *)
  Lemma enter_inv : forall s j n,
      t_lock s = None ->
      (exists rs stk ok,
          run_calls M Blocking (linit c0) o0 (repeat None (length (t_log s))) = (rs, stk, ok) /\
          map fst rs = map snd (rev (t_log s)) /\ t_c s = lc stk /\ t_eof s = leof stk /\ t_o s = ok) ->
      is_idle (tget s (negb j)) ->
      length (t_log s) + S n + inflight (tget s (negb j)) = na + nb ->
      Inv (fst (tenter_body M (tlock s (Some j)) j n)).
  Proof.
    intros s j n Hl (rs & stk & ok & Hrun & Hmap & Hc & He & Ho) [m Hoth] Hcnt.
    unfold tenter_body. cbn [tlock t_c t_eof t_o].
    destruct (mdrain M (t_c s)) as [c' r] eqn:Ed. rewrite Hc in Ed.
    assert (Hret : forall res el, receive M Blocking None stk ok = ({| lc := c'; leof := t_eof s |}, ok, res, el) ->
              Inv (tset (tlogr (tlock (tshared (tlock s (Some j)) c' (t_eof s) (t_o s)) None) j res) j (TIdle n))).
    { intros res el Hrecv. split.
      - exists (rs ++ [(res, ok)]), {| lc := c'; leof := t_eof s |}, ok.
        split; [cbn; exact (run_calls_snoc _ _ _ _ _ _ _ _ _ _ Hrun Hrecv)|].
        split; [destruct j; cbn; rewrite !map_app, Hmap; reflexivity|].
        destruct j; cbn in *; rewrite Hoth; repeat split; auto; eexists; reflexivity.
      - destruct j; cbn in *; rewrite Hoth in *; cbn in *; lia. }
    destruct r as [p|e| |].
    - destruct (receive_event stk ok c' (RPkt p) Ed ltac:(discriminate)) as [el Hr]. rewrite <- He in Hr.
      cbn [fst]. eapply Hret. exact Hr.
    - destruct (receive_event stk ok c' (RErr e) Ed ltac:(discriminate)) as [el Hr]. rewrite <- He in Hr.
      cbn [fst]. eapply Hret. exact Hr.
    - destruct (t_eof s) eqn:Eeof.
      + destruct (receive_latched stk ok c' Ed ltac:(congruence)) as [el Hr].
        cbn [fst]. eapply Hret. exact Hr.
      + cbn [fst]. split.
        * exists rs, stk, ok. split; [destruct j; cbn; exact Hrun|]. split; [destruct j; cbn; exact Hmap|].
          destruct j; cbn in *; rewrite Hoth;
            (split; [eexists; reflexivity|]); (split; [intros x; discriminate|]);
            (split; [reflexivity|]); (split; [congruence|]);
            exists c'; (split; [exact Ed|]); (split; [eapply Hgood_enter; eauto; congruence|]); rewrite Ho; constructor.
        * destruct j; cbn in *; rewrite Hoth in *; cbn in *; lia.
    - destruct (receive_event stk ok c' RCrash Ed ltac:(discriminate)) as [el Hr]. rewrite <- He in Hr.
      cbn [fst]. eapply Hret. exact Hr.
  Qed.

  Lemma tstep_inv : forall s i, Inv s -> Inv (tstep M s i).
  Proof.
    intros s i [Hser Hcnt]. unfold tstep.
    destruct (tget s i) as [[|n]|n|n] eqn:Ei.
    - split; assumption.
    - destruct (t_lock s) as [h|] eqn:El.
      + (* the lock is held: start waiting *)
        destruct Hser as (rs & stk & ok & Hrun & Hmap & Hlock). rewrite El in Hlock.
        destruct Hlock as ((np & Hp) & Hnp & Hrest).
        assert (Hneq : h = negb i).
        { destruct h, i; cbn in *; try reflexivity; congruence. }
        subst h. split.
        * exists rs, stk, ok. split; [destruct i; cbn; exact Hrun|]. split; [destruct i; cbn; exact Hmap|].
          destruct i; cbn in *; rewrite El; cbn in *;
            (split; [eexists; exact Hp|]); (split; [intros x; discriminate|]); exact Hrest.
        * destruct i; cbn in *; rewrite Ei in Hcnt; cbn in *; lia.
      + destruct Hser as (rs & stk & ok & Hrun & Hmap & Hlock). rewrite El in Hlock.
        destruct Hlock as (Hc & He & Ho & Ha & Hb).
        apply enter_inv; auto.
        * exists rs, stk, ok. auto.
        * destruct i; cbn; assumption.
        * destruct i; cbn in *; rewrite Ei in Hcnt; cbn in *; lia.
    - split; assumption.
    - (* parked: the holder's transport call is served *)
      destruct Hser as (rs & stk & ok & Hrun & Hmap & Hlock).
      destruct (t_lock s) as [h|] eqn:El.
      2:{ destruct Hlock as (_ & _ & _ & [x Ha] & [y Hb]). destruct i; cbn in Ei; congruence. }
      destruct Hlock as ((np & Hp) & Hnp & Heof & Hleof & c1 & Hd & HGd & Hstar).
      assert (h = i).
      { destruct h, i; cbn in *; try reflexivity; exfalso; eapply Hnp; eauto. }
      subst h.
      destruct (rstep_none M (t_c s) (t_o s)) as [c' e' o' r|c' o'] eqn:Es.
      + (* the call returns: release, wake the other thread if it waits *)
        pose proof (star_done _ _ _ _ Hstar _ (rl_done _ _ _ _ _ _ Es)) as Hrel.
        destruct (receive_loop stk ok c1 c' e' o' r Hd Hleof HGd Hrel) as [el Hrecv].
        set (s1 := tset (tlogr (tlock (tshared s c' e' o') None) i r) i (TIdle n)).
        assert (Hs1 : exists rs1 stk1 ok1,
                   run_calls M Blocking (linit c0) o0 (repeat None (length (t_log s1))) = (rs1, stk1, ok1) /\
                   map fst rs1 = map snd (rev (t_log s1)) /\ t_c s1 = lc stk1 /\ t_eof s1 = leof stk1 /\ t_o s1 = ok1).
        { exists (rs ++ [(r, o')]), {| lc := c'; leof := e' |}, o'.
          split; [destruct i; cbn; exact (run_calls_snoc _ _ _ _ _ _ _ _ _ _ Hrun Hrecv)|].
          split; [destruct i; cbn; rewrite !map_app, Hmap; reflexivity|].
          destruct i; cbn; auto. }
        assert (Hl1 : t_lock s1 = None) by (destruct i; reflexivity).
        assert (Hoth1 : tget s1 (negb i) = tget s (negb i)) by (destruct i; reflexivity).
        assert (Hme1 : tget s1 i = TIdle n) by (destruct i; reflexivity).
        assert (Hlog1 : length (t_log s1) = S (length (t_log s))) by (destruct i; reflexivity).
        unfold twake. fold s1. rewrite Hoth1.
        destruct (tget s (negb i)) as [m|m|m] eqn:Eo.
        * (* nobody waits *)
          split.
          -- destruct Hs1 as (rs1 & stk1 & ok1 & H1 & H2 & H3 & H4 & H5).
             exists rs1, stk1, ok1. split; [exact H1|]. split; [exact H2|]. rewrite Hl1.
             repeat split; auto; destruct i; cbn in *; eauto; eexists; eauto.
          -- rewrite Hlog1. destruct i; cbn in *; rewrite ?Ei, ?Eo in *; cbn in *; lia.
        * (* the waiting thread takes the lock *)
          apply enter_inv; auto.
          -- rewrite Bool.negb_involutive, Hme1. eexists; reflexivity.
          -- rewrite Bool.negb_involutive, Hme1, Hlog1. destruct i; cbn in *; rewrite ?Ei, ?Eo in *; cbn in *; lia.
        * exfalso. eapply Hnp; reflexivity.
      + (* still no complete packet: parked again in the next transport call *)
        split.
        * exists rs, stk, ok. split; [exact Hrun|]. split; [exact Hmap|]. cbn. rewrite El.
          split; [destruct i; cbn in *; eexists; eauto|]. split; [destruct i; cbn in *; exact Hnp|].
          split; [reflexivity|]. split; [exact Hleof|].
          exists c1. split; [exact Hd|]. split; [exact HGd|]. eapply rs_step; eauto.
        * cbn. exact Hcnt.
  Qed.

  Lemma trun_inv : forall sch s, Inv s -> Inv (trun M s sch).
  Proof. induction sch; intros s H; cbn; [exact H|]. apply IHsch. apply tstep_inv. exact H. Qed.

  Lemma tinit_inv : Inv (tinit c0 o0 na nb).
  Proof.
    split; [|cbn; lia]. exists [], (linit c0), o0. cbn. repeat split; eexists; reflexivity.
  Qed.

  Lemma run_calls_prefix : forall k n st o rs st' o',
      run_calls M Blocking st o (repeat None k) = (rs, st', o') ->
      map fst rs = firstn k (results (run_calls M Blocking st o (repeat None (k + n)))).
  Proof.
    intros k n st o rs st' o' H. rewrite repeat_app, (run_calls_app M Blocking), H.
    destruct (run_calls M Blocking st' o' (repeat None n)) as [[rs2 st2] o2].
    unfold results. cbn [fst]. rewrite map_app.
    assert (Hl : length (map fst rs) = k).
    { rewrite map_length. clear -H. revert st o rs st' o' H. induction k; intros st o rs st' o' H; cbn in H.
      - inversion H; reflexivity.
      - destruct (receive M Blocking None st o) as [[[s1 o1] r1] e1].
        destruct (run_calls M Blocking s1 o1 (repeat None k)) as [[rs1 s2] o2] eqn:E. inversion H; subst.
        cbn. f_equal. eapply IHk; eauto. }
    rewrite firstn_app, Hl, Nat.sub_diag, firstn_O, app_nil_r. rewrite <- Hl at 1. symmetry. apply firstn_all.
  Qed.

  (* the returned calls, in the order they returned, are the results of the same number of calls made one after the
     other by a single thread *)
  Theorem lock_serialises : forall sch,
      let s := trun M (tinit c0 o0 na nb) sch in
      map snd (rev (t_log s)) =
      firstn (length (t_log s)) (results (run_calls M Blocking (linit c0) o0 (repeat None (na + nb)))).
  Proof.
    intros sch s. destruct (trun_inv sch _ tinit_inv) as [(rs & stk & ok & Hrun & Hmap & _) Hcnt]. fold s in Hrun, Hmap, Hcnt.
    rewrite <- Hmap.
    replace (na + nb) with (length (t_log s) + (inflight (t_a s) + inflight (t_b s))) by lia.
    eapply run_calls_prefix; eauto.
  Qed.

  (* at most one thread is inside the receive at any time, and it holds the lock *)
  Theorem lock_mutex : forall sch,
      let s := trun M (tinit c0 o0 na nb) sch in
      forall i n, tget s i = TParked n -> t_lock s = Some i /\ not_parked (tget s (negb i)).
  Proof.
    intros sch s i n Hp. destruct (trun_inv sch _ tinit_inv) as [(rs & stk & ok & _ & _ & Hlock) _]. fold s in Hlock.
    destruct (t_lock s) as [h|].
    - destruct Hlock as ((np & Hh) & Hnp & _).
      assert (h = i) by (destruct h, i; cbn in *; try reflexivity; exfalso; eapply Hnp; eauto).
      subst h. auto.
    - destruct Hlock as (_ & _ & _ & [x Ha] & [y Hb]). destruct i; cbn in Hp; congruence.
  Qed.
  (* ---- the timed branch of lock_with_timeout: an extra recv_packet(timeout=0) that finds the lock held *)
  Lemma ttry_frame : forall (s : @tstate P C) i,
      t_a (ttry s i) = t_a s /\ t_b (ttry s i) = t_b s /\ t_lock (ttry s i) = t_lock s /\ t_c (ttry s i) = t_c s /\
      t_eof (ttry s i) = t_eof s /\ t_o (ttry s i) = t_o s /\ t_log (ttry s i) = t_log s.
  Proof. intros s i. unfold ttry. destruct (tget s i) as [n|n|n]; try (repeat split; reflexivity); destruct (t_lock s) eqn:E; repeat split; cbn; auto. Qed.

  Lemma ttry_inv : forall s i, Inv s -> Inv (ttry s i).
  Proof.
    intros s i H. destruct (ttry_frame s i) as (Ha & Hb & Hl & Hc & He & Ho & Hg).
    unfold Inv, serial, tget in *. rewrite Ha, Hb, Hl, Hc, He, Ho, Hg. exact H.
  Qed.

  Lemma trun_l_inv : forall sch s, Inv s -> Inv (trun_l M s sch).
  Proof.
    induction sch as [|l sch IH]; intros s H; cbn; [exact H|]. apply IH.
    destruct l; cbn; [apply tstep_inv|apply ttry_inv]; exact H.
  Qed.

  (* with such calls anywhere in the schedule, the sequence of the other calls is unchanged *)
  Theorem lock_serialises_l : forall sch,
      let s := trun_l M (tinit c0 o0 na nb) sch in
      map snd (rev (t_log s)) =
      firstn (length (t_log s)) (results (run_calls M Blocking (linit c0) o0 (repeat None (na + nb)))).
  Proof.
    intros sch s. destruct (trun_l_inv sch _ tinit_inv) as [(rs & stk & ok & Hrun & Hmap & _) Hcnt]. fold s in Hrun, Hmap, Hcnt.
    rewrite <- Hmap.
    replace (na + nb) with (length (t_log s) + (inflight (t_a s) + inflight (t_b s))) by lia.
    eapply run_calls_prefix; eauto.
  Qed.
End Lock.

Lemma filter_firstn_nth : forall {A} (f : A -> bool) k (l : list A) j r,
    nth_error (filter f (firstn k l)) j = Some r -> nth_error (filter f l) j = Some r.
Proof.
  intros A f k l j r H. rewrite <- (firstn_skipn k l) at 1. rewrite filter_app, nth_error_app1; [exact H|].
  apply nth_error_Some. congruence.
Qed.

Lemma copy_machine_progress : forall {P} (F : framer P) bufsize, 0 < bufsize ->
    forall c ch c' r n room, mtake (copy_machine F bufsize) c ch = Some (c', r, n, room) -> ch <> [] -> 1 <= n.
Proof.
  intros P F bufsize Hb c ch c' r n room H Hne. cbn [copy_machine mtake] in H.
  destruct (cnext F c (Some (firstn (Nat.min bufsize (length ch)) ch))) as [c1 r1]. inversion H; subst.
  destruct ch; [congruence|]. simpl. lia.
Qed.

(* ---- instance (a): a transport read takes at least one byte from ANY consumer state *)
Section LockProg.
  Context {P C : Type}.
  Variable M : machine P C.
  Hypothesis Hprog : forall c ch c' r n room, mtake M c ch = Some (c', r, n, room) -> ch <> [] -> 1 <= n.

  Lemma prog_step : forall c o c' o', True -> rstep_none M c o = RCont c' o' -> True /\ oracle_size o' < oracle_size o.
  Proof.
    intros c o c' o' _ H. split; [exact I|]. destruct o as [|it o1]; [discriminate|].
    destruct it as [ch dt| | |k]; try discriminate.
    - destruct ch as [|b ch]; [discriminate|]. cbn [rstep_none] in H.
      destruct (mtake M c (b :: ch)) as [[[[c1 r1] n] room]|] eqn:Et; [|discriminate].
      pose proof (Hprog _ _ _ _ _ _ Et ltac:(discriminate)) as Hn.
      destruct r1; try discriminate. inversion H; subst. exact (rest_size (b :: ch) n 0 dt o1 Hn).
    - inversion H; subst. simpl. lia.
  Qed.

  Lemma lock_serialises_prog : forall c0 o na nb sch,
      let s := trun M (tinit c0 o na nb) sch in
      map snd (rev (t_log s)) =
      firstn (length (t_log s)) (results (run_calls M Blocking (linit c0) o (repeat None (na + nb)))).
  Proof. intros c0 o na nb sch. apply (lock_serialises M c0 o (fun _ _ => True) prog_step). auto. Qed.

  Lemma lock_serialises_l_prog : forall c0 o na nb sch,
      let s := trun_l M (tinit c0 o na nb) sch in
      map snd (rev (t_log s)) =
      firstn (length (t_log s)) (results (run_calls M Blocking (linit c0) o (repeat None (na + nb)))).
  Proof. intros c0 o na nb sch. apply (lock_serialises_l M c0 o (fun _ _ => True) prog_step). auto. Qed.

  Lemma lock_mutex_prog : forall c0 o na nb sch,
      let s := trun M (tinit c0 o na nb) sch in
      forall i n, tget s i = TParked n -> t_lock s = Some i /\ (forall m, tget s (negb i) <> TParked m).
  Proof. intros c0 o na nb sch. apply (lock_mutex M c0 o (fun _ _ => True) prog_step). auto. Qed.
End LockProg.

(* ---- instance (b): progress on the states the loop actually reaches, from the (relativised) consumer interface *)
Section LockRel.
  Context {P C : Type}.
  Variable M : machine P C.
  Variable spec : bytes -> list (nres P).
  Variable G : bytes -> Prop.
  Variable R : C -> bytes -> nat -> Prop.
  Variable D : C -> bytes -> Prop.
  Hypothesis OK : consumer_ok_rel M spec G R D.
  Variable c0 : C.
  Hypothesis R0 : R c0 [] 0.

  Definition good_rel (c : C) (o : oracle) : Prop := exists d, D c d /\ G (d ++ stream_of o).

  Lemma rel_step : forall c o c' o', good_rel c o -> rstep_none M c o = RCont c' o' ->
      good_rel c' o' /\ oracle_size o' < oracle_size o.
  Proof.
    intros c o c' o' (d & HD & HG) H. destruct o as [|it o1]; [discriminate|].
    destruct it as [ch dt| | |k]; try discriminate.
    - destruct ch as [|b ch]; [discriminate|]. cbn [rstep_none] in H.
      assert (HG1 : G (d ++ b :: ch)).
      { apply (okr_prefix _ _ _ _ _ OK _ (stream_of o1)). rewrite <- app_assoc. exact HG. }
      destruct (okr_take _ _ _ _ _ OK c d (b :: ch) HD ltac:(discriminate) HG1) as (c1 & r1 & n & room & Et & Hn & Hpost).
      pose proof (take_rest (b :: ch) n 0 o1 Hn) as [Hs _]. cbv zeta in Hs.
      pose proof (rest_size (b :: ch) n 0 dt o1 (proj1 Hn)) as Hsz.
      rewrite Et in H.
      set (o2 := if Nat.ltb n (length (b :: ch)) then TData (skipn n (b :: ch)) 0 :: o1 else o1) in *.
      destruct r1; try discriminate. inversion H; subst c' o'. clear H.
      split; [|exact Hsz].
      exists (d ++ firstn n (b :: ch)). split; [apply Hpost|].
      rewrite <- app_assoc, Hs. exact HG.
    - inversion H; subst. split; [exists d; auto|simpl; lia].
  Qed.

  Lemma rel_enter : forall o, G (stream_of o) -> forall k rs stk ok c1,
      run_calls M Blocking (linit c0) o (repeat None k) = (rs, stk, ok) ->
      mdrain M (lc stk) = (c1, RStop) -> leof stk = false -> good_rel c1 ok.
  Proof.
    intros o HG k rs stk ok c1 Hrun Hd He.
    destruct (run_calls_inv M Blocking spec G R D OK _ HG _ _ _ _ _ _ _ (Inv_init spec R c0 o R0) Hrun)
      as (i & d & kk & HR & _ & _ & _ & Hs).
    rewrite He in Hs.
    assert (HGd : G d) by (apply (okr_prefix _ _ _ _ _ OK _ (stream_of ok)); rewrite Hs; exact HG).
    pose proof (okr_drain _ _ _ _ _ OK _ _ _ _ _ HGd HR Hd) as [_ HD].
    exists d. split; [exact HD|]. rewrite Hs. exact HG.
  Qed.

  Lemma lock_serialises_rel : forall o na nb sch, G (stream_of o) ->
      let s := trun M (tinit c0 o na nb) sch in
      map snd (rev (t_log s)) =
      firstn (length (t_log s)) (results (run_calls M Blocking (linit c0) o (repeat None (na + nb)))).
  Proof. intros o na nb sch HG. apply (lock_serialises M c0 o good_rel rel_step (rel_enter o HG)). Qed.

  Lemma lock_serialises_l_rel : forall o na nb sch, G (stream_of o) ->
      let s := trun_l M (tinit c0 o na nb) sch in
      map snd (rev (t_log s)) =
      firstn (length (t_log s)) (results (run_calls M Blocking (linit c0) o (repeat None (na + nb)))).
  Proof. intros o na nb sch HG. apply (lock_serialises_l M c0 o good_rel rel_step (rel_enter o HG)). Qed.

  Lemma lock_mutex_rel : forall o na nb sch, G (stream_of o) ->
      let s := trun M (tinit c0 o na nb) sch in
      forall i n, tget s i = TParked n -> t_lock s = Some i /\ (forall m, tget s (negb i) <> TParked m).
  Proof. intros o na nb sch HG. apply (lock_mutex M c0 o good_rel rel_step (rel_enter o HG)). Qed.

  (* two threads, any schedule: the calls, in the order they return, deliver the events of the stream in order, then
     ConnectionAborted *)
  Lemma threads_recv_sequence_rel : forall o na nb sch j r,
      G (stream_of o) ->
      nth_error (delivered (map snd (rev (t_log (trun M (tinit c0 o na nb) sch))))) j = Some r ->
      r = expected (spec (stream_of o)) j.
  Proof.
    intros o na nb sch j r HG H.
    rewrite (lock_serialises_rel o na nb sch HG) in H. unfold delivered in H. apply filter_firstn_nth in H.
    exact (recv_sequence_rel M Blocking spec G R D OK c0 R0 o (repeat None (na + nb)) j r HG H).
  Qed.
End LockRel.

Lemma threads_recv_sequence : forall {P C : Type} (M : machine P C),
    (forall c ch c' r n room, mtake M c ch = Some (c', r, n, room) -> ch <> [] -> 1 <= n) ->
    forall (spec : bytes -> list (nres P)) (R : C -> bytes -> nat -> Prop), consumer_ok M spec R ->
    forall c0, R c0 [] 0 ->
    forall o na nb sch j r,
      nth_error (delivered (map snd (rev (t_log (trun M (tinit c0 o na nb) sch))))) j = Some r ->
      r = expected (spec (stream_of o)) j.
Proof.
  intros P C M _ spec R OK c0 R0 o na nb sch j r H.
  exact (threads_recv_sequence_rel M spec _ R _ (consumer_ok_is_rel M spec R OK) c0 R0 o na nb sch j r I H).
Qed.

(* a recv_packet(timeout=0) that finds the receive lock held reports a timeout and touches nothing else: neither the
   lock, nor the endpoint (consumer, latch), nor the transport, nor the other thread, nor the record of returned calls *)
Lemma lock_timeout_untouched : forall {P C : Type} (s : @tstate P C) (i : bool),
    t_a (ttry s i) = t_a s /\ t_b (ttry s i) = t_b s /\ t_lock (ttry s i) = t_lock s /\ t_c (ttry s i) = t_c s /\
    t_eof (ttry s i) = t_eof s /\ t_o (ttry s i) = t_o s /\ t_log (ttry s i) = t_log s.
Proof. intros P C s i. unfold ttry. destruct (tget s i) as [n|n|n]; try (repeat split; reflexivity); destruct (t_lock s) eqn:E; repeat split; cbn; auto. Qed.
