(* C01 for framers that recognise a prefix code (raw JSON, file based, compressors): for every list of code words and
   every chunking of their concatenation the copying consumer delivers exactly one event per code word, in order, and
   ends idle with nothing left over.  The framer-specific part is reduced to two facts about one feed. *)
From Coq Require Import ZArith List Bool Lia Arith.
From EN Require Import Lib.Bytes Frame.Framer Frame.ErrSites Frame.Generic Stream.Consumer
  Proofs.Bytes_proofs Proofs.C06_progress Proofs.C07_extra.
Import ListNotations.

Lemma app_eq_prefix {X} (a b c d : list X) : a ++ b = c ++ d ->
  (exists r, a = c ++ r /\ d = r ++ b) \/ (exists q, q <> [] /\ c = a ++ q /\ b = q ++ d).
Proof.
  revert c. induction a as [|x a IH]; intros c H.
  - destruct c as [|y c]; [left; exists []; cbn in *; auto|].
    right. exists (y :: c). cbn in *. repeat split; [discriminate|assumption].
  - destruct c as [|y c].
    + left. exists (x :: a). cbn in *. auto.
    + cbn in H. inversion H; subst. destruct (IH c H2) as [[r [-> ->]]|[q [Hq [-> ->]]]].
      * left. exists r. auto.
      * right. exists q. auto.
Qed.

Section PrefixCode.
  Context {P : Type}.
  Variable F : framer P.
  Variable rep : fst_ F -> bytes -> Prop.      (* the suspended generator s has been given w since it started *)
  Variable doc : bytes -> Prop.                (* the code words *)
  Variable ev : bytes -> nres P.               (* the event a code word produces *)
  Variable fits : bytes -> Prop.               (* buffers the framer accepts for their size *)
  Variable head_ok : bytes -> Prop.            (* what may follow a code word in the same buffer *)

  Definition holds (s : fst_ F) (w : bytes) : Prop := (s = finit F /\ w = []) \/ rep s w.

  Hypothesis rep_ne : forall s w, rep s w -> w <> [].
  Hypothesis doc_ne : forall d, doc d -> d <> [].
  Hypothesis fits_suffix : forall a b, fits (a ++ b) -> fits b.
  Hypothesis head_nil : head_ok [].
  Hypothesis head_doc : forall d x, doc d -> head_ok (d ++ x).
  Hypothesis head_prefix : forall a b, a <> [] -> head_ok (a ++ b) -> head_ok a.

  (* one feed that leaves the code word unfinished / that completes it *)
  Hypothesis feed_need : forall s w (ch : bytes) d q, holds s w -> ch <> [] -> doc d -> d = (w ++ ch) ++ q -> q <> [] ->
    fits (w ++ ch) -> exists s', ffeed F s ch = Need s' /\ rep s' (w ++ ch).
  Hypothesis feed_done : forall s w (ch : bytes) d r, holds s w -> doc d -> w ++ ch = d ++ r -> length w < length d ->
    head_ok r -> fits (w ++ ch) ->
    (exists p, ffeed F s ch = Done p r /\ ev d = RPkt p) \/ (exists e, ffeed F s ch = Fail e r /\ ev d = RErr e).

  Definition cinv (c : cstate F) (w : bytes) : Prop :=
    cbuf c = [] /\ ((ccons c = None /\ w = []) \/ exists s, ccons c = Some s /\ rep s w).

  Definition idle (c : cstate F) : Prop := cbuf c = [] /\ ccons c = None.

  (* the pending bytes are a proper prefix of the next code word *)
  Definition pending_ok (w : bytes) (ds : list bytes) : Prop :=
    match ds with [] => w = [] | d :: _ => length w < length d end.

  Lemma head_of_stream (r tail : bytes) ds : Forall doc ds -> r ++ tail = concat ds -> head_ok r.
  Proof.
    intros Hd H. destruct r as [|b r]; [exact head_nil|].
    destruct ds as [|d ds]; [discriminate|]. inversion Hd; subst. cbn [concat] in H.
    apply (head_prefix (b :: r) tail); [discriminate|]. rewrite H. apply head_doc. assumption.
  Qed.

  (* feeding the buffer [w ++ ch] when the stream from there on is [concat ds] *)
  Lemma feed_cases s w (ch tail : bytes) d ds : holds s w -> ch <> [] -> Forall doc (d :: ds) ->
    (w ++ ch) ++ tail = concat (d :: ds) -> length w < length d -> fits (w ++ ch) ->
    (exists s', ffeed F s ch = Need s' /\ rep s' (w ++ ch) /\ length (w ++ ch) < length d) \/
    (exists r, w ++ ch = d ++ r /\ r ++ tail = concat ds /\
               ((exists p, ffeed F s ch = Done p r /\ ev d = RPkt p) \/ (exists e, ffeed F s ch = Fail e r /\ ev d = RErr e))).
  Proof.
    intros Hh Hch Hd Heq Hw Hf. inversion Hd as [|? ? Hdd Hds]; subst. cbn [concat] in Heq.
    destruct (app_eq_prefix _ _ _ _ Heq) as [[r [Hr Ht]]|[q [Hq [Hdq Ht]]]].
    - right. exists r. split; [exact Hr|]. split; [symmetry; exact Ht|].
      apply (feed_done s w ch d r Hh Hdd Hr Hw); [|exact Hf].
      apply (head_of_stream r tail ds Hds). symmetry; exact Ht.
    - left. destruct (feed_need s w ch d q Hh Hch Hdd Hdq Hq Hf) as (s' & Hn & Hr).
      exists s'. split; [exact Hn|]. split; [exact Hr|]. rewrite Hdq, (app_length (w ++ ch)).
      destruct q; [congruence|cbn; lia].
  Qed.

  Lemma cnext_none_buf (r : bytes) : r <> [] ->
    cnext F {| cbuf := r; ccons := None |} None =
    match ffeed F (finit F) r with
    | Need s' => ({| cbuf := []; ccons := Some s' |}, RStop)
    | Done p rest => ({| cbuf := rest; ccons := None |}, RPkt p)
    | Fail e rest => ({| cbuf := rest; ccons := None |}, RErr e)
    | Crash => ({| cbuf := []; ccons := None |}, RCrash)
    end.
  Proof. intros Hr. unfold cnext. cbn. destruct r; [congruence|]. reflexivity. Qed.

  (* the drain loop after an event: delivers every code word wholly contained in the leftover *)
  Lemma drain_spec fuel : forall (r tail : bytes) ds,
    length r < fuel -> Forall doc ds -> r ++ tail = concat ds -> fits r ->
    exists c' w' ds1 ds2,
      ds = ds1 ++ ds2 /\ cdrain F fuel {| cbuf := r; ccons := None |} = (c', map ev ds1) /\
      cinv c' w' /\ w' ++ tail = concat ds2 /\ pending_ok w' ds2 /\ length w' <= length r.
  Proof.
    induction fuel as [|f IH]; intros r tail ds Hf Hd Heq Hfit; [lia|].
    cbn [cdrain]. destruct r as [|b0 r0].
    - exists {| cbuf := []; ccons := None |}, [], [], ds. cbn.
      repeat split; auto. destruct ds as [|d ds']; cbn; [reflexivity|].
      inversion Hd; subst. pose proof (doc_ne d H1). destruct d; [congruence|cbn; lia].
    - set (r := b0 :: r0) in *. assert (Hr : r <> []) by discriminate.
      rewrite (cnext_none_buf r Hr).
      destruct ds as [|d ds']; [discriminate|].
      assert (Hh : holds (finit F) []) by (left; auto).
      assert (Hdl : @length byte [] < length d)
        by (inversion Hd; subst; pose proof (doc_ne d H1); destruct d; [congruence|cbn; lia]).
      destruct (feed_cases (finit F) [] r tail d ds' Hh Hr Hd Heq Hdl Hfit)
        as [(s' & Hn & Hrep & Hlen)|(r' & Hr' & Ht & Hev)]; cbn [app] in *.
      + rewrite Hn. exists {| cbuf := []; ccons := Some s' |}, r, [], (d :: ds'). cbn.
        repeat split; auto. right. exists s'. auto.
      + assert (Hlr : length r' < length r).
        { rewrite Hr', app_length. inversion Hd; subst. pose proof (doc_ne d H1). destruct d; [congruence|cbn; lia]. }
        assert (Hfit' : fits r') by (apply (fits_suffix d r'); rewrite <- Hr'; exact Hfit).
        inversion Hd as [|? ? Hdd Hds]; subst.
        destruct (IH r' tail ds' ltac:(lia) Hds Ht Hfit') as (c' & w' & ds1 & ds2 & Hsplit & Hdr & Hc & Hw & Hp & Hl).
        destruct Hev as [(p & Hdn & Hevd)|(e & Hfl & Hevd)].
        * rewrite Hdn, Hdr. exists c', w', (d :: ds1), ds2. cbn [map app]. rewrite Hevd, Hsplit.
          split; [reflexivity|]. split; [reflexivity|]. split; [exact Hc|]. split; [exact Hw|]. split; [exact Hp|lia].
        * rewrite Hfl, Hdr. exists c', w', (d :: ds1), ds2. cbn [map app]. rewrite Hevd, Hsplit.
          split; [reflexivity|]. split; [reflexivity|]. split; [exact Hc|]. split; [exact Hw|]. split; [exact Hp|lia].
  Qed.

  (* framer level: one code word arriving over several feeds, completed by the last one, with a surplus *)
  Lemma first_event_word chunks : forall s w d (r : bytes),
    holds s w -> Forall (fun ch => ch <> []) chunks -> chunks <> [] -> doc d -> head_ok r ->
    w ++ concat chunks = d ++ r -> length (w ++ concat (removelast chunks)) < length d ->
    (forall b x, b ++ x = d ++ r -> fits b) ->
    (exists p, first_event F s chunks = Some (Done p r) /\ ev d = RPkt p) \/
    (exists e, first_event F s chunks = Some (Fail e r) /\ ev d = RErr e).
  Proof.
    induction chunks as [|ch cs IH]; intros s w d r Hh Hne Hnn Hd Hr Heq Hlen Hfit; [congruence|].
    inversion Hne as [|? ? Hch Hcs]; subst. cbn [concat] in Heq. rewrite app_assoc in Heq.
    assert (Hf : fits (w ++ ch)) by (apply (Hfit (w ++ ch) (concat cs)); exact Heq).
    destruct cs as [|c2 cs'].
    - cbn [concat removelast] in *. rewrite app_nil_r in *.
      cbn [first_event].
      destruct (feed_done s w ch d r Hh Hd Heq Hlen Hr Hf) as [(p & Hp & He)|(e & He1 & He2)]; [left|right].
      + exists p. rewrite Hp. auto.
      + exists e. rewrite He1. auto.
    - assert (Hrl : removelast (ch :: c2 :: cs') = ch :: removelast (c2 :: cs')) by reflexivity.
      rewrite Hrl in Hlen. cbn [concat] in Hlen. rewrite app_assoc in Hlen.
      destruct (app_eq_prefix _ _ _ _ Heq) as [[r' [Hr' _]]|[q [Hq [Hdq _]]]].
      + exfalso. rewrite Hr', !app_length in Hlen. lia.
      + destruct (feed_need s w ch d q Hh Hch Hd Hdq Hq Hf) as (s' & Hn & Hrep).
        cbn [first_event]. rewrite Hn.
        apply (IH s' (w ++ ch) d r); auto; [right; exact Hrep|discriminate].
  Qed.

  Variable chunks0 : list bytes.
  Variable docs0 : list bytes.
  (* every buffer that can occur (pending proper prefix of a code word + one chunk) is accepted for its size *)
  Hypothesis fits_all : forall w ch d, In ch chunks0 -> In d docs0 -> length w < length d -> fits (w ++ ch).

  Lemma cnext_cinv c w (ch : bytes) : cinv c w -> ch <> [] ->
    exists s, holds s w /\
    cnext F c (Some ch) =
    match ffeed F s ch with
    | Need s' => ({| cbuf := []; ccons := Some s' |}, RStop)
    | Done p rest => ({| cbuf := rest; ccons := None |}, RPkt p)
    | Fail e rest => ({| cbuf := rest; ccons := None |}, RErr e)
    | Crash => ({| cbuf := []; ccons := None |}, RCrash)
    end.
  Proof.
    intros [Hb Hc] Hch. destruct Hc as [[Hn Hw]|(s & Hs & Hr)].
    - exists (finit F). split; [left; auto|]. apply cnext_suspended; [|exact Hch]. split; [exact Hb|right; auto].
    - exists s. split; [right; exact Hr|]. apply cnext_suspended; [|exact Hch]. split; [exact Hb|left; exact Hs].
  Qed.

  Theorem deliver_spec chunks : forall c w ds fuel,
    cinv c w -> Forall (fun ch => ch <> []) chunks -> Forall doc ds -> incl chunks chunks0 -> incl ds docs0 ->
    w ++ concat chunks = concat ds -> pending_ok w ds -> length (w ++ concat chunks) < fuel ->
    exists c', cdeliver F fuel c chunks = (c', map ev ds) /\ idle c'.
  Proof.
    induction chunks as [|ch cs IH]; intros c w ds fuel Hc Hne Hd Hic Hid Heq Hp Hf.
    - cbn [concat] in Heq. rewrite app_nil_r in Heq. cbn [cdeliver].
      destruct ds as [|d ds'].
      + exists c. split; [reflexivity|]. cbn in Hp. subst w. destruct Hc as [Hb [[Hn _]|(s & Hs & Hr)]].
        * split; assumption.
        * exfalso. eapply rep_ne; eauto.
      + exfalso. cbn in Hp. cbn [concat] in Heq. rewrite Heq, app_length in Hp. lia.
    - inversion Hne as [|? ? Hch Hcs]; subst. cbn [concat] in Heq, Hf. rewrite app_assoc in Heq, Hf.
      destruct ds as [|d ds'].
      + exfalso. cbn in Heq. destruct w; destruct ch; cbn in Heq; congruence.
      + cbn in Hp.
        assert (Hfit : fits (w ++ ch)) by (apply (fits_all w ch d); [apply Hic; left; reflexivity|apply Hid; left; reflexivity|exact Hp]).
        destruct (cnext_cinv c w ch Hc Hch) as (s & Hh & Hnext).
        cbn [cdeliver]. unfold cstep. rewrite Hnext.
        destruct (feed_cases s w ch (concat cs) d ds' Hh Hch Hd Heq Hp Hfit)
          as [(s' & Hn & Hrep & Hlen)|(r & Hr & Ht & Hev)].
        * rewrite Hn.
          destruct (IH {| cbuf := []; ccons := Some s' |} (w ++ ch) (d :: ds') fuel) as (c' & Hdl & Hi); auto.
          { split; [reflexivity|]. right. exists s'. auto. }
          { intros x Hx. apply Hic. right. exact Hx. }
          rewrite Hdl. exists c'. split; [reflexivity|exact Hi].
        * inversion Hd as [|? ? Hdd Hds]; subst.
          assert (Hf' : length d + length r + length (concat cs) < fuel) by (rewrite Hr, !app_length in Hf; lia).
          assert (Hlr : length r < fuel) by lia.
          assert (Hfr : fits r) by (apply (fits_suffix d r); rewrite <- Hr; exact Hfit).
          destruct (drain_spec fuel r (concat cs) ds' Hlr Hds Ht Hfr) as (c1 & w1 & ds1 & ds2 & Hsplit & Hdr & Hc1 & Hw1 & Hp1 & Hl1).
          destruct (IH c1 w1 ds2 fuel) as (c' & Hdl & Hi); auto.
          { rewrite Hsplit in Hds. apply Forall_app in Hds. tauto. }
          { intros x Hx. apply Hic. right. exact Hx. }
          { intros x Hx. apply Hid. right. rewrite Hsplit. apply in_or_app. right. exact Hx. }
          { rewrite app_length. lia. }
          destruct Hev as [(p & Hdn & Hevd)|(e & Hfl & Hevd)].
          -- rewrite Hdn, Hdr, Hdl. exists c'. split; [|exact Hi]. cbn [map]. rewrite Hevd, Hsplit, map_app. reflexivity.
          -- rewrite Hfl, Hdr, Hdl. exists c'. split; [|exact Hi]. cbn [map]. rewrite Hevd, Hsplit, map_app. reflexivity.
  Qed.

  (* from the initial state *)
  Corollary roundtrip_spec fuel :
    Forall (fun ch => ch <> []) chunks0 -> Forall doc docs0 -> concat chunks0 = concat docs0 -> length (concat chunks0) < fuel ->
    exists c', cdeliver F fuel (cinit F) chunks0 = (c', map ev docs0) /\ idle c'.
  Proof.
    intros Hne Hd Heq Hf.
    apply (deliver_spec chunks0 (cinit F) [] docs0 fuel); auto using incl_refl.
    - split; [reflexivity|left; split; reflexivity].
    - destruct docs0 as [|d ds]; cbn; [reflexivity|]. inversion Hd; subst. pose proof (doc_ne d H1). destruct d; [congruence|cbn; lia].
  Qed.
End PrefixCode.

Lemma wrap_first_event_done {P} (G : framer P) chs : forall (s : fst_ G) q r,
  first_event (wrap_generic G) s chs = Some (Done q r) -> first_event G s chs = Some (Done q r).
Proof.
  induction chs as [|c cs IH]; intros s q r H; [discriminate|].
  cbn [first_event] in *. cbn [ffeed wrap_generic] in H.
  destruct (ffeed G s c) as [s'|q0 r0|e r0|]; try (inversion H; subst; reflexivity); try discriminate.
  apply IH. exact H.
Qed.

(* ------------------------------------------------------------------------------------------------------------
   file based: the loader is a streaming prefix-code recogniser
   ------------------------------------------------------------------------------------------------------------ *)
Section FbRoundtrip.
  Context {P : Type}.
  Variables (limit : nat) (load : bytes -> lres P) (expected : Z -> bool).
  Variable enc : P -> bytes.                     (* the code word of a packet (dump_to_file) *)
  Hypothesis enc_ne : forall p, enc p <> [].
  (* on a code word followed by anything: the packet, and the file position right after the code word *)
  Hypothesis load_done : forall p r, load (enc p ++ r) = LDone p (length (enc p)).
  (* on a proper prefix of a code word: EOFError, having read everything *)
  Hypothesis load_eof : forall p q x, enc p = q ++ x -> x <> [] -> load q = LEof (length q).

  Let F := wrap_generic (fb_framer limit load expected).
  Definition fb_rep (s : fb_state) (w : bytes) : Prop := s = Some (w, length w) /\ w <> [].
  Definition fb_doc (d : bytes) : Prop := exists p, d = enc p.
  Definition fb_ev (d : bytes) : nres P := match load d with LDone p _ => RPkt p | _ => RStop end.
  Definition fb_fits (b : bytes) : Prop := length b <= limit.

  Lemma fb_ev_enc p : fb_ev (enc p) = RPkt p.
  Proof. unfold fb_ev. pose proof (load_done p []) as H. rewrite app_nil_r in H. rewrite H. reflexivity. Qed.

  Lemma fb_holds_feed s w (ch : bytes) : holds F fb_rep s w ->
    ffeed F s ch = match fb_round limit load expected (w ++ ch) with
                   | Need s' => Need s' | Done p rest => Done p rest | Fail e rest => Fail e rest | Crash => Crash end.
  Proof.
    intros [[-> ->]|[-> _]]; cbn; [reflexivity|]. rewrite bio_write_end. reflexivity.
  Qed.

  Lemma fb_feed_need_l s w (ch : bytes) d q : holds F fb_rep s w -> ch <> [] -> fb_doc d -> d = (w ++ ch) ++ q -> q <> [] ->
    fb_fits (w ++ ch) -> exists s', ffeed F s ch = Need s' /\ fb_rep s' (w ++ ch).
  Proof.
    intros Hh Hch [p ->] Hdq Hq Hf. rewrite (fb_holds_feed s w ch Hh). unfold fb_round.
    destruct (Nat.ltb limit (length (w ++ ch))) eqn:El; [apply Nat.ltb_lt in El; unfold fb_fits in Hf; lia|].
    rewrite (load_eof p (w ++ ch) q Hdq Hq). eexists; split; [reflexivity|].
    split; [reflexivity|]. destruct w; [cbn; assumption|discriminate].
  Qed.

  Lemma fb_feed_done_l s w (ch : bytes) d r : holds F fb_rep s w -> fb_doc d -> w ++ ch = d ++ r -> length w < length d ->
    True -> fb_fits (w ++ ch) ->
    (exists p, ffeed F s ch = Done p r /\ fb_ev d = RPkt p) \/ (exists e, ffeed F s ch = Fail e r /\ fb_ev d = RErr e).
  Proof.
    intros Hh [p ->] Hwr _ _ Hf. left. exists p. rewrite (fb_holds_feed s w ch Hh). unfold fb_round.
    destruct (Nat.ltb limit (length (w ++ ch))) eqn:El; [apply Nat.ltb_lt in El; unfold fb_fits in Hf; lia|].
    rewrite Hwr, load_done, skipn_app_exact. split; [reflexivity|apply fb_ev_enc].
  Qed.

  (* every list of packets, every chunking; size band: frame <= m and m + one read <= limit (the limit is checked on
     the accumulated buffer, see C07) *)
  Theorem fb_roundtrip_l (pkts : list P) (chunks : list bytes) (m fuel : nat) :
    Forall (fun ch => ch <> []) chunks -> concat chunks = concat (map enc pkts) ->
    Forall (fun p => length (enc p) <= m) pkts -> Forall (fun ch : bytes => m + length ch <= limit) chunks ->
    length (concat chunks) < fuel ->
    exists c', cdeliver F fuel (cinit F) chunks = (c', map RPkt pkts) /\ cbuf c' = [] /\ ccons c' = None.
  Proof.
    intros Hne Heq Hm Hc Hf.
    destruct (roundtrip_spec F fb_rep fb_doc fb_ev fb_fits (fun _ => True)) with (chunks0 := chunks) (docs0 := map enc pkts) (fuel := fuel)
      as (c' & Hdl & Hb & Hcc); auto.
    - intros s w [_ H]; exact H.
    - intros d [p ->]. apply enc_ne.
    - intros a b H. unfold fb_fits in *. rewrite app_length in H. lia.
    - intros s w ch d q Hh Hch Hd Hdq Hq Hfit. eapply fb_feed_need_l; eauto.
    - intros s w ch d r Hh Hd Hwr Hl Hr Hfit. eapply fb_feed_done_l; eauto.
    - intros w ch d Hch Hd Hl. apply in_map_iff in Hd as (p & <- & Hp).
      rewrite Forall_forall in Hm, Hc. specialize (Hm p Hp). specialize (Hc ch Hch).
      unfold fb_fits. rewrite app_length. lia.
    - apply Forall_forall. intros d Hd. apply in_map_iff in Hd as (p & <- & _). exists p; reflexivity.
    - exists c'. split; [|split; assumption]. rewrite Hdl, map_map. f_equal. apply map_ext. apply fb_ev_enc.
  Qed.

  (* the buffer-filling twin, framer level: one code word arriving over several receive rounds (buffer contents, nbytes),
     completed by the last round, with a surplus: the generator returns the packet and hands back the surplus *)
  Theorem fb_buffered_word_l alloc (rounds : list (bytes * nat)) p (r : bytes) :
    rounds <> [] -> Forall (fun x => firstn (snd x) (fst x) <> []) rounds ->
    concat (map (fun x => firstn (snd x) (fst x)) rounds) = enc p ++ r ->
    length (concat (removelast (map (fun x => firstn (snd x) (fst x)) rounds))) < length (enc p) ->
    length (enc p ++ r) <= limit ->
    first_bevent (fb_framer limit load expected) alloc None rounds = Some (BDone p r).
  Proof.
    intros Hnn Hne Heq Hlen Hlim.
    rewrite bwrap_first_event.
    set (chunks := map (fun x : bytes * nat => firstn (snd x) (fst x)) rounds) in *.
    assert (Hch : Forall (fun ch : bytes => ch <> []) chunks) by (unfold chunks; rewrite Forall_map; exact Hne).
    assert (Hcn : chunks <> []) by (unfold chunks; destruct rounds; [congruence|discriminate]).
    destruct (first_event_word F fb_rep fb_doc fb_ev fb_fits (fun _ => True)) with (chunks := chunks) (s := @None (bytes * nat)) (w := @nil byte) (d := enc p) (r := r)
      as [(q & Hq & He)|(e & He1 & He2)]; auto.
    - intros s w ch d q Hh Hc Hd Hdq Hq Hfit. eapply fb_feed_need_l; eauto.
    - intros s w ch d r0 Hh Hd Hwr Hl Hr Hfit. eapply fb_feed_done_l; eauto.
    - left; split; reflexivity.
    - exists p; reflexivity.
    - intros b x Hbx. unfold fb_fits. rewrite <- Hbx, app_length in Hlim. lia.
    - pose proof (wrap_first_event_done (fb_framer limit load expected) chunks None q r Hq) as Hq'.
      change (option_map (to_bres (fb_framer limit load expected)) (first_event (fb_framer limit load expected) None chunks) = Some (BDone p r)).
      rewrite Hq'. rewrite fb_ev_enc in He. inversion He; subst. reflexivity.
    - rewrite fb_ev_enc in He2. discriminate.
  Qed.
End FbRoundtrip.

(* the hypotheses are satisfiable: one length byte n, then n bytes *)
Definition toy_enc (p : bytes) : bytes := N.of_nat (length p) :: p.
Definition toy_load (content : bytes) : lres bytes :=
  match content with
  | [] => LEof 0
  | n :: rest => if Nat.ltb (length rest) (N.to_nat n) then LEof (length content)
                 else LDone (firstn (N.to_nat n) rest) (S (N.to_nat n))
  end.

Lemma toy_is_prefix_code :
  (forall p, toy_enc p <> []) /\
  (forall p r, toy_load (toy_enc p ++ r) = LDone p (length (toy_enc p))) /\
  (forall p q x, toy_enc p = q ++ x -> x <> [] -> toy_load q = LEof (length q)).
Proof.
  split; [discriminate|]. split.
  - intros p r. unfold toy_enc, toy_load. cbn [app]. rewrite Nat2N.id.
    destruct (Nat.ltb (length (p ++ r)) (length p)) eqn:E; [apply Nat.ltb_lt in E; rewrite app_length in E; lia|].
    rewrite firstn_app, Nat.sub_diag, firstn_all. cbn [firstn]. rewrite app_nil_r. reflexivity.
  - intros p q x Heq Hx. unfold toy_enc in Heq. destruct q as [|n q']; [reflexivity|].
    cbn [app] in Heq. inversion Heq; subst. unfold toy_load. rewrite Nat2N.id.
    destruct (Nat.ltb (length q') (length (q' ++ x))) eqn:E; [reflexivity|].
    apply Nat.ltb_ge in E. rewrite app_length in E. destruct x; [congruence|cbn in E; lia].
Qed.

(* a concrete instance of the theorem, so that its hypotheses are seen to be jointly satisfiable *)
Example toy_roundtrip :
  exists c', cdeliver (wrap_generic (fb_framer 10 toy_load (fun _ => false))) 20
               (cinit _) [[2; 7]; [8; 0; 1]; [9]]%N
             = (c', [RPkt [7; 8]; RPkt []; RPkt [9]]%N) /\ cbuf c' = [] /\ ccons c' = None.
Proof.
  destruct toy_is_prefix_code as (H1 & H2 & H3).
  apply (fb_roundtrip_l 10 toy_load (fun _ => false) toy_enc H1 H2 H3 [[7; 8]; []; [9]]%N [[2; 7]; [8; 0; 1]; [9]]%N 3 20).
  - repeat constructor; discriminate.
  - reflexivity.
  - repeat constructor; cbn; lia.
  - repeat constructor; cbn; lia.
  - cbn; lia.
Qed.

(* ------------------------------------------------------------------------------------------------------------
   compressors: the decompressor object is a streaming prefix-code recogniser
   ------------------------------------------------------------------------------------------------------------ *)
Section CzRoundtrip.
  Context {P : Type}.
  Variables (D : Type) (dnew : D) (dd : D -> bytes -> (D * bytes) + Z) (deof : D -> bool) (dunused : D -> bytes).
  Variables (expected : Z -> bool) (inner : bytes -> ores P) (inner_declared : Z -> bool).
  Variable enc : P -> bytes.          (* the compressed stream of a packet *)
  Variable payload : P -> bytes.      (* what the wrapped serializer produced: decompress (enc p) = payload p *)
  (* [drep d w o]: the object d has been fed w since it was created and has output o in total *)
  Variable drep : D -> bytes -> bytes -> Prop.
  Hypothesis enc_ne : forall p, enc p <> [].
  Hypothesis drep_new : drep dnew [] [].
  (* fed up to a proper prefix of a compressed stream: no exception, not at eof *)
  Hypothesis dd_more : forall d w o (ch : bytes) p x, drep d w o -> ch <> [] -> enc p = (w ++ ch) ++ x -> x <> [] ->
    exists d' out, dd d ch = inl (d', out) /\ deof d' = false /\ drep d' (w ++ ch) (o ++ out).
  (* fed the end of the stream and a surplus: eof, unused_data = the surplus, total output = the payload *)
  Hypothesis dd_eof : forall d w o (ch : bytes) p r, drep d w o -> w ++ ch = enc p ++ r -> length w < length (enc p) ->
    exists d' out, dd d ch = inl (d', out) /\ deof d' = true /\ dunused d' = r /\ o ++ out = payload p.
  Hypothesis inner_ok : forall p, inner (payload p) = OOk p.

  Let F := cz_framer D dnew dd deof dunused expected inner inner_declared.
  Definition cz_rep (s : cz_state D) (w : bytes) : Prop := w <> [] /\ drep (snd s) w (concat (fst s)).
  Definition cz_doc (d : bytes) : Prop := exists p, d = enc p.
  Definition cz_ev (d : bytes) : nres P :=
    match dd dnew d with
    | inl (_, out) => match inner out with OOk p => RPkt p | ORaise _ => RStop end
    | inr _ => RStop
    end.

  Lemma cz_ev_enc p : cz_ev (enc p) = RPkt p.
  Proof.
    unfold cz_ev.
    destruct (dd_eof dnew [] [] (enc p) p [] drep_new) as (d' & out & H1 & _ & _ & H2).
    - cbn. rewrite app_nil_r. reflexivity.
    - pose proof (enc_ne p). destruct (enc p); [congruence|cbn; lia].
    - rewrite H1. cbn in H2. rewrite H2, inner_ok. reflexivity.
  Qed.

  Lemma cz_holds_drep s w : holds F cz_rep s w -> drep (snd s) w (concat (fst s)).
  Proof. intros [[-> ->]|[_ H]]; [exact drep_new|exact H]. Qed.

  Lemma concat_snoc (results : list bytes) (out : bytes) :
    concat (match out with [] => results | _ => results ++ [out] end) = concat results ++ out.
  Proof. destruct out; [rewrite app_nil_r; reflexivity|]. rewrite concat_app. cbn. rewrite app_nil_r. reflexivity. Qed.

  Theorem cz_roundtrip_l (pkts : list P) (chunks : list bytes) fuel :
    Forall (fun ch => ch <> []) chunks -> concat chunks = concat (map enc pkts) -> length (concat chunks) < fuel ->
    exists c', cdeliver F fuel (cinit F) chunks = (c', map RPkt pkts) /\ cbuf c' = [] /\ ccons c' = None.
  Proof.
    intros Hne Heq Hf.
    destruct (roundtrip_spec F cz_rep cz_doc cz_ev (fun _ => True) (fun _ => True)) with (chunks0 := chunks) (docs0 := map enc pkts) (fuel := fuel)
      as (c' & Hdl & Hb & Hcc); auto.
    - intros s w [H _]; exact H.
    - intros d [p ->]. apply enc_ne.
    - (* feed_need *)
      intros [results d0] w ch d q Hh Hch [p ->] Hdq Hq _. pose proof (cz_holds_drep _ _ Hh) as Hr. cbn [fst snd] in Hr.
      destruct (dd_more d0 w (concat results) ch p q Hr Hch Hdq Hq) as (d' & out & H1 & H2 & H3).
      cbn. rewrite H1, H2. eexists; split; [reflexivity|].
      split; [destruct w; [cbn; assumption|discriminate]|]. cbn [fst snd]. rewrite concat_snoc. exact H3.
    - (* feed_done *)
      intros [results d0] w ch d r Hh [p ->] Hwr Hl _ _. pose proof (cz_holds_drep _ _ Hh) as Hr. cbn [fst snd] in Hr.
      destruct (dd_eof d0 w (concat results) ch p r Hr Hwr Hl) as (d' & out & H1 & H2 & H3 & H4).
      left. exists p. cbn. rewrite H1, H2. unfold cz_finish. rewrite concat_snoc, H4, inner_ok, H3.
      split; [reflexivity|apply cz_ev_enc].
    - apply Forall_forall. intros d Hd. apply in_map_iff in Hd as (p & <- & _). exists p; reflexivity.
    - exists c'. split; [|split; assumption]. rewrite Hdl, map_map. f_equal. apply map_ext. apply cz_ev_enc.
  Qed.
End CzRoundtrip.

(* the decompressor hypotheses are satisfiable: a toy object that buffers a length-prefixed record and releases it at eof *)
Definition toyz_complete (t : bytes) : bool :=
  match t with [] => false | n :: rest => negb (Nat.ltb (length rest) (N.to_nat n)) end.
Definition toyz_dd (h c : bytes) : (bytes * bytes) + Z :=
  let t := h ++ c in
  inl (t, if toyz_complete t then match t with [] => [] | n :: rest => firstn (N.to_nat n) rest end else []).
Definition toyz_unused (t : bytes) : bytes := match t with [] => [] | n :: rest => skipn (N.to_nat n) rest end.

Lemma toyz_is_prefix_code :
  (forall p, toy_enc p <> []) /\
  (forall d w o (ch : bytes) p x, (d = w /\ o = []) -> ch <> [] -> toy_enc p = (w ++ ch) ++ x -> x <> [] ->
     exists d' out, toyz_dd d ch = inl (d', out) /\ toyz_complete d' = false /\ (d' = w ++ ch /\ o ++ out = [])) /\
  (forall d w o (ch : bytes) p r, (d = w /\ o = []) -> w ++ ch = toy_enc p ++ r -> length w < length (toy_enc p) ->
     exists d' out, toyz_dd d ch = inl (d', out) /\ toyz_complete d' = true /\ toyz_unused d' = r /\ o ++ out = p).
Proof.
  split; [discriminate|]. split.
  - intros d w o ch p x [-> ->] Hch Heq Hx. unfold toyz_dd. cbv zeta.
    assert (Hc : toyz_complete (w ++ ch) = false).
    { unfold toy_enc in Heq. destruct (w ++ ch) as [|n t]; [reflexivity|]. cbn [app] in Heq. inversion Heq; subst.
      cbn. rewrite Nat2N.id. rewrite app_length. destruct x; [congruence|].
      apply negb_false_iff. apply Nat.ltb_lt. cbn. lia. }
    eexists; eexists; split; [reflexivity|]. split; [exact Hc|]. split; [reflexivity|]. cbn [app]. match goal with |- (if ?x then _ else _) = _ => replace x with false by (symmetry; exact Hc) end. reflexivity.
  - intros d w o ch p r [-> ->] Heq Hl. unfold toyz_dd. cbv zeta. rewrite Heq. unfold toy_enc. cbn [app].
    assert (Hc : toyz_complete (N.of_nat (length p) :: p ++ r) = true).
    { cbn. rewrite Nat2N.id, app_length. apply negb_true_iff. apply Nat.ltb_ge. lia. }
    eexists; eexists; split; [reflexivity|]. split; [exact Hc|].
    cbn [toyz_unused]. rewrite Nat2N.id. split.
    + apply skipn_app_exact.
    + cbn [app]. match goal with |- (if ?x then _ else _) = _ => replace x with true by (symmetry; exact Hc) end. rewrite firstn_app, Nat.sub_diag, firstn_all. cbn [firstn]. apply app_nil_r.
Qed.
