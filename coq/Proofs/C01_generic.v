(* C01 for framers that recognise a prefix code (raw JSON, file based, compressors): for every list of code words and
   every chunking of their concatenation the copying consumer delivers exactly one event per code word, in order, and
   ends idle with nothing left over.  The framer-specific part is reduced to two facts about one feed. *)
From Coq Require Import ZArith List Bool Lia Arith.
From EN Require Import Lib.Bytes Frame.Framer Frame.ErrSites Frame.Generic Stream.Consumer
  Proofs.Bytes_proofs Proofs.C06_progress Proofs.C07_extra.
Import ListNotations.

Lemma app_eq_prefix {X} (a b c d : list X) : a ++ b = c ++ d ->
  (exists r, a = c ++ r /\ d = r ++ b) \/ (exists q, q <> [] /\ c = a ++ q /\ b = q ++ d).
Proof.
  revert c. induction a as [|x a IH]; intros c H.
  - destruct c as [|y c]; [left; exists []; cbn in *; auto|].
    right. exists (y :: c). cbn in *. repeat split; [discriminate|assumption].
  - destruct c as [|y c].
    + left. exists (x :: a). cbn in *. auto.
    + cbn in H. inversion H; subst. destruct (IH c H2) as [[r [-> ->]]|[q [Hq [-> ->]]]].
      * left. exists r. auto.
      * right. exists q. auto.
Qed.

Section PrefixCode.
  Context {P : Type}.
  Variable F : framer P.
  Variable rep : fst_ F -> bytes -> Prop.      (* the suspended generator s has been given w since it started *)
  Variable doc : bytes -> Prop.                (* the code words *)
  Variable ev : bytes -> nres P.               (* the event a code word produces *)
  Variable fits : bytes -> Prop.               (* buffers the framer accepts for their size *)
  Variable head_ok : bytes -> Prop.            (* what may follow a code word in the same buffer *)

  Definition holds (s : fst_ F) (w : bytes) : Prop := (s = finit F /\ w = []) \/ rep s w.

  Hypothesis rep_ne : forall s w, rep s w -> w <> [].
  Hypothesis doc_ne : forall d, doc d -> d <> [].
  Hypothesis fits_suffix : forall a b, fits (a ++ b) -> fits b.
  Hypothesis head_nil : head_ok [].
  Hypothesis head_doc : forall d x, doc d -> head_ok (d ++ x).
  Hypothesis head_prefix : forall a b, a <> [] -> head_ok (a ++ b) -> head_ok a.

  (* one feed that leaves the code word unfinished / that completes it *)
  Hypothesis feed_need : forall s w (ch : bytes) d q, holds s w -> ch <> [] -> doc d -> d = (w ++ ch) ++ q -> q <> [] ->
    fits (w ++ ch) -> exists s', ffeed F s ch = Need s' /\ rep s' (w ++ ch).
  Hypothesis feed_done : forall s w (ch : bytes) d r, holds s w -> doc d -> w ++ ch = d ++ r -> length w < length d ->
    head_ok r -> fits (w ++ ch) ->
    (exists p, ffeed F s ch = Done p r /\ ev d = RPkt p) \/ (exists e, ffeed F s ch = Fail e r /\ ev d = RErr e).

  Definition cinv (c : cstate F) (w : bytes) : Prop :=
    cbuf c = [] /\ ((ccons c = None /\ w = []) \/ exists s, ccons c = Some s /\ rep s w).

  Definition idle (c : cstate F) : Prop := cbuf c = [] /\ ccons c = None.

  (* the pending bytes are a proper prefix of the next code word *)
  Definition pending_ok (w : bytes) (ds : list bytes) : Prop :=
    match ds with [] => w = [] | d :: _ => length w < length d end.

  Lemma head_of_stream (r tail : bytes) ds : Forall doc ds -> r ++ tail = concat ds -> head_ok r.
  Proof.
    intros Hd H. destruct r as [|b r]; [exact head_nil|].
    destruct ds as [|d ds]; [discriminate|]. inversion Hd; subst. cbn [concat] in H.
    apply (head_prefix (b :: r) tail); [discriminate|]. rewrite H. apply head_doc. assumption.
  Qed.

  (* feeding the buffer [w ++ ch] when the stream from there on is [concat ds] *)
  Lemma feed_cases s w (ch tail : bytes) d ds : holds s w -> ch <> [] -> Forall doc (d :: ds) ->
    (w ++ ch) ++ tail = concat (d :: ds) -> length w < length d -> fits (w ++ ch) ->
    (exists s', ffeed F s ch = Need s' /\ rep s' (w ++ ch) /\ length (w ++ ch) < length d) \/
    (exists r, w ++ ch = d ++ r /\ r ++ tail = concat ds /\
               ((exists p, ffeed F s ch = Done p r /\ ev d = RPkt p) \/ (exists e, ffeed F s ch = Fail e r /\ ev d = RErr e))).
  Proof.
    intros Hh Hch Hd Heq Hw Hf. inversion Hd as [|? ? Hdd Hds]; subst. cbn [concat] in Heq.
    destruct (app_eq_prefix _ _ _ _ Heq) as [[r [Hr Ht]]|[q [Hq [Hdq Ht]]]].
    - right. exists r. split; [exact Hr|]. split; [symmetry; exact Ht|].
      apply (feed_done s w ch d r Hh Hdd Hr Hw); [|exact Hf].
      apply (head_of_stream r tail ds Hds). symmetry; exact Ht.
    - left. destruct (feed_need s w ch d q Hh Hch Hdd Hdq Hq Hf) as (s' & Hn & Hr).
      exists s'. split; [exact Hn|]. split; [exact Hr|]. rewrite Hdq, (app_length (w ++ ch)).
      destruct q; [congruence|cbn; lia].
  Qed.

  Lemma cnext_none_buf (r : bytes) : r <> [] ->
    cnext F {| cbuf := r; ccons := None |} None =
    match ffeed F (finit F) r with
    | Need s' => ({| cbuf := []; ccons := Some s' |}, RStop)
    | Done p rest => ({| cbuf := rest; ccons := None |}, RPkt p)
    | Fail e rest => ({| cbuf := rest; ccons := None |}, RErr e)
    | Crash => ({| cbuf := []; ccons := None |}, RCrash)
    end.
  Proof. intros Hr. unfold cnext. cbn. destruct r; [congruence|]. reflexivity. Qed.

  (* the drain loop after an event: delivers every code word wholly contained in the leftover *)
  Lemma drain_spec fuel : forall (r tail : bytes) ds,
    length r < fuel -> Forall doc ds -> r ++ tail = concat ds -> fits r ->
    exists c' w' ds1 ds2,
      ds = ds1 ++ ds2 /\ cdrain F fuel {| cbuf := r; ccons := None |} = (c', map ev ds1) /\
      cinv c' w' /\ w' ++ tail = concat ds2 /\ pending_ok w' ds2 /\ length w' <= length r.
  Proof.
    induction fuel as [|f IH]; intros r tail ds Hf Hd Heq Hfit; [lia|].
    cbn [cdrain]. destruct r as [|b0 r0].
    - exists {| cbuf := []; ccons := None |}, [], [], ds. cbn.
      repeat split; auto. destruct ds as [|d ds']; cbn; [reflexivity|].
      inversion Hd; subst. pose proof (doc_ne d H1). destruct d; [congruence|cbn; lia].
    - set (r := b0 :: r0) in *. assert (Hr : r <> []) by discriminate.
      rewrite (cnext_none_buf r Hr).
      destruct ds as [|d ds']; [discriminate|].
      assert (Hh : holds (finit F) []) by (left; auto).
      assert (Hdl : @length byte [] < length d)
        by (inversion Hd; subst; pose proof (doc_ne d H1); destruct d; [congruence|cbn; lia]).
      destruct (feed_cases (finit F) [] r tail d ds' Hh Hr Hd Heq Hdl Hfit)
        as [(s' & Hn & Hrep & Hlen)|(r' & Hr' & Ht & Hev)]; cbn [app] in *.
      + rewrite Hn. exists {| cbuf := []; ccons := Some s' |}, r, [], (d :: ds'). cbn.
        repeat split; auto. right. exists s'. auto.
      + assert (Hlr : length r' < length r).
        { rewrite Hr', app_length. inversion Hd; subst. pose proof (doc_ne d H1). destruct d; [congruence|cbn; lia]. }
        assert (Hfit' : fits r') by (apply (fits_suffix d r'); rewrite <- Hr'; exact Hfit).
        inversion Hd as [|? ? Hdd Hds]; subst.
        destruct (IH r' tail ds' ltac:(lia) Hds Ht Hfit') as (c' & w' & ds1 & ds2 & Hsplit & Hdr & Hc & Hw & Hp & Hl).
        destruct Hev as [(p & Hdn & Hevd)|(e & Hfl & Hevd)].
        * rewrite Hdn, Hdr. exists c', w', (d :: ds1), ds2. cbn [map app]. rewrite Hevd, Hsplit.
          split; [reflexivity|]. split; [reflexivity|]. split; [exact Hc|]. split; [exact Hw|]. split; [exact Hp|lia].
        * rewrite Hfl, Hdr. exists c', w', (d :: ds1), ds2. cbn [map app]. rewrite Hevd, Hsplit.
          split; [reflexivity|]. split; [reflexivity|]. split; [exact Hc|]. split; [exact Hw|]. split; [exact Hp|lia].
  Qed.

  Variable chunks0 : list bytes.
  Variable docs0 : list bytes.
  (* every buffer that can occur (pending proper prefix of a code word + one chunk) is accepted for its size *)
  Hypothesis fits_all : forall w ch d, In ch chunks0 -> In d docs0 -> length w < length d -> fits (w ++ ch).

  Lemma cnext_cinv c w (ch : bytes) : cinv c w -> ch <> [] ->
    exists s, holds s w /\
    cnext F c (Some ch) =
    match ffeed F s ch with
    | Need s' => ({| cbuf := []; ccons := Some s' |}, RStop)
    | Done p rest => ({| cbuf := rest; ccons := None |}, RPkt p)
    | Fail e rest => ({| cbuf := rest; ccons := None |}, RErr e)
    | Crash => ({| cbuf := []; ccons := None |}, RCrash)
    end.
  Proof.
    intros [Hb Hc] Hch. destruct Hc as [[Hn Hw]|(s & Hs & Hr)].
    - exists (finit F). split; [left; auto|]. apply cnext_suspended; [|exact Hch]. split; [exact Hb|right; auto].
    - exists s. split; [right; exact Hr|]. apply cnext_suspended; [|exact Hch]. split; [exact Hb|left; exact Hs].
  Qed.

  Theorem deliver_spec chunks : forall c w ds fuel,
    cinv c w -> Forall (fun ch => ch <> []) chunks -> Forall doc ds -> incl chunks chunks0 -> incl ds docs0 ->
    w ++ concat chunks = concat ds -> pending_ok w ds -> length (w ++ concat chunks) < fuel ->
    exists c', cdeliver F fuel c chunks = (c', map ev ds) /\ idle c'.
  Proof.
    induction chunks as [|ch cs IH]; intros c w ds fuel Hc Hne Hd Hic Hid Heq Hp Hf.
    - cbn [concat] in Heq. rewrite app_nil_r in Heq. cbn [cdeliver].
      destruct ds as [|d ds'].
      + exists c. split; [reflexivity|]. cbn in Hp. subst w. destruct Hc as [Hb [[Hn _]|(s & Hs & Hr)]].
        * split; assumption.
        * exfalso. eapply rep_ne; eauto.
      + exfalso. cbn in Hp. cbn [concat] in Heq. rewrite Heq, app_length in Hp. lia.
    - inversion Hne as [|? ? Hch Hcs]; subst. cbn [concat] in Heq, Hf. rewrite app_assoc in Heq, Hf.
      destruct ds as [|d ds'].
      + exfalso. cbn in Heq. destruct w; destruct ch; cbn in Heq; congruence.
      + cbn in Hp.
        assert (Hfit : fits (w ++ ch)) by (apply (fits_all w ch d); [apply Hic; left; reflexivity|apply Hid; left; reflexivity|exact Hp]).
        destruct (cnext_cinv c w ch Hc Hch) as (s & Hh & Hnext).
        cbn [cdeliver]. unfold cstep. rewrite Hnext.
        destruct (feed_cases s w ch (concat cs) d ds' Hh Hch Hd Heq Hp Hfit)
          as [(s' & Hn & Hrep & Hlen)|(r & Hr & Ht & Hev)].
        * rewrite Hn.
          destruct (IH {| cbuf := []; ccons := Some s' |} (w ++ ch) (d :: ds') fuel) as (c' & Hdl & Hi); auto.
          { split; [reflexivity|]. right. exists s'. auto. }
          { intros x Hx. apply Hic. right. exact Hx. }
          rewrite Hdl. exists c'. split; [reflexivity|exact Hi].
        * inversion Hd as [|? ? Hdd Hds]; subst.
          assert (Hf' : length d + length r + length (concat cs) < fuel) by (rewrite Hr, !app_length in Hf; lia).
          assert (Hlr : length r < fuel) by lia.
          assert (Hfr : fits r) by (apply (fits_suffix d r); rewrite <- Hr; exact Hfit).
          destruct (drain_spec fuel r (concat cs) ds' Hlr Hds Ht Hfr) as (c1 & w1 & ds1 & ds2 & Hsplit & Hdr & Hc1 & Hw1 & Hp1 & Hl1).
          destruct (IH c1 w1 ds2 fuel) as (c' & Hdl & Hi); auto.
          { rewrite Hsplit in Hds. apply Forall_app in Hds. tauto. }
          { intros x Hx. apply Hic. right. exact Hx. }
          { intros x Hx. apply Hid. right. rewrite Hsplit. apply in_or_app. right. exact Hx. }
          { rewrite app_length. lia. }
          destruct Hev as [(p & Hdn & Hevd)|(e & Hfl & Hevd)].
          -- rewrite Hdn, Hdr, Hdl. exists c'. split; [|exact Hi]. cbn [map]. rewrite Hevd, Hsplit, map_app. reflexivity.
          -- rewrite Hfl, Hdr, Hdl. exists c'. split; [|exact Hi]. cbn [map]. rewrite Hevd, Hsplit, map_app. reflexivity.
  Qed.

  (* from the initial state *)
  Corollary roundtrip_spec fuel :
    Forall (fun ch => ch <> []) chunks0 -> Forall doc docs0 -> concat chunks0 = concat docs0 -> length (concat chunks0) < fuel ->
    exists c', cdeliver F fuel (cinit F) chunks0 = (c', map ev docs0) /\ idle c'.
  Proof.
    intros Hne Hd Heq Hf.
    apply (deliver_spec chunks0 (cinit F) [] docs0 fuel); auto using incl_refl.
    - split; [reflexivity|left; split; reflexivity].
    - destruct docs0 as [|d ds]; cbn; [reflexivity|]. inversion Hd; subst. pose proof (doc_ne d H1). destruct d; [congruence|cbn; lia].
  Qed.
End PrefixCode.
