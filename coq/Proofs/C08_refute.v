(* C08 — witnesses for the two liveness findings, as theorems about the composed model:
   without the re-check after the recv lock (f_recheck = false) two concurrent recv() reach a state in which nothing
   but a new application call is enabled although a complete record is unread; and the decision procedure for
   "stuck" used by the witnesses. *)
From Coq Require Import ZArith List Bool Lia ZifyBool.
From EN Require Import Lib.Bytes Conc.TlsBase Conc.TlsPump Conc.IdealTls Conc.TlsDuplex
  Proofs.Tls_tactics Proofs.C08_proofs Proofs.C08_duplex Proofs.C08_progress.

Section StuckDecision.
Variable fl : flags.
Variable E D : byte -> byte.
Variable M : nat.
Notation ep_step := (ep_step fl E D M).
Notation dstep := (dstep fl E D M).
Notation sys_step := (sys_step fl).

(* every label other than a new application call that could possibly be enabled *)
Definition candidates_ep (e : endpoint) (nin : bytes) : list clabel :=
  flat_map (fun t => [CSsl t; CGo t; CSent t] ++ map (CRcvd t) (seq 1 (length nin))) (seq 0 (length (tasks_of e))).

Definition ep_stuckb (e : endpoint) (nin nout : bytes) : bool :=
  forallb (fun cl => match ep_step e nin nout cl with None => true | Some _ => false end) (candidates_ep e nin).

Lemma sys_step_bound : forall y t lb r, sys_step y (SStep t lb) = Some r -> t < length (y_tasks y).
Proof.
  intros y t lb r H. cbn in H. destruct (nth_error (y_tasks y) t) eqn:Hn; [| discriminate].
  apply nth_error_Some. congruence.
Qed.

Lemma pump_bound : forall e i w g nin nout t lb r,
  TlsDuplex.pump fl e i w g nin nout (SStep t lb) = Some r -> t < length (tasks_of e).
Proof.
  intros e i w g nin nout t lb r H. unfold TlsDuplex.pump in H.
  destruct (sys_step (e_sys e) (SStep t lb)) as [[y acts] |] eqn:S; [| discriminate].
  eapply sys_step_bound; eauto.
Qed.

Lemma enabled_in_candidates : forall e nin nout cl r,
  ep_step e nin nout cl = Some r -> (forall m n d, cl <> CSpawn m n d) -> In cl (candidates_ep e nin).
Proof.
  intros e nin nout cl r H Hns. unfold candidates_ep. apply in_flat_map.
  destruct cl as [m n d | t | t | t | t k]; cbn [TlsDuplex.ep_step] in H.
  - exfalso. eapply Hns; reflexivity.
  - exists t. split.
    + apply in_seq. destruct (nth_error (y_tasks (e_sys e)) t) eqn:Hn; [| discriminate].
      assert (t < length (y_tasks (e_sys e))) by (apply nth_error_Some; congruence). unfold tasks_of. lia.
    + cbn. auto.
  - exists t. split; [apply in_seq; pose proof (pump_bound _ _ _ _ _ _ _ _ _ H); lia | cbn; auto].
  - exists t. split; [apply in_seq; pose proof (pump_bound _ _ _ _ _ _ _ _ _ H); lia | cbn; auto].
  - destruct (Nat.leb 1 k && Nat.leb k (length nin)) eqn:Hk; [| discriminate].
    apply andb_prop in Hk. destruct Hk as [K1 K2]. apply Nat.leb_le in K1, K2.
    exists t. split; [apply in_seq; pose proof (pump_bound _ _ _ _ _ _ _ _ _ H); lia |].
    cbn. right; right; right. apply in_map. apply in_seq. lia.
Qed.

Lemma ep_stuckb_sound : forall e nin nout, ep_stuckb e nin nout = true -> ep_stuck fl E D M e nin nout.
Proof.
  intros e nin nout H cl Hns. destruct (ep_step e nin nout cl) as [r |] eqn:S; [| reflexivity].
  exfalso. unfold ep_stuckb in H. rewrite forallb_forall in H.
  specialize (H cl (enabled_in_candidates _ _ _ _ _ S Hns)). rewrite S in H. discriminate.
Qed.

Definition stuckb (c : duplex) : bool :=
  ep_stuckb (dA c) (nBA c) (nAB c) && ep_stuckb (dB c) (nAB c) (nBA c).

Lemma stuckb_sound : forall c, stuckb c = true -> stuck fl E D M c.
Proof.
  intros c H side cl Hns. apply andb_prop in H. destruct H as [HA HB].
  unfold TlsDuplex.dstep. destruct side.
  - rewrite (ep_stuckb_sound _ _ _ HA cl Hns). reflexivity.
  - rewrite (ep_stuckb_sound _ _ _ HB cl Hns). reflexivity.
Qed.

End StuckDecision.

(* ------------------------------------------------------------------ the witness *)

Definition Ew (b : byte) : byte := N.succ b.
Definition Dw (b : byte) : byte := N.pred b.

(* both handshakes (ciphertext fragmented), then two recv() on B, two one-byte send_all on A whose records reach B in ONE
   recv_into of the first reader; the first reader returns its byte; the second one takes the recv lock and waits *)
Definition handshake_trace : list (bool * clabel) :=
  [ (true, CSpawn MHandshake 0 []); (false, CSpawn MHandshake 0 []);
    (true, CSsl 0); (true, CGo 0); (true, CSent 0); (true, CGo 0);
    (false, CSsl 0); (false, CGo 0); (false, CGo 0); (false, CRcvd 0 1); (false, CSsl 0); (false, CGo 0); (false, CGo 0);
    (false, CRcvd 0 2); (false, CSsl 0); (false, CGo 0); (false, CSent 0); (false, CGo 0);
    (true, CRcvd 0 3); (true, CSsl 0); (true, CGo 0); (true, CSent 0);
    (false, CRcvd 0 3); (false, CSsl 0); (false, CGo 0) ].

(* (lz: with meta/fixes/C08_read_result_without_checkpoint.diff the first reader returns without the flush point) *)
Definition two_readers_trace (lz : bool) : list (bool * clabel) :=
  handshake_trace ++
  [ (false, CSpawn MRead 10 []); (false, CSpawn MRead 10 []);
    (false, CSsl 1); (false, CGo 1); (false, CGo 1);
    (false, CSsl 2); (false, CGo 2);
    (true, CSpawn MWrite 0 [1%N]); (true, CSsl 1); (true, CGo 1); (true, CSent 1);
    (true, CSpawn MWrite 0 [2%N]); (true, CSsl 2); (true, CGo 2); (true, CSent 2);
    (false, CRcvd 1 6); (false, CSsl 1) ] ++ (if lz then [] else [(false, CGo 1)]) ++
  [ (false, CGo 2) ].

Definition unread_record (c : duplex) : bool :=
  match parse1 Dw (i_rbio (e_ideal (dB c))) with Some _ => true | None => false end.

Lemma two_readers_stuck : forall cf lz,
  exists c, dexec {| f_recheck := false; f_skiplock := false; f_close_flush := cf; f_lazyread := lz |} Ew Dw 4 duplex0 (two_readers_trace lz) = Some c /\
            stuckb {| f_recheck := false; f_skiplock := false; f_close_flush := cf; f_lazyread := lz |} Ew Dw 4 c = true /\
            unread_record c = true /\
            e_got (dB c) = [1%N] /\ e_written (dA c) = [1%N; 2%N] /\
            map (fun tk => (t_meth tk, t_pc tk)) (tasks_of (dB c)) = [(MHandshake, PEnd (ROk 0)); (MRead, PEnd (ROk 1)); (MRead, PRecving)].
Proof.
  intros cf lz. destruct cf, lz; eexists; vm_compute; repeat split; reflexivity.
Qed.

(* ------------------------------------------------------------------ the send lock and a call that has nothing to flush *)

Section SendLockFacts.
Variable fl : flags.
Notation step := (step fl).
Notation go := (go fl).

Lemma step_call_matching : forall m b s x,
  a_meth x = m -> a_arg x = expected_arg m b s ->
  negb (meth_eqb (a_meth x) m && Nat.eqb (a_arg x) (expected_arg m b s)) = false.
Proof. intros m b s x -> ->. rewrite meth_eqb_refl, Nat.eqb_refl. reflexivity. Qed.

(* with the fix: WANT_READ and nothing to flush -> the task goes straight for the recv lock, whoever holds the send lock;
   a successful call with nothing to flush returns at once (no checkpoint at which a cancellation could drop the result) *)
Lemma no_send_lock_when_nothing_to_flush : forall m b s x,
  f_skiplock fl = true -> a_meth x = m -> a_arg x = expected_arg m b s -> wbio s ++ a_wdelta x = [] ->
  (a_out x = SWantRead -> step m b s PCall (LSsl x) = Some (set_wbio s [], PRecvWait (feeds s), [])) /\
  (forall v, a_out x = SOk v -> m <> MWrite -> step m b s PCall (LSsl x) = Some (set_wbio s [], PEnd (ROk v), [])).
Proof.
  intros m b s x Hf Hm Ha Hw. split.
  - intros Ho. unfold TlsPump.step. rewrite (step_call_matching m b s x Hm Ha), Ho. cbv zeta.
    unfold flush_pc, wbio_empty. cbn [wbio set_wbio feeds]. rewrite Hw, Hf. reflexivity.
  - intros v Ho Hnw. unfold TlsPump.step. rewrite (step_call_matching m b s x Hm Ha), Ho. cbv zeta.
    unfold done_pc, flush_pc, wbio_empty. cbn [wbio set_wbio]. rewrite Hw, Hf.
    destruct m; cbn [meth_eqb]; try (destruct (f_lazyread fl)); try reflexivity; congruence.
Qed.

(* without it: the task queues on the send lock although it has nothing to send — a reader cannot reach recv_into while
   another task's send_all is in flight, and a successful call can still be cancelled (its result is lost) *)
Lemma send_lock_taken_for_nothing : forall m b s x,
  f_skiplock fl = false -> a_meth x = m -> a_arg x = expected_arg m b s -> wbio s ++ a_wdelta x = [] ->
  (a_out x = SWantRead ->
     step m b s PCall (LSsl x) = Some (set_wbio s [], PFlush (KRead (feeds s)), []) /\
     (send_lock s = true -> go m (set_wbio s []) (PFlush (KRead (feeds s))) = None)) /\
  (forall v bt, a_out x = SOk v -> m <> MWrite -> f_lazyread fl = false ->
     step m b s PCall (LSsl x) = Some (set_wbio s [], PFlush (KRet v), []) /\
     step m b (set_wbio s []) (PFlush (KRet v)) (LT (TCancel bt)) = Some (set_wbio s [], PEnd (RCancel bt), [])).
Proof.
  intros m b s x Hf Hm Ha Hw. split.
  - intros Ho. split.
    + unfold TlsPump.step. rewrite (step_call_matching m b s x Hm Ha), Ho. cbv zeta.
      unfold flush_pc, wbio_empty. cbn [wbio set_wbio feeds]. rewrite Hw, Hf. reflexivity.
    + intros L. unfold TlsPump.go. cbn [send_lock set_wbio]. rewrite L. reflexivity.
  - intros v bt Ho Hnw Hlz. split.
    + unfold TlsPump.step. rewrite (step_call_matching m b s x Hm Ha), Ho. cbv zeta.
      unfold done_pc, flush_pc, wbio_empty. cbn [wbio set_wbio]. rewrite Hw, Hf, Hlz. destruct m; try reflexivity. congruence.
    + reflexivity.
Qed.

(* ---- a successful read and the ciphertext of OTHER tasks pending in the outgoing BIO (finding
   cancelled-recv-loses-plaintext-behind-pending-ciphertext).  With meta/fixes/C08_read_result_without_checkpoint.diff
   (f_lazyread = true) ssl_object.read() -> bytes is followed by the return, in every state: no lock, no transport call,
   no point at which a cancellation could be delivered. *)
Lemma read_result_returned_at_once : forall b s x v,
  f_lazyread fl = true -> a_meth x = MRead -> a_arg x = expected_arg MRead b s -> a_out x = SOk v ->
  step MRead b s PCall (LSsl x) = Some (set_wbio s (wbio s ++ a_wdelta x), PEnd (ROk v), []).
Proof.
  intros b s x v Hlz Hm Ha Ho. unfold TlsPump.step. rewrite (step_call_matching MRead b s x Hm Ha), Ho. cbv zeta.
  unfold done_pc. rewrite Hlz. reflexivity.
Qed.

(* without it (f_lazyread = false): with anything pending in the outgoing BIO -- for instance the ciphertext of a send_all
   that queues behind another one parked by back-pressure -- the reader queues on the send lock holding its bytes, and a
   cancellation delivered there ends the call: the bytes are gone (the SSL object will not return them again) *)
Lemma read_result_lost_behind_pending_ciphertext : forall b s x v bt,
  f_lazyread fl = false -> a_meth x = MRead -> a_arg x = expected_arg MRead b s -> a_out x = SOk v ->
  wbio s ++ a_wdelta x <> [] ->
  let s1 := set_wbio s (wbio s ++ a_wdelta x) in
  step MRead b s PCall (LSsl x) = Some (s1, PFlush (KRet v), []) /\
  (send_lock s = true -> go MRead s1 (PFlush (KRet v)) = None) /\
  step MRead b s1 (PFlush (KRet v)) (LT (TCancel bt)) = Some (s1, PEnd (RCancel bt), []).
Proof.
  intros b s x v bt Hlz Hm Ha Ho Hne s1. split; [| split].
  - unfold TlsPump.step. rewrite (step_call_matching MRead b s x Hm Ha), Ho. cbv zeta.
    unfold done_pc, flush_pc, wbio_empty. rewrite Hlz. cbn [andb wbio set_wbio].
    destruct (wbio s ++ a_wdelta x); [congruence |]. rewrite andb_false_r. reflexivity.
  - intros L. unfold TlsPump.go. unfold s1. cbn [send_lock set_wbio]. rewrite L. reflexivity.
  - reflexivity.
Qed.

End SendLockFacts.
