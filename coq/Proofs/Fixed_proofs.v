(* fixed-size framing (read_exactly / FixedSizePacketSerializer), copying path: consumer = specification, unconditionally *)
From Coq Require Import ZArith List Bool Lia Arith.
From EN Require Import Lib.Bytes Frame.Framer Frame.ReadUntil Stream.Consumer Stream.SpecDecode Proofs.Bytes_proofs.
Import ListNotations.

Section FX.
  Context {P : Type}.
  Variable size : nat.
  Variable dec : decoder P.
  Hypothesis size_pos : 1 <= size.

  Let F := rx_framer size dec.
  Notation fx_events := (fx_events size dec).
  Notation fx_fuel := (fx_fuel size dec).

  Lemma fx_fuel_enough f g s : length s <= f -> length s <= g -> fx_fuel f s = fx_fuel g s.
  Proof.
    revert g s; induction f as [|f IH]; intros g s Hf Hg.
    - destruct s; [|simpl in Hf; lia]. destruct g; cbn [SpecDecode.fx_fuel]; [reflexivity|].
      destruct (Nat.ltb_spec (length (@nil byte)) size); [reflexivity | simpl in *; lia].
    - destruct g as [|g].
      + destruct s; [|simpl in Hg; lia]. cbn [SpecDecode.fx_fuel].
        destruct (Nat.ltb_spec (length (@nil byte)) size); [reflexivity | simpl in *; lia].
      + cbn [SpecDecode.fx_fuel]. destruct (Nat.ltb_spec (length s) size); [reflexivity|].
        rewrite (IH g) by (rewrite skipn_length; lia). reflexivity.
  Qed.

  Lemma fx_short s : length s < size -> fx_events s = ([], s).
  Proof.
    intros H. unfold SpecDecode.fx_events. destruct (length s) eqn:E; cbn [SpecDecode.fx_fuel]; [reflexivity|].
    destruct (Nat.ltb_spec (length s) size); [reflexivity | lia].
  Qed.

  Lemma fx_step s : size <= length s ->
    fx_events s = (record_event dec (firstn size s) :: fst (fx_events (skipn size s)), snd (fx_events (skipn size s))).
  Proof.
    intros H. unfold SpecDecode.fx_events. destruct (length s) as [|n] eqn:E; [lia|]. cbn [SpecDecode.fx_fuel].
    destruct (Nat.ltb_spec (length s) size); [lia|].
    rewrite (fx_fuel_enough n (length (skipn size s))) by (rewrite ?skipn_length; lia).
    destruct (fx_fuel _ _); reflexivity.
  Qed.

  Lemma fx_app x y :
    fx_events (x ++ y) = (fst (fx_events x) ++ fst (fx_events (snd (fx_events x) ++ y)),
                          snd (fx_events (snd (fx_events x) ++ y))).
  Proof.
    remember (length x) as n eqn:Hn. revert x Hn. induction n as [n IH] using lt_wf_ind. intros x Hn.
    destruct (le_lt_dec size (length x)) as [Hge|Hlt].
    - rewrite (fx_step (x ++ y)) by (rewrite app_length; lia). rewrite (fx_step x) by exact Hge. cbn [fst snd].
      rewrite firstn_app_le, skipn_app_le by lia.
      rewrite (IH (length (skipn size x))) by (rewrite ?skipn_length; lia || reflexivity). reflexivity.
    - rewrite (fx_short x Hlt). cbn [fst snd app]. destruct (fx_events (x ++ y)); reflexivity.
  Qed.

  Lemma fx_tail_len x : length (snd (fx_events x)) <= length x.
  Proof.
    unfold SpecDecode.fx_events. generalize (length x) at 1 as f. intros f. revert x.
    induction f as [|f IHf]; intros x; cbn [SpecDecode.fx_fuel]; [simpl; lia|].
    destruct (Nat.ltb_spec (length x) size); [simpl; lia|].
    specialize (IHf (skipn size x)). destruct (fx_fuel f _). simpl in *. rewrite skipn_length in IHf. lia.
  Qed.

  Lemma fx_tail_short x : length (snd (fx_events x)) < size.
  Proof.
    remember (length x) as n eqn:Hn. revert x Hn. induction n as [n IH] using lt_wf_ind. intros x Hn.
    destruct (le_lt_dec size (length x)) as [Hge|Hlt].
    - rewrite (fx_step x Hge). cbn [snd]. eapply IH; [|reflexivity]. rewrite skipn_length. lia.
    - rewrite (fx_short x Hlt). exact Hlt.
  Qed.

  Definition mkx (b : bytes) (k : option (option bytes)) : cstate F := @Build_cstate P F b k.

  Inductive xrep : cstate F -> bytes -> Prop :=
  | xrep_idle : xrep (mkx [] None) []
  | xrep_wait (buf : bytes) : buf <> [] -> length buf < size -> xrep (mkx [] (Some (Some buf))) buf.

  Definition xres (r : fres (option bytes) P) : cstate F * nres P :=
    match r with
    | Need s => (mkx [] (Some s), RStop)
    | Done p rest => (mkx rest None, RPkt p)
    | Fail e rest => (mkx rest None, RErr e)
    | Crash => (mkx [] None, RCrash)
    end.

  Lemma xnext_none_nil : cnext F (mkx [] None) None = (mkx [] None, RStop).
  Proof. reflexivity. Qed.

  Lemma xnext_none_buf (r : bytes) : r <> [] -> cnext F (mkx r None) None = xres (rx_check size dec r).
  Proof. destruct r; [congruence|]. intros _. reflexivity. Qed.

  Lemma xnext_chunk c w (ch : bytes) : xrep c w -> ch <> [] -> cnext F c (Some ch) = xres (rx_check size dec (w ++ ch)).
  Proof. intros Hc Hch. destruct ch; [congruence|]. destruct Hc; reflexivity. Qed.

  Lemma rx_check_short (b : bytes) : length b < size -> rx_check size dec b = Need (Some b).
  Proof. intros H. unfold rx_check. destruct (Nat.ltb_spec (length b) size); [reflexivity | lia]. Qed.

  Lemma rx_check_full (b : bytes) : size <= length b ->
    rx_check size dec b = match dec (firstn size b) with
                          | Some p => Done p (skipn size b)
                          | None => Fail EDecode (skipn size b)
                          end.
  Proof. intros H. unfold rx_check. destruct (Nat.ltb_spec (length b) size); [lia | reflexivity]. Qed.

  Lemma xdrain_spec fuel : forall r : bytes,
    length r < fuel ->
    exists c', cdrain F fuel (mkx r None) = (c', fst (fx_events r)) /\ xrep c' (snd (fx_events r)).
  Proof.
    induction fuel as [|f IH]; intros r Hf; [lia|]. cbn [cdrain].
    destruct r as [|b0 r0].
    - rewrite xnext_none_nil. rewrite fx_short by (simpl; lia). eexists; split; [reflexivity | constructor].
    - set (r := b0 :: r0) in *. assert (Hne : r <> []) by (unfold r; discriminate).
      rewrite (xnext_none_buf r Hne).
      destruct (le_lt_dec size (length r)) as [Hge|Hlt].
      + rewrite rx_check_full by exact Hge. rewrite (fx_step r Hge). unfold record_event.
        destruct (IH (skipn size r)) as (c' & Hd & Hc'); [rewrite skipn_length; lia|].
        destruct (dec _); cbn [xres]; rewrite Hd; eexists; (split; [reflexivity | exact Hc']).
      + rewrite rx_check_short by exact Hlt. cbn [xres]. rewrite (fx_short r Hlt).
        eexists; split; [reflexivity | constructor; assumption].
  Qed.

  Theorem xdeliver_spec cs : forall c w fuel,
    xrep c w -> Forall (fun ch => ch <> []) cs -> length (w ++ concat cs) < fuel ->
    exists c', cdeliver F fuel c cs = (c', fst (fx_events (w ++ concat cs))) /\ xrep c' (snd (fx_events (w ++ concat cs))).
  Proof.
    induction cs as [|ch cs IH]; intros c w fuel Hc Hcs Hf.
    - cbn [cdeliver concat]. rewrite app_nil_r.
      assert (Hw : length w < size) by (destruct Hc; simpl; lia).
      rewrite (fx_short w Hw). eexists; split; [reflexivity | exact Hc].
    - inversion Hcs as [|? ? Hch Hcs']; subst. cbn [concat] in *.
      cbn [cdeliver]. unfold cstep. rewrite (xnext_chunk _ _ _ Hc Hch).
      set (b := w ++ ch) in *.
      assert (Hassoc : w ++ ch ++ concat cs = b ++ concat cs) by (unfold b; rewrite app_assoc; reflexivity).
      rewrite Hassoc in *.
      assert (Hbne : b <> []) by (unfold b; destruct w; [simpl; exact Hch | discriminate]).
      destruct (le_lt_dec size (length b)) as [Hge|Hlt].
      + rewrite rx_check_full by exact Hge.
        destruct (xdrain_spec fuel (skipn size b)) as (c2 & Hd & Hc2); [rewrite skipn_length, app_length in *; lia|].
        destruct (IH c2 (snd (fx_events (skipn size b))) fuel Hc2 Hcs') as (c3 & Hdel & Hc3).
        { pose proof (fx_tail_len (skipn size b)) as Hl. rewrite !app_length in *. rewrite skipn_length in Hl. lia. }
        rewrite (fx_app b (concat cs)). rewrite (fx_step b Hge). cbn [fst snd]. unfold record_event.
        destruct (dec (firstn size b)); cbn [xres]; rewrite Hd, Hdel; eexists; (split; [reflexivity | exact Hc3]).
      + rewrite rx_check_short by exact Hlt. cbn [xres].
        destruct (IH (mkx [] (Some (Some (b : bytes)))) b fuel) as (c3 & Hdel & Hc3);
          [constructor; assumption | exact Hcs' | exact Hf |].
        rewrite Hdel. eexists; split; [reflexivity | exact Hc3].
  Qed.

  (* round trip: records produced by an encoder of constant size *)
  Variable enc : P -> bytes.
  Definition fx_valid (p : P) : Prop := length (enc p) = size /\ dec (enc p) = Some p.
  Definition fx_stream (pkts : list P) : bytes := concat (map enc pkts).

  Lemma fx_spec_stream pkts : Forall fx_valid pkts -> fx_events (fx_stream pkts) = (map RPkt pkts, []).
  Proof.
    induction 1 as [|p pkts (Hl & Hd) _ IH].
    - apply fx_short. simpl. lia.
    - unfold fx_stream in *. cbn [map concat].
      rewrite fx_step by (rewrite app_length; lia).
      rewrite firstn_app_le, skipn_app_le by lia.
      replace (firstn size (enc p)) with (enc p) by (rewrite <- Hl; symmetry; apply firstn_all).
      replace (skipn size (enc p)) with (@nil byte) by (rewrite <- Hl; symmetry; apply skipn_all). cbn [app].
      rewrite IH. cbn [fst snd map]. unfold record_event. rewrite Hd. reflexivity.
  Qed.

  Lemma fixed_roundtrip_l pkts (chunks : list bytes) fuel :
    Forall fx_valid pkts -> Forall (fun ch => ch <> []) chunks -> concat chunks = fx_stream pkts ->
    length (fx_stream pkts) < fuel ->
    cdeliver F fuel (cinit _) chunks = (mkx [] None, map RPkt pkts).
  Proof.
    intros Hv Hne Hc Hf.
    destruct (xdeliver_spec chunks (cinit _) [] fuel) as (c' & Hd & Hc'); [constructor | exact Hne | cbn [app]; rewrite Hc; exact Hf |].
    cbn [app] in *. rewrite Hc in *. rewrite (fx_spec_stream _ Hv) in *. cbn [fst snd] in *.
    rewrite Hd. f_equal. inversion Hc'; [reflexivity | congruence].
  Qed.
End FX.
